"""BIP-39 helpers for the generators (words come from /repo's own english.txt)."""
import hashlib
import os
from vlib import core

_words = None


def words():
    global _words
    if _words is None:
        # the committed REFERENCE list (sha256 2f5eed53…dbda), not the repository's copy: a change to the
        # embedded list must show up as a difference, not be followed by the generator
        with open(os.path.join(core.VERIF, "data", "bip39_english.txt"), encoding="utf-8") as f:
            _words = [w.strip() for w in f.read().strip().split("\n")]
    return _words


def from_entropy(ent):
    cs = len(ent) * 8 // 32
    v = (int.from_bytes(ent, "big") << cs) | (hashlib.sha256(ent).digest()[0] >> (8 - cs))
    n = (len(ent) * 8 + cs) // 11
    w = words()
    return [w[(v >> (11 * (n - 1 - i))) & 2047] for i in range(n)]


def rand_entropy(rng, nbytes):
    return bytes(rng.getrandbits(8) for _ in range(nbytes))


def rand_phrase(rng, nwords=None):
    nwords = nwords or rng.choice([12, 15, 18, 21, 24])
    return from_entropy(rand_entropy(rng, nwords * 4 // 3))


def phrase_with_word(rng, nwords, pos, idx):
    """a valid phrase of nwords words with word #idx at position pos"""
    nb = nwords * 4 // 3
    cs = nwords // 3
    for _ in range(100000):
        ent = int.from_bytes(rand_entropy(rng, nb), "big")
        # place idx in bits [11*pos, 11*pos+11) of the (ENT+CS)-bit string; the part that falls
        # into the entropy is forced, the checksum part (only for the last word) must match by luck
        total = nb * 8 + cs
        shift = total - 11 * (pos + 1)
        if shift >= cs:
            mask = 2047 << (shift - cs)
            ent = (ent & ~mask) | (idx << (shift - cs))
        else:
            # last word: top 11-cs bits are entropy
            k = 11 - cs
            ent = (ent >> k << k) | (idx >> cs)
        ws = from_entropy(ent.to_bytes(nb, "big"))
        if ws[pos] == words()[idx]:
            return ws
    raise RuntimeError("no phrase found")
