"""Byte sequences that some layer between the user's data and the code under test might treat specially: encoding marks,
line-ending conventions, prefixes, terminators, container magic.  Input channels are binary: nothing may be skipped,
translated or cut at any of these."""

PREFIXES = [b"\xef\xbb\xbf", b"\xff\xfe", b"\xfe\xff", b"\x00\x00\xfe\xff", b"\xff\xfe\x00\x00", b"\xef\xbb", b"\xef", b"\xbf\xbb\xef",
            b"0x", b"0X", b"\\x", b"x", b"#", b"#!", b"//", b"%", b"data:", b"base64,", b"-----BEGIN", b"@", b"-", b"--", b"=",
            b"\n", b"\r\n", b"\r", b" ", b"\t", b"\x0b", b"\x0c", b"\x00", b"\x00\x00", b"\x1a", b"\x04", b"\x1b", b"\x7f", b"\x7fELF", b"\x1f\x8b\x08",
            b"PK\x03\x04", b"{", b"[", b"\"", b"'", b"`", b"\xc2\x85", b"\xc2\xa0", b"\xe2\x80\x8b", b"\xe2\x80\xa8", b"\xe3\x80\x80", b"\xff", b"\x80", b"\xc0\x80", b"\xed\xa0\x80"]
SUFFIXES = [b"\n", b"\r\n", b"\r", b"\n\n", b" ", b"\t", b"\x00", b"\x1a", b"\x04", b"\xef\xbb\xbf", b"\xc2\x85", b"\xe2\x80\xa8", b"\\", b"\\n", b"\xff", b"\xc3"]
INFIXES = [b"\r\n", b"\n", b"\r", b"\x00", b"\x1a", b"\x04", b"\xef\xbb\xbf", b"\\n", b"\\x41", b"%41", b"\x1b[0m", b"\xff", b"\xc3"]


def variants(rng, body):
    """(bytes, tag) inputs built around `body`"""
    out = []
    for p in PREFIXES:
        out.append((p + body, "magic-prefix"))
        out.append((p, "magic-only"))
    for p in rng.sample(PREFIXES, 8):
        out.append((p + p + body, "magic-prefix-twice"))
    for s in SUFFIXES:
        out.append((body + s, "magic-suffix"))
    for m in INFIXES:
        k = rng.randrange(len(body) + 1)
        out.append((body[:k] + m + body[k:], "magic-infix"))
    return out


# Data that is itself the TEXT of an encoding: a command that takes bytes must not "helpfully" decode it.
ENCODED_TEXTS = [b"0xdeadbeef", b"0xdeadbeef\n", b"0xDEADBEEF", b"deadbeef", b"0x", b"0x\n", b"0xCAFE 00\n", b"0x00", b"0x0", b"0xzz",
                 b"3q2+7w==", b"3q2-7w", b"data:application/octet-stream;base64,3q2+7w==", b'{"a":1}', b'"quoted"', b"[1,2]", b"null", b"%41%42", b"\\x41\\x42",
                 b"&amp;&#65;", b"=?utf-8?B?3q2+7w==?=", b"-----BEGIN X-----\n3q2+7w==\n-----END X-----\n", b"\x1f\x8b\x08\x00", b"0b1010", b"0o17", b"1e3", b"\\u0041"]


def text_like(rng, n):
    """byte strings of EXACTLY n bytes that are binary data to the code under test but look like the text of an encoding:
    hex digits (lower, upper, 0x-prefixed), decimal digits, base64 / base58 alphabets, printable ASCII, words and blanks,
    a JSON string, percent-escapes, UTF-8 text, all-blank.  Returns [(bytes, tag)]."""
    import base64
    out = []
    raw = bytes(rng.getrandbits(8) for _ in range(n))
    hexs = (raw.hex() * 2)[:n]
    cands = [("hex-lower", hexs), ("hex-upper", hexs.upper()), ("hex-0x", ("0x" + hexs)[:n]), ("hex-0X", ("0X" + hexs.upper())[:n]),
             ("hex-mixed", "".join(c.upper() if rng.random() < 0.5 else c for c in hexs)),
             ("decimal", "".join(rng.choice("0123456789") for _ in range(n))),
             ("base64", (base64.b64encode(raw).decode() * 2)[:n]), ("base64-pad", (base64.b64encode(raw).decode()[: max(0, n - 2)] + "==")[:n]),
             ("base58", "".join(rng.choice("123456789ABCDEFGHJKLMNPQRSTUVWXYZabcdefghijkmnopqrstuvwxyz") for _ in range(n))),
             ("printable", "".join(chr(rng.randrange(0x21, 0x7f)) for _ in range(n))),
             ("words", ("abandon ability able about above absent absorb abstract absurd abuse access accident " * 8)[:n]),
             ("json-string", ('"' + hexs)[: max(0, n - 1)] + '"'), ("percent", ("%41%42%43" * n)[:n]), ("blank", " " * n), ("zeros-text", "0" * n), ("f-text", "f" * n),
             ("newline-end", hexs[: max(0, n - 1)] + "\n")]
    for tag, t in cands:
        b = t.encode("ascii", "replace")
        if len(b) == n:
            out.append((b, "text-like:" + tag))
    u = ("pässwörd é한글 " * n).encode("utf-8")
    k = n
    while k > 0 and (u[k] & 0xC0) == 0x80 if k < len(u) else False:
        k -= 1
    if n and len(u[:n].decode("utf-8", "ignore").encode("utf-8")) == n:
        out.append((u[:n], "text-like:utf8"))
    return out
