"""Equivalent re-spellings of a JSON text (RFC 8259): optional white space around structural characters, and any character
of a string written as a \\uXXXX escape (surrogate pair above the BMP), `/` as `\\/`.  Number tokens and existing
escapes are kept as they are.  The document denotes exactly the same value, so every answer must be unchanged."""

WS = ["", "", " ", "\n", "\t", "\r\n", "  "]


def respell(rng, text, p_escape=0.12, p_ws=0.3):
    out = []
    i, n = 0, len(text)
    in_str = False
    while i < n:
        ch = text[i]
        if in_str:
            if ch == "\\":
                # keep an existing escape untouched
                if i + 1 < n and text[i + 1] == "u":
                    out.append(text[i:i + 6])
                    i += 6
                else:
                    out.append(text[i:i + 2])
                    i += 2
                continue
            if ch == '"':
                in_str = False
                out.append(ch)
            elif rng.random() < p_escape:
                cp = ord(ch)
                if cp >= 0x10000:
                    cp -= 0x10000
                    out.append("\\u%04x\\u%04x" % (0xD800 + (cp >> 10), 0xDC00 + (cp & 0x3FF)))
                else:
                    out.append(("\\u%04x" if rng.random() < 0.5 else "\\u%04X") % cp)
            elif ch == "/" and rng.random() < 0.5:
                out.append("\\/")
            else:
                out.append(ch)
            i += 1
            continue
        if ch == '"':
            in_str = True
            out.append(ch)
        elif ch in "{}[]:,":
            if rng.random() < p_ws:
                out.append(rng.choice(WS))
            out.append(ch)
            if rng.random() < p_ws:
                out.append(rng.choice(WS))
        else:
            out.append(ch)
        i += 1
    s = "".join(out)
    if rng.random() < 0.3:
        s = rng.choice(WS) + s + rng.choice(WS)
    return s


def escape_everything(text):
    """every character of every string as a \\uXXXX escape"""
    import random
    return respell(random.Random(0), text, p_escape=1.1, p_ws=0.0)
