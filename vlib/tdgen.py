"""EIP-712 typed-data generators (type graphs + type-directed values)."""
import json

ATOMS = ["bool", "address", "string", "bytes"] + ["bytes%d" % n for n in (1, 2, 16, 31, 32)] + \
        ["uint%d" % n for n in (8, 16, 64, 128, 248, 256)] + ["int%d" % n for n in (8, 16, 64, 128, 248, 256)]
ALL_ATOMS = ["bool", "address", "string", "bytes"] + ["bytes%d" % n for n in range(1, 33)] + \
            ["uint%d" % n for n in range(8, 257, 8)] + ["int%d" % n for n in range(8, 257, 8)]
NAMES = ["A", "B", "C", "Person", "Mail", "Z", "Aa", "a", "Order", "Item", "_x", "É"]
STD_DOMAIN = [("name", "string"), ("version", "string"), ("chainId", "uint256"), ("verifyingContract", "address"), ("salt", "bytes32")]


class Raw(str):
    pass


def dumps(v):
    """json.dumps honouring Raw tokens"""
    if isinstance(v, Raw):
        return str(v)
    if isinstance(v, dict):
        return "{" + ",".join(json.dumps(k) + ":" + dumps(x) for k, x in v.items()) + "}"
    if isinstance(v, list):
        return "[" + ",".join(dumps(x) for x in v) + "]"
    return json.dumps(v)


def rand_graph(rng, nstructs=None, allow_rec=True):
    """returns dict name -> list of (member name, type string); first key is the primary type"""
    n = nstructs or rng.randint(1, 6)
    names = rng.sample(NAMES, n)
    types = {}
    for i, name in enumerate(names):
        k = rng.randint(0, 5) if i else rng.randint(1, 6)
        members = []
        for j in range(k):
            r = rng.random()
            if r < 0.45 and n > 1:
                # struct reference: later ones always allowed; earlier/self only through arrays (recursion)
                cands = names[i + 1:] if not allow_rec or rng.random() < 0.7 else names
                if not cands:
                    t = rng.choice(ATOMS)
                else:
                    t = rng.choice(cands)
                    if names.index(t) <= i:
                        t += "[]"  # recursion must go through a dynamic array to have finite values
            else:
                t = rng.choice(ATOMS)
            # array suffixes
            while rng.random() < 0.25 and t.count("[") < 3:
                t += rng.choice(["[]", "[]", "[2]", "[1]", "[0]", "[3]"])
            members.append(("m%d" % j, t))
        types[name] = members
    return types


def parse_type(t):
    """-> (base, [sizes]) with sizes outermost last; size None = dynamic"""
    sizes = []
    while t.endswith("]"):
        i = t.rindex("[")
        inner = t[i + 1:-1]
        sizes.append(None if inner == "" else int(inner))
        t = t[:i]
    return t, list(reversed(sizes))  # innermost first


def rand_value(rng, types, t, depth=0, spell=None):
    base, sizes = parse_type(t)
    if sizes:
        size = sizes[-1]
        inner = t[:t.rindex("[")]
        n = size if size is not None else (0 if depth > 3 else rng.choice([0, 1, 2, 3]))
        return [rand_value(rng, types, inner, depth + 1, spell) for _ in range(n)]
    if base in types:
        return {name: rand_value(rng, types, mt, depth + 1, spell) for name, mt in types[base]}
    return rand_atom(rng, base, spell)


def spell_int(rng, v, spell=None):
    opts = ["dec-str", "hex-str"]
    if -2 ** 63 <= v < 2 ** 64:
        opts += ["int", "int"]
    if abs(v) < 10 ** 15:
        opts += ["float"]
    k = spell or rng.choice(opts)
    if k not in opts:
        k = "dec-str"
    if k == "int":
        return Raw(str(v))
    if k == "float":
        return Raw("%d.0" % v) if rng.random() < 0.5 or v == 0 else Raw("%de0" % v)
    if k == "dec-str":
        return str(v)
    return ("-" if v < 0 else "") + hex(abs(v))


def rand_atom(rng, base, spell=None):
    if base == "bool":
        return rng.random() < 0.5
    if base == "address":
        return "0x" + "".join(rng.choice("0123456789abcdefABCDEF") for _ in range(40))
    if base == "string":
        return rng.choice(["", "hello", "Hello, Bob!", "éé \U0001F600 \"q\" \\ \n", "a" * rng.randint(0, 70),
                           # not in NFC / NFKC: the bytes as given are what is hashed
                           "Cafe\u0301", "Zoe\u0308", "\u212b \u2126 \u00c5", "q\u0307\u0323", "\u1100\u1161", "\ufb01 \uff21 \u00b2", "\uf900", " lead trail ", "tab\there"])
    if base == "bytes":
        return "0x" + bytes(rng.getrandbits(8) for _ in range(rng.choice([0, 1, 31, 32, 33, 64]))).hex()
    if base.startswith("bytes"):
        return "0x" + bytes(rng.getrandbits(8) for _ in range(int(base[5:]))).hex()
    if base.startswith("uint"):
        n = int(base[4:])
        v = rng.choice([0, 1, 2 ** n - 1, 2 ** (n - 1), rng.randrange(2 ** n), rng.randrange(2 ** min(n, 16))])
        return spell_int(rng, v, spell)
    if base.startswith("int"):
        n = int(base[3:])
        v = rng.choice([0, 1, -1, 2 ** (n - 1) - 1, -2 ** (n - 1), rng.randrange(-2 ** (n - 1), 2 ** (n - 1)), rng.randrange(-100, 100)])
        return spell_int(rng, v, spell)
    raise ValueError(base)


def rand_domain(rng):
    k = rng.randint(1, 5)
    idx = sorted(rng.sample(range(5), k))
    fields = [STD_DOMAIN[i] for i in idx]
    return fields


def types_json(types, domain_fields):
    d = {"EIP712Domain": [{"name": n, "type": t} for n, t in domain_fields]}
    for name, members in types.items():
        d[name] = [{"name": n, "type": t} for n, t in members]
    return d


def rand_doc(rng, nstructs=None, spell=None):
    types = rand_graph(rng, nstructs)
    primary = next(iter(types))
    dom = rand_domain(rng)
    alltypes = dict(types)
    alltypes["EIP712Domain"] = dom
    doc = {"types": types_json(types, dom), "primaryType": primary,
           "domain": {n: rand_atom(rng, t, spell) for n, t in dom},
           "message": rand_value(rng, types, primary, 0, spell)}
    # shuffle key order of the types object (HashMap) and of message/domain objects
    items = list(doc["types"].items())
    rng.shuffle(items)
    doc["types"] = dict(items)
    return doc, types, dom
