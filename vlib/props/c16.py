"""C16 — every command acts on the selected account and prints the standard result."""
import json
from vlib.core import Case, hx
from vlib import core
from vlib import cli, bip39, txgen, tdgen
from vlib.props import c08

ID = "C16"
NEEDS_CLI = True
NEEDS_PLAIN_CLI = True
RULE = ("real binary as a subprocess vs the Lean CLI model: address / export / public-key / sign {message, transaction, typeddata, raw} / "
        "hash {data, message, transaction [--signature], typeddata [--message-hash]} with mnemonics of all five lengths, passphrases (incl. non-ASCII), "
        "selectors default / --account-index {0,1,2,2^31-1,random,>=2^31,non-numeric} / --hd-path (random paths) / both (conflict), each option via flag or "
        "environment variable, input via file or stdin; extra checks: flag == env (same case run both ways), sign X == signature over hash X by the same key "
        "(the model composes them; the judge re-verifies the signature against the address printed by `address`), sign --signature-only | hash --signature == keccak(sign full) (C15 pipeline); "
        "non-trivial = distinct (command, account, input) with a non-default selector or passphrase")
EXHAUSTIVE_SWEEPS = {"quick": ["every sub-command x {default, index, path} selector x {flag, env}"], "thorough": ["every sub-command x {default, index, path} selector x {flag, env}"]}
ASSUMPTIONS = ["clap's tokenisation / env lookup / conflicts_with are contract-level (mapping in vlib/cli.py)"]
PASS = ["", "TREZOR", "pässwörd", "ｐａｓｓ", "한글 é", "a b  c", "-dash", "=eq", "😀", " lead", "trail ", " ", "\t", "nl\n", "\u00a0x\u00a0", "  both  ", "\u3000"]


def rand_sel(rng):
    r = rng.random()
    if r < 0.25:
        return "default"
    if r < 0.6:
        i = rng.choice([0, 1, 2, 2 ** 31 - 1, rng.randrange(2 ** 31), rng.randrange(100)])
        return "idx:" + hx(str(i))
    depth = rng.randint(1, 6)
    p = "m/" + "/".join("%d%s" % (rng.choice([0, 1, 44, 60, 2 ** 31 - 1, rng.randrange(2 ** 31)]), rng.choice(["", "'"])) for _ in range(depth))
    return "path:" + hx(p)


def rand_acct(rng):
    ws = bip39.rand_phrase(rng)
    lay = " ".join(ws) if rng.random() < 0.8 else "  ".join(ws) + " "
    return hx(lay), hx(rng.choice(PASS)), rand_sel(rng)


def rand_via(rng):
    return {"mnemonic": rng.choice(["flag", "env", "short"]), "password": rng.choice(["flag", "env", "sep"]), "index": rng.choice(["flag", "env", "sep"]),
            "path": rng.choice(["flag", "env", "sep"])}


def gen(rng, tier):
    cases = []
    n = 60 if tier == "thorough" else 12

    def add(line, tags, meta=None, nt=True):
        m = {"via": rand_via(rng), "via_file": core.input_route(rng)}
        m.update(meta or {})
        cases.append(Case(line, tags=tags, runner="cli", meta=m, nontrivial=nt))

    for cmd in ("cli.address", "cli.export", "cli.public_key"):
        for _ in range(n * 2):
            mn, pw, sel = rand_acct(rng)
            line = "%s %s %s %s" % (cmd, mn, pw, sel)
            g = rng.getrandbits(48)  # unique per generator round
            # the same case through flags only and through the environment only: must print the same
            add(line, (cmd, "sel:" + sel.split(":")[0], "via:flag"), {"via": {"mnemonic": "flag", "password": "flag", "index": "flag", "path": "flag"}, "pair": g},
                nt=(sel != "default" or pw != "-"))
            add(line, (cmd, "sel:" + sel.split(":")[0], "via:env"), {"via": {"mnemonic": "env", "password": "env", "index": "env", "path": "env"}, "pair": g}, nt=False)
    # passphrases with characters that layers between argv and the library like to rewrite, given in the three ways a value
    # can be given (--password=V, --password V, PASSWORD=V): all three must name the same wallet (pair check) and the right one
    for pw in ["under_score", "a_b-c=d", "__", "_", "snake_case_pass_phrase", "semi;colon", "comma,sep", "quo'te\"d", "back\\slash", "$HOME", "%41%5f", "a:b", "@file", "#hash", "~", "*", "?", "!bang",
               "(paren)", "[br]", "{a,b}", "<a>", "a&b", "a|b", "`x`", "a=b=c", "=", "a b_c", "tab\there", "x--y", "x_-_y", "CamelCase_snake"]:
        mn, _, sel = rand_acct(rng)
        g = rng.getrandbits(48)
        cmd = rng.choice(["cli.address", "cli.export", "cli.public_key"])
        for st in ("flag", "sep", "env"):
            add("%s %s %s %s" % (cmd, mn, hx(pw), sel), (cmd, "special-passphrase", "via:" + st), {"via": {"mnemonic": rng.choice(["flag", "env"]), "password": st, "index": rng.choice(["flag", "env"]), "path": rng.choice(["flag", "env"])}, "pair": g}, nt=(st == "flag"))
    # one mnemonic, many indices: output formatting must hold for every key (leading zero nibbles/bytes in
    # the address, the secret, the coordinates occur for roughly 1 key in 16 / 256)
    mn_sweep = hx(" ".join(bip39.rand_phrase(rng, 12)))
    for i in range(600 if tier == "thorough" else 240):
        for cmd in ("cli.address", "cli.export", "cli.public_key"):
            add("%s %s - idx:%s" % (cmd, mn_sweep, hx(str(i))), (cmd, "index-sweep"), {"via": {"mnemonic": "env", "index": "flag"}})
    # bad selectors / conflicts
    mn, pw, _ = rand_acct(rng)
    for sel in ["idx:" + hx("2147483648"), "idx:" + hx("4294967296"), "idx:" + hx("18446744073709551615"), "idx:" + hx("18446744073709551616"), "idx:" + hx("-1"),
                "idx:" + hx("x"), "idx:" + hx("+5"), "idx:" + hx(""), "idx:" + hx("1.0"), "path:" + hx("m"), "path:" + hx("m/2147483648"), "path:" + hx("44'/60'"),
                "path:" + hx(""), "both:%s:%s" % (hx("0"), hx("m/0")), "both:%s:%s" % (hx("5"), hx("m/44'/60'/0'/0/5"))]:
        for via in ({"index": "flag", "path": "flag"}, {"index": "env", "path": "env"}, {"index": "env", "path": "flag"}):
            add("cli.address %s %s %s" % (mn, pw, sel), ("bad-selector",), {"via": dict(via, mnemonic="env", password="flag")})
    for bad in ["", "abandon", " ".join(bip39.rand_phrase(rng, 12)[:11]), " ".join(bip39.rand_phrase(rng, 12)[:11] + ["zoo"]), "abandon " * 13]:
        add("cli.address %s %s default" % (hx(bad), hx("")), ("bad-mnemonic",), nt=False)
    # hash commands
    for _ in range(n * 2):
        d = bytes(rng.getrandbits(8) for _ in range(rng.choice([0, 1, 31, 32, 33, 135, 136, 137, 1000])))
        add("cli.hash_data " + hx(d), ("hash_data",))
        add("cli.hash_message " + hx(d), ("hash_message",))
    from vlib import magic
    for d, tag in magic.variants(rng, bytes(rng.getrandbits(8) for _ in range(5))):
        add("cli.hash_data " + hx(d), ("hash_data", tag), {"via_file": core.input_route(rng)})
    for d in magic.ENCODED_TEXTS:
        add("cli.hash_data " + hx(d), ("hash_data", "encoded-text"), {"via_file": core.input_route(rng)})
        add("cli.hash_message " + hx(d), ("hash_message", "encoded-text"), {"via_file": core.input_route(rng)})
    # JSON documents with a byte-order mark / other marks before or after them: RFC 8259 §8.1 lets a parser ignore a BOM but
    # does not require it; the model (serde_json) refuses, and the spec predicate is silent — only model agreement is checked
    for _ in range(n * 2):
        j, _ = txgen.rand_tx(rng)
        add("cli.hash_tx %s none" % hx(j), ("hash_tx",))
        doc, _, _ = tdgen.rand_doc(rng)
        add("cli.hash_td %s %d" % (hx(tdgen.dumps(doc)), rng.randrange(2)), ("hash_td",))
    add("cli.hash_td %s 0" % hx(c08.MAIL), ("hash_td", "fixture"))
    add("cli.hash_td %s 1" % hx(c08.MAIL), ("hash_td", "fixture"))
    # large documents through both input channels (a reader that caps or chunks its input shows here)
    for nbytes in ((600000, 1100000) if tier == "quick" else (600000, 1100000, 2500000)):
        for vf in (False, True):
            j = '{"nonce":1,"gasPrice":2,"gas":3,"value":4,"chainId":5,"to":null,"data":"0x' + ("%02x" % rng.randrange(256)) * nbytes + '"}'
            add("cli.hash_tx %s none" % hx(j), ("hash_tx", "large-input"), {"via_file": vf})
            d = {"types": {"EIP712Domain": [{"name": "name", "type": "string"}], "M": [{"name": "s", "type": "string"}, {"name": "b", "type": "bytes"}]}, "primaryType": "M",
                 "domain": {"name": "x"}, "message": {"s": "y" * nbytes, "b": "0x" + "cd" * (nbytes // 2)}}
            add("cli.hash_td %s 0" % hx(json.dumps(d)), ("hash_td", "large-input"), {"via_file": vf})
    # sign commands, with the matching hash command and the C15 pipeline
    for _i in range(n):
        mn, pw, sel = rand_acct(rng)
        msg = bytes(rng.getrandbits(8) for _ in range(rng.choice([0, 1, 12, 100])))
        add("cli.sign_message %s %s %s %s" % (mn, pw, sel, hx(msg)), ("sign_message",), {"address_of": (mn, pw, sel), "digest_cmd": "cli.hash_message " + hx(msg)})
        dg = "%064x" % rng.getrandbits(256)
        dtxt = rng.choice(["0x" + dg, dg, "0x" + dg.upper()])
        add("cli.sign_raw %s %s %s %s" % (mn, pw, sel, hx(dtxt)), ("sign_raw",), {"address_of": (mn, pw, sel), "digest": dg})
        doc, _, _ = tdgen.rand_doc(rng)
        tj = hx(tdgen.dumps(doc))
        add("cli.sign_td %s %s %s %s" % (mn, pw, sel, tj), ("sign_td",), {"address_of": (mn, pw, sel), "digest_cmd": "cli.hash_td %s 0" % tj})
        # every kind takes part in the sign | hash pipeline, the pre-EIP-155 legacy form (no chain id, override flag) included
        forced = [("legacy", "absent"), ("legacy", 1), ("eip2930", None), ("eip1559", None), (None, None), ("legacy", 0)][_i % 6]
        j, exp = txgen.rand_tx(rng, kind=forced[0], chain=forced[1])
        allow = 1 if exp.get("chainId") is None and exp["kind"] == "legacy" and (forced[1] == "absent" or rng.random() < 0.7) else rng.randrange(2)
        add("cli.sign_tx %s %s %s %s 1 %d" % (mn, pw, sel, hx(j), allow), ("sign_tx", "sigonly"), {"address_of": (mn, pw, sel), "digest_cmd": "cli.hash_tx %s none" % hx(j), "pipeline": hx(j), "allow": allow})
        add("cli.sign_tx %s %s %s %s 0 %d" % (mn, pw, sel, hx(j), allow), ("sign_tx", "full"), {"pipeline_full": hx(j)})
    # boundary digests through `sign raw`: 0, 1, n-1, n, n+1, 2^256-1 are digests like any other
    NN_ = txgen.N
    for dgv in (0, 1, NN_ - 1, NN_, NN_ + 1, 2 ** 256 - 1, 2 ** 255):
        mn, pw, sel = rand_acct(rng)
        add("cli.sign_raw %s %s %s %s" % (mn, pw, sel, hx(rng.choice(["0x", ""]) + "%064x" % dgv)), ("sign_raw", "boundary-digest"))
    from vlib.core import perturb
    mn0, pw0, _ = rand_acct(rng)
    for v in perturb("7") + perturb("2147483647"):
        add("cli.address %s %s idx:%s" % (mn0, pw0, hx(v)), ("perturbed-index",), {"via": {"mnemonic": "env", "index": rng.choice(["flag", "env"])}}, nt=False)
    dg0 = "0x" + "%064x" % rng.getrandbits(256)
    for v in perturb(dg0, "0x"):
        add("cli.sign_raw %s %s default %s" % (mn0, pw0, hx(v)), ("sign_raw", "perturbed-digest"), nt=False)
    from vlib.core import substitute
    for v in rng.sample([t for t in substitute(dg0, 2) if "\x00" not in t], 40):
        add("cli.sign_raw %s %s default %s" % (mn0, pw0, hx(v)), ("sign_raw", "substituted-digest"), nt=False)
    from vlib.core import substitute_lookalikes
    for v in [t for t in substitute_lookalikes(dg0, 2, 3) + substitute_lookalikes(dg0.upper().replace("0X", "0x"), 2, 2) if "\x00" not in t]:
        add("cli.sign_raw %s %s default %s" % (mn0, pw0, hx(v)), ("sign_raw", "substituted-digest", "digit-lookalike"), nt=False)
    # the digest in upper-case and mixed-case spellings (valid: the same digest) next to the lower-case one
    for v in (dg0.upper().replace("0X", "0x"), dg0[:20] + dg0[20:].upper(), dg0[2:].upper(), "0x" + "".join(c.upper() if i % 2 else c for i, c in enumerate(dg0[2:]))):
        add("cli.sign_raw %s %s default %s" % (mn0, pw0, hx(v)), ("sign_raw", "digest-case"))
    for v in substitute_lookalikes("7", 0, 2) + substitute_lookalikes("2147483647", 0, 3):
        if "\x00" not in v:
            add("cli.address %s %s idx:%s" % (mn0, pw0, hx(v)), ("perturbed-index", "digit-lookalike"), {"via": {"mnemonic": "env", "index": rng.choice(["flag", "env"])}}, nt=False)
    for bad in ["", "0x", "00", "0x" + "00" * 31, "0x" + "00" * 33, "zz" * 32, " " + "00" * 32, "0X" + "00" * 32]:
        mn, pw, sel = rand_acct(rng)
        add("cli.sign_raw %s %s %s %s" % (mn, pw, sel, hx(bad)), ("sign_raw", "bad-digest"), nt=False)
    return cases


run_cli = cli.run_cli


def extra_checks(cases, impl, model, verdicts, tier, rng, cov):
    problems = []
    # flag == env
    pairs = {}
    for c, o in zip(cases, impl):
        if "pair" in c.meta:
            pairs.setdefault(c.meta["pair"], []).append((c, o))
    bad = [v for v in pairs.values() if len({o for _, o in v}) != 1]
    cov["flag_env_pairs"] = len(pairs)
    if bad:
        problems.append(("witness", "option from environment behaves differently from the flag", {"line": bad[0][0][0].line, "outputs": [o for _, o in bad[0]]}))
    # C15 pipeline on the real binary: sign --signature-only | hash --signature == keccak(sign full)
    from vlib.core import Case as K
    import hashlib
    by_full = {c.meta["pipeline_full"]: o for c, o in zip(cases, impl) if "pipeline_full" in c.meta}
    npipe = 0
    for c, o in zip(cases, impl):
        if "pipeline" in c.meta and o.startswith("ok "):
            sig = bytes.fromhex(o.split(" ")[1]).decode().strip()
            h = cli.run_cli(K("cli.hash_tx %s %s" % (c.meta["pipeline"], hx(sig)), runner="cli", meta={}))
            full = by_full.get(c.meta["pipeline"], "")
            m_line = "cli.hash_tx %s %s" % (c.meta["pipeline"], hx(sig))
            from vlib import core
            mo = core._run_driver_chunk("model", [m_line], 600)[0]
            npipe += 1
            if h != mo:
                problems.append(("witness", "hash transaction --signature disagrees with the model on the printed signature", {"line": m_line, "impl": h, "model": mo}))
            if full.startswith("ok ") and h.startswith("ok "):
                # keccak of the full signed bytes, computed by the real binary's own `hash data`
                raw = bytes.fromhex(bytes.fromhex(full.split(" ")[1]).decode().strip()[2:])
                hd = cli.run_cli(K("cli.hash_data " + hx(raw), runner="cli", meta={}))
                if hd != h:
                    problems.append(("witness", "sign --signature-only | hash --signature differs from keccak256 of the full signed transaction", {"tx": c.meta["pipeline"], "pipeline": h, "keccak_full": hd}))
            elif not h.startswith("ok "):
                problems.append(("witness", "hash transaction --signature rejects the signature printed by sign --signature-only", {"line": m_line, "impl": h}))
    cov["pipelines_checked"] = npipe
    return problems
