"""C05 — signatures."""
from vlib.core import Case, hx

ID = "C05"
NEEDS_CLI = True
N = 0xFFFFFFFFFFFFFFFFFFFFFFFFFFFFFFFEBAAEDCE6AF48A03BBFD25E8CD0364141
RULE = ("op acct.sign <key> <digest> (in one process: try_sign twice, sign, another key signing the same digest, this key signing another digest, then sign/try_sign again — all results for (key, digest) must be equal and the other key's two results too): keys 1,2,n-2,n-1,random; digests 0,1,n-1,n,n+1,2^256-1,random; "
        "a corpus of pairs whose signature has a short r or s (60 per quick run) or a zero byte at each interior position 1..31 of r and of s, and of pairs whose s lies within 2^-8 .. 2^-24 of the half order (the low-s boundary); keys and digests of 32 bytes that look like text; non-trivial = distinct (key, digest); the run must contain both parities and both s halves (counted via extra check); "
        "judge = independent ECDSA verify + public-key recovery (Spec.Ecdsa), 1<=r<n, 1<=s<=n/2, and for digests below n equality with the RFC 6979 signature computed from Spec.Rfc6979")
EXHAUSTIVE_SWEEPS = {"quick": ["5 boundary keys x 8 boundary digests"], "thorough": ["5 boundary keys x 8 boundary digests"]}
ASSUMPTIONS = ["the general verify/recover theorems take LawfulCurve as a hypothesis; it is proved for the real secp256k1 group in Props/SecpInstance (secp_lawful), and the driver's fast arithmetic is cross-tested against the verified one (op secp.affine, C04)"]


def gen(rng, tier):
    cases = []
    keys = [1, 2, N - 2, N - 1, 0x4f3edf983ac636a65a842ce7c78d9aa706d3b113bce9c46f30d7d21715b23b1d]
    digs = [0, 1, N - 1, N, N + 1, 2 ** 256 - 1, 2 ** 255, 0xa1de988600a42c4b4ab089b619297c17d53cffae5d5120d82d8a92d0bb3b78f2]
    for k in keys:
        for d in digs:
            cases.append(Case("acct.sign %064x %064x" % (k, d), tags=("boundary",)))
    for _ in range(1200 if tier == "thorough" else 200):
        k = rng.choice([rng.randrange(1, N), rng.randrange(1, 2 ** 32), N - rng.randrange(1, 2 ** 32)])
        d = rng.choice([rng.randrange(2 ** 256), rng.randrange(2 ** 256), rng.randrange(N, 2 ** 256), rng.randrange(2 ** 16)])
        cases.append(Case("acct.sign %064x %064x" % (k, d), tags=("random", "digest>=n" if d >= N else "digest<n")))
    # keys and digests that are 32 bytes of binary data but look like text (hex digits, 0x…, decimal, base64, words, blanks)
    from vlib import magic
    tl = [b for b, _ in magic.text_like(rng, 32)]
    for b in tl:
        cases.append(Case("acct.sign %064x %s" % (rng.randrange(1, N), b.hex()), tags=("text-like", "digest")))
        if 0 < int.from_bytes(b, "big") < N:
            cases.append(Case("acct.sign %s %064x" % (b.hex(), rng.randrange(2 ** 256)), tags=("text-like", "key")))
            cases.append(Case("acct.sign %s %s" % (b.hex(), rng.choice(tl).hex()), tags=("text-like", "both")))
    # pairs chosen for what their signature looks like: r or s with leading zero bytes (1.2% of pairs; found once by
    # tools/gen_c05_corpus.py with an RFC 6979 implementation used for choosing inputs only) — "normalising" such signatures
    # by re-drawing the nonce, padding or trimming them shows here
    import os
    from vlib import core
    corpus = [l.split() for l in open(os.path.join(core.VERIF, "data", "c05_short_scalars.txt")) if l.strip()]
    short = [c for c in corpus if not c[2].startswith("zero-")]
    inner = [c for c in corpus if c[2].startswith("zero-")]
    for k, d, rb, sb in (short if tier == "thorough" else rng.sample(short, 60)):
        cases.append(Case("acct.sign %s %s" % (k, d), tags=("short-scalar", "r:%s-bytes" % rb if rb != "32" else "s:%s-bytes" % sb)))
    # ... and pairs whose s lies just below the half order n/2 (top 8..24 bits are 0 followed by ones): the low-s boundary —
    # a second "normalisation" with a slightly wrong constant, or a comparison that is off at the boundary, flips exactly
    # these (found once by harness/examples/corpus_half_order.rs, which signs with the code itself; inputs only)
    nh = os.path.join(core.VERIF, "data", "c05_near_half_order.txt")
    for l in open(nh):
        if l.strip():
            k, d, tag = l.split()
            cases.append(Case("acct.sign %s %s" % (k, d), tags=("near-half-order", tag)))
    # ... and a zero byte at every interior position 1..31 of r and of s (word-wise or byte-wise re-assembly of the scalars)
    want = {("r", i) for i in range(1, 32)} | {("s", i) for i in range(1, 32)}
    rng.shuffle(inner)
    for k, d, zr, zs in inner:
        got = {("r", int(i)) for i in zr.split(":")[1].split(".") if i != "-"} | {("s", int(i)) for i in zs.split(":")[1].split(".") if i != "-"}
        if got & want or (tier == "thorough" and rng.random() < 0.2):
            want -= got
            cases.append(Case("acct.sign %s %s" % (k, d), tags=("zero-byte-inside",)))
        if not want and tier != "thorough":
            break
    # the command-line route `sign raw`: boundary and random digests in every spelling the digest parser accepts (lower, upper
    # and mixed case, with and without 0x) must give the RFC 6979 signature of the selected key over exactly that digest
    from vlib import bip39
    mn = hx(" ".join(bip39.rand_phrase(rng, 12)))
    for d in [0, 1, N - 1, N, 2 ** 256 - 1, 0xa1de988600a42c4b4ab089b619297c17d53cffae5d5120d82d8a92d0bb3b78f2, 0xABCDEFabcdef << 200 | 0xfedcba, rng.getrandbits(256), rng.getrandbits(256)]:
        low = "%064x" % d
        mixed = "".join(c.upper() if i % 3 == 0 else c for i, c in enumerate(low))
        for v in ("0x" + low, low, "0x" + low.upper(), low.upper(), "0x" + mixed, mixed):
            cases.append(Case("cli.sign_raw %s - default %s" % (mn, hx(v)), tags=("cli-sign-raw", "digest-spelling"), runner="cli", meta={"via": {}}))
    return cases


from vlib import cli as _cli  # noqa: E402
run_cli = _cli.run_cli


def extra_checks(cases, impl, model, verdicts, tier, rng, cov):
    par = {"0": 0, "1": 0}
    for o in impl:
        p = o.split(" ")
        if p[0] == "ok" and len(p) == 4:
            par[p[3]] = par.get(p[3], 0) + 1
    cov["parity_counts"] = par
    # s-half before normalisation is not observable; both parities present is the measurable proxy
    if min(par.values()) == 0:
        return [("infra", "generator did not reach both parities", {})]
    return []
