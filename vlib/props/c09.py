"""C09 — non-conforming typed data is refused."""
import copy
import json
from fractions import Fraction
from vlib.core import Case, hx
from vlib import tdgen
from vlib.tdgen import Raw

ID = "C09"
NEEDS_CLI = True
RULE = ("op td.hash on accepted C08-style documents with exactly one violation injected at a random position (inside nested structs/arrays): "
        "every width 8..256 x the six boundary values (-2^(N-1)-1, -2^(N-1), 2^(N-1)-1, 2^(N-1), 2^N-1, 2^N) x every spelling (JSON int where it fits, "
        "float where exact, decimal string, hex string, +, negative string) for intN and uintN; bytesN lengths N-1, N, N+1; fixed array sizes +-1; declared sizes from 2^31 to beyond 2^64 with short values; "
        "missing / extra member; undefined type (also where no value reaches it: behind empty arrays, 7 malformed/undefined names x 9 shapes); wrong JSON kind (also for the self-referencing members of recursive types, at depth 0 and deeper); the same classes of violation inside the domain value and inside the message of a bare-domain document (primary type EIP712Domain, message different from the domain), each through the library and through hash typeddata / --message-hash / sign typeddata; a random sample of the cases is re-run through every sub-command that reaches the same code (vlib/routes.py); non-trivial = distinct document with an injected boundary value or violation; "
        "judge = executable conformance relation of Spec.Eip712 (exact mathematical value of every literal)")
EXHAUSTIVE_SWEEPS = {"quick": ["32 widths x 6 boundaries x {uint,int} x spellings", "bytes1..32 x {N-1,N,N+1}"],
                     "thorough": ["32 widths x 6 boundaries x {uint,int} x spellings", "bytes1..32 x {N-1,N,N+1}"]}


def doc_for(member_type, value, nest):
    """a document whose primary type reaches `member_type` at nesting style `nest`"""
    dom = [("name", "string"), ("chainId", "uint256")]
    if nest == 0:
        types = {"P": [("a", "string"), ("v", member_type)]}
        msg = {"a": "x", "v": value}
    elif nest == 1:
        types = {"P": [("q", "Q"), ("b", "bool")], "Q": [("v", member_type), ("s", "string")]}
        msg = {"q": {"v": value, "s": ""}, "b": True}
    else:
        types = {"P": [("qs", "Q[]")], "Q": [("vs", member_type + "[2]")]}
        other = value
        msg = {"qs": [{"vs": [other, value]}]}
    return {"types": tdgen.types_json(types, dom), "primaryType": "P", "domain": {"name": "d", "chainId": 1}, "message": msg}


def spellings(v):
    out = [("dec-str", str(v)), ("hex-str", ("-" if v < 0 else "") + hex(abs(v)))]
    if -2 ** 63 <= v < 2 ** 64:
        out.append(("int", Raw(str(v))))
    if abs(v) < 10 ** 15:
        out.append(("float", Raw("%d.0" % v)))
    if v >= 0:
        out.append(("plus", "+" + str(v)))
        # zero-padded spellings of the same value: a 32-byte word (64 digits), one digit more, the member's own width,
        # decimal with leading zeros — the value is what counts, however wide it is written
        if v < 2 ** 256:
            out.append(("hex-word64", "0x%064x" % v))
        out.append(("hex-pad65", "0x0%064x" % v if v < 2 ** 256 else "0x00%x" % v))
        out.append(("hex-pad-upper", "0x" + ("%066X" % v)))
        out.append(("dec-pad", "000" + str(v)))
    return out


def gen(rng, tier):
    cases = []
    for n in range(8, 257, 8):
        bounds = [-2 ** (n - 1) - 1, -2 ** (n - 1), 2 ** (n - 1) - 1, 2 ** (n - 1), 2 ** n - 1, 2 ** n, -1, 0, -2 ** n, -2 ** n + 1]
        for base in ("uint", "int"):
            for v in bounds:
                for sp, tok in spellings(v):
                    nest = rng.randrange(3)
                    d = doc_for("%s%d" % (base, n), tok, nest)
                    cases.append(Case("td.hash " + hx(tdgen.dumps(d)), tags=("int-boundary", base, "spelling:" + sp),
                                      meta={"token": str(tok) if isinstance(tok, Raw) else None}))
    for n in range(1, 33):
        for L in (n - 1, n, n + 1, 0, 32, 33):
            d = doc_for("bytes%d" % n, "0x" + "ab" * L, rng.randrange(3))
            cases.append(Case("td.hash " + hx(tdgen.dumps(d)), tags=("bytesN",)))
    for bad in ["", "0x0", "ab", "0xzz", 5, None, True, ["0xab"], {"a": 1}]:
        cases.append(Case("td.hash " + hx(tdgen.dumps(doc_for("bytes1", bad if not isinstance(bad, (int, type(None), bool, list, dict)) or isinstance(bad, bool) else bad, 1))), tags=("wrong-kind",)))
    # wrong JSON kinds for every atom
    # (incl. the TEXT of a value of the right kind where another kind is declared: "true" for a bool, "1" / 1 / 0 for a
    # bool, the text of a number for a string, "null", "[]", "{}" …: a string is a string, whatever it spells)
    wrong = [None, True, 5, Raw("5.5"), "x", "0x", [], {}, [1], {"a": 1}, "0x1", Raw("-5"), "-5", Raw("1e400") if False else Raw("1e30"),
             "true", "false", "True", "TRUE", " true", "1", "0", Raw("1"), Raw("0"), False, "null", "[]", "{}", "yes", "on", "t", "\"x\"", ["x"], [True], "0x01", "0x00"]
    for t in ["bool", "address", "string", "bytes", "bytes4", "uint8", "int8", "uint256", "int256", "Q", "uint8[]", "uint8[2]"]:
        for w in wrong:
            if t == "Q":
                d = {"types": tdgen.types_json({"P": [("v", "Q")], "Q": [("x", "uint8")]}, [("name", "string")]), "primaryType": "P", "domain": {"name": "d"}, "message": {"v": w}}
            else:
                d = doc_for(t, w, 0)
            cases.append(Case("td.hash " + hx(tdgen.dumps(d)), tags=("wrong-kind",), meta={"token": str(w) if isinstance(w, Raw) else None}))
    # wrong kinds for struct-typed members of self-referential and mutually recursive types (linked list, tree, pair):
    # null / number / string / array / boolean where an object or an array of objects is declared, at depth 0 and deeper
    J2 = tdgen.types_json
    rec_shapes = [
        ({"Node": [("v", "uint8"), ("next", "Node[]")]}, "Node", lambda w: {"v": 1, "next": w}),
        ({"Node": [("v", "uint8"), ("next", "Node[]")]}, "Node", lambda w: {"v": 1, "next": [{"v": 2, "next": w}]}),
        ({"Tree": [("kids", "Tree[]"), ("twin", "Tree[2][]")]}, "Tree", lambda w: {"kids": [], "twin": w}),
        ({"Tree": [("kids", "Tree[]"), ("twin", "Tree[2][]")]}, "Tree", lambda w: {"kids": [{"kids": w, "twin": []}], "twin": []}),
        ({"Pair": [("halves", "Pair[0]"), ("n", "uint8")]}, "Pair", lambda w: {"halves": w, "n": 1}),
        ({"A": [("b", "B[]")], "B": [("a", "A[]"), ("x", "bool")]}, "A", lambda w: {"b": [{"a": w, "x": True}]}),
        ({"A": [("b", "B[]")], "B": [("a", "A[]"), ("x", "bool")]}, "A", lambda w: {"b": w}),
        ({"L": [("self", "L[1][]"), ("s", "string")]}, "L", lambda w: {"self": [w], "s": ""}),
    ]
    for types, prim, mk in rec_shapes:
        for w in [None, 0, 1, "", "0x", True, False, {}, {"v": 1}, [None], [[None]], [0], ["x"], Raw("1e2"), []]:
            d = {"types": J2(types, [("name", "string")]), "primaryType": prim, "domain": {"name": "d"}, "message": mk(w)}
            cases.append(Case("td.hash " + hx(tdgen.dumps(d)), tags=("wrong-kind", "recursive-type"), meta={"token": str(w) if isinstance(w, Raw) else None}))
    # perturbed spellings of string-valued members: integers as decimal / hex strings, addresses, bytes — white space, case,
    # doubled / stacked prefixes, signs before and after the prefix, separators, quotes, invisible characters
    from vlib.core import perturb
    for t, good_vals in (("uint256", ["16", "0x10", str(2 ** 200)]), ("int64", ["-16", "0x10", "-0x10"]), ("uint8", ["255", "0xff"]),
                         ("address", ["0xCD2a3d9F938E13CD947Ec05AbC7FE734Df8DD826"]), ("bytes", ["0xabcdef"]), ("bytes4", ["0xdeadbeef"]), ("bytes32", ["0x" + "5a" * 32])):
        for g in good_vals:
            pre = "0x" if g.startswith("0x") else ("-0x" if g.startswith("-0x") else None)
            for w in perturb(g, pre) if pre else perturb(g):
                cases.append(Case("td.hash " + hx(tdgen.dumps(doc_for(t, w, rng.randrange(3)))), tags=("perturbed-string", t)))
    # repeated things: a struct type that lists a member name twice (same or different types, adjacent or not; primary,
    # nested, array element), a value object with a repeated key, a types object with a repeated type name
    def raw_doc(types_text, prim, msg_text):
        return '{"types":{"EIP712Domain":[{"name":"name","type":"string"}],%s},"primaryType":"%s","domain":{"name":"d"},"message":%s}' % (types_text, prim, msg_text)
    m = lambda n_, t_: '{"name":"%s","type":"%s"}' % (n_, t_)
    dup_types = [
        ('"P":[%s,%s]' % (m("a", "uint8"), m("a", "uint8")), "P", '{"a":1}'),
        ('"P":[%s,%s]' % (m("a", "uint8"), m("a", "string")), "P", '{"a":1}'),
        ('"P":[%s,%s,%s]' % (m("a", "uint8"), m("b", "bool"), m("a", "uint8")), "P", '{"a":1,"b":true}'),
        ('"P":[%s,%s,%s]' % (m("a", "uint8"), m("b", "bool"), m("a", "uint8")), "P", '{"a":1,"b":true,"a":1}'),
        ('"P":[%s],"Q":[%s,%s]' % (m("q", "Q"), m("x", "bool"), m("x", "bool")), "P", '{"q":{"x":true}}'),
        ('"P":[%s],"Q":[%s,%s]' % (m("q", "Q[]"), m("x", "bool"), m("x", "bool")), "P", '{"q":[{"x":true}]}'),
        ('"P":[%s],"Q":[%s,%s]' % (m("q", "Q[]"), m("x", "bool"), m("x", "bool")), "P", '{"q":[]}'),
        ('"P":[%s,%s]' % (m("a", "uint8"), m("a", "uint8")), "P", '{}'),
        ('"P":[%s,%s]' % (m("a", "uint8"), m("a", "uint8")), "P", '{"a":1,"zz":2}'),
        ('"P":[%s,%s,%s]' % (m("a", "uint8"), m("b", "bool"), m("a", "uint8")), "P", '{"a":1,"b":true,"zz":0}'),
        ('"P":[%s,%s,%s]' % (m("a", "uint8"), m("a", "uint8"), m("a", "uint8")), "P", '{"a":1,"y":2,"z":3}'),
        ('"P":[%s],"Q":[%s,%s]' % (m("q", "Q[]"), m("x", "bool"), m("x", "bool")), "P", '{"q":[{"x":true,"extra":1}]}'),
        ('"P":[%s],"Q":[%s,%s]' % (m("q", "Q"), m("x", "bool"), m("x", "uint8")), "P", '{"q":{"x":true,"w":5}}'),
        ('"P":[%s]' % m("a", "uint8"), "P", '{"a":1,"a":2}'),
        ('"P":[%s]' % m("a", "uint8"), "P", '{"a":300,"a":2}'),
        ('"P":[%s]' % m("a", "uint8"), "P", '{"a":2,"a":300}'),
        ('"P":[%s],"P":[%s]' % (m("a", "uint8"), m("b", "bool")), "P", '{"a":1}'),
        ('"P":[%s],"P":[%s]' % (m("a", "uint8"), m("b", "bool")), "P", '{"b":true}'),
        ('"P":[%s],"Q":[%s],"Q":[%s]' % (m("q", "Q"), m("x", "bool"), m("y", "uint8")), "P", '{"q":{"y":1}}'),
    ]
    for tt, prim, msg in dup_types:
        cases.append(Case("td.hash " + hx(raw_doc(tt, prim, msg)), tags=("repeated", "member-or-key-or-type")))
    # fixed-size arrays: every length 0..N+2 for N in {1,2,3,5}, several element types and nesting positions
    for N in (1, 2, 3, 5):
        for inner, val in (("uint8", 1), ("string", "s"), ("bool", True), ("bytes2", "0xabcd")):
            for L in range(0, N + 3):
                for nest in range(3):
                    if nest == 2:
                        types = {"P": [("qs", "Q[]")], "Q": [("vs", "%s[%d][2]" % (inner, N))]}
                        msg = {"qs": [{"vs": [[val] * N, [val] * L]}]}
                        d = {"types": tdgen.types_json(types, [("name", "string")]), "primaryType": "P", "domain": {"name": "d"}, "message": msg}
                    else:
                        d = doc_for("%s[%d]" % (inner, N), [val] * L, nest)
                    cases.append(Case("td.hash " + hx(tdgen.dumps(d)), tags=("fixed-array", "N:%d" % N, "len:%+d" % (L - N))))
    # declared sizes far beyond any value: the size is a number to compare the element count with, never something to
    # allocate, multiply or index by
    BIG = [2 ** 31 - 1, 2 ** 31, 2 ** 32 - 1, 2 ** 32, 2 ** 40, 17592186044416, 2 ** 53, 2 ** 57, 2 ** 58, 2 ** 59 - 1, 2 ** 59, 2 ** 60, 2 ** 62,
           2 ** 63 - 1, 2 ** 63, 2 ** 64 - 2, 2 ** 64 - 1, 2 ** 64, 2 ** 64 + 1, 10 ** 30]
    for big in BIG:
        for t, v in (("uint8[%d]" % big, []), ("uint8[%d]" % big, [1]), ("uint256[%d]" % big, [1, 2]), ("bool[%d][]" % big, [[True]]), ("bool[%d][]" % big, []),
                     ("bytes32[2][%d]" % big, [["0x" + "11" * 32] * 2]), ("Q[%d]" % big, [{"x": 1}]), ("string[%d][%d]" % (big, big), [[]])):
            types = {"P": [("a", "string"), ("v", t)], "Q": [("x", "uint8")]}
            d = {"types": tdgen.types_json(types, [("name", "string")]), "primaryType": "P", "domain": {"name": "d"}, "message": {"a": "x", "v": v}}
            cases.append(Case("td.hash " + hx(tdgen.dumps(d)), tags=("huge-declared-size",)))
    # an undefined struct type (or a malformed atomic name, which is read as one) that no value ever reaches: behind
    # empty arrays, behind an empty array of a defined struct that refers to it, in the domain-less corner of a nested struct
    J = tdgen.types_json
    dm = [("name", "string")]
    ghost_docs = []
    for gt in ("Ghost", "uint9", "bytes33", "int", "uint0", "Bytes", "address payable"):
        ghost_docs += [
            ({"P": [("a", "string"), ("g", gt + "[]")]}, {"a": "x", "g": []}),
            ({"P": [("g", gt + "[][]")]}, {"g": []}),
            ({"P": [("g", gt + "[][2]")]}, {"g": [[], []]}),
            ({"P": [("g", gt + "[0]")]}, {"g": []}),
            ({"P": [("ps", "Q[]"), ("n", "uint8")], "Q": [("g", gt)]}, {"ps": [], "n": 1}),
            ({"P": [("q", "Q")], "Q": [("s", "string"), ("g", gt + "[]")]}, {"q": {"s": "", "g": []}}),
            ({"P": [("qs", "Q[][]")], "Q": [("r", "R[]")], "R": [("g", gt)]}, {"qs": [[{"r": []}]]}),
            # controls: the same shapes with a value that does reach the type
            ({"P": [("g", gt + "[]")]}, {"g": [{}]}),
            ({"P": [("g", gt)]}, {"g": {}}),
        ]
    for types, msg in ghost_docs:
        d = {"types": J(types, dm), "primaryType": "P", "domain": {"name": "d"}, "message": msg}
        cases.append(Case("td.hash " + hx(tdgen.dumps(d)), tags=("undefined-unreached",)))
    # the same with the type defined: accepted (so that the refusals above are for the missing definition only)
    for types, msg in ghost_docs[:7]:
        t2 = dict(types)
        t2["Ghost"] = [("x", "uint8")]
        d = {"types": J(t2, dm), "primaryType": "P", "domain": {"name": "d"}, "message": msg}
        cases.append(Case("td.hash " + hx(tdgen.dumps(d)), tags=("defined-unreached",)))
    # an undefined type in the *domain* position / as primary type
    for types, pt, msg in [({"P": [("a", "string")]}, "Nope", {"a": "x"}), ({"P": [("a", "string")]}, "", {}), ({"P": [("a", "string")]}, "P[]", [])]:
        d = {"types": J(types, dm), "primaryType": pt, "domain": {"name": "d"}, "message": msg}
        cases.append(Case("td.hash " + hx(tdgen.dumps(d)), tags=("undefined-primary",)))
    # the known float-rounding class seen through typed data
    for tok in ["1.0000000000000001", "1e-400", "7.000000000000000000001", "9007199254740991.0"]:
        for t in ("uint64", "int64", "uint256"):
            cases.append(Case("td.hash " + hx(tdgen.dumps(doc_for(t, Raw(tok), 0))), tags=("float-rounding",), meta={"token": tok}))
    # structural violations on random accepted documents
    n = 1200 if tier == "thorough" else 250
    for _ in range(n):
        doc, types, dom = tdgen.rand_doc(rng)
        kind = rng.choice(["missing", "extra", "array+1", "array-1", "undefined-type", "extra-domain", "missing-domain", "none"])
        d = copy.deepcopy(doc)
        # walk to a random object / array inside message
        def objs(v, acc):
            if isinstance(v, dict):
                acc.append(v)
                for x in v.values():
                    objs(x, acc)
            elif isinstance(v, list):
                acc.append(v)
                for x in v:
                    objs(x, acc)
            return acc
        nodes = objs(d["message"], [])
        dicts = [x for x in nodes if isinstance(x, dict)]
        lists = [x for x in nodes if isinstance(x, list)]
        if kind == "missing" and dicts:
            o = rng.choice(dicts)
            if o:
                del o[rng.choice(list(o))]
            else:
                kind = "none"
        elif kind == "extra" and dicts:
            rng.choice(dicts)["zzz_extra"] = 1
        elif kind == "array+1" and lists:
            l = rng.choice(lists)
            l.append(copy.deepcopy(l[0]) if l else 0)
            kind = "array-len-changed"
        elif kind == "array-1" and [l for l in lists if l]:
            rng.choice([l for l in lists if l]).pop()
            kind = "array-len-changed"
        elif kind == "undefined-type":
            names = [k for k in d["types"] if k not in ("EIP712Domain", d["primaryType"])]
            if names:
                del d["types"][rng.choice(names)]
            else:
                kind = "none"
        elif kind == "extra-domain":
            d["domain"]["extra"] = "x"
        elif kind == "missing-domain":
            del d["domain"][rng.choice(list(d["domain"]))]
        else:
            kind = "none"
        cases.append(Case("td.hash " + hx(tdgen.dumps(d)), tags=("structural:" + kind,)))
    # the same violations inside the DOMAIN value (the domain is a struct value like any other), in the library and through
    # every command that reads typed data: hash typeddata, hash typeddata --message-hash, sign typeddata
    STD = tdgen.STD_DOMAIN
    good = {"name": "Ether Mail", "version": "1", "chainId": 1, "verifyingContract": "0xCcCCccccCCCCcCCCCCCcCcCccCcCCCcCcccccccC", "salt": "0x" + "11" * 32}
    bad_values = [("chainId", str(2 ** 256)), ("chainId", hex(2 ** 256)), ("chainId", Raw("-1")), ("chainId", "-1"), ("chainId", True), ("chainId", None), ("chainId", "0x"), ("chainId", [1]),
                  ("salt", "0x" + "11" * 31), ("salt", "0x" + "11" * 33), ("salt", "11" * 32), ("salt", 5), ("version", 1), ("version", None), ("name", ["x"]), ("name", {}),
                  ("verifyingContract", "0x" + "ab" * 19), ("verifyingContract", "0x" + "ab" * 21), ("verifyingContract", 0)]
    dom_docs = []
    for fld, bv in bad_values:
        dom = dict(good)
        dom[fld] = bv
        dom_docs.append(("value:" + fld, dom))
    for fld in good:
        dom = dict(good)
        del dom[fld]
        dom_docs.append(("missing:" + fld, dom))
    dom_docs.append(("extra", dict(good, extra="x")))
    dom_docs.append(("extra", dict(good, Name="x")))
    dom_docs.append(("control", dict(good)))
    dcases = []
    for tag, dom in dom_docs:
        d = {"types": tdgen.types_json({"P": [("a", "string")]}, STD), "primaryType": "P", "domain": dom, "message": {"a": "x"}}
        dcases.append(Case("td.hash " + hx(tdgen.dumps(d)), tags=("domain-violation", tag.split(":")[0]), meta={"token": None}))
    # … and inside the MESSAGE of a bare-domain document (primary type EIP712Domain: signing the domain itself is a valid
    # EIP-712 document, and its message is a struct value checked and hashed like any other — it need not equal the domain)
    for tag, dom in dom_docs:
        d = {"types": tdgen.types_json({"P": [("a", "string")]}, STD), "primaryType": "EIP712Domain", "domain": dict(good), "message": dom}
        dcases.append(Case("td.hash " + hx(tdgen.dumps(d)), tags=("domain-violation", "bare-domain-message", tag.split(":")[0]), meta={"token": None}))
    other = dict(good, name="Another Name", chainId=5, salt="0x" + "22" * 32)
    for dom, msg in ((good, other), (other, good), (good, good)):
        d = {"types": tdgen.types_json({"P": [("a", "string")]}, STD), "primaryType": "EIP712Domain", "domain": dict(dom), "message": dict(msg)}
        dcases.append(Case("td.hash " + hx(tdgen.dumps(d)), tags=("domain-violation", "bare-domain-message", "control"), meta={"token": None}))
    # LARGE values (strings, bytes, arrays whose JSON text crosses 4 / 8 / 32 / 64 / 128 KiB), library and command line
    big = []
    for i, n in enumerate([4090, 8192, 32768, 33000, 65536, 70001] + ([131077, 262151] if tier == "thorough" else [])):
        t, v = [("string", "".join(rng.choice("abc é\n\"") for _ in range(n))), ("bytes", "0x" + bytes(rng.getrandbits(8) for _ in range(n // 2)).hex()),
                ("uint8[]", [rng.randrange(256) for _ in range(n // 4)])][i % 3]
        d = {"types": tdgen.types_json({"P": [("a", "uint8"), ("v", t), ("z", "bool")]}, STD), "primaryType": "P", "domain": dict(good), "message": {"a": 7, "v": v, "z": True}}
        big.append(Case("td.hash " + hx(tdgen.dumps(d)), tags=("large-value", t), meta={"token": None}))
    cases += big
    cases += dcases
    from vlib import routes
    cases += routes.add_routes(big, rng, 10 ** 6, "quick")
    cases += routes.add_routes(dcases, rng, 10 ** 6, "quick")
    cases += routes.add_routes(cases, rng, 80, tier)
    return cases


def match_known(k, case, rec):
    """Known finding C13/float-literal-rounding as it shows through typed data: a float-syntax literal whose exact value is
    not the integer it was accepted as."""
    if k.get("match", {}).get("class") != "float-literal-rounding":
        return False
    tok = case.meta.get("token")
    if not tok or not rec["impl"].startswith("ok ") or rec["impl"] != rec["model"] or not rec["judge"].startswith("fails"):
        return False
    if not (tok[:1] in "-0123456789" and ("." in tok or "e" in tok.lower())):
        return False
    try:
        return Fraction(tok).denominator != 1 or len(tok.replace(".", "").replace("-", "")) > 15
    except Exception:
        return False


def run_cli(case):
    from vlib import cli
    return cli.run_cli(case)
