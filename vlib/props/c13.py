"""C13 — transaction JSON numbers."""
import json
from fractions import Fraction
from vlib.core import Case, hx
from vlib import txgen
from vlib.txgen import Raw

ID = "C13"
NEEDS_CLI = True
RULE = ("op tx.parse <json> -> kind + every field: every numeric field of every kind with boundary-biased integers in [0,2^256) in every spelling "
        "(JSON int, integral float x.0 / e-notation, decimal string, 0x hex string), equal integers in different spellings (extra check: identical parse), "
        "and a malformed stream injected into one field: negative ints/strings, fractions, sub-ulp fractions, huge/tiny exponents, >= 2^256 in decimal and hex, "
        "empty, 0x, odd/bad hex, wrong-length addresses/keys, null, booleans, arrays; also op json.f64 <literal> cross-checking the binary64 model against serde_json. "
        "equivalent JSON spellings (white space, \\uXXXX escapes in keys and string values) of a sample of valid and malformed documents; a random sample of the cases is re-run through every sub-command that reaches the same code (vlib/routes.py); non-trivial = distinct document with at least one non-int spelling or an injected malformed field; judge = exact mathematical value of each literal")
EXHAUSTIVE_SWEEPS = {"quick": ["every numeric field x every spelling class x boundary table"], "thorough": ["every numeric field x every spelling class x boundary table"]}
NUMERIC = {"legacy": ["chainId", "nonce", "gasPrice", "gas", "value"],
           "eip2930": ["chainId", "nonce", "gasPrice", "gas", "value"],
           "eip1559": ["chainId", "nonce", "maxPriorityFeePerGas", "maxFeePerGas", "gas", "value"]}

BAD_NUM = [Raw("-1"), Raw("-0.5"), Raw("-9223372036854775808"), Raw("-9223372036854775809"), Raw("-1e3"), Raw("0.5"), Raw("1.5"), Raw("1e-1"), Raw("1e-400"),
           Raw("1.0000000000000001"), Raw("9007199254740992.5"), Raw("0.9999999999999999999"), Raw("4.000000000000000000000001"), Raw("123456789.000000001"),
           Raw("1e77"), Raw("1e78"), Raw("1e400"), Raw("115792089237316195423570985008687907853269984665640564039457584007913129639936"),
           Raw("18446744073709551616"), Raw("18446744073709551615.5"), Raw("9007199254740993"), Raw("9007199254740992.0"), Raw("9007199254740991.0"), Raw("1e22"), Raw("2e-1"),
           Raw("null"), Raw("true"), Raw("false"), Raw("[]"), Raw("[1]"), Raw("{}"), Raw('""'), Raw('"0x"'), Raw('"-1"'), Raw('"-0x1"'), Raw('"1.0"'), Raw('"1e3"'),
           Raw('" 1"'), Raw('"1 "'), Raw('"0X10"'), Raw('"0xg"'), Raw('"0x 1"'), Raw('"١"'), Raw('"+1"'), Raw('"+0x10"'), Raw('"0b101"'), Raw('"0o17"'), Raw('"0b"'), Raw('"0b2"'),
           Raw('"115792089237316195423570985008687907853269984665640564039457584007913129639936"'),
           Raw('"0x10000000000000000000000000000000000000000000000000000000000000000"'),
           Raw('"0x0000000000000000000000000000000000000000000000000000000000000000001"'),
           Raw('"00000000000000000000000000000000000000000000000000000000000000000000000000000000000007"'), Raw("-0"), Raw("-0.0"), Raw("0e0"), Raw("0.0"), Raw("1E+2"), Raw("25e-1"), Raw("250e-1")]
BAD_ADDR = ['""', '"0x"', '"deadbeefdeadbeefdeadbeefdeadbeefdeadbeef"', '"0xdeadbeefdeadbeefdeadbeefdeadbeefdeadbe"', '"0xdeadbeefdeadbeefdeadbeefdeadbeefdeadbeef00"',
            '"0xdeadbeefdeadbeefdeadbeefdeadbeefdeadbeeg"', '"0x0xdeadbeefdeadbeefdeadbeefdeadbeefdeadbeef"', '"0XDEADBEEFDEADBEEFDEADBEEFDEADBEEFDEADBEEF"', "5", "[]", "{}", "true",
            '"0xDEADBEEFDEADBEEFDEADBEEFDEADBEEFDEADBEEF"', '" 0xdeadbeefdeadbeefdeadbeefdeadbeefdeadbeef"']
BAD_DATA = ['""', '"00"', '"0x0"', '"0xabc"', '"0xzz"', '"0X00"', "null", "0", "[]", '"0x 00"', '"0x00 "', '"0x0x00"', '"0xé0"']
BAD_AL = ["null", "{}", '"0x"', "[[]]", '[["0xdeadbeefdeadbeefdeadbeefdeadbeefdeadbeef"]]', '[["0xdeadbeefdeadbeefdeadbeefdeadbeefdeadbeef",[],[]]]',
          '[["0xdeadbeefdeadbeefdeadbeefdeadbeefdeadbeef",["0x00"]]]', '[["0xdeadbeefdeadbeefdeadbeefdeadbeefdeadbeef",["0x' + "00" * 33 + '"]]]',
          '[["0xdeadbeefdeadbeefdeadbeefdeadbeefdeadbeef",["' + "00" * 32 + '"]]]', '[["0xdeadbeefdeadbeefdeadbeefdeadbeefdeadbe",[]]]',
          '[{"address":"0xdeadbeefdeadbeefdeadbeefdeadbeefdeadbeef","storageKeys":[]}]', '[["0xdeadbeefdeadbeefdeadbeefdeadbeefdeadbeef","0x' + "00" * 32 + '"]]', "[1]"]


def literal_class(tok):
    """for number tokens: ('nonintegral-float' if exact value is not an integer and it is float syntax)"""
    t = str(tok)
    try:
        if t[0] in "-0123456789" and ("." in t or "e" in t.lower()):
            v = Fraction(t)
            if v.denominator != 1:
                return "nonintegral-float-literal"
    except Exception:
        pass
    return None


def replace_field(jtext, key, token):
    """re-render the document with one field replaced (documents come from txgen.render, flat keys)"""
    obj = json.loads(jtext, parse_float=lambda s: Raw(s), parse_int=lambda s: Raw(s))
    fields = []
    for k, v in obj.items():
        if k == key:
            continue
        fields.append((k, v if isinstance(v, Raw) else Raw(json.dumps(v, separators=(",", ":")))))
    if token is not None:
        fields.append((key, token))
    return txgen.render(fields)


def gen(rng, tier):
    cases = []
    # 1. every numeric field x every spelling x boundary values
    for kind, keys in NUMERIC.items():
        for key in keys:
            for v in txgen.BOUNDARY + [rng.randrange(2 ** 256) for _ in range(3)]:
                group = (kind, key, v, rng.getrandbits(48))  # unique per generator round
                # one base document per group: only the spelling of the field under test varies
                j, _ = txgen.rand_tx(rng, kind=kind, chain=1, spellings=["dec-str", "hex-str"], data_len=0, al_shape=[], to="addr")
                if kind == "legacy" and key == "chainId" and v > (2 ** 256 - 37) // 2:
                    continue
                for sp in ["int", "float.0", "float-e", "dec-str", "hex-str"]:
                    if sp == "int" and v > 2 ** 64 - 1:
                        continue
                    if sp.startswith("float") and v >= 2 ** 53:
                        continue
                    tok, _ = txgen.spell(rng, v, [sp])
                    j2 = replace_field(j, key, tok)
                    cases.append(Case("tx.parse " + hx(j2), tags=("spelling:" + sp, "kind:" + kind), meta={"group": (repr(group) if not (sp.startswith("float") and v >= 10 ** 15) else None), "field": key, "token": str(tok)}))
                # zero-padded spellings of the same value (a 32-byte word, wider, upper case, decimal with leading zeros)
                import json as _jp
                for sp, t in (("hex-word64", "0x%064x" % v), ("hex-pad66", "0x%066X" % v), ("dec-pad", "00" + str(v))):
                    if rng.random() < (1.0 if tier == "thorough" else 0.5):
                        cases.append(Case("tx.parse " + hx(replace_field(j, key, _jp.dumps(t))), tags=("spelling:" + sp, "kind:" + kind), meta={"group": repr(group), "field": key, "token": t}))
    # 2. random well-formed documents
    for _ in range(1500 if tier == "thorough" else 300):
        j, _ = txgen.rand_tx(rng)
        cases.append(Case("tx.parse " + hx(j), tags=("random-valid",)))
    # 3. malformed: one field replaced
    reps = 3 if tier == "thorough" else 1
    for _ in range(reps):
        for kind, keys in NUMERIC.items():
            for key in keys:
                for tok in BAD_NUM:
                    j, _ = txgen.rand_tx(rng, kind=kind, chain=1, spellings=["int", "dec-str"], data_len=rng.choice([0, 4]), al_shape=[1])
                    cls = literal_class(tok)
                    cases.append(Case("tx.parse " + hx(replace_field(j, key, tok)), tags=("malformed-num", "kind:" + kind),
                                      meta={"field": key, "token": str(tok), "class": cls}))
            for tok in BAD_ADDR:
                j, _ = txgen.rand_tx(rng, kind=kind, chain=1)
                cases.append(Case("tx.parse " + hx(replace_field(j, "to", Raw(tok))), tags=("malformed-to",)))
            for tok in BAD_DATA:
                j, _ = txgen.rand_tx(rng, kind=kind, chain=1)
                cases.append(Case("tx.parse " + hx(replace_field(j, "data", Raw(tok))), tags=("malformed-data",)))
            for key in keys + ["data"]:
                j, _ = txgen.rand_tx(rng, kind=kind, chain=1)
                if not (kind == "legacy" and key == "chainId"):
                    cases.append(Case("tx.parse " + hx(replace_field(j, key, None)), tags=("missing-field",)))
        for kind in ("eip2930", "eip1559"):
            for tok in BAD_AL:
                j, _ = txgen.rand_tx(rng, kind=kind, chain=1)
                cases.append(Case("tx.parse " + hx(replace_field(j, "accessList", Raw(tok))), tags=("malformed-accesslist",)))
    # 4. random number tokens in a random field (fuzz-like, float heavy)
    for _ in range(3000 if tier == "thorough" else 500):
        kind = rng.choice(list(NUMERIC))
        key = rng.choice(NUMERIC[kind])
        r = rng.random()
        if r < 0.3:
            m = rng.randrange(10 ** rng.choice([1, 5, 15, 16, 17, 19, 20, 25]))
            e = rng.choice([0, 1, 2, 5, 10, 20, 22, 23, 60, 77])
            tok = "%de%d" % (m, e)
        elif r < 0.6:
            m = rng.randrange(10 ** rng.choice([1, 5, 15, 16, 17, 20]))
            f = rng.choice(["0", "00", "5", "25", "0000000000000000000000001", "9999999999999999999", str(rng.randrange(10 ** 6))])
            tok = "%d.%s" % (m, f)
            if rng.random() < 0.4:
                tok += "e%d" % rng.choice([1, 2, 6, 19, 25, -1, -5])
        elif r < 0.8:
            tok = "%s%de-%d" % (rng.choice(["", "-"]), rng.randrange(10 ** rng.choice([3, 10, 20])) * 10 ** rng.randrange(0, 8), rng.randrange(0, 12))
        else:
            tok = str(rng.choice([-1, 1]) * rng.randrange(2 ** rng.choice([8, 53, 63, 64, 65, 70, 256, 260])))
        j, _ = txgen.rand_tx(rng, kind=kind, chain=1, spellings=["int"], data_len=0, al_shape=[])
        cases.append(Case("tx.parse " + hx(replace_field(j, key, Raw(tok))), tags=("fuzz-number",), meta={"field": key, "token": tok, "class": literal_class(tok)}))
    # 5. structure
    for doc in ["", "{}", "[]", "null", "1", '"x"', "{", '{"nonce":1', '{"nonce":1,}', '{"nonce":01,"gasPrice":1,"gas":1,"value":1,"data":"0x"}',
                '{"nonce":1,"gasPrice":1,"gas":1,"value":1,"data":"0x"} x', '{"nonce":1,"nonce":2,"gasPrice":1,"gas":1,"value":1,"data":"0x"}',
                '{"nonce":-1,"nonce":2,"gasPrice":1,"gas":1,"value":1,"data":"0x"}', '{"nonce":1e999,"nonce":2,"gasPrice":1,"gas":1,"value":1,"data":"0x"}',
                '{"nonce":1,"gasPrice":1,"gas":1,"value":1,"data":"0x","extra":{"a":[1,2,{"b":null}]}}',
                '{"nonce":1,"gasPrice":1,"gas":1,"value":1,"data":"0x","to":"\\u0030x' + "ab" * 20 + '"}',
                '{"\\u006eonce":1,"gasPrice":1,"gas":1,"value":1,"data":"0x"}',
                '﻿{"nonce":1,"gasPrice":1,"gas":1,"value":1,"data":"0x"}', ' \n\t{"nonce":1,"gasPrice":1,"gas":1,"value":1,"data":"0x"}\r\n ',
                '{"nonce":1,"gasPrice":1,"gas":1,"value":1,"data":"0x","x":' + "[" * 126 + "]" * 126 + "}",
                '{"nonce":1,"gasPrice":1,"gas":1,"value":1,"data":"0x","x":' + "[" * 127 + "]" * 127 + "}",
                '{"nonce":1,"gasPrice":1,"gas":1,"value":1,"data":"0x","x":' + "[" * 128 + "]" * 128 + "}",
                '{"nonce":1,"gasPrice":1,"gas":1,"value":1,"data":"0x","x":"\\ud83d\\ude00"}', '{"nonce":1,"gasPrice":1,"gas":1,"value":1,"data":"0x","x":"\\ud83d"}',
                '{"nonce":1,"gasPrice":1,"gas":1,"value":1,"data":"0x","x":"\x01"}', '{"nonce":1,"gasPrice":1,"gas":1,"value":1,"data":"0x","maxFeePerGas":1}',
                '{"nonce":1,"gasPrice":1,"gas":1,"value":1,"data":"0x","accessList":[]}', '{"nonce":1,"gasPrice":1,"gas":1,"value":1,"data":"0x","chainId":null,"accessList":[]}']:
        cases.append(Case("tx.parse " + hx(doc), tags=("structure",), nontrivial=False))
    cases.append(Case("tx.parse " + hx(b'{"nonce":1,"gasPrice":1,"gas":1,"value":1,"data":"0x","x":"\xff"}'), tags=("structure",), nontrivial=False))
    # bytes that are not UTF-8 anywhere in the document (a lone high byte is a blank, a digit or a letter in some single-byte
    # code page: 0x85 NEL, 0xA0 NBSP, 0xB9 superscript one …): between tokens, inside a number, a key, a string value
    for hb in (0x80, 0x85, 0xa0, 0xad, 0xb1, 0xb9, 0xc0, 0xc2, 0xe2, 0xf0, 0xff):
        for pat in (b'{"nonce":%s1,"gasPrice":1,"gas":1,"value":1,"data":"0x"}', b'{"nonce":1%s,"gasPrice":1,"gas":1,"value":1,"data":"0x"}', b'{"nonce":"1%s","gasPrice":1,"gas":1,"value":1,"data":"0x"}',
                    b'{"nonce%s":1,"nonce":1,"gasPrice":1,"gas":1,"value":1,"data":"0x"}', b'{"nonce":1,"gasPrice":1,"gas":1,"value":1,"data":"0x%s"}', b'%s{"nonce":1,"gasPrice":1,"gas":1,"value":1,"data":"0x"}',
                    b'{"nonce":1,"gasPrice":1,"gas":1,"value":1,"data":"0x"}%s', b'{"nonce":1,"gasPrice":1,"gas":1,"value":1,"data":"0x","to":"0x%s1111111111111111111111111111111111111111"}'):
            cases.append(Case("tx.parse " + hx(pat % bytes([hb])), tags=("structure", "not-utf8"), nontrivial=False))
    # 6. direct cross-check of the binary64 model
    for tok in [str(t) for t in BAD_NUM if str(t)[0] in "-0123456789"] + ["1e308", "1e309", "1.7976931348623157e308", "1.7976931348623159e308", "4.9e-324", "2.4703282292062327e-324",
                                                                          "2.4703282292062328e-324", "0.1", "123456789012345678901234567890.5e-10", "1e23", "8.5e15"]:
        cases.append(Case("json.f64 " + hx(tok), tags=("f64",), nontrivial=False))
    for _ in range(4000 if tier == "thorough" else 600):
        s = ("-" if rng.random() < 0.2 else "") + str(rng.randrange(10 ** rng.choice([1, 5, 15, 17, 19, 20, 21, 30])))
        if rng.random() < 0.6:
            s += "." + "".join(rng.choice("0123456789") for _ in range(rng.choice([1, 2, 5, 16, 20, 30])))
        if rng.random() < 0.6:
            s += rng.choice("eE") + rng.choice(["", "+", "-"]) + str(rng.choice([0, 1, 5, 10, 22, 23, 100, 300, 308, 309, 320, 340, 400, rng.randrange(0, 700)]))
        cases.append(Case("json.f64 " + hx(s), tags=("f64",), nontrivial=False))
    # perturbed spellings of string-valued fields: a valid decimal / hex string, address, calldata or storage key with white
    # space, case, doubled or mixed prefixes, signs before and after the prefix, digit separators, quotes, invisible characters
    from vlib.core import perturb
    for kind in ("legacy", "eip2930", "eip1559"):
        j, exp = txgen.rand_tx(rng, kind=kind, al_shape=[1])
        for key in NUMERIC[kind]:
            v = rng.choice([16, 255, 10 ** 18, 2 ** 64, rng.randrange(2 ** 200)])
            for tok in perturb(str(v)) + perturb(hex(v), "0x"):
                cases.append(Case("tx.parse " + hx(replace_field(j, key, json.dumps(tok))), tags=("perturbed-string", "kind:" + kind), meta={"field": key}))
        a = txgen.rand_addr(rng)
        for tok in perturb(a, "0x"):
            cases.append(Case("tx.parse " + hx(replace_field(j, "to", json.dumps(tok))), tags=("perturbed-string", "to")))
        for tok in perturb("0x" + "ab" * 6, "0x"):
            cases.append(Case("tx.parse " + hx(replace_field(j, "data", json.dumps(tok))), tags=("perturbed-string", "data")))
        if kind != "legacy":
            k32 = "0x" + "%064x" % rng.getrandbits(256)
            for tok in perturb(k32, "0x"):
                cases.append(Case("tx.parse " + hx(replace_field(j, "accessList", json.dumps([[a, [tok]]]))), tags=("perturbed-string", "storage-key")))
            for tok in perturb(a, "0x"):
                cases.append(Case("tx.parse " + hx(replace_field(j, "accessList", json.dumps([[tok, [k32]]]))), tags=("perturbed-string", "al-address")))
    # one character of a valid hex / decimal string replaced by a sign / separator / point / x / NUL / blank (same length)
    from vlib.core import substitute
    jS, _eS = txgen.rand_tx(rng, kind="eip1559", al_shape=[1])
    aS = txgen.rand_addr(rng)
    kS = "0x" + "%064x" % rng.getrandbits(256)
    for tok in substitute("0x1f4a", 2) + substitute("123456"):
        cases.append(Case("tx.parse " + hx(replace_field(jS, rng.choice(NUMERIC["eip1559"]), json.dumps(tok))), tags=("substituted", "number-string")))
    for tok in substitute(aS, 2)[::5]:
        cases.append(Case("tx.parse " + hx(replace_field(jS, "to", json.dumps(tok))), tags=("substituted", "to")))
        cases.append(Case("tx.parse " + hx(replace_field(jS, "accessList", json.dumps([[tok, [kS]]]))), tags=("substituted", "al-address")))
    for tok in substitute(kS, 2)[::9]:
        cases.append(Case("tx.parse " + hx(replace_field(jS, "accessList", json.dumps([[aS, [tok]]]))), tags=("substituted", "storage-key")))
    for tok in substitute("0xdeadbeef", 2):
        cases.append(Case("tx.parse " + hx(replace_field(jS, "data", json.dumps(tok))), tags=("substituted", "data")))
    # … and by a digit look-alike (control characters that a case fold turns into digits, : ; < = > ? @ `, p..y, full-width and
    # other Unicode digits) at the first, a middle and the last digit
    from vlib.core import substitute_lookalikes
    for tok in substitute_lookalikes("0x1f4a", 2) + substitute_lookalikes("123456"):
        cases.append(Case("tx.parse " + hx(replace_field(jS, rng.choice(NUMERIC["eip1559"]), json.dumps(tok))), tags=("substituted", "number-string", "digit-lookalike")))
    for tok in substitute_lookalikes(aS, 2):
        cases.append(Case("tx.parse " + hx(replace_field(jS, "to", json.dumps(tok))), tags=("substituted", "to", "digit-lookalike")))
    for tok in substitute_lookalikes(kS, 2, 2):
        cases.append(Case("tx.parse " + hx(replace_field(jS, "accessList", json.dumps([[aS, [tok]]]))), tags=("substituted", "storage-key", "digit-lookalike")))
    for tok in substitute_lookalikes("0xdeadbeef", 2):
        cases.append(Case("tx.parse " + hx(replace_field(jS, "data", json.dumps(tok))), tags=("substituted", "data", "digit-lookalike")))
    # which kind a document is, and which field sets are refused: every subset of the pricing / access-list fields
    for j, sub, wc in txgen.field_mixes(rng):
        cases.append(Case("tx.parse " + hx(j), tags=("field-mix", "fields:" + sub)))
    # equivalent JSON spellings (white space, \\uXXXX escapes in keys and in string values) of valid and malformed documents:
    # the same document, so the same fields or the same refusal
    from vlib import jsonspell
    pool = [c for c in cases if c.line.startswith("tx.parse ") and c.tags[0] in ("random-valid", "malformed-num", "malformed-to", "malformed-data", "malformed-accesslist", "missing-field")]
    for c in rng.sample(pool, min(len(pool), 150 if tier == "quick" else 600)):
        try:
            t = bytes.fromhex(c.line.split(" ")[1]).decode()
        except UnicodeDecodeError:
            continue
        cases.append(Case("tx.parse " + hx(jsonspell.respell(rng, t, p_escape=rng.choice([0.05, 0.3, 1.1]))), tags=("respelled", c.tags[0]), meta={k: v for k, v in c.meta.items() if k in ("token", "field")}))
    from vlib import routes
    cases += routes.add_routes(cases, rng, 80, tier)
    return cases


FIELD_POS = {"legacy": ["kind", "chainId", "nonce", "gasPrice", "gas", "to", "value", "data"],
             "eip2930": ["kind", "chainId", "nonce", "gasPrice", "gas", "to", "value", "data", "accessList"],
             "eip1559": ["kind", "chainId", "nonce", "maxPriorityFeePerGas", "maxFeePerGas", "gas", "to", "value", "data", "accessList"]}


def match_known(k, case, rec):
    """Known finding `float-literal-rounding`: a float-syntax JSON literal (it has a fraction or an exponent) in a
    numeric field whose exact mathematical value differs from the integer the implementation accepts for that
    field (serde_json rounds it to binary64 before ethnum sees it).  Anything else is not matched."""
    if k.get("match", {}).get("class") != "float-literal-rounding":
        return False
    tok, field = case.meta.get("token"), case.meta.get("field")
    if tok is None or field is None or not rec["impl"].startswith("ok ") or not rec["judge"].startswith("fails"):
        return False
    if rec["impl"] != rec["model"]:
        return False  # the model of serde_json's rounding must agree, otherwise it is something else
    t = str(tok)
    if not (t[:1] in "-0123456789" and ("." in t or "e" in t.lower())):
        return False
    try:
        exact = Fraction(t)
    except Exception:
        return False
    parts = rec["impl"].split(" ")[1:]
    names = FIELD_POS.get(parts[0])
    if not names or field not in names or parts[names.index(field)] == "none":
        return False
    accepted = int(parts[names.index(field)], 16)
    return exact != accepted


def extra_checks(cases, impl, model, verdicts, tier, rng, cov):
    groups = {}
    for c, o in zip(cases, impl):
        g = c.meta.get("group")
        if g is not None:
            groups.setdefault(g, set()).add(o)
    bad = [g for g, s in groups.items() if len(s) != 1]
    cov["equal_integer_groups"] = len(groups)
    if bad:
        lines = [c.line for c in cases if c.meta.get("group") == bad[0]]
        return [("witness", "equal integers in different spellings parsed differently", {"lines": lines})]
    return []


def shrink_candidates(line):
    return []


def run_cli(case):
    from vlib import cli
    return cli.run_cli(case)
