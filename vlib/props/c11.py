"""C11 — chain replay protection is never dropped silently."""
from vlib.core import Case, hx
from vlib import core
from vlib import cli, bip39, txgen

ID = "C11"
NEEDS_CLI = True
NEEDS_PLAIN_CLI = True
THOROUGH_ROUNDS = 3
RULE = ("real binary `sign transaction` x {--allow-missing-relay-protection, not} x {--signature-only, full} x kinds x chain ids {absent, null, 0, 1, 2^64-1, "
        "2^255-20, 2^255-19 (largest with 35+2c+1 < 2^256), 2^255-18, 2^255, 2^256-1}, legacy documents without chain id x recipient {address, absent, null} x calldata x both flags (the guard depends on the chain id only), plus library op sig.v <parity> <chain> for every bit boundary 2^k-1, 2^k, 2^k+1 (k = 0..255) and signed legacy transactions at 20 (thorough: all) of them; "
        "non-trivial = distinct (kind, chain id, flags); judge decodes the output strictly, checks v = 35+2c+parity as an integer (27/28 without chain id, "
        "yParity for typed), that the signature verifies and recovers to the signer over keccak256 of the EIP-155/2718 payload containing c, and the guard")
EXHAUSTIVE_SWEEPS = {"quick": ["10 chain-id classes x 3 kinds x 2 flags x 2 output modes", "sig.v at 2^k-1, 2^k, 2^k+1 for k = 0..255 x both parities"], "thorough": ["10 chain-id classes x 3 kinds x 2 flags x 2 output modes", "sig.v at 2^k-1, 2^k, 2^k+1 for k = 0..255 x both parities"]}
CHAINS = ["absent", "null", 0, 1, 5, 2 ** 64 - 1, 2 ** 255 - 20, 2 ** 255 - 19, 2 ** 255 - 18, 2 ** 255, 2 ** 256 - 1]


def gen(rng, tier):
    cases = []
    reps = 4 if tier == "thorough" else 1
    for _ in range(reps):
        mn = hx(" ".join(bip39.rand_phrase(rng, 12)))
        for kind in ("legacy", "eip2930", "eip1559"):
            for chain in CHAINS:
                if kind != "legacy" and chain in ("absent", "null"):
                    continue
                for allow in (0, 1):
                    for so in (0, 1):
                        j, exp = txgen.rand_tx(rng, kind=kind, chain=(0 if chain in ("absent", "null") else chain), spellings=["dec-str", "hex-str"], data_len=rng.choice([0, 4]), al_shape=[1])
                        if chain in ("absent", "null"):
                            import json
                            obj = json.loads(j)
                            del obj["chainId"]
                            if chain == "null":
                                obj["chainId"] = None
                            j = json.dumps(obj)
                        cases.append(Case("cli.sign_tx %s - default %s %d %d" % (mn, hx(j), so, allow), runner="cli",
                                          tags=("kind:" + kind, "chain:" + (str(chain) if isinstance(chain, str) or chain < 100 else "2^%d%+d" % (round(__import__('math').log2(chain + 1)), chain - 2 ** round(__import__('math').log2(chain + 1)))),
                                                "allow:%d" % allow, "sigonly:%d" % so), meta={"via": {}, "via_file": core.input_route(rng)}))
    # chain ids written as bare JSON numbers beyond what a number can carry exactly (above 2^64, or in exponent form): the
    # chain id that is bound is the one written, or the document is refused — never a rounded neighbour
    import json as _json4
    for kind in ("legacy", "eip2930", "eip1559"):
        for tok in ("18446744073709551617", "100000000000000000000000", str(2 ** 200 + 12345), "1e23", "18446744073709551616", "9007199254740993", "1.8446744073709552e19",
                    # a chain id that is SUPPLIED but cannot be read (negative, fraction, wrong kind, malformed text) is an error with
                    # and without the override flag: it is not the same as no chain id
                    "-1", "1.5", "true", "[]", "{}", '"abc"', '""', '"0x"', '"-1"', '"1 "', "[1]"):
            j, _ = txgen.rand_tx(rng, kind=kind, chain=1, spellings=["dec-str"])
            obj = _json4.loads(j)
            obj["chainId"] = "@@T@@"
            txt = _json4.dumps(obj).replace('"@@T@@"', tok)
            for so in (0, 1):
                for allow in (0, 1):
                    cases.append(Case("cli.sign_tx %s - default %s %d %d" % (mn, hx(txt), so, allow), runner="cli", tags=("bare-number-chain", "kind:" + kind, "allow:%d" % allow), meta={"via": {}, "via_file": False, "token": tok}))
    # the guard looks at the chain id only: recipient present / absent / null, calldata empty or not, value zero or not
    import json as _json
    for to in ("addr", "absent", "null"):
        for data_len in (0, 36):
            for chain in ("absent", "null"):
                for allow in (0, 1):
                    for so in (0, 1):
                        j, exp = txgen.rand_tx(rng, kind="legacy", chain=0, spellings=["dec-str", "hex-str", "int"], data_len=data_len, to=to)
                        obj = _json.loads(j)
                        del obj["chainId"]
                        if chain == "null":
                            obj["chainId"] = None
                        if rng.random() < 0.3:
                            obj["value"] = 0
                        cases.append(Case("cli.sign_tx %s - default %s %d %d" % (mn, hx(_json.dumps(obj)), so, allow), runner="cli",
                                          tags=("guard-fields", "to:" + to, "allow:%d" % allow, "sigonly:%d" % so), meta={"via": {}, "via_file": core.input_route(rng)}))
    # many parities: random keys through random mnemonics, legacy with chain id
    for _ in range(120 if tier == "thorough" else 24):
        mn = hx(" ".join(bip39.rand_phrase(rng, 12)))
        c = rng.choice([1, 2, 137, 2 ** 32, 2 ** 64 - 1, rng.randrange(2 ** 200), 2 ** 255 - 19])
        j, _ = txgen.rand_tx(rng, kind="legacy", chain=c)
        cases.append(Case("cli.sign_tx %s - default %s 0 0" % (mn, hx(j)), runner="cli", tags=("parity-sample",), meta={"via": {}, "via_file": False}))
    # the four recovery ids `Signature::from_parts` takes: bit 0 is the y-parity; bit 1 ("x was reduced") is no part of v
    for par in (0, 1, 2, 3):
        for c in ["none"] + ["%064x" % x for x in [0, 1, 2 ** 64 - 1, 2 ** 255 - 20, 2 ** 255 - 19, 2 ** 255 - 18, 2 ** 255, 2 ** 256 - 1]]:
            cases.append(Case("sig.v %d %s" % (par, c), tags=("sig.v",)))
    # every bit boundary of the chain id: 2^k-1, 2^k, 2^k+1 for k = 0..255 (a narrower intermediate type, a shift that drops
    # the top bit, a carry that is lost between words all show at one of these); beyond 2^255-19 the statement wants an error
    seen = set()
    for k in range(0, 256):
        for c in (2 ** k - 1, 2 ** k, 2 ** k + 1, 2 ** k + 2 ** (k // 2)):
            if c in seen or c >= 2 ** 256:
                continue
            seen.add(c)
            for par in (0, 1):
                cases.append(Case("sig.v %d %064x" % (par, c), tags=("sig.v", "bit-boundary")))
    mn = hx(" ".join(bip39.rand_phrase(rng, 12)))
    ks = range(1, 255) if tier == "thorough" else [7, 8, 15, 16, 31, 32, 33, 62, 63, 64, 65, 96, 126, 127, 128, 129, 191, 192, 253, 254]
    for k in ks:
        for c in (2 ** k - 1, 2 ** k, 2 ** k + rng.randrange(2 ** k)):
            j, _ = txgen.rand_tx(rng, kind="legacy", chain=c, spellings=["dec-str", "hex-str"])
            cases.append(Case("cli.sign_tx %s - default %s 0 0" % (mn, hx(j)), runner="cli", tags=("bit-boundary", "kind:legacy"), meta={"via": {}, "via_file": False}))
    return cases


run_cli = cli.run_cli
