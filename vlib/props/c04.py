"""C04 — public key and address."""
from vlib.core import Case, hx

ID = "C04"
N = 0xFFFFFFFFFFFFFFFFFFFFFFFFFFFFFFFEBAAEDCE6AF48A03BBFD25E8CD0364141
RULE = ("op acct.new <bytes> -> secret, 65-byte key, EIP-55 text: scalars 1,2,n-2,n-1 and random; 0,n,n+1,2^256-1 (must be rejected); "
        "keys whose public key has every possible first byte of X and of Y (found by walking k·G); every length 0..64 (zero-padded small values, random, all-ff); non-trivial = distinct input; "
        "judge = secret·G by independent secp256k1, Keccak-256, EIP-55 written from the EIP; op secp.affine <scalar>: the code's public key against the affine arithmetic PROVED to be the secp256k1 group law "
        "(Props/SecpInstance: addA_sound, mulA_sound, mulG_exec), which must also agree with the driver's fast Jacobian arithmetic: boundary scalars, powers of two, random")
EXHAUSTIVE_SWEEPS = {"quick": ["all lengths 0..64", "first byte of X: 0..255", "first byte of Y: 0..255"], "thorough": ["all lengths 0..64", "first byte of X: 0..255", "first byte of Y: 0..255"]}


def gen(rng, tier):
    cases = []
    for v in [1, 2, 3, N - 2, N - 1, 0, N, N + 1, 2 ** 256 - 1, 2 ** 255, 2 ** 128, 0x4f3edf983ac636a65a842ce7c78d9aa706d3b113bce9c46f30d7d21715b23b1d]:
        cases.append(Case("acct.new %064x" % v, tags=("boundary",)))
    for _ in range(1500 if tier == "thorough" else 300):
        v = rng.choice([rng.randrange(1, N), rng.randrange(1, 2 ** 64), N - rng.randrange(1, 2 ** 32), rng.randrange(N, 2 ** 256)])
        cases.append(Case("acct.new %064x" % v, tags=("random",)))
    # secret·G against the VERIFIED arithmetic: op secp.affine is answered on the model side by the affine double-and-add of
    # Prim/SecpAffine.lean, which Props/SecpInstance.lean proves to be the group law of y² = x³ + 7 over ZMod p (Mathlib's
    # WeierstrassCurve group), and which must also agree with the fast Jacobian arithmetic every other op of the driver uses
    for v in [1, 2, 3, 4, 7, N - 1, N - 2, N - 3, (N - 1) // 2, (N + 1) // 2, 2 ** 128, 2 ** 255, 2 ** 256 - 2 ** 32 - 978, 0x4f3edf983ac636a65a842ce7c78d9aa706d3b113bce9c46f30d7d21715b23b1d] + \
             [rng.randrange(1, N) for _ in range(120 if tier == "thorough" else 26)] + [1 << rng.randrange(1, 256) for _ in range(4)] + [(1 << rng.randrange(2, 256)) - 1 for _ in range(4)]:
        if 0 < v < N:
            cases.append(Case("secp.affine %064x" % v, tags=("verified-arithmetic",)))
    # keys chosen by what their public key looks like: every value of the first byte of X and of Y (a leading 0x04 looks like
    # the SEC1 tag, a leading 0x00 is where a stripped / re-padded coordinate shows), and the smallest X / Y met on the way
    from vlib import secp
    need_x, need_y = set(range(256)), set(range(256))
    best = {}
    for k, pt in secp.walk(rng.randrange(1, N - 20000), 6000 if tier == "quick" else 20000):
        bx, by = pt[0] >> 248, pt[1] >> 248
        hit = []
        if bx in need_x:
            need_x.discard(bx)
            hit.append("X0:%02x" % bx if bx in (0, 4, 2, 3, 0xff) else "X0:any")
        if by in need_y:
            need_y.discard(by)
            hit.append("Y0:%02x" % by if by in (0, 4, 2, 3, 0xff) else "Y0:any")
        if tier == "thorough" and bx in (0, 4):
            hit.append("X0:%02x" % bx)
        for h in hit[:1]:
            cases.append(Case("acct.new %064x" % k, tags=("pubkey-shape", h)))
    # inputs that are the TEXT of a key rather than the key: the hex digits `export` prints (64 bytes; 66 with 0x; upper
    # case), decimal digits, base64 — a 64- or 66-byte string is not a 32-byte secret, whatever its bytes spell; and
    # 32-byte secrets that happen to consist of ASCII digits / hex digits / letters are ordinary secrets
    import base64
    for v in [1, 0x4f3edf983ac636a65a842ce7c78d9aa706d3b113bce9c46f30d7d21715b23b1d, rng.randrange(1, N), N - 1]:
        h = "%064x" % v
        for t in (h, h.upper(), "0x" + h, "0X" + h.upper(), h[:32], h + h, str(v), base64.b64encode(bytes.fromhex(h)).decode(), h + "\n", " " + h):
            cases.append(Case("acct.new " + hx(t.encode()), tags=("text-of-a-key", "len:%d" % len(t))))
    for alphabet in ("0123456789", "0123456789abcdef", "ABCDEF0123456789", "abcdefghijklmnopqrstuvwxyz", "0", "f", "0x"):
        for L_ in (32, 64, 66):
            t = "".join(rng.choice(alphabet) for _ in range(L_))
            cases.append(Case("acct.new " + hx(t.encode()), tags=("ascii-bytes", "len:%d" % L_)))
    for L in range(0, 65):
        for b in (bytes(L), bytes([0] * max(0, L - 1) + [1])[:L], bytes(rng.getrandbits(8) for _ in range(L)), b"\xff" * L,
                  (b"\x00" * L + bytes.fromhex("%064x" % rng.randrange(1, N)))[-L:] if L else b""):
            cases.append(Case("acct.new " + hx(b), tags=("length:%d" % L,), nontrivial=(24 <= L <= 40)))
    return cases
