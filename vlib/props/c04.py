"""C04 — public key and address."""
from vlib.core import Case, hx

ID = "C04"
N = 0xFFFFFFFFFFFFFFFFFFFFFFFFFFFFFFFEBAAEDCE6AF48A03BBFD25E8CD0364141
RULE = ("op acct.new <bytes> -> secret, 65-byte key, EIP-55 text: scalars 1,2,n-2,n-1 and random; 0,n,n+1,2^256-1 (must be rejected); "
        "every length 0..64 (zero-padded small values, random, all-ff); non-trivial = distinct input; "
        "judge = secret·G by independent secp256k1, Keccak-256, EIP-55 written from the EIP")
EXHAUSTIVE_SWEEPS = {"quick": ["all lengths 0..64"], "thorough": ["all lengths 0..64"]}


def gen(rng, tier):
    cases = []
    for v in [1, 2, 3, N - 2, N - 1, 0, N, N + 1, 2 ** 256 - 1, 2 ** 255, 2 ** 128, 0x4f3edf983ac636a65a842ce7c78d9aa706d3b113bce9c46f30d7d21715b23b1d]:
        cases.append(Case("acct.new %064x" % v, tags=("boundary",)))
    for _ in range(1500 if tier == "thorough" else 300):
        v = rng.choice([rng.randrange(1, N), rng.randrange(1, 2 ** 64), N - rng.randrange(1, 2 ** 32), rng.randrange(N, 2 ** 256)])
        cases.append(Case("acct.new %064x" % v, tags=("random",)))
    for L in range(0, 65):
        for b in (bytes(L), bytes([0] * max(0, L - 1) + [1])[:L], bytes(rng.getrandbits(8) for _ in range(L)), b"\xff" * L,
                  (b"\x00" * L + bytes.fromhex("%064x" % rng.randrange(1, N)))[-L:] if L else b""):
            cases.append(Case("acct.new " + hx(b), tags=("length:%d" % L,), nontrivial=(24 <= L <= 40)))
    return cases
