"""C07 — canonical RLP."""
from vlib.core import Case, hx

ID = "C07"
RULE = ("hook ops rlp.len (every n in 0..70000 thorough / 0..3000 quick, plus neighbourhoods of 2^8,2^16,2^24,2^32,2^56,2^64-1, both offsets), "
        "rlp.bytes (all 256 single bytes, every length 0..1100 thorough / 0..300 quick, 64KiB+-1 and thorough 16MiB+-1 via rlp.bytes_rep), "
        "rlp.uint (every byte width 1..32 x {min, max, random}, zero), rlp.list (0..20 items, payload sizes crossing 55/56 and 255/256); "
        "transaction level (ops tx.sign / tx.encode, no hook): every access-list shape and repeat case and a sample of the other C06 cases, each payload strictly decoded and compared field by field; "
        "non-trivial = distinct input; judge = strict Yellow-Paper decoder (Spec.Rlp.decodeAll) must accept the output, consume it completely and return the input")
EXHAUSTIVE_SWEEPS = {"quick": ["rlp.len 0..3000 x {0x80,0xc0}", "all 256 single bytes", "string lengths 0..300", "uint byte widths 1..32"],
                     "thorough": ["rlp.len 0..70000 x {0x80,0xc0}", "all 256 single bytes", "string lengths 0..1100", "uint byte widths 1..32"]}
ASSUMPTIONS = ["64-bit usize"]


def gen(rng, tier):
    cases = []
    rb = lambda n: bytes(rng.getrandbits(8) for _ in range(n))
    top = 70000 if tier == "thorough" else 3000
    ns = set(range(0, top + 1))
    for c in (2 ** 8, 2 ** 16, 2 ** 24, 2 ** 32, 2 ** 40, 2 ** 48, 2 ** 56, 2 ** 63):
        ns.update(range(c - 3, c + 4))
    ns.update([2 ** 64 - 1, 2 ** 64 - 2])
    for n in sorted(ns):
        for off in (128, 192):
            cases.append(Case("rlp.len %d %d" % (n, off), tags=("len",)))
    for b in range(256):
        cases.append(Case("rlp.bytes %02x" % b, tags=("bytes", "single")))
    for n in range(0, (1100 if tier == "thorough" else 300) + 1):
        cases.append(Case("rlp.bytes " + hx(rb(n)), tags=("bytes", "len")))
        if n in (1, 55, 56, 255, 256):
            cases.append(Case("rlp.bytes " + hx(bytes(n)), tags=("bytes", "zeros")))
    big = [65535, 65536, 65537] + ([2 ** 24 - 1, 2 ** 24, 2 ** 24 + 1] if tier == "thorough" else [])
    for n in big:
        cases.append(Case("rlp.bytes_rep %d %d" % (n, rng.randrange(256)), tags=("bytes", "big")))
    # byte strings that look like text (hex digits, 0x…, decimal, base64, blanks): RLP strings are bytes, whatever they spell
    from vlib import magic
    for n_ in (1, 2, 20, 32, 55, 56):
        for b_, tag in magic.text_like(rng, n_):
            cases.append(Case("rlp.bytes " + hx(b_), tags=("bytes", "text-like")))
    cases.append(Case("rlp.bytes_rep 1 5", tags=("bytes", "big")))
    cases.append(Case("rlp.bytes_rep 1 200", tags=("bytes", "big")))
    cases.append(Case("rlp.uint -", tags=("uint",)))
    cases.append(Case("rlp.uint 00", tags=("uint",)))
    for w in range(1, 33):
        vals = [1 << (8 * (w - 1)), (1 << (8 * w)) - 1] + [rng.randrange(1 << (8 * (w - 1)), 1 << (8 * w)) for _ in range(6)]
        if w == 1:
            vals += [0x7f, 0x80, 0x00]
        for v in vals:
            cases.append(Case("rlp.uint %064x" % v, tags=("uint", "width:%d" % w)))
    # lists of canonical items
    def item():
        r = rng.random()
        if r < 0.3:
            return bytes([rng.randrange(128)])
        n = rng.choice([0, 1, 2, 20, 32, 54, 55, 56, 57, 100, 255, 256])
        b = rb(n)
        if n == 1 and b[0] < 0x80:
            return b
        if n < 56:
            return bytes([0x80 + n]) + b
        L = n.to_bytes((n.bit_length() + 7) // 8, "big")
        return bytes([0xb7 + len(L)]) + L + b
    for _ in range(1500 if tier == "thorough" else 300):
        k = rng.choice([0, 1, 2, 3, 5, 9, 20])
        items = [item() for _ in range(k)]
        cases.append(Case("rlp.list " + (",".join(hx(i) for i in items) if items else "-"), tags=("list", "items:%d" % k)))
    # exact payload sizes across the list boundaries
    for total in (54, 55, 56, 57, 254, 255, 256, 257, 65535, 65536):
        items = [bytes([0x01])] * total
        cases.append(Case("rlp.list " + ",".join(hx(i) for i in items), tags=("list", "boundary")))
    # transaction level: "decodes to exactly the original values" and "distinct transactions never share an encoding" are
    # statements about whole payloads too — every access-list shape / repeat case and a sample of the other C06 cases
    from vlib.props import c06
    import random as _r
    sub = c06.gen(_r.Random(rng.getrandbits(64)), "quick")
    for c in sub:
        t = c.tags[0]
        if t in ("accesslist-shape", "accesslist-repeats") or (t in ("random", "chosen-signature", "calldata-sweep", "chain-ids") and rng.random() < (0.6 if tier == "thorough" else 0.25)):
            cases.append(Case(c.line, tags=("tx-level", t), meta=dict(c.meta), nontrivial=c.nontrivial))
    return cases
