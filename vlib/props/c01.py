"""C01 — mnemonic phrases <-> entropy (BIP-39)."""
from vlib.core import Case, hx
from vlib import bip39

ID = "C01"
NEEDS_CLI = True
RULE = ("op mn.parse <phrase> (returns printed form, length, Display) on: word counts 0..40 of valid words; every word of the list "
        "(quick: each word once at a random position of a valid phrase; thorough: each word at each of 24 positions); all 2048 candidates "
        "for the final word of a random prefix for each count 12..24 (quick: counts 12 and 24 in full, 128 candidates for the others); random entropies of "
        "the five sizes via mn.random with injected entropy (parse∘print round trip); whitespace layouts; malformed stream. "
        "a random sample of the cases is re-run through every sub-command that reaches the same code (vlib/routes.py); single-separator layouts for every white-space character; the right final word replaced by a list word that is a suffix / prefix / substring of it (or contains it) with the same entropy bits; valid phrases followed by further list words / a second phrase / junk; wide layouts (runs of up to 50 white-space characters, column layout, valid phrases padded to exact byte lengths 200..1000003 around 216 / 2^k / 10^k); near-miss tokens (valid phrases with one word replaced by an upper-case / full-width / ligature / roman-numeral / superscript / mathematical-alphabet / abbreviated / invisibly-padded look-alike of the same word); non-trivial = distinct phrase that reaches the checksum comparison (12..24 known words); judge = executable Spec.Bip39.Valid")
EXHAUSTIVE_SWEEPS = {
    "quick": ["word counts 0..40", "all 2048 words (once each)", "all 2048 final-word candidates for 12- and 24-word prefixes"],
    "thorough": ["word counts 0..40", "all 2048 words x 24 positions", "all 2048 final-word candidates for every count 12..24"]}
ASSUMPTIONS = ["64-bit usize (x86_64); the wasm32 build is out of scope"]

WS = [" ", "\t", "\n", "\r", "\x0b", "\x0c", "\u0085", " ", " ", " ", " ", " ", " ", " ", "　"]


def gen(rng, tier):
    W = bip39.words()
    cases = []

    def add(text, *tags, nt=True):
        cases.append(Case("mn.parse " + hx(text), tags=tags, nontrivial=nt))

    # word counts 0..40
    for n in range(0, 41):
        for _ in range(3):
            add(" ".join(rng.choice(W) for _ in range(n)), "count:%d" % n, nt=(12 <= n <= 24))
        if n in (12, 15, 18, 21, 24):
            for _ in range(20):
                add(" ".join(bip39.rand_phrase(rng, n)), "valid:%d" % n)
    # every word, every position
    if tier == "thorough":
        for idx in range(2048):
            for pos in range(24):
                n = 24 if pos >= 12 else rng.choice([12, 15, 18, 21, 24])
                while pos >= n:
                    n += 3
                add(" ".join(bip39.phrase_with_word(rng, n, pos, idx)), "word-sweep")
    else:
        for idx in range(2048):
            n = rng.choice([12, 15, 18, 21, 24])
            pos = rng.randrange(n)
            add(" ".join(bip39.phrase_with_word(rng, n, pos, idx)), "word-sweep")
        for pos in range(24):
            add(" ".join(bip39.phrase_with_word(rng, 24, pos, rng.randrange(2048))), "position-sweep")
    # all candidates for the final word
    for n in range(12, 25):
        prefix = [rng.choice(W) for _ in range(n - 1)]
        cands = range(2048) if (tier == "thorough" or n in (12, 24)) else rng.sample(range(2048), 128)
        for c in cands:
            add(" ".join(prefix + [W[c]]), "final-word:%d" % n)
    # layouts
    for _ in range(300 if tier == "thorough" else 80):
        ws = bip39.rand_phrase(rng)
        s = rng.choice(["", " ", "\n", "\t "]) + "".join(w + "".join(rng.choice(WS) for _ in range(rng.randint(1, 3))) for w in ws)
        if rng.random() < 0.5:
            s = s.rstrip()
            s = s if s.split() == ws else " ".join(ws)
        add(s, "layout")
    # wide layouts: the same valid words with long runs of white space between them and around them, and padded to exact
    # byte lengths around the sizes a buffer or a sanity bound might have (24 words x 9 = 216, powers of two, 10^k)
    for _ in range(60 if tier == "thorough" else 15):
        ws = bip39.rand_phrase(rng)
        gap = lambda: "".join(rng.choice(WS) for _ in range(rng.choice([1, 2, 4, 7, 12, 20, 50])))
        add(gap() + "".join(w + gap() for w in ws), "layout", "wide")
        add("\n    ".join(ws) + "\n", "layout", "wide")
    for n in (12, 15, 18, 21, 24):
        ws = bip39.rand_phrase(rng, n)
        base = " ".join(ws)
        for total in (200, 215, 216, 217, 218, 240, 255, 256, 257, 300, 511, 512, 513, 1023, 1024, 1025, 4095, 4096, 4097, 9999, 10000, 10001, 65535, 65536, 65537) + ((1000003,) if n == 24 else ()):
            if total < len(base):
                continue
            pad = total - len(base)
            where = rng.randrange(3)
            if where == 0:
                t = base + " " * pad
            elif where == 1:
                t = " " * pad + base
            else:
                k = rng.randrange(1, n)
                t = " ".join(ws[:k]) + " " * (pad + 1) + " ".join(ws[k:])
            assert len(t) == total
            add(t, "layout", "padded-to:%d" % (total if total < 1000 else 1000))
        # an invalid one of each size too (the size must not make it valid)
        bad = " ".join(ws[:-1] + [W[(W.index(ws[-1]) + 1) % 2048]])
        add(bad + " " * (4096 - len(bad)), "malformed", "padded")
    # exactly one separator character between the words and nothing around them, for every white-space character (the
    # phrase is as long as its canonical form, or differs only by the width of the separators)
    for _ in range(6 if tier == "thorough" else 2):
        for sep in WS:
            ws = bip39.rand_phrase(rng)
            add(sep.join(ws), "layout", "single-separator")
        ws = bip39.rand_phrase(rng)
        add("".join(w + rng.choice(WS[:6]) for w in ws[:-1]) + ws[-1], "layout", "single-separator", "mixed")
        k = rng.randrange(1, len(ws))
        add(" ".join(ws[:k]) + "\n" + " ".join(ws[k:]), "layout", "single-separator", "one-line-break")
    # lexical relatives at the final position: the right last word replaced by a list word that is a suffix / prefix /
    # substring of it (or the other way round) AND carries the same entropy bits, so that only the checksum differs
    # (act|abstract, air|affair, art|apart, arm|alarm, under|thunder, rice|price, ...); entropy found by search
    import hashlib
    idx = {w: i for i, w in enumerate(W)}
    rel = [(a, b) for a in W for b in W if a != b and len(a) < len(b) and a in b]
    for n in (12, 15, 18, 21, 24):
        cs = n // 3
        nb = n * 4 // 3
        pairs = [(a, b) for a, b in rel if idx[a] >> cs == idx[b] >> cs]
        rng.shuffle(pairs)
        # every suffix pair and every prefix pair (a few dozen per length), a sample of the inner-substring ones
        edge = [(a, b) for a, b in pairs if b.endswith(a) or b.startswith(a)]
        inner = [(a, b) for a, b in pairs if not (b.endswith(a) or b.startswith(a))]
        for a, b in edge + inner[:(12 if tier == "thorough" else 4)]:
            for right, wrong in ((b, a), (a, b)):
                # entropy whose last (11 - cs) bits are those of `right` and whose checksum selects `right`
                tail_bits = 11 - cs
                for _ in range(4000):
                    e = bytearray(bip39.rand_entropy(rng, nb))
                    v = int.from_bytes(e, "big")
                    v = (v >> tail_bits << tail_bits) | (idx[right] >> cs)
                    e = v.to_bytes(nb, "big")
                    if hashlib.sha256(e).digest()[0] >> (8 - cs) == idx[right] & ((1 << cs) - 1):
                        ws = bip39.from_entropy(e)
                        assert ws[-1] == right
                        add(" ".join(ws), "final-word-relative", "valid")
                        add(" ".join(ws[:-1] + [wrong]), "final-word-relative", "suffix" if right.endswith(wrong) or wrong.endswith(right) else "prefix" if right.startswith(wrong) or wrong.startswith(right) else "substring")
                        break
    # a valid phrase followed by more tokens: further list words (1..24 of them, or a second valid phrase) or junk — the
    # word count is that of the whole input, and every token is looked up
    for n in (12, 15, 18, 21, 24):
        for _ in range(3 if tier == "thorough" else 1):
            ws = bip39.rand_phrase(rng, n)
            for extra in (1, 2, 3, 6, 9, 12, 24):
                add(" ".join(ws + [rng.choice(W) for _ in range(extra)]), "malformed", "valid-prefix-plus-words", nt=(n + extra <= 24))
            add(" ".join(ws + bip39.rand_phrase(rng, rng.choice([12, 24]))), "malformed", "valid-prefix-plus-phrase", nt=False)
            for junk in (["xyzzy"], ["not-a-word", "12345"], ["é"], ["ABANDON"], [ws[0][:3]]):
                add(" ".join(ws + junk), "malformed", "valid-prefix-plus-junk")
                add(" ".join(junk + ws), "malformed", "junk-plus-valid", nt=False)
    # malformed
    for _ in range(400 if tier == "thorough" else 120):
        ws = bip39.rand_phrase(rng)
        i = rng.randrange(len(ws))
        r = rng.random()
        if r < 0.15:
            ws[i] = ws[i].upper()
        elif r < 0.3:
            ws[i] = ws[i][:-1]
        elif r < 0.45:
            ws[i] = ws[i] + rng.choice("sxe")
        elif r < 0.55:
            ws[i] = rng.choice(["zzz", "é", "Abandon", "ab andon", "", "0", "abandon​", "ａbandon"])
        elif r < 0.7:
            ws[i] = W[(W.index(ws[i]) + 1) % 2048]
        elif r < 0.8:
            del ws[i]
        elif r < 0.9:
            ws.insert(i, rng.choice(W))
        else:
            ws[i], ws[i - 1] = ws[i - 1], ws[i]
        sep = rng.choice([" ", " ", ",", "-", "​"]) if rng.random() < 0.1 else " "
        add(sep.join(ws), "malformed")
    # near-miss tokens: a valid phrase in which ONE word is replaced by something a lenient lookup (case folding, Unicode
    # normalisation, abbreviation, trimming of invisible characters) would map back to that same word — so the phrase
    # would be valid, checksum included, if the token were "repaired".  None of these is a word of the list.
    import unicodedata
    LIG = [("ffi", "ﬃ"), ("ffl", "ﬄ"), ("ff", "ﬀ"), ("fi", "ﬁ"), ("fl", "ﬂ"), ("st", "ﬆ"), ("ii", "ⅱ"), ("iv", "ⅳ"), ("vi", "ⅵ"), ("ix", "ⅸ"), ("xi", "ⅺ"),
           ("s", "ſ"), ("i", "ⅰ"), ("x", "ⅹ"), ("l", "ⅼ"), ("c", "ⅽ"), ("d", "ⅾ"), ("m", "ⅿ"), ("v", "ⅴ"), ("k", "K"), ("a", "ª"), ("o", "º"),
           ("h", "ʰ"), ("j", "ʲ"), ("r", "ʳ"), ("w", "ʷ"), ("y", "ʸ"), ("n", "ⁿ"), ("e", "ₑ"), ("a", "ₐ"), ("g", "ℊ"), ("e", "ℯ"), ("l", "ℓ")]
    def lookalikes(w):
        out = [w.upper(), w.capitalize(), w[:-1] + w[-1].upper(), w[:4] if len(w) > 4 else w + w[-1], w + "\u200b", "\ufeff" + w, w + "\u00ad", w[0] + "\u0301" + w[1:],
               w + ".", w + ",", "".join(chr(ord(c) + 0xFEE0) for c in w), chr(ord(w[0]) + 0xFEE0) + w[1:], w[:-1] + chr(ord(w[-1]) + 0xFEE0),
               "".join(chr(0x1D41A + ord(c) - 97) for c in w), chr(0x24D0 + ord(w[0]) - 97) + w[1:], w[0] + chr(0x1D68A + ord(w[1]) - 97) + w[2:],
               w.replace("a", "\u0430", 1) if "a" in w else w.replace("e", "\u0435", 1), w + "\u0000" if False else w + "\u2060"]
        for a, b in LIG:
            if a in w:
                out.append(w.replace(a, b, 1))
        return [t for t in out if t != w and t not in W]
    nm = 0
    for _ in range(40 if tier == "thorough" else 10):
        ws = bip39.rand_phrase(rng)
        for i in rng.sample(range(len(ws)), 4):
            for t in lookalikes(ws[i]):
                add(" ".join(ws[:i] + [t] + ws[i + 1:]), "near-miss-token", "nfkd-maps-back" if unicodedata.normalize("NFKD", t) == ws[i] else "other-near-miss")
                nm += 1
    # delimiters glued to the outer ends of the text or of single words (quotes of every kind, brackets, back-ticks): such a
    # token is not a list word, whatever a glue layer that "unwraps" values thinks; every one of these also goes through the
    # command line (flag and environment), where that glue lives
    DELIMS = [('"', '"'), ("'", "'"), ('"', ""), ("", '"'), ("'", ""), ("", "'"), ("`", "`"), ("(", ")"), ("[", "]"), ("<", ">"), ("\u201c", "\u201d"), ("\u2018", "\u2019"),
              ('""', "'"), (' "', '" '), ("\t'", "'\n")]
    for n in (12, 24):
        ws = bip39.rand_phrase(rng, n)
        ph = " ".join(ws)
        for a, b in DELIMS:
            outer = a + ph + b
            add(outer, "near-miss-token", "outer-delimiters")
            if "\x00" not in outer:
                for via in ("flag", "env"):
                    cases.append(Case("cli.address %s - default" % hx(outer), tags=("near-miss-token", "outer-delimiters", "route"), runner="cli", meta={"via": {"mnemonic": via}}))
            i = rng.randrange(1, n - 1)
            add(" ".join(ws[:i] + [a + ws[i] + b] + ws[i + 1:]), "near-miss-token", "inner-delimiters")
    # the whole phrase in a look-alike script / case
    for _ in range(10):
        ws = bip39.rand_phrase(rng)
        ph = " ".join(ws)
        for t in [ph.upper(), ph.title(), "".join(chr(ord(c) + 0xFEE0) if c != " " else c for c in ph), "".join(chr(ord(c) + 0xFEE0) if c != " " else "\u3000" for c in ph),
                  "".join(chr(0x1D41A + ord(c) - 97) if c != " " else c for c in ph)]:
            add(t, "near-miss-phrase")
    for s in ["", " ", "\n", "abandon", "abandon " * 12, ("abandon " * 11 + "about").upper()]:
        add(s, "malformed", nt=False)
    # round trip from entropy (generation with injected entropy, then parse what was printed)
    for nb, n in [(16, 12), (20, 15), (24, 18), (28, 21), (32, 24)]:
        pats = [bytes(nb), b"\xff" * nb, bytes([0x80] + [0] * (nb - 1)), bytes([0] * (nb - 1) + [1])]
        pats += [bip39.rand_entropy(rng, nb) for _ in range(200 if tier == "thorough" else 40)]
        for ent in pats:
            cases.append(Case("mn.random %d %s" % (n, hx(ent)), tags=("from-entropy:%d" % n,)))
            add(" ".join(bip39.from_entropy(ent)), "roundtrip:%d" % n)
    from vlib import routes
    cases += routes.add_routes(cases, rng, 80, tier)
    return cases


def shrink_candidates(line):
    op, *args = line.split(" ")
    if op != "mn.parse" or args[0] == "-":
        return
    s = bytes.fromhex(args[0]).decode("utf-8", "replace")
    ws = s.split(" ")
    for i in range(len(ws)):
        yield "mn.parse " + hx(" ".join(ws[:i] + ws[i + 1:]))
    if s != " ".join(s.split()):
        yield "mn.parse " + hx(" ".join(s.split()))


def run_cli(case):
    from vlib import cli
    return cli.run_cli(case)
