"""C19 — hex encode / decode."""
from vlib.core import Case, hx
from vlib import core
from vlib import cli

ID = "C19"
NEEDS_CLI = True
THOROUGH_ROUNDS = 2
RULE = ("real binary `hex encode`/`hex decode` (stdin in one write, stdin in pieces with pauses, regular file, named pipe fed in pieces, default argument) vs model: all 256 byte values, "
        "lengths 0..4096 (thorough: every length; quick: 0..64 + sampled + boundaries), round trip of every encode output "
        "through decode, whitespace/case/prefix layouts, data and text with special byte sequences (BOMs, line endings, NUL, Ctrl-Z, escape/prefix/magic bytes: vlib/magic.py) at the start, end and inside,  malformed (odd, non-hex, non-UTF-8: every lone byte 0x80..0xFF after / inside / before valid digits, overlong and truncated sequences, doubled prefix); "
        "non-trivial = distinct input")
EXHAUSTIVE_SWEEPS = {"quick": ["all 256 single bytes (encode and decode)", "lengths 0..64"],
                     "thorough": ["all 256 single bytes (encode and decode)", "every length 0..4096"]}

WS = [" ", "\t", "\n", "\r", "\x0b", "\x0c", "\u0085", " ", " ", " ", " ", " ", " ", " ", " ", "　"]


def layout(rng, data):
    s = data.hex()
    s = "".join(c.upper() if rng.random() < 0.5 else c for c in s)
    if rng.random() < 0.6:
        s = "0x" + s
    out = []
    for ch in s:
        if rng.random() < 0.15:
            out.append(rng.choice(WS))
        out.append(ch)
    if rng.random() < 0.5:
        out.append(rng.choice(WS))
    return "".join(out).encode("utf-8")


def gen(rng, tier):
    cases = []
    rb = lambda n: bytes(rng.getrandbits(8) for _ in range(n))
    lens = list(range(0, 4097)) if tier == "thorough" else sorted(set(list(range(0, 65)) + [127, 128, 255, 256, 1023, 1024, 4095, 4096] + [rng.randint(65, 4096) for _ in range(40)]))
    for b in range(256):
        d = bytes([b])
        cases.append(Case("cli.hex_encode " + hx(d), tags=("enc", "single-byte"), runner="cli"))
        cases.append(Case("cli.hex_decode " + hx(("0x%02x\n" % b).encode()), tags=("dec", "roundtrip"), runner="cli"))
        cases.append(Case("cli.hex_decode " + hx(("%02X" % b).encode()), tags=("dec", "upper"), runner="cli"))
    for n in lens:
        d = rb(n)
        meta = {"via_file": rng.random() < 0.3, "default_arg": rng.random() < 0.2}
        if meta["default_arg"]:
            meta["via_file"] = False
        cases.append(Case("cli.hex_encode " + hx(d), tags=("enc", "len"), runner="cli", meta=meta))
        cases.append(Case("cli.hex_decode " + hx(("0x" + d.hex() + "\n").encode()), tags=("dec", "roundtrip"), runner="cli", meta=dict(meta)))
    nlay = 600 if tier == "thorough" else 150
    for _ in range(nlay):
        d = rb(rng.choice([0, 1, 2, 3, 5, 8, 20, 32, 33, 100]))
        cases.append(Case("cli.hex_decode " + hx(layout(rng, d)), tags=("dec", "layout"), runner="cli"))
    # data that begins / ends with / contains byte sequences some layer might treat specially (BOMs, line endings, NUL,
    # Ctrl-Z, prefixes, container magic): `hex encode` takes arbitrary bytes and `hex decode` only hex digits, white space, one 0x
    from vlib import magic
    for body in (rb(6), b"\x01\x02\x03", b"hello"):
        for d, tag in magic.variants(rng, body):
            meta = {"via_file": core.input_route(rng)}
            cases.append(Case("cli.hex_encode " + hx(d), tags=("enc", tag), runner="cli", meta=meta))
    for d in magic.ENCODED_TEXTS:
        cases.append(Case("cli.hex_encode " + hx(d), tags=("enc", "encoded-text"), runner="cli", meta={"via_file": core.input_route(rng)}))
    for body in (b"0x010203", b"010203\n", b"0xABcd"):
        for d, tag in magic.variants(rng, body):
            meta = {"via_file": core.input_route(rng)}
            cases.append(Case("cli.hex_decode " + hx(d), tags=("dec", tag), runner="cli", meta=meta))
    # decoded OUTPUT with line feeds / NULs / Ctrl-Z at chosen distances from the end and the start, around the sizes an
    # output buffer may have (1024, 4096, 8192, 65536): every byte is written, whatever it is and wherever it stands
    for special in (b"\n", b"\r\n", b"\x00", b"\x1a", b"\x04"):
        for tail in (0, 1, 1023, 1024, 1025, 3000, 4095, 4096, 8192, 65536):
            for head in (0, 5, 1024):
                if special != b"\n" and (tail not in (0, 1024, 4096) or head == 5):
                    continue
                d = bytes([rng.choice(b"abcxyz0189")]) * head + special + bytes([rng.choice(b"ABCXYZ")]) * tail
                cases.append(Case("cli.hex_decode " + hx(("0x" + d.hex()).encode()), tags=("dec", "special-in-output"), runner="cli", meta={"via_file": rng.random() < 0.5}))
    cases.append(Case("cli.hex_decode " + hx(("0x" + (b"\n" * 5000).hex()).encode()), tags=("dec", "special-in-output"), runner="cli", meta={}))
    cases.append(Case("cli.hex_decode " + hx(("0x" + (b"line\n" * 3000 + b"x" * 2000).hex()).encode()), tags=("dec", "special-in-output"), runner="cli", meta={}))
    # input that arrives in pieces: stdin written in up to three writes with pauses, and a named pipe fed the same way —
    # the end of the input is end-of-file, not a short read
    for n in (1, 2, 3, 100, 300, 4095, 4096, 4097, 8191, 8192, 8193, 16384, 70000):
        d = rb(n)
        for route in ("slow", "fifo"):
            cases.append(Case("cli.hex_encode " + hx(d), tags=("enc", "pieces:" + route), runner="cli", meta={"via_file": route}))
            cases.append(Case("cli.hex_decode " + hx(("0x" + d.hex() + "\n").encode()), tags=("dec", "pieces:" + route), runner="cli", meta={"via_file": route}))
    # malformed
    bad = [b"0", b"0x0", b"abc", b"0xg0", b"zz", b"0x0x00", b"0X00", b"x00", b"00 0", b"\xff\xfe", b"\xc3", b"0x\xc3\xa9", b"--", b"0x-1",
           b"00\x00", b"0 x00", b"\xe3\x80\x800x00", "0x00é".encode(), "００".encode(), b"0x", b"", b" ", b"\n0x\n"]
    bad += [b"0x0x41", b"0x 0x 41 42", b"0x0x0x", b"0x0x", b" 0x\n0x00", b"0X0x00", b"0x0X00", b"0x00x00", b"00x00", b"0x0x0x0x00", b"0x\t0x41", "0x 0x".encode()]
    # long inputs whose defect comes late (a decoder that writes as it goes would emit output before failing)
    for n in (1024, 1025, 1500, 2047, 2048, 2049, 3000, 4096):
        good = bytes(rng.getrandbits(8) for _ in range(n)).hex()
        for variant in (good + "g", good + "0", good[:-1], good[:n] + "zz" + good[n:], "0x" + good + "x", good + " 0x", "\n".join(good[i:i + 64] for i in range(0, len(good), 64)) + "\n0"):
            bad.append(variant.encode())
    # one digit of a valid even-length text replaced by a character that integer parsers tolerate or that looks harmless
    # (sign, separator, point, x, e-accent, NUL): the digit count stays even, the text is not hex
    for base in ("4a4b", "0x4a4b", "0x00ff10", "AbCdEf0123456789"):
        start = 2 if base.startswith("0x") else 0
        for pos in range(start, len(base)):
            for ch in "+-_.,xX~ \x00gG":
                if ch == " ":
                    continue
                bad.append((base[:pos] + ch + base[pos + 1:]).encode())
    from vlib.core import substitute_lookalikes
    for base in ("4a4b", "0x4a4b", "AbCdEf0123456789"):
        bad += [v.encode() for v in substitute_lookalikes(base, 2 if base.startswith("0x") else 0, 4)]
    bad += [b"0x+a", b"+a", b"0x4a+b", b"4a +B", b"0x++", b"+0x4a", b"0x-a", b"0x_a", b"0x+4", b"0x4+"]
    for b in bad:
        cases.append(Case("cli.hex_decode " + hx(b), tags=("dec", "malformed"), runner="cli"))
    # input that is not text: every lone byte 0x80..0xFF (in some single-byte code page each of them is a space, a digit or
    # a letter: 0x85 NEL and 0xA0 NBSP in Latin-1, 0xB2/0xB3/0xB9 superscript digits, …) before, inside and after valid
    # digits; overlong encodings of a space and of digits, a surrogate, truncated sequences
    for hb in range(0x80, 0x100):
        for pat in (b"0x4142%s", b"0x41%s42", b"%s0x4142", b"41 %s 42"):
            if pat != b"0x4142%s" and tier != "thorough" and hb not in (0x80, 0x85, 0xa0, 0xad, 0xb2, 0xb9, 0xc2, 0xe2, 0xff) and hb % 8:
                continue
            cases.append(Case("cli.hex_decode " + hx(pat % bytes([hb])), tags=("dec", "malformed", "lone-high-byte"), runner="cli", meta={"via_file": core.input_route(rng)}, nontrivial=True))
    for seq in (b"\xc0\xa0", b"\xc0\xb0\xc0\xb0", b"\xe0\x80\xa0", b"\xed\xa0\x80", b"\xc2", b"\xe2\x80", b"\xf0\x9f\x98", b"\xc2\xa0\xa0", b"\x85\xa0", b"\xa0\xa0\xa0", b"\xf8\x88\x80\x80\x80", b"\xfe", b"\xef\xbb"):
        for pat in (b"0x4142%s", b"0x41%s42", b"%s4142"):
            cases.append(Case("cli.hex_decode " + hx(pat % seq), tags=("dec", "malformed", "invalid-utf8"), runner="cli", meta={"via_file": core.input_route(rng)}, nontrivial=True))
    for _ in range(200 if tier == "thorough" else 60):
        d = bytearray(layout(rng, rb(rng.randint(1, 12))))
        if d:
            i = rng.randrange(len(d))
            d[i] = rng.choice([0x67, 0x47, 0x2d, 0x2b, 0x5f, 0x2e, 0x80, 0xff, 0x78, 0x30, 0x00, 0x7f])
        if rng.random() < 0.3 and d:
            del d[rng.randrange(len(d))]
        cases.append(Case("cli.hex_decode " + hx(bytes(d)), tags=("dec", "mutated"), runner="cli"))
    return cases


run_cli = cli.run_cli


def shrink_candidates(line):
    op, arg = line.split(" ")
    if arg == "-":
        return
    b = bytes.fromhex(arg)
    for i in range(len(b)):
        yield op + " " + hx(b[:i] + b[i + 1:])
