"""C06 — signed transactions are the exact typed encodings and recover to the signer."""
from vlib.core import Case, hx
from vlib import core
from vlib import txgen

ID = "C06"
NEEDS_CLI = True
RULE = ("op tx.sign <json> <key> -> signing digest, signed bytes, (r, s, parity): field values boundary-biased in [0,2^256), calldata lengths 0..120 exhaustively "
        "(thorough 0..1100) + 255/256/65535/65536, recipients present/absent/null, access lists 0..4 entries x 0..4 slots plus shapes pushing list payloads across 55/56 and 255/256, "
        "every subset of {gasPrice, maxPriorityFeePerGas, maxFeePerGas, accessList} x chain id present/absent (kind selection and refusals), all three kinds, chain ids 0,1,2^64-1,large, both parities (counted); op tx.encode with chosen signatures whose r / s have every byte width 1..32; non-trivial = distinct document; "
        "judge = independent strict decoder (Spec.Tx.decode on Spec.Rlp.decodeAll): every decoded field equals the document, v/yParity as integers, "
        "signature verifies and recovers to the key over keccak256 of the re-encoded unsigned payload; large transactions (calldata 1000..131077 bytes around 4/8/32/64/128 KiB; thorough up to 262151) signed through the command line via every input route: the printed text is the whole encoding and nothing else")
EXHAUSTIVE_SWEEPS = {"quick": ["calldata lengths 0..120"], "thorough": ["calldata lengths 0..1100"]}
N = txgen.N


def gen(rng, tier):
    cases = []
    key = lambda: "%064x" % rng.randrange(1, N)
    for n in list(range(0, (1100 if tier == "thorough" else 120) + 1)) + [255, 256, 257, 65535, 65536]:
        j, _ = txgen.rand_tx(rng, data_len=n)
        cases.append(Case("tx.sign %s %s" % (hx(j), key()), tags=("calldata-sweep",)))
    for shape in [[], [0], [1], [4, 4, 4, 4], [0, 0, 0, 0], [1, 0], [2], [7], [8], [1, 1], [3, 3, 3], [10, 10], [40], [1] * 12, [0] * 3, [0] * 11, [0] * 12]:
        for kind in ("eip2930", "eip1559"):
            j, _ = txgen.rand_tx(rng, kind=kind, al_shape=shape)
            cases.append(Case("tx.sign %s %s" % (hx(j), key()), tags=("accesslist-shape",)))
    # access lists with repeated storage keys (adjacent and not), repeated addresses, identical entries
    import json as _json
    for kind in ("eip2930", "eip1559"):
        for _ in range(12):
            a, b = txgen.rand_addr(rng), txgen.rand_addr(rng)
            k, j2 = ["0x" + bytes(rng.getrandbits(8) for _ in range(32)).hex() for _ in range(2)]
            zero = "0x" + "00" * 32
            al = rng.choice([[[a, [k, k]]], [[a, [k, j2, k]]], [[a, [k, k, k, j2, j2]]], [[a, [k]], [a, [k]]], [[a, []], [a, []]], [[a, [k]], [b, [k]]], [[a, [zero, zero]]],
                             [[a, [k, j2]], [a, [j2, k]]], [[a.lower(), [k]], [a.upper().replace("0X", "0x"), [k]]]])
            jt, _ = txgen.rand_tx(rng, kind=kind, al_shape=[])
            obj = _json.loads(jt)
            obj["accessList"] = al
            cases.append(Case("tx.sign %s %s" % (hx(_json.dumps(obj)), key()), tags=("accesslist-repeats",)))
    for _ in range(2500 if tier == "thorough" else 400):
        j, exp = txgen.rand_tx(rng)
        cases.append(Case("tx.sign %s %s" % (hx(j), key()), tags=("random", "kind:" + exp["kind"], "to:" + ("none" if exp["to"] is None else "addr"))))
    for kind in ("legacy", "eip2930", "eip1559"):
        for chain in (0, 1, 2 ** 64 - 1, 2 ** 255 - 19, 2 ** 200 + 12345):
            for _ in range(4):
                j, _ = txgen.rand_tx(rng, kind=kind, chain=chain)
                cases.append(Case("tx.sign %s %s" % (hx(j), key()), tags=("chain-ids",)))
    # small fixed fields and a calldata sweep: the payload of the unsigned and of the signed list then takes EVERY length in a
    # contiguous range that contains 55|56 and 255|256 (list headers change form there), for each kind and recipient form
    import json as _json2
    for kind in ("legacy", "eip2930", "eip1559"):
        for to in ("0x" + "11" * 20, None):
            for n in list(range(0, 70)) + list(range(150, 270)) if tier == "thorough" else list(range(0, 62)) + list(range(170, 262, 1)):
                obj = {"nonce": 1, "gas": 21000, "value": 0, "data": "0x" + "ab" * n, "chainId": 1}
                if to:
                    obj["to"] = to
                if kind == "eip1559":
                    obj["maxPriorityFeePerGas"] = 1
                    obj["maxFeePerGas"] = 2
                else:
                    obj["gasPrice"] = 1
                if kind != "legacy":
                    obj["accessList"] = []
                cases.append(Case("tx.sign %s %s" % (hx(_json2.dumps(obj)), key()), tags=("payload-length-sweep", "kind:" + kind)))
    # recipient forms for every kind: the emitted recipient is the 20 bytes given, or empty for an absent / null one — a text
    # that is not an address (short, long, unprefixed, non-hex, empty, "0x") is refused, never turned into a creation
    good_to = "0x" + "5a" * 20
    for kind in ("legacy", "eip2930", "eip1559"):
        for to in [good_to, good_to.upper().replace("0X", "0x"), None, "absent", "", "0x", "0X", "0x0", "0x" + "5a" * 19, "0x" + "5a" * 21, "5a" * 20, "0x" + "5a" * 19 + "5", "0x" + "5a" * 19 + "zz",
                   "0x" + "5a" * 19 + "5 ", " " + good_to, good_to + " ", "0x" + "0" * 40, "0x" + "f" * 40, 0, 1, False, [], {}, [good_to], "null", "0x" + "5a" * 32, "0x" + "00" * 12 + "5a" * 20]:
            obj = {"nonce": 1, "gas": 21000, "value": 0, "data": "0x", "chainId": 1}
            if to != "absent":
                obj["to"] = to
            if kind == "eip1559":
                obj["maxPriorityFeePerGas"] = 1
                obj["maxFeePerGas"] = 2
            else:
                obj["gasPrice"] = 1
            if kind != "legacy":
                obj["accessList"] = []
            cases.append(Case("tx.sign %s %s" % (hx(_json2.dumps(obj)), key()), tags=("recipient-forms", "kind:" + kind)))
    # the command-line route for every kind x the override flag x both output modes (the flag waives a refusal, nothing else)
    from vlib import bip39 as _b39
    mn_ = hx(" ".join(_b39.rand_phrase(rng, 12)))
    for kind, chain in (("legacy", "absent"), ("legacy", 0), ("legacy", 1), ("legacy", 2 ** 64 - 1), ("eip2930", None), ("eip1559", None)):
        for allow in (0, 1):
            for so in (0, 1):
                j, _ = txgen.rand_tx(rng, kind=kind, chain=chain)
                cases.append(Case("cli.sign_tx %s - default %s %d %d" % (mn_, hx(j), so, allow), tags=("cli", "kind:" + kind, "allow:%d" % allow), runner="cli", meta={"via": {}, "via_file": False}))
    # LARGE transactions through the command line: the printed encoding is the whole encoding and nothing else, whatever
    # its size relative to the sizes an output or hex buffer may have (4 KiB, 8 KiB, 32 KiB, 64 KiB, 128 KiB)
    sizes = [1000, 4095, 4096, 8191, 8192, 8193, 16384, 32767, 32768, 32769, 33000, 40000, 65535, 65536, 70001, 131077] + ([200000, 98304, 49152, 262144 + 7] if tier == "thorough" else [])
    for i, n in enumerate(sizes):
        kind = ("legacy", "eip2930", "eip1559")[i % 3]
        j, _ = txgen.rand_tx(rng, kind=kind, chain=1, data_len=n - rng.choice([0, 0, 110, 150]) if n > 1000 else n, spellings=["int", "hex-str"])
        cases.append(Case("cli.sign_tx %s - default %s 0 0" % (mn_, hx(j)), tags=("cli", "large", "kind:" + kind), runner="cli", meta={"via": {}, "via_file": core.input_route(rng)}))
        if i % 4 == 0:
            cases.append(Case("tx.sign %s %s" % (hx(j), key()), tags=("large", "kind:" + kind)))
    # every numeric field of every kind with a value no unsigned field can take (negative integer / float, fraction): refused
    # whichever field and kind it is — what is signed is what the document says, or nothing
    from vlib.txgen import Raw as _Raw
    import json as _json3
    NUMF = {"legacy": ["chainId", "nonce", "gasPrice", "gas", "value"], "eip2930": ["chainId", "nonce", "gasPrice", "gas", "value"],
            "eip1559": ["chainId", "nonce", "maxPriorityFeePerGas", "maxFeePerGas", "gas", "value"]}
    for kind, flds in NUMF.items():
        j0, _ = txgen.rand_tx(rng, kind=kind, chain=1, spellings=["int"], al_shape=[1])
        for f in flds:
            for tok in ("-1", "-2.0e3", "-0.5", "1.5", "-1e-3"):
                obj = _json3.loads(j0)
                txt = _json3.dumps(obj)
                # splice the raw token in place of the field's value
                obj[f] = "@@TOKEN@@"
                txt = _json3.dumps(obj).replace('"@@TOKEN@@"', tok)
                cases.append(Case("tx.sign %s %s" % (hx(txt), key()), tags=("bad-number", "kind:" + kind, "field:" + f)))
    # which kind a document is: every subset of the pricing / access-list fields, with and without chain id
    for j, sub, wc in txgen.field_mixes(rng):
        cases.append(Case("tx.sign %s %s" % (hx(j), key()), tags=("field-mix", "fields:" + sub)))
    # the largest legacy chain ids, with chosen signatures of both parities: v = 35 + 2c + parity must be emitted exactly,
    # and a chain id for which some parity would not fit 256 bits is refused when the document is read
    for c in [2 ** 255 - 22 + i for i in range(0, 8)] + [2 ** 254, 2 ** 255 - 1, 2 ** 255, 2 ** 256 - 1]:
        j, _ = txgen.rand_tx(rng, kind="legacy", chain=c, spellings=["dec-str", "hex-str"])
        for par in (0, 1):
            cases.append(Case("tx.encode %s %064x %064x %d" % (hx(j), rng.randrange(1, N), rng.randrange(1, N // 2), par), tags=("chain-bound", "parity:%d" % par)))
        cases.append(Case("tx.sign %s %s" % (hx(j), key()), tags=("chain-bound",)))
    # chosen signatures: every byte width of r and s (leading zero bytes must be stripped), both parities
    for kind in ("legacy", "eip2930", "eip1559"):
        for w in range(1, 33):
            r = (1 << (8 * (w - 1))) + rng.randrange(1 << (8 * (w - 1))) if w > 1 else rng.randrange(1, 256)
            s2 = rng.randrange(1, min(N, 1 << (8 * rng.randint(1, 32))))
            for (a, b) in ((r, s2), (s2, r)):
                if a >= N or b >= N:
                    continue
                j, _ = txgen.rand_tx(rng, kind=kind, chain=rng.choice([1, 5, 2 ** 64 - 1]))
                cases.append(Case("tx.encode %s %064x %064x %d" % (hx(j), a, b, rng.randrange(2)), tags=("chosen-signature", "width:%d" % w)))
    # chosen signatures carrying each of the four recovery ids: yParity / v use bit 0 only
    for kind in ("legacy", "eip2930", "eip1559"):
        for rid in (0, 1, 2, 3):
            j, _ = txgen.rand_tx(rng, kind=kind, chain=rng.choice([1, 5, 2 ** 64 - 1]))
            cases.append(Case("tx.encode %s %064x %064x %d" % (hx(j), rng.randrange(1, N), rng.randrange(1, N // 2), rid), tags=("chosen-signature", "recovery-id:%d" % rid)))
    # chosen signatures with a zero byte at each position 0..31 of r / s
    for pos in range(32):
        b = bytearray(rng.getrandbits(8) | 1 for _ in range(32))
        b[0] = b[0] & 0x7f | 1
        b[pos] = 0
        if pos == 0:
            b[1] |= 1
        v = int.from_bytes(b, "big")
        o = rng.randrange(1, N // 2)
        kind = ("legacy", "eip2930", "eip1559")[pos % 3]
        j, _ = txgen.rand_tx(rng, kind=kind, chain=1)
        a_, b_ = (v, o) if pos % 2 else (o, v % (N // 2) or 1)
        if pos % 2 == 0:
            bb = bytearray((v % (N // 2)).to_bytes(32, "big"))
            bb[pos] = 0
            b_ = int.from_bytes(bb, "big") or 1
        cases.append(Case("tx.encode %s %064x %064x %d" % (hx(j), a_, b_, rng.randrange(2)), tags=("chosen-signature", "zero-byte-at:%d" % pos)))
    return cases


def extra_checks(cases, impl, model, verdicts, tier, rng, cov):
    par = {}
    for o in impl:
        p = o.split(" ")
        if p[0] == "ok" and len(p) == 6:
            par[p[5]] = par.get(p[5], 0) + 1
    cov["parity_counts"] = par
    if len(par) < 2:
        return [("infra", "generator did not reach both parities", {})]
    return []


def run_cli(case):
    from vlib import cli
    return cli.run_cli(case)
