"""C03 — BIP-32 derivation."""
from vlib.core import Case, hx

ID = "C03"
RULE = ("op hdk.derive <seed> <path>: seeds of length 0,1,16,32,64,65,128 and random; seeds of 16/32/64/66 bytes that look like the text of an encoding (hex digits, 0x…, decimal, base64, words, JSON, blanks: vlib/magic.text_like); depths 1..10 and long paths (up to 513 components, thorough 1000: around 32/64/128/256/512); indices from {0,1,2^31-1,random} x "
        "{hardened, normal}; mixed sequences; normal below hardened; BIP-32 test vectors 1, 2, 3 and 4 (leading-zero parent keys); sequences of 2..6 derivations in one thread over a few seeds and textually / structurally related paths (op seq); non-trivial = distinct (seed, path); "
        "judge = Spec.Bip32 (CKDpriv from the standard) with independent HMAC-SHA512 / secp256k1")
EXHAUSTIVE_SWEEPS = {"quick": [], "thorough": []}


def gen(rng, tier):
    cases = []
    rb = lambda n: bytes(rng.getrandbits(8) for _ in range(n))
    seeds = [b"", b"\x00", rb(16), rb(32), rb(64), rb(65), rb(128), bytes.fromhex("000102030405060708090a0b0c0d0e0f"),
             bytes.fromhex("fffcf9f6f3f0edeae7e4e1dedbd8d5d2cfccc9c6c3c0bdbab7b4b1aeaba8a5a29f9c999693908d8a8784817e7b7875726f6c696663605d5a5754514e4b484542")]
    vecs = ["m/0'", "m/0'/1", "m/0'/1/2'", "m/0'/1/2'/2", "m/0'/1/2'/2/1000000000", "m/0", "m/0/2147483647'", "m/0/2147483647'/1",
            "m/0/2147483647'/1/2147483646'", "m/0/2147483647'/1/2147483646'/2", "m/44'/60'/0'/0/0"]
    # BIP-32 test vectors 3 and 4: parent keys with a leading zero byte under a hardened step (serP/ser256 keep all 32 bytes)
    for sd_, paths in (("4b381541583be4423346c643850da4b320e46a87ae3d2a4e6da11eba819cd4acba45d239319ac14f863b8d5ab5a0d0c64d2e8a1e7d1457df2e5a3c51c73235be", ["m/0'", "m/0'/1'", "m/0'/0"]),
                       ("3ddd5602285899a946114506157c7997e5444528f3003f6134712147db19b678", ["m/0'", "m/0'/1'", "m/0'/1'/2"])):
        for p_ in paths:
            cases.append(Case("hdk.derive %s %s" % (sd_, hx(p_)), tags=("vector", "leading-zero-parent")))
    for s in seeds:
        for p in vecs:
            cases.append(Case("hdk.derive %s %s" % (hx(s), hx(p)), tags=("vector",)))
    # seeds that are binary data to derive() but LOOK like the text of an encoding (hex digits with and without 0x,
    # decimal digits, base64, words, JSON, blanks …): the master key is HMAC-SHA512 of exactly these bytes
    from vlib import magic
    for nb in (16, 32, 64) + ((8, 33, 66, 128) if tier == "thorough" else (66,)):
        for sd_, tag in magic.text_like(rng, nb):
            for p_ in rng.sample(vecs, 2):
                cases.append(Case("hdk.derive %s %s" % (hx(sd_), hx(p_)), tags=("text-like-seed", tag)))
    n = 1500 if tier == "thorough" else 250
    for _ in range(n):
        s = rng.choice(seeds) if rng.random() < 0.3 else rb(rng.choice([16, 32, 64, rng.randint(1, 100)]))
        depth = rng.randint(1, 10)
        comps = []
        for _ in range(depth):
            v = rng.choice([0, 1, 2 ** 31 - 1, rng.randrange(2 ** 31), rng.randrange(256), 2 ** 24, 255, 256, 65536])
            comps.append("%d%s" % (v, "'" if rng.random() < 0.5 else ""))
        cases.append(Case("hdk.derive %s %s" % (hx(s), hx("m/" + "/".join(comps))), tags=("random", "depth:%d" % depth)))
    # sequences in one thread (op seq): a few seeds, and paths that are close to each other as texts and as trees — the same
    # numbers with and without the hardened mark, indices whose digits are a prefix of another's, siblings, descendants,
    # ancestors, the same path twice — each derivation depends on (seed, path) only
    from vlib.core import seq_line
    fam = ["m/0", "m/0'", "m/0/7", "m/0'/1", "m/0'/1/2'", "m/0'/1/2'/2", "m/0'/1/2'/2/1", "m/0'/1/2'/2/1/5", "m/0'/1/2'/2/1000000000", "m/4/0", "m/44'/60'/0'/0/0", "m/44'/60'/0'/0/1",
           "m/44'/60'/0'/0/10", "m/44/60/0/0/0", "m/44'/60'/0'/0", "m/44'/60'/0'", "m/1", "m/1'", "m/10", "m/100'", "m/1/0", "m/10/0", "m/2147483647", "m/2147483647'", "m/214748364/7"]
    sd = [rb(32), rb(64), bytes.fromhex("000102030405060708090a0b0c0d0e0f")]
    for _ in range(120 if tier == "thorough" else 30):
        k = rng.randint(2, 6)
        same = rng.random() < 0.7
        s0 = rng.choice(sd)
        cases.append(Case(seq_line(["hdk.derive %s %s" % (hx(s0 if same else rng.choice(sd)), hx(rng.choice(fam))) for _ in range(k)]), tags=("sequence",)))
    # long paths: BIP-32 puts no bound on the depth of a path handed to the derivation (the one-byte depth field belongs
    # to the serialised extended key, which this tool does not produce); every component must still be applied
    deep = [11, 16, 31, 32, 33, 63, 64, 65, 100, 127, 128, 129, 200, 254, 255, 256, 257, 258, 300, 511, 512, 513, 1000] if tier == "thorough" else \
           [16, 32, 33, 64, 65, 127, 128, 129, 254, 255, 256, 257, 300, 513]
    for depth in deep:
        s = rb(32)
        comps = ["%d%s" % (rng.choice([0, 1, 2 ** 31 - 1, rng.randrange(2 ** 31)]), "'" if rng.random() < 0.5 else "") for _ in range(depth)]
        cases.append(Case("hdk.derive %s %s" % (hx(s), hx("m/" + "/".join(comps))), tags=("deep", "depth:%d" % depth)))
        # the same path one component shorter and one longer must give different keys (no component is dropped)
        cases.append(Case("hdk.derive %s %s" % (hx(s), hx("m/" + "/".join(comps[:-1]))), tags=("deep", "depth:%d" % (depth - 1))))
    return cases
