"""C12 — new mnemonics carry exactly the OS entropy; entropy failure is an error."""
from vlib.core import Case, hx
from vlib import cli, core, bip39

ID = "C12"
NEEDS_CLI = True
NEEDS_SHIM = True
RULE = ("in-process op mn.random <L> <entropy|fail> (the harness binary defines getentropy, so Mnemonic::random inside the real library reads injected bytes): "
        "all supported lengths x patterns (all-zero, all-one, walking bit over every bit position, random), injected failure (errno EIO by default; also EPERM, EINTR, EAGAIN, ENOMEM, EFAULT, EINVAL, ENOSYS, 0, EOPNOTSUPP, ETIMEDOUT: once, repeatedly, and once before good bytes), short reads, every L in 0..40; "
        "real binary `new -n L` under an LD_PRELOAD getentropy shim: every L in 0..40, injected entropy, request log (exactly one request of 4L/3 bytes), failure at the "
        "first request and at later requests of a vanity search; successful vanity searches for all five lengths over a known stream (the phrase is the valid sentence of the first matching request); N un-interposed invocations pairwise distinct; every generated phrase parsed back (mn.parse). "
        "non-trivial = distinct (L, entropy); judge = phrase decodes (Spec.Bip39) to exactly the injected bytes")
EXHAUSTIVE_SWEEPS = {"quick": ["L = 0..40 (library and binary)", "walking bit over all 128 positions for L=12"],
                     "thorough": ["L = 0..40 (library and binary)", "walking bit over all positions for all five lengths"]}
ASSUMPTIONS = ["that the OS source is secure randomness, and how libc implements getentropy, is outside any model: the entropy source is an oracle parameter"]
SUP = {12: 16, 15: 20, 18: 24, 21: 28, 24: 32}


def gen(rng, tier):
    cases = []
    for L in range(0, 41):
        nb = SUP.get(L, max(1, L * 4 // 3))
        ent = bytes(rng.getrandbits(8) for _ in range(40))
        cases.append(Case("mn.random %d %s" % (L, hx(ent)), tags=("lib", "L:%s" % ("supported" if L in SUP else "unsupported")), nontrivial=L in SUP))
        cases.append(Case("mn.random %d fail" % L, tags=("lib", "fail")))
        cases.append(Case("cli.new %s %s" % (hx(str(L)), hx(ent)), tags=("cli", "L:%s" % ("supported" if L in SUP else "unsupported")), runner="cli", meta={"log": True, "long": rng.random() < 0.5}))
        cases.append(Case("cli.new %s fail" % hx(str(L)), tags=("cli", "fail"), runner="cli", meta={}))
    for L, nb in SUP.items():
        pats = [bytes(nb), b"\xff" * nb, bytes(range(nb))] + [bytes(rng.getrandbits(8) for _ in range(nb)) for _ in range(30 if tier == "thorough" else 8)]
        bits = range(nb * 8) if (tier == "thorough" or L == 12) else rng.sample(range(nb * 8), 16)
        for b in bits:
            x = bytearray(nb)
            x[b // 8] = 0x80 >> (b % 8)
            pats.append(bytes(x))
        # entropy that happens to look like text (hex digits, 0x…, decimal, base64, words, blanks): still exactly these bits
        from vlib import magic
        tl = magic.text_like(rng, nb)
        pats += [b for b, _ in (tl if tier == "thorough" or L in (12, 24) else rng.sample(tl, 5))]
        for ent in pats:
            cases.append(Case("mn.random %d %s" % (L, hx(ent)), tags=("lib", "pattern")))
            cases.append(Case("mn.parse " + hx(" ".join(bip39.from_entropy(ent))), tags=("parse-back",)))
        for ent in pats[:6] + pats[-3:]:
            cases.append(Case("cli.new %s %s" % (hx(str(L)), hx(ent)), tags=("cli", "pattern"), runner="cli", meta={"log": True}))
        # short read: fewer bytes available than requested -> failure
        cases.append(Case("mn.random %d %s" % (L, hx(bytes(nb - 1))), tags=("lib", "short-read")))
    # every word of the list is printed at least once: 16-byte entropies whose eleven leading 11-bit groups run through all
    # 2048 indices (187 entropies), judged against the reference BIP-39 list — a single altered entry of the embedded list
    # shows as a printed word that is not a BIP-39 word
    for start in range(0, 2048, 11):
        v = 0
        for k in range(11):
            v = (v << 11) | ((start + k) % 2048)
        ent = ((v << 7) | (start % 128)).to_bytes(16, "big")
        cases.append(Case("mn.random 12 %s" % hx(ent), tags=("lib", "every-word")))
    # lengths that become a supported one when narrowed to 8 / 16 / 32 / 64 bits: L + k·2^w for every supported L
    for L in SUP:
        for w in (8, 16, 32, 64):
            for k in (1, 2):
                v = L + k * 2 ** w
                cases.append(Case("cli.new %s %s" % (hx(str(v)), hx(bytes(40))), tags=("cli", "narrowing", "L:unsupported"), runner="cli", meta={}, nontrivial=False))
                if v < 2 ** 64:
                    cases.append(Case("mn.random %d %s" % (v, hx(bytes(40))), tags=("lib", "narrowing", "L:unsupported")))
    for v in (255, 256, 257, 65535, 65536, 2 ** 31, 2 ** 32 - 1, 2 ** 32, 2 ** 63, 2 ** 64 - 1):
        cases.append(Case("cli.new %s %s" % (hx(str(v)), hx(bytes(40))), tags=("cli", "narrowing", "L:unsupported"), runner="cli", meta={}, nontrivial=False))
    from vlib.core import perturb
    for bad in ["", "x", "-1", "12.0", "+12", "18446744073709551616", " 12"] + perturb("12") + perturb("24"):
        cases.append(Case("cli.new %s %s" % (hx(bad), hx(bytes(40))), tags=("cli", "bad-length"), runner="cli", meta={}, nontrivial=False))
    # failure at a later request of a vanity search (single-threaded, deterministic)
    e = [bytes(rng.getrandbits(8) for _ in range(16)) for _ in range(3)]
    for k in range(0, 3):
        stream = ",".join([hx(x) for x in e[:k]] + ["fail"])
        cases.append(Case("cli.new_vanity %s %s - default %s" % (hx("12"), hx("0xfffffff"), stream), tags=("cli", "vanity-fail-at:%d" % k), runner="cli", meta={"threads": 0}))
    # the source may fail for any reason: every errno a getentropy / getrandom implementation documents (and a few it does
    # not), failing once, several times in a row, and once before bytes that would have been fine — a request that the source
    # reported as failed is an error, never a phrase (no silent retry, no fall-through with an untouched buffer)
    ERRNOS = [1, 4, 5, 11, 12, 14, 22, 38, 0, 95, 110]
    good = lambda nb: bytes(rng.getrandbits(8) for _ in range(nb)).hex()
    for en in ERRNOS:
        for L, nb in SUP.items():
            cases.append(Case("mn.random %d fail%d" % (L, en), tags=("lib", "fail-errno")))
            for st in ("fail%d" % en, ",".join(["fail%d" % en] * 3), ",".join(["fail%d" % en] * 8), "fail%d,%s" % (en, good(nb)), "fail%d,fail%d,%s" % (en, en, good(nb))):
                if L in (12, 24) or rng.random() < 0.4:
                    cases.append(Case("cli.new %s %s" % (hx(str(L)), st), tags=("cli", "fail-errno", "errno:%d" % en), runner="cli", meta={}))
        for k in (1, 2):
            stream = ",".join([hx(x) for x in e[:k]] + ["fail%d" % en] * 4 + [good(16)] * 3)
            for thr in (0, 2):
                cases.append(Case("cli.new_vanity %s %s - default %s" % (hx("12"), hx("0xfffffff"), stream), tags=("cli", "vanity-fail-errno", "errno:%d" % en), runner="cli", meta={"threads": thr}))
    # successful vanity searches (single-threaded, known stream): the phrase printed comes from a second or later request
    # for most streams, and must be the valid sentence of exactly that request's bytes (judge: cli.new_vanity)
    for L, nb in SUP.items():
        for _ in range(4 if tier == "thorough" else 2):
            st = ",".join(bytes(rng.getrandbits(8) for _ in range(nb)).hex() for _ in range(200))
            cases.append(Case("cli.new_vanity %s %s - default %s" % (hx(str(L)), hx("0x" + rng.choice("0123456789abcdefABCDEF")), st), tags=("cli", "vanity-ok", "L:%d" % L), runner="cli", meta={"threads": 0}))
    return cases


run_cli = cli.run_cli


def extra_checks(cases, impl, model, verdicts, tier, rng, cov):
    problems = []
    # request accounting on the real binary
    nlog = 0
    for c, o in zip(cases, impl):
        if "requests" in c.meta and o.startswith("ok "):
            nlog += 1
            L = int(bytes.fromhex(c.line.split(" ")[1]).decode())
            if c.meta["requests"] != [L * 4 // 3]:
                problems.append(("witness", "generation did not make exactly one entropy request of 4L/3 bytes", {"line": c.line, "requests": c.meta["requests"]}))
    cov["request_logs_checked"] = nlog
    # transient entropy failure during a MULTI-THREADED vanity search: the worker whose request fails reports the
    # error and the command must fail with no phrase printed, although other workers could go on searching.
    # Deterministic: request 1 (main thread) = 00..00, request 2 = ff..ff, request k fails, every other request
    # gets counter-keyed pseudo-random bytes (HDW_SHIM_REPEAT); the prefix 0xfff matches neither fixed candidate
    # (their addresses start 0x9858 / 0xfc20) and is too long to be hit in the microseconds before the error arrives.
    nthr = 0
    for threads in ([2, 4, 16] if tier == "quick" else [2, 3, 4, 8, 16, 64]):
        for k in (2, 3, 5):
            parts = ["00" * 16, "ff" * 16] + ["55" * 16] * 8
            parts[k - 1] = "fail"
            for rep in range(2):
                kind, out, err, _ = core.cli_exec(["new", "--vanity-prefix", "0xfff", "-j", str(threads)], timeout=300,
                                                  shim={"HDW_SHIM_STREAM": ",".join(parts[:k]), "HDW_SHIM_REPEAT": "1"})
                nthr += 1
                if kind not in ("err", "usage") or out:
                    problems.append(("witness", "entropy failure at request %d of a vanity search with -j %d did not fail the command (%s, stdout %r)" % (k, threads, kind, out[:80]),
                                     {"threads": threads, "fail_at": k, "stream": ",".join(parts[:k])}))
    cov["threaded_failure_injections"] = nthr
    # un-interposed invocations: pairwise distinct, valid, parse back
    n = 200 if tier == "thorough" else 40
    outs = []
    for i in range(n):
        kind, out, err, _ = core.cli_exec(["new", "-n", str([12, 15, 18, 21, 24][i % 5])])
        outs.append(out.decode().strip() if kind == "ok" else "ERR")
    cov["uninterposed_invocations"] = n
    if len(set(outs)) != n or "ERR" in outs:
        problems.append(("witness", "independent invocations repeated a phrase or failed", {"outs": outs[:10]}))
    back = core.run_harness(["mn.parse " + hx(o) for o in outs])
    if not all(b.startswith("ok ") for b in back):
        problems.append(("witness", "a generated phrase could not be parsed back by the tool", {"phrase": outs[[b.startswith("ok ") for b in back].index(False)]}))
    return problems
