"""C17 — no input makes the tool panic, abort or hang."""
import importlib
import json
from vlib.core import Case, hx
from vlib import cli, bip39, txgen, tdgen

ID = "C17"
NEEDS_CLI = True
NEEDS_SHIM = True
NEEDS_PLAIN_CLI = True
RULE = ("both in-process (catch_unwind per case; a dead harness process is bisected to the culprit) and the real binary (exit status 101 / signal / timeout = failure) on: "
        "the malformed and boundary streams of every other property (keys of every length and shape, long / over-long / malformed vanity prefixes over an entropy stream, mnemonics 0..40 words, paths/indices around 2^31/2^32/2^64, signature texts with scalars around 0 and n, "
        "transaction JSON with malformed fields and chain ids up to 2^256-1, typed data with injected violations, domain types, hex input), byte-level mutations of valid "
        "JSON documents, JSON nesting 126..129, type strings with up to 64 array suffixes, worker counts -j 0..64 with refused/accepted selectors (hang detection by timeout), "
        "vanity prefixes <= 3 digits, generation lengths 0..40; non-trivial = distinct input that is not a well-formed accepted one; every response must be ok/err and equal the model's")
EXHAUSTIVE_SWEEPS = {"quick": ["-j 0..64 with a refused selector", "generation lengths 0..40"], "thorough": ["-j 0..64 with a refused selector", "generation lengths 0..40"]}
ASSUMPTIONS = ["environment faults (closed stdout, allocation failure on multi-GiB input) are not inputs and are excluded",
               "panics inside dependencies on paths the contract-level models do not describe are reached only by the mutation stream"]
USE_JUDGE = False  # C17 is about panics/aborts/hangs only; the value-level judges belong to the other properties
BAD = ("panic", "signal", "timeout", "abort", "exit")


def mutate(rng, b):
    b = bytearray(b)
    for _ in range(rng.randint(1, 3)):
        if not b:
            break
        i = rng.randrange(len(b))
        r = rng.random()
        if r < 0.35:
            b[i] = rng.choice(b'"{}[]:,-+.eE0179xX \\nu') if rng.random() < 0.8 else rng.randrange(256)
        elif r < 0.6:
            del b[i]
        elif r < 0.85:
            b.insert(i, rng.choice(b'"{}[]:,-+.eE09x\\'))
        else:
            j = rng.randrange(len(b))
            b[i:i] = b[j:j + rng.randint(1, 8)]
    return bytes(b)


def gen(rng, tier):
    cases = []
    frac = 1.0 if tier == "thorough" else 0.35
    for name, keep in [("c01", ("count:", "malformed", "final-word")), ("c14", ("boundary", "malformed", "mutated", "for_index", "maybe-out-of-range")),
                       ("c15", ("boundary-scalars", "v-sweep", "length:", "mutated", "malformed", "utf8-straddle")), ("c13", ("malformed", "structure", "fuzz-number", "missing-field")),
                       ("c09", ("int-boundary", "bytesN", "wrong-kind", "structural", "huge-declared-size", "undefined-unreached", "fixed-array", "repeated", "domain-violation", "recursive-type")), ("c20", ("repeated", "foreign", "wrong-type", "no-domain-type")),
                       ("c11", ("sig.v", "chain:2^25", "bit-boundary")), ("c19", ("malformed", "mutated")), ("c12", ("fail", "L:unsupported", "bad-length", "short-read", "vanity-fail")),
                       ("c18", ("long-prefix-no-match", "bad-prefix", "empty-prefix", "prefix-parse")), ("c04", ("boundary", "length:", "text-of-a-key", "pubkey-shape")), ("c05", ("boundary", "text-like"))]:
        mod = importlib.import_module("vlib.props." + name)
        for c in mod.gen(rng, "quick"):
            if any(t.startswith(k) for t in c.tags for k in keep) and (rng.random() < frac or name == "c18"):
                if c.line.startswith("sig.v"):
                    continue  # library-only API outside the CLI surface; its panic is characterised in C11.v_exact
                cases.append(Case(c.line, tags=("from:" + name,) + tuple(t for t in c.tags if ":" not in t)[:1], runner=c.runner, meta=dict(c.meta), nontrivial=True))
    # mutated JSON documents
    n = 2500 if tier == "thorough" else 500
    for _ in range(n):
        j, _ = txgen.rand_tx(rng)
        cases.append(Case("tx.parse " + hx(mutate(rng, j.encode())), tags=("mutated-tx",)))
        if rng.random() < 0.3:
            cases.append(Case("tx.sign %s %064x" % (hx(mutate(rng, j.encode())), rng.randrange(1, txgen.N)), tags=("mutated-tx-sign",)))
    for _ in range(n):
        doc, _, _ = tdgen.rand_doc(rng)
        cases.append(Case("td.hash " + hx(mutate(rng, tdgen.dumps(doc).encode())), tags=("mutated-td",)))
    # nesting and suffix depth
    for d in (126, 127, 128, 129, 200):
        cases.append(Case("tx.parse " + hx('{"nonce":1,"gasPrice":1,"gas":1,"value":1,"data":"0x","x":' + "[" * d + "]" * d + "}"), tags=("nesting",)))
        cases.append(Case("td.hash " + hx('{"types":{"EIP712Domain":[{"name":"name","type":"string"}],"M":[{"name":"x","type":"uint8"}]},"primaryType":"M","domain":{"name":"a"},"message":{"x":1,"y":' + "[" * d + "]" * d + "}}"), tags=("nesting",)))
    for d in (1, 32, 63, 64):
        t = "uint8" + "[]" * d
        v = 1
        for _ in range(d):
            v = [v]
        doc = {"types": tdgen.types_json({"P": [("v", t)]}, [("name", "string")]), "primaryType": "P", "domain": {"name": "x"}, "message": {"v": v}}
        cases.append(Case("td.hash " + hx(json.dumps(doc)), tags=("suffix-depth",)))
        cases.append(Case("td.kind " + hx(t), tags=("suffix-depth",)))
        cases.append(Case("td.kind " + hx("A" + "[1]" * d), tags=("suffix-depth",)))
    # digests / signatures on the command line
    mn = hx(" ".join(bip39.rand_phrase(rng, 12)))
    for bad in ["", "0x", "zz", "0x" + "0" * 63, "0x" + "0" * 65, "é" * 32, "0" + "é" + "0" * 61, "0x" + "é" * 32, "00" * 32 + " "]:
        cases.append(Case("cli.sign_raw %s - default %s" % (mn, hx(bad)), tags=("cli-digest",), runner="cli", meta={"via": {}}))
    N = txgen.N
    for dgv in (0, 1, N - 1, N, N + 1, 2 ** 256 - 1):
        cases.append(Case("cli.sign_raw %s - default %s" % (mn, hx("0x%064x" % dgv)), tags=("cli-digest", "boundary"), runner="cli", meta={"via": {}}))
    j, _ = txgen.rand_tx(rng, kind="legacy", chain=1)
    for r, s, v in [(0, 1, 27), (1, 0, 27), (N, 1, 27), (1, N, 28), (2 ** 256 - 1, 2 ** 256 - 1, 28), (1, 1, 0), (1, 1, 255), (N - 1, N - 1, 28)]:
        for pre in ("0x", ""):
            cases.append(Case("cli.hash_tx %s %s" % (hx(j), hx(pre + "%064x%064x%02x" % (r, s, v))), tags=("cli-signature",), runner="cli", meta={}))
    # the largest chain ids with a chosen signature of either parity: v = 35 + 2c + parity is computed in 256 bits, so the
    # last admissible chain id differs by parity only in theory — whatever the bound is, beyond it is an error, not a panic
    for c in [2 ** 255 - 22 + i for i in range(0, 8)] + [2 ** 255, 2 ** 256 - 36, 2 ** 256 - 18, 2 ** 256 - 17, 2 ** 256 - 1, 2 ** 128 - 1, 2 ** 127, 2 ** 64]:
        for kind in ("legacy", "eip2930", "eip1559"):
            jc, _ = txgen.rand_tx(rng, kind=kind, chain=c, spellings=["dec-str", "hex-str"])
            for v in (27, 28):
                cases.append(Case("cli.hash_tx %s %s" % (hx(jc), hx("0x%064x%064x%02x" % (rng.randrange(1, N), rng.randrange(1, N // 2), v))), tags=("cli-signature", "chain-boundary"), runner="cli", meta={}))
            cases.append(Case("cli.hash_tx %s none" % hx(jc), tags=("cli-signature", "chain-boundary"), runner="cli", meta={}))
    for mb in ("é", "€", "😀"):
        w = len(mb.encode())
        for k in list(range(0, 8)) + list(range(60, 68)) + list(range(120, 131 - w)):
            body = ("ab" * 65)[:k] + mb + ("ab" * 65)[k:130 - w]
            cases.append(Case("cli.hash_tx %s %s" % (hx(j), hx(rng.choice(["", "0x"]) + body)), tags=("cli-signature", "utf8-straddle"), runner="cli", meta={}))
        for k in range(0, 65 - w):
            body = ("cd" * 32)[:k] + mb + ("cd" * 32)[k:64 - w]
            cases.append(Case("cli.sign_raw %s - default %s" % (mn, hx(rng.choice(["", "0x"]) + body)), tags=("cli-digest", "utf8-straddle"), runner="cli", meta={"via": {}}))
    for bad in ["", "0x", "0x1", "zz" * 65, "é" * 65, "0x" + "é" * 65]:
        cases.append(Case("cli.hash_tx %s %s" % (hx(j), hx(bad)), tags=("cli-signature",), runner="cli", meta={}))
    # worker counts with refused and accepted selectors (the former used to hang: panicking workers + live sender)
    from vlib.props.c18 import stream
    for jn in range(0, 65):
        sel = ["idx:" + hx("4294967296"), "idx:" + hx("2147483648"), "path:" + hx("m/2147483648'"), "both:%s:%s" % (hx("1"), hx("m/1"))][jn % 4]
        cases.append(Case("cli.new_vanity %s %s - %s %s" % (hx("12"), hx("0x1"), sel, stream(rng, 2, 16)), tags=("workers-refused",), runner="cli", meta={"threads": jn, "timeout": 60}))
    # prefixes at and beyond the length of an address (39..43 digits, odd and even) with worker threads over a short entropy
    # stream: nothing matches, the stream runs dry, the command fails — it neither panics in a worker nor waits for ever
    for d in (39, 40, 41, 42, 43, 45, 64, 65):
        for jn in (0, 1, 2, 16):
            pre = "0x" + "".join(rng.choice("0123456789abcdefABCDEF") for _ in range(d))
            cases.append(Case("cli.new_vanity %s %s - default %s" % (hx("12"), hx(pre), stream(rng, 6, 16)), tags=("long-prefix-workers", "digits:%d" % d), runner="cli", meta={"threads": jn, "timeout": 60}))
    for L in range(0, 41):
        cases.append(Case("cli.new %s %s" % (hx(str(L)), hx(bytes(rng.getrandbits(8) for _ in range(40)))), tags=("new-length",), runner="cli", meta={}))
    for p in ["0xA", "0xAb", "0xABC", "0xg", "0x", "1", "0xFFF", "0x0G"]:
        cases.append(Case("cli.new_vanity %s %s - default %s" % (hx("12"), hx(p), "-" ), tags=("vanity-prefix-no-entropy",), runner="cli", meta={"threads": 0}))
    return cases


run_cli = cli.run_cli


def match_known(k, case, rec):
    # the float-rounding class seen through re-used C13/C09 cases is not a C17 matter (no panic involved)
    return False


def extra_checks(cases, impl, model, verdicts, tier, rng, cov):
    problems = []
    bad = [(c, o) for c, o in zip(cases, impl) if o.split(" ")[0].startswith(BAD) or o.startswith("driver-crash")]
    cov["panics_aborts_hangs"] = len(bad)
    for c, o in bad[:5]:
        problems.append(("witness", "input makes the tool %s" % o.split(" ")[0], {"line": c.line[:2000], "impl": o, "meta": c.meta}))
    # threaded vanity with real entropy and -j 0..64 (accepted selector, 1-digit prefix): must terminate
    from vlib import core
    from concurrent.futures import ThreadPoolExecutor
    js = list(range(0, 65)) if tier == "thorough" else [0, 1, 2, 3, 8, 16, 33, 64]

    def run(jn):
        kind, out, err, _ = core.cli_exec(["new", "--vanity-prefix", "0x" + "0123456789abcdefABCDEF"[jn % 22], "-j", str(jn)], timeout=300)
        return jn, kind
    with ThreadPoolExecutor(max_workers=2) as ex:
        res = list(ex.map(run, js))
    cov["worker_count_runs"] = len(res)
    for jn, kind in res:
        if kind != "ok":
            problems.append(("witness", "vanity search with -j %d: %s" % (jn, kind), {"threads": jn}))
    return problems
