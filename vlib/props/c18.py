"""C18 — vanity search returns a phrase whose account really has the prefix."""
from vlib.core import Case, hx
from vlib import cli, core

ID = "C18"
NEEDS_CLI = True
NEEDS_SHIM = True
THOROUGH_ROUNDS = 2
RULE = ("real binary `new --vanity-prefix P`: (a) single-threaded (-j 0) under the getentropy shim with an explicit entropy stream, compared with the Lean model of the "
        "search (first candidate of the stream whose selected account matches): all 16 single digits in both cases, 2-digit prefixes in lower/upper/mixed case, "
        "with/without vanity password / account index / hd path, lengths 12/15/24; random prefixes of 3..7 and 39..41 digits over 40/60-entry streams (no entry matches: the command must fail), prefixes of 1..9, 39, 40 digits cut from the address of a chosen stream entry (that entry must be printed); every success is judged against the statement (cli.new_vanity judge); (b) multi-threaded (-j 1,2,16 and default) with real entropy, prefixes of 1..3 digits, repeated "
        "to vary interleavings, plus 3-digit prefixes with 0, 1 and 2 workers (each worker passes a thousand and more candidates; thorough: a 4-digit prefix with the default worker count): standard output must be one line holding the phrase, the printed phrase must parse, have L words, and `address` with the same selector must start with the prefix (case-insensitive); "
        "non-hex / malformed prefixes must be refused; non-trivial = distinct (prefix, selector, threads, run); the schedule quantifier is only sampled on the real binary")
EXHAUSTIVE_SWEEPS = {"quick": ["all 16 hex digits x {lower, upper} as 1-digit prefixes (model-compared)", "every printable ASCII character x 5 positions of the prefix text (acceptance only)"], "thorough": ["all 16 hex digits x {lower, upper} as 1-digit prefixes (model-compared)"]}
ASSUMPTIONS = ["thread interleavings of the real process are sampled, not enumerated; the model's search is the sequential one"]


def stream(rng, n, nbytes):
    return ",".join(bytes(rng.getrandbits(8) for _ in range(nbytes)).hex() for _ in range(n))


def gen(rng, tier):
    cases = []
    singles = "0123456789abcdefABCDEF"
    for ch in singles:
        cases.append(Case("cli.new_vanity %s %s - default %s" % (hx("12"), hx("0x" + ch), stream(rng, 250, 16)), tags=("model", "1-digit", "upper" if ch.isupper() else "lower"),
                          runner="cli", meta={"threads": 0}))
    two = ["ab", "AB", "aB", "0f", "F0", "7c", "C7", "e1"] if tier == "thorough" else ["ab", "AB", "aB"]
    for p in two:
        cases.append(Case("cli.new_vanity %s %s - default %s" % (hx("12"), hx("0x" + p), stream(rng, 2800 if tier == "thorough" else 200, 16)), tags=("model", "2-digit"), runner="cli", meta={"threads": 0, "timeout": 300}))
    for L, nb in ((15, 20), (24, 32)):
        cases.append(Case("cli.new_vanity %s %s - default %s" % (hx(str(L)), hx("0x" + rng.choice("0123456789abcdef")), stream(rng, 250, nb)), tags=("model", "length:%d" % L), runner="cli", meta={"threads": 0}))
    for sel, pw in [("idx:" + hx("3"), "-"), ("path:" + hx("m/44'/60'/0'/0/7"), "-"), ("default", hx("vänity pass")), ("idx:" + hx("2147483647"), hx("x")), ("path:" + hx("m/0"), hx("p"))]:
        cases.append(Case("cli.new_vanity %s %s %s %s %s" % (hx("12"), hx("0x" + rng.choice("0123456789abcdefABCDEF")), pw, sel, stream(rng, 250, 16)), tags=("model", "selector"), runner="cli", meta={"threads": 0}))
    # vanity passphrases with blanks at the ends, invisible blanks, characters a layer might rewrite: the search must use
    # exactly the passphrase `address --password` will be given (the model derives with the passphrase verbatim)
    # … and passphrases that look like something else to a command line (`-` for "standard input", `--`, an option name,
    # @file, ~, $VAR, a path, null / none): a passphrase is text, whatever it looks like; and ones that are not in NFKD
    # form (precomposed, full-width, ligature): the search must normalise exactly as the other commands do
    for pw in [" pw", "pw ", "p w\t", " ", "\u00a0x\u00a0", "  both  ", "\u3000", "nl\n", "under_score", "-dash", "=eq", "é", "e\u0301", "ｐ",
               "-", "--", "-x", "--vanity-password", "@-", "@/etc/hostname", "~", "$HOME", "${PASSWORD}", "/dev/stdin", "null", "none", "0", "false", "\\", "''", '""',
               "café", "ｐｗ", "ﬁ", "Å", "²", "ǆ"]:
        cases.append(Case("cli.new_vanity %s %s %s default %s" % (hx("12"), hx("0x" + rng.choice("0123456789abcdefABCDEF")), hx(pw), stream(rng, 250, 16)), tags=("model", "passphrase-verbatim"), runner="cli", meta={"threads": 0}))
    # longer prefixes over short streams.  (a) a random prefix of 3..7, 39, 40, 41 digits: the address of no entry starts
    # with it (with overwhelming probability), so the source runs dry and the command fails — a matcher that looks at only
    # part of the prefix finds a "match" among 60 entries instead.  (b) the prefix is cut from the address of entry k (computed
    # by the model), in either case, with odd and even digit counts up to the full 40: entry k must be the one printed.
    from vlib import bip39 as _b
    for d in (3, 4, 5, 6, 7, 39, 40, 41):
        for _ in range(2 if tier == "quick" else 6):
            pre = "0x" + "".join(rng.choice("0123456789abcdefABCDEF") for _ in range(d))
            cases.append(Case("cli.new_vanity %s %s - default %s" % (hx("12"), hx(pre), stream(rng, 60 if tier == "thorough" else 40, 16)), tags=("model", "long-prefix-no-match", "digits:%d" % d), runner="cli", meta={"threads": 0}))
    ents = [bytes(rng.getrandbits(8) for _ in range(16)) for _ in range(48)]
    lines = ["cli.address %s - default" % hx(" ".join(_b.from_entropy(e))) for e in ents]
    addrs = []
    for o in core.run_driver("model", lines):
        parts = o.split(" ")
        addrs.append(bytes.fromhex(parts[1]).decode().strip()[2:] if parts[0] == "ok" and len(parts) == 2 else None)
    st = ",".join(e.hex() for e in ents)
    for k in ([5, 17, 33] if tier == "quick" else range(3, 48, 4)):
        if not addrs[k]:
            continue
        for d in ((1, 2, 3, 4, 5, 8, 39, 40) if tier == "quick" else (1, 2, 3, 4, 5, 7, 8, 9, 39, 40)):
            pre = addrs[k][:d]
            pre = rng.choice([pre.lower(), pre.upper(), pre])
            cases.append(Case("cli.new_vanity %s %s - default %s" % (hx("12"), hx("0x" + pre), st), tags=("model", "prefix-of-entry", "digits:%d" % d), runner="cli", meta={"threads": 0}))
    # the same for the other lengths, and with the FIRST entry as the one that matches (every candidate, the first one
    # included, is a phrase of the requested length made from one request of 4L/3 bytes: request log checked below)
    for L, nb in ((15, 20), (18, 24), (21, 28), (24, 32)):
        ents2 = [bytes(rng.getrandbits(8) for _ in range(nb)) for _ in range(12)]
        outs = core.run_driver("model", ["cli.address %s - default" % hx(" ".join(_b.from_entropy(e))) for e in ents2])
        st2 = ",".join(e.hex() for e in ents2)
        for k in (0, 1, 7):
            parts = outs[k].split(" ")
            if parts[0] != "ok" or len(parts) != 2:
                continue
            a = bytes.fromhex(parts[1]).decode().strip()[2:]
            for d in (1, 2, 3):
                cases.append(Case("cli.new_vanity %s %s - default %s" % (hx(str(L)), hx("0x" + a[:d]), st2), tags=("model", "prefix-of-entry", "L:%d" % L, "entry:%d" % k), runner="cli", meta={"threads": 0, "log": True}))
    # the empty prefix `0x` (every address matches: the first candidate is the answer), for every length and thread count —
    # with workers, the first candidate is handed to each of them
    for L, nb in ((12, 16), (15, 20), (18, 24), (21, 28), (24, 32)):
        for thr in (0, 1, 2, 16):
            cases.append(Case("cli.new_vanity %s %s - default %s" % (hx(str(L)), hx("0x"), stream(rng, 40, nb)), tags=("model", "empty-prefix", "threads:%d" % thr), runner="cli", meta={"threads": thr}))
    # refused prefixes / selectors (no search happens)
    for bad in ["", "0x", "ab", "0xg", "0xG1", "0x1g", "x1", "0X1", "0x é", "0x-1", " 0x1", "0x1 ", "0xé"]:
        st = stream(rng, 3, 16)
        cases.append(Case("cli.new_vanity %s %s - default %s" % (hx("12"), hx(bad), st), tags=("model", "bad-prefix"), runner="cli", meta={"threads": 0}, nontrivial=(bad != "0x")))
    for sel in ["idx:" + hx("2147483648"), "idx:" + hx("4294967296"), "path:" + hx("m/x"), "both:%s:%s" % (hx("1"), hx("m/1"))]:
        for t in (0, 2):
            cases.append(Case("cli.new_vanity %s %s - %s %s" % (hx("12"), hx("0x1"), sel, stream(rng, 3, 16)), tags=("model", "bad-selector"), runner="cli", meta={"threads": t, "timeout": 30}))
    # acceptance of the prefix text alone (no search): every printable ASCII character in the first and the
    # second position of a byte pair and as the odd nibble, plus a few non-ASCII ones
    # (and every control character: folding the case of a byte with `| 0x20` maps 0x10..0x19 onto the digits)
    chars = [chr(c) for c in range(0x01, 0x100) if c != 0x7f] + ["\x7f", "٣", "Ａ", "\u0660", "\uff10", "\u2170"]
    for ch in chars:
        for pat in ("0x%s1", "0x1%s", "0x%s", "0xab%sc", "0xab%s"):
            cases.append(Case("cli.prefix_parse " + hx(pat % ch), tags=("prefix-parse",), runner="cli", meta={}, nontrivial=True))
    from vlib.core import perturb
    for v in perturb("0xab", "0x") + perturb("0xA", "0x"):
        cases.append(Case("cli.prefix_parse " + hx(v), tags=("prefix-parse", "perturbed"), runner="cli", meta={}, nontrivial=True))
    for t in ["", "0", "x", "0x", "0X1", "00x1", "0x0x1", " 0x1", "0x 1", "0x+1", "0x-1", "0x1+", "0x+a1", "0xab+c", "1", "0x" + "ab" * 20, "0x" + "ab" * 21, "0x" + "a" * 41, "0x" + "F" * 40]:
        cases.append(Case("cli.prefix_parse " + hx(t), tags=("prefix-parse",), runner="cli", meta={}, nontrivial=True))
    cases.append(Case("cli.new_vanity %s %s - default %s" % (hx("13"), hx("0x1"), stream(rng, 3, 20)), tags=("model", "bad-length"), runner="cli", meta={"threads": 0}))
    return cases


run_cli = cli.run_cli


def extra_checks(cases, impl, model, verdicts, tier, rng, cov):
    """(b): threaded searches with real entropy, judged by the property itself"""
    problems = []
    # request accounting for the stream-driven searches that logged: every request is 4L/3 bytes
    nlog = 0
    for c in cases:
        if "requests" in c.meta:
            nlog += 1
            L = int(bytes.fromhex(c.line.split(" ")[1]).decode())
            if any(r != L * 4 // 3 for r in c.meta["requests"]):
                problems.append(("witness", "a vanity search for %d words made an entropy request that is not %d bytes" % (L, L * 4 // 3), {"line": c.line[:3000], "requests": c.meta["requests"][:20]}))
                break
    cov["vanity_request_logs_checked"] = nlog
    runs = []
    reps = 3 if tier == "thorough" else 1
    threads = [1, 2, 16, None]
    prefixes = ["0x" + c for c in "05aAfF"] + ["0x1b", "0xC0", "0xdE"] + (["0xabc", "0xF00", "0x1A2"] if tier == "thorough" else ["0xAb1"])
    sels = [([], []), (["--vanity-account-index=5"], ["--account-index=5"]), (["--vanity-hd-path=m/44'/60'/1'/0/0"], ["--hd-path=m/44'/60'/1'/0/0"]),
            (["--vanity-password=p_w é-=x"], ["--password=p_w é-=x"])]
    from concurrent.futures import ThreadPoolExecutor
    jobs = []
    for r in range(reps):
        for i, p in enumerate(prefixes):
            t = threads[(i + r) % len(threads)]
            vs, as_ = sels[(i + r) % len(sels)]
            L = [12, 15, 18, 21, 24][(i + r) % 5]
            jobs.append((p, t, vs, as_, L))
    # long searches: a 3-digit prefix takes ~4096 candidates, so with 0..2 workers each worker goes through a thousand and more
    # non-matching candidates before the answer is printed — whatever the search does "every so often" (progress output,
    # re-seeding, counters that wrap) happens here and not in the 1- and 2-digit searches above; a 4-digit prefix with the
    # default worker count does the same per worker in the thorough tier
    hexd = "0123456789abcdefABCDEF"
    for i, t in enumerate([0, 1, 2] + ([0, 1, 3] if tier == "thorough" else [])):
        vs, as_ = sels[(i + 1) % len(sels)]
        jobs.append(("0x" + "".join(rng.choice(hexd) for _ in range(3)), t, vs, as_, [12, 24, 18, 15, 21, 12][i]))
    if tier == "thorough":
        jobs.append(("0x" + "".join(rng.choice(hexd) for _ in range(4)), None, [], [], 12))

    def run(job):
        p, t, vs, as_, L = job
        argv = ["new", "-n", str(L), "--vanity-prefix", p] + vs + (["-j", str(t)] if t is not None else [])
        kind, out, err, _ = core.cli_exec(argv, timeout=600)
        if kind != "ok":
            return job, "search failed: " + kind, None
        text = out.decode("utf-8", "replace")
        phrase = text.strip()
        # standard output is the phrase and nothing else: one line of L lower-case words separated by single spaces
        if not text.endswith("\n") or text.count("\n") != 1 or any(not w.isascii() or not w.isalpha() or not w.islower() for w in text[:-1].split(" ")):
            return job, "standard output is not one line holding a phrase: %r" % text[:300], phrase
        k2, out2, _, _ = core.cli_exec(["address", "--mnemonic", phrase] + as_)
        addr = out2.decode().strip()
        if k2 != "ok":
            return job, "printed phrase rejected by `address`", phrase
        if len(phrase.split(" ")) != L:
            return job, "wrong word count", phrase
        if not addr.lower().startswith(p.lower()):
            return job, "address %s does not start with %s" % (addr, p), phrase
        return job, None, phrase

    with ThreadPoolExecutor(max_workers=4) as ex:
        results = list(ex.map(run, jobs))
    cov["threaded_searches"] = len(results)
    cov["threaded_samples"] = [{"prefix": j[0], "threads": j[1], "selector": j[2], "L": j[4], "phrase_words": len(ph.split()) if ph else None} for j, e, ph in results[:4]]
    for job, errm, phrase in results:
        if errm:
            problems.append(("witness", "vanity search: " + errm, {"argv": list(map(str, job)), "phrase": phrase}))
    return problems
