"""C08 — EIP-712 digests."""
import itertools
import json
from vlib.core import Case, hx
from vlib import tdgen

ID = "C08"
NEEDS_CLI = True
RULE = ("ops td.hash <document> -> (domain separator, message hash, digest), td.encode_type <types> <name> (hook), td.kind <type string> (hook): "
        "name order: pairs of referenced types where one name is a proper prefix of the other and continues with each printable ASCII character, names differing in case / digits / underscore, non-ASCII names whose UTF-8 and UTF-16 orders differ; random type graphs (1..6 structs, members in random order, shared and repeated dependencies, self/mutual recursion through arrays, "
        "multi-dimensional fixed/dynamic arrays, every atomic type; primary type = first struct, any other struct, or EIP712Domain itself with a message of its own; EIP712Domain as a member type), values generated type-directed so documents are accepted; every permutation of "
        "member order for dependency-bearing structs of <= 4 members; all atomic type strings; the three repo fixtures; sequences in one thread (op seq) of documents whose primary type is spelt identically while a dependency is defined differently; equivalent JSON spellings of a sample (white space, \\uXXXX escapes in keys, type strings, values); "
        "a random sample of the cases is re-run through every sub-command that reaches the same code (vlib/routes.py); non-trivial = distinct document whose primary type has >= 1 struct dependency; judge = executable EIP-712 spec (Spec.Eip712)")
EXHAUSTIVE_SWEEPS = {"quick": ["all 24 member orders of the 4-member dependency witness", "all 100 atomic type strings (td.kind)"],
                     "thorough": ["all member orders of 40 random graphs with <= 4 members", "all 100 atomic type strings (td.kind)"]}

MAIL = ('{"types":{"EIP712Domain":[{"name":"name","type":"string"},{"name":"version","type":"string"},{"name":"chainId","type":"uint256"},'
        '{"name":"verifyingContract","type":"address"}],"Person":[{"name":"name","type":"string"},{"name":"wallet","type":"address"}],'
        '"Mail":[{"name":"from","type":"Person"},{"name":"to","type":"Person"},{"name":"contents","type":"string"}]},"primaryType":"Mail",'
        '"domain":{"name":"Ether Mail","version":"1","chainId":1,"verifyingContract":"0xCcCCccccCCCCcCCCCCCcCcCccCcCCCcCcccccccC"},'
        '"message":{"from":{"name":"Cow","wallet":"0xCD2a3d9F938E13CD947Ec05AbC7FE734Df8DD826"},"to":{"name":"Bob","wallet":"0xbBbBBBBbbBBBbbbBbbBbbbbBBbBbbbbBbBbbBBbB"},"contents":"Hello, Bob!"}}')


def has_dep(types, primary):
    return any(tdgen.parse_type(t)[0] in types for _, t in types[primary])


def gen(rng, tier):
    cases = []
    cases.append(Case("td.hash " + hx(MAIL), tags=("fixture",)))
    n = 1500 if tier == "thorough" else 300
    for _ in range(n):
        doc, types, dom = tdgen.rand_doc(rng)
        primary = doc["primaryType"]
        cases.append(Case("td.hash " + hx(tdgen.dumps(doc)), tags=("random", "structs:%d" % len(types)), nontrivial=has_dep(types, primary)))
        if rng.random() < 0.5:
            tj = json.dumps(doc["types"])
            for name in list(types)[:3]:
                cases.append(Case("td.encode_type %s %s" % (hx(tj), hx(name)), tags=("encode_type",), nontrivial=has_dep(types, name)))
    # any defined type can be the primary type: another struct of the graph, or the domain type itself with a message
    # that is (or is not) the domain value; the domain type used as a member type
    for _ in range(n // 4):
        doc, types, dom = tdgen.rand_doc(rng)
        alltypes = dict(types)
        alltypes["EIP712Domain"] = dom
        r = rng.random()
        if r < 0.4:
            doc["primaryType"] = "EIP712Domain"
            doc["message"] = dict(doc["domain"]) if rng.random() < 0.25 else {n_: tdgen.rand_atom(rng, t) for n_, t in dom}
            tag = "primary-is-domain"
        elif r < 0.7:
            name = rng.choice(list(types))
            doc["primaryType"] = name
            doc["message"] = tdgen.rand_value(rng, types, name)
            tag = "primary-is-other-struct"
        else:
            prim = doc["primaryType"]
            extra = rng.choice([("dom", "EIP712Domain"), ("doms", "EIP712Domain[]"), ("dom2", "EIP712Domain[2]")])
            doc["types"][prim] = doc["types"][prim] + [{"name": extra[0], "type": extra[1]}]
            t2 = dict(alltypes)
            t2[prim] = list(types[prim]) + [extra]
            doc["message"] = tdgen.rand_value(rng, t2, prim)
            tag = "domain-as-member"
        cases.append(Case("td.hash " + hx(tdgen.dumps(doc)), tags=("random", tag)))
    # NAME ORDER of the referenced types: the order is that of the names, not of anything derived from them (not of
    # "Name(" strings, not case-folded, not by length, not by code units).  Pairs where one name is a proper prefix of the
    # other and the next character is any printable ASCII character (those below "(" — space ! " # $ % & ' — sort a
    # "Name(…" string the other way round), names that differ in case only, digits, underscore, non-ASCII names whose
    # UTF-8 and UTF-16 orders differ
    conts = [chr(c) for c in range(0x20, 0x7f) if chr(c) not in "[]"]
    for c in conts:
        for stem in (("Safe",) if tier != "thorough" else ("Safe", "a", "Z9")):
            longer = stem + c + "M"
            g = {"P": [("a", longer), ("b", stem)], stem: [("x", "uint8")], longer: [("y", "bool")]}
            if rng.random() < 0.5:
                g["P"].reverse()
            tj = tdgen.dumps(tdgen.types_json(g, [("name", "string")]))
            cases.append(Case("td.encode_type %s %s" % (hx(tj), hx("P")), tags=("name-order", "prefix-pair")))
            try:
                msg = {"a": {"y": True}, "b": {"x": 1}}
                doc = {"types": tdgen.types_json(g, [("name", "string")]), "primaryType": "P", "domain": {"name": "n"}, "message": msg}
                cases.append(Case("td.hash " + hx(tdgen.dumps(doc)), tags=("name-order", "prefix-pair")))
            except Exception:
                pass
    for names in (["a", "A", "b", "B", "_", "0", "9", "Z", "z"], ["Aa", "AA", "aA", "aa", "A_", "A0"], ["É", "é", "Z", "z", "E", "e"],
                  ["\uff5e", "\U00010000", "\ue000", "\ud7ff", "z"], ["Ab", "A", "Abc", "B", "AB"], ["x10", "x9", "x1", "x01", "x2"]):
        g = {"P": [("m%d" % i, nm) for i, nm in enumerate(names)]}
        rng.shuffle(g["P"])
        for nm in names:
            g[nm] = [("v", "uint8")]
        tj = tdgen.dumps(tdgen.types_json(g, [("name", "string")]))
        cases.append(Case("td.encode_type %s %s" % (hx(tj), hx("P")), tags=("name-order", "name-set")))
        doc = {"types": tdgen.types_json(g, [("name", "string")]), "primaryType": "P", "domain": {"name": "n"}, "message": {m: {"v": 1} for m, _ in g["P"]}}
        cases.append(Case("td.hash " + hx(tdgen.dumps(doc)), tags=("name-order", "name-set")))
    # member-order permutations: the dependency witness (B[] b, A a, A a2) and friends
    base = {"A": [("x", "uint8")], "B": [("y", "bool"), ("c", "C")], "C": [("z", "string")]}
    members = [("b", "B[]"), ("a", "A"), ("a2", "A"), ("s", "string")]
    for perm in itertools.permutations(members):
        types = dict(base)
        types = {"P": list(perm), **types}
        tj = json.dumps(tdgen.types_json(types, [("name", "string")]))
        cases.append(Case("td.encode_type %s %s" % (hx(tj), hx("P")), tags=("perm-witness",)))
        doc = {"types": tdgen.types_json(types, [("name", "string")]), "primaryType": "P", "domain": {"name": "x"},
               "message": tdgen.rand_value(rng, types, "P")}
        cases.append(Case("td.hash " + hx(tdgen.dumps(doc)), tags=("perm-witness",)))
    # recursion
    for types, prim in [({"P": [("kids", "P[]"), ("v", "uint8")]}, "P"), ({"P": [("q", "Q[]")], "Q": [("p", "P[]"), ("q", "Q[]")]}, "P"),
                        ({"P": [("a", "A"), ("p", "P[]")], "A": [("p", "P[]")]}, "P"), ({"P": [("p", "P[][2]")]}, "P"),
                        ({"P": [("a", "A[]"), ("b", "B[]")], "A": [("b", "B[]")], "B": [("a", "A[]")]}, "P")]:
        tj = json.dumps(tdgen.types_json(types, [("name", "string")]))
        for name in types:
            cases.append(Case("td.encode_type %s %s" % (hx(tj), hx(name)), tags=("recursive",)))
        for _ in range(5):
            doc = {"types": tdgen.types_json(types, [("name", "string")]), "primaryType": prim, "domain": {"name": "x"},
                   "message": tdgen.rand_value(rng, types, prim)}
            cases.append(Case("td.hash " + hx(tdgen.dumps(doc)), tags=("recursive",)))
    k = 40 if tier == "thorough" else 6
    for _ in range(k):
        types = tdgen.rand_graph(rng, rng.randint(2, 4))
        prim = next(iter(types))
        ms = types[prim][:4]
        for perm in itertools.permutations(ms):
            t2 = dict(types)
            t2[prim] = list(perm)
            tj = json.dumps(tdgen.types_json(t2, [("name", "string")]))
            cases.append(Case("td.encode_type %s %s" % (hx(tj), hx(prim)), tags=("perm-random",), nontrivial=has_dep(t2, prim)))
    # deep nesting (value depth grows faster than value size)
    for depth in [1, 2, 5, 6, 7, 8, 12, 20, 40]:
        types = {"T%d" % i: [("a", "T%d" % (i - 1))] for i in range(depth, 0, -1)}
        types["T0"] = [("a", "string")]
        v = "leaf"
        for _ in range(depth + 1):
            v = {"a": v}
        doc = {"types": tdgen.types_json(types, [("name", "string")]), "primaryType": "T%d" % depth, "domain": {"name": "x"}, "message": v}
        cases.append(Case("td.hash " + hx(tdgen.dumps(doc)), tags=("deep-structs", "depth:%d" % depth)))
        t = "uint8" + "[]" * depth
        v = 7
        for _ in range(depth):
            v = [v]
        doc = {"types": tdgen.types_json({"P": [("v", t)]}, [("name", "string")]), "primaryType": "P", "domain": {"name": "x"}, "message": {"v": v}}
        cases.append(Case("td.hash " + hx(tdgen.dumps(doc)), tags=("deep-arrays", "depth:%d" % depth)))
        rec = {"P": [("kids", "P[]")]}
        v = {"kids": []}
        for _ in range(depth):
            v = {"kids": [v, {"kids": []}]}
        doc = {"types": tdgen.types_json(rec, [("name", "string")]), "primaryType": "P", "domain": {"name": "x"}, "message": v}
        cases.append(Case("td.hash " + hx(tdgen.dumps(doc)), tags=("deep-recursive", "depth:%d" % depth)))
    # member type grammar
    for t in tdgen.ALL_ATOMS:
        cases.append(Case("td.kind " + hx(t), tags=("kind-atom",), nontrivial=False))
    for t in ["uint", "int", "bytes0", "bytes33", "uint0", "uint7", "uint264", "int257", "uint256[]", "uint256[3][]", "A[2][3][]", "bytes32[2]", "string[]",
              "bool[0]", "A", "Person", "uint008", "bytes032", "uint0256", "A[+2]", "A[-1]", "A[ 1]", "A[1", "A]", "[]", "[1]", "A[][", "A[18446744073709551615]",
              "A[18446744073709551616]", "uint256 ", " uint256", "Uint256", "uint256x", "é", "uint²", "bytes٣", "A1", "1A", "bytes1x[]", "uint8[]" * 1 + "[]" * 10]:
        cases.append(Case("td.kind " + hx(t), tags=("kind-grammar",), nontrivial=False))
    # perturbed spellings of atomic type names: signs, spaces, separators, zeros, other numerals between the name and the
    # width, case, surrounding white space — the member type grammar is: a name of letters, then decimal digits
    from vlib.core import perturb
    for base in ("uint256", "uint8", "int128", "bytes32", "bytes1", "bytes", "address", "string", "bool"):
        width = "".join(ch for ch in base if ch.isdigit())
        name = base[:len(base) - len(width)]
        extra = [name + sep + width for sep in ("+", "-", " ", "_", ".", "0", "00", "+0", "x", "\u200b", "\u0660")] if width else []
        extra += [name + "\u0662\u0665\u0666", name + "２５６", name + "²"] if width else []
        for t in perturb(base) + extra:
            cases.append(Case("td.kind " + hx(t), tags=("kind-grammar", "perturbed"), nontrivial=False))
            cases.append(Case("td.kind " + hx(t + "[]"), tags=("kind-grammar", "perturbed"), nontrivial=False))
    for t in ["A[+2]", "A[-2]", "A[ 2]", "A[2 ]", "A[02]", "A[0x2]", "A[2_0]", "A[²]", "A[٢]", "A[2][+3]", "A[][+1]", "A[1e1]", "A[2.0]"]:
        cases.append(Case("td.kind " + hx(t), tags=("kind-grammar", "perturbed"), nontrivial=False))
    for _ in range(200 if tier == "thorough" else 50):
        t = rng.choice(tdgen.ALL_ATOMS + ["A", "Foo"]) + "".join(rng.choice(["[]", "[1]", "[22]", "[0]"]) for _ in range(rng.randint(0, 8)))
        cases.append(Case("td.kind " + hx(t), tags=("kind-arrays",), nontrivial=False))
    cases.append(Case("td.kind " + hx("uint8" + "[]" * 64), tags=("kind-arrays",), nontrivial=False))
    # sequences in one thread (op seq): a document, then a document whose primary type is spelt identically while a type it
    # refers to (directly or further down) is defined differently, then the first again — type hashes, encodeType strings
    # and dependency sets belong to the document, not to the process
    from vlib.core import seq_line
    def doc_of(types, prim):
        return tdgen.dumps({"types": tdgen.types_json(types, [("name", "string")]), "primaryType": prim, "domain": {"name": "x"},
                            "message": tdgen.rand_value(rng, types, prim)})
    for _ in range(40 if tier == "thorough" else 12):
        types = tdgen.rand_graph(rng, rng.randint(2, 5))
        prim = next(iter(types))
        deps = [n_ for n_ in types if n_ != prim]
        victim = rng.choice(deps)
        t2 = {k: list(v) for k, v in types.items()}
        how = rng.randrange(3)
        if how == 0 and len(t2[victim]) > 1:
            t2[victim] = list(reversed(t2[victim]))
        elif how == 1:
            t2[victim] = t2[victim] + [("extra_", rng.choice(["uint8", "string", "bool"]))]
        elif t2[victim]:
            nm, ty = t2[victim][0]
            t2[victim][0] = (nm, "bytes32" if not ty.startswith("bytes32") else "uint256")
        else:
            t2[victim] = [("only_", "uint8")]
        a, b = doc_of(types, prim), doc_of(t2, prim)
        cases.append(Case(seq_line(["td.hash " + hx(a), "td.hash " + hx(b), "td.hash " + hx(a)]), tags=("sequence", "dependency-redefined")))
        tj1, tj2 = json.dumps(tdgen.types_json(types, [("name", "string")])), json.dumps(tdgen.types_json(t2, [("name", "string")]))
        cases.append(Case(seq_line(["td.encode_type %s %s" % (hx(tj1), hx(prim)), "td.encode_type %s %s" % (hx(tj2), hx(prim)), "td.encode_type %s %s" % (hx(tj1), hx(prim))]),
                          tags=("sequence", "dependency-redefined")))
    mail2 = MAIL.replace('"Person":[{"name":"name","type":"string"},{"name":"wallet","type":"address"}]', '"Person":[{"name":"wallet","type":"address"},{"name":"name","type":"string"}]')
    cases.append(Case(seq_line(["td.hash " + hx(MAIL), "td.hash " + hx(mail2), "td.hash " + hx(MAIL)]), tags=("sequence", "fixture")))
    # equivalent JSON spellings of accepted documents (white space, escapes in keys, type strings and values)
    from vlib import jsonspell
    pool = [c for c in cases if c.line.startswith("td.hash ") and c.tags[0] in ("random", "fixture", "perm-witness", "recursive")]
    for c in rng.sample(pool, min(len(pool), 120 if tier == "quick" else 500)):
        t = bytes.fromhex(c.line.split(" ")[1]).decode()
        cases.append(Case("td.hash " + hx(jsonspell.respell(rng, t, p_escape=rng.choice([0.05, 0.3, 1.1]))), tags=("respelled",)))
    from vlib import routes
    cases += routes.add_routes(cases, rng, 60, tier)
    return cases


def run_cli(case):
    from vlib import cli
    return cli.run_cli(case)
