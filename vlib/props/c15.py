"""C15 — printed signatures parse back; sign | hash pipeline."""
from vlib.core import Case, hx

ID = "C15"
N = 0xFFFFFFFFFFFFFFFFFFFFFFFFFFFFFFFEBAAEDCE6AF48A03BBFD25E8CD0364141
NEEDS_CLI = True
RULE = ("ops sig.print / sig.parse: random and boundary scalars (1, 2, n-2, n-1 valid; 0, n, n+1, 2^256-1 invalid), both parities, "
        "printed text re-parsed with and without 0x, every length 0..140, mutation of each character class, upper/lower case, v bytes 0..255; "
        "well-formed texts handed to `hash transaction --signature` for every kind of transaction incl. legacy without chain id (judge: keccak256 of the signed payload with exactly that signature); a random sample of the cases is re-run through every sub-command that reaches the same code (vlib/routes.py); non-trivial = distinct text of length 128..134; judge = the statement's grammar (130 hex digits r‖s‖v, v in {27,28}, scalars in [1,n-1])")
EXHAUSTIVE_SWEEPS = {"quick": ["all lengths 0..140", "all 256 v bytes", "all 8x8 boundary scalar pairs x 2 parities"],
                     "thorough": ["all lengths 0..140", "all 256 v bytes", "all 8x8 boundary scalar pairs x 2 parities"]}
BOUND = [0, 1, 2, N - 2, N - 1, N, N + 1, 2 ** 256 - 1]


def text(r, s, v, prefix=True):
    return ("0x" if prefix else "") + "%064x%064x%02x" % (r, s, v)


def gen(rng, tier):
    cases = []
    rs = lambda: rng.choice([rng.randrange(1, N), rng.randrange(1, N), rng.randrange(1, 2 ** 64), N - 1 - rng.randrange(2 ** 32)])
    add = lambda t, *tags, nt=True: cases.append(Case("sig.parse " + hx(t), tags=tags, nontrivial=nt))
    n = 2000 if tier == "thorough" else 400
    for _ in range(n):
        r, s, p = rs(), rs(), rng.randrange(2)
        cases.append(Case("sig.print %064x %064x %d" % (r, s, p), tags=("print",)))
        add(text(r, s, 27 + p), "roundtrip-0x")
        add(text(r, s, 27 + p, False), "roundtrip-bare")
        if rng.random() < 0.3:
            add(text(r, s, 27 + p).upper().replace("0X", "0x"), "upper")
    for r in BOUND:
        for s in BOUND:
            for p in (0, 1):
                add(text(r, s, 27 + p), "boundary-scalars")
                add(text(r, s, 27 + p, False), "boundary-scalars")
                if 0 < r < N and 0 < s < N:
                    cases.append(Case("sig.print %064x %064x %d" % (r, s, p), tags=("print", "boundary-scalars")))
    for v in range(256):
        add(text(rs(), rs(), v, rng.random() < 0.5), "v-sweep")
    good = text(rs(), rs(), 27)
    for L in range(0, 141):
        add((good * 2)[:L], "length:%d" % L, nt=(128 <= L <= 134))
        add("0x" + (good[2:] * 2)[:L], "length:%d" % L, nt=(128 <= L <= 134))
    for _ in range(n // 2):
        t = list(text(rs(), rs(), 27 + rng.randrange(2), rng.random() < 0.7))
        i = rng.randrange(len(t))
        r = rng.random()
        if r < 0.5:
            t[i] = rng.choice("gGxX -+_.zé０\t\n")
        elif r < 0.75:
            del t[i]
        else:
            t.insert(i, rng.choice("0aFx "))
        add("".join(t), "mutated")
    # multi-byte characters placed across every byte offset of a text with the right BYTE length
    for mb in ("é", "€", "😀"):
        w = len(mb.encode())
        for total, pre in ((130, ""), (130, "0x")):
            for k in range(0, total - w + 1):
                body = good[2:][:k] + mb + good[2:][k:total - w]
                assert len(body.encode()) == total
                add(pre + body, "utf8-straddle")
    for t in ["0x0x" + good[2:], "0x0x0x" + good[2:], "0x" + good[2:] + "00", good[2:] + "00", "0x" + good[2:] + "0000", good + good[2:], "0x" + good[2:] + "1b", "00" + good[2:], "0x00" + good[2:]]:
        add(t, "overlong-or-doubled")
    from vlib.core import perturb
    for v in perturb(good, "0x") + perturb(good[2:]):
        add(v, "perturbed")
    for t in ["", "0x", "0X" + good[2:], " " + good, good + " ", good + "\n", "0x0x" + good[2:], "1b", "0x1b"]:
        add(t, "malformed", nt=False)
    # the four recovery ids a Signature value can carry (from_parts): the text ends in 1b / 1c by bit 0 alone
    for rid in (0, 1, 2, 3):
        for _ in range(3):
            cases.append(Case("sig.print %064x %064x %d" % (rng.randrange(1, 0xFFFFFFFFFFFFFFFFFFFFFFFFFFFFFFFEBAAEDCE6AF48A03BBFD25E8CD0364141), rng.randrange(1, 0xFFFFFFFFFFFFFFFFFFFFFFFFFFFFFFFEBAAEDCE6AF48A03BBFD25E8CD0364141), rid), tags=("recovery-id", "rid:%d" % rid)))
    # scalars with a zero byte at each position 0..31 (printing assembles r and s from bytes / words)
    NN0 = 0xFFFFFFFFFFFFFFFFFFFFFFFFFFFFFFFEBAAEDCE6AF48A03BBFD25E8CD0364141
    for pos in range(32):
        for which in ("r", "s"):
            b = bytearray(rng.getrandbits(8) | 1 for _ in range(32))
            b[0] = b[0] & 0x7f | 1
            b[pos] = 0
            if pos == 0:
                b[1] |= 1
            v = int.from_bytes(b, "big")
            o = rng.randrange(1, NN0)
            r_, s_ = (v, o) if which == "r" else (o, v)
            cases.append(Case("sig.print %064x %064x %d" % (r_, s_, rng.randrange(2)), tags=("zero-byte-at", which)))
            cases.append(Case("sig.parse " + hx("0x%064x%064x%02x" % (r_, s_, 27 + rng.randrange(2))), tags=("zero-byte-at", which)))
    # one digit of a valid text replaced by + - _ . , x X ~ NUL g G or a blank, at every position
    from vlib.core import substitute
    goodtxt = "%064x%064x1c" % (rng.randrange(1, NN0), rng.randrange(1, NN0))
    for v in substitute(goodtxt) + substitute("0x" + goodtxt, 2)[::7]:
        cases.append(Case("sig.parse " + hx(v), tags=("substituted",)))
    from vlib.core import substitute_lookalikes
    for v in substitute_lookalikes(goodtxt, 0, 4) + substitute_lookalikes("0x" + goodtxt, 2, 3):
        cases.append(Case("sig.parse " + hx(v), tags=("substituted", "digit-lookalike")))
    # interoperation: a text of the printed form is accepted by `hash transaction --signature` for every kind of transaction
    # (the pre-EIP-155 legacy form included) and the hash is keccak256 of the signed payload carrying exactly (r, s, parity)
    from vlib import txgen
    NN = txgen.N
    for kind, chain in (("legacy", "absent"), ("legacy", 1), ("legacy", 2 ** 64 - 1), ("eip2930", None), ("eip1559", None)):
        for _ in range(6 if tier == "thorough" else 3):
            j, _e = txgen.rand_tx(rng, kind=kind, chain=chain)
            r, s_ = rng.randrange(1, NN), rng.randrange(1, NN)
            for pre in ("0x", ""):
                for v in (27, 28):
                    cases.append(Case("cli.hash_tx %s %s" % (hx(j), hx(pre + "%064x%064x%02x" % (r, s_, v))), tags=("interop", "kind:" + kind + ("-unprotected" if chain == "absent" else "")), runner="cli", meta={"sig_style": rng.choice(["eq", "sep", "short"])}))
    # what `sign transaction --signature-only` prints is a text of this form for every kind of transaction and every chain id
    # (v = 27 + parity there, whatever v the signed transaction itself carries), and it feeds `hash transaction --signature`
    from vlib import bip39 as _b39
    mn_ = hx(" ".join(_b39.rand_phrase(rng, 12)))
    for kind, chain in (("legacy", "absent"), ("legacy", 0), ("legacy", 1), ("legacy", 1337), ("legacy", 2 ** 64 - 1), ("legacy", 2 ** 255 - 19), ("eip2930", None), ("eip2930", 0), ("eip1559", None)):
        for _ in range(3 if tier == "thorough" else 2):
            j, _e = txgen.rand_tx(rng, kind=kind, chain=chain)
            cases.append(Case("cli.sign_tx %s - default %s 1 %d" % (mn_, hx(j), 1 if chain == "absent" else _ % 2), tags=("interop", "signature-only", "kind:" + kind), runner="cli", meta={"via": {}, "via_file": False}))
    # ... and texts that denote no signature are refused by the command too (the empty text included: an option that is given
    # is a signature, not "none")
    jj, _e = txgen.rand_tx(rng, kind="legacy", chain=1)
    okv = "%064x%064x1b" % (rng.randrange(1, NN), rng.randrange(1, NN))
    for bad in ["", " ", "0x", "0X", "0", "00", "x", "none", "null", "-", okv[:-1], okv[:-2], okv + "0", okv + "00", "0x" + okv[:-2], "0x0x" + okv, "0X" + okv, okv[:128] + "1a", okv[:128] + "1d",
                okv[:128] + "00", okv[:128] + "01", "0" * 128 + "1b", "0" * 64 + okv[64:], okv[:64] + "0" * 64 + "1b", "f" * 128 + "1b", okv.upper().replace("1B", "1b") + " ", " " + okv, okv + "\n", "é" * 65]:
        for pre in ("",):
            cases.append(Case("cli.hash_tx %s %s" % (hx(jj), hx(bad)), tags=("interop", "malformed-text"), runner="cli", meta={"sig_style": rng.choice(["eq", "sep", "short"])}))
    from vlib import routes
    cases += routes.add_routes(cases, rng, 80, tier)
    return cases


def shrink_candidates(line):
    return []


def run_cli(case):
    from vlib import cli
    return cli.run_cli(case)
