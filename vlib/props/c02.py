"""C02 — wallet seed."""
import unicodedata
from vlib.core import Case, hx
from vlib import bip39

ID = "C02"
NEEDS_CLI = True
THOROUGH_ROUNDS = 1
RULE = ("op mn.seed <phrase> <passphrase>: all five phrase lengths, layout variants of the phrase (incl. exactly one separator of every white-space kind), passphrases: empty, ASCII, "
        "precomposed/decomposed pairs, full-width/ASCII pairs, ligatures, Hangul, combining marks in non-canonical order, runs of 1..100 combining marks, long passphrases (exact byte lengths up to 100000 around buffer sizes, text that grows under NFKD), astral plane; "
        "every code point with an NFKD mapping or non-zero combining class alone between ASCII letters (all below U+0250, stratified sample above; thorough: all); code points restricted to those assigned in Unicode 14.0 (python unicodedata) — the crate ships Unicode 16 tables; "
        "NFKD-equivalent pairs must give equal seeds (extra check); the repo's four seed vectors; passphrases with leading/trailing (Unicode) white space; a sample of the pairs re-run through `export --password` (flag and environment) so that the wallet the commands build is covered too; every printable ASCII character at the start / middle / end of a passphrase given as --password=VALUE, --password VALUE and PASSWORD=VALUE; "
        "non-trivial = distinct (words, passphrase); judge = BIP-39 PBKDF2 from the standard with the NFKD table of python's unicodedata")
EXHAUSTIVE_SWEEPS = {"quick": ["every non-alphanumeric printable ASCII character inside a command-line passphrase"], "thorough": ["every printable ASCII character inside a command-line passphrase"]}
ASSUMPTIONS = ["NFKD table: python unicodedata 14.0 vs unicode-normalization 16.0, equal on code points assigned in 14.0 (normalisation stability policy)"]

POOL = ["é", "é", "ñ", "Å", "Å", "ﬁ", "Ａ", "ｂ", "１", "²", "㎏", "한", "글", "각", "가", "ö̖", "ạ̈", "ạ̈", "q̣̇", "q̣̇", "𝒜", "𝟘", "😀", "𐐷", "ǆ", "ẛ̣", "Ω", "Ω", "ϓ", "　", " ", "ß", "ſ", "½", "…", "㈱", "ｶﾞ", "ガ", "לֹּ", "ै़", "़ै"]


def assigned14(s):
    return all(unicodedata.category(c) != "Cn" for c in s)


def rand_pass(rng):
    r = rng.random()
    if r < 0.1:
        return ""
    if r < 0.3:
        return "".join(rng.choice("abcXYZ 019!@#") for _ in range(rng.randint(1, 12)))
    parts = [rng.choice(POOL) if rng.random() < 0.7 else rng.choice("abcTREZOR 12") for _ in range(rng.randint(1, 8))]
    if rng.random() < 0.2:
        while True:
            c = chr(rng.choice([rng.randrange(0x80, 0x3000), rng.randrange(0x1D400, 0x1D7FF), rng.randrange(0x300, 0x370), rng.randrange(0xF900, 0xFB00)]))
            if unicodedata.category(c) not in ("Cn", "Cs", "Co"):
                parts.insert(rng.randrange(len(parts) + 1), c)
                break
    return "".join(parts)


def gen(rng, tier):
    cases = []
    vec = [("abandon abandon abandon abandon abandon abandon abandon abandon abandon abandon abandon about", "TREZOR"),
           ("myth like bonus scare over problem client lizard pioneer submit female collect", ""),
           ("abandon abandon abandon abandon abandon abandon abandon abandon abandon abandon abandon abandon abandon abandon abandon abandon abandon abandon abandon abandon abandon abandon abandon art", "TREZOR"),
           ("void come effort suffer camp survey warrior heavy shoot primary clutch crush open amazing screen patrol group space point ten exist slush involve unfold", "TREZOR")]
    for ph, pw in vec:
        cases.append(Case("mn.seed %s %s" % (hx(ph), hx(pw)), tags=("vector",)))
    n = 500 if tier == "thorough" else 90
    for i in range(n):
        ws = bip39.rand_phrase(rng, [12, 15, 18, 21, 24][i % 5])
        pw = rand_pass(rng)
        assert assigned14(pw)
        meta = {"group": "%d-%d" % (i, rng.getrandbits(48))}
        cases.append(Case("mn.seed %s %s" % (hx(" ".join(ws)), hx(pw)), tags=("random", "words:%d" % len(ws)), meta=meta))
        # same words, different layout: same seed
        lay = "\t".join(ws) + "\n" if rng.random() < 0.5 else "  " + "   ".join(ws)
        cases.append(Case("mn.seed %s %s" % (hx(lay), hx(pw)), tags=("layout",), meta=meta))
        # NFKD-equivalent passphrases: same seed
        for form in ("NFC", "NFD", "NFKC", "NFKD"):
            alt = unicodedata.normalize(form, pw)
            if alt != pw:
                cases.append(Case("mn.seed %s %s" % (hx(" ".join(ws)), hx(alt)), tags=("nfkd-equivalent",), meta=meta))
    # exactly one separator character between the words, nothing around them: tab, LF, CR, VT, FF, NEL, NBSP-like and wide spaces
    # (the text is as long as the canonical phrase, or differs only by the width of the separators) — same seed as with spaces
    SEPS = ["\t", "\n", "\r", "\x0b", "\x0c", "\u0085", "\u2000", "\u2003", "\u2009", "\u200a", "\u2028", "\u2029", "\u205f", "\u3000", "\u1680"]
    for i, sep in enumerate(SEPS):
        ws = bip39.rand_phrase(rng, [12, 15, 18, 21, 24][i % 5])
        pw = rng.choice(["", "TREZOR", "pässwörd"])
        g = {"group": "sep-%d-%d" % (i, rng.getrandbits(48))}
        cases.append(Case("mn.seed %s %s" % (hx(" ".join(ws)), hx(pw)), tags=("layout", "canonical"), meta=g))
        cases.append(Case("mn.seed %s %s" % (hx(sep.join(ws)), hx(pw)), tags=("layout", "single-separator"), meta=g))
        k = rng.randrange(1, len(ws))
        cases.append(Case("mn.seed %s %s" % (hx(" ".join(ws[:k]) + sep + " ".join(ws[k:])), hx(pw)), tags=("layout", "one-odd-separator"), meta=g))
    # canonical phrases of exactly 127 / 128 / 129 bytes (the HMAC-SHA512 block size) and other lengths around it
    want = {126: 2, 127: 3, 128: 4, 129: 3, 130: 2}
    tries = 0
    while any(want.values()) and tries < 20000:
        tries += 1
        ws = bip39.rand_phrase(rng, rng.choice([18, 21, 21, 24]))
        L = len(" ".join(ws))
        if want.get(L, 0) > 0:
            want[L] -= 1
            for pw in ("", "TREZOR", "pässwörd"):
                cases.append(Case("mn.seed %s %s" % (hx(" ".join(ws)), hx(pw)), tags=("phrase-bytes:%d" % L,)))
    # every code point with a non-trivial NFKD mapping or a non-zero combining class, ALONE between ASCII
    # letters (so that no other character of the passphrase can mask a fast path): all of them below
    # U+0250 and a stratified sample of the rest (thorough: all 6.7k of the table)
    import os
    from vlib import core
    table = []
    with open(os.path.join(core.VERIF, "data", "nfkd_table.tsv")) as f:
        for line in f:
            if line.startswith("#") or not line.strip():
                continue
            cp = int(line.split("\t")[0])
            table.append(cp)
    low = [cp for cp in table if cp < 0x250]
    rest = [cp for cp in table if cp >= 0x250]
    pick = low + (rest if tier == "thorough" else [rest[i] for i in range(0, len(rest), max(1, len(rest) // 350))])
    ws12 = bip39.rand_phrase(rng, 12)
    for cp in pick:
        ch = chr(cp)
        for pw in ("a" + ch + "b", ch):
            cases.append(Case("mn.seed %s %s" % (hx(" ".join(ws12)), hx(pw)), tags=("single-char", "block:%02x" % (cp >> 8) if cp < 0x1000 else "block:high")))
    # Hangul syllables (arithmetic decomposition) and ASCII-only / Latin-1-only mixes
    for cp in [0xAC00, 0xAC01, 0xD7A3, 0xB098, 0xC548]:
        cases.append(Case("mn.seed %s %s" % (hx(" ".join(ws12)), hx("x" + chr(cp))), tags=("single-char", "hangul")))
    for pw in ["5µm²", "a b", "½ ¾ ¼", "ª º ¹ ³", "¨ ¯ ´ ¸", "plain ascii", "ÿ", "¿¡"]:
        cases.append(Case("mn.seed %s %s" % (hx(" ".join(ws12)), hx(pw)), tags=("latin1",)))
    # long runs of combining marks (NFKD has no length limit: the "stream-safe" variant, which inserts U+034F after 30
    # marks, is a different text): 29..33, 64, 100 marks, one mark repeated / many different marks in non-canonical
    # order, after a plain and after a precomposed letter
    MARKS = [chr(c) for c in range(0x300, 0x370) if unicodedata.combining(chr(c))]
    for k in (1, 2, 29, 30, 31, 32, 33, 64, 100):
        for base in ("a", "\u00e9", "q"):
            for style in ("same", "mixed"):
                run = "\u0323" * k if style == "same" else "".join(rng.choice(MARKS) for _ in range(k))
                pw = "Z" + base + run + "!"
                cases.append(Case("mn.seed %s %s" % (hx(" ".join(ws12)), hx(pw)), tags=("mark-run", "marks:%d" % (k + (1 if base == "\u00e9" else 0)))))
    # long passphrases: the salt has no length limit — ASCII of exact byte lengths around the sizes a buffer may have
    # ("mnemonic" + passphrase crossing 128 / 256 / 512 / 1024 / 4096 / 65536 bytes), text that GROWS under NFKD (U+FDFA:
    # 3 bytes -> 33), precomposed letters (2 -> 3 bytes), emoji, a long sentence
    for n in (100, 119, 120, 121, 127, 128, 129, 247, 248, 249, 255, 256, 257, 300, 503, 504, 505, 1000, 1016, 1017, 4088, 4089, 65528, 65529, 100000):
        pw = "".join(rng.choice("abcdefghijklmnopqrstuvwxyz ") for _ in range(n))
        cases.append(Case("mn.seed %s %s" % (hx(" ".join(ws12)), hx(pw)), tags=("long-passphrase", "ascii")))
    for pw in ["\ufdfa" * 14, "\ufdfa" * 3, "\u00e9" * 100, "\u00e9" * 83, "\U0001f600" * 70, "x" * 240 + "\u00e9" * 5, "\uff21" * 90, "\uff21" * 300,
               " ".join(rng.choice(["correct", "horse", "battery", "staple", "caf\u00e9", "na\u00efve"]) for _ in range(45))]:
        cases.append(Case("mn.seed %s %s" % (hx(" ".join(ws12)), hx(pw)), tags=("long-passphrase", "unicode")))
    # passphrases that begin / end with (Unicode) white space, or are nothing else: part of the salt like any other character
    for pw in ["TREZOR ", " TREZOR", " ", "  ", "\t", "pass\n", "\r\npass", "pass\u3000", "\u00a0pass", "\u2003x\u2003", "x\u200a", "\u0085y", "\u2028z", "\x0bq\x0c"]:
        cases.append(Case("mn.seed %s %s" % (hx(" ".join(ws12)), hx(pw)), tags=("edge-whitespace",)))
    # passphrases that look like something else to a command line: `-` (often "standard input"), `--`, an option name, @file,
    # ~, $VAR, %s, a path, an empty-looking blank — a passphrase is text, whatever it looks like
    for pw in ["-", "--", "-x", "--password", "-m", "@/etc/passwd", "@-", "~", "$HOME", "${PASSWORD}", "%s%n", "/dev/stdin", "\\", "''", '""', "null", "none", "0", "false"]:
        cases.append(Case("mn.seed %s %s" % (hx(" ".join(ws12)), hx(pw)), tags=("edge-whitespace", "sentinel-like")))
    # the same (phrase, passphrase) pairs through the command line: the key exported for them must be the one derived
    # from this seed (model: Cli.exportKey; judge: BIP-39 seed + BIP-32 from the standards)
    # every printable ASCII character inside a passphrase given on the command line, at the start, in the middle and at the
    # end, in the three ways a value can be given: --password=VALUE, --password VALUE, PASSWORD=VALUE in the environment
    # (what the shell-like layers between argv and the library might rewrite: _ - = , ; : @ % $ ~ \ quotes, blanks)
    styles = ["flag", "sep", "env"]
    k = 0
    for cp in range(0x20, 0x7f):
        ch = chr(cp)
        if tier != "thorough" and ch.isalnum() and cp % 6:
            continue
        for pw in ("correct" + ch + "horse", ch + "ab", "ab" + ch) if (tier == "thorough" or not ch.isalnum()) else ("x" + ch + "y",):
            k += 1
            for st in (styles if (pw.startswith("correct") and not ch.isalnum()) else [styles[k % 3]]):
                cases.append(Case("cli.export %s %s %s" % (hx(" ".join(ws12)), hx(pw), "default"), tags=("route", "printable-in-passphrase", "style:" + st), runner="cli",
                                  meta={"via": {"mnemonic": rng.choice(["flag", "env"]), "password": st}}))
    from vlib import routes
    lib = [c for c in cases if "edge-whitespace" in c.tags] + rng.sample([c for c in cases if c.tags[0] in ("random", "nfkd-equivalent", "single-char", "latin1")], 30 if tier == "quick" else 150)
    cases += routes.add_routes(lib, rng, len(lib), "quick")
    return cases


def run_cli(case):
    from vlib import cli
    return cli.run_cli(case)


def extra_checks(cases, impl, model, verdicts, tier, rng, cov):
    groups = {}
    for c, o in zip(cases, impl):
        g = c.meta.get("group")
        if g is not None:
            groups.setdefault(g, set()).add(o)
    bad = [g for g, s in groups.items() if len(s) != 1]
    cov["equivalence_groups"] = len(groups)
    if bad:
        lines = [c.line for c in cases if c.meta.get("group") == bad[0]]
        return [("witness", "layout- or NFKD-equivalent inputs gave different seeds", {"lines": lines})]
    return []
