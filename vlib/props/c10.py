"""C10 — personal-message digest (EIP-191)."""
from vlib.core import Case, hx
from vlib import core

ID = "C10"
NEEDS_CLI = True
RULE = ("op msg.hash <bytes>: every length 0..1100 (quick: 0..300 + boundaries) with random content, "
        "lengths 10^k-1, 10^k, 10^k+1, messages of 64 KiB..1 MiB handled before the small ones and explicit sequences big/small/big in one thread (op seq), all 256 single-byte messages, non-UTF-8 content, special byte sequences (BOMs, line endings, NUL, Ctrl-Z, prefixes: vlib/magic.py) at the start, end and inside, library and `hash message` (stdin and file); "
        "non-trivial = distinct message; judge recomputes Keccak-256 of the EIP-191 pre-image independently of the model's preimage function")
EXHAUSTIVE_SWEEPS = {"quick": ["all 256 one-byte messages", "all lengths 0..300"],
                     "thorough": ["all 256 one-byte messages", "all lengths 0..1100"]}


def gen(rng, tier):
    from vlib.core import seq_line
    cases = []
    # big messages first, so that whatever a big message leaves behind in the process is seen by the lines after it; and
    # explicit sequences (one thread, in order): big then small, small then big then the same small, empty after anything
    for n in (65535, 65536, 65537, 100000, 1048577):
        cases.append(Case("msg.hash_rep %d %d" % (n, rng.getrandbits(8)), tags=("big-first",)))
    small = ["msg.hash " + hx(b"hello world!"), "msg.hash -", "msg.hash " + hx(bytes(rng.getrandbits(8) for _ in range(100)))]
    for big in (70000, 200000, 1 << 20):
        for sm in small:
            cases.append(Case(seq_line([sm, "msg.hash_rep %d 97" % big, sm, "msg.hash_rep %d 98" % big, "msg.hash -"]), tags=("sequence",)))
    cases.append(Case(seq_line(small * 3), tags=("sequence",)))
    top = 1100 if tier == "thorough" else 300
    for n in range(0, top + 1):
        cases.append(Case("msg.hash " + hx(bytes(rng.getrandbits(8) for _ in range(n))), tags=("len:%d-digit" % len(str(n)),)))
    for b in range(256):
        cases.append(Case("msg.hash " + hx(bytes([b])), tags=("single-byte",)))
    kmax = 6 if tier == "thorough" else 4
    for k in range(1, kmax + 1):
        for n in (10 ** k - 1, 10 ** k, 10 ** k + 1):
            if n <= 20000:
                cases.append(Case("msg.hash " + hx(bytes(rng.getrandbits(8) for _ in range(n))), tags=("pow10", "len:%d-digit" % len(str(n)))))
            cases.append(Case("msg.hash_rep %d %d" % (n, rng.getrandbits(8)), tags=("pow10-rep", "len:%d-digit" % len(str(n)))))
    for _ in range(50):
        # content that looks like a length field / prefix, and invalid UTF-8
        m = rng.choice([b"12", b"\x19Ethereum Signed Message:\n", b"\xff\xfe\x80", b"0", b"\n"]) * rng.randint(1, 5)
        cases.append(Case("msg.hash " + hx(m), tags=("tricky",)))
    # the command-line route (`hash message`), stdin and file, including inputs beyond 10^6 bytes
    from vlib import cli as _cli
    sizes = [0, 1, 9, 10, 99, 100, 999, 1000, 9999, 10000, 65535, 65536, 99999, 100000, 999999, 1000000, 1000001, 1000003, 1048575, 1048576, 1048577, 2000003]
    if tier == "thorough":
        sizes += [9999999, 10000000, 10000001, 16777215, 16777216, 16777217]
    for n in sizes:
        for vf in (False, True):
            cases.append(Case("cli.hash_message_rep %d %d" % (n, rng.randrange(256)), tags=("cli", "stdin" if not vf else "file", "len:%d-digit" % len(str(n))), runner="cli", meta={"via_file": vf}))
    # messages that begin / end with / contain special byte sequences (vlib/magic.py): a message is arbitrary bytes
    from vlib import magic
    for body in (bytes(rng.getrandbits(8) for _ in range(7)), b"hello world!"):
        for d, tag in magic.variants(rng, body):
            cases.append(Case("msg.hash " + hx(d), tags=("lib", tag)))
            cases.append(Case("cli.hash_message " + hx(d), tags=("cli", tag), runner="cli", meta={"via_file": core.input_route(rng)}))
    for d in magic.ENCODED_TEXTS:
        cases.append(Case("msg.hash " + hx(d), tags=("lib", "encoded-text")))
        cases.append(Case("cli.hash_message " + hx(d), tags=("cli", "encoded-text"), runner="cli", meta={"via_file": core.input_route(rng)}))
    for n in (2, 100, 4096, 8192, 8193, 70000):
        for route in ("slow", "fifo"):
            cases.append(Case("cli.hash_message " + hx(bytes(rng.getrandbits(8) for _ in range(n))), tags=("cli", "pieces:" + route), runner="cli", meta={"via_file": route}))
    for n in (0, 1, 12, 300):
        cases.append(Case("cli.hash_message " + hx(bytes(rng.getrandbits(8) for _ in range(n))), tags=("cli",), runner="cli", meta={"via_file": core.input_route(rng)}))
    return cases


run_cli = None


def _run_cli(case):
    from vlib import cli as _cli
    return _cli.run_cli(case)


run_cli = _run_cli


def shrink_candidates(line):
    op, *args = line.split(" ")
    if op != "msg.hash" or args[0] == "-":
        return
    b = bytes.fromhex(args[0])
    for cut in (len(b) // 2, 1):
        if len(b) > cut:
            yield "msg.hash " + hx(b[:-cut])
            yield "msg.hash " + hx(b[cut:])
