"""C10 — personal-message digest (EIP-191)."""
from vlib.core import Case, hx

ID = "C10"
RULE = ("op msg.hash <bytes>: every length 0..1100 (quick: 0..300 + boundaries) with random content, "
        "lengths 10^k-1, 10^k, 10^k+1, all 256 single-byte messages, non-UTF-8 content; "
        "non-trivial = distinct message; judge recomputes Keccak-256 of the EIP-191 pre-image independently of the model's preimage function")
EXHAUSTIVE_SWEEPS = {"quick": ["all 256 one-byte messages", "all lengths 0..300"],
                     "thorough": ["all 256 one-byte messages", "all lengths 0..1100"]}


def gen(rng, tier):
    cases = []
    top = 1100 if tier == "thorough" else 300
    for n in range(0, top + 1):
        cases.append(Case("msg.hash " + hx(bytes(rng.getrandbits(8) for _ in range(n))), tags=("len:%d-digit" % len(str(n)),)))
    for b in range(256):
        cases.append(Case("msg.hash " + hx(bytes([b])), tags=("single-byte",)))
    kmax = 6 if tier == "thorough" else 4
    for k in range(1, kmax + 1):
        for n in (10 ** k - 1, 10 ** k, 10 ** k + 1):
            if n <= 20000:
                cases.append(Case("msg.hash " + hx(bytes(rng.getrandbits(8) for _ in range(n))), tags=("pow10", "len:%d-digit" % len(str(n)))))
            cases.append(Case("msg.hash_rep %d %d" % (n, rng.getrandbits(8)), tags=("pow10-rep", "len:%d-digit" % len(str(n)))))
    for _ in range(50):
        # content that looks like a length field / prefix, and invalid UTF-8
        m = rng.choice([b"12", b"\x19Ethereum Signed Message:\n", b"\xff\xfe\x80", b"0", b"\n"]) * rng.randint(1, 5)
        cases.append(Case("msg.hash " + hx(m), tags=("tricky",)))
    return cases


def shrink_candidates(line):
    op, *args = line.split(" ")
    if op != "msg.hash" or args[0] == "-":
        return
    b = bytes.fromhex(args[0])
    for cut in (len(b) // 2, 1):
        if len(b) > cut:
            yield "msg.hash " + hx(b[:-cut])
            yield "msg.hash " + hx(b[cut:])
