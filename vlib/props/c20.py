"""C20 — EIP-712 domain types."""
import itertools
import json
from vlib.core import Case, hx
from vlib import core
from vlib import tdgen

ID = "C20"
NEEDS_CLI = True
RULE = ("op td.hash with every EIP712Domain type drawn from the five standard fields: all 326 duplicate-free orderings of subsets (including empty), "
        "all sequences with one repeated field, one foreign name at each position, each field x each wrong type (incl. bytes032 / uint0256 spellings), "
        "document without the domain type; every one of these also as a bare-domain document (primary type EIP712Domain, message = domain); equivalent JSON spellings (white space, \\uXXXX escapes in names and type strings) of all 32 sublists and a sample of refused types; the command-line routes hash typeddata [--message-hash] and sign typeddata on a sample of well- and ill-formed domain types; domain values generated to match the declared members; the 31 accepted ones are hashed and judged by the EIP-712 spec; "
        "non-trivial = distinct domain type; judge = Spec.Eip712 (non-empty sublist of the standard fields)")
EXHAUSTIVE_SWEEPS = {"quick": ["all 326 duplicate-free orderings of subsets of the 5 standard fields", "all single-repeat sequences of <= 3 fields", "5 fields x 14 wrong types"],
                     "thorough": ["all 326 duplicate-free orderings of subsets of the 5 standard fields", "all single-repeat sequences", "5 fields x 14 wrong types"]}

STD = tdgen.STD_DOMAIN
VAL = {"name": "Ether Mail", "version": "1", "chainId": 1, "verifyingContract": "0xCcCCccccCCCCcCCCCCCcCcCccCcCCCcCcccccccC", "salt": "0x" + "11" * 32}
WRONG = ["string", "bytes", "bytes32", "bytes31", "uint256", "uint8", "int256", "address", "bool", "string[]", "Foo", "bytes032", "uint0256", "uint256[1]"]


def doc(fields, include_domain_type=True, values=None, bare=False):
    types = {"M": [{"name": "x", "type": "uint8"}], "Foo": [{"name": "y", "type": "bool"}]}
    if include_domain_type:
        types["EIP712Domain"] = [{"name": n, "type": t} for n, t in fields]
    dom = {}
    for n, t in fields:
        dom[n] = VAL.get(n, "v")
    if values is not None:
        dom = values
    if bare:
        # the domain signed as a message of its own: primary type EIP712Domain, message = the domain value
        return json.dumps({"types": types, "primaryType": "EIP712Domain", "domain": dom, "message": dict(dom)})
    return json.dumps({"types": types, "primaryType": "M", "domain": dom, "message": {"x": 1}})


def gen(rng, tier):
    cases = []
    seen = set()

    def add(fields, *tags, **kw):
        key = (tuple(fields), kw.get("include_domain_type", True))
        nt = key not in seen
        seen.add(key)
        cases.append(Case("td.hash " + hx(doc(fields, **kw)), tags=tags, nontrivial=nt))
        if kw.get("include_domain_type", True):
            # the shape of the domain type is checked whatever the primary type is — also when it is the domain type itself
            cases.append(Case("td.hash " + hx(doc(fields, bare=True, **kw)), tags=tags + ("bare-domain",), nontrivial=False))

    for k in range(0, 6):
        for sub in itertools.permutations(STD, k):
            add(list(sub), "ordering", "len:%d" % k)
    maxrep = 5 if tier == "thorough" else 3
    for k in range(1, maxrep + 1):
        for sub in itertools.combinations(STD, k):
            for i in range(k):
                for pos in range(k + 1):
                    s = list(sub)
                    s.insert(pos, sub[i])
                    add(s, "repeated")
    for k in range(0, 5):
        for sub in itertools.combinations(STD, k):
            for pos in range(k + 1):
                for foreign in [("foo", "string"), ("Name", "string"), ("chainid", "uint256"), ("name ", "string"), ("", "string")]:
                    s = list(sub)
                    s.insert(pos, foreign)
                    add(s, "foreign")
    for i, (n, t) in enumerate(STD):
        for w in WRONG:
            if w == t:
                continue
            for ctx in (STD, [STD[i]], STD[:i + 1]):
                s = [(a, (w if a == n else b)) for a, b in ctx]
                add(s, "wrong-type")
    # the 31 well-formed domain types (and a sample of the refused ones) in equivalent JSON spellings: white space, any
    # character of a member name / type string written as a \\uXXXX escape — the document is the same, so is the verdict
    from vlib import jsonspell
    for k in range(0, 6):
        for sub in itertools.combinations(STD, k):
            d0 = doc(list(sub))
            cases.append(Case("td.hash " + hx(jsonspell.respell(rng, d0)), tags=("respelled", "sublist")))
            cases.append(Case("td.hash " + hx(jsonspell.respell(rng, d0, p_escape=0.5)), tags=("respelled", "sublist")))
            cases.append(Case("td.hash " + hx(jsonspell.escape_everything(d0)), tags=("respelled", "all-escaped")))
    for c in rng.sample([c for c in cases if c.tags[0] in ("repeated", "foreign", "wrong-type")], 60):
        cases.append(Case("td.hash " + hx(jsonspell.respell(rng, bytes.fromhex(c.line.split(" ")[1]).decode(), p_escape=0.4)), tags=("respelled", "refused")))
    # perturbed spellings of the right type for each field (signs / spaces / separators / zeros between name and width,
    # case, surrounding white space): whatever the member-type grammar makes of them, only a text the grammar reads as
    # exactly the standard type may be accepted (note n6 in DESIGN.md: zero-padded widths are read as the same type)
    from vlib.core import perturb
    for i, (n, t) in enumerate(STD):
        width = "".join(ch for ch in t if ch.isdigit())
        name = t[:len(t) - len(width)]
        extra = [name + sep + width for sep in ("+", "-", " ", "_", ".", "0", "+0", "x", "\u200b")] if width else []
        # names other languages / tools use for the same type (Solidity's bare `uint` = uint256, `int`, `byte` = bytes1, ABI
        # `fixed`, `address payable`, `bytes32[1]`, `str`, `String`, `text`): an alias is a different type name
        extra += [name, name + "s", {"uint": "int", "int": "uint"}.get(name, name + "1"), "uint", "int", "byte", "bytes", "fixed", "ufixed", "address payable", "payable",
                  "contract", "str", "String", "text", "char[]", "bytes32[1]", "uint256[1]", "uint256[]", "u256", "U256", "uint 256", "uint256_t", "number", "bigint", "hash", "H256"]
        for w in perturb(t) + [e for e in extra if e != t]:
            add([(a, (w if a == n else b)) for a, b in STD], "perturbed-type")
            add([(n, w)], "perturbed-type")
    # look-alike member names (a standard name padded with white space, in another case, with an invisible or full-width
    # character) with the standard type — and the domain VALUE keyed by the standard name, by the declared name, or by both
    for i, (n, t) in enumerate(STD):
        for alias in (n + " ", " " + n, n + "\n", "\t" + n, n + "\u00a0", n.upper(), n.capitalize(), n[0].upper() + n[1:], n + "\u200b", "\ufeff" + n, chr(ord(n[0]) + 0xFEE0) + n[1:], n + "_", "_" + n):
            if alias == n:
                continue
            for ctx in ([(alias, t)], [(a, b) if a != n else (alias, t) for a, b in STD]):
                std_vals = {a: VAL.get(a if a != alias else n, "v") for a, _ in ctx}
                by_std = {(n if a == alias else a): v for a, v in std_vals.items()}
                both = dict(std_vals)
                both[n] = VAL.get(n, "v")
                add(ctx, "look-alike-name", values=by_std)
                add(ctx, "look-alike-name", values=std_vals)
                add(ctx, "look-alike-name", values=both)
    # longer than five: the five standard fields (or a well-formed selection) followed / interleaved / preceded by foreign
    # or repeated members — every member is examined, however many there are
    for base in (list(STD), STD[:4], [STD[0], STD[2], STD[4]]):
        for extra in ([("extra", "string")], [("extra", "string"), ("more", "uint256")], [STD[0]], [STD[4]], [("salt2", "bytes32")] * 1, [("x%d" % i, "bool") for i in range(5)], [("x%d" % i, "bool") for i in range(40)]):
            add(base + extra, "over-long")
            add(extra + base, "over-long")
            k = rng.randrange(1, len(base))
            add(base[:k] + extra + base[k:], "over-long")
    add([], "no-domain-type", include_domain_type=False)
    add([STD[0]], "no-domain-type", include_domain_type=False)
    # every command-line route that reads typed data must apply the same check: hash typeddata, hash typeddata
    # --message-hash, sign typeddata (a sample of well-formed and ill-formed domain types, file and stdin)
    from vlib import bip39
    mn = hx(" ".join(bip39.rand_phrase(rng, 12)))
    sample = [[], [STD[1], STD[0]], [STD[0], STD[0]], [STD[0], ("foo", "string")], [(STD[2][0], "uint8")], [STD[4], STD[3]], [STD[0], STD[2], STD[1]],
              [STD[0]], [STD[0], STD[2]], list(STD), [STD[3], STD[4]]]
    for fields in sample:
        d = hx(doc(fields))
        for mh in (0, 1):
            cases.append(Case("cli.hash_td %s %d" % (d, mh), tags=("cli", "hash_td", "message-hash:%d" % mh), runner="cli", meta={"via_file": core.input_route(rng)}))
        cases.append(Case("cli.sign_td %s - default %s" % (mn, d), tags=("cli", "sign_td"), runner="cli", meta={"via": {}, "via_file": core.input_route(rng)}))
    for mh in (0, 1):
        cases.append(Case("cli.hash_td %s %d" % (hx(doc([STD[0]], include_domain_type=False)), mh), tags=("cli", "hash_td", "no-domain-type"), runner="cli", meta={"via_file": False}))
    # domain value not matching an accepted domain type
    cases.append(Case("td.hash " + hx(doc([STD[0], STD[2]], values={"name": "x"})), tags=("domain-value",)))
    cases.append(Case("td.hash " + hx(doc([STD[0]], values={"name": "x", "chainId": 1})), tags=("domain-value",)))
    cases.append(Case("td.hash " + hx(doc([STD[2]], values={"chainId": -1})), tags=("domain-value",)))
    cases.append(Case("td.hash " + hx(doc([STD[4]], values={"salt": "0x" + "11" * 31})), tags=("domain-value",)))
    return cases


def run_cli(case):
    from vlib import cli
    return cli.run_cli(case)
