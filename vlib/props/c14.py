"""C14 — HD path text."""
from vlib.core import Case, hx

ID = "C14"
NEEDS_CLI = True
RULE = ("ops path.parse / path.for_index / hdk.derive on text vs printed form: component values 0,1,2^31-1,2^31,2^32-1,2^32,2^64 "
        "and random, with/without ', depths 1..12 and 13..1000 (around 255/256), canonical and non-canonical spellings, malformed stream; "
        "a random sample of the cases is re-run through every sub-command that reaches the same code (vlib/routes.py); non-trivial = distinct text; judge = grammar of the statement (canonical must be accepted and print back, "
        "non-standard must be an error)")
EXHAUSTIVE_SWEEPS = {"quick": ["every boundary value x {hardened, normal} at depth 1 and as last of 5"],
                     "thorough": ["every boundary value x {hardened, normal} at depth 1 and as last of 5"]}

BOUNDS = [0, 1, 2, 9, 10, 44, 60, 99, 100, 2 ** 31 - 2, 2 ** 31 - 1, 2 ** 31, 2 ** 31 + 1, 2 ** 32 - 1, 2 ** 32, 2 ** 32 + 1,
          2 ** 63, 2 ** 64 - 1, 2 ** 64, 2 ** 64 + 1, 10 ** 30]


def comp(rng, good=True):
    if good:
        v = rng.choice([0, 1, 44, 60, 2 ** 31 - 1, rng.randrange(2 ** 31), rng.randrange(1000)])
    else:
        v = rng.choice(BOUNDS)
    return str(v) + ("'" if rng.random() < 0.5 else "")


def gen(rng, tier):
    cases = []
    add = lambda s, *tags: cases.append(Case("path.parse " + hx(s), tags=tags))
    for v in BOUNDS:
        for h in ("", "'"):
            add("m/%d%s" % (v, h), "boundary")
            add("m/44'/60'/0'/0/%d%s" % (v, h), "boundary")
            add("m/%d%s/1" % (v, h), "boundary")
    n = 3000 if tier == "thorough" else 600
    for _ in range(n):
        depth = rng.randint(1, 12)
        add("m/" + "/".join(comp(rng) for _ in range(depth)), "valid", "depth:%d" % depth)
    for depth in [13, 32, 64, 100, 255, 256, 257, 300, 1000]:
        cs = [comp(rng) for _ in range(depth)]
        add("m/" + "/".join(cs), "valid", "deep", "depth:%d" % depth)
        cs[rng.randrange(depth)] = comp(rng, good=False)
        add("m/" + "/".join(cs), "one-bad-component", "deep")
    for _ in range(n // 2):
        depth = rng.randint(1, 6)
        cs = [comp(rng) for _ in range(depth)]
        cs[rng.randrange(depth)] = comp(rng, good=False)
        add("m/" + "/".join(cs), "maybe-out-of-range")
    malformed = ["", "m", "m/", "/", "m//", "m/1/", "m//1", "/1", "M/1", "m/1//2", "m/-1", "m/+1", "m/+", "m/'", "m/1''", "m/'1",
                 "m/1.0", "m/1e3", "m/0x10", "m/a", "m/1a", "m/ 1", "m/1 ", " m/1", "m/1\n", "m/١", "m/１", "m/1h", "m/1H",
                 "m/007", "m/+7'", "m/00", "m/0'", "m/-0", "m/1/-2'", "m\\1", "m/1’", "n/1", "m/1/m/2", "m/4294967296'", "m/99999999999999999999",
                 "m/2147483648'", "m/2147483647'", "m/+2147483648", "m/m/0", "m/m/44'/60'/0'/0/0", "m/m/m/1'/2", "mm/0", "m/M/0", "m/m", "m/m/", "m/0/m/1", "m/m0", "mm/", "m/ m/0", "m/0000000000000000000000000000001", "44'/60'/0'/0/0", "m/44h/60h"]
    for s in malformed:
        add(s, "malformed")
    from vlib.core import perturb
    for t in ("m/44'/60'/0'/0/0", "m/0", "m/2147483647'/1"):
        for v in perturb(t, "m/"):
            add(v, "perturbed")
    for _ in range(n // 3):
        depth = rng.randint(1, 5)
        s = bytearray(("m/" + "/".join(comp(rng) for _ in range(depth))).encode())
        i = rng.randrange(len(s))
        r = rng.random()
        if r < 0.4:
            s[i] = rng.choice(b"/'+-.mM 0a\t")
        elif r < 0.7:
            s.insert(i, rng.choice(b"/'+-.m 09"))
        else:
            del s[i]
        add(bytes(s).decode("utf-8", "replace"), "mutated")
    for v in BOUNDS + [rng.randrange(2 ** 31) for _ in range(50)] + [7, 2 ** 31 - 1, 2 ** 31 - 2]:
        if v < 2 ** 64:
            cases.append(Case("path.for_index %d" % v, tags=("for_index",)))
    # derivation agrees between a text and its printed form (and never aliases)
    seed = "000102030405060708090a0b0c0d0e0f"
    for s in []:
        cases.append(Case("hdk.derive %s %s" % (seed, hx(s)), tags=("derive",)))
    from vlib import routes
    cases += routes.add_routes(cases, rng, 80, tier)
    # the deep valid paths (13..1000 components) through --hd-path / HD_PATH too: accepted means a key comes out
    cases += routes.add_routes([c for c in cases if "deep" in c.tags and "valid" in c.tags], rng, 10 ** 6, "quick")
    # look-alike characters that a Unicode compatibility folding turns into path syntax: full-width digits / slash / apostrophe / m,
    # superscript and subscript digits, circled and parenthesised numbers, Arabic-Indic digits, primes and modifier apostrophes
    LOOK = ["m/44'/60'/0'/0/\u2460", "m/44'/60'/0'/0/\uff11", "m/44'/60'/0'/0/\u00b9", "m/4\u2074'/60'/0'/0/0", "m/44'/60'/0'/0/\u2469", "\uff4d/0", "m\uff0f0", "m/0\uff07", "m/0\u2019",
            "m/0\u02bc", "m/0\u2032", "m/\u0660", "m/\u0967", "m/\u2080", "m/\u2474", "m/\u24ea", "m/1\u20e3", "\u217f/0", "m/\u2160", "m/0\u00b4", "m/\uff10\uff07/\uff11"]
    for t in LOOK:
        add(t, "look-alike")
    look_cases = [c for c in cases if "look-alike" in c.tags]
    # one character of valid paths replaced by a sign / separator / point / x / NUL / blank at every position
    from vlib.core import substitute
    for t in ("m/44'/60'/0'/0/17", "m/0", "m/2147483647'/1"):
        for v in substitute(t, 0, "+-_.,xX~\x00 '/mM"):
            add(v, "substituted")
    from vlib.core import substitute_lookalikes
    for t in ("m/44'/60'/0'/0/17", "m/9", "m/2147483647'/1"):
        for v in substitute_lookalikes(t, 2, 4):
            if "\x00" not in v:
                add(v, "substituted", "digit-lookalike")
    look_cases += [c for c in cases if "digit-lookalike" in c.tags]
    cases += routes.add_routes(look_cases, rng, 10 ** 6, "quick")
    # every boundary account index through the command line too (flag or environment)
    bset = set(BOUNDS) | {7, 2 ** 31 - 1, 2 ** 31 - 2}
    cases += routes.add_routes([c for c in cases if c.line.startswith("path.for_index ") and int(c.line.split(" ")[1]) in bset], rng, 10 ** 6, "quick")
    return cases


def shrink_candidates(line):
    op, *args = line.split(" ")
    if op != "path.parse" or args[0] == "-":
        return
    s = bytes.fromhex(args[0]).decode("utf-8", "replace")
    for i in range(len(s)):
        yield "path.parse " + hx(s[:i] + s[i + 1:])


def run_cli(case):
    from vlib import cli
    return cli.run_cli(case)
