"""Command-line routes for library-level cases: every property whose op calls the library directly also
re-runs a sample of its cases through each sub-command that reaches the same code (the model covers both;
a check that is dropped, added or altered on one route only shows up here)."""
from vlib.core import Case, hx
from vlib import core
from vlib import bip39, cli

FIXED_TX = '{"nonce":7,"gasPrice":"0x3b9aca00","gas":21000,"to":"0x000000000000000000000000000000000000dEaD","value":"1000000000000000000","data":"0x","chainId":1}'


def _argv_safe(h):
    if h == "-":
        return True
    b = bytes.fromhex(h)
    return b"\x00" not in b and len(b) < 100000


def add_routes(cases, rng, k, tier):
    """append CLI-route cases for a random sample of k library cases"""
    mn = hx(" ".join(bip39.rand_phrase(rng, 12)))
    def floaty(c):
        # documents carrying a float-syntax literal are the known-finding class (float-literal-rounding); they are
        # judged where the injected token is known (library op) and not re-routed
        t = str(c.meta.get("token") or "")
        return "float-rounding" in c.tags or (t[:1] in "-0123456789" and ("." in t or "e" in t.lower()))
    pool = [c for c in cases if c.runner == "harness" and not floaty(c) and c.line.split(" ")[0] in ("td.hash", "tx.parse", "mn.parse", "mn.seed", "path.parse", "path.for_index", "sig.parse")]
    if tier == "thorough":
        k *= 4
    out = []
    for c in (rng.sample(pool, k) if len(pool) > k else pool):
        op, *args = c.line.split(" ")
        tags = ("route",) + tuple(c.tags[:1])
        vf = {"via_file": core.input_route(rng), "via": {"mnemonic": rng.choice(["flag", "env"])}}
        if op == "td.hash":
            out.append(Case("cli.hash_td %s 0" % args[0], tags=tags + ("hash_td",), runner="cli", meta=dict(vf)))
            out.append(Case("cli.hash_td %s 1" % args[0], tags=tags + ("hash_td-m",), runner="cli", meta=dict(vf)))
            out.append(Case("cli.sign_td %s - default %s" % (mn, args[0]), tags=tags + ("sign_td",), runner="cli", meta=dict(vf)))
        elif op == "tx.parse":
            out.append(Case("cli.hash_tx %s none" % args[0], tags=tags + ("hash_tx",), runner="cli", meta=dict(vf)))
            out.append(Case("cli.sign_tx %s - default %s 0 1" % (mn, args[0]), tags=tags + ("sign_tx",), runner="cli", meta=dict(vf)))
            out.append(Case("cli.sign_tx %s - default %s 1 0" % (mn, args[0]), tags=tags + ("sign_tx-sigonly",), runner="cli", meta=dict(vf)))
        elif op == "mn.parse" and _argv_safe(args[0]):
            out.append(Case("cli.address %s - default" % args[0], tags=tags + ("address",), runner="cli", meta=dict(vf)))
        elif op == "mn.seed" and _argv_safe(args[0]) and _argv_safe(args[1] or "-"):
            # the wallet the commands build from (mnemonic, passphrase): the seed is not printed, the key derived from it is
            sel = rng.choice(["default", "path:" + hx("m/0'"), "idx:" + hx("3")])
            out.append(Case("cli.export %s %s %s" % (args[0], args[1] or "-", sel), tags=tags + ("export-password",), runner="cli",
                            meta={"via": {"mnemonic": rng.choice(["flag", "env"]), "password": rng.choice(["flag", "env"])}}))
        elif op == "path.parse" and _argv_safe(args[0]):
            out.append(Case("cli.address %s - path:%s" % (mn, args[0]), tags=tags + ("address-path",), runner="cli", meta={"via": {"mnemonic": "env", "path": rng.choice(["flag", "env"])}}))
        elif op == "path.for_index":
            # the default path of an account index, through --account-index / ACCOUNT_INDEX (decimal text)
            for cmd in ("cli.address", "cli.export"):
                out.append(Case("%s %s - idx:%s" % (cmd, mn, hx(args[0])), tags=tags + ("account-index",), runner="cli", meta={"via": {"mnemonic": "env", "index": rng.choice(["flag", "env"])}}))
        elif op == "sig.parse" and _argv_safe(args[0]):
            out.append(Case("cli.hash_tx %s %s" % (hx(FIXED_TX), args[0]), tags=tags + ("hash_tx-signature",), runner="cli", meta={"via_file": False}))
    return out


run_cli = cli.run_cli
