"""Per-property claim texts for MANIFEST.json (regenerate with tools_gen_manifest.py)."""

COMMON_NOTE = ("Trusted: Lean kernel; axioms propext/Classical.choice/Quot.sound only (audited per run); "
               "the hand-written model is tied to the code by differential testing only (generators bound what it sees); "
               "hash functions and the curve are uninterpreted parameters of the theorems; dependencies modelled at contract level.")

CLAIMED = {
    "C10": {
        "text": "Theorems for all byte strings: the digest is Keccak-256 of 0x19‖\"Ethereum Signed Message:\\n\"‖decimal(len)‖m (digest_spec), the length field is the unique canonical decimal numeral (length_field_canonical), and the pre-image is injective in the message (preimage_injective). The model is tied to src/message.rs by running both on every length 0..300 (thorough 0..1100), powers of ten ±1 up to 10^6, all single bytes and non-UTF-8 content, and an independent spec predicate re-computes each digest.",
        "note": COMMON_NOTE,
        "technique": "Lean 4 theorems over a hand-written model + differential correspondence check",
    },
}

NOT_YET = {}
