"""Per-property claim texts for MANIFEST.json (regenerate with tools_gen_manifest.py)."""

COMMON_NOTE = ("Trusted: Lean kernel; axioms propext/Classical.choice/Quot.sound only (audited per run); "
               "the hand-written model is tied to the code by differential testing only (generators bound what it sees); "
               "hash functions and the curve are uninterpreted parameters of the theorems; dependencies modelled at contract level. "
               "The input families of each run are listed in the evidence file (coverage.rule, coverage.distribution); every in-process line is also "
               "re-run by a second process in reversed order and must give the same answer (history independence).")

CLAIMED = {
    "C10": {
        "text": "Theorems for all byte strings: the digest is Keccak-256 of 0x19‖\"Ethereum Signed Message:\\n\"‖decimal(len)‖m (digest_spec), the length field is the unique canonical decimal numeral (length_field_canonical), and the pre-image is injective in the message (preimage_injective). The model is tied to src/message.rs by running both on every length 0..300 (thorough 0..1100), powers of ten ±1 up to 10^6, all single bytes and non-UTF-8 content, and an independent spec predicate re-computes each digest.",
        "note": COMMON_NOTE,
        "technique": "Lean 4 theorems over a hand-written model + differential correspondence check",
    },
}

CLAIMED["C14"] = {
    "text": "Theorems for all strings and all paths: printing then parsing is the identity on every non-empty path with indices < 2^31 (print_parse), everything accepted has only such indices (accepted_standard) and re-parses from its printed form (parse_print_parse, canonical_form); missing root, empty/non-numeric/signed/fractional components and indices >= 2^31 are errors, never panics (rejects_*, component_rejects, parse_no_panic); the default path for index i is m/44'/60'/0'/0/i for all i < 2^31 and an error above (for_index). Tied to src/hdk/path.rs by running parser, printer and for_index on boundary values (2^31, 2^32, 2^64 +-1), depths 1..12, and a malformed/mutated stream; an independent grammar judge decides each response.",
    "note": COMMON_NOTE + " u32::from_str modelled at contract level (optional '+', digits, overflow is an error).",
    "technique": "Lean 4 theorems over a hand-written model + differential correspondence check",
}

CLAIMED["C07"] = {
    "text": "Theorems for all RLP items with payloads < 2^64 bytes: a strict Yellow-Paper decoder (rejecting non-minimal lengths, wrapped single bytes < 0x80, leading-zero lengths) inverts the encoder with the rest left untouched (decode_encode, decodeAll_encode), the encoder is injective (encode_injective), and the decoder accepts nothing but canonical encodings (decode_canonical); the code-shaped len/bytes/uint/list functions equal the spec encoder, never overflow their u8 arithmetic, integers have no leading zero and zero is 0x80 (model_*_spec). Tied to src/transaction/rlp.rs through the verif-hooks re-exports: every length header 0..3000 (thorough 0..70000) and around 2^8..2^64, all single bytes, every string length 0..300 (0..1100), 64 KiB / 16 MiB strings, every integer byte width, random lists; each output is strictly decoded by the spec decoder.",
    "note": COMMON_NOTE + " `to_be_bytes()[leading_zeros/8..]` is modelled as the minimal big-endian representation (validated for every byte width by the correspondence).",
    "technique": "Lean 4 theorems over a hand-written model + differential correspondence check",
}

CLAIMED["C19"] = {
    "text": "Theorems for all byte strings / all input texts: hex decode (hex encode b) = b (decode_encode); the encode output is 0x + two lower-case digits per byte + newline (encode_format); every layout of the digits (either case, optional 0x, White_Space anywhere) decodes to the same bytes (decode_layout_indep); odd digit counts and non-hex characters are errors with no output, never panics (decode_rejects, decode_no_panic); whatever decodes is what the digits spell (decode_sound). Tied to src/cmd/hex.rs + permissive_hex by running the real binary (stdin, file and default argument) on all 256 bytes, lengths 0..4096, layouts and malformed inputs, each judged by an independent grammar.",
    "note": COMMON_NOTE + " clap argument handling and stdin/file reading are contract-level (the binary is run as a subprocess).",
    "technique": "Lean 4 theorems over a hand-written model + differential correspondence check against the real binary",
}
CLAIMED["C15"] = {
    "text": "Theorems for all signatures with scalars in [1,n-1] and all texts: the printed form is 0x + 64 hex of r + 64 of s + 2 of v=27+parity (print_format); parsing it, with or without 0x, returns the same signature (parse_print, parse_print_no_prefix); whatever parses is a well-formed signature spelt by exactly 130 hex digits (parse_sound); wrong length, non-hex, v outside {27,28}, zero or >= n scalars are errors, never panics (parse_rejects, parse_no_panic). Tied to src/account/signature.rs by printing/parsing random and boundary signatures, every length 0..140, all 256 v bytes and mutated texts; the sign --signature-only | hash --signature pipeline is run against the real binary in the C16 check.",
    "note": COMMON_NOTE + " ecdsa::Signature::from_scalars modelled at contract level (both scalars in [1, n-1]).",
    "technique": "Lean 4 theorems over a hand-written model + differential correspondence check",
}

CLAIMED["C05"] = {
    "text": "Theorems over an abstract prime-order curve (LawfulCurve: ZMod n-module generated by G, negation keeps x and flips y parity, decompression finds a point from x and parity): every produced signature has 1<=r<n, 1<=s<=n/2 (sign_range, no curve laws needed), verifies against d*G (sign_verifies), recovers exactly d*G from (z,r,s,parity) when x(kG)<n (sign_recovers_partial), the nonce is in [1,n-1] (trySign_nonce) and for digests below n equals the RFC 6979 HMAC-SHA256 nonce (nonce_rfc6979; bits2octets_differs shows why the bound is there). LawfulCurve is then DISCHARGED for the real secp256k1 group (Props/SecpInstance: y^2=x^3+7 over ZMod p with Mathlib's proved Weierstrass group law, the subgroup generated by the standard base point, order n obtained by running a verified affine double-and-add in the kernel; n and p prime by Pratt certificates in Props/SecpPrime), giving secp_sign_verifies / secp_sign_recovers_partial / secp_sign_range with no curve hypothesis. Tied to src/account.rs by signing boundary and random (key, digest) pairs twice in-process, comparing with the model's independent RFC 6979/secp256k1 implementation, and judging every signature by independent ECDSA verify + recovery.",
    "note": COMMON_NOTE + " The general theorems take LawfulCurve as a hypothesis; it is proved for the real secp256k1 group (secp_lawful), and what stays outside any theorem is that k256 and the driver's fast Jacobian arithmetic agree with the verified affine arithmetic beyond the sampled scalars (op secp.affine in C04). sign_recovers is PARTIAL (needs x(kG) < n, probability of failure 2^-128, not exhibitable).",
    "technique": "Lean 4 theorems (Mathlib ZMod) over a hand-written model + differential correspondence check",
}

CLAIMED["C01"] = {
    "text": "Theorems for all strings, all hash functions and all entropies: a phrase is accepted iff its whitespace-separated words form a valid BIP-39 sentence of 12/15/18/21/24 list words with matching checksum (accept_iff); everything else is an ordinary error, never a panic (reject_is_err, bad_count_rejected); the stored entropy is the unique one BIP-39 assigns (entropy_spec, entropy_unique); the printed form is the words joined by single spaces and the length is the word count (print_spec); parse and print are mutually inverse for every entropy of the five sizes (parse_print); only words matter, not layout (layout_indep). The word table is REGENERATED from /repo's english.txt on every run and the kernel re-checks 2048 entries, strict byte order (binary_search's precondition) and lower-case ASCII (table_facts), from which lookup/index inversion follows (search_spec, word_spec). The model is tied to src/mnemonic.rs by word counts 0..40, every word of the list, all 2048 final-word candidates, entropy round trips with injected entropy, layouts and malformed input, each judged by an executable Spec.Bip39.Valid.",
    "note": COMMON_NOTE + " 64-bit usize; slice::binary_search at contract level (its precondition is proved for the regenerated table); wasm32 out of scope.",
    "technique": "Lean 4 theorems over a hand-written model + word table regenerated from source + differential correspondence check",
}

CLAIMED["C03"] = {
    "text": "Theorems for all seeds, all paths with indices < 2^31, all hash functions with 64-byte SHA-512 output and all curves with order <= 2^256: the code's derivation equals BIP-32 CKDpriv along the path, made strict at the single point where the code is stricter than the standard (parse256(I_L) = 0 is refused, probability 2^-256) (derive_eq_strict), hence it yields exactly the BIP-32 key or an ordinary error, never a different key and never a panic (derive_spec, strict_sound); the OR-ed hardened bit is the BIP-32 child number (hardened_bit). Tied to src/hdk.rs by deriving BIP-32 test vectors 1 and 2 and random seeds/paths (depth 1..10, index extremes, mixed hardened/normal) and judging every result by an independent CKDpriv with its own HMAC-SHA512 and secp256k1.",
    "note": COMMON_NOTE + " SecretKey::from_slice / ScalarPrimitive addition at contract level.",
    "technique": "Lean 4 theorems over a hand-written model + differential correspondence check",
}
CLAIMED["C04"] = {
    "text": "Theorems for all byte strings and all curves: a 32-byte secret is accepted iff it is in [1,n-1] and then is that integer (new_accepts_iff, new_rejects_out_of_range); any other length is rejected or read as the same big-endian integer, never a panic (new_other_lengths); the exported secret re-imports to the same key (secret_roundtrip); the public key is 0x04||X||Y of d*G, 65 bytes (pubkey_spec); the address is the last 20 bytes of Keccak-256 of the 64 coordinate bytes (address_spec); the display is EIP-55: each hex digit upper-cased exactly when the matching nibble of keccak256(lower-case hex) is >= 8, and it still spells the address (eip55_spec, eip55_decodes). Tied to src/account.rs by boundary scalars (1,2,n-2,n-1,0,n,n+1,2^256-1), random scalars and every length 0..64, judged by independent secp256k1/Keccak/EIP-55. \"d*G\" is given its real meaning by Props/SecpInstance: the affine arithmetic addA/mulA is proved to be the group law of secp256k1 (addA_sound, mulA_sound over Mathlib's Weierstrass group; mulG_exec, mulG_coords: the coordinates of k*G in the lawful instance are what mulA computes; mulG_two: kernel-evaluated standard vector), and op secp.affine compares the code's public key with that verified arithmetic on boundary, power-of-two and random scalars on every run.",
    "note": COMMON_NOTE + " The verified affine arithmetic is sampled against k256 and against the driver's fast Jacobian code, not proved equal to them.",
    "technique": "Lean 4 theorems (Mathlib elliptic-curve group law for the concrete instance) over a hand-written model + differential correspondence check",
}

CLAIMED["C06"] = {
    "text": "Theorems for all well-formed transactions (256-bit numbers, 20-byte addresses, 32-byte keys, calldata < 2^32 bytes) and all signatures: the emitted bytes are exactly [type byte ||] rlp([fields..., v|yParity, r, s]) per EIP-155/2930/1559 (encode_spec), the signed digest is Keccak-256 of the same payload without signature, with (chainId,0,0) for legacy with chain id (signing_spec), an independent strict decoder recovers every field and the signature triple unchanged from both payloads (decode_signed, decode_signing), distinct transactions never share a signing payload (signing_payload_injective), the kind is chosen by the three-way key rule (kind_dispatch), absent/null recipient is the empty string (recipient_absent), and every accepted document yields in-range fields (ofJson_ranges). Recovery of the signer from the decoded signature is C05. Tied to src/transaction*.rs by signing random and boundary documents (calldata 0..120 exhaustively, access-list shapes across 55/56 and 255/256, all kinds, both parities) and judging the real output with the independent decoder + ECDSA verify/recover.",
    "note": COMMON_NOTE + " calldata / access-list size bounds (< 2^32 bytes) are hypotheses of encode_spec.",
    "technique": "Lean 4 theorems over a hand-written model + differential correspondence check",
}
CLAIMED["C08"] = {
    "text": "Theorems for all type graphs (any number of types, member order, shared/repeated/recursive references): the code's work-list type string is exactly EIP-712 encodeType — primary definition, then every transitively referenced struct type except the primary, once each, in name order (encodeType_spec, isEncodeType_unique, strLt_strict_total), it never runs out of fuel and fails exactly when a needed type is undefined (encodeType_total), and equals the executable closure-based spec (spec_encodeType_eq); the member type grammar prints and re-parses every well-formed kind and recognises all 100 atomic names (kind_print_parse, atoms_parse); accepted values are encoded exactly as EIP-712 encodeData/hashStruct and the three digests are the EIP's (C09.encode_sound, structHash_sound, compute_sound; PARTIAL: number literals restricted to exact integer literals, see C09). Tied to src/typeddata.rs by random type graphs with type-directed values, every member-order permutation of dependency-bearing structs, recursive and deeply nested documents, all atomic type strings (hooks td.encode_type / td.kind), judged by the executable EIP-712 spec.",
    "note": COMMON_NOTE + " serde derive / HashMap semantics at contract level.",
    "technique": "Lean 4 theorems over a hand-written model + differential correspondence check",
}
CLAIMED["C09"] = {
    "text": "Theorems: whatever the code accepts for a member is a value of the declared type in the statement's sense (exact mathematical value of the spelling) and is encoded per EIP-712 (encode_sound, structHash_sound, compute_sound), with the individual refusals as corollaries: uintN in [0,2^N) (uint_range), intN in [-2^(N-1),2^(N-1)) sign-extended (int_range), bytesN exactly N bytes left-aligned (bytesN_exact), fixed arrays exactly that many elements (fixed_array_size), objects with exactly the declared members (struct_members_exact), undefined types refused (undefined_type_refused), never a panic for strings below 2^33 chars (compute_no_panic_partial; bytesN_truncation_panics shows the excluded 4 GiB case is real). PARTIAL: number literals must be integer-syntax within i64/u64 — float-syntax literals are rounded by serde_json first (known finding float-literal-rounding, kernel-checked witnesses in C13). Tied to src/typeddata.rs by injecting one violation into accepted documents: every width x six range boundaries x every spelling, bytesN lengths N+-1, array sizes +-1, missing/extra members, undefined types, wrong JSON kinds.",
    "note": COMMON_NOTE + " Known finding float-literal-rounding is reported as KNOWN-FINDING, not as a violation.",
    "technique": "Lean 4 theorems over a hand-written model + differential correspondence check",
}
CLAIMED["C11"] = {
    "text": "Theorems: v = 35+2c+yParity exactly as an integer whenever it fits 256 bits, 27/28 without chain id, and a (checked-build) panic exactly otherwise — never a wrap (v_exact, flag_v); every chain id that deserialisation accepts fits for both parities and the bound is tight (accepted_chain_fits, bound_tight; with C06.ofJson_ranges: no accepted transaction can overflow v); the sign command refuses a legacy transaction without chain id unless the flag is given, for every key/output mode (guard); the chain id is bound into the signing payload (chain_in_preimage), changing only the chain id changes the payload (preimage_injective_in_chain) and v determines the chain id (v_determines_chain). Tied to src/cmd/sign.rs + signature.rs + legacy.rs by running the real binary over kinds x chain-id classes (absent, null, 0, 1, 2^64-1, 2^255-20..2^255-18, 2^255, 2^256-1) x flag x output mode, judged by strict decoding, integer v, and verify/recover over the EIP-155/2718 payload.",
    "note": COMMON_NOTE + " 'never validates under another chain' beyond payload injectivity rests on Keccak collision resistance (outside any theorem).",
    "technique": "Lean 4 theorems over a hand-written model + differential correspondence check against the real binary",
}
CLAIMED["C20"] = {
    "text": "Theorems for arbitrary member lists (also foreign names and kinds): the ordered scan accepts exactly the sub-sequences of an allowed list with distinct names (scan_iff, scan_sound; scan_iff_counterexample shows distinctness is needed), hence the domain type is accepted iff it is declared and is a non-empty selection of the five standard fields in order with exactly the standard types (domain_accept_iff), everything else is an error (domain_refused, missing_domain_refused), exactly 31 domain types are accepted (domain_count), and refusal happens before anything is hashed (refused_before_hash). Tied to src/typeddata.rs by all 326 duplicate-free orderings of subsets, repeated fields, foreign names at every position, every field x wrong types, missing domain type; accepted ones are hashed and judged by the EIP-712 spec.",
    "note": COMMON_NOTE,
    "technique": "Lean 4 theorems over a hand-written model + differential correspondence check",
}

CLAIMED["C13"] = {
    "text": "Theorems: a non-negative integer literal up to u64::MAX is accepted with exactly its value (int_literal_exact); negative literals are rejected, never wrapped (negative_literal_rejected; -0 is 0); a string is accepted iff it spells (optional +, 0b/0o/0x or decimal digits) an integer below 2^256, with exactly that value, and never with a leading - (string_exact, decimal_string_accepted, hex_string_accepted, malformed_strings_rejected); other JSON kinds are rejected, results are below 2^256 and the deserialiser never panics (wrong_kind_rejected, uint_range_no_panic, parse_no_panic); byte fields need 0x + even hex, addresses exactly 20 bytes, storage keys exactly 32 (bytes_field, address_field, storage_key_field). PARTIAL for float-syntax literals: serde_json rounds them to binary64 first; the kernel-checked witnesses float_rounding_cex1..3 (1.0000000000000001 -> 1, 1e-400 -> 0, 9007199254740991.0 -> 9007199254740990) are the KNOWN FINDING float-literal-rounding, reported as KNOWN-FINDING and not repaired (needs serde_json arbitrary_precision + exact decimal parsing; refusing floats would break the pinned 13.37e9 test). The binary64 / serde_json number model is cross-checked against serde_json on thousands of literals per run (op json.f64); every numeric field x spelling x boundary value and a malformed stream are judged by exact rational arithmetic.",
    "note": COMMON_NOTE + " serde_json number parsing is modelled (software binary64) and cross-tested, not proved.",
    "technique": "Lean 4 theorems over a hand-written model + differential correspondence check; known finding recorded",
}

CLAIMED["C16"] = {
    "text": "Theorems pinning the composition of every command, for every input: --account-index i selects m/44'/60'/0'/0/i for all i < 2^31 (default 0), --hd-path the parsed path, both together or a bad index are errors (selected_path_index, selected_path_path, selectors_conflict); the key is derive(seed(mnemonic,password), selected path) (private_key_spec); address/export/public-key print the EIP-55 address, 0x secret and 0x uncompressed key of exactly that key (address_cmd) and nothing when no key can be selected (no_key_no_output); hash data / message / typeddata [--message-hash] print the respective digests (hash_cmds, hash_typeddata_cmd); each sign subcommand prints the signature by the selected key over exactly the digest the matching hash subcommand prints (sign_message/_typeddata/_tx_is_sign_of_hash, sign_raw_cmd); sign --signature-only | hash --signature = keccak of the full signed bytes (pipeline). What the components compute is C02-C10/C14/C15. Tied to src/cmd*.rs by running the real binary: every sub-command x selector kinds x flag/environment x file/stdin, non-ASCII passphrases, bad selectors; extra checks: flag == env on the same case, the C15 pipeline end to end.",
    "note": COMMON_NOTE + " clap's tokenisation, env lookup and conflicts_with are contract-level (vlib/cli.py maps structured ops to argv/env).",
    "technique": "Lean 4 theorems over a hand-written model + differential correspondence check against the real binary",
}

CLAIMED["C02"] = {
    "text": "Theorems for all mnemonics, all passphrases and any Unicode table in which ASCII is stable: the seed is PBKDF2-HMAC-SHA512, 2048 iterations, 64 bytes, password = printed phrase, salt = \"mnemonic\" || NFKD(passphrase) although the code normalises the concatenation (seed_spec, nfkd_ascii_prefix, nfkd_ascii); for a parsed phrase the password is the canonical single-space sentence (seed_of_parsed); the seed depends only on the words (seed_layout_indep) and on the normalised passphrase (seed_nfkd_equiv); 64 bytes (seed_len). Tied to src/mnemonic.rs by all five phrase lengths, layout variants and passphrases with precomposed/decomposed, full-width, ligature, Hangul, mis-ordered combining marks and astral characters (restricted to code points assigned in Unicode 14.0), NFC/NFD/NFKC/NFKD-equivalent forms must give equal seeds, the repo's four vectors; judged by an independent PBKDF2 with python-unicodedata's NFKD table.",
    "note": COMMON_NOTE + " NFKD table: python unicodedata 14.0 vs the crate's Unicode 16.0 (equal on code points assigned in 14.0 by the stability policy).",
    "technique": "Lean 4 theorems over a hand-written model + differential correspondence check",
}
CLAIMED["C12"] = {
    "text": "Theorems over an entropy oracle (oracle k = what the OS returns for a request of k bytes): a supported length L yields exactly the mnemonic whose entropy is the 4L/3 bytes returned, of L words, valid, and parsed back to the same mnemonic (random_entropy_exact); generation depends on the source only through that single request (random_single_request) and is injective in the entropy (random_injective); source failure is an error (random_fail) and unsupported lengths are refused whatever the source does (random_unsupported); `new -n L` prints the phrase and a newline or nothing (new_cmd, new_cmd_fail). PARTIAL by nature: that the OS source is secure randomness is outside any model. Tied to src/rand.rs + mnemonic.rs + cmd/new.rs by injecting entropy in-process (the harness binary defines getentropy) and into the real binary (LD_PRELOAD shim): all lengths 0..40, walking-bit and random patterns, short reads, failures at the first and later requests of a vanity search, request log = exactly one request of 4L/3 bytes, un-interposed invocations pairwise distinct and parsed back.",
    "note": COMMON_NOTE + " libc symbol interposition (in-process definition / LD_PRELOAD) is the injection mechanism; no source hook.",
    "technique": "Lean 4 theorems over an oracle-parameterised model + differential correspondence check with fault injection",
}
CLAIMED["C18"] = {
    "text": "Theorems: the prefix parser accepts exactly 0x + hex digits of either case and reads them case-insensitively into whole bytes plus an optional trailing nibble (prefix_parse_spec), anything else is an error, never a panic (prefix_refused); matching means the lower-case hex of the address starts with the lower-cased digits (matches_iff); whatever the sequential search prints is one of the drawn mnemonics, of the requested length, whose selected account matches (vanity_result); every worker's result has the property, so whichever arrives first does (vanity_any_worker); entropy failure ends the search with an error (vanity_entropy_failure). PARTIAL: real thread interleavings are sampled, not enumerated. Tied to src/cmd/new.rs by (a) single-threaded searches under the entropy shim compared with the model (all 16 digits x both cases, 2-digit prefixes, selectors, lengths) and (b) multi-threaded searches with real entropy (-j 1,2,16,default; 1..3-digit prefixes) whose printed phrase is fed to `address` with the same selector.",
    "note": COMMON_NOTE + " std::thread / mpsc at contract level.",
    "technique": "Lean 4 theorems over a hand-written model + differential correspondence check against the real binary (sampled schedules)",
}

CLAIMED["C17"] = {
    "text": "The model represents every place where the Rust code can panic (unwrap, index, slice copy, checked arithmetic, debug assertion) as an explicit panic outcome and is a total function; theorems show that outcome unreachable from every user-reachable entry point, for all inputs: mnemonic phrases (mnemonic_no_panic, print_no_panic), HD paths and account selectors (path_no_panic, selector_no_panic), signatures and digests (signature_no_panic, digest_no_panic), transaction JSON and encoding of everything accepted incl. chain ids up to 2^256-1 (tx_parse_no_panic, tx_encode_no_panic, hash_tx_no_panic), typed data and type strings (typeddata_no_panic_partial, encode_type_no_panic), hex input, vanity prefixes, generation lengths (hex_no_panic, prefix_no_panic, random_no_panic, new_no_panic), key selection and the account commands (private_key_no_panic, account_cmds_no_panic), signing (sign_no_panic_partial). PARTIAL: typed-data strings < 2^33 chars; RFC 6979 loop assumed to find a nonce within the modelled retries; panics inside dependencies on unmodelled paths are reached only by the mutation stream. Tied to the code in-process (catch_unwind) and through the real binary (exit 101 / signal / time-out) on the malformed and boundary streams of all other properties, byte-level mutations of valid JSON, nesting 126..129, 64 array suffixes, -j 0..64 (hang detection), lengths 0..40.",
    "note": COMMON_NOTE + " Environment faults (closed stdout, allocation failure) are excluded.",
    "technique": "Lean 4 theorems over a hand-written model with explicit panic outcomes + differential correspondence check (in-process and real binary)",
}

NOT_YET = {}

# --- source tie (second translator, DESIGN §13.6): literal constants regenerated from /repo's sources on every run -------
SOURCE_TIE = {
    "C01": "the accepted word counts (SourceTie.mnemonic_lengths)",
    "C12": "the accepted word counts (SourceTie.mnemonic_lengths)",
    "C02": "the PBKDF2 round count and the salt prefix text (SourceTie.seed_rounds)",
    "C03": "the hardened bit and the master HMAC key (SourceTie.hardened_bit, master_key)",
    "C14": "the default path text of Path::for_index (SourceTie.default_path)",
    "C16": "the default path text of Path::for_index and the default account index (SourceTie.default_path, default_account_index)",
    "C04": "the two slice offsets of the address computation, SEC1 tag byte and first 12 digest bytes (SourceTie.address_slices)",
    "C07": "the RLP short-form limit, long-form bias, string/list offsets and single-byte limit (SourceTie.rlp_short, rlp_long, rlp_list_offset, rlp_bytes_consts)",
    "C11": "the v offsets 27 and 35 and the factor 2 (SourceTie.sig_v_legacy, sig_v_eip155)",
    "C15": "the two accepted v bytes of the signature parser (SourceTie.sig_parse_v)",
    "C06": "the transaction type bytes (SourceTie.tx_type_2930, tx_type_1559)",
    "C10": "the message prefix bytes (SourceTie.msg_prefix)",
    "C08": "the 0x19 0x01 prefix, the domain type name and the bytesN/uintN/intN width guards (SourceTie.td_prefix, kind_*_range)",
    "C20": "the DOMAIN_MEMBERS table, names, kinds and order (SourceTie.domain_members)",
}
for _pid, _what in SOURCE_TIE.items():
    CLAIMED[_pid]["text"] += (" Source tie: " + _what + " are REGENERATED from /repo's Rust sources on every run (vlib/srctie.py -> Gen/SourceConsts.lean) "
                              "and the theorem states that the model function mirroring that site behaves as the code does with exactly the extracted values, so a "
                              "changed constant breaks a proof obligation even where no generated input reaches it; a pattern that is no longer found leaves the theorem "
                              "vacuous and is listed in the evidence (coverage.source_tie.patterns_not_found).")
    if "regenerated" not in CLAIMED[_pid]["technique"]:
        CLAIMED[_pid]["technique"] = CLAIMED[_pid]["technique"].replace(
            "over a hand-written model", "over a hand-written model + source constants regenerated from the Rust sources into Lean on every run", 1)

# --- the driver's fast secp256k1 arithmetic is proved (DESIGN §13.7) -------------------------------------------------------
for _pid in ("C04", "C05"):
    CLAIMED[_pid]["text"] += (" The fast Jacobian secp256k1 code the compiled driver runs (Prim/Secp256k1.lean) is itself proved to compute the group law of "
                              "y^2 = x^3 + 7 over ZMod p in Mathlib's WeierstrassCurve.Affine.Point, all special cases included, and to agree with secpCurve.mulG of the "
                              "instantiated theorems for every scalar (Props/SecpJac.lean: jac_double_sound, jac_add_sound, jac_mul_sound, secp_mul_sound, secp_add_sound, "
                              "secp_mulG_eq_mulA, secp_mulG_exec), so on the Lean side only k256 itself remains cross-tested.")
