"""Per-property claim texts for MANIFEST.json (regenerate with tools_gen_manifest.py)."""

COMMON_NOTE = ("Trusted: Lean kernel; axioms propext/Classical.choice/Quot.sound only (audited per run); "
               "the hand-written model is tied to the code by differential testing only (generators bound what it sees); "
               "hash functions and the curve are uninterpreted parameters of the theorems; dependencies modelled at contract level.")

CLAIMED = {
    "C10": {
        "text": "Theorems for all byte strings: the digest is Keccak-256 of 0x19‖\"Ethereum Signed Message:\\n\"‖decimal(len)‖m (digest_spec), the length field is the unique canonical decimal numeral (length_field_canonical), and the pre-image is injective in the message (preimage_injective). The model is tied to src/message.rs by running both on every length 0..300 (thorough 0..1100), powers of ten ±1 up to 10^6, all single bytes and non-UTF-8 content, and an independent spec predicate re-computes each digest.",
        "note": COMMON_NOTE,
        "technique": "Lean 4 theorems over a hand-written model + differential correspondence check",
    },
}

CLAIMED["C14"] = {
    "text": "Theorems for all strings and all paths: printing then parsing is the identity on every non-empty path with indices < 2^31 (print_parse), everything accepted has only such indices (accepted_standard) and re-parses from its printed form (parse_print_parse, canonical_form); missing root, empty/non-numeric/signed/fractional components and indices >= 2^31 are errors, never panics (rejects_*, component_rejects, parse_no_panic); the default path for index i is m/44'/60'/0'/0/i for all i < 2^31 and an error above (for_index). Tied to src/hdk/path.rs by running parser, printer and for_index on boundary values (2^31, 2^32, 2^64 +-1), depths 1..12, and a malformed/mutated stream; an independent grammar judge decides each response.",
    "note": COMMON_NOTE + " u32::from_str modelled at contract level (optional '+', digits, overflow is an error).",
    "technique": "Lean 4 theorems over a hand-written model + differential correspondence check",
}

CLAIMED["C07"] = {
    "text": "Theorems for all RLP items with payloads < 2^64 bytes: a strict Yellow-Paper decoder (rejecting non-minimal lengths, wrapped single bytes < 0x80, leading-zero lengths) inverts the encoder with the rest left untouched (decode_encode, decodeAll_encode), the encoder is injective (encode_injective), and the decoder accepts nothing but canonical encodings (decode_canonical); the code-shaped len/bytes/uint/list functions equal the spec encoder, never overflow their u8 arithmetic, integers have no leading zero and zero is 0x80 (model_*_spec). Tied to src/transaction/rlp.rs through the verif-hooks re-exports: every length header 0..3000 (thorough 0..70000) and around 2^8..2^64, all single bytes, every string length 0..300 (0..1100), 64 KiB / 16 MiB strings, every integer byte width, random lists; each output is strictly decoded by the spec decoder.",
    "note": COMMON_NOTE + " `to_be_bytes()[leading_zeros/8..]` is modelled as the minimal big-endian representation (validated for every byte width by the correspondence).",
    "technique": "Lean 4 theorems over a hand-written model + differential correspondence check",
}

NOT_YET = {}
