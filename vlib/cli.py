"""Structured CLI ops -> invocations of the real binary (contract-level model of clap).

Line formats (all values hex, `-` = empty):
  cli.hex_encode <stdin>                      -> ok <stdout> | err | panic
  cli.hex_decode <stdin>
Responses: `ok <stdout-hex>` (exit 0), `err` (exit 255 = ordinary error; stdout must be empty),
`usage` (exit 2, clap), `panic` (exit 101), `signal`, `timeout`.
"""
import hashlib
import os
import tempfile
from vlib import core
from vlib.core import hx, unhx


def render(kind, out):
    """exit 255 (runtime error) and exit 2 (clap usage error) are both "an ordinary error"; an error
    must not come with output on stdout"""
    if kind == "ok":
        return "ok " + hx(out)
    if kind in ("err", "usage"):
        return "err-with-output " + hx(out) if out else "err"
    return kind


def utf8(h):
    return unhx(h).decode("utf-8")


_WORDSET = None


def leaked_phrase(err_bytes):
    """a failing `new` prints no phrase — not on standard output (render) and not in the error text either: returns the
    first run of >= 6 consecutive word-list words found on stderr, or None"""
    global _WORDSET
    if _WORDSET is None:
        from vlib import bip39
        _WORDSET = set(bip39.words())
    import re
    text = err_bytes.decode("utf-8", "replace") if isinstance(err_bytes, (bytes, bytearray)) else (err_bytes or "")
    toks = re.split(r"[^a-z]+", text)
    run = []
    for t in toks:
        if t in _WORDSET:
            run.append(t)
            if len(run) >= 6:
                return " ".join(run)
        else:
            run = []
    return None


def render_new(kind, out, err):
    r = render(kind, out)
    if r == "err":
        leak = leaked_phrase(err or "")
        if leak:
            return "err-with-phrase-on-stderr " + hx(leak.encode())
    return r


def account_args(parts, meta, env):
    """parts: mnemonic pw selector (hex) -> argv fragment; meta['via'] chooses flag or environment per option"""
    via = meta.get("via", {})
    argv = []
    mn, pw, sel = utf8(parts[0]), utf8(parts[1]), parts[2]
    if via.get("mnemonic") == "env":
        env["MNEMONIC"] = mn
    else:
        argv += ["--mnemonic", mn] if via.get("mnemonic") != "short" else ["-m", mn]
    if pw != "" or via.get("password_explicit"):
        if via.get("password") == "env":
            env["PASSWORD"] = pw
        elif via.get("password") == "sep" and not pw.startswith("-"):
            argv += ["--password", pw]   # value as an argument of its own (clap refuses one that starts with a dash)
        else:
            argv += ["--password=" + pw]
    argv += selector_args(sel, via, env, "ACCOUNT_INDEX", "HD_PATH", "--account-index", "--hd-path")
    return argv


def selector_args(sel, via, env, env_idx, env_path, flag_idx, flag_path):
    argv = []
    if sel == "default":
        return argv
    kind, *rest = sel.split(":")
    if kind in ("idx", "both"):
        t = utf8(rest[0])
        if via.get("index") == "env" and env_idx:
            env[env_idx] = t
        elif via.get("index") == "sep" and not t.startswith("-"):
            argv += [flag_idx, t]
        else:
            argv += [flag_idx + "=" + t]
    if kind in ("path", "both"):
        t = utf8(rest[-1])
        if via.get("path") == "env" and env_path:
            env[env_path] = t
        elif via.get("path") == "sep" and not t.startswith("-"):
            argv += [flag_path, t]
        else:
            argv += [flag_path + "=" + t]
    return argv


def split_chunks(data, how):
    """how: 'slow' -> 2..3 pieces at positions derived from the data (deterministic)"""
    n = len(data)
    if n < 2:
        return [data, b""] if n else [b"", b""]
    a = 1 + (sum(data[:8]) + n) % (n - 1)
    b = a + (1 + (n * 7 + data[-1]) % (n - a)) if n - a > 1 else n
    return [c for c in (data[:a], data[a:b], data[b:]) if c or True][: 3]


def run_simple(argv, stdin=b"", env=None, via_file=False, timeout=60, binary=None):
    """via_file: False = `-` and the whole input written at once; True = a regular file's path;
    'slow' = `-`, the input written in up to three pieces with pauses; 'fifo' = the path of a named pipe that a writer
    feeds in pieces with pauses"""
    if via_file == "slow":
        argv = ["-" if a == "@INPUT@" else a for a in argv]
        kind, out, err, _ = core.cli_exec(argv, env=env, stdin=split_chunks(stdin, "slow"), timeout=timeout, binary=binary)
        return kind, out, err
    if via_file == "fifo":
        import threading, time as _t
        d = tempfile.mkdtemp(prefix="hdwfifo", dir=os.path.join(core.CACHE, "tmp"))
        path = os.path.join(d, "in")
        os.mkfifo(path)

        def feed():
            try:
                with open(path, "wb", buffering=0) as f:
                    for i, c in enumerate(split_chunks(stdin, "slow")):
                        if i:
                            _t.sleep(0.06)
                        if c:
                            f.write(c)
            except OSError:
                pass
        th = threading.Thread(target=feed, daemon=True)
        th.start()
        try:
            argv = [path if a == "@INPUT@" else a for a in argv]
            kind, out, err, _ = core.cli_exec(argv, env=env, stdin=b"", timeout=timeout, binary=binary)
        finally:
            # unblock a writer that nobody read from
            try:
                fd = os.open(path, os.O_RDONLY | os.O_NONBLOCK)
                os.close(fd)
            except OSError:
                pass
            th.join(2)
            try:
                os.unlink(path)
                os.rmdir(d)
            except OSError:
                pass
        return kind, out, err
    if via_file:
        fd, path = tempfile.mkstemp(prefix="hdwin", dir=os.path.join(core.CACHE, "tmp"))
        try:
            with os.fdopen(fd, "wb") as f:
                f.write(stdin)
            argv = [path if a == "@INPUT@" else a for a in argv]
            kind, out, err, _ = core.cli_exec(argv, env=env, stdin=b"", timeout=timeout, binary=binary)
        finally:
            os.unlink(path)
    else:
        argv = ["-" if a == "@INPUT@" else a for a in argv]
        kind, out, err, _ = core.cli_exec(argv, env=env, stdin=stdin, timeout=timeout, binary=binary)
    return kind, out, err


def run_cli(case):
    os.makedirs(os.path.join(core.CACHE, "tmp"), exist_ok=True)
    parts = case.line.split(" ")
    op = parts[0]
    meta = case.meta or {}
    if op == "cli.hex_encode":
        argv = ["hex", "encode"] + ([] if meta.get("default_arg") else ["@INPUT@"])
        kind, out, _ = run_simple(argv, unhx(parts[1]), via_file=meta.get("via_file", False))
        return render(kind, out)
    if op == "cli.hex_decode":
        argv = ["hex", "decode"] + ([] if meta.get("default_arg") else ["@INPUT@"])
        kind, out, _ = run_simple(argv, unhx(parts[1]), via_file=meta.get("via_file", False))
        return render(kind, out)
    env = {}
    vf = meta.get("via_file", False)
    if op in ("cli.address", "cli.export", "cli.public_key"):
        argv = [{"cli.address": "address", "cli.export": "export", "cli.public_key": "public-key"}[op]] + account_args(parts[1:4], meta, env)
        kind, out, _ = run_simple(argv, env=env)
        return render(kind, out)
    if op == "cli.hash_data":
        kind, out, _ = run_simple(["hash", "data", "@INPUT@"], unhx(parts[1]), via_file=vf)
        return render(kind, out)
    if op == "cli.hash_message":
        kind, out, _ = run_simple(["hash", "message", "@INPUT@"], unhx(parts[1]), via_file=vf)
        return render(kind, out)
    if op == "cli.hash_message_rep":
        # cli.hash_message_rep <n> <byte>: n copies of one byte (large inputs without large op lines)
        kind, out, _ = run_simple(["hash", "message", "@INPUT@"], bytes([int(parts[2])]) * int(parts[1]), via_file=vf, timeout=120)
        return render(kind, out)
    if op == "cli.hash_data_rep":
        kind, out, _ = run_simple(["hash", "data", "@INPUT@"], bytes([int(parts[2])]) * int(parts[1]), via_file=vf, timeout=120)
        return render(kind, out)
    if op == "cli.hex_encode_rep":
        kind, out, _ = run_simple(["hex", "encode", "@INPUT@"], bytes([int(parts[2])]) * int(parts[1]), via_file=vf, timeout=120)
        return render(kind, hashlib.sha256(out).hexdigest().encode() + b" %d" % len(out)) if kind == "ok" else render(kind, out)
    if op == "cli.hash_tx":
        style = meta.get("sig_style", "eq")
        sig = [] if parts[2] == "none" else (["--signature=" + utf8(parts[2])] if style == "eq" else ["--signature", utf8(parts[2])] if style == "sep" else ["-s", utf8(parts[2])])
        if sig and style != "eq" and utf8(parts[2]).startswith("-"):
            sig = ["--signature=" + utf8(parts[2])]  # a separate value that looks like an option would be read as one
        argv = ["hash", "transaction"] + sig + ["@INPUT@"]
        kind, out, _ = run_simple(argv, unhx(parts[1]), via_file=vf)
        return render(kind, out)
    if op == "cli.hash_td":
        argv = ["hash", "typeddata"] + (["--message-hash"] if parts[2] == "1" else []) + ["@INPUT@"]
        kind, out, _ = run_simple(argv, unhx(parts[1]), via_file=vf)
        return render(kind, out)
    if op == "cli.sign_message":
        argv = ["sign"] + account_args(parts[1:4], meta, env) + ["message", "@INPUT@"]
        kind, out, _ = run_simple(argv, unhx(parts[4]), env=env, via_file=vf)
        return render(kind, out)
    if op == "cli.sign_raw":
        argv = ["sign"] + account_args(parts[1:4], meta, env) + ["raw", "--", utf8(parts[4])]
        kind, out, _ = run_simple(argv, env=env)
        return render(kind, out)
    if op == "cli.sign_td":
        argv = ["sign"] + account_args(parts[1:4], meta, env) + ["typeddata", "@INPUT@"]
        kind, out, _ = run_simple(argv, unhx(parts[4]), env=env, via_file=vf)
        return render(kind, out)
    if op == "cli.sign_tx":
        argv = ["sign"] + account_args(parts[1:4], meta, env) + ["transaction"] + (["--signature-only"] if parts[5] == "1" else []) + \
            (["--allow-missing-relay-protection"] if parts[6] == "1" else []) + ["@INPUT@"]
        kind, out, _ = run_simple(argv, unhx(parts[4]), env=env, via_file=vf)
        return render(kind, out)
    if op == "cli.new":
        argv = ["new", ("--length=" if meta.get("long", True) else "-n") + utf8(parts[1])] if parts[1] != "-" or True else ["new"]
        if not meta.get("long", True):
            argv = ["new", "-n", utf8(parts[1])]
        shim = {"HDW_SHIM_STREAM": "" if parts[2] == "-" else parts[2]}
        log = None
        if meta.get("log"):
            fd, log = tempfile.mkstemp(prefix="shimlog", dir=os.path.join(core.CACHE, "tmp"))
            os.close(fd)
            shim["HDW_SHIM_LOG"] = log
        kind, out, err, _ = core.cli_exec(argv, shim=shim)
        if log:
            with open(log) as f:
                meta["requests"] = [int(x) for x in f.read().split()]
            os.unlink(log)
        return render_new(kind, out, err)
    if op == "cli.new_vanity":
        argv = ["new", "--length=" + utf8(parts[1]), "--vanity-prefix=" + utf8(parts[2]), "-j", str(meta.get("threads", 0))]
        if utf8(parts[3]) != "":
            argv += ["--vanity-password=" + utf8(parts[3])]
        argv += selector_args(parts[4], {}, env, None, None, "--vanity-account-index", "--vanity-hd-path")
        shim = {"HDW_SHIM_STREAM": "" if parts[5] == "-" else parts[5]}
        log = None
        if meta.get("log"):
            fd, log = tempfile.mkstemp(prefix="shimlog", dir=os.path.join(core.CACHE, "tmp"))
            os.close(fd)
            shim["HDW_SHIM_LOG"] = log
        kind, out, err, _ = core.cli_exec(argv, shim=shim, timeout=meta.get("timeout", 120))
        if log:
            with open(log) as f:
                meta["requests"] = [int(x) for x in f.read().split()]
            os.unlink(log)
        return render_new(kind, out, err)
    if op == "cli.prefix_parse":
        # does the value parser accept the prefix?  With a failing entropy source and -j 0 an accepted prefix
        # leads to a run-time error (exit 255) before any search, a refused one to a clap usage error (exit 2)
        kind, out, err, _ = core.cli_exec(["new", "--vanity-prefix=" + utf8(parts[1]), "-j", "0"], shim={"HDW_SHIM_STREAM": "fail"})
        if out:
            return "unexpected-output " + hx(out)
        return {"err": "ok", "usage": "err"}.get(kind, kind)
    return "harness-error unknown cli op " + op
