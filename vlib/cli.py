"""Structured CLI ops -> invocations of the real binary (contract-level model of clap).

Line formats (all values hex, `-` = empty):
  cli.hex_encode <stdin>                      -> ok <stdout> | err | panic
  cli.hex_decode <stdin>
Responses: `ok <stdout-hex>` (exit 0), `err` (exit 255 = ordinary error; stdout must be empty),
`usage` (exit 2, clap), `panic` (exit 101), `signal`, `timeout`.
"""
import os
import tempfile
from vlib import core
from vlib.core import hx, unhx


def render(kind, out):
    if kind == "ok":
        return "ok " + hx(out)
    if kind in ("err", "usage") and out:
        return kind + "-with-output " + hx(out)
    return kind


def run_simple(argv, stdin=b"", env=None, via_file=False, timeout=60, binary=None):
    """via_file: pass the input as a file path instead of `-`/stdin"""
    if via_file:
        fd, path = tempfile.mkstemp(prefix="hdwin", dir=os.path.join(core.CACHE, "tmp"))
        try:
            with os.fdopen(fd, "wb") as f:
                f.write(stdin)
            argv = [path if a == "@INPUT@" else a for a in argv]
            kind, out, err, _ = core.cli_exec(argv, env=env, stdin=b"", timeout=timeout, binary=binary)
        finally:
            os.unlink(path)
    else:
        argv = ["-" if a == "@INPUT@" else a for a in argv]
        kind, out, err, _ = core.cli_exec(argv, env=env, stdin=stdin, timeout=timeout, binary=binary)
    return kind, out, err


def run_cli(case):
    os.makedirs(os.path.join(core.CACHE, "tmp"), exist_ok=True)
    parts = case.line.split(" ")
    op = parts[0]
    meta = case.meta or {}
    if op == "cli.hex_encode":
        argv = ["hex", "encode"] + ([] if meta.get("default_arg") else ["@INPUT@"])
        kind, out, _ = run_simple(argv, unhx(parts[1]), via_file=meta.get("via_file", False))
        return render(kind, out)
    if op == "cli.hex_decode":
        argv = ["hex", "decode"] + ([] if meta.get("default_arg") else ["@INPUT@"])
        kind, out, _ = run_simple(argv, unhx(parts[1]), via_file=meta.get("via_file", False))
        return render(kind, out)
    return "harness-error unknown cli op " + op
