"""Minimal secp256k1 arithmetic for *choosing inputs* (never for judging: the judges are in the Lean driver)."""
P = 2 ** 256 - 2 ** 32 - 977
N = 0xFFFFFFFFFFFFFFFFFFFFFFFFFFFFFFFEBAAEDCE6AF48A03BBFD25E8CD0364141
G = (0x79BE667EF9DCBBAC55A06295CE870B07029BFCDB2DCE28D959F2815B16F81798, 0x483ADA7726A3C4655DA4FBFC0E1108A8FD17B448A68554199C47D08FFB10D4B8)


def add(a, b):
    if a is None:
        return b
    if b is None:
        return a
    if a[0] == b[0]:
        if (a[1] + b[1]) % P == 0:
            return None
        l = 3 * a[0] * a[0] * pow(2 * a[1], -1, P) % P
    else:
        l = (b[1] - a[1]) * pow(b[0] - a[0], -1, P) % P
    x = (l * l - a[0] - b[0]) % P
    return (x, (l * (a[0] - x) - a[1]) % P)


def mul(k, pt=G):
    r = None
    while k:
        if k & 1:
            r = add(r, pt)
        pt = add(pt, pt)
        k >>= 1
    return r


def walk(k0, steps):
    """(k, k·G) for k = k0, k0+1, …"""
    pt = mul(k0)
    for i in range(steps):
        yield k0 + i, pt
        pt = add(pt, G)
