"""Second translator (DESIGN §13.6): the literal constants of /repo's source, regenerated on every run.

`extract()` reads the Rust sources with one anchored pattern per constant and returns {name: value or None}.
`write_lean()` turns the result into lean/HdwModel/Gen/SourceConsts.lean (rewritten only on change).  The theorems of
`HdwModel/Props/SourceTie.lean` then state, for every constant that was found, that the MODEL FUNCTION which mirrors
the code at that site behaves as it does with exactly this value.  A changed constant in the code therefore breaks a
proof obligation at once, whether or not a generated input reaches it.

A pattern that no longer matches (the code was rewritten) yields `none`: the theorem about that constant becomes
vacuous, the evidence says which constants were tied on this run, and the correspondence check remains the only tie
for that site.  It is never an alarm by itself.
"""
import hashlib
import os
import re

REPO = os.environ.get("VERIF_REPO", "/repo")
LEAN = os.path.join(os.path.dirname(os.path.dirname(os.path.abspath(__file__))), "lean")


def _nat(s):
    s = s.replace("_", "")
    return int(s, 16) if s.lower().startswith("0x") else int(s)


def _rust_bytes(lit):
    """the bytes of a Rust (byte-)string literal body"""
    out, i = [], 0
    while i < len(lit):
        c = lit[i]
        if c == "\\":
            n = lit[i + 1]
            if n == "x":
                out.append(int(lit[i + 2:i + 4], 16))
                i += 4
                continue
            out.append({"n": 10, "r": 13, "t": 9, "0": 0, "\\": 92, '"': 34, "'": 39}[n])
            i += 2
            continue
        out.extend(c.encode("utf-8"))
        i += 1
    return out


def _strip_tests(text):
    """drop `#[cfg(test)] mod tests { … }` (always last in this code base)"""
    m = re.search(r"#\[cfg\(test\)\]\s*mod tests", text)
    return text if not m else text[:m.start()]


# name -> (file, regex, converter on the match object, lean type)
SPECS = [
    ("pbkdf2Rounds", "src/mnemonic.rs", r"const ROUNDS: u32 = ([0-9_xa-fA-F]+);", lambda m: _nat(m.group(1)), "Nat"),
    ("seedSaltPrefix", "src/mnemonic.rs", r'let salt = format!\("([^"{}]*)\{\}", password\.as_ref\(\)\);', lambda m: _rust_bytes(m.group(1)), "Chars"),
    ("mnemonicLengths", "src/mnemonic.rs", r"matches!\(len, ([0-9 |]+)\)", lambda m: [_nat(x) for x in m.group(1).split("|")], "NatList"),
    ("hardened", "src/hdk.rs", r"const HARDENED: u32 = ([0-9_xa-fA-F]+);", lambda m: _nat(m.group(1)), "Nat"),
    ("masterKey", "src/hdk.rs", r'let mut hmac = Hmac::<Sha512>::new_from_slice\(b"([^"]*)"\)\?;', lambda m: _rust_bytes(m.group(1)), "Bytes"),
    ("defaultPathPrefix", "src/hdk/path.rs", r'format!\("([^"{}]*)\{index\}"\)\.parse\(\)', lambda m: _rust_bytes(m.group(1)), "Chars"),
    ("rlpShortLimit", "src/transaction/rlp.rs", r"if len < ([0-9]+) \{\s*vec!\[len as u8 \+ offset\]", lambda m: _nat(m.group(1)), "Nat"),
    ("rlpLongBias", "src/transaction/rlp.rs", r"vec!\[bl\.len\(\) as u8 \+ offset \+ ([0-9]+)\]", lambda m: _nat(m.group(1)), "Nat"),
    ("rlpListOffset", "src/transaction/rlp.rs", r"let mut buf = len\(total_len, ([0-9a-fx]+)\);", lambda m: _nat(m.group(1)), "Nat"),
    ("rlpStrOffset", "src/transaction/rlp.rs", r"let mut buf = len\(bytes\.len\(\), ([0-9a-fx]+)\);", lambda m: _nat(m.group(1)), "Nat"),
    ("rlpSingleLimit", "src/transaction/rlp.rs", r"\[x\] if \*x < ([0-9a-fx]+) => vec!\[\*x\],", lambda m: _nat(m.group(1)), "Nat"),
    ("sigVLegacy", "src/account/signature.rs", r"None => self\.y_parity\(\) \+ ([0-9]+),", lambda m: _nat(m.group(1)), "Nat"),
    ("sigVEip155", "src/account/signature.rs", r"Some\(chain_id\) => self\.y_parity\(\) \+ chain_id \* ([0-9]+) \+ ([0-9]+),", lambda m: [_nat(m.group(1)), _nat(m.group(2))], "NatPair"),
    ("sigParseV", "src/account/signature.rs", r"let y_parity = match v \{\s*([0-9]+) => 0,\s*([0-9]+) => 1,\s*_ => bail!", lambda m: [_nat(m.group(1)), _nat(m.group(2))], "NatPair"),
    ("txType2930", "src/transaction/eip2930.rs", r"&\[([0-9a-fx]+)\]\[\.\.\],\s*&rlp::iter\(", lambda m: _nat(m.group(1)), "Nat"),
    ("txType1559", "src/transaction/eip1559.rs", r"&\[([0-9a-fx]+)\]\[\.\.\],\s*&rlp::iter\(", lambda m: _nat(m.group(1)), "Nat"),
    ("tdPrefix", "src/typeddata.rs", r'buffer\[0\.\.2\]\.copy_from_slice\(b"([^"]*)"\);', lambda m: _rust_bytes(m.group(1)), "Bytes"),
    ("tdDomainName", "src/typeddata.rs", r'let domain_separator = types\.struct_hash\("([^"]*)", domain\)\?;', lambda m: _rust_bytes(m.group(1)), "Chars"),
    ("msgPrefix", "src/message.rs", r'buffer\.extend_from_slice\(b"([^"]*)"\);', lambda m: _rust_bytes(m.group(1)), "Bytes"),
    ("addrSkipTag", "src/account.rs", r"let digest = Digest::of\(&encoded\[([0-9]+)\.\.\]\);", lambda m: _nat(m.group(1)), "Nat"),
    ("addrSkipHash", "src/account.rs", r"Address::from_slice\(&digest\[([0-9]+)\.\.\]\)", lambda m: _nat(m.group(1)), "Nat"),
    ("defaultAccountIndex", "src/cmd.rs", r"#\[clap\(long, env, default_value_t = ([0-9]+)\)\]\s*(?:pub )?account_index: usize,", lambda m: _nat(m.group(1)), "Nat"),
    ("kindBytesRange", "src/typeddata.rs", r'\("bytes", n\) if \(([0-9]+)\.\.=([0-9]+)\)\.contains\(&n\) =>', lambda m: [_nat(m.group(1)), _nat(m.group(2))], "NatPair"),
    ("kindUintRange", "src/typeddata.rs", r'\("uint", n\) if n % ([0-9]+) == 0 && \(([0-9]+)\.\.=([0-9]+)\)\.contains\(&n\) =>', lambda m: [_nat(m.group(i)) for i in (1, 2, 3)], "NatList"),
    ("kindIntRange", "src/typeddata.rs", r'\("int", n\) if n % ([0-9]+) == 0 && \(([0-9]+)\.\.=([0-9]+)\)\.contains\(&n\) =>', lambda m: [_nat(m.group(i)) for i in (1, 2, 3)], "NatList"),
]

KIND_TAG = {"String": 0, "Uint": 1, "Address": 2, "Bytes": 3, "Int": 4, "Bool": 5}


def _domain_members(text):
    m = re.search(r"const DOMAIN_MEMBERS: \[\(&str, MemberKind\); ([0-9]+)\] = \[(.*?)\];", text, re.S)
    if not m:
        return None
    items = re.findall(r'\("([A-Za-z0-9_]+)", MemberKind::([A-Za-z]+)(?:\((?:Some\()?([0-9]+)\)?\))?\)', m.group(2))
    if len(items) != int(m.group(1)) or any(k not in KIND_TAG for _, k, _ in items):
        return None
    return [(list(n.encode()), KIND_TAG[k], int(a) if a else 0) for n, k, a in items]


def extract():
    out, cache = {}, {}
    for name, rel, rx, conv, _ in SPECS:
        p = os.path.join(REPO, rel)
        try:
            if p not in cache:
                with open(p, encoding="utf-8") as f:
                    cache[p] = _strip_tests(f.read())
            ms = list(re.finditer(rx, cache[p]))
            out[name] = conv(ms[0]) if len(ms) == 1 else None
        except Exception:
            out[name] = None
    try:
        out["domainMembers"] = _domain_members(cache.get(os.path.join(REPO, "src/typeddata.rs")) or "")
    except Exception:
        out["domainMembers"] = None
    return out


def _chars(bs):
    return "[" + ", ".join(("'%s'" % chr(b)) if (48 <= b <= 57 or 65 <= b <= 90 or 97 <= b <= 122 or b in (47, 32)) else "Char.ofNat %d" % b for b in bs) + "]"


def _lean_value(ty, v):
    if ty == "Nat":
        return "Option Nat", "some %d" % v
    if ty == "NatList":
        return "Option (List Nat)", "some [%s]" % ", ".join(map(str, v))
    if ty == "NatPair":
        return "Option (Nat × Nat)", "some (%d, %d)" % tuple(v)
    if ty == "Bytes":
        return "Option (List UInt8)", "some [%s]" % ", ".join(map(str, v))
    if ty == "Chars":
        return "Option (List Char)", "some " + _chars(v)
    raise ValueError(ty)


def _lean_type(ty):
    return {"Nat": "Option Nat", "NatList": "Option (List Nat)", "NatPair": "Option (Nat × Nat)", "Bytes": "Option (List UInt8)",
            "Chars": "Option (List Char)"}[ty]


def write_lean():
    """returns (sha256 of the generated text, {name: value}, [names not found])"""
    vals = extract()
    lines = ["/- GENERATED by vlib/srctie.py from /repo's Rust sources on every run; do not edit. -/",
             "namespace Hdw.Gen.Src", ""]
    for name, rel, _, _, ty in SPECS:
        v = vals[name]
        lines.append("/-- %s -/" % rel)
        if v is None:
            lines.append("def %s : %s := none" % (name, _lean_type(ty)))
        else:
            t, e = _lean_value(ty, v)
            lines.append("def %s : %s := %s" % (name, t, e))
    dm = vals["domainMembers"]
    lines.append("/-- src/typeddata.rs DOMAIN_MEMBERS: (name, kind tag, argument); tags: 0 string, 1 uint, 2 address, 3 bytes, 4 int, 5 bool -/")
    if dm is None:
        lines.append("def domainMembers : Option (List (List Char × Nat × Nat)) := none")
    else:
        lines.append("def domainMembers : Option (List (List Char × Nat × Nat)) := some [%s]" %
                     ", ".join("(%s, %d, %d)" % (_chars(n), k, a) for n, k, a in dm))
    lines += ["", "end Hdw.Gen.Src", ""]
    text = "\n".join(lines)
    dst = os.path.join(LEAN, "HdwModel/Gen/SourceConsts.lean")
    old = None
    if os.path.exists(dst):
        with open(dst) as f:
            old = f.read()
    if old != text:
        os.makedirs(os.path.dirname(dst), exist_ok=True)
        with open(dst, "w") as f:
            f.write(text)
    missing = sorted(k for k, v in vals.items() if v is None)
    return hashlib.sha256(text.encode()).hexdigest(), vals, missing


if __name__ == "__main__":
    h, vals, missing = write_lean()
    for k, v in vals.items():
        print(k, "=", v)
    print("missing:", missing, "sha256:", h)
