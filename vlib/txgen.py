"""Transaction JSON generators shared by C06 / C11 / C13 / C16."""
import json

N = 0xFFFFFFFFFFFFFFFFFFFFFFFFFFFFFFFEBAAEDCE6AF48A03BBFD25E8CD0364141
BOUNDARY = [0, 1, 2, 127, 128, 255, 256, 2 ** 53 - 1, 2 ** 53, 2 ** 53 + 1, 2 ** 63 - 1, 2 ** 63, 2 ** 64 - 1, 2 ** 64, 2 ** 64 + 1,
            2 ** 128, 2 ** 255 - 1, 2 ** 255, 2 ** 256 - 1]


def rand_u256(rng):
    r = rng.random()
    if r < 0.35:
        return rng.choice(BOUNDARY)
    if r < 0.6:
        return rng.randrange(1 << rng.choice([8, 16, 32, 53, 64]))
    return rng.randrange(1 << (8 * rng.randint(1, 32)))


class Raw(str):
    """a raw JSON token (number literal) to be emitted verbatim"""


def spell(rng, v, kinds=None):
    """a JSON token (string form) spelling the integer v; returns (token, kind)"""
    opts = ["dec-str", "hex-str"]
    if v <= 2 ** 64 - 1:
        opts += ["int", "int"]
    if v < 10 ** 15:
        # float spellings only where every IEEE conversion is exact (<= 15 digits); longer float
        # literals hit the known finding C13/float-literal-rounding and are exercised by c13.py only
        opts += ["float.0", "float-e"]
    k = rng.choice(kinds or opts)
    if k not in opts:
        # the requested spelling cannot express this value exactly (int literal above u64::MAX, float above
        # 10^15): fall back to a string, otherwise the document is invalid for a reason the caller did not intend
        k = "dec-str"
    if k == "int":
        return Raw(str(v)), k
    if k == "float.0":
        return Raw("%d.0" % v), k
    if k == "float-e":
        s = str(v)
        z = len(s) - len(s.rstrip("0")) if v else 0
        if z:
            return Raw("%se%d" % (s[:-z], z)), k
        return Raw("%s.%se%d" % (s[0], s[1:] or "0", len(s) - 1)), k
    if k == "dec-str":
        return json.dumps(str(v)), k
    if k == "hex-str":
        return json.dumps(hex(v) if rng.random() < 0.8 else "0x" + ("%x" % v).upper()), k
    raise ValueError(k)


def rand_addr(rng):
    return "0x" + "".join(rng.choice("0123456789abcdefABCDEF") for _ in range(40))


def rand_data(rng, n=None):
    if n is None:
        n = rng.choice([0, 0, 1, 4, 20, 32, 36, 55, 56, 68, 100, 255, 256, 300])
    return "0x" + bytes(rng.getrandbits(8) for _ in range(n)).hex()


def rand_access_list(rng, shape=None):
    if shape is None:
        shape = [rng.randint(0, 4) for _ in range(rng.randint(0, 4))]
    return [[rand_addr(rng), ["0x" + bytes(rng.getrandbits(8) for _ in range(32)).hex() for _ in range(k)]] for k in shape]


def render(fields):
    """fields: list of (key, token) where token is Raw (verbatim) or an already-JSON-encoded string"""
    return "{" + ",".join("%s:%s" % (json.dumps(k), t) for k, t in fields) + "}"


def rand_tx(rng, kind=None, chain=None, spellings=None, data_len=None, al_shape=None, to=None):
    """returns (json text, expected dict)"""
    kind = kind or rng.choice(["legacy", "eip2930", "eip1559"])
    exp = {"kind": kind}
    fields = []

    def num(key, v=None):
        v = rand_u256(rng) if v is None else v
        tok, _ = spell(rng, v, spellings)
        exp[key] = v
        fields.append((key, tok))

    if kind == "legacy":
        if chain is None:
            chain = rng.choice([None, None, 0, 1, 5, 2 ** 64 - 1, rng.randrange(2 ** 32), rng.randrange(2 ** 200)])
        if chain is not None and chain != "absent":
            num("chainId", chain)
        else:
            exp["chainId"] = None
            if rng.random() < 0.3:
                fields.append(("chainId", Raw("null")))
    else:
        num("chainId", chain if chain not in (None, "absent") else rng.choice([0, 1, 5, 2 ** 64 - 1, rng.randrange(2 ** 32), rand_u256(rng)]))
    num("nonce")
    if kind == "eip1559":
        num("maxPriorityFeePerGas")
        num("maxFeePerGas")
    else:
        num("gasPrice")
    num("gas")
    tochoice = rng.choice(["addr", "addr", "absent", "null"]) if to is None else to
    if tochoice == "addr":
        a = rand_addr(rng)
        exp["to"] = a[2:].lower()
        fields.append(("to", json.dumps(a)))
    else:
        exp["to"] = None
        if tochoice == "null":
            fields.append(("to", Raw("null")))
    num("value")
    d = rand_data(rng, data_len)
    exp["data"] = d[2:]
    fields.append(("data", json.dumps(d)))
    if kind == "eip2930" or (kind == "eip1559" and (al_shape is not None or rng.random() < 0.7)):
        al = rand_access_list(rng, al_shape)
        exp["accessList"] = [(a[2:].lower(), [s[2:] for s in ss]) for a, ss in al]
        fields.append(("accessList", json.dumps(al, separators=(",", ":"))))
    elif kind == "eip1559":
        exp["accessList"] = []
    rng.shuffle(fields)
    return render(fields), exp


def field_mixes(rng):
    """every subset of {gasPrice, maxPriorityFeePerGas, maxFeePerGas, accessList} x chainId present/absent: which kind a
    document is (fee-market field -> EIP-1559, else access list -> EIP-2930, else legacy) and which subsets are refused"""
    import itertools, json
    out = []
    opt = ["gasPrice", "maxPriorityFeePerGas", "maxFeePerGas", "accessList"]
    for r in range(0, 5):
        for sub in itertools.combinations(opt, r):
            for with_chain in (True, False):
                for _ in range(2):
                    obj = {"nonce": rng.randrange(1000), "gas": rng.choice([21000, "0x5208", "100000"]), "value": str(rng.randrange(10 ** 18)), "data": rand_data(rng, rng.choice([0, 4]))}
                    if rng.random() < 0.8:
                        obj["to"] = rand_addr(rng)
                    if with_chain:
                        obj["chainId"] = rng.choice([1, 5, 137, "0x1"])
                    for k in sub:
                        if k == "accessList":
                            obj[k] = rng.choice([[], [{"address": rand_addr(rng), "storageKeys": ["0x" + "%064x" % rng.getrandbits(256)]}]])
                        else:
                            obj[k] = rng.choice([rng.randrange(1, 10 ** 10), hex(rng.randrange(1, 10 ** 10)), str(rng.randrange(1, 10 ** 10))])
                    items = list(obj.items())
                    rng.shuffle(items)
                    out.append((json.dumps(dict(items)), "+".join(sub) or "none", with_chain))
    return out
