/-
Line-protocol driver for the executable model (see DESIGN.md Appendix A).
  driver model   : one op per input line -> `ok <fields>` | `err` | `panic`
  driver judge   : input line = `<op line>\t<implementation response>` ->
                   `holds` | `fails <reason>` | `skip`
Imports model/spec/primitives only (no Mathlib), so it links as an executable.
-/
import HdwModel.Driver.Ops

open Hdw Hdw.Driver

partial def loop (h : IO.FS.Stream) (out : IO.FS.Stream) (f : String → String) : IO Unit := do
  let line ← h.getLine
  if line.isEmpty then return ()
  let l := if line.back == '\n' then (line.dropEnd 1).toString else line
  out.putStrLn (f l)
  loop h out f

def main (args : List String) : IO UInt32 := do
  let stdin ← IO.getStdin
  let stdout ← IO.getStdout
  let tablePath := (← IO.getEnv "HDW_NFKD_TABLE").getD "data/nfkd_table.tsv"
  let text ← (IO.FS.readFile tablePath) <|> pure ""
  let env : Env := { nfkd := mkNfkdTable (parseNfkdTable text) }
  match args with
  | ["model"] => loop stdin stdout (runModelLine env); return 0
  | ["judge"] => loop stdin stdout (runJudgeLine env); return 0
  | _ => IO.eprintln "usage: driver (model|judge)"; return 2
