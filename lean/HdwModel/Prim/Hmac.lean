/-
HMAC (RFC 2104) and PBKDF2 (RFC 8018), generic over the hash function.
Dependency code (crates `hmac`, `pbkdf2`).  Written as plain list functions so
that model and spec can share them and theorems can mention them.
-/
namespace Hdw

abbrev Bytes := List UInt8

namespace Prim

def xorBytes (a b : Bytes) : Bytes := List.zipWith (· ^^^ ·) a b

def hmac (hash : Bytes → Bytes) (blockSize : Nat) (key msg : Bytes) : Bytes :=
  let k0 := if key.length > blockSize then hash key else key
  let k := k0 ++ List.replicate (blockSize - k0.length) 0
  let ipad := k.map (· ^^^ 0x36)
  let opad := k.map (· ^^^ 0x5c)
  hash (opad ++ hash (ipad ++ msg))

def be32 (i : Nat) : Bytes :=
  [UInt8.ofNat (i >>> 24), UInt8.ofNat (i >>> 16), UInt8.ofNat (i >>> 8), UInt8.ofNat i]

/-- iterate `U_{j+1} = PRF(P, U_j)` accumulating the xor; `n` further rounds -/
def pbkdf2Loop (prf : Bytes → Bytes) : Nat → Bytes → Bytes → Bytes
  | 0, _, acc => acc
  | n + 1, u, acc =>
    let u' := prf u
    pbkdf2Loop prf n u' (xorBytes acc u')

def pbkdf2Block (prf : Bytes → Bytes → Bytes) (password salt : Bytes) (rounds i : Nat) : Bytes :=
  let u1 := prf password (salt ++ be32 i)
  pbkdf2Loop (prf password) (rounds - 1) u1 u1

/-- PBKDF2 producing `dkLen` bytes; `hLen` is the PRF output size. -/
def pbkdf2 (prf : Bytes → Bytes → Bytes) (hLen : Nat) (password salt : Bytes)
    (rounds dkLen : Nat) : Bytes :=
  let blocks := (dkLen + hLen - 1) / hLen
  (((List.range blocks).map (fun i => pbkdf2Block prf password salt rounds (i + 1))).flatten).take dkLen

end Prim
end Hdw
