/-
Executable SHA-512 (FIPS 180-4). Dependency code (crate `sha2`); driver only.
-/
namespace Hdw.Prim

def sha512K : Array UInt64 := #[
  0x428a2f98d728ae22, 0x7137449123ef65cd, 0xb5c0fbcfec4d3b2f, 0xe9b5dba58189dbbc,
  0x3956c25bf348b538, 0x59f111f1b605d019, 0x923f82a4af194f9b, 0xab1c5ed5da6d8118,
  0xd807aa98a3030242, 0x12835b0145706fbe, 0x243185be4ee4b28c, 0x550c7dc3d5ffb4e2,
  0x72be5d74f27b896f, 0x80deb1fe3b1696b1, 0x9bdc06a725c71235, 0xc19bf174cf692694,
  0xe49b69c19ef14ad2, 0xefbe4786384f25e3, 0x0fc19dc68b8cd5b5, 0x240ca1cc77ac9c65,
  0x2de92c6f592b0275, 0x4a7484aa6ea6e483, 0x5cb0a9dcbd41fbd4, 0x76f988da831153b5,
  0x983e5152ee66dfab, 0xa831c66d2db43210, 0xb00327c898fb213f, 0xbf597fc7beef0ee4,
  0xc6e00bf33da88fc2, 0xd5a79147930aa725, 0x06ca6351e003826f, 0x142929670a0e6e70,
  0x27b70a8546d22ffc, 0x2e1b21385c26c926, 0x4d2c6dfc5ac42aed, 0x53380d139d95b3df,
  0x650a73548baf63de, 0x766a0abb3c77b2a8, 0x81c2c92e47edaee6, 0x92722c851482353b,
  0xa2bfe8a14cf10364, 0xa81a664bbc423001, 0xc24b8b70d0f89791, 0xc76c51a30654be30,
  0xd192e819d6ef5218, 0xd69906245565a910, 0xf40e35855771202a, 0x106aa07032bbd1b8,
  0x19a4c116b8d2d0c8, 0x1e376c085141ab53, 0x2748774cdf8eeb99, 0x34b0bcb5e19b48a8,
  0x391c0cb3c5c95a63, 0x4ed8aa4ae3418acb, 0x5b9cca4f7763e373, 0x682e6ff3d6b2b8a3,
  0x748f82ee5defb2fc, 0x78a5636f43172f60, 0x84c87814a1f0ab72, 0x8cc702081a6439ec,
  0x90befffa23631e28, 0xa4506cebde82bde9, 0xbef9a3f7b2c67915, 0xc67178f2e372532b,
  0xca273eceea26619c, 0xd186b8c721c0c207, 0xeada7dd6cde0eb1e, 0xf57d4f7fee6ed178,
  0x06f067aa72176fba, 0x0a637dc5a2c898a6, 0x113f9804bef90dae, 0x1b710b35131c471b,
  0x28db77f523047d84, 0x32caab7b40c72493, 0x3c9ebe0a15c9bebc, 0x431d67c49c100d4c,
  0x4cc5d4becb3e42b6, 0x597f299cfc657e2a, 0x5fcb6fab3ad6faec, 0x6c44198c4a475817]

@[inline] def rotr64 (x : UInt64) (n : UInt64) : UInt64 := (x >>> n) ||| (x <<< (64 - n))

def sha512Pad (len : Nat) : List UInt8 :=
  let zeros := (111 + 128 - len % 128) % 128
  let bits := len * 8
  ([0x80] : List UInt8) ++ List.replicate zeros (0 : UInt8) ++
    (List.range 16).map (fun i => UInt8.ofNat (bits >>> (8 * (15 - i))))

def sha512Compress (h : Array UInt64) (blk : ByteArray) (off : Nat) : Array UInt64 := Id.run do
  let mut w : Array UInt64 := Array.mkEmpty 80
  for i in [0:16] do
    let mut x : UInt64 := 0
    for j in [0:8] do
      x := (x <<< 8) ||| (blk.get! (off + 8*i + j)).toUInt64
    w := w.push x
  for i in [16:80] do
    let w15 := w[i-15]!
    let w2 := w[i-2]!
    let s0 := rotr64 w15 1 ^^^ rotr64 w15 8 ^^^ (w15 >>> 7)
    let s1 := rotr64 w2 19 ^^^ rotr64 w2 61 ^^^ (w2 >>> 6)
    w := w.push (w[i-16]! + s0 + w[i-7]! + s1)
  let mut a := h[0]!
  let mut b := h[1]!
  let mut c := h[2]!
  let mut d := h[3]!
  let mut e := h[4]!
  let mut f := h[5]!
  let mut g := h[6]!
  let mut hh := h[7]!
  for i in [0:80] do
    let s1 := rotr64 e 14 ^^^ rotr64 e 18 ^^^ rotr64 e 41
    let ch := (e &&& f) ^^^ ((~~~ e) &&& g)
    let t1 := hh + s1 + ch + sha512K[i]! + w[i]!
    let s0 := rotr64 a 28 ^^^ rotr64 a 34 ^^^ rotr64 a 39
    let mj := (a &&& b) ^^^ (a &&& c) ^^^ (b &&& c)
    let t2 := s0 + mj
    hh := g; g := f; f := e; e := d + t1; d := c; c := b; b := a; a := t1 + t2
  return #[h[0]! + a, h[1]! + b, h[2]! + c, h[3]! + d, h[4]! + e, h[5]! + f, h[6]! + g, h[7]! + hh]

def sha512Init : Array UInt64 := #[
  0x6a09e667f3bcc908, 0xbb67ae8584caa73b, 0x3c6ef372fe94f82b, 0xa54ff53a5f1d36f1,
  0x510e527fade682d1, 0x9b05688c2b3e6c1f, 0x1f83d9abfb41bd6b, 0x5be0cd19137e2179]

def sha512 (msg : List UInt8) : List UInt8 := Id.run do
  let data : ByteArray := ⟨(msg ++ sha512Pad msg.length).toArray⟩
  let mut h := sha512Init
  for i in [0:data.size / 128] do
    h := sha512Compress h data (128 * i)
  let mut out : List UInt8 := []
  for i in [0:8] do
    let x := h[7 - i]!
    for j in [0:8] do
      out := (x >>> (8 * j).toUInt64).toUInt8 :: out
  return out

end Hdw.Prim
