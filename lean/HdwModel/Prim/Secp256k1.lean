/-
Executable secp256k1 arithmetic on `Nat` (Jacobian coordinates internally).
Dependency code (crate `k256`); driver only.  Cross-tested against `k256` by the
correspondence check, not proved to be a lawful group (see DESIGN §5).
-/
namespace Hdw.Prim.Secp

def p : Nat := 0xFFFFFFFFFFFFFFFFFFFFFFFFFFFFFFFFFFFFFFFFFFFFFFFFFFFFFFFEFFFFFC2F
def n : Nat := 0xFFFFFFFFFFFFFFFFFFFFFFFFFFFFFFFEBAAEDCE6AF48A03BBFD25E8CD0364141
def gx : Nat := 0x79BE667EF9DCBBAC55A06295CE870B07029BFCDB2DCE28D959F2815B16F81798
def gy : Nat := 0x483ADA7726A3C4655DA4FBFC0E1108A8FD17B448A68554199C47D08FFB10D4B8

def powMod (b e m : Nat) : Nat := Id.run do
  let mut result := 1 % m
  let mut base := b % m
  let mut e := e
  for _ in [0:e.log2 + 1] do
    if e % 2 == 1 then result := result * base % m
    base := base * base % m
    e := e / 2
  return result

def invMod (a m : Nat) : Nat := powMod a (m - 2) m

/-- affine point; `none` is the point at infinity -/
abbrev Pt := Option (Nat × Nat)

structure Jac where
  x : Nat
  y : Nat
  z : Nat

def Jac.inf : Jac := ⟨1, 1, 0⟩

def Jac.ofAffine : Pt → Jac
  | none => Jac.inf
  | some (x, y) => ⟨x, y, 1⟩

def Jac.toAffine (P : Jac) : Pt :=
  if P.z == 0 then none else
    let zi := invMod P.z p
    let zi2 := zi * zi % p
    some (P.x * zi2 % p, P.y * zi2 % p * zi % p)

def Jac.double (P : Jac) : Jac :=
  if P.z == 0 || P.y == 0 then Jac.inf else
    let ysq := P.y * P.y % p
    let s := 4 * P.x * ysq % p
    let m := 3 * P.x * P.x % p
    let nx := (m * m + 2 * (p - s)) % p
    let ny := (m * (s + p - nx) + (p - 8 * ysq % p * ysq % p)) % p
    let nz := 2 * P.y * P.z % p
    ⟨nx, ny, nz⟩

def Jac.add (P Q : Jac) : Jac :=
  if P.z == 0 then Q else if Q.z == 0 then P else
    let z1z1 := P.z * P.z % p
    let z2z2 := Q.z * Q.z % p
    let u1 := P.x * z2z2 % p
    let u2 := Q.x * z1z1 % p
    let s1 := P.y * Q.z % p * z2z2 % p
    let s2 := Q.y * P.z % p * z1z1 % p
    if u1 == u2 then
      if s1 == s2 then P.double else Jac.inf
    else
      let h := (u2 + p - u1) % p
      let r := (s2 + p - s1) % p
      let h2 := h * h % p
      let h3 := h2 * h % p
      let u1h2 := u1 * h2 % p
      let nx := (r * r + (p - h3) + 2 * (p - u1h2)) % p
      let ny := (r * (u1h2 + p - nx) + (p - s1 * h3 % p)) % p
      let nz := h * P.z % p * Q.z % p
      ⟨nx, ny, nz⟩

def Jac.mul (k : Nat) (P : Jac) : Jac := Id.run do
  let mut acc := Jac.inf
  let bits := k.log2 + 1
  for i in [0:bits] do
    acc := acc.double
    if (k >>> (bits - 1 - i)) % 2 == 1 then acc := acc.add P
  return acc

def G : Pt := some (gx, gy)

def mul (k : Nat) (P : Pt) : Pt := if k == 0 then none else (Jac.mul k (Jac.ofAffine P)).toAffine
def mulG (k : Nat) : Pt := mul k G
def add (P Q : Pt) : Pt := ((Jac.ofAffine P).add (Jac.ofAffine Q)).toAffine
def neg : Pt → Pt
  | none => none
  | some (x, y) => some (x, (p - y) % p)

/-- lift an x coordinate to the curve point with the requested y parity -/
def lift (x : Nat) (odd : Bool) : Pt :=
  if x ≥ p then none else
    let rhs := (x * x % p * x + 7) % p
    let y := powMod rhs ((p + 1) / 4) p
    if y * y % p != rhs then none else
      let y' := if (y % 2 == 1) == odd then y else (p - y) % p
      some (x, y')

end Hdw.Prim.Secp
