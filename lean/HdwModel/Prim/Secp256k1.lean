/-
Executable secp256k1 arithmetic on `Nat` (Jacobian coordinates internally).
Dependency code (crate `k256`); driver only.  Cross-tested against `k256` by the
correspondence check, and proved to compute the group law of the curve in
`HdwModel/Props/SecpJac.lean` (against the verified affine arithmetic of `SecpAffine.lean`).
-/
namespace Hdw.Prim.Secp

def p : Nat := 0xFFFFFFFFFFFFFFFFFFFFFFFFFFFFFFFFFFFFFFFFFFFFFFFFFFFFFFFEFFFFFC2F
def n : Nat := 0xFFFFFFFFFFFFFFFFFFFFFFFFFFFFFFFEBAAEDCE6AF48A03BBFD25E8CD0364141
def gx : Nat := 0x79BE667EF9DCBBAC55A06295CE870B07029BFCDB2DCE28D959F2815B16F81798
def gy : Nat := 0x483ADA7726A3C4655DA4FBFC0E1108A8FD17B448A68554199C47D08FFB10D4B8

/-- binary modular exponentiation with fuel (LSB first): `acc * b ^ e % m` when `e < 2 ^ fuel` -/
def powModAux : Nat → Nat → Nat → Nat → Nat → Nat
  | 0, _, _, m, acc => acc % m
  | fuel + 1, b, e, m, acc =>
    if e = 0 then acc % m
    else powModAux fuel (b * b % m) (e / 2) m (if e % 2 = 1 then acc * b % m else acc)

/-- `b ^ e % m` by square-and-multiply (`log2 e + 1` rounds) -/
def powMod (b e m : Nat) : Nat := powModAux (e.log2 + 1) b e m 1

def invMod (a m : Nat) : Nat := powMod a (m - 2) m

/-- affine point; `none` is the point at infinity -/
abbrev Pt := Option (Nat × Nat)

structure Jac where
  x : Nat
  y : Nat
  z : Nat

def Jac.inf : Jac := ⟨1, 1, 0⟩

def Jac.ofAffine : Pt → Jac
  | none => Jac.inf
  | some (x, y) => ⟨x, y, 1⟩

def Jac.toAffine (P : Jac) : Pt :=
  if P.z == 0 then none else
    let zi := invMod P.z p
    let zi2 := zi * zi % p
    some (P.x * zi2 % p, P.y * zi2 % p * zi % p)

def Jac.double (P : Jac) : Jac :=
  if P.z == 0 || P.y == 0 then Jac.inf else
    let ysq := P.y * P.y % p
    let s := 4 * P.x * ysq % p
    let m := 3 * P.x * P.x % p
    let nx := (m * m + 2 * (p - s)) % p
    let ny := (m * (s + p - nx) + (p - 8 * ysq % p * ysq % p)) % p
    let nz := 2 * P.y * P.z % p
    ⟨nx, ny, nz⟩

def Jac.add (P Q : Jac) : Jac :=
  if P.z == 0 then Q else if Q.z == 0 then P else
    let z1z1 := P.z * P.z % p
    let z2z2 := Q.z * Q.z % p
    let u1 := P.x * z2z2 % p
    let u2 := Q.x * z1z1 % p
    let s1 := P.y * Q.z % p * z2z2 % p
    let s2 := Q.y * P.z % p * z1z1 % p
    if u1 == u2 then
      if s1 == s2 then P.double else Jac.inf
    else
      let h := (u2 + p - u1) % p
      let r := (s2 + p - s1) % p
      let h2 := h * h % p
      let h3 := h2 * h % p
      let u1h2 := u1 * h2 % p
      let nx := (r * r + (p - h3) + 2 * (p - u1h2)) % p
      let ny := (r * (u1h2 + p - nx) + (p - s1 * h3 % p)) % p
      let nz := h * P.z % p * Q.z % p
      ⟨nx, ny, nz⟩

/-- MSB-first double-and-add with fuel: `k • P` when `k < 2 ^ fuel` -/
def Jac.mulAux : Nat → Nat → Jac → Jac
  | 0, _, _ => Jac.inf
  | fuel + 1, k, P =>
    if k = 0 then Jac.inf
    else
      let D := (Jac.mulAux fuel (k / 2) P).double
      if k % 2 = 1 then D.add P else D

def Jac.mul (k : Nat) (P : Jac) : Jac := Jac.mulAux (k.log2 + 1) k P

def G : Pt := some (gx, gy)

def mul (k : Nat) (P : Pt) : Pt := if k == 0 then none else (Jac.mul k (Jac.ofAffine P)).toAffine
def mulG (k : Nat) : Pt := mul k G
def add (P Q : Pt) : Pt := ((Jac.ofAffine P).add (Jac.ofAffine Q)).toAffine
def neg : Pt → Pt
  | none => none
  | some (x, y) => some (x, (p - y) % p)

/-- lift an x coordinate to the curve point with the requested y parity -/
def lift (x : Nat) (odd : Bool) : Pt :=
  if x ≥ p then none else
    let rhs := (x * x % p * x + 7) % p
    let y := powMod rhs ((p + 1) / 4) p
    if y * y % p != rhs then none else
      let y' := if (y % 2 == 1) == odd then y else (p - y) % p
      some (x, y')

end Hdw.Prim.Secp
