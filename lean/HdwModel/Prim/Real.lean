/- The concrete instantiation of `Prims` used by the driver. -/
import HdwModel.Model.Basic
import HdwModel.Prim.Sha256
import HdwModel.Prim.Sha512
import HdwModel.Prim.Keccak
import HdwModel.Prim.Secp256k1
import HdwModel.Model.Curve

namespace Hdw.Prim

def real : Prims where
  sha256 := sha256
  sha512 := sha512
  keccak256 := keccak256

end Hdw.Prim

namespace Hdw.Prim

/-- the executable secp256k1 as a `Curve` -/
def realCurve : Curve Secp.Pt where
  n := Secp.n
  mulG := Secp.mulG
  mul := Secp.mul
  add := Secp.add
  x := fun p => match p with | some (x, _) => x | none => 0
  y := fun p => match p with | some (_, y) => y | none => 0
  isInf := fun p => p.isNone
  lift := fun x odd => match Secp.lift x odd with | none => none | some q => some (some q)

end Hdw.Prim
