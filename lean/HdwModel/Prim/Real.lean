/- The concrete instantiation of `Prims` used by the driver. -/
import HdwModel.Model.Basic
import HdwModel.Prim.Sha256
import HdwModel.Prim.Sha512
import HdwModel.Prim.Keccak

namespace Hdw.Prim

def real : Prims where
  sha256 := sha256
  sha512 := sha512
  keccak256 := keccak256

end Hdw.Prim
