/-
Executable SHA-256 (FIPS 180-4). Dependency code (crate `sha2`), not hdwallet code:
used only by the driver; theorems treat hashes as uninterpreted parameters.
-/
namespace Hdw.Prim

def sha256K : Array UInt32 := #[
  0x428a2f98, 0x71374491, 0xb5c0fbcf, 0xe9b5dba5, 0x3956c25b, 0x59f111f1, 0x923f82a4, 0xab1c5ed5,
  0xd807aa98, 0x12835b01, 0x243185be, 0x550c7dc3, 0x72be5d74, 0x80deb1fe, 0x9bdc06a7, 0xc19bf174,
  0xe49b69c1, 0xefbe4786, 0x0fc19dc6, 0x240ca1cc, 0x2de92c6f, 0x4a7484aa, 0x5cb0a9dc, 0x76f988da,
  0x983e5152, 0xa831c66d, 0xb00327c8, 0xbf597fc7, 0xc6e00bf3, 0xd5a79147, 0x06ca6351, 0x14292967,
  0x27b70a85, 0x2e1b2138, 0x4d2c6dfc, 0x53380d13, 0x650a7354, 0x766a0abb, 0x81c2c92e, 0x92722c85,
  0xa2bfe8a1, 0xa81a664b, 0xc24b8b70, 0xc76c51a3, 0xd192e819, 0xd6990624, 0xf40e3585, 0x106aa070,
  0x19a4c116, 0x1e376c08, 0x2748774c, 0x34b0bcb5, 0x391c0cb3, 0x4ed8aa4a, 0x5b9cca4f, 0x682e6ff3,
  0x748f82ee, 0x78a5636f, 0x84c87814, 0x8cc70208, 0x90befffa, 0xa4506ceb, 0xbef9a3f7, 0xc67178f2]

@[inline] def rotr32 (x : UInt32) (n : UInt32) : UInt32 := (x >>> n) ||| (x <<< (32 - n))

def sha256Pad (len : Nat) : List UInt8 :=
  let zeros := (55 + 64 - len % 64) % 64
  let bits := len * 8
  ([0x80] : List UInt8) ++ List.replicate zeros (0 : UInt8) ++
    (List.range 8).map (fun i => UInt8.ofNat (bits >>> (8 * (7 - i))))

def sha256Compress (h : Array UInt32) (blk : ByteArray) (off : Nat) : Array UInt32 := Id.run do
  let mut w : Array UInt32 := Array.mkEmpty 64
  for i in [0:16] do
    let b0 := (blk.get! (off + 4*i)).toUInt32
    let b1 := (blk.get! (off + 4*i+1)).toUInt32
    let b2 := (blk.get! (off + 4*i+2)).toUInt32
    let b3 := (blk.get! (off + 4*i+3)).toUInt32
    w := w.push ((b0 <<< 24) ||| (b1 <<< 16) ||| (b2 <<< 8) ||| b3)
  for i in [16:64] do
    let w15 := w[i-15]!
    let w2 := w[i-2]!
    let s0 := rotr32 w15 7 ^^^ rotr32 w15 18 ^^^ (w15 >>> 3)
    let s1 := rotr32 w2 17 ^^^ rotr32 w2 19 ^^^ (w2 >>> 10)
    w := w.push (w[i-16]! + s0 + w[i-7]! + s1)
  let mut a := h[0]!
  let mut b := h[1]!
  let mut c := h[2]!
  let mut d := h[3]!
  let mut e := h[4]!
  let mut f := h[5]!
  let mut g := h[6]!
  let mut hh := h[7]!
  for i in [0:64] do
    let s1 := rotr32 e 6 ^^^ rotr32 e 11 ^^^ rotr32 e 25
    let ch := (e &&& f) ^^^ ((~~~ e) &&& g)
    let t1 := hh + s1 + ch + sha256K[i]! + w[i]!
    let s0 := rotr32 a 2 ^^^ rotr32 a 13 ^^^ rotr32 a 22
    let mj := (a &&& b) ^^^ (a &&& c) ^^^ (b &&& c)
    let t2 := s0 + mj
    hh := g; g := f; f := e; e := d + t1; d := c; c := b; b := a; a := t1 + t2
  return #[h[0]! + a, h[1]! + b, h[2]! + c, h[3]! + d, h[4]! + e, h[5]! + f, h[6]! + g, h[7]! + hh]

def sha256 (msg : List UInt8) : List UInt8 := Id.run do
  let data : ByteArray := ⟨(msg ++ sha256Pad msg.length).toArray⟩
  let mut h : Array UInt32 := #[0x6a09e667, 0xbb67ae85, 0x3c6ef372, 0xa54ff53a,
                                0x510e527f, 0x9b05688c, 0x1f83d9ab, 0x5be0cd19]
  for i in [0:data.size / 64] do
    h := sha256Compress h data (64 * i)
  let mut out : List UInt8 := []
  for i in [0:8] do
    let x := h[7 - i]!
    out := (x >>> 24).toUInt8 :: (x >>> 16).toUInt8 :: (x >>> 8).toUInt8 :: x.toUInt8 :: out
  return out

end Hdw.Prim
