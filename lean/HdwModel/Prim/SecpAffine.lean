/-
Executable AFFINE secp256k1 arithmetic on `Nat`, written with structural recursion only so that the
kernel can run it, and free of Mathlib imports so that the compiled driver can link it.

Like `HdwModel.Prim.Secp256k1` (Jacobian coordinates, fast; proved against this file in `Props/SecpJac.lean`), this arithmetic is
PROVED to be the group law of `y² = x³ + 7` over `ZMod p` (Mathlib's `WeierstrassCurve.Affine.Point`):
`Hdw.Props.SecpInstance.addA_sound`, `mulA_sound`, `mulG_exec`.  The driver's op `secp.affine` runs
it next to the Jacobian code, so every check run compares the fast arithmetic (and k256) with the
verified one.
-/
import HdwModel.Prim.Secp256k1

namespace Hdw.Lemmas.SecpPrime

/-- binary modular exponentiation with fuel: `acc * b ^ e % m` when `e < 2 ^ fuel` -/
def powModAux : Nat → Nat → Nat → Nat → Nat → Nat
  | 0, _, _, m, acc => acc % m
  | fuel + 1, b, e, m, acc =>
    if e = 0 then acc % m
    else powModAux fuel (b * b % m) (e / 2) m (if e % 2 = 1 then acc * b % m else acc)

/-- `b ^ e % m`, computed by square-and-multiply (`e + 1` squarings of fuel are always enough) -/
def powMod (b e m : Nat) : Nat := powModAux (Nat.log2 e + 1) b e m 1

end Hdw.Lemmas.SecpPrime

namespace Hdw.Lemmas.SecpInstance
open Hdw.Prim.Secp (p n gx gy)

/-- `a * b mod p` -/
def mulM (a b : Nat) : Nat := a * b % p
/-- `a - b mod p` -/
def subM (a b : Nat) : Nat := (a + (p - b % p)) % p
/-- `a⁻¹ mod p` by Fermat, with the kernel-friendly `powMod` -/
def invM (a : Nat) : Nat := Hdw.Lemmas.SecpPrime.powMod a (p - 2) p

/-- affine point on `Nat` coordinates; `none` is the point at infinity -/
abbrev PtA := Option (Nat × Nat)

/-- chord-and-tangent addition -/
def addA : PtA → PtA → PtA
  | none, Q => Q
  | some P, none => some P
  | some (x1, y1), some (x2, y2) =>
    if x1 % p = x2 % p then
      if (y1 + y2) % p = 0 then none
      else
        let l := mulM (mulM 3 (mulM x1 x1)) (invM (mulM 2 y1))
        let x3 := subM (subM (mulM l l) x1) x2
        some (x3, subM (mulM l (subM x1 x3)) y1)
    else
      let l := mulM (subM y1 y2) (invM (subM x1 x2))
      let x3 := subM (subM (mulM l l) x1) x2
      some (x3, subM (mulM l (subM x1 x3)) y1)

/-- double-and-add scalar multiplication, `k < 2 ^ fuel` -/
def mulA : Nat → Nat → PtA → PtA
  | 0, _, _ => none
  | f + 1, k, P =>
    if k = 0 then none
    else
      let H := mulA f (k / 2) P
      let D := addA H H
      if k % 2 = 1 then addA D P else D

end Hdw.Lemmas.SecpInstance
