/-
Executable Keccak-256 (original Keccak padding 0x01, as used by Ethereum).
Dependency code (crates `ethdigest`/`ethaddr`); driver only.
-/
namespace Hdw.Prim

def keccakRC : Array UInt64 := #[
  0x0000000000000001, 0x0000000000008082, 0x800000000000808a, 0x8000000080008000,
  0x000000000000808b, 0x0000000080000001, 0x8000000080008081, 0x8000000000008009,
  0x000000000000008a, 0x0000000000000088, 0x0000000080008009, 0x000000008000000a,
  0x000000008000808b, 0x800000000000008b, 0x8000000000008089, 0x8000000000008003,
  0x8000000000008002, 0x8000000000000080, 0x000000000000800a, 0x800000008000000a,
  0x8000000080008081, 0x8000000000008080, 0x0000000080000001, 0x8000000080008008]

def keccakRot : Array UInt64 := #[
   0,  1, 62, 28, 27,
  36, 44,  6, 55, 20,
   3, 10, 43, 25, 39,
  41, 45, 15, 21,  8,
  18,  2, 61, 56, 14]

@[inline] def rotl64 (x : UInt64) (n : UInt64) : UInt64 :=
  if n == 0 then x else (x <<< n) ||| (x >>> (64 - n))

/-- state index = x + 5*y -/
def keccakF (st : Array UInt64) : Array UInt64 := Id.run do
  let mut a := st
  for rnd in [0:24] do
    -- theta
    let mut c : Array UInt64 := Array.mkEmpty 5
    for x in [0:5] do
      c := c.push (a[x]! ^^^ a[x+5]! ^^^ a[x+10]! ^^^ a[x+15]! ^^^ a[x+20]!)
    let mut a1 := a
    for x in [0:5] do
      let d := c[(x+4)%5]! ^^^ rotl64 c[(x+1)%5]! 1
      for y in [0:5] do
        a1 := a1.set! (x + 5*y) (a[x + 5*y]! ^^^ d)
    -- rho + pi
    let mut b : Array UInt64 := Array.replicate 25 0
    for x in [0:5] do
      for y in [0:5] do
        let nx := y
        let ny := (2*x + 3*y) % 5
        b := b.set! (nx + 5*ny) (rotl64 a1[x + 5*y]! keccakRot[x + 5*y]!)
    -- chi
    let mut a2 := b
    for y in [0:5] do
      for x in [0:5] do
        a2 := a2.set! (x + 5*y) (b[x + 5*y]! ^^^ ((~~~ b[(x+1)%5 + 5*y]!) &&& b[(x+2)%5 + 5*y]!))
    -- iota
    a := a2.set! 0 (a2[0]! ^^^ keccakRC[rnd]!)
  return a

def keccak256 (msg : List UInt8) : List UInt8 := Id.run do
  let rate := 136
  let padLen := rate - msg.length % rate
  let pad : List UInt8 :=
    if padLen == 1 then [0x81]
    else [0x01] ++ List.replicate (padLen - 2) 0 ++ [0x80]
  let data : ByteArray := ⟨(msg ++ pad).toArray⟩
  let mut st : Array UInt64 := Array.replicate 25 0
  for blk in [0:data.size / rate] do
    for i in [0:17] do
      let mut lane : UInt64 := 0
      for j in [0:8] do
        lane := lane ||| ((data.get! (blk*rate + 8*i + j)).toUInt64 <<< (8*j).toUInt64)
      st := st.set! i (st[i]! ^^^ lane)
    st := keccakF st
  let mut out : List UInt8 := []
  for i in [0:4] do
    let lane := st[3 - i]!
    for j in [0:8] do
      out := (lane >>> (8 * (7 - j)).toUInt64).toUInt8 :: out
  return out

end Hdw.Prim
