/-
JSON as `serde_json` 1.0.140 (default features: no `arbitrary_precision`, no
`float_roundtrip`, no `preserve_order`) reads it into a `serde_json::Value`:
recursive-descent parser with the library's recursion limit, number literals kept
raw (their classification into u64 / i64 / f64 is `HdwModel.Model.SerdeNum`),
duplicate object keys: last one wins.
-/
import HdwModel.Model.Basic
import HdwModel.Model.Utf8

namespace Hdw.Json

/-- a number literal exactly as written -/
structure NumLit where
  neg : Bool
  intDigits : List Nat          -- no leading zero unless the single digit 0
  fracDigits : Option (List Nat) -- digits after `.` (non-empty when present)
  exp : Option (Bool × List Nat) -- (exponent is negative, digits (non-empty))
  deriving Repr, DecidableEq

inductive JVal where
  | null
  | bool (b : Bool)
  | num (n : NumLit)
  | str (s : Str)
  | arr (l : List JVal)
  | obj (kv : List (Str × JVal))   -- in source order; duplicates already resolved (last wins)
  deriving Repr

def isWs (c : Char) : Bool := c = ' ' || c = '\n' || c = '\t' || c = '\r'

def skipWs : Str → Str
  | [] => []
  | c :: cs => if isWs c then skipWs cs else c :: cs

def digitVal? (c : Char) : Option Nat :=
  if 48 ≤ c.toNat ∧ c.toNat ≤ 57 then some (c.toNat - 48) else none

/-- maximal run of ASCII digits -/
def takeDigits : Str → List Nat × Str
  | [] => ([], [])
  | c :: cs =>
    match digitVal? c with
    | some d => let (ds, rest) := takeDigits cs; (d :: ds, rest)
    | none => ([], c :: cs)

/-- number literal after an optional `-` has been consumed (`parse_integer` grammar) -/
def parseNumber (neg : Bool) (s : Str) : Option (NumLit × Str) :=
  match s with
  | [] => none
  | c :: cs =>
    let intPart : Option (List Nat × Str) :=
      if c = '0' then
        -- only one leading zero
        match cs with
        | d :: _ => if (digitVal? d).isSome then none else some ([0], cs)
        | [] => some ([0], cs)
      else
        match digitVal? c with
        | some d => let (ds, rest) := takeDigits cs; some (d :: ds, rest)
        | none => none
    match intPart with
    | none => none
    | some (ints, rest) =>
      let fracPart : Option (Option (List Nat) × Str) :=
        match rest with
        | '.' :: r =>
          let (ds, r') := takeDigits r
          if ds.isEmpty then none else some (some ds, r')
        | _ => some (none, rest)
      match fracPart with
      | none => none
      | some (frac, rest) =>
        match rest with
        | e :: r =>
          if e = 'e' ∨ e = 'E' then
            let (eneg, r) := match r with
              | '+' :: r' => (false, r')
              | '-' :: r' => (true, r')
              | _ => (false, r)
            let (ds, r') := takeDigits r
            if ds.isEmpty then none else some (⟨neg, ints, frac, some (eneg, ds)⟩, r')
          else some (⟨neg, ints, frac, none⟩, rest)
        | [] => some (⟨neg, ints, frac, none⟩, rest)

def hexNibble? (c : Char) : Option Nat :=
  let n := c.toNat
  if 48 ≤ n ∧ n ≤ 57 then some (n - 48)
  else if 97 ≤ n ∧ n ≤ 102 then some (n - 87)
  else if 65 ≤ n ∧ n ≤ 70 then some (n - 55)
  else none

def hex4? : Str → Option (Nat × Str)
  | a :: b :: c :: d :: rest =>
    match hexNibble? a, hexNibble? b, hexNibble? c, hexNibble? d with
    | some a, some b, some c, some d => some (a * 4096 + b * 256 + c * 16 + d, rest)
    | _, _, _, _ => none
  | _ => none

/-- string body after the opening quote; control characters must be escaped; `\u` escapes
with surrogate pairs; lone surrogates are errors -/
def parseStringBody : Nat → Str → Option (Str × Str)
  | 0, _ => none
  | _ + 1, [] => none
  | fuel + 1, c :: cs =>
    if c = '"' then some ([], cs)
    else if c.toNat < 0x20 then none
    else if c = '\\' then
      match cs with
      | [] => none
      | e :: rest =>
        let simple (ch : Char) : Option (Str × Str) :=
          match parseStringBody fuel rest with
          | some (s, r) => some (ch :: s, r)
          | none => none
        if e = '"' then simple '"'
        else if e = '\\' then simple '\\'
        else if e = '/' then simple '/'
        else if e = 'b' then simple (Char.ofNat 8)
        else if e = 'f' then simple (Char.ofNat 12)
        else if e = 'n' then simple '\n'
        else if e = 'r' then simple '\r'
        else if e = 't' then simple '\t'
        else if e = 'u' then
          match hex4? rest with
          | none => none
          | some (n1, rest1) =>
            if 0xDC00 ≤ n1 ∧ n1 ≤ 0xDFFF then none            -- lone trailing surrogate
            else if 0xD800 ≤ n1 ∧ n1 ≤ 0xDBFF then
              match rest1 with
              | '\\' :: 'u' :: rest2 =>
                match hex4? rest2 with
                | none => none
                | some (n2, rest3) =>
                  if 0xDC00 ≤ n2 ∧ n2 ≤ 0xDFFF then
                    let cp := 0x10000 + (n1 - 0xD800) * 1024 + (n2 - 0xDC00)
                    match parseStringBody fuel rest3 with
                    | some (s, r) => some (Char.ofNat cp :: s, r)
                    | none => none
                  else none
              | _ => none
            else
              match parseStringBody fuel rest1 with
              | some (s, r) => some (Char.ofNat n1 :: s, r)
              | none => none
        else none
    else
      match parseStringBody fuel cs with
      | some (s, r) => some (c :: s, r)
      | none => none

/-- insert with "last wins" at the position of the first occurrence's replacement
(`BTreeMap::insert`; order is irrelevant to every consumer in hdwallet) -/
def objInsert (k : Str) (v : JVal) : List (Str × JVal) → List (Str × JVal)
  | [] => [(k, v)]
  | (k', v') :: rest => if k' = k then (k, v) :: rest else (k', v') :: objInsert k v rest

mutual
/-- one value; `depth` = serde_json's `remaining_depth` -/
def parseValue : Nat → Nat → Str → Option (JVal × Str)
  | 0, _, _ => none
  | fuel + 1, depth, s =>
    match skipWs s with
    | [] => none
    | 'n' :: 'u' :: 'l' :: 'l' :: rest => some (.null, rest)
    | 't' :: 'r' :: 'u' :: 'e' :: rest => some (.bool true, rest)
    | 'f' :: 'a' :: 'l' :: 's' :: 'e' :: rest => some (.bool false, rest)
    | '"' :: rest =>
      match parseStringBody (rest.length + 1) rest with
      | some (str, r) => some (.str str, r)
      | none => none
    | '[' :: rest =>
      if depth ≤ 1 then none
      else
        match skipWs rest with
        | ']' :: r => some (.arr [], r)
        | _ =>
          match parseElems fuel (depth - 1) rest with
          | some (l, r) => some (.arr l, r)
          | none => none
    | '{' :: rest =>
      if depth ≤ 1 then none
      else
        match skipWs rest with
        | '}' :: r => some (.obj [], r)
        | _ =>
          match parseMembers fuel (depth - 1) rest with
          | some (kv, r) => some (.obj kv, r)
          | none => none
    | '-' :: rest =>
      match parseNumber true rest with
      | some (n, r) => some (.num n, r)
      | none => none
    | c :: rest =>
      match parseNumber false (c :: rest) with
      | some (n, r) => some (.num n, r)
      | none => none
/-- `value (, value)* ]` -/
def parseElems : Nat → Nat → Str → Option (List JVal × Str)
  | 0, _, _ => none
  | fuel + 1, depth, s =>
    match parseValue fuel depth s with
    | none => none
    | some (v, rest) =>
      match skipWs rest with
      | ']' :: r => some ([v], r)
      | ',' :: r =>
        match parseElems fuel depth r with
        | some (vs, r') => some (v :: vs, r')
        | none => none
      | _ => none
/-- `"key" : value (, "key" : value)* }` -/
def parseMembers : Nat → Nat → Str → Option (List (Str × JVal) × Str)
  | 0, _, _ => none
  | fuel + 1, depth, s =>
    match skipWs s with
    | '"' :: rest =>
      match parseStringBody (rest.length + 1) rest with
      | none => none
      | some (key, rest1) =>
        match skipWs rest1 with
        | ':' :: rest2 =>
          match parseValue fuel depth rest2 with
          | none => none
          | some (v, rest3) =>
            match skipWs rest3 with
            | '}' :: r => some ([(key, v)], r)
            | ',' :: r =>
              match parseMembers fuel depth r with
              | some (kvs, r') => some ((key, v) :: kvs, r')
              | none => none
            | _ => none
        | _ => none
    | _ => none
end

mutual
/-- resolve duplicate keys (last wins) everywhere -/
def dedup : JVal → JVal
  | .arr l => .arr (dedupList l)
  | .obj kv => .obj (dedupMembers kv)
  | v => v
def dedupList : List JVal → List JVal
  | [] => []
  | v :: vs => dedup v :: dedupList vs
def dedupMembers : List (Str × JVal) → List (Str × JVal)
  | [] => []
  | (k, v) :: rest => objInsertFront k (dedup v) (dedupMembers rest)
/-- members are folded from the right, so an earlier occurrence must not override a later one -/
def objInsertFront (k : Str) (v : JVal) (later : List (Str × JVal)) : List (Str × JVal) :=
  if later.any (fun p => p.1 = k) then later else (k, v) :: later
end

/-- syntax only: UTF-8, one value, only whitespace after it (duplicate keys still present) -/
def parseRaw (input : Bytes) : Option JVal :=
  match Utf8.decode? input with
  | none => none
  | some s =>
    match parseValue (2 * s.length + 2) 128 s with
    | some (v, rest) => if (skipWs rest).isEmpty then some v else none
    | none => none

def JVal.get? (k : Str) : List (Str × JVal) → Option JVal
  | [] => none
  | (k', v) :: rest => if k' = k then some v else JVal.get? k rest

end Hdw.Json
