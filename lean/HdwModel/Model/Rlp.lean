/-
src/transaction/rlp.rs: the RLP encoder, function by function.
-/
import HdwModel.Model.Basic

namespace Hdw.Rlp

/-- `leading_zeros()` of a `bits`-bit unsigned integer -/
def leadingZeros (bits v : Nat) : Nat := bits - (if v = 0 then 0 else v.log2 + 1)

/-- `v.to_be_bytes()[leading_zeros / 8 ..]` for a `w`-byte integer -/
def beStripped (w v : Nat) : Bytes := (beFixed w v).drop (leadingZeros (8 * w) v / 8)

/-- `len(len, offset)`: short form below 56, else length-of-length form.
`len.to_be_bytes()[leading_zeros/8..]` on the 8-byte `usize` is modelled literally as
`beStripped 8 l` (it equals the minimal big-endian representation `beBytes l` for `l < 2^64`:
`beStripped_eq_beBytes` in `Lemmas/Rlp.lean`).
The `u8` additions are checked: a sum above 255 is a panic in a checked build. -/
def len (l : Nat) (off : Nat) : Res Bytes :=
  if l < 56 then
    if l + off < 256 then .ok [UInt8.ofNat (l + off)] else .panic "rlp.rs:41 u8 add overflow"
  else
    let bl := beStripped 8 l
    if bl.length + off + 55 < 256 then .ok (UInt8.ofNat (bl.length + off + 55) :: bl)
    else .panic "rlp.rs:48 u8 add overflow"

/-- `bytes(bytes)`: a single byte below 0x80 is its own encoding -/
def bytes (b : Bytes) : Res Bytes :=
  match b with
  | [x] => if x < 0x80 then .ok [x] else (len 1 0x80).bind fun h => .ok (h ++ [x])
  | _ => (len b.length 0x80).bind fun h => .ok (h ++ b)

/-- `uint(value)`: the 32 big-endian bytes of the `U256` with `leading_zeros / 8` bytes stripped
(`beStripped 32 v`, equal to `beBytes v` for `v < 2^256` by `beStripped_eq_beBytes`), then `bytes` -/
def uint (v : Nat) : Res Bytes := bytes (beStripped 32 v)

/-- `list(items)`: header over the total length, then the (already encoded) items -/
def list (items : List Bytes) : Res Bytes :=
  (len (items.map List.length).sum 0xc0).bind fun h => .ok (h ++ items.flatten)

/-- sequence a list of results -/
def seqRes {α} : List (Res α) → Res (List α)
  | [] => .ok []
  | r :: rs =>
    match r with
    | .ok a =>
      match seqRes rs with
      | .ok as => .ok (a :: as)
      | .err e => .err e
      | .panic e => .panic e
    | .err e => .err e
    | .panic e => .panic e

/-- `iter(items)` = collect, then `list` -/
def iter (items : List (Res Bytes)) : Res Bytes := (seqRes items).bind list

end Hdw.Rlp
