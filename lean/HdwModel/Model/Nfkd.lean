/-
Unicode NFKD (UAX #15) over an abstract character table: full compatibility
decomposition of every character followed by the Canonical Ordering Algorithm.
(`unicode-normalization`'s `nfkd()`; the table is data, loaded by the driver.)
-/
import HdwModel.Model.Basic

namespace Hdw

structure NfkdTable where
  /-- full compatibility decomposition of one character (`[c]` if it has none) -/
  decomp : Char → List Char
  /-- canonical combining class -/
  ccc : Char → Nat

namespace NfkdTable
variable (T : NfkdTable)

/-- insert `c` in front of an already canonically ordered string: a non-starter moves right
past following non-starters of strictly smaller class (stable insertion) -/
def insertCO (c : Char) : List Char → List Char
  | [] => [c]
  | d :: ds =>
    if T.ccc c ≠ 0 ∧ T.ccc d ≠ 0 ∧ T.ccc d < T.ccc c then d :: insertCO c ds
    else c :: d :: ds

/-- Canonical Ordering Algorithm: every maximal run of non-starters is stably sorted by class -/
def canonicalOrder (s : List Char) : List Char := s.foldr T.insertCO []

def nfkd (s : Str) : Str := T.canonicalOrder (s.flatMap T.decomp)

end NfkdTable
end Hdw
