/-
src/cmd.rs `permissive_hex` and src/cmd/hex.rs: the `hex encode` / `hex decode` commands
as functions from the input bytes to the bytes written to standard output.
-/
import HdwModel.Model.Hex
import HdwModel.Model.Text
import HdwModel.Model.Utf8

namespace Hdw.Cli

/-- `permissive_hex`: drop all White_Space, strip one optional `0x`, `hex::decode` -/
def permissiveHex (s : Str) : Res Bytes :=
  let trimmed := s.filter (fun c => !isWhitespace c)
  let digits := match stripPrefix ['0', 'x'] trimmed with
    | some rest => rest
    | none => trimmed
  match hexDecode digits with
  | some b => .ok b
  | none => .err "invalid hex"

/-- `hex encode`: stdout is `0x` + two lower-case digits per byte + newline -/
def hexEncodeCmd (data : Bytes) : Bytes :=
  Utf8.encode ('0' :: 'x' :: hexEncode data ++ ['\n'])

/-- `hex decode`: input must be UTF-8, then `permissive_hex`; stdout is the bytes.
On error nothing is written. -/
def hexDecodeCmd (data : Bytes) : Res Bytes :=
  match Utf8.decode? data with
  | none => .err "invalid UTF-8"
  | some s => permissiveHex s

end Hdw.Cli
