/-
Number handling of `serde_json` 1.0.140 without `float_roundtrip`
(`parse_integer`, `parse_number`, `parse_decimal`, `parse_decimal_overflow`,
`parse_exponent`, `parse_long_integer`, `f64_from_parts`), on top of an exact
software model of IEEE-754 binary64 (round to nearest, ties to even).
-/
import HdwModel.Model.Json

namespace Hdw

/-! ### binary64, non-negative finite values and +∞ -/

/-- a non-negative binary64 value: `mant * 2^(exp)` with `mant < 2^53`
(`exp` is offset by 1074 so that it is a `Nat`: value = mant * 2^exp / 2^1074), or infinity -/
inductive F64 where
  | fin (mant : Nat) (exp : Nat)
  | inf
  deriving Repr, DecidableEq

namespace F64

def zero : F64 := .fin 0 0

/-- floor(log2 n) for n > 0 -/
def log2 (n : Nat) : Nat := n.log2

/-- round the rational `num / den` (den > 0) to the nearest binary64, ties to even -/
def roundRat (num den : Nat) : F64 :=
  if num = 0 ∨ den = 0 then zero
  else
    -- scaled exponent e (offset 1074): want 2^52 ≤ num / (den * 2^(e-1074)) < 2^53, e ≥ 0
    -- first estimate from bit lengths, then fix up
    let ln := log2 num
    let ld := log2 den
    -- num/den ≈ 2^(ln - ld); target mantissa has 53 bits: e - 1074 = (ln - ld) - 52 (±1)
    let e0 : Int := (ln : Int) - (ld : Int) - 52 + 1074
    let pick (e : Int) : Nat × Nat × Nat :=
      -- returns (quotient, remainder numerator, divisor) for exponent e (clamped at 0)
      let e := if e < 0 then 0 else e.toNat
      -- num / (den * 2^(e - 1074)) = num * 2^1074 / (den * 2^e)
      let n' := num * 2 ^ 1074
      let d' := den * 2 ^ e
      (n' / d', n' % d', d')
    let eInt : Int :=
      let (q, _, _) := pick e0
      if q ≥ 2 ^ 53 then e0 + 1 else if q < 2 ^ 52 then e0 - 1 else e0
    let e : Nat := if eInt < 0 then 0 else eInt.toNat
    let (q, r, d) := pick eInt
    -- round half to even
    let q' := if 2 * r > d then q + 1 else if 2 * r = d then (if q % 2 = 1 then q + 1 else q) else q
    let (m, e) := if q' ≥ 2 ^ 53 then (q' / 2, e + 1) else (q', e)
    -- largest finite: exponent field 2046 ⇒ e = 2046 - 1 + ... ; value < 2^1024 ⇔ e + 53 ≤ 1024 + 1074
    if m ≥ 2 ^ 52 ∧ e + 53 > 1024 + 1074 then .inf else .fin m e

/-- `u64 as f64` -/
def ofNat (n : Nat) : F64 := roundRat n 1

/-- exact value as a fraction over 2^1074 -/
def num1074 : F64 → Nat
  | .fin m e => m * 2 ^ e
  | .inf => 0

def mul (a b : F64) : F64 :=
  match a, b with
  | .fin ma ea, .fin mb eb => roundRat (ma * mb * 2 ^ (ea + eb)) (2 ^ 1074 * 2 ^ 1074)
  | _, _ => .inf

def div (a b : F64) : F64 :=
  match a, b with
  | .fin ma ea, .fin mb eb => if mb = 0 then .inf else roundRat (ma * 2 ^ ea) (mb * 2 ^ eb)
  | .fin _ _, .inf => zero
  | .inf, _ => .inf

def isZero : F64 → Bool
  | .fin m _ => m = 0
  | .inf => false

/-- `POW10[k]`: the literal `1e<k>` (correctly rounded), `k ≤ 308` -/
def pow10 (k : Nat) : F64 := roundRat (10 ^ k) 1

/-- the integer this value equals, if it is one -/
def toInt? : F64 → Option Nat
  | .fin m e =>
    -- m * 2^e / 2^1074
    if (m * 2 ^ e) % 2 ^ 1074 = 0 then some (m * 2 ^ e / 2 ^ 1074) else none
  | .inf => none

/-- IEEE bit pattern (sign given separately) -/
def bits (neg : Bool) : F64 → Nat
  | .inf => (if neg then 2 ^ 63 else 0) + 0x7FF * 2 ^ 52
  | .fin m e =>
    (if neg then 2 ^ 63 else 0) +
      (if m < 2 ^ 52 then m  -- subnormal or zero (e = 0)
       else (e + 1) * 2 ^ 52 + (m - 2 ^ 52))

end F64

/-! ### serde_json number classification -/

namespace SerdeNum
open Json

/-- `ParserNumber` -/
inductive Num where
  | u64 (v : Nat)
  | i64 (mag : Nat)            -- a negative integer −mag, 1 ≤ mag ≤ 2^63
  | f64 (neg : Bool) (f : F64) -- finite
  deriving Repr, DecidableEq

def u64Max : Nat := 2 ^ 64 - 1
def i32Max : Nat := 2 ^ 31 - 1

/-- accumulate digits into a u64 significand; returns the significand and the digits that did
not fit (starting with the first overflowing one) -/
def accumulate (sig : Nat) : List Nat → Nat × List Nat
  | [] => (sig, [])
  | d :: ds => if sig * 10 + d > u64Max then (sig, d :: ds) else accumulate (sig * 10 + d) ds

/-- `f64_from_parts`: `significand as f64` scaled by `10^exponent` in one or more
multiplications/divisions, each rounded.  `none` = NumberOutOfRange. -/
def f64FromParts (sig : Nat) (exponent : Int) : Option F64 :=
  let f := F64.ofNat sig
  -- loop of the original: while |exponent| > 308 (only reachable for negative exponents,
  -- or zero significand), divide by 1e308
  let rec go (fuel : Nat) (f : F64) (exponent : Int) : Option F64 :=
    match fuel with
    | 0 => some f
    | fuel + 1 =>
      if exponent.natAbs ≤ 308 then
        if exponent ≥ 0 then
          match F64.mul f (F64.pow10 exponent.natAbs) with
          | .inf => none
          | r => some r
        else some (F64.div f (F64.pow10 exponent.natAbs))
      else
        if f.isZero then some f
        else if exponent ≥ 0 then none
        else go fuel (F64.div f (F64.pow10 308)) (exponent + 308)
  go 16 f exponent

/-- i32 saturating add/sub of the exponent parts -/
def satI32 (x : Int) : Int :=
  if x > 2147483647 then 2147483647 else if x < -2147483648 then -2147483648 else x

/-- value of exponent digits as i32 with the overflow rule of `parse_exponent`:
`none` = the accumulated value overflowed `i32` -/
def expDigits (acc : Nat) : List Nat → Option Nat
  | [] => some acc
  | d :: ds => if acc * 10 + d > i32Max then none else expDigits (acc * 10 + d) ds

/-- `parse_exponent` given the significand and the exponent accumulated so far -/
def withExponent (neg : Bool) (sig : Nat) (startExp : Int) (e : Option (Bool × List Nat)) :
    Option Num :=
  match e with
  | none => (f64FromParts sig startExp).map (Num.f64 neg)
  | some (eneg, ds) =>
    match ds with
    | [] => none
    | d0 :: rest =>
      match expDigits d0 rest with
      | none =>
        -- parse_exponent_overflow
        if sig ≠ 0 ∧ !eneg then none else some (.f64 neg F64.zero)
      | some ev =>
        let finalExp := if eneg then satI32 (startExp - ev) else satI32 (startExp + ev)
        (f64FromParts sig finalExp).map (Num.f64 neg)

/-- classification of a literal; `none` = the parser reports NumberOutOfRange -/
def classify (n : NumLit) : Option Num :=
  let positive := !n.neg
  -- integer part (`parse_integer`)
  let (sig, restInt) := accumulate 0 n.intDigits
  if restInt.isEmpty then
    -- `parse_number`
    match n.fracDigits, n.exp with
    | none, none =>
      if positive then some (.u64 sig)
      else if sig = 0 ∨ sig > 2 ^ 63 then some (.f64 true (F64.ofNat sig))
      else some (.i64 sig)
    | some frac, e =>
      -- `parse_decimal`
      let (sig', restFrac) := accumulate sig frac
      let used := frac.length - restFrac.length
      withExponent n.neg sig' (-(used : Int)) e
    | none, some e => withExponent n.neg sig 0 (some e)
  else
    -- `parse_long_integer`: the remaining integer digits only raise the exponent
    let exponent : Int := restInt.length
    match n.fracDigits with
    | none => withExponent n.neg sig exponent n.exp
    | some frac =>
      -- `parse_decimal(positive, significand, exponent)`: the first fraction digit overflows
      -- again (sig is already > u64::MAX/10 or the digit does not fit), unless it happens to fit
      let (sig', restFrac) := accumulate sig frac
      let used := frac.length - restFrac.length
      withExponent n.neg sig' (exponent - (used : Int)) n.exp

mutual
/-- every number in the document must be representable (otherwise parsing fails) -/
def numbersOk : JVal → Bool
  | .num n => (classify n).isSome
  | .arr l => numbersOkList l
  | .obj kv => numbersOkMembers kv
  | _ => true
def numbersOkList : List JVal → Bool
  | [] => true
  | v :: vs => numbersOk v && numbersOkList vs
def numbersOkMembers : List (Str × JVal) → Bool
  | [] => true
  | (_, v) :: rest => numbersOk v && numbersOkMembers rest
end

end SerdeNum

/-- `serde_json::from_slice::<Value>` -/
def Json.parseValueDoc (input : Bytes) : Option Json.JVal :=
  match Json.parseRaw input with
  | some v => if SerdeNum.numbersOk v then some (Json.dedup v) else none
  | none => none

end Hdw
