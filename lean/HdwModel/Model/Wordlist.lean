/-
src/mnemonic/wordlist.rs over the word table regenerated from the repository's
`english.txt` (HdwModel/Gen/Wordlist.lean, rewritten by check.py on every run).
-/
import HdwModel.Model.Basic
import HdwModel.Gen.Wordlist

namespace Hdw.Wordlist

/-- `WORD_COUNT` -/
def wordCount : Nat := 2048

/-- the table as text (the file is ASCII; a non-ASCII byte would map to a non-ASCII char
and the `table_facts` check would fail) -/
def table : List Str := Hdw.Gen.wordBytes.map fun w => w.map fun b => Char.ofNat b.toNat

/-- first index at which `w` occurs -/
def indexOf? (w : Str) : List Str → Nat → Option Nat
  | [], _ => none
  | x :: xs, i => if x = w then some i else indexOf? w xs (i + 1)

/-- `Wordlist::search`: `binary_search` on a strictly sorted slice returns the index of the
word iff it is present (the precondition — strict sortedness — is proved for the regenerated
table in `HdwModel.Props.C01.table_facts`). -/
def search (w : Str) : Option Nat := indexOf? w table 0

/-- `Wordlist::word`: `assert!(index < WORD_COUNT)` then index -/
def word (i : Nat) : Res Str :=
  if i < wordCount then
    match table[i]? with
    | some w => .ok w
    | none => .panic "wordlist.rs:45 index out of bounds"
  else .panic "wordlist.rs:44 invalid word index"

end Hdw.Wordlist
