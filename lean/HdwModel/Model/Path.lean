/-
src/hdk/path.rs: BIP-32 path text.
-/
import HdwModel.Model.Text
import HdwModel.Model.Hex

namespace Hdw.Path

/-- `hdk::Component` -/
inductive Component where
  | hardened (v : Nat)
  | normal (v : Nat)
  deriving Repr, DecidableEq

def Component.value : Component → Nat
  | .hardened v => v
  | .normal v => v

abbrev Path := List Component

/-- `Display for Component` -/
def Component.print : Component → Str
  | .hardened v => decimal v ++ ['\'']
  | .normal v => decimal v

/-- `Display for Path`: `m` then `/component` for each -/
def print (p : Path) : Str :=
  'm' :: p.flatMap (fun c => '/' :: c.print)

/-- `Component::from_str`: optional trailing `'`, then `u32::from_str`;
the index must be below 2^31 (HARDENED_BIT), see `MAX_INDEX` in the code -/
def Component.parse (s : Str) : Res Component :=
  let (value, isHard) := match stripSuffix ['\''] s with
    | some v => (v, true)
    | none => (s, false)
  match parseUInt 32 value with
  | none => .err "invalid BIP-0032 path component"
  | some v =>
    if v < 2 ^ 31 then
      .ok (if isHard then .hardened v else .normal v)
    else .err "BIP-0032 path component out of range"

def parseAll : List Str → Res Path
  | [] => .ok []
  | s :: ss =>
    match Component.parse s with
    | .ok c =>
      match parseAll ss with
      | .ok cs => .ok (c :: cs)
      | .err e => .err e
      | .panic e => .panic e
    | .err e => .err e
    | .panic e => .panic e

/-- `Path::from_str`: strip `m/`, split on `/`, parse every component -/
def parse (s : Str) : Res Path :=
  match stripPrefix ['m', '/'] s with
  | none => .err "BIP-0032 path missing main node"
  | some rest => parseAll (splitOn '/' rest)

/-- `Path::for_index`: format `m/44'/60'/0'/0/{index}` and parse it (`usize` index) -/
def forIndex (i : Nat) : Res Path :=
  parse (chars! "m/44'/60'/0'/0/" ++ decimal i)

end Hdw.Path
