/-
Hexadecimal text, as the `hex` crate (0.4.3) and Rust's `{:x}` formatting behave.
-/
import HdwModel.Model.Basic

namespace Hdw

/-- lower-case digit for a value `< 16` -/
def hexDigit (n : Nat) : Char :=
  if n < 10 then Char.ofNat (48 + n) else Char.ofNat (87 + n)

/-- value of a hex digit in either case (`hex::val`) -/
def hexVal? (c : Char) : Option Nat :=
  let n := c.toNat
  if 48 ≤ n ∧ n ≤ 57 then some (n - 48)
  else if 97 ≤ n ∧ n ≤ 102 then some (n - 87)
  else if 65 ≤ n ∧ n ≤ 70 then some (n - 55)
  else none

def hexByte (b : UInt8) : Str := [hexDigit (b.toNat / 16), hexDigit (b.toNat % 16)]

/-- `hex::encode`: two lower-case digits per byte -/
def hexEncode (b : Bytes) : Str := b.flatMap hexByte

/-- `hex::decode`: even number of digits, either case; anything else is an error -/
def hexDecode : Str → Option Bytes
  | [] => some []
  | [_] => none
  | a :: b :: rest =>
    match hexVal? a, hexVal? b, hexDecode rest with
    | some h, some l, some r => some (UInt8.ofNat (h * 16 + l) :: r)
    | _, _, _ => none

/-- `hex::decode_to_slice` into a buffer of exactly `n` bytes -/
def hexDecodeExact (n : Nat) (s : Str) : Option Bytes :=
  match hexDecode s with
  | some b => if b.length = n then some b else none
  | none => none

/-- strip a literal prefix (`str::strip_prefix`) -/
def stripPrefix (p s : Str) : Option Str :=
  match p, s with
  | [], s => some s
  | _ :: _, [] => none
  | a :: p', b :: s' => if a = b then stripPrefix p' s' else none

/-- strip a literal suffix (`str::strip_suffix`) -/
def stripSuffix (p s : Str) : Option Str :=
  (stripPrefix p.reverse s.reverse).map List.reverse

end Hdw
