/-
src/message.rs: EIP-191 personal-message digest.
-/
import HdwModel.Model.Text

namespace Hdw.Message

/-- `b"\x19Ethereum Signed Message:\n"` -/
def prefixBytes : Bytes :=
  0x19 :: bytes! "Ethereum Signed Message:\n"

/-- the buffer built by `digest` before hashing -/
def preimage (m : Bytes) : Bytes :=
  prefixBytes ++ (decimal m.length).map (fun c => UInt8.ofNat c.toNat) ++ m

/-- `EthereumMessage::signing_message` -/
def digest (P : Prims) (m : Bytes) : Bytes := P.keccak256 (preimage m)

end Hdw.Message
