/-
src/typeddata.rs: EIP-712 typed data, as written.
-/
import HdwModel.Model.Serialization
import HdwModel.Model.Text

namespace Hdw.TypedData
open Json Ser

/-- `enum MemberKind` -/
inductive MemberKind where
  | bytes (n : Option Nat)
  | uint (n : Nat)
  | int (n : Nat)
  | bool
  | address
  | string
  | struct (name : Str)
  | array (inner : MemberKind) (size : Option Nat)
  deriving Repr, DecidableEq

/-- `struct Member { name, kind }` -/
structure Member where
  name : Str
  kind : MemberKind
  deriving Repr, DecidableEq

/-- `Types(HashMap<String, Vec<Member>>)` as an association list with unique keys -/
abbrev Types := List (Str × List Member)

def Types.get? (types : Types) (k : Str) : Option (List Member) :=
  match types with
  | [] => none
  | (k', v) :: rest => if k' = k then some v else Types.get? rest k

/-! ### member type grammar -/

/-- index of the first ASCII digit (`value.find(char::is_numeric)`; a non-ASCII numeric
character can never lead to a match, see DESIGN §4) -/
def findDigit : Str → Option Nat
  | [] => none
  | c :: cs => if isAsciiDigit c then some 0 else (findDigit cs).map (· + 1)

/-- `rsplit_once('[')` -/
def rsplitBracket (s : Str) : Option (Str × Str) :=
  let r := s.reverse
  match r.span (· ≠ '[') with
  | (_, []) => none
  | (after, _ :: before) => some (before.reverse, after.reverse)

/-- atoms and width-suffixed atoms (steps 1 and 2 of `from_str`) -/
def parseAtom (value : Str) : Option MemberKind :=
  if value = chars! "bool" then some .bool
  else if value = chars! "address" then some .address
  else if value = chars! "bytes" then some (.bytes none)
  else if value = chars! "string" then some .string
  else
    match findDigit value with
    | none => none
    | some i =>
      let pre := value.take i
      match parseUInt 32 (value.drop i) with
      | none => none
      | some n =>
        if pre = chars! "bytes" ∧ 1 ≤ n ∧ n ≤ 32 then some (.bytes (some n))
        else if pre = chars! "uint" ∧ n % 8 = 0 ∧ 8 ≤ n ∧ n ≤ 256 then some (.uint n)
        else if pre = chars! "int" ∧ n % 8 = 0 ∧ 8 ≤ n ∧ n ≤ 256 then some (.int n)
        else none

/-- `MemberKind::from_str` (recursion on the array suffixes; `fuel` = string length) -/
def parseKind : Nat → Str → MemberKind
  | 0, value => .struct value
  | fuel + 1, value =>
    match parseAtom value with
    | some k => k
    | none =>
      match stripSuffix ['[', ']'] value with
      | some pre => .array (parseKind fuel pre) none
      | none =>
        match stripSuffix [']'] value with
        | some v =>
          match rsplitBracket v with
          | some (pre, n) =>
            match parseUInt 64 n with
            | some size => .array (parseKind fuel pre) (some size)
            | none => .struct value
          | none => .struct value
        | none => .struct value

def MemberKind.parse (value : Str) : MemberKind := parseKind (value.length + 1) value

/-- `Display for MemberKind` -/
def MemberKind.print : MemberKind → Str
  | .bytes none => chars! "bytes"
  | .bytes (some n) => chars! "bytes" ++ decimal n
  | .uint n => chars! "uint" ++ decimal n
  | .int n => chars! "int" ++ decimal n
  | .bool => chars! "bool"
  | .address => chars! "address"
  | .string => chars! "string"
  | .struct k => k
  | .array k none => k.print ++ ['[', ']']
  | .array k (some n) => k.print ++ ['['] ++ decimal n ++ [']']

/-- `struct_reference` -/
def MemberKind.structReference : MemberKind → Option Str
  | .struct name => some name
  | .array inner _ => inner.structReference
  | _ => none

def structReferences (members : List Member) : List Str :=
  members.filterMap fun m => m.kind.structReference

/-! ### encodeType -/

/-- `Display for TypeDefinition`: `Name(type1 name1,type2 name2)` -/
def typeDefString (kind : Str) (members : List Member) : Str :=
  kind ++ ['('] ++ joinWith [','] (members.map fun m => m.kind.print ++ [' '] ++ m.name) ++ [')']

/-- string order of `BTreeMap<&str, _>`: byte-lexicographic on UTF-8 = code-point lexicographic -/
def strLt : Str → Str → Bool
  | [], [] => false
  | [], _ :: _ => true
  | _ :: _, [] => false
  | a :: as, b :: bs => if a.toNat < b.toNat then true else if a.toNat > b.toNat then false else strLt as bs

/-- `BTreeMap::insert` of a new key into a sorted association list -/
def sortedInsert (k : Str) (v : List Member) : List (Str × List Member) → List (Str × List Member)
  | [] => [(k, v)]
  | (k', v') :: rest =>
    if strLt k k' then (k, v) :: (k', v') :: rest
    else if k = k' then (k, v) :: rest
    else (k', v') :: sortedInsert k v rest

/-- the work-list loop of `encode_type`: `unresolved` is the stack (top = last element),
`subTypes` the sorted map collected so far.  Names equal to the primary type or already
collected are skipped.  `fuel` bounds the pops. -/
def collect (types : Types) (primary : Str) :
    Nat → List Str → List (Str × List Member) → Res (List (Str × List Member))
  | 0, _, _ => .panic "encode_type: work-list fuel exhausted"
  | fuel + 1, unresolved, subTypes =>
    match unresolved.reverse with
    | [] => .ok subTypes
    | name :: restRev =>
      let rest := restRev.reverse
      if name = primary ∨ (subTypes.any fun p => p.1 = name) then collect types primary fuel rest subTypes
      else
        match types.get? name with
        | none => .err "missing EIP-712 type definition"
        | some members =>
          collect types primary fuel (rest ++ structReferences members) (sortedInsert name members subTypes)

/-- total number of struct references in all definitions + 1: a bound on the pushes -/
def collectFuel (types : Types) (members : List Member) : Nat :=
  (structReferences members).length + (types.map fun p => (structReferences p.2).length + 1).sum + 1

/-- `Types::encode_type` -/
def encodeType (types : Types) (kind : Str) : Res Str :=
  match types.get? kind with
  | none => .err "missing EIP-712 type definition"
  | some members =>
    match collect types kind (collectFuel types members) (structReferences members) [] with
    | .ok subs => .ok (typeDefString kind members ++ (subs.map fun p => typeDefString p.1 p.2).flatten)
    | .err e => .err e
    | .panic e => .panic e

def typeHash (P : Prims) (types : Types) (kind : Str) : Res Bytes :=
  (encodeType types kind).bind fun s => .ok (P.keccak256 (Utf8.encode s))

/-! ### encodeData / hashStruct -/

/-- two's-complement 32-byte big-endian of an `I256` -/
def i256Bytes (v : Int) : Bytes :=
  beFixed 32 (if v ≥ 0 then v.toNat else (2 ^ 256 - (-v).toNat))

def removeKey (k : Str) : List (Str × JVal) → List (Str × JVal)
  | [] => []
  | (k', v) :: rest => if k' = k then rest else (k', v) :: removeKey k rest

mutual
/-- `Types::encode_value`; `fuel` bounds the recursion (value nesting) -/
def encodeValue (P : Prims) (types : Types) : Nat → MemberKind → JVal → Res Bytes
  | 0, _, _ => .panic "encode_value: fuel exhausted"
  | fuel + 1, kind, value =>
    match kind with
    | .bytes n =>
      match bytesOfJson value with
      | .ok b =>
        match n with
        | some n =>
          -- `*n == bytes.len() as u32`, then `copy_from_slice` into `buffer[..n]`
          if n = b.length % 2 ^ 32 then
            if b.length = n then .ok (b ++ List.replicate (32 - n) 0)
            else .panic "typeddata.rs:204 copy_from_slice length mismatch"
          else .err "expected byte array of different length"
        | none => .ok (P.keccak256 b)
      | .err e => .err e
      | .panic e => .panic e
    | .uint n =>
      match uintOfJson value with
      | .ok v => if v < 2 ^ n then .ok (beFixed 32 v) else .err "value overflows uintN"
      | .err e => .err e
      | .panic e => .panic e
    | .int n =>
      match intOfJson value with
      | .ok v =>
        if -(2 ^ (n - 1) : Int) ≤ v ∧ v < (2 ^ (n - 1) : Int) then .ok (i256Bytes v)
        else .err "value overflows intN"
      | .err e => .err e
      | .panic e => .panic e
    | .bool =>
      match value with
      | .bool true => .ok (beFixed 32 1)
      | .bool false => .ok (beFixed 32 0)
      | _ => .err "invalid type: expected a boolean"
    | .address =>
      match addressOfJson value with
      | .ok a => .ok (List.replicate 12 0 ++ a)
      | .err e => .err e
      | .panic e => .panic e
    | .string =>
      match value with
      | .str s => .ok (P.keccak256 (Utf8.encode s))
      | _ => .err "invalid type: expected a string"
    | .struct inner =>
      match value with
      | .obj kv => structHash P types fuel inner kv
      | _ => .err "expected JSON object"
    | .array inner size =>
      match value with
      | .arr elems =>
        if (match size with | some n => elems.length == n | none => true) then
          match encodeElems P types fuel inner elems with
          | .ok bs => .ok (P.keccak256 bs)
          | .err e => .err e
          | .panic e => .panic e
        else .err "expected fixed array of different size"
      | _ => .err "expected JSON array"
def encodeElems (P : Prims) (types : Types) : Nat → MemberKind → List JVal → Res Bytes
  | _, _, [] => .ok []
  | 0, _, _ :: _ => .panic "encode_value: fuel exhausted"
  | fuel + 1, inner, v :: vs =>
    match encodeValue P types fuel inner v with
    | .ok b =>
      match encodeElems P types fuel inner vs with
      | .ok bs => .ok (b ++ bs)
      | .err e => .err e
      | .panic e => .panic e
    | .err e => .err e
    | .panic e => .panic e
/-- `Types::struct_hash` -/
def structHash (P : Prims) (types : Types) : Nat → Str → List (Str × JVal) → Res Bytes
  | 0, _, _ => .panic "struct_hash: fuel exhausted"
  | fuel + 1, kind, data =>
    match types.get? kind with
    | none => .err "missing EIP-712 type definition"
    | some members =>
      match typeHash P types kind with
      | .ok th =>
        match encodeMembers P types fuel members data with
        | .ok (enc, leftover) =>
          if leftover.isEmpty then .ok (P.keccak256 (th ++ enc))
          else .err "additional unspecified properties"
        | .err e => .err e
        | .panic e => .panic e
      | .err e => .err e
      | .panic e => .panic e
/-- the member loop: `data.remove(&member.name)` then `encode_value` -/
def encodeMembers (P : Prims) (types : Types) :
    Nat → List Member → List (Str × JVal) → Res (Bytes × List (Str × JVal))
  | _, [], data => .ok ([], data)
  | 0, _ :: _, _ => .panic "struct_hash: fuel exhausted"
  | fuel + 1, m :: ms, data =>
    match JVal.get? m.name data with
    | none => .err "value missing property"
    | some v =>
      match encodeValue P types fuel m.kind v with
      | .ok b =>
        match encodeMembers P types fuel ms (removeKey m.name data) with
        | .ok (bs, leftover) => .ok (b ++ bs, leftover)
        | .err e => .err e
        | .panic e => .panic e
      | .err e => .err e
      | .panic e => .panic e
end

/-! ### domain type check -/

/-- `DOMAIN_MEMBERS` -/
def domainMembers : List (Str × MemberKind) :=
  [(chars! "name", .string), (chars! "version", .string), (chars! "chainId", .uint 256),
   (chars! "verifyingContract", .address), (chars! "salt", .bytes (some 32))]

/-- `allowed_members.find(|(name, _)| member.name == *name)`: consumes the iterator up to and
including the first match; returns the matched kind and what remains -/
def findAllowed (name : Str) : List (Str × MemberKind) → Option (MemberKind × List (Str × MemberKind))
  | [] => none
  | (n, k) :: rest => if name = n then some (k, rest) else findAllowed name rest

/-- the `try_fold` over the declared members with the remaining allowed list as state -/
def scanDomain : List Member → List (Str × MemberKind) → Res Unit
  | [], _ => .ok ()
  | m :: ms, allowed =>
    match findAllowed m.name allowed with
    | none => .err "unexpected EIP-712 domain member"
    | some (kind, rest) =>
      if m.kind = kind then scanDomain ms rest
      else .err "EIP-712 domain member of wrong type"

/-- `verify_domain_type` -/
def verifyDomainType (types : Types) : Res Unit :=
  match types.get? (chars! "EIP712Domain") with
  | none => .err "missing EIP-712 type definition for EIP712Domain"
  | some members =>
    if members.isEmpty then .err "EIP-712 domain must have at least one member"
    else scanDomain members domainMembers

/-! ### the document -/

/-- `TypedDataBlob` -/
structure Blob where
  types : Types
  primaryType : Str
  domain : List (Str × JVal)
  message : List (Str × JVal)

/-- the three digests of `TypedData` -/
structure Digests where
  digest : Bytes
  domainSeparator : Bytes
  messageHash : Bytes
  deriving Repr, DecidableEq

mutual
def jsize : JVal → Nat
  | .arr l => 1 + jsizeList l
  | .obj kv => 1 + jsizeMembers kv
  | _ => 1
def jsizeList : List JVal → Nat
  | [] => 0
  | v :: vs => jsize v + jsizeList vs
def jsizeMembers : List (Str × JVal) → Nat
  | [] => 0
  | (_, v) :: rest => jsize v + jsizeMembers rest
end

/-- `TypedDataBlob::compute` -/
def compute (P : Prims) (b : Blob) : Res Digests :=
  match verifyDomainType b.types with
  | .err e => .err e
  | .panic e => .panic e
  | .ok () =>
    let fuel := 3 * (jsizeMembers b.domain + jsizeMembers b.message) + 4
    match structHash P b.types fuel (chars! "EIP712Domain") b.domain with
    | .err e => .err e
    | .panic e => .panic e
    | .ok ds =>
      match structHash P b.types fuel b.primaryType b.message with
      | .err e => .err e
      | .panic e => .panic e
      | .ok mh => .ok ⟨P.keccak256 ([0x19, 0x01] ++ ds ++ mh), ds, mh⟩

/-! ### deserialisation (serde derive semantics) -/

/-- a derived struct visitor: from a map (unknown keys ignored, duplicate known key is an
error, every key required) or from a sequence of exactly the fields in order -/
def structFields (keys : List Str) (v : JVal) : Res (List JVal) :=
  match v with
  | .obj kv =>
    if keys.any (fun k => (kv.filter fun p => p.1 = k).length > 1) then .err "duplicate field"
    else
      let vals := keys.map fun k => JVal.get? k kv
      if vals.all Option.isSome then .ok (vals.filterMap id) else .err "missing field"
  | .arr l => if l.length = keys.length then .ok l else .err "invalid length"
  | _ => .err "invalid type: expected struct"

def memberOfJson (v : JVal) : Res Member :=
  match structFields [chars! "name", chars! "type"] v with
  | .ok [.str name, .str ty] => .ok ⟨name, MemberKind.parse ty⟩
  | .ok _ => .err "invalid type: expected string"
  | .err e => .err e
  | .panic e => .panic e

def membersOfJson : List JVal → Res (List Member)
  | [] => .ok []
  | v :: vs =>
    match memberOfJson v with
    | .ok m =>
      match membersOfJson vs with
      | .ok ms => .ok (m :: ms)
      | .err e => .err e
      | .panic e => .panic e
    | .err e => .err e
    | .panic e => .panic e

/-- `HashMap<String, Vec<Member>>`: later duplicates of a type name replace earlier ones -/
def typesOfJson : List (Str × JVal) → Res Types
  | [] => .ok []
  | (k, v) :: rest =>
    match v with
    | .arr l =>
      match membersOfJson l with
      | .ok ms =>
        match typesOfJson rest with
        | .ok ts => .ok (if ts.any (fun p => p.1 = k) then ts else (k, ms) :: ts)
        | .err e => .err e
        | .panic e => .panic e
      | .err e => .err e
      | .panic e => .panic e
    | _ => .err "invalid type: expected sequence"

/-- `TypedDataBlob: Deserialize` from the raw (duplicates still present) document -/
def blobOfJson (raw : JVal) : Res Blob :=
  match structFields [chars! "types", chars! "primaryType", chars! "domain", chars! "message"] raw with
  | .ok [.obj types, .str primary, domain, message] =>
    match typesOfJson types with
    | .ok ts =>
      match Json.dedup domain, Json.dedup message with
      | .obj d, .obj m => .ok ⟨ts, primary, d, m⟩
      | _, _ => .err "invalid type: expected map"
    | .err e => .err e
    | .panic e => .panic e
  | .ok _ => .err "invalid type"
  | .err e => .err e
  | .panic e => .panic e

/-- `serde_json::from_slice::<TypedData>` -/
def parseAndCompute (P : Prims) (input : Bytes) : Res Digests :=
  match Json.parseRaw input with
  | none => .err "invalid JSON"
  | some raw =>
    if !SerdeNum.numbersOk raw then .err "number out of range"
    else
      match blobOfJson raw with
      | .ok b => compute P b
      | .err e => .err e
      | .panic e => .panic e

end Hdw.TypedData
