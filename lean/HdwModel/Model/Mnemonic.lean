/-
src/mnemonic.rs: BIP-39 mnemonic parsing, printing, generation and seed stretching.
-/
import HdwModel.Model.Text
import HdwModel.Model.Utf8
import HdwModel.Model.Wordlist
import HdwModel.Prim.Hmac

namespace Hdw.Mnemonic

/-- `struct Mnemonic { language, buf: [u8; 64], len }` (English only) -/
structure Mnemonic where
  buf : Bytes
  len : Nat
  deriving Repr, DecidableEq

/-- `WORD_BITS` -/
def wordBits : Nat := 11

/-- `mnemonic_to_byte_length`: only the five BIP-39 lengths are accepted -/
def mnemonicToByteLength (n : Nat) : Res Nat :=
  if n = 12 ∨ n = 15 ∨ n = 18 ∨ n = 21 ∨ n = 24 then .ok ((n * wordBits * 32 / 33) / 8)
  else .err "invalid mnemonic length"

/-- `buf` = seed ‖ SHA-256(seed) ‖ zero padding up to 64 bytes (`hash_seed` writes 32 bytes
right after the seed into the zero-initialised buffer) -/
def mkBuf (P : Prims) (seed : Bytes) : Bytes :=
  let b := seed ++ (P.sha256 seed).take 32
  b ++ List.replicate (64 - b.length) 0

/-- loop state of `from_phrase_str` -/
structure St where
  acc : Nat        -- `usize`, kept modulo 2^64
  bitOff : Nat
  byteOff : Nat
  seed : Bytes     -- the bytes `seed[0..byte_offset]` written so far
  deriving Repr

/-- inner `while bit_offset > 8 { bit_offset -= 8; seed[byte_offset] = (acc >> bit_offset) & 0xff; byte_offset += 1 }`
(`len` is the length of the `seed` slice: writing at `byte_offset ≥ len` is an out-of-bounds panic).
The loop runs at most twice per word; `fuel` only makes the recursion structural. -/
def drain (len : Nat) : Nat → St → Res St
  | 0, st => if st.bitOff > 8 then .panic "mnemonic.rs: drain fuel" else .ok st
  | fuel + 1, st =>
    if st.bitOff > 8 then
      let bitOff := st.bitOff - 8
      if st.byteOff < len then
        drain len fuel { st with
          bitOff := bitOff
          seed := st.seed ++ [UInt8.ofNat ((st.acc >>> bitOff) &&& 0xff)]
          byteOff := st.byteOff + 1 }
      else .panic "mnemonic.rs:86 index out of bounds"
    else .ok st

/-- one iteration of `for word in &words` after the word has been looked up -/
def step (len : Nat) (st : St) (index : Nat) : Res St :=
  let acc := ((st.acc <<< wordBits) ||| index) % 2 ^ 64
  drain len 3 { st with acc := acc, bitOff := st.bitOff + wordBits }

/-- look every word up (`wordlist.search(word).with_context(..)?`) and run the loop -/
def run (len : Nat) : List Str → St → Res St
  | [], st => .ok st
  | w :: ws, st =>
    match Wordlist.search w with
    | none => .err "invalid BIP-0039 word"
    | some index =>
      match step len st index with
      | .ok st' => run len ws st'
      | .err e => .err e
      | .panic e => .panic e

/-- `Mnemonic::from_phrase` -/
def fromPhrase (P : Prims) (phrase : Str) : Res Mnemonic :=
  let words := splitWhitespace phrase
  match mnemonicToByteLength words.length with
  | .err e => .err e
  | .panic e => .panic e
  | .ok len =>
    match run len words ⟨0, 0, 0, []⟩ with
    | .err e => .err e
    | .panic e => .panic e
    | .ok st =>
      -- debug_assert_eq!(len * 8 + bit_offset, words.len() * WORD_BITS); debug_assert_eq!(byte_offset, len)
      if len * 8 + st.bitOff ≠ words.length * wordBits then .panic "mnemonic.rs:93 debug_assert"
      else if st.byteOff ≠ len then .panic "mnemonic.rs:94 debug_assert"
      else if st.bitOff > 8 ∨ st.bitOff = 0 then .panic "mnemonic.rs:100 shift overflow"
      else
        let buf := mkBuf P st.seed
        let checksumMask := (1 <<< st.bitOff) - 1
        -- `hash[0] >> (8 - bit_offset) == (acc & checksum_mask) as u8`
        if ((P.sha256 st.seed).headD 0).toNat >>> (8 - st.bitOff) = (st.acc &&& checksumMask) % 256 then
          .ok ⟨buf, len⟩
        else .err "mnemonic checksum verification failure"

/-- `mnemonic_length` -/
def mnemonicLength (m : Mnemonic) : Nat := (m.len * 8) / wordBits + 1

/-- the 11-bit window of word `i`: `usize::from_be_bytes(buf[offset..][..8]) >> shift & WORD_MASK` -/
def windowIndex (buf : Bytes) (i : Nat) : Res Nat :=
  let bitOffset := i * wordBits
  let offset := bitOffset / 8
  let shift := 64 - wordBits - bitOffset % 8
  if offset + 8 ≤ buf.length then
    .ok ((beVal ((buf.drop offset).take 8) >>> shift) &&& (Wordlist.wordCount - 1))
  else .panic "mnemonic.rs:128 slice out of bounds"

def wordsOf (m : Mnemonic) : List Nat → Res (List Str)
  | [] => .ok []
  | i :: is =>
    match windowIndex m.buf i with
    | .ok idx =>
      match Wordlist.word idx with
      | .ok w =>
        match wordsOf m is with
        | .ok ws => .ok (w :: ws)
        | .err e => .err e
        | .panic e => .panic e
      | .err e => .err e
      | .panic e => .panic e
    | .err e => .err e
    | .panic e => .panic e

/-- `to_phrase`: words joined by the separator `' '` (push word + separator, pop the last) -/
def toPhrase (m : Mnemonic) : Res Str :=
  match wordsOf m (List.range (mnemonicLength m)) with
  | .ok ws => .ok (joinWith [' '] ws)
  | .err e => .err e
  | .panic e => .panic e

/-- `Mnemonic::random`: `oracle k` is what the OS entropy source returns for a request of
`k` bytes (`none` = failure, i.e. `getentropy` < 0) -/
def random (P : Prims) (oracle : Nat → Option Bytes) (mnemonicLength : Nat) : Res Mnemonic :=
  match mnemonicToByteLength mnemonicLength with
  | .err e => .err e
  | .panic e => .panic e
  | .ok len =>
    match oracle len with
    | none => .err "entropy source failure"
    | some ent => if ent.length = len then .ok ⟨mkBuf P ent, len⟩ else .panic "oracle contract"

/-- HMAC-SHA512 as the `hmac`/`sha2` crates compute it (block size 128) -/
def hmacSha512 (P : Prims) (key msg : Bytes) : Bytes := Prim.hmac P.sha512 128 key msg

/-- `seed(password)`: PBKDF2-HMAC-SHA512, 2048 rounds, password = printed phrase,
salt = NFKD("mnemonic" + password).  `nfkd` is the normalisation function (parameter). -/
def seed (P : Prims) (nfkd : Str → Str) (m : Mnemonic) (password : Str) : Res Bytes :=
  match toPhrase m with
  | .ok phrase =>
    .ok (Prim.pbkdf2 (hmacSha512 P) 64 (Utf8.encode phrase)
      (Utf8.encode (nfkd (chars! "mnemonic" ++ password))) 2048 64)
  | .err e => .err e
  | .panic e => .panic e

end Hdw.Mnemonic
