/-
src/transaction.rs, legacy.rs, eip2930.rs, eip1559.rs, accesslist.rs:
JSON → transaction, and the RLP encodings as written.
-/
import HdwModel.Model.Serialization
import HdwModel.Model.Rlp
import HdwModel.Model.Signature

namespace Hdw.Tx
open Json Ser

/-- `(Address, Vec<StorageSlot>)` -/
structure AccessEntry where
  addr : Bytes
  slots : List Bytes
  deriving Repr, DecidableEq

/-- `enum Transaction` -/
inductive Tx where
  | legacy (chainId : Option Nat) (nonce gasPrice gas : Nat) (to : Option Bytes) (value : Nat)
      (data : Bytes)
  | eip2930 (chainId nonce gasPrice gas : Nat) (to : Option Bytes) (value : Nat) (data : Bytes)
      (accessList : List AccessEntry)
  | eip1559 (chainId nonce maxPriorityFeePerGas maxFeePerGas gas : Nat) (to : Option Bytes)
      (value : Nat) (data : Bytes) (accessList : List AccessEntry)
  deriving Repr, DecidableEq

/-! ### deserialisation -/

def reqField (kv : List (Str × JVal)) (k : Str) : Res JVal :=
  match JVal.get? k kv with
  | some v => .ok v
  | none => .err "missing field"

def reqUint (kv : List (Str × JVal)) (k : Str) : Res Nat := (reqField kv k).bind uintOfJson

/-- `to: Option<Address>`: absent or `null` is `None` -/
def optTo (kv : List (Str × JVal)) : Res (Option Bytes) :=
  match JVal.get? (chars! "to") kv with
  | none => .ok none
  | some .null => .ok none
  | some v => (addressOfJson v).bind fun a => .ok (some a)

def slotsOfJson : List JVal → Res (List Bytes)
  | [] => .ok []
  | v :: vs =>
    match byteArrayOfJson 32 v with
    | .ok s =>
      match slotsOfJson vs with
      | .ok ss => .ok (s :: ss)
      | .err e => .err e
      | .panic e => .panic e
    | .err e => .err e
    | .panic e => .panic e

/-- one `[address, [slot, …]]` tuple: exactly two elements -/
def entryOfJson : JVal → Res AccessEntry
  | .arr [a, .arr slots] =>
    match addressOfJson a with
    | .ok addr =>
      match slotsOfJson slots with
      | .ok ss => .ok ⟨addr, ss⟩
      | .err e => .err e
      | .panic e => .panic e
    | .err e => .err e
    | .panic e => .panic e
  | _ => .err "invalid access list entry"

def entriesOfJson : List JVal → Res (List AccessEntry)
  | [] => .ok []
  | v :: vs =>
    match entryOfJson v with
    | .ok e =>
      match entriesOfJson vs with
      | .ok es => .ok (e :: es)
      | .err m => .err m
      | .panic m => .panic m
    | .err m => .err m
    | .panic m => .panic m

def accessListOfJson : JVal → Res (List AccessEntry)
  | .arr l => entriesOfJson l
  | _ => .err "invalid type: expected sequence"

/-- largest chain id for which `v = 35 + 2c + 1` fits 256 bits (checked when a legacy
transaction is deserialised) -/
def maxLegacyChainId : Nat := (2 ^ 256 - 1 - 36) / 2

/-- `impl Deserialize for Transaction`: dispatch on the keys present -/
def ofJson (v : JVal) : Res Tx :=
  match v with
  | .obj kv =>
    let has (k : Str) : Bool := (JVal.get? k kv).isSome
    if has (chars! "maxPriorityFeePerGas") || has (chars! "maxFeePerGas") then do
      let chainId ← reqUint kv (chars! "chainId")
      let nonce ← reqUint kv (chars! "nonce")
      let prio ← reqUint kv (chars! "maxPriorityFeePerGas")
      let fee ← reqUint kv (chars! "maxFeePerGas")
      let gas ← reqUint kv (chars! "gas")
      let to ← optTo kv
      let value ← reqUint kv (chars! "value")
      let data ← (reqField kv (chars! "data")).bind bytesOfJson
      let al ← match JVal.get? (chars! "accessList") kv with
        | none => Res.ok []
        | some a => accessListOfJson a
      pure (.eip1559 chainId nonce prio fee gas to value data al)
    else if has (chars! "accessList") then do
      let chainId ← reqUint kv (chars! "chainId")
      let nonce ← reqUint kv (chars! "nonce")
      let gasPrice ← reqUint kv (chars! "gasPrice")
      let gas ← reqUint kv (chars! "gas")
      let to ← optTo kv
      let value ← reqUint kv (chars! "value")
      let data ← (reqField kv (chars! "data")).bind bytesOfJson
      let al ← (reqField kv (chars! "accessList")).bind accessListOfJson
      pure (.eip2930 chainId nonce gasPrice gas to value data al)
    else do
      let nonce ← reqUint kv (chars! "nonce")
      let gasPrice ← reqUint kv (chars! "gasPrice")
      let gas ← reqUint kv (chars! "gas")
      let to ← optTo kv
      let value ← reqUint kv (chars! "value")
      let data ← (reqField kv (chars! "data")).bind bytesOfJson
      let chainId ← match JVal.get? (chars! "chainId") kv with
        | none => Res.ok none
        | some c => optUintOfJson c
      match chainId with
      | some c =>
        if c ≤ maxLegacyChainId then pure (.legacy (some c) nonce gasPrice gas to value data)
        else Res.err "chain ID too large for EIP-155"
      | none => pure (.legacy none nonce gasPrice gas to value data)
  | _ => .err "invalid type: expected map"

/-- `serde_json::from_slice::<Transaction>` -/
def parse (input : Bytes) : Res Tx :=
  match Json.parseValueDoc input with
  | some v => ofJson v
  | none => .err "invalid JSON"

/-! ### encoding -/

def rlpTo (to : Option Bytes) : Res Bytes :=
  match to with
  | none => Rlp.bytes []
  | some a => Rlp.bytes a

/-- `AccessList::rlp_encode` -/
def rlpAccessList (al : List AccessEntry) : Res Bytes :=
  Rlp.iter (al.map fun e =>
    (Rlp.bytes e.addr).bind fun a =>
    (Rlp.iter (e.slots.map Rlp.bytes)).bind fun ss =>
    Rlp.list [a, ss])

/-- `(yParity, r, s)` tail of the typed transactions -/
def typedTail (sig : Option Sig) : List (Res Bytes) :=
  match sig with
  | some σ => [Rlp.uint σ.yParity, Rlp.uint σ.r, Rlp.uint σ.s]
  | none => []

/-- `rlp_encode(signature)` for the three kinds -/
def rlpEncode (tx : Tx) (sig : Option Sig) : Res Bytes :=
  match tx with
  | .legacy chainId nonce gasPrice gas to value data =>
    let fields := [Rlp.uint nonce, Rlp.uint gasPrice, Rlp.uint gas, rlpTo to, Rlp.uint value,
      Rlp.bytes data]
    let tail : List (Res Bytes) :=
      match sig with
      | some σ =>
        [(σ.v chainId).bind Rlp.uint, Rlp.uint σ.r, Rlp.uint σ.s]
      | none =>
        match chainId with
        | some c => [Rlp.uint c, Rlp.uint 0, Rlp.uint 0]
        | none => []
    Rlp.iter (fields ++ tail)
  | .eip2930 chainId nonce gasPrice gas to value data al =>
    let fields := [Rlp.uint chainId, Rlp.uint nonce, Rlp.uint gasPrice, Rlp.uint gas, rlpTo to,
      Rlp.uint value, Rlp.bytes data, rlpAccessList al]
    (Rlp.iter (fields ++ typedTail sig)).bind fun b => .ok (0x01 :: b)
  | .eip1559 chainId nonce prio fee gas to value data al =>
    let fields := [Rlp.uint chainId, Rlp.uint nonce, Rlp.uint prio, Rlp.uint fee, Rlp.uint gas,
      rlpTo to, Rlp.uint value, Rlp.bytes data, rlpAccessList al]
    (Rlp.iter (fields ++ typedTail sig)).bind fun b => .ok (0x02 :: b)

/-- `signing_message` -/
def signingMessage (P : Prims) (tx : Tx) : Res Bytes :=
  (rlpEncode tx none).bind fun b => .ok (P.keccak256 b)

/-- `encode(signature)` -/
def encode (tx : Tx) (σ : Sig) : Res Bytes := rlpEncode tx (some σ)

end Hdw.Tx
