/-
UTF-8 as Rust's `str` uses it: `String::as_bytes` (encode) and `str::from_utf8`
(strict decode: no overlong forms, no surrogates, nothing above U+10FFFF).
-/
import HdwModel.Model.Basic

namespace Hdw.Utf8

def encodeChar (c : Char) : Bytes :=
  let n := c.toNat
  if n < 0x80 then [UInt8.ofNat n]
  else if n < 0x800 then [UInt8.ofNat (0xC0 + n / 64), UInt8.ofNat (0x80 + n % 64)]
  else if n < 0x10000 then
    [UInt8.ofNat (0xE0 + n / 4096), UInt8.ofNat (0x80 + n / 64 % 64), UInt8.ofNat (0x80 + n % 64)]
  else
    [UInt8.ofNat (0xF0 + n / 262144), UInt8.ofNat (0x80 + n / 4096 % 64),
     UInt8.ofNat (0x80 + n / 64 % 64), UInt8.ofNat (0x80 + n % 64)]

def encode (s : Str) : Bytes := s.flatMap encodeChar

def isCont (b : UInt8) : Bool := 0x80 ≤ b.toNat && b.toNat < 0xC0

def mkChar? (n : Nat) : Option Char :=
  if n.isValidChar then some (Char.ofNat n) else none

/-- strict decoder with fuel (the input length suffices) -/
def decodeAux : Nat → Bytes → Option Str
  | _, [] => some []
  | 0, _ :: _ => none
  | fuel + 1, b0 :: rest =>
    let n0 := b0.toNat
    if n0 < 0x80 then
      match mkChar? n0, decodeAux fuel rest with
      | some c, some cs => some (c :: cs)
      | _, _ => none
    else if n0 < 0xC2 then none
    else if n0 < 0xE0 then
      match rest with
      | b1 :: rest' =>
        if isCont b1 then
          match mkChar? ((n0 - 0xC0) * 64 + (b1.toNat - 0x80)), decodeAux fuel rest' with
          | some c, some cs => some (c :: cs)
          | _, _ => none
        else none
      | _ => none
    else if n0 < 0xF0 then
      match rest with
      | b1 :: b2 :: rest' =>
        if isCont b1 && isCont b2 then
          let n := (n0 - 0xE0) * 4096 + (b1.toNat - 0x80) * 64 + (b2.toNat - 0x80)
          if n < 0x800 then none
          else
            match mkChar? n, decodeAux fuel rest' with
            | some c, some cs => some (c :: cs)
            | _, _ => none
        else none
      | _ => none
    else if n0 < 0xF5 then
      match rest with
      | b1 :: b2 :: b3 :: rest' =>
        if isCont b1 && isCont b2 && isCont b3 then
          let n := (n0 - 0xF0) * 262144 + (b1.toNat - 0x80) * 4096 + (b2.toNat - 0x80) * 64 +
            (b3.toNat - 0x80)
          if n < 0x10000 then none
          else
            match mkChar? n, decodeAux fuel rest' with
            | some c, some cs => some (c :: cs)
            | _, _ => none
        else none
      | _ => none
    else none

/-- `str::from_utf8` -/
def decode? (b : Bytes) : Option Str := decodeAux b.length b

end Hdw.Utf8
