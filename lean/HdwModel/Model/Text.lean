/-
Text helpers mirroring the Rust `std` functions hdwallet uses:
`usize/u32 Display`, `u32::from_str`, `char::is_whitespace`, `str::split`,
`str::split_whitespace`.
-/
import HdwModel.Model.Basic

namespace Hdw

/-- decimal digits of `n`, most significant first (`[0]` for 0) -/
def decDigits (n : Nat) : List Nat :=
  if n < 10 then [n] else decDigits (n / 10) ++ [n % 10]
decreasing_by omega

def digitChar (d : Nat) : Char := Char.ofNat (48 + d)

/-- `Display` for unsigned integers -/
def decimal (n : Nat) : Str := (decDigits n).map digitChar

def isAsciiDigit (c : Char) : Bool := 48 ≤ c.toNat && c.toNat ≤ 57

/-- value of a string of ASCII digits, `none` if some character is not a digit -/
def digitsVal? (acc : Nat) : Str → Option Nat
  | [] => some acc
  | c :: cs => if isAsciiDigit c then digitsVal? (acc * 10 + (c.toNat - 48)) cs else none

/-- `uN::from_str` for an unsigned type of `bits` bits: optional `+`, at least one
digit, no overflow.  (A `-` is an invalid digit for unsigned types.) -/
def parseUInt (bits : Nat) (s : Str) : Option Nat :=
  let ds := match s with
    | '+' :: rest => rest
    | _ => s
  match ds with
  | [] => none
  | _ =>
    match digitsVal? 0 ds with
    | some v => if v < 2 ^ bits then some v else none
    | none => none

/-- Unicode `White_Space` (what `char::is_whitespace` tests) -/
def isWhitespace (c : Char) : Bool :=
  let n := c.toNat
  (9 ≤ n && n ≤ 13) || n == 0x20 || n == 0x85 || n == 0xA0 || n == 0x1680 ||
  (0x2000 ≤ n && n ≤ 0x200A) || n == 0x2028 || n == 0x2029 || n == 0x202F ||
  n == 0x205F || n == 0x3000

/-- `str::split(sep)`: always at least one piece -/
def splitOn (sep : Char) : Str → List Str
  | [] => [[]]
  | c :: cs =>
    if c = sep then [] :: splitOn sep cs
    else match splitOn sep cs with
      | [] => [[c]]  -- unreachable: splitOn never returns []
      | w :: ws => (c :: w) :: ws

/-- auxiliary for `splitWhitespace`: current word (reversed) and the rest -/
def splitWsAux (cur : Str) : Str → List Str
  | [] => if cur.isEmpty then [] else [cur.reverse]
  | c :: cs =>
    if isWhitespace c then
      (if cur.isEmpty then splitWsAux [] cs else cur.reverse :: splitWsAux [] cs)
    else splitWsAux (c :: cur) cs

/-- `str::split_whitespace`: maximal runs of non-whitespace characters -/
def splitWhitespace (s : Str) : List Str := splitWsAux [] s

/-- join with a separator (`[T]::join`) -/
def joinWith (sep : Str) : List Str → Str
  | [] => []
  | [w] => w
  | w :: ws => w ++ sep ++ joinWith sep ws

end Hdw
