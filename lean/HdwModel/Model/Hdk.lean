/-
src/hdk.rs: BIP-32 private key derivation, as written (`derive_slice`).
-/
import HdwModel.Model.Account
import HdwModel.Model.Path
import HdwModel.Model.Mnemonic

namespace Hdw.Hdk
variable {Pt : Type}
open Hdw.Account Hdw.Mnemonic

/-- `HARDENED` -/
def hardenedBit : Nat := 0x80000000

/-- `b"Bitcoin seed"` -/
def bitcoinSeed : Bytes := bytes! "Bitcoin seed"

/-- `u32::to_be_bytes` -/
def ser32 (v : Nat) : Bytes := beFixed 4 v

/-- one iteration of the `for component in path` loop on the 64-byte extended key -/
def stepKey (P : Prims) (C : Curve Pt) (ext : Bytes) (c : Path.Component) : Res Bytes :=
  let secretBytes := ext.take 32
  let chainCode := ext.drop 32
  match secretFromSlice C.n secretBytes with
  | .err e => .err e
  | .panic e => .panic e
  | .ok secret =>
    let (data, value) := match c with
      | .hardened v => ([0x00] ++ beFixed 32 secret, (v ||| hardenedBit) % 2 ^ 32)
      | .normal v => (C.compressed (C.mulG secret), v)
    let child := hmacSha512 P chainCode (data ++ ser32 value)
    match secretFromSlice C.n (child.take 32) with
    | .err _ => .err "path component yields invalid child key"
    | .panic e => .panic e
    | .ok childSecret =>
      -- `ScalarPrimitive` addition is modulo n; `SecretKey::new` does not check for zero
      let next := (childSecret + secret) % C.n
      .ok (beFixed 32 next ++ child.drop 32)

def loop (P : Prims) (C : Curve Pt) : Bytes → Path.Path → Res Bytes
  | ext, [] => .ok ext
  | ext, c :: cs =>
    match stepKey P C ext c with
    | .ok ext' => loop P C ext' cs
    | .err e => .err e
    | .panic e => .panic e

/-- `hdk::derive`: the private scalar of the derived key -/
def derive (P : Prims) (C : Curve Pt) (seed : Bytes) (path : Path.Path) : Res Nat :=
  let ext0 := hmacSha512 P bitcoinSeed seed
  match loop P C ext0 path with
  | .ok ext => Account.new C (ext.take 32)
  | .err e => .err e
  | .panic e => .panic e

end Hdw.Hdk
