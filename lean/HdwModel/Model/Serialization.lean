/-
src/serialization.rs and the `ethnum` / `ethaddr` deserialisers it relies on, over
`serde_json::Value` (`Json.JVal`).
-/
import HdwModel.Model.SerdeNum
import HdwModel.Model.Hex

namespace Hdw.Ser
open Json SerdeNum

/-- `char::to_digit(radix)` for radix ≤ 16 -/
def toDigit? (radix : Nat) (c : Char) : Option Nat :=
  match hexVal? c with
  | some d => if d < radix then some d else none
  | none => none

/-- digits in `radix`, most significant first; `none` on an invalid digit -/
def radixVal? (radix : Nat) (acc : Nat) : Str → Option Nat
  | [] => some acc
  | c :: cs =>
    match toDigit? radix c with
    | some d => radixVal? radix (acc * radix + d) cs
    | none => none

/-- `from_str_radix(src, radix, prefix)` for a magnitude (sign handled by the caller):
prefix must be present, at least one digit, all digits valid -/
def magnitudeRadix? (radix : Nat) (pre : Str) (s : Str) : Option Nat :=
  match stripPrefix pre s with
  | none => none
  | some ds => if ds.isEmpty then none else radixVal? radix 0 ds

/-- `U256::from_str_prefixed`: optional `+`, then `0b` / `0o` / `0x` / decimal, value < 2^256.
(`-` is an invalid digit for the unsigned type.) -/
def u256FromStrPrefixed (s : Str) : Option Nat :=
  match s with
  | [] => none
  | _ =>
    let body := match s with
      | '+' :: rest => rest
      | _ => s
    if body.isEmpty then none
    else
      let tryRadix (radix : Nat) (pre : Str) : Option Nat :=
        match magnitudeRadix? radix pre body with
        | some v => if v < 2 ^ 256 then some v else none
        | none => none
      (tryRadix 2 ['0', 'b']).orElse fun _ =>
      (tryRadix 8 ['0', 'o']).orElse fun _ =>
      (tryRadix 16 ['0', 'x']).orElse fun _ =>
      tryRadix 10 []

/-- `I256::from_str_prefixed`: optional `+`/`-`, same radices, value in [-2^255, 2^255) -/
def i256FromStrPrefixed (s : Str) : Option Int :=
  match s with
  | [] => none
  | _ =>
    let (neg, body) := match s with
      | '+' :: rest => (false, rest)
      | '-' :: rest => (true, rest)
      | _ => (false, s)
    if body.isEmpty then none
    else
      let tryRadix (radix : Nat) (pre : Str) : Option Int :=
        match magnitudeRadix? radix pre body with
        | some v =>
          if neg then (if v ≤ 2 ^ 255 then some (-(v : Int)) else none)
          else (if v < 2 ^ 255 then some (v : Int) else none)
        | none => none
      (tryRadix 2 ['0', 'b']).orElse fun _ =>
      (tryRadix 8 ['0', 'o']).orElse fun _ =>
      (tryRadix 16 ['0', 'x']).orElse fun _ =>
      tryRadix 10 []

/-- `visit_f64`: the value must lie in [-2^53, 2^53) and be integral; returns (negative, magnitude) -/
def f64ToInt? (neg : Bool) (f : F64) : Option (Bool × Nat) :=
  match f.toInt? with
  | none => none
  | some m =>
    if neg then (if m ≤ 2 ^ 53 then some (m ≠ 0, m) else none)
    else (if m < 2 ^ 53 then some (false, m) else none)

/-- `serialization::uint` (unsigned 256-bit field): JSON number that is a non-negative integer
(u64 literal, or a float literal whose binary64 image is integral and below 2^53), or a string
accepted by `U256::from_str_prefixed`.  Negative numbers are refused. -/
def uintOfJson : JVal → Res Nat
  | .num lit =>
    match classify lit with
    | some (.u64 v) => .ok v
    | some (.i64 _) => .err "negative number for unsigned integer"
    | some (.f64 neg f) =>
      match f64ToInt? neg f with
      | some (false, m) => .ok m
      | some (true, _) => .err "negative number for unsigned integer"
      | none => .err "floating point number is not an integer in (-2^53, 2^53)"
    | none => .err "number out of range"
  | .str s =>
    match u256FromStrPrefixed s with
    | some v => .ok v
    | none => .err "invalid integer string"
  | _ => .err "invalid type: expected number or string"

/-- `ethnum::serde::permissive` for `I256` (typed-data `intN`) -/
def intOfJson : JVal → Res Int
  | .num lit =>
    match classify lit with
    | some (.u64 v) => .ok v
    | some (.i64 m) => .ok (-(m : Int))
    | some (.f64 neg f) =>
      match f64ToInt? neg f with
      | some (isNeg, m) => .ok (if isNeg then -(m : Int) else m)
      | none => .err "floating point number is not an integer in (-2^53, 2^53)"
    | none => .err "number out of range"
  | .str s =>
    match i256FromStrPrefixed s with
    | some v => .ok v
    | none => .err "invalid integer string"
  | _ => .err "invalid type: expected number or string"

/-- `serialization::numopt`: `null` is `None` -/
def optUintOfJson : JVal → Res (Option Nat)
  | .null => .ok none
  | v => match uintOfJson v with
    | .ok n => .ok (some n)
    | .err e => .err e
    | .panic e => .panic e

/-- `serialization::bytes`: string, mandatory `0x`, `hex::decode` -/
def bytesOfJson : JVal → Res Bytes
  | .str s =>
    match stripPrefix ['0', 'x'] s with
    | none => .err "missing 0x prefix"
    | some h =>
      match hexDecode h with
      | some b => .ok b
      | none => .err "invalid hex"
  | _ => .err "invalid type: expected string"

/-- `serialization::bytearray::<N>`: string, mandatory `0x`, exactly `n` bytes -/
def byteArrayOfJson (n : Nat) : JVal → Res Bytes
  | .str s =>
    match stripPrefix ['0', 'x'] s with
    | none => .err "missing 0x prefix"
    | some h =>
      match hexDecodeExact n h with
      | some b => .ok b
      | none => .err "invalid hex or length"
  | _ => .err "invalid type: expected string"

/-- `ethaddr::Address: Deserialize`: mandatory `0x` (serde.rs), then `FromStr` which strips one
more optional `0x` (hex.rs) and wants exactly 40 hex digits -/
def addressOfJson : JVal → Res Bytes
  | .str s =>
    match stripPrefix ['0', 'x'] s with
    | none => .err "missing 0x prefix"
    | some h =>
      let h' := match stripPrefix ['0', 'x'] h with
        | some r => r
        | none => h
      match hexDecodeExact 20 h' with
      | some b => .ok b
      | none => .err "invalid address"
  | _ => .err "invalid type: expected string"

/-- `ethdigest::Digest: FromStr` / `Deserialize`-like 32-byte hex used by `sign raw` -/
def str? : JVal → Res Str
  | .str s => .ok s
  | _ => .err "invalid type: expected string"

end Hdw.Ser
