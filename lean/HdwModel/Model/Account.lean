/-
src/account.rs, src/account/public.rs: private key, public key, address, signing.
-/
import HdwModel.Model.Curve
import HdwModel.Model.Hex
import HdwModel.Model.Signature
import HdwModel.Prim.Hmac

namespace Hdw.Account
variable {Pt : Type}

/-- `SecretKey::from_slice` (elliptic-curve 0.13): 32 bytes, or 24..31 bytes which are
left-padded with zeros; the integer must be in `[1, n-1]`. -/
def secretFromSlice (n : Nat) (b : Bytes) : Res Nat :=
  if b.length = 32 ∨ (24 ≤ b.length ∧ b.length < 32) then
    let v := beVal b
    if v = 0 then .err "secret key is zero"
    else if v < n then .ok v
    else .err "secret key not below the group order"
  else .err "invalid secret key length"

/-- `PrivateKey::new` -/
def new (C : Curve Pt) (secret : Bytes) : Res Nat := secretFromSlice C.n secret

/-- `PrivateKey::secret`: 32-byte big-endian scalar -/
def secret (d : Nat) : Bytes := beFixed 32 d

/-- `public().encode_uncompressed()` -/
def publicUncompressed (C : Curve Pt) (d : Nat) : Bytes := C.uncompressed (C.mulG d)

/-- `address()`: last 20 bytes of Keccak-256 of the 64 coordinate bytes -/
def address (P : Prims) (C : Curve Pt) (d : Nat) : Bytes :=
  (P.keccak256 ((publicUncompressed C d).drop 1)).drop 12

/-- nibble `i` of a digest (high nibble first) -/
def nibbleAt (digest : Bytes) (i : Nat) : Nat :=
  let byte := (digest.getD (i / 2) 0).toNat
  if i % 2 = 0 then byte / 16 else byte % 16

def asciiUpper (c : Char) : Char :=
  if 97 ≤ c.toNat ∧ c.toNat ≤ 122 then Char.ofNat (c.toNat - 32) else c

/-- `ethaddr` `Display` (checksum.rs): lower-case hex, then every character whose nibble in
`keccak256(lower-case hex ASCII)` is ≥ 8 is upper-cased (EIP-55), with a `0x` prefix -/
def addressDisplay (P : Prims) (addr : Bytes) : Str :=
  let lower := hexEncode addr
  let digest := P.keccak256 (lower.map fun c => UInt8.ofNat c.toNat)
  '0' :: 'x' :: (List.range lower.length).map fun i =>
    let c := lower.getD i '0'
    if nibbleAt digest i ≥ 8 then asciiUpper c else c

/-! ### RFC 6979 nonce (crates `rfc6979` 0.4 / `hmac`) -/

def hmacSha256 (P : Prims) (key msg : Bytes) : Bytes := Prim.hmac P.sha256 64 key msg

/-- candidate loop of `generate_k`: `V = HMAC_K(V)`; accept if `0 < V < n`; else
`K = HMAC_K(V ‖ 0x00)`, `V = HMAC_K(V)` and retry.  `fuel` bounds the retries (each
retry has probability ≈ 2^-128). -/
def nonceLoop (P : Prims) (n : Nat) : Nat → Bytes → Bytes → Res Nat
  | 0, _, _ => .panic "rfc6979: nonce loop fuel exhausted"
  | fuel + 1, k, v =>
    let v' := hmacSha256 P k v
    let cand := beVal v'
    if 0 < cand ∧ cand < n then .ok cand
    else
      let k' := hmacSha256 P k (v' ++ [0x00])
      nonceLoop P n fuel k' (hmacSha256 P k' v')

/-- `rfc6979::generate_k::<Sha256>(x, n, h, b"")` with `h` passed *unreduced* (as
`try_sign_prehashed_rfc6979` does) -/
def generateK (P : Prims) (n : Nat) (x h : Bytes) : Res Nat :=
  let k0 := List.replicate 32 (0 : UInt8)
  let v0 := List.replicate 32 (1 : UInt8)
  let k1 := hmacSha256 P k0 (v0 ++ [0x00] ++ x ++ h)
  let v1 := hmacSha256 P k1 v0
  let k2 := hmacSha256 P k1 (v1 ++ [0x01] ++ x ++ h)
  let v2 := hmacSha256 P k2 v1
  nonceLoop P n 64 k2 v2

/-- modular inverse as a parameter-free function: `a^(n-2) mod n` (n prime) -/
def powMod (b e m : Nat) : Nat :=
  if e = 0 then 1 % m
  else
    let h := powMod (b * b % m) (e / 2) m
    if e % 2 = 1 then b % m * h % m else h
decreasing_by omega

def invMod (a n : Nat) : Nat := powMod a (n - 2) n

/-- `hazmat::sign_prehashed` + k256's low-s normalisation, for nonce `k` -/
def signWithNonce (C : Curve Pt) (d z k : Nat) : Res Sig :=
  let n := C.n
  let zr := z % n
  let R := C.mulG k
  let r := C.x R % n
  let s := invMod k n * ((zr + r * d) % n) % n
  if r = 0 ∨ s = 0 then .err "signature operation failed"
  else
    let yOdd := C.y R % 2 = 1
    let sHigh := s > n / 2
    .ok ⟨r, if sHigh then n - s else s, yOdd != sHigh⟩

/-- `PrivateKey::try_sign(message)`; `digest` is the 32-byte message -/
def trySign (P : Prims) (C : Curve Pt) (d : Nat) (digest : Bytes) : Res Sig :=
  match generateK P C.n (beFixed 32 d) digest with
  | .ok k => signWithNonce C d (beVal digest) k
  | .err e => .err e
  | .panic e => .panic e

end Hdw.Account
