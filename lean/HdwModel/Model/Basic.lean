/-
Common vocabulary of the model: result type, bytes, big-endian conversions,
the primitive-function record that theorems quantify over.
-/
import HdwModel.Prim.Hmac

namespace Hdw

abbrev Str := List Char

/-- `chars! "ab"` elaborates to the literal list `['a', 'b']` (string literals themselves do
not reduce in the kernel, explicit lists do). -/
macro "chars!" s:str : term => do
  let elems := s.getString.toList.map fun c => Lean.Syntax.mkCharLit c
  `(([$(elems.toArray),*] : List Char))

/-- `bytes! "ab"` elaborates to the UTF-8 bytes as a literal list `[97, 98]`. -/
macro "bytes!" s:str : term => do
  let elems := s.getString.toUTF8.toList.map fun b => Lean.Syntax.mkNumLit (toString b.toNat)
  `(([$(elems.toArray),*] : List UInt8))

/-- Three-valued outcome: value, ordinary error (Rust `Err`), or panic
(unwrap/index/overflow in a checked build).  The `String` payloads are
diagnostic only and never compared. -/
inductive Res (α : Type) where
  | ok (a : α)
  | err (msg : String)
  | panic (site : String)
  deriving Repr, DecidableEq

namespace Res

def bind {α β} (r : Res α) (f : α → Res β) : Res β :=
  match r with
  | ok a => f a
  | err m => err m
  | panic s => panic s

instance : Monad Res where
  pure := Res.ok
  bind := Res.bind

def isOk {α} : Res α → Bool
  | ok _ => true
  | _ => false

def isErr {α} : Res α → Bool
  | err _ => true
  | _ => false

def isPanic {α} : Res α → Bool
  | panic _ => true
  | _ => false

def ofOption {α} (o : Option α) (msg : String) : Res α :=
  match o with
  | some a => ok a
  | none => err msg

def toOption {α} : Res α → Option α
  | ok a => some a
  | _ => none

@[simp] theorem bind_ok {α β} (a : α) (f : α → Res β) : (Res.ok a >>= f) = f a := rfl
@[simp] theorem bind_err {α β} (m : String) (f : α → Res β) : (Res.err m >>= f) = Res.err m := rfl
@[simp] theorem bind_panic {α β} (m : String) (f : α → Res β) :
    (Res.panic m >>= f) = Res.panic m := rfl
@[simp] theorem pure_eq {α} (a : α) : (pure a : Res α) = Res.ok a := rfl

end Res

/-- Uninterpreted primitives: every theorem holds for every instantiation. -/
structure Prims where
  sha256 : Bytes → Bytes
  sha512 : Bytes → Bytes
  keccak256 : Bytes → Bytes

/-- big-endian value of a byte string -/
def beVal : Bytes → Nat
  | [] => 0
  | b :: bs => b.toNat * 256 ^ bs.length + beVal bs

/-- accumulator form, convenient for proofs by induction from the left -/
def beValAcc (acc : Nat) : Bytes → Nat
  | [] => acc
  | b :: bs => beValAcc (acc * 256 + b.toNat) bs

/-- minimal big-endian bytes of `n` (empty for 0) -/
def beBytes (n : Nat) : Bytes :=
  if _h : n = 0 then [] else beBytes (n / 256) ++ [UInt8.ofNat (n % 256)]
decreasing_by omega

/-- fixed-width big-endian bytes (value taken modulo `256^w`) -/
def beFixed : Nat → Nat → Bytes
  | 0, _ => []
  | w + 1, n => beFixed w (n / 256) ++ [UInt8.ofNat (n % 256)]

end Hdw
