/-
The elliptic curve as a parameter: theorems quantify over every `Curve`; the driver
instantiates it with the executable secp256k1 of `HdwModel.Prim.Secp256k1`.
-/
import HdwModel.Model.Basic

namespace Hdw

/-- operations on curve points used by hdwallet (through `k256`) -/
structure Curve (Pt : Type) where
  /-- group order -/
  n : Nat
  /-- `k·G` -/
  mulG : Nat → Pt
  /-- `k·P` -/
  mul : Nat → Pt → Pt
  add : Pt → Pt → Pt
  /-- affine coordinates of a finite point -/
  x : Pt → Nat
  y : Pt → Nat
  isInf : Pt → Bool
  /-- decompression: the point with this x coordinate and this y parity, if any -/
  lift : Nat → Bool → Option Pt

namespace Curve
variable {Pt : Type} (C : Curve Pt)

/-- SEC1 uncompressed encoding `0x04 ‖ X ‖ Y` -/
def uncompressed (p : Pt) : Bytes := 0x04 :: (beFixed 32 (C.x p) ++ beFixed 32 (C.y p))

/-- SEC1 compressed encoding `0x02/0x03 ‖ X` -/
def compressed (p : Pt) : Bytes := (if C.y p % 2 = 1 then 0x03 else 0x02) :: beFixed 32 (C.x p)

end Curve
end Hdw
