/-
src/account/signature.rs: signature data model, `v`, text form.
-/
import HdwModel.Model.Hex
import HdwModel.Model.Text

namespace Hdw

/-- order of the secp256k1 group -/
def secpN : Nat := 0xFFFFFFFFFFFFFFFFFFFFFFFFFFFFFFFEBAAEDCE6AF48A03BBFD25E8CD0364141

/-- `Signature(ecdsa::Signature, RecoveryId)`: the scalars and the y-parity bit
(k256's `is_x_reduced` bit is never read by hdwallet). -/
structure Sig where
  r : Nat
  s : Nat
  odd : Bool
  deriving Repr, DecidableEq

namespace Sig

def yParity (σ : Sig) : Nat := if σ.odd then 1 else 0

/-- what `ecdsa::Signature::from_scalars` accepts: both scalars in `[1, n-1]` -/
def validScalars (r s : Nat) : Bool := 0 < r && r < secpN && 0 < s && s < secpN

/-- `Signature::v` in 256-bit arithmetic of a checked build (`ethnum` panics on overflow
when built with debug assertions; an optimised build wraps — the model takes the
checked semantics and C11/C17 show the overflow branch unreachable from user input). -/
def v (σ : Sig) (chain : Option Nat) : Res Nat :=
  match chain with
  | none => .ok (σ.yParity + 27)
  | some c =>
    if c * 2 < 2 ^ 256 then
      if σ.yParity + c * 2 < 2 ^ 256 then
        if σ.yParity + c * 2 + 35 < 2 ^ 256 then .ok (σ.yParity + c * 2 + 35)
        else .panic "signature.rs:36 add overflow"
      else .panic "signature.rs:36 add overflow"
    else .panic "signature.rs:36 mul overflow"

/-- `Display`: `0x{r:064x}{s:064x}{v:02x}` with `v = 27 + yParity` -/
def print (σ : Sig) : Str :=
  '0' :: 'x' :: (hexEncode (beFixed 32 σ.r) ++ hexEncode (beFixed 32 σ.s) ++
    hexEncode [UInt8.ofNat (27 + σ.yParity)])

/-- `FromStr`: optional `0x`, exactly 65 bytes of hex, `v ∈ {27, 28}`, scalars accepted by
`from_scalars` (an error otherwise, never a panic). -/
def parse (s : Str) : Res Sig :=
  let body := match stripPrefix ['0', 'x'] s with
    | some rest => rest
    | none => s
  match hexDecodeExact 65 body with
  | none => .err "invalid hex / length"
  | some b =>
    let r := beVal (b.take 32)
    let sv := beVal ((b.drop 32).take 32)
    let vb := (b.drop 64).headD 0
    if vb = 27 ∨ vb = 28 then
      if validScalars r sv then .ok ⟨r, sv, vb = 28⟩
      else .err "invalid signature scalars"
    else .err "invalid V-value"

end Sig
end Hdw
