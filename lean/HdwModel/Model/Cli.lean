/-
src/cmd.rs and src/cmd/*.rs: what each sub-command writes to standard output, as a function
of its (already tokenised) options and input bytes.  clap's own parsing is modelled at
contract level: each option value is the text given by flag or environment; a value that its
`FromStr` rejects, or the two account selectors given together, is an error.
-/
import HdwModel.Model.Hdk
import HdwModel.Model.Message
import HdwModel.Model.Tx
import HdwModel.Model.TypedData
import HdwModel.Model.Nfkd
import HdwModel.Model.CliHex

namespace Hdw.Cli
variable {Pt : Type}

/-- everything the commands are parameterised by -/
structure Ctx (Pt : Type) where
  P : Prims
  C : Curve Pt
  nfkd : Str → Str

/-- `--account-index` / `--hd-path` as given (flag or environment) -/
inductive Selector where
  | default
  | index (text : Str)
  | path (text : Str)
  | both (index path : Str)
  deriving Repr, DecidableEq

/-- `AccountOptions` as given on the command line -/
structure Account where
  mnemonic : Str
  password : Str
  sel : Selector
  deriving Repr, DecidableEq

/-- the derivation path selected by the options -/
def selectedPath (sel : Selector) : Res Path.Path :=
  match sel with
  | .default => Path.forIndex 0
  | .index t =>
    match parseUInt 64 t with          -- `usize::from_str`
    | some i => Path.forIndex i
    | none => .err "invalid value for --account-index"
  | .path p => Path.parse p
  | .both _ _ => .err "--hd-path cannot be used with --account-index"

/-- `AccountOptions::private_key` (the mnemonic is parsed by clap through `FromStr`) -/
def privateKey (X : Ctx Pt) (a : Account) : Res Nat :=
  match Mnemonic.fromPhrase X.P a.mnemonic with
  | .err e => .err e
  | .panic e => .panic e
  | .ok m =>
    match selectedPath a.sel with
    | .err e => .err e
    | .panic e => .panic e
    | .ok path =>
      match Mnemonic.seed X.P X.nfkd m a.password with
      | .err e => .err e
      | .panic e => .panic e
      | .ok seed => Hdk.derive X.P X.C seed path

def line (s : Str) : Bytes := Utf8.encode (s ++ ['\n'])

/-- `0x` + lower-case hex + newline (`println!("0x{}", hex::encode(..))`, `Digest` Display) -/
def hexLine (b : Bytes) : Bytes := line ('0' :: 'x' :: hexEncode b)

/-- `address` -/
def address (X : Ctx Pt) (a : Account) : Res Bytes :=
  (privateKey X a).bind fun d => .ok (line (Account.addressDisplay X.P (Account.address X.P X.C d)))

/-- `export` -/
def exportKey (X : Ctx Pt) (a : Account) : Res Bytes :=
  (privateKey X a).bind fun d => .ok (hexLine (Account.secret d))

/-- `public-key` -/
def publicKey (X : Ctx Pt) (a : Account) : Res Bytes :=
  (privateKey X a).bind fun d => .ok (hexLine (Account.publicUncompressed X.C d))

/-- `ethdigest::Digest: FromStr`: optional `0x`, exactly 64 hex digits -/
def parseDigest (s : Str) : Res Bytes :=
  let body := match stripPrefix ['0', 'x'] s with
    | some r => r
    | none => s
  match hexDecodeExact 32 body with
  | some b => .ok b
  | none => .err "invalid digest"

/-! ### hash -/

def hashData (X : Ctx Pt) (data : Bytes) : Bytes := hexLine (X.P.keccak256 data)

def hashMessage (X : Ctx Pt) (msg : Bytes) : Bytes := hexLine (Message.digest X.P msg)

/-- `hash transaction [--signature SIG]` -/
def hashTx (X : Ctx Pt) (json : Bytes) (sig : Option Str) : Res Bytes :=
  -- clap parses the signature first
  let sigR : Res (Option Sig) := match sig with
    | none => .ok none
    | some t => (Sig.parse t).bind fun σ => .ok (some σ)
  match sigR with
  | .err e => .err e
  | .panic e => .panic e
  | .ok σ? =>
    match Tx.parse json with
    | .err e => .err e
    | .panic e => .panic e
    | .ok tx =>
      match σ? with
      | some σ => (Tx.encode tx σ).bind fun b => .ok (hexLine (X.P.keccak256 b))
      | none => (Tx.signingMessage X.P tx).bind fun d => .ok (hexLine d)

/-- `hash typeddata [--message-hash]` -/
def hashTypedData (X : Ctx Pt) (json : Bytes) (messageHash : Bool) : Res Bytes :=
  (TypedData.parseAndCompute X.P json).bind fun d =>
    .ok (hexLine (if messageHash then d.messageHash else d.digest))

/-! ### sign -/

def signDigest (X : Ctx Pt) (d : Nat) (digest : Bytes) : Res Sig := Account.trySign X.P X.C d digest

def sigLine (σ : Sig) : Bytes := line (Sig.print σ)

/-- `sign message` -/
def signMessage (X : Ctx Pt) (a : Account) (msg : Bytes) : Res Bytes :=
  (privateKey X a).bind fun d =>
  (signDigest X d (Message.digest X.P msg)).bind fun σ => .ok (sigLine σ)

/-- `sign raw` -/
def signRaw (X : Ctx Pt) (a : Account) (digestText : Str) : Res Bytes :=
  (parseDigest digestText).bind fun dg =>
  (privateKey X a).bind fun d =>
  (signDigest X d dg).bind fun σ => .ok (sigLine σ)

/-- `sign typeddata` -/
def signTypedData (X : Ctx Pt) (a : Account) (json : Bytes) : Res Bytes :=
  (privateKey X a).bind fun d =>
  (TypedData.parseAndCompute X.P json).bind fun td =>
  (signDigest X d td.digest).bind fun σ => .ok (sigLine σ)

/-- `sign transaction [--signature-only] [--allow-missing-relay-protection]` -/
def signTx (X : Ctx Pt) (a : Account) (json : Bytes) (signatureOnly allowMissing : Bool) : Res Bytes :=
  (privateKey X a).bind fun d =>
  (Tx.parse json).bind fun tx =>
    let guarded : Bool := match tx with
      | .legacy none .. => !allowMissing
      | _ => false
    if guarded then .err "Signed legacy transaction without chain ID"
    else
      (Tx.signingMessage X.P tx).bind fun digest =>
      (signDigest X d digest).bind fun σ =>
        if signatureOnly then .ok (sigLine σ)
        else (Tx.encode tx σ).bind fun b => .ok (hexLine b)

/-! ### new -/

/-- `new -n L` without a vanity prefix: one mnemonic from the entropy source -/
def newMnemonic (X : Ctx Pt) (lengthText : Str) (oracle : Nat → Option Bytes) : Res Bytes :=
  match parseUInt 64 lengthText with
  | none => .err "invalid value for --length"
  | some n =>
    (Mnemonic.random X.P oracle n).bind fun m =>
    (Mnemonic.toPhrase m).bind fun ph => .ok (line ph)

/-- `Prefix` of `--vanity-prefix` -/
structure Prefix where
  bytes : Bytes
  nibble : Option Nat
  deriving Repr, DecidableEq

/-- `parse_nibble` (u8 arithmetic: `n - b'A' + 0xa`) -/
def parseNibble (c : Char) : Res Nat :=
  let n := c.toNat
  if 48 ≤ n ∧ n ≤ 57 then .ok (n - 48)
  else if 97 ≤ n ∧ n ≤ 102 then .ok (n - 97 + 10)
  else if 65 ≤ n ∧ n ≤ 70 then .ok (n - 65 + 10)
  else .err "invalid hex digit"

/-- the `chunks(2)` loop of `Prefix::from_str` over the text after `0x` (bytes of the string;
a non-ASCII character contributes bytes ≥ 0x80, which are invalid digits) -/
def parsePrefixDigits : Str → Res Prefix
  | [] => .ok ⟨[], none⟩
  | [c] => (parseNibble c).bind fun n => .ok ⟨[], some n⟩
  | hi :: lo :: rest =>
    (parseNibble hi).bind fun h =>
    (parseNibble lo).bind fun l =>
    (parsePrefixDigits rest).bind fun p => .ok ⟨UInt8.ofNat (h * 16 + l) :: p.bytes, p.nibble⟩

/-- `Prefix::from_str` -/
def parsePrefix (s : Str) : Res Prefix :=
  match stripPrefix ['0', 'x'] s with
  | none => .err "missing '0x' prefix"
  | some ds => parsePrefixDigits ds

/-- `Prefix::matches` -/
def Prefix.matches (p : Prefix) (addr : Bytes) : Bool :=
  addr.take p.bytes.length == p.bytes &&
    (match p.nibble with
     | some n =>
       match addr[p.bytes.length]? with
       | some last => last.toNat / 16 == n
       | none => false
     | none => true)

/-- the single-threaded vanity search (`-j 0`): keep drawing mnemonics until the selected
account's address matches.  `stream` is the sequence of entropy draws the source will return
(`none` = failure).  Returns the phrase of the first match. -/
def vanitySearch (X : Ctx Pt) (n : Nat) (p : Prefix) (password : Str) (sel : Selector) :
    List (Option Bytes) → Res Bytes
  | [] => .err "entropy stream exhausted"
  | e :: rest =>
    match Mnemonic.random X.P (fun k => match e with
        | some b => if b.length ≥ k then some (b.take k) else none
        | none => none) n with
    | .err m => .err m
    | .panic m => .panic m
    | .ok m =>
      match Mnemonic.toPhrase m with
      | .err x => .err x
      | .panic x => .panic x
      | .ok ph =>
        match privateKey X ⟨ph, password, sel⟩ with
        | .err x => .err x
        | .panic x => .panic x
        | .ok d =>
          if p.matches (Account.address X.P X.C d) then .ok (line ph)
          else vanitySearch X n p password sel rest

end Hdw.Cli
