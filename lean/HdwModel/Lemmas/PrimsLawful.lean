/-
Helper lemmas for `HdwModel.Props.PrimsLawful`: output lengths of the EXECUTABLE hash
primitives (`Hdw.Prim.sha256`, `Hdw.Prim.sha512`, `Hdw.Prim.keccak256`).

The primitives are written with `Id.run do` and `for … in [a:b]` loops.  The output is assembled
by a closed nest of loops at the end, so its length depends neither on the message nor on the
hash state.  Method: the first loop (compression / absorption over the blocks) is generalised to
an arbitrary state `h`; the output loops are rewritten to `List.foldl` over `List.range'`
(`Std.Legacy.Range.forIn_eq_forIn_range'`, `List.forIn_pure_yield_eq_foldl`) and measured with
`foldl_length_add` (a fold whose step adds exactly `k` elements adds `k * l.length` elements).
-/
import HdwModel.Prim.Real

namespace Hdw.Lemmas.PrimsLawful
open Hdw Hdw.Prim

/-- a fold over `l` whose every step lengthens the accumulator by exactly `k`
lengthens it by `k * l.length` -/
theorem foldl_length_add {α β : Type _} (l : List α) (f : List β → α → List β) (k : Nat)
    (hf : ∀ s a, (f s a).length = s.length + k) (init : List β) :
    (l.foldl f init).length = init.length + k * l.length := by
  induction l generalizing init with
  | nil => simp
  | cons a l ih => rw [List.foldl_cons, ih, hf, List.length_cons, Nat.mul_succ]; omega

/-- `Id` is the identity monad: mapping is application -/
theorem id_map {α β : Type _} (f : α → β) (x : Id α) : f <$> x = f x := rfl

/-! ### the closed output loops, for every initial list and every state -/

/-- SHA-256 output loop: 8 words × 4 bytes are prepended, whatever the state `h` -/
theorem sha256_out_length (h : Array UInt32) (out₀ : List UInt8) :
    ((List.range' 0 8).foldl (fun out i =>
        (h[7 - i]! >>> 24).toUInt8 :: (h[7 - i]! >>> 16).toUInt8 ::
          (h[7 - i]! >>> 8).toUInt8 :: h[7 - i]!.toUInt8 :: out) out₀).length
      = out₀.length + 32 := by
  rw [foldl_length_add _ _ 4 (fun _ _ => rfl), List.length_range']

/-- SHA-512 output loop: 8 words × 8 bytes are prepended, whatever the state `h` -/
theorem sha512_out_length (h : Array UInt64) (out₀ : List UInt8) :
    ((List.range' 0 8).foldl (fun out i =>
        (List.range' 0 8).foldl (fun out j => (h[7 - i]! >>> (8 * j).toUInt64).toUInt8 :: out) out)
      out₀).length = out₀.length + 64 := by
  rw [foldl_length_add _ _ 8 (fun s a => by
        rw [foldl_length_add _ _ 1 (fun _ _ => rfl), List.length_range']), List.length_range']

/-- Keccak-256 squeeze loop: 4 lanes × 8 bytes are prepended, whatever the state `st` -/
theorem keccak256_out_length (st : Array UInt64) (out₀ : List UInt8) :
    ((List.range' 0 4).foldl (fun out i =>
        (List.range' 0 8).foldl
          (fun out j => (st[3 - i]! >>> (8 * (7 - j)).toUInt64).toUInt8 :: out) out)
      out₀).length = out₀.length + 32 := by
  rw [foldl_length_add _ _ 8 (fun s a => by
        rw [foldl_length_add _ _ 1 (fun _ _ => rfl), List.length_range']), List.length_range']

/-! ### the primitives -/

theorem sha256_length (b : Bytes) : (Hdw.Prim.sha256 b).length = 32 := by
  unfold Hdw.Prim.sha256
  simp only [Id.run]
  -- the compression loop over the blocks stays opaque
  generalize (forIn (m := Id) [:ByteArray.size _ / 64] _ _) = h
  simp only [Std.Legacy.Range.forIn_eq_forIn_range', List.forIn_pure_yield_eq_foldl,
    bind_pure_comp, bind_pure]
  simp only [id_map]
  exact sha256_out_length h []

theorem sha512_length (b : Bytes) : (Hdw.Prim.sha512 b).length = 64 := by
  unfold Hdw.Prim.sha512
  simp only [Id.run]
  generalize (forIn (m := Id) [:ByteArray.size _ / 128] _ _) = h
  simp only [Std.Legacy.Range.forIn_eq_forIn_range', List.forIn_pure_yield_eq_foldl,
    bind_pure_comp, bind_pure, map_pure]
  simp only [id_map]
  exact sha512_out_length h []

theorem keccak256_length (b : Bytes) : (Hdw.Prim.keccak256 b).length = 32 := by
  unfold Hdw.Prim.keccak256
  simp only [Id.run]
  -- the absorption loop (with the permutation) stays opaque
  generalize (forIn (m := Id) [:ByteArray.size _ / 136] _ _) = st
  simp only [Std.Legacy.Range.forIn_eq_forIn_range', List.forIn_pure_yield_eq_foldl,
    bind_pure_comp, bind_pure, map_pure]
  simp only [id_map]
  exact keccak256_out_length st []

/-! ### the real curve order -/

theorem secp_n_pos : 1 < Hdw.Prim.realCurve.n := by
  show 1 < Hdw.Prim.Secp.n
  decide

theorem secp_n_le : Hdw.Prim.realCurve.n ≤ 2 ^ 256 := by
  show Hdw.Prim.Secp.n ≤ 2 ^ 256
  decide

end Hdw.Lemmas.PrimsLawful
