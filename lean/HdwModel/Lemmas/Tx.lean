/-
Helper lemmas for C06 / C11 (transactions): `Sig.v` arithmetic, model encoder = spec encoder,
the strict transaction decoder, deserialisation ranges.
-/
import HdwModel.Model.Tx
import HdwModel.Spec.Tx
import HdwModel.Lemmas.Rlp

namespace Hdw.Tx

/-! ### `Sig.v` -/

theorem yParity_le (σ : Sig) : σ.yParity ≤ 1 := by
  unfold Sig.yParity; split <;> omega

theorem sig_v_none (σ : Sig) : σ.v none = .ok (27 + σ.yParity) := by
  unfold Sig.v; rw [Nat.add_comm]

theorem sig_v_some_ok (σ : Sig) (c : Nat) (h : 35 + 2 * c + σ.yParity < 2 ^ 256) :
    σ.v (some c) = .ok (35 + 2 * c + σ.yParity) := by
  unfold Sig.v
  generalize (2 : Nat) ^ 256 = B at *
  simp only
  rw [if_pos (by omega), if_pos (by omega), if_pos (by omega)]
  congr 1; omega

theorem sig_v_some_panic (σ : Sig) (c : Nat) (h : 2 ^ 256 ≤ 35 + 2 * c + σ.yParity) :
    ∃ site, σ.v (some c) = .panic site := by
  unfold Sig.v
  generalize (2 : Nat) ^ 256 = B at *
  simp only
  split
  · split
    · rw [if_neg (by omega)]; exact ⟨_, rfl⟩
    · exact ⟨_, rfl⟩
  · exact ⟨_, rfl⟩

theorem maxLegacyChainId_fits (c : Nat) (h : c ≤ maxLegacyChainId) (y : Nat) (hy : y ≤ 1) :
    35 + 2 * c + y < 2 ^ 256 := by
  unfold maxLegacyChainId at h
  have : (2 : Nat) ^ 256 = 2 * 2 ^ 255 := by rw [← Nat.pow_succ']
  have hp : 64 ≤ (2 : Nat) ^ 255 := by decide
  generalize (2 : Nat) ^ 255 = A at *
  generalize (2 : Nat) ^ 256 = B at *
  omega

theorem maxLegacyChainId_tight : 2 ^ 256 ≤ 35 + 2 * (maxLegacyChainId + 1) + 1 := by
  unfold maxLegacyChainId
  have : (2 : Nat) ^ 256 = 2 * 2 ^ 255 := by rw [← Nat.pow_succ']
  have hp : 64 ≤ (2 : Nat) ^ 255 := by decide
  generalize (2 : Nat) ^ 255 = A at *
  generalize (2 : Nat) ^ 256 = B at *
  omega

end Hdw.Tx

/-! ### sizes of encodings -/

namespace Hdw.Spec.Tx
open Hdw Hdw.Spec.Rlp
open Hdw.Tx (AccessEntry rlpTo rlpAccessList typedTail rlpEncode signingMessage maxLegacyChainId)

theorem header_length_le (l off : Nat) (h : l < 2 ^ 64) : (header l off).length ≤ 9 := by
  unfold header
  split
  · simp
  · have := beBytes_length_le_8 l h
    simp only [List.length_cons]; omega

theorem encStr_length_le (b : Bytes) (h : b.length < 2 ^ 64) : (encStr b).length ≤ b.length + 9 := by
  unfold encStr
  split
  · split
    · simp
    · have := header_length_le 1 0x80 (by omega)
      simp only [List.length_append, List.length_cons, List.length_nil]; omega
  · have := header_length_le b.length 0x80 h
    simp only [List.length_append]; omega

theorem encStr_length_ge (b : Bytes) : b.length ≤ (encStr b).length := by
  unfold encStr
  split
  · split
    · simp
    · simp only [List.length_append, List.length_cons, List.length_nil]; omega
  · simp only [List.length_append]; omega

theorem encodeList_length_le_encode (l : List Item) :
    (encodeList l).length ≤ (encode (.list l)).length := by
  rw [encode_list, List.length_append]; omega

theorem encode_list_length_le (l : List Item) (h : (encodeList l).length < 2 ^ 64) :
    (encode (.list l)).length ≤ (encodeList l).length + 9 := by
  have := header_length_le _ 0xc0 h
  rw [encode_list, List.length_append]; omega

theorem encode_length_le_encodeList {i : Item} {l : List Item} (h : i ∈ l) :
    (encode i).length ≤ (encodeList l).length := by
  induction l with
  | nil => cases h
  | cons x xs ih =>
    rw [encodeList_cons, List.length_append]
    cases h with
    | head => omega
    | tail _ h' => have := ih h'; omega

theorem beBytes_length_le_32 (n : Nat) (h : n < 2 ^ 256) : (beBytes n).length ≤ 32 :=
  beBytes_length_le n 32 (by simpa using h)

theorem encode_ofNat_length_le (n : Nat) (h : n < 2 ^ 256) : (encode (ofNat n)).length ≤ 41 := by
  have h1 := beBytes_length_le_32 n h
  have h2 := encStr_length_le (beBytes n) (by omega)
  rw [ofNat, encode_str]; omega

theorem encode_str_length_le (b : Bytes) (h : b.length < 2 ^ 64) :
    (encode (.str b)).length ≤ b.length + 9 := by
  rw [encode_str]; exact encStr_length_le b h

mutual
theorem encodable_of_length : ∀ it : Item, (encode it).length < 2 ^ 64 → it.Encodable
  | .str b, h => by
    rw [encode_str] at h
    have := encStr_length_ge b
    exact (encodable_str b).mpr (by omega)
  | .list l, h => by
    have h1 := encodeList_length_le_encode l
    exact (encodable_list l).mpr ⟨encodableList_of_length l (by omega), by omega⟩
theorem encodableList_of_length : ∀ l : List Item, (encodeList l).length < 2 ^ 64 →
    Item.EncodableList l
  | [], _ => by rw [Item.EncodableList]; trivial
  | i :: is, h => by
    rw [encodeList_cons, List.length_append] at h
    exact (encodableList_cons i is).mpr
      ⟨encodable_of_length i (by omega), encodableList_of_length is (by omega)⟩
end

theorem encodable_list_of_length (l : List Item) (h : (encodeList l).length < 2 ^ 64) :
    (Item.list l).Encodable :=
  (encodable_list l).mpr ⟨encodableList_of_length l h, h⟩

theorem decodeAll_encode' (it : Item) (h : it.Encodable) : decodeAll (encode it) = some it := by
  have := decode_encode_aux it [] (2 * (encode it).length) h (by omega)
  rw [List.append_nil] at this
  simp [decodeAll, this]

/-! ### the model encoder against the spec -/

theorem seqRes_map_ok {α} (l : List α) : Rlp.seqRes (l.map Res.ok) = .ok l := by
  induction l with
  | nil => rfl
  | cons a as ih => simp only [List.map_cons, Rlp.seqRes, ih]

theorem iter_spec (items : List Item) (h : (encodeList items).length < 2 ^ 64) :
    Rlp.iter (items.map fun i => .ok (encode i)) = .ok (encode (.list items)) := by
  have e : (items.map fun i => (Res.ok (encode i) : Res Bytes)) = (items.map encode).map Res.ok := by
    rw [List.map_map]; rfl
  rw [Rlp.iter, e, seqRes_map_ok]
  exact Rlp.list_spec items h

theorem iter_fields (fields : List (Res Bytes)) (items : List Item)
    (hf : fields = items.map fun i => .ok (encode i)) (h : (encodeList items).length < 2 ^ 64) :
    Rlp.iter fields = .ok (encode (.list items)) := by
  rw [hf]; exact iter_spec items h

theorem uint_spec (v : Nat) (h : v < 2 ^ 256) : Rlp.uint v = .ok (encode (ofNat v)) := by
  have hlen := beBytes_length_le_32 v h
  rw [Rlp.uint, beStripped_32 v h, ofNat, encode_str]
  exact Rlp.bytes_spec _ (by omega)

theorem bytes_spec' (b : Bytes) (h : b.length < 2 ^ 64) : Rlp.bytes b = .ok (encode (.str b)) := by
  rw [encode_str]; exact Rlp.bytes_spec b h

/-- item of one access-list entry -/
def entryItem (e : AccessEntry) : Item := .list [.str e.addr, .list (e.slots.map Item.str)]

theorem accessListItem_eq (al : List AccessEntry) : accessListItem al = .list (al.map entryItem) := rfl

theorem toItem_length_le (to : Option Bytes) (h : ∀ a ∈ to, a.length = 20) :
    (encode (toItem to)).length ≤ 29 := by
  cases to with
  | none =>
    have := encode_str_length_le [] (by simp)
    simp only [toItem, Option.getD_none]
    simp only [List.length_nil] at this; omega
  | some a =>
    have h20 := h a rfl
    have := encode_str_length_le a (by omega)
    simp only [toItem, Option.getD_some]; omega

theorem rlpTo_spec (to : Option Bytes) (h : ∀ a ∈ to, a.length = 20) :
    rlpTo to = .ok (encode (toItem to)) := by
  cases to with
  | none => exact bytes_spec' [] (by simp)
  | some a =>
    have h20 := h a rfl
    exact bytes_spec' a (by omega)

theorem slots_spec (slots : List Bytes) (h : (encodeList (slots.map Item.str)).length < 2 ^ 64) :
    Rlp.iter (slots.map Rlp.bytes) = .ok (encode (.list (slots.map Item.str))) := by
  apply iter_fields _ _ _ h
  rw [List.map_map]
  apply List.map_congr_left
  intro s hs
  have h1 : Item.str s ∈ slots.map Item.str := List.mem_map_of_mem hs
  have h2 := encode_length_le_encodeList h1
  rw [encode_str] at h2
  have h3 := encStr_length_ge s
  exact bytes_spec' s (by omega)

theorem entry_spec (e : AccessEntry) (h : (encode (entryItem e)).length < 2 ^ 64) :
    ((Rlp.bytes e.addr).bind fun a =>
      (Rlp.iter (e.slots.map Rlp.bytes)).bind fun ss => Rlp.list [a, ss]) =
      .ok (encode (entryItem e)) := by
  unfold entryItem at h ⊢
  have h0 := encodeList_length_le_encode [.str e.addr, .list (e.slots.map Item.str)]
  have h1 : (encode (.str e.addr)).length ≤ _ :=
    encode_length_le_encodeList (l := [.str e.addr, .list (e.slots.map Item.str)]) (by simp)
  have h2 : (encode (.list (e.slots.map Item.str))).length ≤ _ :=
    encode_length_le_encodeList (l := [.str e.addr, .list (e.slots.map Item.str)]) (by simp)
  have h3 := encodeList_length_le_encode (e.slots.map Item.str)
  have h4 := encStr_length_ge e.addr
  rw [encode_str] at h1
  rw [bytes_spec' e.addr (by omega), slots_spec e.slots (by omega)]
  exact Rlp.list_spec [.str e.addr, .list (e.slots.map Item.str)] (by omega)

theorem rlpAccessList_spec (al : List AccessEntry)
    (h : (encode (accessListItem al)).length < 2 ^ 64) :
    rlpAccessList al = .ok (encode (accessListItem al)) := by
  rw [accessListItem_eq] at h ⊢
  have h0 := encodeList_length_le_encode (al.map entryItem)
  unfold rlpAccessList
  apply iter_fields _ _ _ (by omega)
  rw [List.map_map]
  apply List.map_congr_left
  intro e he
  have h1 : entryItem e ∈ al.map entryItem := List.mem_map_of_mem he
  have h2 := encode_length_le_encodeList h1
  exact entry_spec e (by omega)


/-! ### whole transactions: model encoder = spec item encoding -/

theorem encodeList_append (a b : List Item) :
    encodeList (a ++ b) = encodeList a ++ encodeList b := by
  induction a with
  | nil => rw [encodeList_nil]; rfl
  | cons x xs ih => rw [List.cons_append, encodeList_cons, encodeList_cons, ih, List.append_assoc]

/-- the items of a tail -/
def tailItems (t : Option SigTriple) : List Item :=
  match t with
  | some σ => [ofNat σ.v, ofNat σ.r, ofNat σ.s]
  | none => []

def TailOk (t : Option SigTriple) : Prop := ∀ σ ∈ t, σ.v < 2 ^ 256 ∧ σ.r < 2 ^ 256 ∧ σ.s < 2 ^ 256

theorem tailItems_length_le (t : Option SigTriple) (h : TailOk t) :
    (encodeList (tailItems t)).length ≤ 123 := by
  cases t with
  | none => simp [tailItems, encodeList_nil]
  | some σ =>
    obtain ⟨h1, h2, h3⟩ := h σ rfl
    have := encode_ofNat_length_le _ h1
    have := encode_ofNat_length_le _ h2
    have := encode_ofNat_length_le _ h3
    simp only [tailItems, encodeList_cons, encodeList_nil, List.length_append, List.length_nil]
    omega

theorem uint_tail (a b c : Nat) (ha : a < 2 ^ 256) (hb : b < 2 ^ 256) (hc : c < 2 ^ 256) :
    [Rlp.uint a, Rlp.uint b, Rlp.uint c] =
      (tailItems (some ⟨a, b, c⟩)).map fun i => .ok (encode i) := by
  rw [uint_spec a ha, uint_spec b hb, uint_spec c hc]; rfl

theorem item_legacy (c : Option Nat) (n gp g : Nat) (to : Option Bytes) (v : Nat) (d : Bytes)
    (t : Option SigTriple) :
    item (.legacy c n gp g to v d) t =
      .list ([ofNat n, ofNat gp, ofNat g, toItem to, ofNat v, .str d] ++ tailItems t) := rfl

theorem item_eip2930 (c n gp g : Nat) (to : Option Bytes) (v : Nat) (d : Bytes)
    (al : List AccessEntry) (t : Option SigTriple) :
    item (.eip2930 c n gp g to v d al) t =
      .list ([ofNat c, ofNat n, ofNat gp, ofNat g, toItem to, ofNat v, .str d, accessListItem al] ++
        tailItems t) := rfl

theorem item_eip1559 (c n p f g : Nat) (to : Option Bytes) (v : Nat) (d : Bytes)
    (al : List AccessEntry) (t : Option SigTriple) :
    item (.eip1559 c n p f g to v d al) t =
      .list ([ofNat c, ofNat n, ofNat p, ofNat f, ofNat g, toItem to, ofNat v, .str d,
        accessListItem al] ++ tailItems t) := rfl

theorem legacy_length (n gp g : Nat) (to : Option Bytes) (v : Nat) (d : Bytes)
    (t : Option SigTriple)
    (hn : n < 2 ^ 256) (hgp : gp < 2 ^ 256) (hg : g < 2 ^ 256) (hto : ∀ a ∈ to, a.length = 20)
    (hv : v < 2 ^ 256) (hd : d.length < 2 ^ 32) (ht : TailOk t) :
    (encodeList ([ofNat n, ofNat gp, ofNat g, toItem to, ofNat v, .str d] ++ tailItems t)).length
      < 2 ^ 64 := by
  have := encode_ofNat_length_le _ hn
  have := encode_ofNat_length_le _ hgp
  have := encode_ofNat_length_le _ hg
  have := encode_ofNat_length_le _ hv
  have := toItem_length_le to hto
  have := encode_str_length_le d (by omega)
  have := tailItems_length_le t ht
  simp only [encodeList_append, encodeList_cons, encodeList_nil, List.length_append,
    List.length_nil]
  omega

theorem eip2930_length (c n gp g : Nat) (to : Option Bytes) (v : Nat) (d : Bytes)
    (al : List AccessEntry) (t : Option SigTriple)
    (hc : c < 2 ^ 256) (hn : n < 2 ^ 256) (hgp : gp < 2 ^ 256) (hg : g < 2 ^ 256)
    (hto : ∀ a ∈ to, a.length = 20) (hv : v < 2 ^ 256) (hd : d.length < 2 ^ 32)
    (hal : (encode (accessListItem al)).length < 2 ^ 32) (ht : TailOk t) :
    (encodeList ([ofNat c, ofNat n, ofNat gp, ofNat g, toItem to, ofNat v, .str d,
      accessListItem al] ++ tailItems t)).length < 2 ^ 64 := by
  have := encode_ofNat_length_le _ hc
  have := encode_ofNat_length_le _ hn
  have := encode_ofNat_length_le _ hgp
  have := encode_ofNat_length_le _ hg
  have := encode_ofNat_length_le _ hv
  have := toItem_length_le to hto
  have := encode_str_length_le d (by omega)
  have := tailItems_length_le t ht
  simp only [encodeList_append, encodeList_cons, encodeList_nil, List.length_append,
    List.length_nil]
  omega

theorem eip1559_length (c n p f g : Nat) (to : Option Bytes) (v : Nat) (d : Bytes)
    (al : List AccessEntry) (t : Option SigTriple)
    (hc : c < 2 ^ 256) (hn : n < 2 ^ 256) (hp : p < 2 ^ 256) (hf : f < 2 ^ 256) (hg : g < 2 ^ 256)
    (hto : ∀ a ∈ to, a.length = 20) (hv : v < 2 ^ 256) (hd : d.length < 2 ^ 32)
    (hal : (encode (accessListItem al)).length < 2 ^ 32) (ht : TailOk t) :
    (encodeList ([ofNat c, ofNat n, ofNat p, ofNat f, ofNat g, toItem to, ofNat v, .str d,
      accessListItem al] ++ tailItems t)).length < 2 ^ 64 := by
  have := encode_ofNat_length_le _ hc
  have := encode_ofNat_length_le _ hn
  have := encode_ofNat_length_le _ hp
  have := encode_ofNat_length_le _ hf
  have := encode_ofNat_length_le _ hg
  have := encode_ofNat_length_le _ hv
  have := toItem_length_le to hto
  have := encode_str_length_le d (by omega)
  have := tailItems_length_le t ht
  simp only [encodeList_append, encodeList_cons, encodeList_nil, List.length_append,
    List.length_nil]
  omega

theorem legacy_iter (n gp g : Nat) (to : Option Bytes) (v : Nat) (d : Bytes)
    (tailR : List (Res Bytes)) (t : Option SigTriple)
    (hn : n < 2 ^ 256) (hgp : gp < 2 ^ 256) (hg : g < 2 ^ 256) (hto : ∀ a ∈ to, a.length = 20)
    (hv : v < 2 ^ 256) (hd : d.length < 2 ^ 32) (ht : TailOk t)
    (htr : tailR = (tailItems t).map fun i => .ok (encode i)) :
    Rlp.iter ([Rlp.uint n, Rlp.uint gp, Rlp.uint g, rlpTo to, Rlp.uint v, Rlp.bytes d] ++ tailR) =
      .ok (encode (.list ([ofNat n, ofNat gp, ofNat g, toItem to, ofNat v, .str d] ++
        tailItems t))) := by
  rw [uint_spec n hn, uint_spec gp hgp, uint_spec g hg, rlpTo_spec to hto,
    uint_spec v hv, bytes_spec' d (by omega), htr]
  exact iter_fields _ _ rfl (legacy_length n gp g to v d t hn hgp hg hto hv hd ht)

theorem eip2930_iter (c n gp g : Nat) (to : Option Bytes) (v : Nat) (d : Bytes)
    (al : List AccessEntry) (tailR : List (Res Bytes)) (t : Option SigTriple)
    (hc : c < 2 ^ 256) (hn : n < 2 ^ 256) (hgp : gp < 2 ^ 256) (hg : g < 2 ^ 256)
    (hto : ∀ a ∈ to, a.length = 20) (hv : v < 2 ^ 256) (hd : d.length < 2 ^ 32)
    (hal : (encode (accessListItem al)).length < 2 ^ 32) (ht : TailOk t)
    (htr : tailR = (tailItems t).map fun i => .ok (encode i)) :
    Rlp.iter ([Rlp.uint c, Rlp.uint n, Rlp.uint gp, Rlp.uint g, rlpTo to, Rlp.uint v, Rlp.bytes d,
        rlpAccessList al] ++ tailR) =
      .ok (encode (.list ([ofNat c, ofNat n, ofNat gp, ofNat g, toItem to, ofNat v, .str d,
        accessListItem al] ++ tailItems t))) := by
  rw [uint_spec c hc, uint_spec n hn, uint_spec gp hgp, uint_spec g hg,
    rlpTo_spec to hto, uint_spec v hv, bytes_spec' d (by omega),
    rlpAccessList_spec al (by omega), htr]
  exact iter_fields _ _ rfl (eip2930_length c n gp g to v d al t hc hn hgp hg hto hv hd hal ht)

theorem eip1559_iter (c n p f g : Nat) (to : Option Bytes) (v : Nat) (d : Bytes)
    (al : List AccessEntry) (tailR : List (Res Bytes)) (t : Option SigTriple)
    (hc : c < 2 ^ 256) (hn : n < 2 ^ 256) (hp : p < 2 ^ 256) (hf : f < 2 ^ 256) (hg : g < 2 ^ 256)
    (hto : ∀ a ∈ to, a.length = 20) (hv : v < 2 ^ 256) (hd : d.length < 2 ^ 32)
    (hal : (encode (accessListItem al)).length < 2 ^ 32) (ht : TailOk t)
    (htr : tailR = (tailItems t).map fun i => .ok (encode i)) :
    Rlp.iter ([Rlp.uint c, Rlp.uint n, Rlp.uint p, Rlp.uint f, Rlp.uint g, rlpTo to, Rlp.uint v,
        Rlp.bytes d, rlpAccessList al] ++ tailR) =
      .ok (encode (.list ([ofNat c, ofNat n, ofNat p, ofNat f, ofNat g, toItem to, ofNat v, .str d,
        accessListItem al] ++ tailItems t))) := by
  rw [uint_spec c hc, uint_spec n hn, uint_spec p hp, uint_spec f hf,
    uint_spec g hg, rlpTo_spec to hto, uint_spec v hv, bytes_spec' d (by omega),
    rlpAccessList_spec al (by omega), htr]
  exact iter_fields _ _ rfl
    (eip1559_length c n p f g to v d al t hc hn hp hf hg hto hv hd hal ht)


/-- legacy chain ids are bounded at deserialisation (hypothesis form of `C06.ChainOk`) -/
def ChainBound (tx : Hdw.Tx.Tx) : Prop :=
  ∀ c n gp g to v d, tx = .legacy (some c) n gp g to v d → c ≤ maxLegacyChainId

theorem sigV_lt (tx : Hdw.Tx.Tx) (y : Nat) (hy : y ≤ 1) (hc : ChainBound tx) :
    sigV tx y < 2 ^ 256 := by
  have h27 : 27 + y < 2 ^ 256 := by
    have : 64 ≤ (2 : Nat) ^ 256 := by decide
    omega
  have hy' : y < 2 ^ 256 := by omega
  cases tx with
  | legacy c n gp g to v d =>
    cases c with
    | none => exact h27
    | some c => exact Hdw.Tx.maxLegacyChainId_fits c (hc c n gp g to v d rfl) y hy
  | eip2930 => exact hy'
  | eip1559 => exact hy'

theorem rlpEncode_signed (tx : Hdw.Tx.Tx) (σ : Sig) (hwf : WellFormed tx)
    (hr : σ.r < 2 ^ 256) (hs : σ.s < 2 ^ 256) (hc : ChainBound tx) :
    rlpEncode tx (some σ) = .ok (signedPayload tx σ.yParity σ.r σ.s) := by
  have hV := sigV_lt tx σ.yParity (Hdw.Tx.yParity_le σ) hc
  have ht : TailOk (some ⟨sigV tx σ.yParity, σ.r, σ.s⟩) := by
    intro τ hτ; cases hτ; exact ⟨hV, hr, hs⟩
  cases tx with
  | legacy c n gp g to v d =>
    obtain ⟨_, hn, hgp, hg, hto, hv, hd⟩ := hwf
    have hvv : σ.v c = .ok (sigV (.legacy c n gp g to v d) σ.yParity) := by
      cases c with
      | none => exact Hdw.Tx.sig_v_none σ
      | some c => exact Hdw.Tx.sig_v_some_ok σ c hV
    unfold signedPayload
    rw [item_legacy]
    simp only [rlpEncode, typeByte, List.nil_append]
    refine legacy_iter n gp g to v d _ _ hn hgp hg hto hv hd ht ?_
    rw [hvv]
    exact uint_tail _ _ _ hV hr hs
  | eip2930 c n gp g to v d al =>
    obtain ⟨hc', hn, hgp, hg, hto, hv, hd, _, hal⟩ := hwf
    unfold signedPayload
    rw [item_eip2930]
    simp only [rlpEncode, typeByte]
    rw [eip2930_iter c n gp g to v d al (typedTail (some σ)) _ hc' hn hgp hg hto hv hd hal ht
      (uint_tail _ _ _ hV hr hs)]
    rfl
  | eip1559 c n p f g to v d al =>
    obtain ⟨hc', hn, hp, hf, hg, hto, hv, hd, _, hal⟩ := hwf
    unfold signedPayload
    rw [item_eip1559]
    simp only [rlpEncode, typeByte]
    rw [eip1559_iter c n p f g to v d al (typedTail (some σ)) _ hc' hn hp hf hg hto hv hd hal ht
      (uint_tail _ _ _ hV hr hs)]
    rfl

theorem tailOk_none : TailOk none := by intro τ hτ; cases hτ

theorem rlpEncode_unsigned (tx : Hdw.Tx.Tx) (hwf : WellFormed tx) :
    rlpEncode tx none = .ok (signingPayload tx) := by
  have h0 : (0 : Nat) < 2 ^ 256 := by decide
  cases tx with
  | legacy c n gp g to v d =>
    obtain ⟨hc, hn, hgp, hg, hto, hv, hd⟩ := hwf
    unfold signingPayload
    rw [item_legacy]
    simp only [rlpEncode, typeByte, List.nil_append]
    cases c with
    | none => exact legacy_iter n gp g to v d _ _ hn hgp hg hto hv hd tailOk_none rfl
    | some c =>
      have hc' := hc c rfl
      have ht : TailOk (some ⟨c, 0, 0⟩) := by
        intro τ hτ; cases hτ; exact ⟨hc', h0, h0⟩
      exact legacy_iter n gp g to v d _ _ hn hgp hg hto hv hd ht (uint_tail _ _ _ hc' h0 h0)
  | eip2930 c n gp g to v d al =>
    obtain ⟨hc', hn, hgp, hg, hto, hv, hd, _, hal⟩ := hwf
    unfold signingPayload
    rw [item_eip2930]
    simp only [rlpEncode, typeByte]
    rw [eip2930_iter c n gp g to v d al (typedTail none) none hc' hn hgp hg hto hv hd hal
      tailOk_none rfl]
    rfl
  | eip1559 c n p f g to v d al =>
    obtain ⟨hc', hn, hp, hf, hg, hto, hv, hd, _, hal⟩ := hwf
    unfold signingPayload
    rw [item_eip1559]
    simp only [rlpEncode, typeByte]
    rw [eip1559_iter c n p f g to v d al (typedTail none) none hc' hn hp hf hg hto hv hd hal
      tailOk_none rfl]
    rfl


/-! ### the strict transaction decoder inverts the item encoding -/

theorem natOf_ofNat (n : Nat) : natOf? (ofNat n) = some n := by
  rw [ofNat, natOf?, if_neg (beBytes_head n), beVal_beBytes]

theorem toOf_toItem (to : Option Bytes) (h : ∀ a ∈ to, a.length = 20) :
    toOf? (toItem to) = some to := by
  cases to with
  | none => rfl
  | some a =>
    have h20 := h a rfl
    have hne : a = [] → False := by intro h0; rw [h0] at h20; simp at h20
    simp only [toItem, Option.getD_some]
    rw [toOf?.eq_2 a hne, if_pos h20]

theorem slotsOf_map (slots : List Bytes) (h : ∀ s ∈ slots, s.length = 32) :
    slotsOf? (slots.map Item.str) = some slots := by
  induction slots with
  | nil => rfl
  | cons s ss ih =>
    have h1 := h s (by simp)
    have h2 := ih (fun x hx => h x (by simp [hx]))
    rw [List.map_cons, slotsOf?, if_pos h1, h2]; rfl

def AlOk (al : List AccessEntry) : Prop :=
  ∀ e ∈ al, e.addr.length = 20 ∧ ∀ s ∈ e.slots, s.length = 32

theorem entriesOf_map (al : List AccessEntry) (h : AlOk al) :
    entriesOf? (al.map entryItem) = some al := by
  induction al with
  | nil => rfl
  | cons e es ih =>
    obtain ⟨h1, h2⟩ := h e (by simp)
    have h3 := ih (fun x hx => h x (by simp [hx]))
    rw [List.map_cons, entryItem, entriesOf?.eq_2, if_pos h1, slotsOf_map _ h2, h3]

theorem accessListOf_item (al : List AccessEntry) (h : AlOk al) :
    accessListOf? (accessListItem al) = some al := by
  rw [accessListItem_eq, accessListOf?]; exact entriesOf_map al h

theorem tailOf_tailItems (t : Option SigTriple) : tailOf? (tailItems t) = some t := by
  cases t with
  | none => rfl
  | some σ =>
    simp only [tailItems]
    rw [tailOf?.eq_2, natOf_ofNat, natOf_ofNat, natOf_ofNat]

theorem header_c0_head (l : Nat) (h : l < 2 ^ 64) (rest : Bytes) :
    ∃ x r, header l 0xc0 ++ rest = x :: r ∧ 0xc0 ≤ x.toNat := by
  unfold header
  split
  · refine ⟨_, _, rfl, ?_⟩
    simp [UInt8.toNat_ofNat']; omega
  · have := beBytes_length_le_8 l h
    refine ⟨_, _, rfl, ?_⟩
    simp [UInt8.toNat_ofNat']; omega

theorem decode_legacy_item (n gp g : Nat) (to : Option Bytes) (v : Nat) (d : Bytes)
    (t : Option SigTriple)
    (hn : n < 2 ^ 256) (hgp : gp < 2 ^ 256) (hg : g < 2 ^ 256) (hto : ∀ a ∈ to, a.length = 20)
    (hv : v < 2 ^ 256) (hd : d.length < 2 ^ 32) (ht : TailOk t) :
    decode (encode (.list ([ofNat n, ofNat gp, ofNat g, toItem to, ofNat v, .str d] ++
      tailItems t))) = some (.legacy n gp g to v d t) := by
  have hl := legacy_length n gp g to v d t hn hgp hg hto hv hd ht
  have hE := encodable_list_of_length _ hl
  have hD := decodeAll_encode' _ hE
  obtain ⟨x, r, hx, hx0⟩ := header_c0_head _ hl
    (encodeList ([ofNat n, ofNat gp, ofNat g, toItem to, ofNat v, .str d] ++ tailItems t))
  rw [← encode_list] at hx
  rw [decode.eq_3 _ (by intro r' h'; rw [hx] at h'; injection h' with h1 _; rw [h1] at hx0; simp at hx0)
    (by intro r' h'; rw [hx] at h'; injection h' with h1 _; rw [h1] at hx0; simp at hx0), hD]
  simp only [List.cons_append, List.nil_append, natOf_ofNat, toOf_toItem to hto, strOf?,
    tailOf_tailItems]

theorem decode_eip2930_item (c n gp g : Nat) (to : Option Bytes) (v : Nat) (d : Bytes)
    (al : List AccessEntry) (t : Option SigTriple)
    (hc : c < 2 ^ 256) (hn : n < 2 ^ 256) (hgp : gp < 2 ^ 256) (hg : g < 2 ^ 256)
    (hto : ∀ a ∈ to, a.length = 20) (hv : v < 2 ^ 256) (hd : d.length < 2 ^ 32)
    (hok : AlOk al) (hal : (encode (accessListItem al)).length < 2 ^ 32) (ht : TailOk t) :
    decode (0x01 :: encode (.list ([ofNat c, ofNat n, ofNat gp, ofNat g, toItem to, ofNat v, .str d,
      accessListItem al] ++ tailItems t))) = some (.eip2930 c n gp g to v d al t) := by
  have hl := eip2930_length c n gp g to v d al t hc hn hgp hg hto hv hd hal ht
  have hD := decodeAll_encode' _ (encodable_list_of_length _ hl)
  rw [decode.eq_1, hD]
  simp only [List.cons_append, List.nil_append, natOf_ofNat, toOf_toItem to hto, strOf?,
    accessListOf_item al hok, tailOf_tailItems]

theorem decode_eip1559_item (c n p f g : Nat) (to : Option Bytes) (v : Nat) (d : Bytes)
    (al : List AccessEntry) (t : Option SigTriple)
    (hc : c < 2 ^ 256) (hn : n < 2 ^ 256) (hp : p < 2 ^ 256) (hf : f < 2 ^ 256) (hg : g < 2 ^ 256)
    (hto : ∀ a ∈ to, a.length = 20) (hv : v < 2 ^ 256) (hd : d.length < 2 ^ 32)
    (hok : AlOk al) (hal : (encode (accessListItem al)).length < 2 ^ 32) (ht : TailOk t) :
    decode (0x02 :: encode (.list ([ofNat c, ofNat n, ofNat p, ofNat f, ofNat g, toItem to, ofNat v,
      .str d, accessListItem al] ++ tailItems t))) = some (.eip1559 c n p f g to v d al t) := by
  have hl := eip1559_length c n p f g to v d al t hc hn hp hf hg hto hv hd hal ht
  have hD := decodeAll_encode' _ (encodable_list_of_length _ hl)
  rw [decode.eq_2, hD]
  simp only [List.cons_append, List.nil_append, natOf_ofNat, toOf_toItem to hto, strOf?,
    accessListOf_item al hok, tailOf_tailItems]

/-- decoding `typeByte ‖ rlp(item)` for any in-range tail -/
theorem decode_payload (tx : Hdw.Tx.Tx) (t : Option SigTriple) (hwf : WellFormed tx)
    (ht : TailOk t) :
    decode (typeByte tx ++ encode (item tx t)) = some (expected tx t) := by
  cases tx with
  | legacy c n gp g to v d =>
    obtain ⟨_, hn, hgp, hg, hto, hv, hd⟩ := hwf
    rw [item_legacy]
    exact decode_legacy_item n gp g to v d t hn hgp hg hto hv hd ht
  | eip2930 c n gp g to v d al =>
    obtain ⟨hc, hn, hgp, hg, hto, hv, hd, hok, hal⟩ := hwf
    rw [item_eip2930]
    exact decode_eip2930_item c n gp g to v d al t hc hn hgp hg hto hv hd hok hal ht
  | eip1559 c n p f g to v d al =>
    obtain ⟨hc, hn, hp, hf, hg, hto, hv, hd, hok, hal⟩ := hwf
    rw [item_eip1559]
    exact decode_eip1559_item c n p f g to v d al t hc hn hp hf hg hto hv hd hok hal ht

theorem tailOk_unsigned (tx : Hdw.Tx.Tx) (hwf : WellFormed tx) : TailOk (unsignedTail tx) := by
  have h0 : (0 : Nat) < 2 ^ 256 := by decide
  cases tx with
  | legacy c n gp g to v d =>
    cases c with
    | none => exact tailOk_none
    | some c =>
      have hc := hwf.1 c rfl
      intro τ hτ; cases hτ; exact ⟨hc, h0, h0⟩
  | eip2930 => exact tailOk_none
  | eip1559 => exact tailOk_none

theorem decode_signedPayload (tx : Hdw.Tx.Tx) (y r s : Nat) (hwf : WellFormed tx)
    (hc : ChainBound tx) (hy : y ≤ 1) (hr : r < 2 ^ 256) (hs : s < 2 ^ 256) :
    decode (signedPayload tx y r s) = some (expected tx (some ⟨sigV tx y, r, s⟩)) := by
  apply decode_payload tx _ hwf
  intro τ hτ; cases hτ; exact ⟨sigV_lt tx y hy hc, hr, hs⟩

theorem decode_signingPayload (tx : Hdw.Tx.Tx) (hwf : WellFormed tx) :
    decode (signingPayload tx) = some (expected tx (unsignedTail tx)) :=
  decode_payload tx _ hwf (tailOk_unsigned tx hwf)

theorem signingPayload_injective (t₁ t₂ : Hdw.Tx.Tx) (h₁ : WellFormed t₁) (h₂ : WellFormed t₂)
    (h : signingPayload t₁ = signingPayload t₂) : t₁ = t₂ := by
  have d₁ := decode_signingPayload t₁ h₁
  have d₂ := decode_signingPayload t₂ h₂
  rw [h, d₂] at d₁
  have e := Option.some.inj d₁
  cases t₁ with
  | legacy c₁ n₁ gp₁ g₁ to₁ v₁ dd₁ =>
    cases t₂ with
    | legacy c₂ n₂ gp₂ g₂ to₂ v₂ dd₂ =>
      simp only [expected, Decoded.legacy.injEq] at e
      obtain ⟨rfl, rfl, rfl, rfl, rfl, rfl, et⟩ := e
      cases c₁ with
      | none =>
        cases c₂ with
        | none => rfl
        | some c₂ => simp [unsignedTail] at et
      | some c₁ =>
        cases c₂ with
        | none => simp [unsignedTail] at et
        | some c₂ =>
          simp only [unsignedTail, Option.some.injEq, SigTriple.mk.injEq] at et
          rw [et.1]
    | eip2930 => simp [expected] at e
    | eip1559 => simp [expected] at e
  | eip2930 c₁ n₁ gp₁ g₁ to₁ v₁ dd₁ al₁ =>
    cases t₂ with
    | legacy => simp [expected] at e
    | eip2930 c₂ n₂ gp₂ g₂ to₂ v₂ dd₂ al₂ =>
      simp only [expected, Decoded.eip2930.injEq] at e
      obtain ⟨rfl, rfl, rfl, rfl, rfl, rfl, rfl, rfl, _⟩ := e
      rfl
    | eip1559 => simp [expected] at e
  | eip1559 c₁ n₁ p₁ f₁ g₁ to₁ v₁ dd₁ al₁ =>
    cases t₂ with
    | legacy => simp [expected] at e
    | eip2930 => simp [expected] at e
    | eip1559 c₂ n₂ p₂ f₂ g₂ to₂ v₂ dd₂ al₂ =>
      simp only [expected, Decoded.eip1559.injEq] at e
      obtain ⟨rfl, rfl, rfl, rfl, rfl, rfl, rfl, rfl, rfl, _⟩ := e
      rfl

end Hdw.Spec.Tx

namespace Hdw.Tx

theorem res_bind_eq_ok {α β} {r : Res α} {f : α → Res β} {b : β} :
    r.bind f = .ok b ↔ ∃ a, r = .ok a ∧ f a = .ok b := by
  cases r <;> simp [Res.bind]

theorem res_bind_eq_ok' {α β} {r : Res α} {f : α → Res β} {b : β} :
    (r >>= f) = .ok b ↔ ∃ a, r = .ok a ∧ f a = .ok b := res_bind_eq_ok

end Hdw.Tx

/-! ### deserialisation: dispatch and field ranges -/

namespace Hdw.Tx
open Hdw Hdw.Json Hdw.Ser Hdw.SerdeNum Hdw.Spec.Tx

theorem accumulate_le (sig : Nat) (ds : List Nat) (h : sig ≤ u64Max) :
    (accumulate sig ds).1 ≤ u64Max := by
  induction ds generalizing sig with
  | nil => exact h
  | cons d ds ih =>
    unfold accumulate
    split
    · exact h
    · exact ih _ (by omega)

theorem withExponent_ne_u64 (neg : Bool) (sig : Nat) (e : Int) (x : Option (Bool × List Nat))
    (v : Nat) : withExponent neg sig e x ≠ some (.u64 v) := by
  unfold withExponent
  split
  · cases f64FromParts sig e <;> simp
  · split
    · simp
    · split
      · split <;> simp
      · simp only
        generalize f64FromParts sig _ = o
        cases o <;> simp

theorem classify_u64_lt (lit : NumLit) (v : Nat) (h : classify lit = some (.u64 v)) : v < 2 ^ 64 := by
  have hle := accumulate_le 0 lit.intDigits (by simp [u64Max])
  unfold classify at h
  generalize accumulate 0 lit.intDigits = p at h hle
  obtain ⟨sig, rest⟩ := p
  simp only at h
  simp only [u64Max] at hle
  split at h
  · split at h
    · split at h
      · injection h with h; injection h with h; omega
      · split at h <;> simp at h
    · exact absurd h (withExponent_ne_u64 _ _ _ _ _)
    · exact absurd h (withExponent_ne_u64 _ _ _ _ _)
  · split at h
    · exact absurd h (withExponent_ne_u64 _ _ _ _ _)
    · exact absurd h (withExponent_ne_u64 _ _ _ _ _)

theorem orElse_eq_some {α} (a : Option α) (b : Unit → Option α) (x : α)
    (h : a.orElse b = some x) : a = some x ∨ b () = some x := by
  cases a with
  | none => right; simpa using h
  | some y => left; simpa using h

theorem bounded_some (B : Nat) (o : Option Nat) (v : Nat)
    (h : (match o with
      | some v => if v < B then some v else none
      | none => none) = some v) : v < B := by
  cases o with
  | none => simp at h
  | some w =>
    simp only at h
    split at h
    · injection h with h; omega
    · simp at h

theorem chain_lt (B : Nat) (a b c d : Option Nat) (v : Nat)
    (h : ((match a with
        | some v => if v < B then some v else none
        | none => none).orElse fun _ =>
      (match b with
        | some v => if v < B then some v else none
        | none => none).orElse fun _ =>
      (match c with
        | some v => if v < B then some v else none
        | none => none).orElse fun _ =>
      (match d with
        | some v => if v < B then some v else none
        | none => none)) = some v) : v < B := by
  rcases orElse_eq_some _ _ _ h with h | h
  · exact bounded_some B a v h
  rcases orElse_eq_some _ _ _ h with h | h
  · exact bounded_some B b v h
  rcases orElse_eq_some _ _ _ h with h | h
  · exact bounded_some B c v h
  · exact bounded_some B d v h

theorem u256FromStrPrefixed_lt (s : Str) (v : Nat) (h : u256FromStrPrefixed s = some v) : v < 2 ^ 256 := by
  unfold u256FromStrPrefixed at h
  split at h
  · simp at h
  · simp only at h
    split at h
    · split at h
      · simp at h
      · exact chain_lt _ _ _ _ _ _ h
    · split at h
      · simp at h
      · exact chain_lt _ _ _ _ _ _ h

theorem f64ToInt_lt (neg : Bool) (f : F64) (m : Nat) (h : f64ToInt? neg f = some (false, m)) :
    m < 2 ^ 53 := by
  unfold f64ToInt? at h
  split at h
  · simp at h
  · split at h
    · split at h
      · simp only [Option.some.injEq, Prod.mk.injEq, decide_eq_false_iff_not, ne_eq,
          Decidable.not_not] at h
        obtain ⟨h1, h2⟩ := h
        rw [← h2, h1]; decide
      · simp at h
    · split at h
      · simp only [Option.some.injEq, Prod.mk.injEq, true_and] at h
        omega
      · simp at h

theorem uintOfJson_lt (v : JVal) (n : Nat) (h : uintOfJson v = .ok n) : n < 2 ^ 256 := by
  have h64 : (2 : Nat) ^ 64 ≤ 2 ^ 256 := Nat.pow_le_pow_right (by omega) (by omega)
  have h53 : (2 : Nat) ^ 53 ≤ 2 ^ 256 := Nat.pow_le_pow_right (by omega) (by omega)
  unfold uintOfJson at h
  split at h
  · split at h
    · rename_i hc
      injection h with h; subst h
      exact Nat.lt_of_lt_of_le (classify_u64_lt _ _ hc) h64
    · simp at h
    · split at h
      · rename_i hf
        injection h with h; subst h
        exact Nat.lt_of_lt_of_le (f64ToInt_lt _ _ _ hf) h53
      · simp at h
      · simp at h
    · simp at h
  · split at h
    · rename_i hs
      injection h with h; subst h
      exact u256FromStrPrefixed_lt _ _ hs
    · simp at h
  · simp at h

theorem reqUint_lt (kv : List (Str × JVal)) (k : Str) (n : Nat) (h : reqUint kv k = .ok n) :
    n < 2 ^ 256 := by
  unfold reqUint at h
  obtain ⟨v, _, hv⟩ := res_bind_eq_ok.mp h
  exact uintOfJson_lt v n hv

theorem optUintOfJson_lt (v : JVal) (o : Option Nat) (h : optUintOfJson v = .ok o) :
    ∀ x ∈ o, x < 2 ^ 256 := by
  unfold optUintOfJson at h
  split at h
  · injection h with h; subst h; intro x hx; cases hx
  · split at h
    · rename_i hu
      injection h with h; subst h
      intro x hx; cases hx
      exact uintOfJson_lt _ _ hu
    · simp at h
    · simp at h

theorem hexDecodeExact_length (n : Nat) (s : Str) (b : Bytes) (h : hexDecodeExact n s = some b) :
    b.length = n := by
  unfold hexDecodeExact at h
  split at h
  · split at h
    · rename_i hl; injection h with h; subst h; exact hl
    · simp at h
  · simp at h

theorem addressOfJson_length (v : JVal) (a : Bytes) (h : addressOfJson v = .ok a) :
    a.length = 20 := by
  unfold addressOfJson at h
  split at h
  · split at h
    · simp at h
    · simp only at h
      split at h
      · rename_i hd; injection h with h; subst h; exact hexDecodeExact_length _ _ _ hd
      · simp at h
  · simp at h

theorem byteArrayOfJson_length (n : Nat) (v : JVal) (a : Bytes) (h : byteArrayOfJson n v = .ok a) :
    a.length = n := by
  unfold byteArrayOfJson at h
  split at h
  · split at h
    · simp at h
    · split at h
      · rename_i hd; injection h with h; subst h; exact hexDecodeExact_length _ _ _ hd
      · simp at h
  · simp at h

theorem optTo_length (kv : List (Str × JVal)) (to : Option Bytes) (h : optTo kv = .ok to) :
    ∀ a ∈ to, a.length = 20 := by
  unfold optTo at h
  split at h
  · injection h with h; subst h; intro a ha; cases ha
  · injection h with h; subst h; intro a ha; cases ha
  · obtain ⟨a, ha, h⟩ := res_bind_eq_ok.mp h
    injection h with h; subst h
    intro x hx; cases hx
    exact addressOfJson_length _ _ ha

theorem optTo_absent (kv : List (Str × JVal))
    (hto : JVal.get? (chars! "to") kv = none ∨ JVal.get? (chars! "to") kv = some .null) :
    optTo kv = .ok none := by
  unfold optTo
  rcases hto with h | h <;> rw [h]

theorem slotsOfJson_length (l : List JVal) (ss : List Bytes) (h : slotsOfJson l = .ok ss) :
    ∀ s ∈ ss, s.length = 32 := by
  induction l generalizing ss with
  | nil =>
    unfold slotsOfJson at h
    injection h with h; subst h; intro s hs; cases hs
  | cons v vs ih =>
    unfold slotsOfJson at h
    split at h
    · rename_i s hs
      split at h
      · rename_i ss' hss
        injection h with h; subst h
        intro x hx
        cases hx with
        | head => exact byteArrayOfJson_length _ _ _ hs
        | tail _ hx => exact ih _ hss x hx
      · simp at h
      · simp at h
    · simp at h
    · simp at h

theorem entryOfJson_ok (v : JVal) (e : AccessEntry) (h : entryOfJson v = .ok e) :
    e.addr.length = 20 ∧ ∀ s ∈ e.slots, s.length = 32 := by
  unfold entryOfJson at h
  split at h
  · split at h
    · rename_i addr ha
      split at h
      · rename_i ss hss
        injection h with h; subst h
        exact ⟨addressOfJson_length _ _ ha, slotsOfJson_length _ _ hss⟩
      · simp at h
      · simp at h
    · simp at h
    · simp at h
  · simp at h

theorem entriesOfJson_ok (l : List JVal) (es : List AccessEntry) (h : entriesOfJson l = .ok es) :
    AlOk es := by
  induction l generalizing es with
  | nil =>
    unfold entriesOfJson at h
    injection h with h; subst h; intro s hs; cases hs
  | cons v vs ih =>
    unfold entriesOfJson at h
    split at h
    · rename_i e he
      split at h
      · rename_i es' hes
        injection h with h; subst h
        intro x hx
        cases hx with
        | head => exact entryOfJson_ok _ _ he
        | tail _ hx => exact ih _ hes x hx
      · simp at h
      · simp at h
    · simp at h
    · simp at h

theorem accessListOfJson_ok (v : JVal) (es : List AccessEntry) (h : accessListOfJson v = .ok es) :
    AlOk es := by
  unfold accessListOfJson at h
  split at h
  · exact entriesOfJson_ok _ _ h
  · simp at h

/-- key-presence tests of the dispatch -/
def hasKey (kv : List (Str × JVal)) (k : Str) : Bool := (JVal.get? k kv).isSome

def hasFee (kv : List (Str × JVal)) : Bool :=
  hasKey kv (chars! "maxPriorityFeePerGas") || hasKey kv (chars! "maxFeePerGas")

theorem ofJson_obj_inv (kv : List (Str × JVal)) (tx : Tx) (h : ofJson (.obj kv) = .ok tx) :
    (hasFee kv = true ∧ ∃ c n p f g to v d al,
      c < 2 ^ 256 ∧ n < 2 ^ 256 ∧ p < 2 ^ 256 ∧ f < 2 ^ 256 ∧ g < 2 ^ 256 ∧ optTo kv = .ok to ∧
      v < 2 ^ 256 ∧ AlOk al ∧ tx = .eip1559 c n p f g to v d al) ∨
    (hasFee kv = false ∧ hasKey kv (chars! "accessList") = true ∧ ∃ c n gp g to v d al,
      c < 2 ^ 256 ∧ n < 2 ^ 256 ∧ gp < 2 ^ 256 ∧ g < 2 ^ 256 ∧ optTo kv = .ok to ∧
      v < 2 ^ 256 ∧ AlOk al ∧ tx = .eip2930 c n gp g to v d al) ∨
    (hasFee kv = false ∧ hasKey kv (chars! "accessList") = false ∧ ∃ c n gp g to v d,
      (∀ x ∈ c, x < 2 ^ 256 ∧ x ≤ maxLegacyChainId) ∧ n < 2 ^ 256 ∧ gp < 2 ^ 256 ∧ g < 2 ^ 256 ∧
      optTo kv = .ok to ∧ v < 2 ^ 256 ∧ tx = .legacy c n gp g to v d) := by
  simp only [ofJson] at h
  split at h
  · rename_i hfee
    left
    refine ⟨hfee, ?_⟩
    simp only [res_bind_eq_ok', Res.pure_eq] at h
    obtain ⟨c, hc, n, hn, p, hp, f, hf, g, hg, to, hto, v, hv, d, _, h⟩ := h
    have hal : ∃ al, AlOk al ∧ tx = .eip1559 c n p f g to v d al := by
      split at h
      · simp only [res_bind_eq_ok', Res.ok.injEq] at h
        obtain ⟨al, hal, h⟩ := h
        subst hal
        exact ⟨[], (fun e he => nomatch he), h.symm⟩
      · simp only [res_bind_eq_ok', Res.ok.injEq] at h
        obtain ⟨al, hal, h⟩ := h
        exact ⟨al, accessListOfJson_ok _ _ hal, h.symm⟩
    obtain ⟨al, hal, htx⟩ := hal
    exact ⟨c, n, p, f, g, to, v, d, al, reqUint_lt _ _ _ hc, reqUint_lt _ _ _ hn,
      reqUint_lt _ _ _ hp, reqUint_lt _ _ _ hf, reqUint_lt _ _ _ hg, hto, reqUint_lt _ _ _ hv,
      hal, htx⟩
  · rename_i hfee
    have hfee' : hasFee kv = false := by simpa [hasFee, hasKey] using hfee
    right
    split at h
    · rename_i hal
      left
      refine ⟨hfee', hal, ?_⟩
      simp only [res_bind_eq_ok', res_bind_eq_ok, Res.pure_eq, Res.ok.injEq] at h
      obtain ⟨c, hc, n, hn, gp, hgp, g, hg, to, hto, v, hv, d, _, al, ⟨a, _, hal⟩, h⟩ := h
      exact ⟨c, n, gp, g, to, v, d, al, reqUint_lt _ _ _ hc, reqUint_lt _ _ _ hn,
        reqUint_lt _ _ _ hgp, reqUint_lt _ _ _ hg, hto, reqUint_lt _ _ _ hv,
        accessListOfJson_ok _ _ hal, h.symm⟩
    · rename_i hal
      right
      refine ⟨hfee', by simpa [hasKey] using hal, ?_⟩
      simp only [res_bind_eq_ok', Res.pure_eq] at h
      obtain ⟨n, hn, gp, hgp, g, hg, to, hto, v, hv, d, _, h⟩ := h
      have hc : ∃ c, (∀ x ∈ c, x < 2 ^ 256 ∧ x ≤ maxLegacyChainId) ∧
          tx = .legacy c n gp g to v d := by
        have key : ∀ o : Option Nat, (∀ x ∈ o, x < 2 ^ 256) →
            (match o with
              | some c =>
                if c ≤ maxLegacyChainId then Res.ok (Tx.legacy (some c) n gp g to v d)
                else Res.err "chain ID too large for EIP-155"
              | none => Res.ok (Tx.legacy none n gp g to v d)) = Res.ok tx →
            ∃ c, (∀ x ∈ c, x < 2 ^ 256 ∧ x ≤ maxLegacyChainId) ∧ tx = .legacy c n gp g to v d := by
          intro o ho h
          cases o with
          | none =>
            simp only [Res.ok.injEq] at h
            exact ⟨none, (fun x hx => nomatch hx), h.symm⟩
          | some c =>
            simp only at h
            split at h
            · rename_i hle
              simp only [Res.ok.injEq] at h
              exact ⟨some c, (by intro x hx; cases hx; exact ⟨ho c rfl, hle⟩), h.symm⟩
            · simp at h
        split at h
        · simp only [res_bind_eq_ok'] at h
          obtain ⟨o, ho, h⟩ := h
          injection ho with ho; subst ho
          exact key none (by intro x hx; cases hx) h
        · simp only [res_bind_eq_ok'] at h
          obtain ⟨o, ho, h⟩ := h
          exact key o (optUintOfJson_lt _ _ ho) h
      obtain ⟨c, hc, htx⟩ := hc
      exact ⟨c, n, gp, g, to, v, d, hc, reqUint_lt _ _ _ hn, reqUint_lt _ _ _ hgp,
        reqUint_lt _ _ _ hg, hto, reqUint_lt _ _ _ hv, htx⟩

theorem ofJson_kind (kv : List (Str × JVal)) (tx : Tx) (h : ofJson (.obj kv) = .ok tx) :
    (hasKey kv (chars! "maxPriorityFeePerGas") = true ∨ hasKey kv (chars! "maxFeePerGas") = true →
      ∃ c n p f g to v d al, tx = .eip1559 c n p f g to v d al) ∧
    (¬ (hasKey kv (chars! "maxPriorityFeePerGas") = true ∨ hasKey kv (chars! "maxFeePerGas") = true) →
      hasKey kv (chars! "accessList") = true → ∃ c n gp g to v d al, tx = .eip2930 c n gp g to v d al) ∧
    (¬ (hasKey kv (chars! "maxPriorityFeePerGas") = true ∨ hasKey kv (chars! "maxFeePerGas") = true) →
      ¬ hasKey kv (chars! "accessList") = true → ∃ c n gp g to v d, tx = .legacy c n gp g to v d) := by
  have hfee : hasFee kv = true ↔
      (hasKey kv (chars! "maxPriorityFeePerGas") = true ∨ hasKey kv (chars! "maxFeePerGas") = true) := by
    simp [hasFee]
  rw [← hfee]
  rcases ofJson_obj_inv kv tx h with ⟨h1, c, n, p, f, g, to, v, d, al, _, _, _, _, _, _, _, _, e⟩ |
    ⟨h1, h2, c, n, gp, g, to, v, d, al, _, _, _, _, _, _, _, e⟩ |
    ⟨h1, h2, c, n, gp, g, to, v, d, _, _, _, _, _, _, e⟩
  · refine ⟨fun _ => ⟨c, n, p, f, g, to, v, d, al, e⟩, fun hn => absurd h1 hn, fun hn => absurd h1 hn⟩
  · refine ⟨fun hp => ?_, fun _ _ => ⟨c, n, gp, g, to, v, d, al, e⟩, fun _ hn => absurd h2 hn⟩
    rw [h1] at hp; cases hp
  · refine ⟨fun hp => ?_, fun _ hp => ?_, fun _ _ => ⟨c, n, gp, g, to, v, d, e⟩⟩
    · rw [h1] at hp; cases hp
    · rw [h2] at hp; cases hp

/-- the recipient field -/
def txTo : Tx → Option Bytes
  | .legacy _ _ _ _ to _ _ => to
  | .eip2930 _ _ _ _ to _ _ _ => to
  | .eip1559 _ _ _ _ _ to _ _ _ => to

theorem ofJson_to_absent (kv : List (Str × JVal)) (tx : Tx) (h : ofJson (.obj kv) = .ok tx)
    (hto : JVal.get? (chars! "to") kv = none ∨ JVal.get? (chars! "to") kv = some .null) :
    txTo tx = none := by
  have h0 := optTo_absent kv hto
  rcases ofJson_obj_inv kv tx h with ⟨_, c, n, p, f, g, to, v, d, al, _, _, _, _, _, ht, _, _, e⟩ |
    ⟨_, _, c, n, gp, g, to, v, d, al, _, _, _, _, ht, _, _, e⟩ |
    ⟨_, _, c, n, gp, g, to, v, d, _, _, _, _, ht, _, e⟩
  all_goals
    subst e
    rw [h0] at ht
    injection ht with ht
    exact ht.symm

/-- ranges of the fields of an accepted document (the statement of `C06.ofJson_ranges`) -/
def Ranges (tx : Tx) : Prop :=
  match tx with
  | .legacy c n gp g to v d =>
    (∀ x ∈ c, x < 2 ^ 256) ∧ n < 2 ^ 256 ∧ gp < 2 ^ 256 ∧ g < 2 ^ 256 ∧ (∀ a ∈ to, a.length = 20) ∧
      v < 2 ^ 256 ∧ d = d
  | .eip2930 c n gp g to v _ l =>
    c < 2 ^ 256 ∧ n < 2 ^ 256 ∧ gp < 2 ^ 256 ∧ g < 2 ^ 256 ∧ (∀ a ∈ to, a.length = 20) ∧ v < 2 ^ 256 ∧
      ∀ e ∈ l, e.addr.length = 20 ∧ ∀ s ∈ e.slots, s.length = 32
  | .eip1559 c n p f g to v _ l =>
    c < 2 ^ 256 ∧ n < 2 ^ 256 ∧ p < 2 ^ 256 ∧ f < 2 ^ 256 ∧ g < 2 ^ 256 ∧ (∀ a ∈ to, a.length = 20) ∧
      v < 2 ^ 256 ∧ ∀ e ∈ l, e.addr.length = 20 ∧ ∀ s ∈ e.slots, s.length = 32

theorem ofJson_ranges' (j : JVal) (tx : Tx) (h : ofJson j = .ok tx) : ChainBound tx ∧ Ranges tx := by
  cases j with
  | obj kv =>
    rcases ofJson_obj_inv kv tx h with ⟨_, c, n, p, f, g, to, v, d, al, hc, hn, hp, hf, hg, ht, hv, hal, e⟩ |
      ⟨_, _, c, n, gp, g, to, v, d, al, hc, hn, hgp, hg, ht, hv, hal, e⟩ |
      ⟨_, _, c, n, gp, g, to, v, d, hc, hn, hgp, hg, ht, hv, e⟩
    · subst e
      exact ⟨(fun _ _ _ _ _ _ _ e => nomatch e),
        hc, hn, hp, hf, hg, optTo_length kv to ht, hv, hal⟩
    · subst e
      exact ⟨(fun _ _ _ _ _ _ _ e => nomatch e),
        hc, hn, hgp, hg, optTo_length kv to ht, hv, hal⟩
    · subst e
      refine ⟨?_, fun x hx => (hc x hx).1, hn, hgp, hg, optTo_length kv to ht, hv, rfl⟩
      intro c' _ _ _ _ _ _ e
      injection e with e
      exact (hc c' (by rw [e]; rfl)).2
  | null => simp [ofJson] at h
  | bool => simp [ofJson] at h
  | num => simp [ofJson] at h
  | str => simp [ofJson] at h
  | arr => simp [ofJson] at h

end Hdw.Tx
