/-
Helper lemmas for C07 (RLP): big-endian bytes, the spec header, the strict decoder.
-/
import HdwModel.Model.Rlp
import HdwModel.Spec.Rlp

namespace Hdw

/-! ### `beBytes` / `beVal` -/

theorem beBytes_zero : beBytes 0 = [] := by rw [beBytes]; simp

theorem beBytes_of_ne_zero {n : Nat} (h : n ≠ 0) :
    beBytes n = beBytes (n / 256) ++ [UInt8.ofNat (n % 256)] := by
  rw [beBytes]; simp [h]

theorem beBytes_eq_nil {n : Nat} : beBytes n = [] ↔ n = 0 := by
  constructor
  · intro h
    by_cases hn : n = 0
    · exact hn
    · rw [beBytes_of_ne_zero hn] at h; simp at h
  · intro h; subst h; exact beBytes_zero

theorem beVal_append (a b : Bytes) :
    beVal (a ++ b) = beVal a * 256 ^ b.length + beVal b := by
  induction a with
  | nil => simp [beVal]
  | cons x xs ih =>
    simp only [List.cons_append, beVal, ih, List.length_append]
    rw [Nat.pow_add, Nat.add_mul, Nat.mul_assoc]
    omega

theorem beVal_snoc (a : Bytes) (x : UInt8) : beVal (a ++ [x]) = beVal a * 256 + x.toNat := by
  rw [beVal_append]; simp [beVal]

theorem beVal_beBytes (n : Nat) : beVal (beBytes n) = n := by
  induction n using Nat.strongRecOn with
  | _ n ih =>
    by_cases hn : n = 0
    · subst hn; rw [beBytes_zero]; rfl
    · rw [beBytes_of_ne_zero hn, beVal_snoc, ih (n / 256) (by omega)]
      simp [UInt8.toNat_ofNat']
      omega

theorem beBytes_head (n : Nat) : (beBytes n).head? ≠ some 0 := by
  induction n using Nat.strongRecOn with
  | _ n ih =>
    by_cases hn : n = 0
    · subst hn; rw [beBytes_zero]; simp
    · rw [beBytes_of_ne_zero hn]
      by_cases hq : n / 256 = 0
      · rw [hq, beBytes_zero]
        simp only [List.nil_append, List.head?_cons, ne_eq, Option.some.injEq]
        intro h
        have := congrArg UInt8.toNat h
        simp [UInt8.toNat_ofNat'] at this
        omega
      · have h1 := ih (n / 256) (by omega)
        have h2 : beBytes (n / 256) ≠ [] := fun h => hq (beBytes_eq_nil.mp h)
        cases hb : beBytes (n / 256) with
        | nil => exact absurd hb h2
        | cons a as => rw [hb] at h1; simpa using h1

theorem beBytes_length_le (n k : Nat) (h : n < 256 ^ k) : (beBytes n).length ≤ k := by
  induction k generalizing n with
  | zero =>
    have : n = 0 := by simpa using h
    subst this; rw [beBytes_zero]; simp
  | succ k ih =>
    by_cases hn : n = 0
    · subst hn; rw [beBytes_zero]; simp
    · rw [beBytes_of_ne_zero hn]
      have : n / 256 < 256 ^ k := by
        rw [Nat.pow_succ] at h
        exact Nat.div_lt_of_lt_mul (by rw [Nat.mul_comm]; exact h)
      have := ih (n / 256) this
      simp; omega

theorem beBytes_length_le_8 (n : Nat) (h : n < 2 ^ 64) : (beBytes n).length ≤ 8 :=
  beBytes_length_le n 8 (by simpa using h)

theorem beBytes_length_pos {n : Nat} (h : n ≠ 0) : 0 < (beBytes n).length := by
  rw [beBytes_of_ne_zero h]; simp

private theorem rev_ind {α} {P : List α → Prop} (hnil : P [])
    (snoc : ∀ l a, P l → P (l ++ [a])) (l : List α) : P l := by
  have : ∀ r : List α, P r.reverse := by
    intro r
    induction r with
    | nil => simpa using hnil
    | cons a r ih => simpa using snoc _ a ih
  simpa using this l.reverse

theorem beBytes_beVal (bs : Bytes) (h : bs.head? ≠ some 0) : beBytes (beVal bs) = bs := by
  induction bs using rev_ind with
  | hnil => simp [beVal, beBytes_zero]
  | snoc as x ih =>
    rw [beVal_snoc]
    cases as with
    | nil =>
      have hx : x.toNat ≠ 0 := by
        intro h0
        apply h
        have : x = 0 := UInt8.toNat_inj.mp (by simpa using h0)
        simp [this]
      have hlt := x.toNat_lt
      simp only [beVal, Nat.zero_mul, Nat.zero_add, List.nil_append]
      rw [beBytes_of_ne_zero hx]
      have h1 : x.toNat / 256 = 0 := by omega
      have h2 : x.toNat % 256 = x.toNat := by omega
      rw [h1, h2, beBytes_zero]; simp
    | cons a as' =>
      have hh : (a :: as').head? ≠ some 0 := by simpa using h
      have ih' := ih hh
      have hne : beVal (a :: as') ≠ 0 := by
        intro h0
        rw [h0, beBytes_zero] at ih'
        simp at ih'
      have hlt := x.toNat_lt
      rw [beBytes_of_ne_zero (by omega)]
      have h1 : (beVal (a :: as') * 256 + x.toNat) / 256 = beVal (a :: as') := by omega
      have h2 : (beVal (a :: as') * 256 + x.toNat) % 256 = x.toNat := by omega
      rw [h1, h2, ih']; simp

theorem beVal_lt (bs : Bytes) : beVal bs < 256 ^ bs.length := by
  induction bs with
  | nil => simp [beVal]
  | cons b bs ih =>
    simp only [beVal, List.length_cons, Nat.pow_succ]
    have := b.toNat_lt
    have h2 : b.toNat * 256 ^ bs.length ≤ 255 * 256 ^ bs.length :=
      Nat.mul_le_mul_right _ (by omega)
    omega

/-! ### `to_be_bytes()[leading_zeros / 8 ..]` is `beBytes` -/

theorem lt_pow_beBytes_length (v : Nat) : v < 256 ^ (beBytes v).length := by
  have := beVal_lt (beBytes v)
  rwa [beVal_beBytes] at this

theorem pow_beBytes_length_le {v : Nat} (h : v ≠ 0) : 256 ^ ((beBytes v).length - 1) ≤ v := by
  apply Nat.le_of_not_lt
  intro hlt
  have h1 := beBytes_length_le v _ hlt
  have h2 := beBytes_length_pos h
  omega

/-- the fixed-width representation is zero padding followed by the minimal one.

Note: `beFixed` is unfolded with a `rfl` step rather than `rw [beFixed]` on purpose.  `rw [beFixed]`
would realize the equation lemmas `beFixed.eq_*` in this module, which shifts the numbering of the
auxiliary `_proof_i_j` lemmas in `Lemmas/Account.lean` (it imports this file); `Lemmas/Account.lean`
and `Lemmas/Signature.lean` both declare a public `Hdw.beFixed_beVal`, and their auxiliary lemmas
then collide (`Hdw.beFixed_beVal._proof_1_4`) in modules importing both (C17, EndToEnd). -/
theorem beFixed_eq_replicate_append (w v : Nat) (h : v < 256 ^ w) :
    beFixed w v = List.replicate (w - (beBytes v).length) 0 ++ beBytes v := by
  induction w generalizing v with
  | zero =>
    have : v = 0 := by simpa using h
    subst this; rw [beBytes_zero]; rfl
  | succ w ih =>
    have hq : v / 256 < 256 ^ w := by
      rw [Nat.pow_succ] at h
      exact Nat.div_lt_of_lt_mul (by rw [Nat.mul_comm]; exact h)
    -- unfold by `rfl`, not `rw [beFixed]`: see the note in the doc comment
    have hstep : beFixed (w + 1) v = beFixed w (v / 256) ++ [UInt8.ofNat (v % 256)] := rfl
    rw [hstep, ih _ hq]
    by_cases hv : v = 0
    · subst hv
      simp only [Nat.zero_div, Nat.zero_mod, beBytes_zero, List.length_nil, Nat.sub_zero,
        List.append_nil]
      rw [List.replicate_succ']; rfl
    · rw [beBytes_of_ne_zero hv, List.length_append, List.length_singleton,
        Nat.add_sub_add_right, List.append_assoc]

/-- number of stripped bytes = width minus minimal length -/
theorem leadingZeros_div_8 (w v : Nat) (h : v < 256 ^ w) :
    Hdw.Rlp.leadingZeros (8 * w) v / 8 = w - (beBytes v).length := by
  unfold Hdw.Rlp.leadingZeros
  by_cases hv : v = 0
  · subst hv; rw [if_pos rfl, beBytes_zero]; simp
  · rw [if_neg hv]
    have hL := beBytes_length_le v w h
    have hpos := beBytes_length_pos hv
    have hlo := pow_beBytes_length_le hv
    have hhi := lt_pow_beBytes_length v
    have e : ∀ k, 256 ^ k = 2 ^ (8 * k) := fun k => by
      rw [Nat.pow_mul]
    rw [e] at hlo hhi
    have h1 : 8 * ((beBytes v).length - 1) ≤ v.log2 := (Nat.le_log2 hv).mpr hlo
    have h2 : v.log2 < 8 * (beBytes v).length := (Nat.log2_lt hv).mpr hhi
    omega

theorem beStripped_eq_beBytes (w v : Nat) (h : v < 256 ^ w) :
    Hdw.Rlp.beStripped w v = beBytes v := by
  unfold Hdw.Rlp.beStripped
  rw [leadingZeros_div_8 w v h, beFixed_eq_replicate_append w v h]
  exact List.drop_left' (by simp)

theorem beStripped_8 (l : Nat) (h : l < 2 ^ 64) : Hdw.Rlp.beStripped 8 l = beBytes l :=
  beStripped_eq_beBytes 8 l (by simpa using h)

theorem beStripped_32 (v : Nat) (h : v < 2 ^ 256) : Hdw.Rlp.beStripped 32 v = beBytes v :=
  beStripped_eq_beBytes 32 v (by simpa using h)

end Hdw

namespace Hdw.Spec.Rlp

/-! ### header / encoder shape -/

theorem header_short {l off : Nat} (h : l < 56) : header l off = [UInt8.ofNat (off + l)] := by
  simp [header, h]

theorem header_long {l off : Nat} (h : ¬ l < 56) :
    header l off = UInt8.ofNat (off + 55 + (beBytes l).length) :: beBytes l := by
  simp [header, h]

theorem header_length_pos (l off : Nat) : 0 < (header l off).length := by
  unfold header; split <;> simp

theorem encStr_single_lt {x : UInt8} (h : x < 0x80) : encStr [x] = [x] := by
  simp [encStr, h]

theorem encStr_single_ge {x : UInt8} (h : ¬ x < 0x80) : encStr [x] = header 1 0x80 ++ [x] := by
  simp [encStr, h]

theorem encStr_eq_header (b : Bytes) (h : ¬ (b.length = 1 ∧ (b.headD 0).toNat < 0x80)) :
    encStr b = header b.length 0x80 ++ b := by
  match b with
  | [] => simp [encStr]
  | [x] =>
    have : ¬ x < 0x80 := by
      intro hx; apply h; simp [UInt8.lt_iff_toNat_lt] at hx; simpa using hx
    rw [encStr_single_ge this]; rfl
  | _ :: _ :: _ => simp [encStr]

theorem encode_str (b : Bytes) : encode (.str b) = encStr b := by rw [encode]

theorem encode_list (l : List Item) :
    encode (.list l) = header (encodeList l).length 0xc0 ++ encodeList l := by rw [encode]

theorem encodeList_nil : encodeList [] = [] := by rw [encodeList]

theorem encodeList_cons (i : Item) (is : List Item) :
    encodeList (i :: is) = encode i ++ encodeList is := by rw [encodeList]

theorem encStr_length_pos (b : Bytes) : 0 < (encStr b).length := by
  unfold encStr
  split
  · split
    · simp
    · simp
  · have := header_length_pos b.length 0x80
    simp; omega

theorem encode_length_pos (it : Item) : 0 < (encode it).length := by
  cases it with
  | str b => rw [encode_str]; exact encStr_length_pos b
  | list l =>
    rw [encode_list]
    have := header_length_pos (encodeList l).length 0xc0
    simp; omega

/-! ### the strict decoder -/

theorem decodeLongLen_beBytes (l : Nat) (r : Bytes) (h : ¬ l < 56) :
    decodeLongLen (beBytes l).length (beBytes l ++ r) = some (l, r) := by
  unfold decodeLongLen
  have hh := beBytes_head l
  simp [beVal_beBytes, hh, h]

theorem decodeLongLen_some {ll : Nat} {rest rest' : Bytes} {l : Nat}
    (h : decodeLongLen ll rest = some (l, rest')) :
    rest = beBytes l ++ rest' ∧ (beBytes l).length = ll ∧ ¬ l < 56 := by
  unfold decodeLongLen at h
  split at h
  · simp at h
  · rename_i hlen
    simp only at h
    split at h
    · simp at h
    · rename_i hhead
      split at h
      · simp at h
      · rename_i h56
        simp only [Option.some.injEq, Prod.mk.injEq] at h
        obtain ⟨h1, h2⟩ := h
        have hb := beBytes_beVal _ hhead
        rw [h1] at hb
        refine ⟨?_, ?_, ?_⟩
        · rw [hb, ← h2]; exact (List.take_append_drop ll rest).symm
        · rw [hb]; simp; omega
        · rw [← h1]; exact h56


/-- unfolding of `decode` on a non-empty input (the auto-generated equation lemma exceeds the
default recursion depth, so it is stated here and proved by `rfl`) -/
theorem decode_succ_cons (fuel : Nat) (b : UInt8) (rest : Bytes) :
  decode (fuel + 1) (b :: rest) =
    (let t := b.toNat
    if t < 0x80 then some (.str [b], rest)
    else if t ≤ 0xb7 then
      let l := t - 0x80
      if rest.length < l then none
      else
        let payload := rest.take l
        if l = 1 ∧ (payload.headD 0).toNat < 0x80 then none
        else some (.str payload, rest.drop l)
    else if t ≤ 0xbf then
      match decodeLongLen (t - 0xb7) rest with
      | none => none
      | some (l, rest') =>
        if rest'.length < l then none else some (.str (rest'.take l), rest'.drop l)
    else if t ≤ 0xf7 then
      let l := t - 0xc0
      if rest.length < l then none
      else
        match decodeItems fuel (rest.take l) with
        | none => none
        | some items => some (.list items, rest.drop l)
    else
      match decodeLongLen (t - 0xf7) rest with
      | none => none
      | some (l, rest') =>
        if rest'.length < l then none
        else
          match decodeItems fuel (rest'.take l) with
          | none => none
          | some items => some (.list items, rest'.drop l)) := by
  set_option maxRecDepth 4000 in
  rfl

theorem decode_zero (b : Bytes) : decode 0 b = none := rfl
theorem decode_nil (fuel : Nat) : decode fuel [] = none := by cases fuel <;> rfl
theorem decodeItems_nil (fuel : Nat) : decodeItems fuel [] = some [] := by cases fuel <;> rfl
theorem decodeItems_zero_cons (b : UInt8) (rest : Bytes) : decodeItems 0 (b :: rest) = none := rfl
theorem decodeItems_succ_cons (fuel : Nat) (b : UInt8) (rest : Bytes) :
    decodeItems (fuel + 1) (b :: rest) =
      match decode fuel (b :: rest) with
      | none => none
      | some (it, rest') =>
        match decodeItems fuel rest' with
        | none => none
        | some its => some (it :: its) := rfl

theorem decode_header_str (fuel : Nat) (p rest : Bytes) (hl : p.length < 2 ^ 64)
    (h : ¬ (p.length = 1 ∧ (p.headD 0).toNat < 0x80)) :
    decode (fuel + 1) (header p.length 0x80 ++ (p ++ rest)) = some (.str p, rest) := by
  by_cases h56 : p.length < 56
  · simp only [header_short h56]
    have ht : (UInt8.ofNat (0x80 + p.length)).toNat = 0x80 + p.length := by
      simp [UInt8.toNat_ofNat']; omega
    simp only [List.cons_append, List.nil_append, decode_succ_cons, ht]
    have e1 : 128 + p.length - 128 = p.length := by omega
    rw [if_neg (by omega), if_pos (by omega), e1, if_neg (by simp), List.take_left, if_neg h,
      List.drop_left]
  · simp only [header_long h56]
    have hk := beBytes_length_le_8 _ hl
    have hk0 : 0 < (beBytes p.length).length := beBytes_length_pos (by omega)
    have ht : (UInt8.ofNat (0x80 + 55 + (beBytes p.length).length)).toNat
        = 0xb7 + (beBytes p.length).length := by
      simp [UInt8.toNat_ofNat']; omega
    simp only [List.cons_append, decode_succ_cons, ht]
    have e1 : 183 + (beBytes p.length).length - 183 = (beBytes p.length).length := by omega
    rw [if_neg (by omega), if_neg (by omega), if_pos (by omega), e1,
      decodeLongLen_beBytes _ _ h56]
    simp only
    rw [if_neg (by simp), List.take_left, List.drop_left]

theorem decode_header_list (fuel : Nat) (p rest : Bytes) (items : List Item)
    (hl : p.length < 2 ^ 64) (hd : decodeItems fuel p = some items) :
    decode (fuel + 1) (header p.length 0xc0 ++ (p ++ rest)) = some (.list items, rest) := by
  by_cases h56 : p.length < 56
  · simp only [header_short h56]
    have ht : (UInt8.ofNat (0xc0 + p.length)).toNat = 0xc0 + p.length := by
      simp [UInt8.toNat_ofNat']; omega
    simp only [List.cons_append, List.nil_append, decode_succ_cons, ht]
    have e1 : 192 + p.length - 192 = p.length := by omega
    rw [if_neg (by omega), if_neg (by omega), if_neg (by omega), if_pos (by omega), e1,
      if_neg (by simp), List.take_left, hd, List.drop_left]
  · simp only [header_long h56]
    have hk := beBytes_length_le_8 _ hl
    have hk0 : 0 < (beBytes p.length).length := beBytes_length_pos (by omega)
    have ht : (UInt8.ofNat (0xc0 + 55 + (beBytes p.length).length)).toNat
        = 0xf7 + (beBytes p.length).length := by
      simp [UInt8.toNat_ofNat']; omega
    simp only [List.cons_append, decode_succ_cons, ht]
    have e1 : 247 + (beBytes p.length).length - 247 = (beBytes p.length).length := by omega
    rw [if_neg (by omega), if_neg (by omega), if_neg (by omega), if_neg (by omega), e1,
      decodeLongLen_beBytes _ _ h56]
    simp only
    rw [if_neg (by simp), List.take_left, hd, List.drop_left]

theorem encode_str_long (b : Bytes) (h : 2 ≤ b.length) :
    encode (.str b) = header b.length 0x80 ++ b := by
  rw [encode_str, encStr_eq_header b (by omega)]

/-! ### decoder inverts encoder (given enough fuel) -/

theorem encodable_str (b : Bytes) : (Item.str b).Encodable ↔ b.length < 2 ^ 64 := by
  rw [Item.Encodable]

theorem encodable_list (l : List Item) :
    (Item.list l).Encodable ↔ Item.EncodableList l ∧ (encodeList l).length < 2 ^ 64 := by
  rw [Item.Encodable]

theorem encodableList_cons (i : Item) (is : List Item) :
    Item.EncodableList (i :: is) ↔ i.Encodable ∧ Item.EncodableList is := by
  rw [Item.EncodableList]

theorem decode_encode_str (b rest : Bytes) (fuel : Nat) (h : b.length < 2 ^ 64) :
    decode (fuel + 1) (encStr b ++ rest) = some (.str b, rest) := by
  by_cases hs : b.length = 1 ∧ (b.headD 0).toNat < 0x80
  · match b, hs with
    | [x], hs =>
      have hx : x < 0x80 := by
        rw [UInt8.lt_iff_toNat_lt]; simpa using hs
      have hx' : x.toNat < 128 := by simpa using hs
      rw [encStr_single_lt hx]
      simp only [List.cons_append, List.nil_append, decode_succ_cons]
      rw [if_pos hx']
  · rw [encStr_eq_header b hs, List.append_assoc]
    exact decode_header_str fuel b rest h hs

mutual
/-- exact amount of fuel `decode` needs on `encode it` -/
def fuelNeed : Item → Nat
  | .str _ => 1
  | .list l => 1 + fuelNeedList l
/-- exact amount of fuel `decodeItems` needs on `encodeList l` -/
def fuelNeedList : List Item → Nat
  | [] => 0
  | i :: is => 1 + max (fuelNeed i) (fuelNeedList is)
end

theorem fuelNeed_str (b : Bytes) : fuelNeed (.str b) = 1 := by rw [fuelNeed]
theorem fuelNeed_list (l : List Item) : fuelNeed (.list l) = 1 + fuelNeedList l := by rw [fuelNeed]
theorem fuelNeedList_nil : fuelNeedList [] = 0 := by rw [fuelNeedList]
theorem fuelNeedList_cons (i : Item) (is : List Item) :
    fuelNeedList (i :: is) = 1 + max (fuelNeed i) (fuelNeedList is) := by rw [fuelNeedList]

mutual
theorem decode_encode_fuelNeed : ∀ (it : Item) (rest : Bytes) (fuel : Nat), it.Encodable →
    fuelNeed it ≤ fuel → decode fuel (encode it ++ rest) = some (it, rest)
  | .str b, rest, fuel, h, hf => by
    rw [fuelNeed_str] at hf
    obtain ⟨f, rfl⟩ : ∃ f, fuel = f + 1 := ⟨fuel - 1, by omega⟩
    rw [encode_str]
    exact decode_encode_str b rest f ((encodable_str b).mp h)
  | .list l, rest, fuel, h, hf => by
    rw [fuelNeed_list] at hf
    obtain ⟨f, rfl⟩ : ∃ f, fuel = f + 1 := ⟨fuel - 1, by omega⟩
    obtain ⟨h1, h2⟩ := (encodable_list l).mp h
    rw [encode_list, List.append_assoc]
    exact decode_header_list f _ rest l h2 (decodeItems_encodeList_fuelNeed l f h1 (by omega))
theorem decodeItems_encodeList_fuelNeed : ∀ (l : List Item) (fuel : Nat), Item.EncodableList l →
    fuelNeedList l ≤ fuel → decodeItems fuel (encodeList l) = some l
  | [], fuel, _, _ => by rw [encodeList_nil, decodeItems_nil]
  | i :: is, fuel, h, hf => by
    obtain ⟨h1, h2⟩ := (encodableList_cons i is).mp h
    have hpos := encode_length_pos i
    rw [fuelNeedList_cons] at hf
    rw [encodeList_cons]
    obtain ⟨f, rfl⟩ : ∃ f, fuel = f + 1 := ⟨fuel - 1, by omega⟩
    have hd := decode_encode_fuelNeed i (encodeList is) f h1 (by omega)
    have hr := decodeItems_encodeList_fuelNeed is f h2 (by omega)
    cases hc : encode i ++ encodeList is with
    | nil => simp at hc; rw [hc.1] at hpos; simp at hpos
    | cons x xs =>
      rw [decodeItems_succ_cons, ← hc, hd]
      simp only
      rw [hr]
end

mutual
theorem fuelNeed_le : ∀ it : Item, fuelNeed it + 1 ≤ 2 * (encode it).length
  | .str b => by
    have := encode_length_pos (.str b)
    rw [fuelNeed_str]; omega
  | .list l => by
    have := fuelNeedList_le l
    have := header_length_pos (encodeList l).length 0xc0
    rw [fuelNeed_list, encode_list, List.length_append]; omega
theorem fuelNeedList_le : ∀ l : List Item, fuelNeedList l ≤ 2 * (encodeList l).length
  | [] => by rw [fuelNeedList_nil]; omega
  | i :: is => by
    have := fuelNeed_le i
    have := fuelNeedList_le is
    have := encode_length_pos i
    rw [fuelNeedList_cons, encodeList_cons, List.length_append]; omega
end

theorem decode_encode_aux (it : Item) (rest : Bytes) (fuel : Nat) (h : it.Encodable)
    (hf : 2 * (encode it).length ≤ fuel + 1) :
    decode fuel (encode it ++ rest) = some (it, rest) :=
  decode_encode_fuelNeed it rest fuel h (by have := fuelNeed_le it; omega)

/-! ### strictness -/

theorem header_short_eq (x : UInt8) (off l : Nat) (h : x.toNat = off + l) (hl : l < 56) :
    header l off = [x] := by
  rw [header_short hl, ← h, UInt8.ofNat_toNat]

theorem header_long_eq (x : UInt8) (off l : Nat) (h : x.toNat = off + 55 + (beBytes l).length)
    (hl : ¬ l < 56) : header l off = x :: beBytes l := by
  rw [header_long hl, ← h, UInt8.ofNat_toNat]

theorem decode_canonical_aux : ∀ fuel : Nat,
    (∀ (b : Bytes) (it : Item) (rest : Bytes), decode fuel b = some (it, rest) →
      b = encode it ++ rest) ∧
    (∀ (b : Bytes) (its : List Item), decodeItems fuel b = some its → b = encodeList its) := by
  intro fuel
  induction fuel with
  | zero =>
    constructor
    · intro b it rest h; rw [decode_zero] at h; simp at h
    · intro b its h
      cases b with
      | nil => rw [decodeItems_nil] at h; simp at h; subst h; rw [encodeList_nil]
      | cons x r => rw [decodeItems_zero_cons] at h; simp at h
  | succ f ih =>
    obtain ⟨ih1, ih2⟩ := ih
    constructor
    · intro b it rest h
      cases b with
      | nil => rw [decode_nil] at h; simp at h
      | cons x r =>
        rw [decode_succ_cons] at h
        simp only at h
        split at h
        · -- single byte
          rename_i ht
          simp only [Option.some.injEq, Prod.mk.injEq] at h
          obtain ⟨rfl, rfl⟩ := h
          have hx : x < 0x80 := by rw [UInt8.lt_iff_toNat_lt]; simpa using ht
          rw [encode_str, encStr_single_lt hx]; rfl
        · rename_i ht1
          split at h
          · -- short string
            rename_i ht2
            split at h
            · simp at h
            · rename_i hlen
              split at h
              · simp at h
              · rename_i hs
                simp only [Option.some.injEq, Prod.mk.injEq] at h
                obtain ⟨rfl, rfl⟩ := h
                have hl : (r.take (x.toNat - 0x80)).length = x.toNat - 0x80 := by
                  rw [List.length_take]; omega
                rw [encode_str, encStr_eq_header _ (by rw [hl]; exact hs), hl,
                  header_short_eq x 0x80 _ (by omega) (by omega)]
                simp
          · rename_i ht2
            split at h
            · -- long string
              rename_i ht3
              split at h
              · simp at h
              · rename_i l r' hdl
                obtain ⟨hr, hk, h56⟩ := decodeLongLen_some hdl
                split at h
                · simp at h
                · rename_i hlen
                  simp only [Option.some.injEq, Prod.mk.injEq] at h
                  obtain ⟨rfl, rfl⟩ := h
                  have hl : (r'.take l).length = l := by
                    rw [List.length_take]; omega
                  rw [encode_str, encStr_eq_header _ (by rw [hl]; omega), hl,
                    header_long_eq x 0x80 _ (by omega) h56, hr]
                  simp
            · rename_i ht3
              split at h
              · -- short list
                rename_i ht4
                split at h
                · simp at h
                · rename_i hlen
                  split at h
                  · simp at h
                  · rename_i items hdi
                    simp only [Option.some.injEq, Prod.mk.injEq] at h
                    obtain ⟨rfl, rfl⟩ := h
                    have hp := ih2 _ _ hdi
                    have hl : (encodeList items).length = x.toNat - 0xc0 := by
                      rw [← hp, List.length_take]; omega
                    rw [encode_list, hl, header_short_eq x 0xc0 _ (by omega) (by omega), ← hp]
                    simp
              · -- long list
                rename_i ht4
                split at h
                · simp at h
                · rename_i l r' hdl
                  obtain ⟨hr, hk, h56⟩ := decodeLongLen_some hdl
                  split at h
                  · simp at h
                  · rename_i hlen
                    split at h
                    · simp at h
                    · rename_i items hdi
                      simp only [Option.some.injEq, Prod.mk.injEq] at h
                      obtain ⟨rfl, rfl⟩ := h
                      have hp := ih2 _ _ hdi
                      have hl : (encodeList items).length = l := by
                        rw [← hp, List.length_take]; omega
                      have hx := x.toNat_lt
                      rw [encode_list, hl, header_long_eq x 0xc0 _ (by omega) h56, ← hp, hr]
                      simp
    · intro b its h
      cases b with
      | nil => rw [decodeItems_nil] at h; simp at h; subst h; rw [encodeList_nil]
      | cons x r =>
        rw [decodeItems_succ_cons] at h
        split at h
        · simp at h
        · rename_i it r' hd
          split at h
          · simp at h
          · rename_i its' hdi
            simp only [Option.some.injEq] at h
            subst h
            rw [encodeList_cons, ← ih2 _ _ hdi]
            exact ih1 _ _ _ hd

end Hdw.Spec.Rlp

/-! ### the model of `rlp.rs` against the spec encoder -/

namespace Hdw.Rlp
open Hdw.Spec.Rlp

theorem len_spec (l off : Nat) (hl : l < 2 ^ 64) (hoff : off = 0x80 ∨ off = 0xc0) :
    len l off = .ok (header l off) := by
  have hk := beBytes_length_le_8 l hl
  unfold len header
  rw [beStripped_8 l hl]
  split
  · rw [if_pos (by omega), Nat.add_comm]
  · simp only
    rw [if_pos (by omega)]
    have e : (beBytes l).length + off + 55 = off + 55 + (beBytes l).length := by omega
    rw [e]

theorem bytes_spec (b : Bytes) (h : b.length < 2 ^ 64) : bytes b = .ok (encStr b) := by
  match b, h with
  | [], _ =>
    simp only [bytes, encStr]
    rw [len_spec _ 0x80 (by simp) (Or.inl rfl)]; rfl
  | [x], _ =>
    by_cases hx : x < 0x80
    · rw [encStr_single_lt hx]; simp only [bytes]; rw [if_pos hx]
    · rw [encStr_single_ge hx]; simp only [bytes]
      rw [if_neg hx, len_spec 1 0x80 (by omega) (Or.inl rfl)]; rfl
  | x :: y :: r, h =>
    simp only [bytes, encStr]
    rw [len_spec _ 0x80 h (Or.inl rfl)]; rfl

theorem flatten_map_encode (items : List Item) : (items.map encode).flatten = encodeList items := by
  induction items with
  | nil => rw [encodeList_nil]; rfl
  | cons i is ih => rw [encodeList_cons, List.map_cons, List.flatten_cons, ih]

theorem sum_map_length_encode (items : List Item) :
    ((items.map encode).map List.length).sum = (encodeList items).length := by
  induction items with
  | nil => rw [encodeList_nil]; rfl
  | cons i is ih =>
    rw [encodeList_cons, List.map_cons, List.map_cons, List.sum_cons, ih, List.length_append]

theorem list_spec (items : List Item) (h : (encodeList items).length < 2 ^ 64) :
    list (items.map encode) = .ok (encode (.list items)) := by
  unfold list
  rw [sum_map_length_encode, len_spec _ 0xc0 h (Or.inr rfl), flatten_map_encode, encode_list]
  rfl

end Hdw.Rlp
