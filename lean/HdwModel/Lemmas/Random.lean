/-
Helper lemmas for C12 (`Mnemonic.random`, `Cli.newMnemonic`).
-/
import HdwModel.Model.Cli
import HdwModel.Spec.Bip39
import HdwModel.Lemmas.Mnemonic
import HdwModel.Lemmas.Path

namespace Hdw.Mnemonic
open Hdw Hdw.Spec.Bip39

/-- for the five supported word counts the requested byte count is `4L/3` -/
theorem byteLength_valid {L : Nat} (h : validLength L) :
    mnemonicToByteLength L = .ok (L * 4 / 3) := by
  unfold validLength at h
  rcases h with rfl | rfl | rfl | rfl | rfl <;> decide

theorem validLength_bytes {L : Nat} (h : validLength L) :
    L * 4 / 3 = 16 ∨ L * 4 / 3 = 20 ∨ L * 4 / 3 = 24 ∨ L * 4 / 3 = 28 ∨ L * 4 / 3 = 32 := by
  unfold validLength at h
  omega

theorem validLength_lt {L : Nat} (h : validLength L) : L < 2 ^ 64 := by
  unfold validLength at h
  omega

theorem random_ok (P : Prims) (oracle : Nat → Option Bytes) (L : Nat) (b : Bytes)
    (hL : validLength L) (ho : oracle (L * 4 / 3) = some b) (hb : b.length = L * 4 / 3) :
    random P oracle L = .ok ⟨mkBuf P b, b.length⟩ := by
  unfold random
  rw [byteLength_valid hL]
  simp only [ho, hb, if_true]

theorem mnemonicLength_mk (buf : Bytes) (L len : Nat) (hL : validLength L) (hlen : len = L * 4 / 3) :
    mnemonicLength ⟨buf, len⟩ = L := by
  unfold validLength at hL
  unfold mnemonicLength wordBits
  simp only
  omega

theorem random_congr (P : Prims) (o₁ o₂ : Nat → Option Bytes) (L : Nat)
    (h : o₁ (L * 4 / 3) = o₂ (L * 4 / 3)) : random P o₁ L = random P o₂ L := by
  unfold random
  by_cases hL : validLength L
  · rw [byteLength_valid hL]
    simp only [h]
  · rw [len_bad hL]

theorem random_none (P : Prims) (oracle : Nat → Option Bytes) (L : Nat)
    (ho : oracle (L * 4 / 3) = none) : ∃ e, random P oracle L = .err e := by
  unfold random
  by_cases hL : validLength L
  · rw [byteLength_valid hL]
    simp only [ho]
    exact ⟨_, rfl⟩
  · rw [len_bad hL]
    exact ⟨_, rfl⟩

theorem random_bad (P : Prims) (oracle : Nat → Option Bytes) (L : Nat) (hL : ¬ validLength L) :
    ∃ e, random P oracle L = .err e := by
  unfold random
  rw [len_bad hL]
  exact ⟨_, rfl⟩

/-- if the source always fails, generation is an error whatever the length -/
theorem random_all_none (P : Prims) (oracle : Nat → Option Bytes) (L : Nat)
    (h : ∀ k, oracle k = none) : ∃ e, random P oracle L = .err e :=
  random_none P oracle L (h _)

/-- everything C12 says about a successfully generated mnemonic -/
theorem random_exact (P : Prims) (L : Nat) (b : Bytes)
    (hL : validLength L) (hb : b.length = L * 4 / 3) :
    mnemonicLength ⟨mkBuf P b, b.length⟩ = L ∧
    ∃ phrase, toPhrase ⟨mkBuf P b, b.length⟩ = .ok phrase ∧
      fromPhrase P phrase = .ok ⟨mkBuf P b, b.length⟩ ∧
      (splitWhitespace phrase).length = L ∧
      ValidWith P.sha256 Wordlist.table (splitWhitespace phrase) b := by
  refine ⟨mnemonicLength_mk _ L _ hL hb, ?_⟩
  have hlen := validLength_bytes hL
  rw [← hb] at hlen
  obtain ⟨phrase, h1, h2, h3⟩ := parse_print_lemma P b hlen
  refine ⟨phrase, h1, h2, ?_, h3⟩
  have := h3.2.1
  unfold validLength at hL
  omega

theorem toPhrase_inj (P : Prims) (L : Nat) (b₁ b₂ : Bytes) (hL : validLength L)
    (h₁ : b₁.length = L * 4 / 3) (h₂ : b₂.length = L * 4 / 3)
    (h : toPhrase ⟨mkBuf P b₁, b₁.length⟩ = toPhrase ⟨mkBuf P b₂, b₂.length⟩) : b₁ = b₂ := by
  obtain ⟨_, p1, hp1, _, _, hv1⟩ := random_exact P L b₁ hL h₁
  obtain ⟨_, p2, hp2, _, _, hv2⟩ := random_exact P L b₂ hL h₂
  rw [hp1, hp2] at h
  injection h with h
  subst h
  exact validWith_unique _ _ _ _ hv1 hv2

end Hdw.Mnemonic

namespace Hdw.Cli
open Hdw Hdw.Spec.Bip39
variable {Pt : Type}

theorem newMnemonic_ok (X : Cli.Ctx Pt) (L : Nat) (oracle : Nat → Option Bytes) (b : Bytes)
    (phrase : Str)
    (hL : validLength L) (ho : oracle (L * 4 / 3) = some b) (hb : b.length = L * 4 / 3)
    (hp : Mnemonic.toPhrase ⟨Mnemonic.mkBuf X.P b, b.length⟩ = .ok phrase) :
    newMnemonic X (decimal L) oracle = .ok (line phrase) := by
  unfold newMnemonic
  rw [parseUInt_decimal, if_pos (Mnemonic.validLength_lt hL)]
  simp only [Mnemonic.random_ok X.P oracle L b hL ho hb, Res.bind, hp]

theorem newMnemonic_fail (X : Cli.Ctx Pt) (lengthText : Str) (oracle : Nat → Option Bytes)
    (h : ∀ k, oracle k = none) : ∃ e, newMnemonic X lengthText oracle = .err e := by
  unfold newMnemonic
  cases parseUInt 64 lengthText with
  | none => exact ⟨_, rfl⟩
  | some n =>
    obtain ⟨e, he⟩ := Mnemonic.random_all_none X.P oracle n h
    simp only [he, Res.bind]
    exact ⟨_, rfl⟩

end Hdw.Cli
