/-
Facts about the generated 2048-word table.
-/
import HdwModel.Model.Wordlist
import HdwModel.Model.Text

namespace Hdw.Wordlist

/-- adjacent-pairs check (linear), used instead of the quadratic `Pairwise` decision -/
def chainB : List (List UInt8) → Bool
  | [] => true
  | [_] => true
  | a :: b :: rest => decide (a < b) && chainB (b :: rest)

theorem bytes_lt_trans {a b c : List UInt8} (h₁ : a < b) (h₂ : b < c) : a < c :=
  List.lt_trans h₁ h₂

theorem chainB_head : ∀ (l : List (List UInt8)) (a : List UInt8), chainB (a :: l) = true →
    (∀ b ∈ l, a < b) ∧ chainB l = true
  | [], _, _ => by simp [chainB]
  | b :: rest, a, h => by
    simp only [chainB, Bool.and_eq_true, decide_eq_true_eq] at h
    have ih := chainB_head rest b h.2
    refine ⟨?_, h.2⟩
    intro x hx
    simp only [List.mem_cons] at hx
    rcases hx with rfl | hx
    · exact h.1
    · exact bytes_lt_trans h.1 (ih.1 x hx)

theorem chainB_pairwise : ∀ (l : List (List UInt8)), chainB l = true →
    List.Pairwise (fun a b : List UInt8 => a < b) l
  | [], _ => List.Pairwise.nil
  | a :: l, h => by
    have := chainB_head l a h
    exact List.Pairwise.cons this.1 (chainB_pairwise l this.2)

set_option maxRecDepth 1000000 in
theorem wordBytes_length : Hdw.Gen.wordBytes.length = 2048 := by decide +kernel

set_option maxRecDepth 1000000 in
theorem wordBytes_chain : chainB Hdw.Gen.wordBytes = true := by decide +kernel

theorem wordBytes_sorted :
    List.Pairwise (fun a b : List UInt8 => a < b) Hdw.Gen.wordBytes :=
  chainB_pairwise _ wordBytes_chain

set_option maxRecDepth 1000000 in
theorem wordBytes_alpha :
    ∀ w ∈ Hdw.Gen.wordBytes, w ≠ [] ∧ ∀ b ∈ w, 97 ≤ b.toNat ∧ b.toNat ≤ 122 := by
  decide +kernel


/-! ### transfer to `table` -/

def byteChar (b : UInt8) : Char := Char.ofNat b.toNat

theorem table_eq : table = Hdw.Gen.wordBytes.map (fun w => w.map byteChar) := rfl

theorem byteChar_toNat (b : UInt8) : (byteChar b).toNat = b.toNat := by
  have hb : b.toNat < 256 := b.toNat_lt
  have hv : b.toNat.isValidChar := Or.inl (by omega)
  unfold byteChar Char.ofNat
  rw [dif_pos hv]
  simp [Char.ofNatAux, Char.toNat]

theorem byteChar_inj {a b : UInt8} (h : byteChar a = byteChar b) : a = b := by
  have := congrArg Char.toNat h
  rw [byteChar_toNat, byteChar_toNat] at this
  exact UInt8.toNat_inj.mp this

theorem map_byteChar_inj : ∀ {a b : List UInt8}, a.map byteChar = b.map byteChar → a = b
  | [], [], _ => rfl
  | [], _ :: _, h => by simp at h
  | _ :: _, [], h => by simp at h
  | x :: xs, y :: ys, h => by
    simp only [List.map_cons, List.cons.injEq] at h
    rw [byteChar_inj h.1, map_byteChar_inj h.2]

theorem table_length : table.length = 2048 := by
  rw [table_eq, List.length_map, wordBytes_length]

theorem table_nodup : List.Pairwise (fun a b : Str => a ≠ b) table := by
  rw [table_eq, List.pairwise_map]
  refine List.Pairwise.imp ?_ wordBytes_sorted
  intro a b hlt heq
  have := map_byteChar_inj heq
  subst this
  exact List.lt_irrefl a hlt

/-- every word of the table is a non-empty string of lower-case ASCII letters -/
theorem table_alpha : ∀ w ∈ table, w ≠ [] ∧ ∀ c ∈ w, 97 ≤ c.toNat ∧ c.toNat ≤ 122 := by
  intro w hw
  rw [table_eq, List.mem_map] at hw
  obtain ⟨bs, hbs, rfl⟩ := hw
  have := wordBytes_alpha bs hbs
  refine ⟨by simpa using this.1, ?_⟩
  intro c hc
  rw [List.mem_map] at hc
  obtain ⟨b, hb, rfl⟩ := hc
  rw [byteChar_toNat]
  exact this.2 b hb

theorem not_ws_of_alpha (c : Char) (h : 97 ≤ c.toNat ∧ c.toNat ≤ 122) : isWhitespace c = false := by
  simp [isWhitespace]
  omega

theorem table_no_ws : ∀ w ∈ table, w ≠ [] ∧ ∀ c ∈ w, isWhitespace c = false := by
  intro w hw
  have := table_alpha w hw
  exact ⟨this.1, fun c hc => not_ws_of_alpha c (this.2 c hc)⟩

/-! ### `indexOf?` -/

theorem indexOf?_some_imp (w : Str) : ∀ (l : List Str) (k i : Nat),
    indexOf? w l k = some i → k ≤ i ∧ l[i - k]? = some w
  | [], _, _, h => by simp [indexOf?] at h
  | x :: xs, k, i, h => by
    simp only [indexOf?] at h
    split at h
    · rename_i hx
      simp only [Option.some.injEq] at h
      subst h; subst hx
      simp
    · have := indexOf?_some_imp w xs (k + 1) i h
      refine ⟨by omega, ?_⟩
      have h2 : i - k = (i - (k + 1)) + 1 := by omega
      rw [h2, List.getElem?_cons_succ]
      exact this.2

theorem indexOf?_of_getElem? (w : Str) : ∀ (l : List Str) (k j : Nat),
    List.Pairwise (fun a b : Str => a ≠ b) l → l[j]? = some w → indexOf? w l k = some (k + j)
  | [], _, _, _, h => by simp at h
  | x :: xs, k, j, hp, h => by
    simp only [indexOf?]
    cases j with
    | zero =>
      simp only [List.getElem?_cons_zero, Option.some.injEq] at h
      simp [h]
    | succ j =>
      rw [List.getElem?_cons_succ] at h
      have hmem : w ∈ xs := List.mem_of_getElem? h
      have hne : x ≠ w := (List.pairwise_cons.mp hp).1 w hmem
      rw [if_neg hne, indexOf?_of_getElem? w xs (k + 1) j (List.pairwise_cons.mp hp).2 h]
      congr 1; omega

theorem search_iff (w : Str) (i : Nat) : search w = some i ↔ table[i]? = some w := by
  unfold search
  constructor
  · intro h
    have := indexOf?_some_imp w table 0 i h
    simpa using this.2
  · intro h
    have := indexOf?_of_getElem? w table 0 i table_nodup h
    simpa using this

theorem search_lt {w : Str} {i : Nat} (h : search w = some i) : i < 2048 := by
  have := (search_iff w i).mp h
  have := (List.getElem?_eq_some_iff.mp this).1
  rw [table_length] at this
  exact this

theorem search_none_iff (w : Str) : search w = none ↔ w ∉ table := by
  constructor
  · intro h hm
    obtain ⟨i, hi⟩ := List.getElem?_of_mem hm
    rw [(search_iff w i).mpr hi] at h
    cases h
  · intro h
    cases hs : search w with
    | none => rfl
    | some i =>
      exact absurd (List.mem_of_getElem? ((search_iff w i).mp hs)) h

theorem word_ok (i : Nat) (h : i < 2048) :
    ∃ w, word i = .ok w ∧ table[i]? = some w ∧ search w = some i := by
  have hlt : i < table.length := by rw [table_length]; exact h
  refine ⟨table[i], ?_, ?_, ?_⟩
  · unfold word wordCount
    rw [if_pos h, List.getElem?_eq_getElem hlt]
  · exact List.getElem?_eq_getElem hlt
  · exact (search_iff _ _).mpr (List.getElem?_eq_getElem hlt)

end Hdw.Wordlist

