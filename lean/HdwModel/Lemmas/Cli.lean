/-
Helper lemmas for C11 (CLI `sign transaction` guard).
-/
import HdwModel.Model.Cli

namespace Hdw.Cli
variable {Pt : Type}

/-- the guard of `sign transaction`: a legacy transaction without chain id and without the
override flag is an error as soon as the key is available -/
theorem signTx_guard (X : Ctx Pt) (a : Account) (json : Bytes) (so : Bool)
    (n gp g : Nat) (to : Option Bytes) (v : Nat) (d : Bytes)
    (h : Hdw.Tx.parse json = .ok (.legacy none n gp g to v d)) :
    (∃ e, signTx X a json so false = .err e) ∨ (∃ e, privateKey X a = .err e) ∨
      (∃ s, privateKey X a = .panic s) := by
  unfold signTx
  cases hk : privateKey X a with
  | err e => exact Or.inr (Or.inl ⟨e, rfl⟩)
  | panic s => exact Or.inr (Or.inr ⟨s, rfl⟩)
  | ok k =>
    left
    rw [h]
    exact ⟨_, rfl⟩

end Hdw.Cli
