/-
Helper lemmas for C18 (`parsePrefix`, `Prefix.matches`, `vanitySearch`).
-/
import HdwModel.Model.Cli
import HdwModel.Lemmas.Hex
import HdwModel.Lemmas.Random

namespace Hdw.Cli
open Hdw
variable {Pt : Type}

/-! ### `parseNibble` -/

/-- `parse_nibble` is `hex::val` with an error for "no value" -/
theorem parseNibble_eq (c : Char) :
    parseNibble c = match hexVal? c with
      | some n => .ok n
      | none => .err "invalid hex digit" := by
  unfold parseNibble hexVal?
  simp only
  split
  · rfl
  · split
    · next h => simp only; congr 1; omega
    · split
      · next h => simp only; congr 1; omega
      · rfl

theorem parseNibble_some {c : Char} {n : Nat} (h : hexVal? c = some n) : parseNibble c = .ok n := by
  rw [parseNibble_eq, h]

theorem parseNibble_none {c : Char} (h : hexVal? c = none) :
    parseNibble c = .err "invalid hex digit" := by
  rw [parseNibble_eq, h]

/-! ### `parsePrefixDigits` -/

/-- value of the last character as a hex digit, if the digit count is odd -/
def trailingNibble (ds : Str) : Option Nat :=
  if ds.length % 2 = 1 then (ds.getLast?).bind hexVal? else none

theorem trailingNibble_cons2 (a b : Char) (r : Str) :
    trailingNibble (a :: b :: r) = trailingNibble r := by
  unfold trailingNibble
  cases r with
  | nil => simp
  | cons c r =>
    have : (a :: b :: c :: r).length % 2 = (c :: r).length % 2 := by simp; omega
    rw [this, List.getLast?_cons_cons, List.getLast?_cons_cons]

theorem take_even_cons2 (a b : Char) (r : Str) :
    (a :: b :: r).take ((a :: b :: r).length / 2 * 2) = a :: b :: r.take (r.length / 2 * 2) := by
  have : (a :: b :: r).length / 2 * 2 = r.length / 2 * 2 + 1 + 1 := by simp; omega
  rw [this, List.take_succ_cons, List.take_succ_cons]

theorem parsePrefixDigits_cons2 (hi lo : Char) (rest : Str) :
    parsePrefixDigits (hi :: lo :: rest) =
      (parseNibble hi).bind fun h =>
      (parseNibble lo).bind fun l =>
      (parsePrefixDigits rest).bind fun p => .ok ⟨UInt8.ofNat (h * 16 + l) :: p.bytes, p.nibble⟩ := by
  rw [parsePrefixDigits]

/-- what a successful parse means -/
def DigitsSpec (ds : Str) (p : Prefix) : Prop :=
  (∀ c ∈ ds, (hexVal? c).isSome) ∧
    hexDecode (ds.take (ds.length / 2 * 2)) = some p.bytes ∧ p.nibble = trailingNibble ds

theorem parsePrefixDigits_sound : ∀ (ds : Str) (p : Prefix),
    parsePrefixDigits ds = .ok p → DigitsSpec ds p := by
  intro ds
  induction ds using list_ind2 with
  | hnil =>
    intro p h
    simp only [parsePrefixDigits, Res.ok.injEq] at h
    subst h
    exact ⟨by simp, rfl, rfl⟩
  | hone a =>
    intro p h
    rw [parsePrefixDigits, parseNibble_eq] at h
    cases hv : hexVal? a with
    | none => rw [hv] at h; cases h
    | some n =>
      rw [hv] at h
      simp only [Res.bind, Res.ok.injEq] at h
      subst h
      refine ⟨by simp [hv], by simp [hexDecode], ?_⟩
      simp [trailingNibble, hv]
  | hcons a b r ih =>
    intro p h
    rw [parsePrefixDigits_cons2, parseNibble_eq, parseNibble_eq] at h
    cases ha : hexVal? a with
    | none => rw [ha] at h; cases h
    | some hi =>
      cases hb : hexVal? b with
      | none => rw [ha, hb] at h; cases h
      | some lo =>
        rw [ha, hb] at h
        simp only [Res.bind] at h
        cases hr : parsePrefixDigits r with
        | err e => rw [hr] at h; cases h
        | panic e => rw [hr] at h; cases h
        | ok p' =>
          rw [hr] at h
          simp only [Res.ok.injEq] at h
          subst h
          obtain ⟨h1, h2, h3⟩ := ih p' hr
          refine ⟨?_, ?_, ?_⟩
          · intro c hc
            simp only [List.mem_cons] at hc
            rcases hc with rfl | rfl | hc
            · simp [ha]
            · simp [hb]
            · exact h1 c hc
          · rw [take_even_cons2]
            exact hexDecode_cons2_some ha hb h2
          · rw [trailingNibble_cons2]; exact h3

theorem parsePrefixDigits_complete : ∀ (ds : Str) (p : Prefix),
    DigitsSpec ds p → parsePrefixDigits ds = .ok p := by
  intro ds
  induction ds using list_ind2 with
  | hnil =>
    rintro ⟨bytes, nib⟩ ⟨_, h2, h3⟩
    simp only [List.length_nil, List.take_nil, hexDecode, Option.some.injEq] at h2
    simp only [trailingNibble, List.length_nil, Nat.zero_mod, Nat.zero_ne_one, if_false] at h3
    subst h2 h3
    rfl
  | hone a =>
    rintro ⟨bytes, nib⟩ ⟨h1, h2, h3⟩
    simp only [List.length_singleton, Nat.reduceDiv, Nat.zero_mul, List.take_zero, hexDecode,
      Option.some.injEq] at h2
    have ha := h1 a (by simp)
    obtain ⟨n, hn⟩ := Option.isSome_iff_exists.mp ha
    simp only [trailingNibble, List.length_singleton, Nat.one_mod, if_true, List.getLast?_singleton,
      Option.bind_some, hn] at h3
    subst h2 h3
    rw [parsePrefixDigits, parseNibble_some hn]
    rfl
  | hcons a b r ih =>
    rintro ⟨bytes, nib⟩ ⟨h1, h2, h3⟩
    rw [take_even_cons2] at h2
    obtain ⟨hi, lo, r', ha, hb, hr, hbs⟩ := hexDecode_cons2_inv h2
    rw [trailingNibble_cons2] at h3
    simp only at hbs h3
    have hrest : parsePrefixDigits r = .ok ⟨r', nib⟩ :=
      ih ⟨r', nib⟩ ⟨fun c hc => h1 c (by simp [hc]), hr, h3⟩
    rw [parsePrefixDigits_cons2, parseNibble_some ha, parseNibble_some hb, hrest, hbs]
    rfl

theorem parsePrefixDigits_iff (ds : Str) (p : Prefix) :
    parsePrefixDigits ds = .ok p ↔ DigitsSpec ds p :=
  ⟨parsePrefixDigits_sound ds p, parsePrefixDigits_complete ds p⟩

theorem parsePrefixDigits_ne_panic : ∀ (ds : Str) (site : String),
    parsePrefixDigits ds ≠ .panic site := by
  intro ds
  induction ds using list_ind2 with
  | hnil => intro site h; simp [parsePrefixDigits] at h
  | hone a =>
    intro site h
    rw [parsePrefixDigits, parseNibble_eq] at h
    cases hv : hexVal? a <;> rw [hv] at h <;> cases h
  | hcons a b r ih =>
    intro site h
    rw [parsePrefixDigits_cons2, parseNibble_eq, parseNibble_eq] at h
    cases ha : hexVal? a with
    | none => rw [ha] at h; cases h
    | some hi =>
      cases hb : hexVal? b with
      | none => rw [ha, hb] at h; cases h
      | some lo =>
        rw [ha, hb] at h
        simp only [Res.bind] at h
        cases hr : parsePrefixDigits r with
        | err e => rw [hr] at h; cases h
        | panic e => exact ih e hr
        | ok p' => rw [hr] at h; cases h

/-! ### `parsePrefix` -/

theorem parsePrefix_0x (ds : Str) : parsePrefix ('0' :: 'x' :: ds) = parsePrefixDigits ds := by
  unfold parsePrefix
  rw [stripPrefix_0x_cons]

theorem parsePrefix_ne_panic (s : Str) (site : String) : parsePrefix s ≠ .panic site := by
  unfold parsePrefix
  cases stripPrefix ['0', 'x'] s with
  | none => intro h; cases h
  | some ds => exact parsePrefixDigits_ne_panic ds site

theorem parsePrefix_nonhex (ds : Str) (h : ∃ c ∈ ds, hexVal? c = none) :
    ∃ e, parsePrefix ('0' :: 'x' :: ds) = .err e := by
  rw [parsePrefix_0x]
  cases hr : parsePrefixDigits ds with
  | err e => exact ⟨e, rfl⟩
  | panic e => exact absurd hr (parsePrefixDigits_ne_panic ds e)
  | ok p =>
    obtain ⟨c, hc, hn⟩ := h
    have := (parsePrefixDigits_sound ds p hr).1 c hc
    rw [hn] at this
    cases this

/-! ### matching -/

theorem isLowerHex_toLower {c : Char} (h : isLowerHex c) : c.toLower = c := by
  apply Char.toNat_inj.mp
  rw [toLower_toNat]
  unfold isLowerHex at h
  rw [if_neg (by omega)]

theorem map_toLower_lowerHex : ∀ (s : Str), (∀ c ∈ s, isLowerHex c) → s.map Char.toLower = s
  | [], _ => rfl
  | c :: s, h => by
    rw [List.map_cons, isLowerHex_toLower (h c (by simp)),
      map_toLower_lowerHex s (fun d hd => h d (by simp [hd]))]

theorem hexEncode_map_toLower (b : Bytes) : (hexEncode b).map Char.toLower = hexEncode b :=
  map_toLower_lowerHex _ (hexEncode_isLowerHex b)

theorem hexEncode_inj {a b : Bytes} (h : hexEncode a = hexEncode b) : a = b := by
  have := hexDecode_hexEncode a
  rw [h, hexDecode_hexEncode] at this
  exact (Option.some.inj this).symm

theorem hexDigit_inj {m n : Nat} (hm : m < 16) (hn : n < 16) (h : hexDigit m = hexDigit n) :
    m = n := by
  have := hexVal_hexDigit hm
  rw [h, hexVal_hexDigit hn] at this
  exact (Option.some.inj this).symm

theorem hexEncode_take_even : ∀ (k : Nat) (addr : Bytes),
    (hexEncode addr).take (2 * k) = hexEncode (addr.take k)
  | 0, addr => by simp [hexEncode_nil]
  | k + 1, [] => by simp [hexEncode_nil]
  | k + 1, x :: r => by
    have : 2 * (k + 1) = 2 * k + 1 + 1 := by omega
    rw [this, hexEncode_cons, List.take_succ_cons, List.take_succ_cons, List.take_succ_cons,
      hexEncode_cons, hexEncode_take_even k r]

/-- the digit the odd trailing nibble is compared with -/
def nextHigh (addr : Bytes) (k : Nat) : Str :=
  match addr[k]? with
  | some x => [hexDigit (x.toNat / 16)]
  | none => []

theorem hexEncode_take_odd : ∀ (k : Nat) (addr : Bytes),
    (hexEncode addr).take (2 * k + 1) = hexEncode (addr.take k) ++ nextHigh addr k
  | 0, [] => by simp [hexEncode_nil, nextHigh]
  | 0, x :: r => by simp [hexEncode_cons, hexEncode_nil, nextHigh]
  | k + 1, [] => by simp [hexEncode_nil, nextHigh]
  | k + 1, x :: r => by
    have : 2 * (k + 1) + 1 = 2 * k + 1 + 1 + 1 := by omega
    rw [this, hexEncode_cons, List.take_succ_cons, List.take_succ_cons, List.take_succ_cons,
      hexEncode_cons, hexEncode_take_odd k r]
    simp [nextHigh]

theorem matches_even (ev : Str) (p : Prefix) (addr : Bytes)
    (hd : hexDecode ev = some p.bytes) (hn : p.nibble = none) :
    p.matches addr = true ↔ (hexEncode addr).take ev.length = ev.map Char.toLower := by
  have hlen := hexDecode_length hd
  have henc : hexEncode p.bytes = ev.map Char.toLower := by
    rw [← hexDecode_encode_toLower hd, hexEncode_map_toLower]
  rw [← henc, hlen, hexEncode_take_even]
  unfold Prefix.matches
  rw [hn]
  simp only [Bool.and_true, beq_iff_eq]
  exact ⟨fun h => by rw [h], hexEncode_inj⟩

theorem matches_odd (ev : Str) (c : Char) (n : Nat) (p : Prefix) (addr : Bytes)
    (hd : hexDecode ev = some p.bytes) (hc : hexVal? c = some n) (hn : p.nibble = some n) :
    p.matches addr = true ↔
      (hexEncode addr).take (ev.length + 1) = (ev ++ [c]).map Char.toLower := by
  have hlen := hexDecode_length hd
  have hn16 := hexVal_lt hc
  have henc : hexEncode p.bytes = ev.map Char.toLower := by
    rw [← hexDecode_encode_toLower hd, hexEncode_map_toLower]
  have hcl : c.toLower = hexDigit n := by
    rw [← hexDigit_toLower_of_val hc, isLowerHex_toLower (hexDigit_isLowerHex hn16)]
  rw [List.map_append, ← henc, List.map_singleton, hcl, hlen, hexEncode_take_odd]
  unfold Prefix.matches
  rw [hn]
  simp only [Bool.and_eq_true, beq_iff_eq]
  constructor
  · rintro ⟨h1, h2⟩
    rw [h1]
    congr 1
    unfold nextHigh
    cases hx : addr[p.bytes.length]? with
    | none => rw [hx] at h2; cases h2
    | some x =>
      rw [hx] at h2
      simp only [beq_iff_eq] at h2
      simp only [h2]
  · intro h
    have hl := congrArg List.length h
    simp only [List.length_append, hexEncode_length, List.length_singleton] at hl
    have htk : (addr.take p.bytes.length).length ≤ p.bytes.length := by
      rw [List.length_take]; omega
    have hnh : (nextHigh addr p.bytes.length).length ≤ 1 := by
      unfold nextHigh; split <;> simp
    have hl2 : (hexEncode (addr.take p.bytes.length)).length = (hexEncode p.bytes).length := by
      simp only [hexEncode_length]; omega
    obtain ⟨e1, e2⟩ := List.append_inj h hl2
    refine ⟨hexEncode_inj e1, ?_⟩
    unfold nextHigh at e2
    cases hx : addr[p.bytes.length]? with
    | none => rw [hx] at e2; cases e2
    | some x =>
      rw [hx] at e2
      simp only [List.cons.injEq, and_true] at e2
      have hx16 : x.toNat / 16 < 16 := by have := x.toNat_lt; omega
      simp only [beq_iff_eq]
      exact hexDigit_inj hx16 hn16 e2

theorem odd_split (ds : Str) (h : ds.length % 2 = 1) :
    ∃ ev c, ds = ev ++ [c] ∧ ev.length % 2 = 0 := by
  have hne : ds ≠ [] := by intro e; subst e; simp at h
  refine ⟨ds.dropLast, ds.getLast hne, (List.dropLast_concat_getLast hne).symm, ?_⟩
  rw [List.length_dropLast]
  have : 0 < ds.length := List.length_pos_iff.mpr hne
  omega

theorem matches_of_spec (ds : Str) (p : Prefix) (addr : Bytes) (hs : DigitsSpec ds p) :
    p.matches addr = true ↔ (hexEncode addr).take ds.length = ds.map Char.toLower := by
  obtain ⟨h1, h2, h3⟩ := hs
  by_cases hodd : ds.length % 2 = 1
  · obtain ⟨ev, c, rfl, hev⟩ := odd_split ds hodd
    have hl : (ev ++ [c]).length / 2 * 2 = ev.length := by
      simp only [List.length_append, List.length_singleton]; omega
    rw [hl, List.take_left'  rfl] at h2
    obtain ⟨n, hn⟩ := Option.isSome_iff_exists.mp (h1 c (by simp))
    have h3' : p.nibble = some n := by
      rw [h3]; unfold trailingNibble
      rw [if_pos hodd]; simp [hn]
    rw [List.length_append, List.length_singleton]
    exact matches_odd ev c n p addr h2 hn h3'
  · have hl : ds.length / 2 * 2 = ds.length := by omega
    rw [hl, List.take_length] at h2
    have h3' : p.nibble = none := by
      rw [h3]; unfold trailingNibble; rw [if_neg hodd]
    exact matches_even ds p addr h2 h3'

/-! ### `vanitySearch` -/

/-- the entropy source a draw `b` stands for -/
def drawOracle (b : Bytes) : Nat → Option Bytes :=
  fun k => if b.length ≥ k then some (b.take k) else none

theorem vanitySearch_sound (X : Cli.Ctx Pt) (n : Nat) (p : Prefix) (pw : Str) (sel : Selector) :
    ∀ (stream : List (Option Bytes)) (out : Bytes), vanitySearch X n p pw sel stream = .ok out →
    ∃ ent ∈ stream, ∃ b m ph d, ent = some b ∧
      Mnemonic.random X.P (drawOracle b) n = .ok m ∧
      Mnemonic.toPhrase m = .ok ph ∧ out = line ph ∧
      privateKey X ⟨ph, pw, sel⟩ = .ok d ∧ p.matches (Account.address X.P X.C d) = true := by
  intro stream
  induction stream with
  | nil => intro out h; cases h
  | cons e rest ih =>
    intro out h
    cases e with
    | none =>
      rw [vanitySearch] at h
      obtain ⟨e, he⟩ := Mnemonic.random_all_none X.P (fun _ => none) n (fun _ => rfl)
      simp only [he] at h
      cases h
    | some b =>
      rw [vanitySearch] at h
      simp only at h
      cases hr : Mnemonic.random X.P (drawOracle b) n with
      | err e => unfold drawOracle at hr; rw [hr] at h; cases h
      | panic e => unfold drawOracle at hr; rw [hr] at h; cases h
      | ok m =>
        have hr' := hr
        unfold drawOracle at hr'
        rw [hr'] at h
        simp only at h
        cases hp : Mnemonic.toPhrase m with
        | err e => rw [hp] at h; cases h
        | panic e => rw [hp] at h; cases h
        | ok ph =>
          rw [hp] at h
          simp only at h
          cases hk : privateKey X ⟨ph, pw, sel⟩ with
          | err e => rw [hk] at h; cases h
          | panic e => rw [hk] at h; cases h
          | ok d =>
            rw [hk] at h
            simp only at h
            by_cases hm : p.matches (Account.address X.P X.C d) = true
            · rw [if_pos hm] at h
              injection h with h
              exact ⟨some b, by simp, b, m, ph, d, rfl, hr, hp, h.symm, hk, hm⟩
            · rw [if_neg hm] at h
              obtain ⟨ent, hmem, rest'⟩ := ih out h
              exact ⟨ent, by simp [hmem], rest'⟩

theorem vanitySearch_all_none (X : Cli.Ctx Pt) (n : Nat) (p : Prefix) (pw : Str) (sel : Selector)
    (stream : List (Option Bytes)) (hall : ∀ e ∈ stream, e = none) :
    ∃ e, vanitySearch X n p pw sel stream = .err e := by
  cases stream with
  | nil => exact ⟨_, rfl⟩
  | cons e rest =>
    have he := hall e (by simp)
    subst he
    rw [vanitySearch]
    obtain ⟨e, he⟩ := Mnemonic.random_all_none X.P (fun _ => none) n (fun _ => rfl)
    simp only [he]
    exact ⟨_, rfl⟩

end Hdw.Cli
