/-
The fast Jacobian secp256k1 arithmetic of `HdwModel/Prim/Secp256k1.lean` computes the group law of
the curve: every operation, mapped through `Jac.toAffine`, represents (`Rep`) the sum / multiple
of the Mathlib points represented by its arguments.  Built on the verified affine arithmetic
(`addA_rep`) of `HdwModel/Lemmas/SecpInstance.lean`.
-/
import HdwModel.Lemmas.SecpInstance

namespace Hdw.Lemmas.SecpJac
open Hdw.Prim.Secp (p n gx gy Jac Pt invMod)
open Hdw.Lemmas.SecpInstance
open WeierstrassCurve.Affine

/-! ### `powMod` / `invMod` of the fast code -/

theorem powModAux_eq (fuel : Nat) : ∀ (b e m acc : Nat),
    Hdw.Prim.Secp.powModAux fuel b e m acc = Hdw.Lemmas.SecpPrime.powModAux fuel b e m acc := by
  induction fuel with
  | zero => intro b e m acc; rfl
  | succ k ih =>
    intro b e m acc
    simp only [Hdw.Prim.Secp.powModAux, Hdw.Lemmas.SecpPrime.powModAux, ih]

theorem powMod_eq (b e m : Nat) : Hdw.Prim.Secp.powMod b e m = b ^ e % m := by
  rw [← Hdw.Lemmas.SecpPrime.powMod_eq, Hdw.Prim.Secp.powMod, Hdw.Lemmas.SecpPrime.powMod,
    powModAux_eq]

theorem invMod_eq_invM (a : Nat) : invMod a p = invM a := by
  rw [invMod, invM, powMod_eq, Hdw.Lemmas.SecpPrime.powMod_eq]

@[simp] theorem cast_invMod (a : ℕ) : ((invMod a p : ℕ) : F) = ((a : ℕ) : F)⁻¹ := by
  rw [invMod_eq_invM, cast_invM]

/-! ### casts of the modular idioms of the code -/

theorem p_pos : 0 < p := by have := p_gt; omega

@[simp] theorem cast_mod (a : ℕ) : ((a % p : ℕ) : F) = (a : F) := ZMod.natCast_mod a p

@[simp] theorem cast_p_sub_mod (a : ℕ) : ((p - a % p : ℕ) : F) = -(a : F) := by
  have hb : a % p ≤ p := (Nat.mod_lt a p_pos).le
  rw [Nat.cast_sub hb, ZMod.natCast_self, ZMod.natCast_mod, zero_sub]

@[simp] theorem cast_add_p_sub_mod (a b : ℕ) : ((a + p - b % p : ℕ) : F) = (a : F) - (b : F) := by
  have hb : b % p ≤ a + p := by have := Nat.mod_lt b p_pos; omega
  rw [Nat.cast_sub hb, Nat.cast_add, ZMod.natCast_self, ZMod.natCast_mod, add_zero]

theorem cast_eq_zero_iff_of_lt {a : ℕ} (h : a < p) : (a : F) = 0 ↔ a = 0 := by
  constructor
  · intro h0
    by_contra hne
    exact natCast_ne_zero_of_lt (Nat.pos_of_ne_zero hne) h h0
  · rintro rfl; simp

theorem cast_inj_of_lt {a b : ℕ} (ha : a < p) (hb : b < p) : (a : F) = (b : F) ↔ a = b := by
  rw [cast_eq_iff, Nat.mod_eq_of_lt ha, Nat.mod_eq_of_lt hb]

/-! ### transport of `Rep` along equal casts -/

theorem rep_of_cast {a b a' b' : ℕ} {Q : W.Point} (h : Rep (some (a, b)) Q)
    (ha : (a' : F) = a) (hb : (b' : F) = b) : Rep (some (a', b')) Q := by
  cases h with
  | some h hx hy => exact Rep.some h (ha.trans hx) (hb.trans hy)

theorem rep_equation {a b : ℕ} {Q : W.Point} (h : Rep (some (a, b)) Q) :
    (b : F) ^ 2 = (a : F) ^ 3 + 7 := by
  have := (onCurveA_some a b).1 h.onCurve
  rwa [equation_iff_secp] at this

theorem rep_eq_of_cast {a b a' b' : ℕ} {Q Q' : W.Point} (h : Rep (some (a, b)) Q)
    (h' : Rep (some (a', b')) Q') (ha : (a' : F) = a) (hb : (b' : F) = b) : Q = Q' :=
  (rep_of_cast h ha hb).unique h'

/-! ### `toAffine` -/

theorem toAffine_of_z_eq {J : Jac} (hz : J.z = 0) : J.toAffine = none := by
  simp [Jac.toAffine, hz]

/-- affine `x` of a finite Jacobian point -/
def affX (J : Jac) : ℕ := J.x * (invMod J.z p * invMod J.z p % p) % p
/-- affine `y` of a finite Jacobian point -/
def affY (J : Jac) : ℕ := J.y * (invMod J.z p * invMod J.z p % p) % p * invMod J.z p % p

theorem toAffine_of_z_ne {J : Jac} (hz : J.z ≠ 0) : J.toAffine = some (affX J, affY J) := by
  simp [Jac.toAffine, hz, affX, affY]

theorem cast_affX (J : Jac) : (affX J : F) = (J.x : F) * ((J.z : F)⁻¹) ^ 2 := by
  simp only [affX, cast_mod, Nat.cast_mul, cast_invMod]; ring

theorem cast_affY (J : Jac) : (affY J : F) = (J.y : F) * ((J.z : F)⁻¹) ^ 3 := by
  simp only [affY, cast_mod, Nat.cast_mul, cast_invMod]; ring

/-- the Jacobian triple `J` (with reduced `z`) represents the Mathlib point `Q` -/
def JRep (J : Jac) (Q : W.Point) : Prop := J.z < p ∧ Rep J.toAffine Q

theorem JRep.zero_of_z {J : Jac} (hz : J.z = 0) : JRep J 0 := by
  refine ⟨by rw [hz]; exact p_pos, ?_⟩
  rw [toAffine_of_z_eq hz]; exact Rep.zero'

theorem jrep_inf : JRep Jac.inf 0 := JRep.zero_of_z rfl

theorem JRep.eq_zero {J : Jac} {Q : W.Point} (h : JRep J Q) (hz : J.z = 0) : Q = 0 := by
  have := h.2
  rw [toAffine_of_z_eq hz] at this
  exact this.eq_zero

theorem JRep.castz_ne {J : Jac} {Q : W.Point} (h : JRep J Q) (hz : J.z ≠ 0) : (J.z : F) ≠ 0 :=
  natCast_ne_zero_of_lt (Nat.pos_of_ne_zero hz) h.1

/-! ### the affine formulas of `addA`, in the field -/

theorem addA_dbl_none {a b : ℕ} (hb : (b : F) = 0) : addA (some (a, b)) (some (a, b)) = none := by
  have h : (b + b) % p = 0 := by
    rw [← cast_add_eq_zero_iff, hb, neg_zero]
  simp [addA, h]

theorem addA_dbl_some {a b : ℕ} (hb : (b : F) ≠ 0) :
    ∃ c d, addA (some (a, b)) (some (a, b)) = some (c, d) ∧
      (c : F) = (3 * (a : F) ^ 2 / (2 * b)) ^ 2 - 2 * a ∧
      (d : F) = (3 * (a : F) ^ 2 / (2 * b)) * (a - c) - b := by
  have h : ¬ (b + b) % p = 0 := by
    rw [← cast_add_eq_zero_iff]
    intro h0
    have h2 : (2 : F) * b = 0 := by linear_combination h0
    rcases mul_eq_zero.1 h2 with h3 | h3
    · exact SecpInstance.two_ne_zero' h3
    · exact hb h3
  refine ⟨_, _, by simp only [addA, if_true, if_neg h]; rfl, ?_, ?_⟩
  · simp only [cast_subM, cast_mulM, cast_invM]
    push_cast
    ring
  · simp only [cast_subM, cast_mulM, cast_invM]
    push_cast
    ring

theorem addA_neg {a b a' b' : ℕ} (ha : (a : F) = a') (hb : (b : F) = -(b' : F)) :
    addA (some (a, b)) (some (a', b')) = none := by
  have h1 : a % p = a' % p := (cast_eq_iff a a').1 ha
  have h2 : (b + b') % p = 0 := (cast_add_eq_zero_iff b b').1 hb
  simp [addA, h1, h2]

theorem addA_chord {a b a' b' : ℕ} (ha : (a : F) ≠ a') :
    ∃ c d, addA (some (a, b)) (some (a', b')) = some (c, d) ∧
      (c : F) = (((b : F) - b') / (a - a')) ^ 2 - a - a' ∧
      (d : F) = (((b : F) - b') / (a - a')) * (a - c) - b := by
  have h1 : ¬ a % p = a' % p := fun h => ha ((cast_eq_iff a a').2 h)
  refine ⟨_, _, by simp only [addA, if_neg h1]; rfl, ?_, ?_⟩
  · simp only [cast_subM, cast_mulM, cast_invM]
    ring
  · simp only [cast_subM, cast_mulM, cast_invM]
    ring

/-! ### doubling -/

theorem double_of_z_eq {J : Jac} (hz : J.z = 0) : J.double = Jac.inf := by
  simp [Jac.double, hz]

theorem double_of_y_eq {J : Jac} (hy : J.y = 0) : J.double = Jac.inf := by
  simp [Jac.double, hy]

theorem double_z_lt (J : Jac) : J.double.z < p := by
  unfold Jac.double
  split
  · exact p_pos
  · exact Nat.mod_lt _ p_pos

theorem double_z {J : Jac} (hz : J.z ≠ 0) (hy : J.y ≠ 0) :
    (J.double.z : F) = 2 * J.y * J.z := by
  simp [Jac.double, hz, hy]

theorem double_x {J : Jac} (hz : J.z ≠ 0) (hy : J.y ≠ 0) :
    (J.double.x : F) = (3 * (J.x : F) ^ 2) ^ 2 - 8 * J.x * (J.y : F) ^ 2 := by
  simp [Jac.double, hz, hy]
  ring

theorem double_y {J : Jac} (hz : J.z ≠ 0) (hy : J.y ≠ 0) :
    (J.double.y : F) = 3 * (J.x : F) ^ 2 * (4 * J.x * (J.y : F) ^ 2 - J.double.x)
      - 8 * (J.y : F) ^ 4 := by
  simp [Jac.double, hz, hy]
  ring

theorem dbl_field_x {X Y Z : F} (hZ : Z ≠ 0) (hY : Y ≠ 0) :
    ((3 * X ^ 2) ^ 2 - 8 * X * Y ^ 2) * ((2 * Y * Z)⁻¹) ^ 2 =
      (3 * (X * Z⁻¹ ^ 2) ^ 2 / (2 * (Y * Z⁻¹ ^ 3))) ^ 2 - 2 * (X * Z⁻¹ ^ 2) := by
  have h2 : (2 : F) ≠ 0 := SecpInstance.two_ne_zero'
  field_simp
  ring

theorem dbl_field_y {X Y Z : F} (hZ : Z ≠ 0) (hY : Y ≠ 0) :
    (3 * X ^ 2 * (4 * X * Y ^ 2 - ((3 * X ^ 2) ^ 2 - 8 * X * Y ^ 2)) - 8 * Y ^ 4)
        * ((2 * Y * Z)⁻¹) ^ 3 =
      (3 * (X * Z⁻¹ ^ 2) ^ 2 / (2 * (Y * Z⁻¹ ^ 3))) *
        (X * Z⁻¹ ^ 2 - ((3 * X ^ 2) ^ 2 - 8 * X * Y ^ 2) * ((2 * Y * Z)⁻¹) ^ 2) - Y * Z⁻¹ ^ 3 := by
  have h2 : (2 : F) ≠ 0 := SecpInstance.two_ne_zero'
  field_simp
  ring

/-- `Jac.double` doubles -/
theorem jrep_double {J : Jac} {Q : W.Point} (h : JRep J Q) : JRep J.double (Q + Q) := by
  by_cases hz : J.z = 0
  · rw [double_of_z_eq hz, h.eq_zero hz, add_zero]
    exact jrep_inf
  · have hZ := h.castz_ne hz
    have hr := h.2
    rw [toAffine_of_z_ne hz] at hr
    have hadd := addA_rep hr hr
    by_cases hY : (J.y : F) = 0
    · -- a point of order two
      have hb : (affY J : F) = 0 := by rw [cast_affY, hY, zero_mul]
      rw [addA_dbl_none hb] at hadd
      rw [hadd.eq_zero]
      apply JRep.zero_of_z
      by_cases hy : J.y = 0
      · rw [double_of_y_eq hy]; rfl
      · rw [← cast_eq_zero_iff_of_lt (double_z_lt J), double_z hz hy, hY]
        ring
    · have hy : J.y ≠ 0 := fun h0 => hY (by rw [h0]; simp)
      have hb : (affY J : F) ≠ 0 := by
        rw [cast_affY]
        exact mul_ne_zero hY (pow_ne_zero _ (inv_ne_zero hZ))
      obtain ⟨c, d, hcd, hc, hd⟩ := addA_dbl_some (a := affX J) hb
      rw [hcd] at hadd
      have hz2 : (J.double.z : F) ≠ 0 := by
        rw [double_z hz hy]
        exact mul_ne_zero (mul_ne_zero SecpInstance.two_ne_zero' hY) hZ
      have hz2' : J.double.z ≠ 0 := fun h0 => hz2 (by rw [h0]; simp)
      refine ⟨double_z_lt J, ?_⟩
      rw [toAffine_of_z_ne hz2']
      have hx' : (affX J.double : F) = c := by
        rw [hc, cast_affX, cast_affY, cast_affX, double_x hz hy, double_z hz hy]
        exact dbl_field_x hZ hY
      refine rep_of_cast hadd hx' ?_
      rw [hd, ← hx', cast_affX J.double, cast_affY, cast_affY, cast_affX, double_y hz hy,
        double_x hz hy, double_z hz hy]
      exact dbl_field_y hZ hY

/-! ### addition -/

theorem add_field_x {X1 Y1 Z1 X2 Y2 Z2 : F} (hZ1 : Z1 ≠ 0) (hZ2 : Z2 ≠ 0)
    (hH : X2 * Z1 ^ 2 - X1 * Z2 ^ 2 ≠ 0) :
    ((Y2 * Z1 ^ 3 - Y1 * Z2 ^ 3) ^ 2 - (X2 * Z1 ^ 2 - X1 * Z2 ^ 2) ^ 3
        - 2 * (X1 * Z2 ^ 2) * (X2 * Z1 ^ 2 - X1 * Z2 ^ 2) ^ 2)
      * (((X2 * Z1 ^ 2 - X1 * Z2 ^ 2) * Z1 * Z2)⁻¹) ^ 2 =
    ((Y1 * Z1⁻¹ ^ 3 - Y2 * Z2⁻¹ ^ 3) / (X1 * Z1⁻¹ ^ 2 - X2 * Z2⁻¹ ^ 2)) ^ 2
      - X1 * Z1⁻¹ ^ 2 - X2 * Z2⁻¹ ^ 2 := by
  have e : X1 * Z1⁻¹ ^ 2 - X2 * Z2⁻¹ ^ 2 = -(X2 * Z1 ^ 2 - X1 * Z2 ^ 2) / (Z1 ^ 2 * Z2 ^ 2) := by
    field_simp
    ring
  rw [e]
  generalize hHd : X2 * Z1 ^ 2 - X1 * Z2 ^ 2 = H at *
  have hX2 : X2 = (H + X1 * Z2 ^ 2) / Z1 ^ 2 := by
    field_simp
    linear_combination hHd
  subst hX2
  field_simp
  ring

theorem add_field_y {X1 Y1 Z1 X2 Y2 Z2 NX : F} (hZ1 : Z1 ≠ 0) (hZ2 : Z2 ≠ 0)
    (hH : X2 * Z1 ^ 2 - X1 * Z2 ^ 2 ≠ 0) :
    ((Y2 * Z1 ^ 3 - Y1 * Z2 ^ 3) * ((X1 * Z2 ^ 2) * (X2 * Z1 ^ 2 - X1 * Z2 ^ 2) ^ 2 - NX)
        - (Y1 * Z2 ^ 3) * (X2 * Z1 ^ 2 - X1 * Z2 ^ 2) ^ 3)
      * (((X2 * Z1 ^ 2 - X1 * Z2 ^ 2) * Z1 * Z2)⁻¹) ^ 3 =
    ((Y1 * Z1⁻¹ ^ 3 - Y2 * Z2⁻¹ ^ 3) / (X1 * Z1⁻¹ ^ 2 - X2 * Z2⁻¹ ^ 2)) *
      (X1 * Z1⁻¹ ^ 2 - NX * (((X2 * Z1 ^ 2 - X1 * Z2 ^ 2) * Z1 * Z2)⁻¹) ^ 2) - Y1 * Z1⁻¹ ^ 3 := by
  have e : X1 * Z1⁻¹ ^ 2 - X2 * Z2⁻¹ ^ 2 = -(X2 * Z1 ^ 2 - X1 * Z2 ^ 2) / (Z1 ^ 2 * Z2 ^ 2) := by
    field_simp
    ring
  rw [e]
  generalize hHd : X2 * Z1 ^ 2 - X1 * Z2 ^ 2 = H at *
  field_simp
  ring
/-- the quantities compared by `Jac.add` -/
def U1 (P Q : Jac) : ℕ := P.x * (Q.z * Q.z % p) % p
def U2 (P Q : Jac) : ℕ := Q.x * (P.z * P.z % p) % p
def S1 (P Q : Jac) : ℕ := P.y * Q.z % p * (Q.z * Q.z % p) % p
def S2 (P Q : Jac) : ℕ := Q.y * P.z % p * (P.z * P.z % p) % p

theorem U1_lt (P Q : Jac) : U1 P Q < p := Nat.mod_lt _ p_pos
theorem U2_lt (P Q : Jac) : U2 P Q < p := Nat.mod_lt _ p_pos
theorem S1_lt (P Q : Jac) : S1 P Q < p := Nat.mod_lt _ p_pos
theorem S2_lt (P Q : Jac) : S2 P Q < p := Nat.mod_lt _ p_pos

theorem cast_U1 (P Q : Jac) : (U1 P Q : F) = P.x * (Q.z : F) ^ 2 := by
  simp only [U1, cast_mod, Nat.cast_mul]; ring
theorem cast_U2 (P Q : Jac) : (U2 P Q : F) = Q.x * (P.z : F) ^ 2 := by
  simp only [U2, cast_mod, Nat.cast_mul]; ring
theorem cast_S1 (P Q : Jac) : (S1 P Q : F) = P.y * (Q.z : F) ^ 3 := by
  simp only [S1, cast_mod, Nat.cast_mul]; ring
theorem cast_S2 (P Q : Jac) : (S2 P Q : F) = Q.y * (P.z : F) ^ 3 := by
  simp only [S2, cast_mod, Nat.cast_mul]; ring

theorem add_of_pz {P Q : Jac} (h : P.z = 0) : P.add Q = Q := by
  simp [Jac.add, h]

theorem add_of_qz {P Q : Jac} (h1 : P.z ≠ 0) (h : Q.z = 0) : P.add Q = P := by
  simp [Jac.add, h1, h]

theorem add_of_eq_eq {P Q : Jac} (h1 : P.z ≠ 0) (h2 : Q.z ≠ 0) (hu : U1 P Q = U2 P Q)
    (hs : S1 P Q = S2 P Q) : P.add Q = P.double := by
  unfold U1 U2 at hu
  unfold S1 S2 at hs
  simp [Jac.add, h1, h2, hu, hs]

theorem add_of_eq_ne {P Q : Jac} (h1 : P.z ≠ 0) (h2 : Q.z ≠ 0) (hu : U1 P Q = U2 P Q)
    (hs : S1 P Q ≠ S2 P Q) : P.add Q = Jac.inf := by
  unfold U1 U2 at hu
  unfold S1 S2 at hs
  simp only [Jac.add, beq_iff_eq, h1, h2, hu, hs, if_false, if_true]

theorem add_z_lt {P Q : Jac} (h1 : P.z ≠ 0) (h2 : Q.z ≠ 0) (hu : U1 P Q ≠ U2 P Q) :
    (P.add Q).z < p := by
  unfold U1 U2 at hu
  simp only [Jac.add, beq_iff_eq, h1, h2, hu, if_false]
  exact Nat.mod_lt _ p_pos

theorem add_z {P Q : Jac} (h1 : P.z ≠ 0) (h2 : Q.z ≠ 0) (hu : U1 P Q ≠ U2 P Q) :
    ((P.add Q).z : F) = ((Q.x : F) * (P.z : F) ^ 2 - P.x * (Q.z : F) ^ 2) * P.z * Q.z := by
  unfold U1 U2 at hu
  simp only [Jac.add, beq_iff_eq, h1, h2, hu, if_false, cast_mod, Nat.cast_mul,
    cast_add_p_sub_mod]
  ring

theorem add_x {P Q : Jac} (h1 : P.z ≠ 0) (h2 : Q.z ≠ 0) (hu : U1 P Q ≠ U2 P Q) :
    ((P.add Q).x : F) =
      ((Q.y : F) * (P.z : F) ^ 3 - P.y * (Q.z : F) ^ 3) ^ 2
        - ((Q.x : F) * (P.z : F) ^ 2 - P.x * (Q.z : F) ^ 2) ^ 3
        - 2 * (P.x * (Q.z : F) ^ 2) * ((Q.x : F) * (P.z : F) ^ 2 - P.x * (Q.z : F) ^ 2) ^ 2 := by
  unfold U1 U2 at hu
  simp only [Jac.add, beq_iff_eq, h1, h2, hu, if_false, cast_mod, Nat.cast_mul, Nat.cast_add,
    cast_add_p_sub_mod, cast_p_sub_mod, Nat.cast_ofNat]
  ring

theorem add_y {P Q : Jac} (h1 : P.z ≠ 0) (h2 : Q.z ≠ 0) (hu : U1 P Q ≠ U2 P Q) :
    ((P.add Q).y : F) =
      ((Q.y : F) * (P.z : F) ^ 3 - P.y * (Q.z : F) ^ 3) *
          ((P.x * (Q.z : F) ^ 2) * ((Q.x : F) * (P.z : F) ^ 2 - P.x * (Q.z : F) ^ 2) ^ 2
            - (P.add Q).x)
        - (P.y * (Q.z : F) ^ 3) * ((Q.x : F) * (P.z : F) ^ 2 - P.x * (Q.z : F) ^ 2) ^ 3 := by
  unfold U1 U2 at hu
  simp only [Jac.add, beq_iff_eq, h1, h2, hu, if_false, cast_mod, Nat.cast_mul, Nat.cast_add,
    cast_add_p_sub_mod, cast_p_sub_mod, Nat.cast_ofNat]
  ring

theorem affX_eq_iff {P Q : Jac} (hZ1 : (P.z : F) ≠ 0) (hZ2 : (Q.z : F) ≠ 0) :
    (affX P : F) = affX Q ↔ U1 P Q = U2 P Q := by
  rw [← cast_inj_of_lt (U1_lt P Q) (U2_lt P Q), cast_U1, cast_U2, cast_affX, cast_affX]
  constructor
  · intro h
    field_simp at h
    linear_combination h
  · intro h
    field_simp
    linear_combination h

theorem affY_eq_iff {P Q : Jac} (hZ1 : (P.z : F) ≠ 0) (hZ2 : (Q.z : F) ≠ 0) :
    (affY P : F) = affY Q ↔ S1 P Q = S2 P Q := by
  rw [← cast_inj_of_lt (S1_lt P Q) (S2_lt P Q), cast_S1, cast_S2, cast_affY, cast_affY]
  constructor
  · intro h
    field_simp at h
    linear_combination h
  · intro h
    field_simp
    linear_combination h

/-- `Jac.add` adds -/
theorem jrep_add {P Q : Jac} {P' Q' : W.Point} (hP : JRep P P') (hQ : JRep Q Q') :
    JRep (P.add Q) (P' + Q') := by
  by_cases h1 : P.z = 0
  · rw [add_of_pz h1, hP.eq_zero h1, zero_add]; exact hQ
  by_cases h2 : Q.z = 0
  · rw [add_of_qz h1 h2, hQ.eq_zero h2, add_zero]; exact hP
  have hZ1 := hP.castz_ne h1
  have hZ2 := hQ.castz_ne h2
  have hr1 := hP.2
  have hr2 := hQ.2
  rw [toAffine_of_z_ne h1] at hr1
  rw [toAffine_of_z_ne h2] at hr2
  have hadd := addA_rep hr1 hr2
  by_cases hu : U1 P Q = U2 P Q
  · have hx := (affX_eq_iff hZ1 hZ2).2 hu
    by_cases hs : S1 P Q = S2 P Q
    · -- the same point: doubling
      have hy := (affY_eq_iff hZ1 hZ2).2 hs
      have hPQ : P' = Q' := rep_eq_of_cast hr1 hr2 hx.symm hy.symm
      rw [add_of_eq_eq h1 h2 hu hs, ← hPQ]
      exact jrep_double hP
    · -- opposite points
      have hy : (affY P : F) ≠ affY Q := fun h => hs ((affY_eq_iff hZ1 hZ2).1 h)
      have e1 := rep_equation hr1
      have e2 := rep_equation hr2
      have hneg : (affY P : F) = -(affY Q : F) := by
        have h0 : ((affY P : F) - affY Q) * ((affY P : F) + affY Q) = 0 := by
          rw [hx] at e1
          linear_combination e1 - e2
        rcases mul_eq_zero.1 h0 with h | h
        · exact absurd (sub_eq_zero.1 h) hy
        · exact eq_neg_of_add_eq_zero_left h
      rw [addA_neg hx hneg] at hadd
      rw [add_of_eq_ne h1 h2 hu hs, hadd.eq_zero]
      exact jrep_inf
  · -- the chord
    have hx : (affX P : F) ≠ affX Q := fun h => hu ((affX_eq_iff hZ1 hZ2).1 h)
    obtain ⟨c, d, hcd, hc, hd⟩ := addA_chord (b := affY P) (b' := affY Q) hx
    rw [hcd] at hadd
    have hH : (Q.x : F) * (P.z : F) ^ 2 - P.x * (Q.z : F) ^ 2 ≠ 0 := by
      rw [sub_ne_zero, ← cast_U1, ← cast_U2]
      exact fun h => hu ((cast_inj_of_lt (U1_lt P Q) (U2_lt P Q)).1 h.symm)
    have hz3 : ((P.add Q).z : F) ≠ 0 := by
      rw [add_z h1 h2 hu]
      exact mul_ne_zero (mul_ne_zero hH hZ1) hZ2
    have hz3' : (P.add Q).z ≠ 0 := fun h0 => hz3 (by rw [h0]; simp)
    refine ⟨add_z_lt h1 h2 hu, ?_⟩
    rw [toAffine_of_z_ne hz3']
    have hx' : (affX (P.add Q) : F) = c := by
      rw [hc]
      simp only [cast_affX, cast_affY]
      rw [add_x h1 h2 hu, add_z h1 h2 hu]
      exact add_field_x hZ1 hZ2 hH
    refine rep_of_cast hadd hx' ?_
    rw [hd, ← hx']
    simp only [cast_affX, cast_affY]
    rw [add_y h1 h2 hu, add_z h1 h2 hu]
    exact add_field_y hZ1 hZ2 hH

/-! ### scalar multiplication -/

theorem JRep.congr {J : Jac} {Q Q' : W.Point} (h : JRep J Q) (hQ : Q = Q') : JRep J Q' := hQ ▸ h

theorem jrep_mulAux {P : Jac} {P' : W.Point} (hP : JRep P P') :
    ∀ (fuel k : ℕ), k < 2 ^ fuel → JRep (Jac.mulAux fuel k P) (k • P') := by
  intro fuel
  induction fuel with
  | zero =>
    intro k hk
    have : k = 0 := by omega
    subst this
    rw [zero_nsmul]
    exact jrep_inf
  | succ f ih =>
    intro k hk
    simp only [Jac.mulAux]
    split
    · next h0 =>
      subst h0
      rw [zero_nsmul]
      exact jrep_inf
    · next h0 =>
      have hk2 : k / 2 < 2 ^ f := by
        rw [Nat.pow_succ] at hk
        omega
      have hD := jrep_double (ih (k / 2) hk2)
      split
      · next h1 =>
        refine (jrep_add hD hP).congr ?_
        have hE : k = k / 2 + k / 2 + 1 := by omega
        conv_rhs => rw [hE, add_nsmul, add_nsmul, one_nsmul]
      · next h1 =>
        refine hD.congr ?_
        have hE : k = k / 2 + k / 2 := by omega
        conv_rhs => rw [hE, add_nsmul]

/-- `Jac.mul` multiplies -/
theorem jrep_mul {P : Jac} {P' : W.Point} (hP : JRep P P') (k : ℕ) :
    JRep (Jac.mul k P) (k • P') :=
  jrep_mulAux hP _ k Nat.lt_log2_self

/-! ### the affine interface `Secp.mul` / `Secp.add` / `Secp.mulG` -/

theorem jrep_ofAffine {A : PtA} {Q : W.Point} (h : Rep A Q) : JRep (Jac.ofAffine A) Q := by
  rcases A with _ | ⟨x, y⟩
  · rw [h.eq_zero]
    exact jrep_inf
  · have h1 : (1 : ℕ) < p := by have := p_gt; omega
    refine ⟨h1, ?_⟩
    have hz : (Jac.ofAffine (some (x, y))).z ≠ 0 := by simp [Jac.ofAffine]
    rw [toAffine_of_z_ne hz]
    refine rep_of_cast h ?_ ?_
    · rw [cast_affX]; simp [Jac.ofAffine]
    · rw [cast_affY]; simp [Jac.ofAffine]

theorem rep_secp_mul {A : PtA} {Q : W.Point} (h : Rep A Q) (k : ℕ) :
    Rep (Hdw.Prim.Secp.mul k A) (k • Q) := by
  unfold Hdw.Prim.Secp.mul
  split
  · next h0 =>
    have : k = 0 := by simpa using h0
    subst this
    rw [zero_nsmul]
    exact Rep.zero'
  · exact (jrep_mul (jrep_ofAffine h) k).2

theorem rep_secp_add {A B : PtA} {Q R : W.Point} (hA : Rep A Q) (hB : Rep B R) :
    Rep (Hdw.Prim.Secp.add A B) (Q + R) :=
  (jrep_add (jrep_ofAffine hA) (jrep_ofAffine hB)).2

/-! ### the invariant, functional form -/

/-- invariant of the Jacobian code: `z` is reduced and the affine image is on the curve -/
def JacOk (J : Jac) : Prop := J.z < p ∧ onCurveA J.toAffine = true

theorem JacOk.jrep {J : Jac} (h : JacOk J) : JRep J (toPoint J.toAffine) :=
  ⟨h.1, rep_toPoint h.2⟩

theorem JRep.ok {J : Jac} {Q : W.Point} (h : JRep J Q) : JacOk J ∧ toPoint J.toAffine = Q :=
  ⟨⟨h.1, h.2.onCurve⟩, h.2.toPoint_eq⟩

theorem jacOk_ofAffine {A : PtA} (h : onCurveA A = true) :
    JacOk (Jac.ofAffine A) ∧ toPoint (Jac.ofAffine A).toAffine = toPoint A :=
  (jrep_ofAffine (rep_toPoint h)).ok

end Hdw.Lemmas.SecpJac
