/-
Bit-packing proofs for `Hdw.Mnemonic` (src/mnemonic.rs) against `Hdw.Spec.Bip39`.
-/
import HdwModel.Model.Mnemonic
import HdwModel.Spec.Bip39
import HdwModel.Lemmas.Wordlist
import HdwModel.Lemmas.Decimal

namespace Hdw.Mnemonic
open Hdw Hdw.Spec.Bip39

/-! ### arithmetic -/

theorem shl_or_eq (a i : Nat) (h : i < 2048) : (a <<< 11) ||| i = a * 2048 + i := by
  rw [← Nat.shiftLeft_add_eq_or_of_lt (by simpa using h), Nat.shiftLeft_eq]

theorem mod_div_mod (V b w N : Nat) (h : b + w ≤ N) :
    (V % 2 ^ N) / 2 ^ b % 2 ^ w = V / 2 ^ b % 2 ^ w := by
  have hN : N = b + (N - b) := by omega
  rw [hN, Nat.pow_add, Nat.mod_mul_right_div_self]
  exact Nat.mod_mod_of_dvd _ (Nat.pow_dvd_pow 2 (by omega))

theorem shr_and_ff (V b : Nat) (h : b + 8 ≤ 64) :
    ((V % 2 ^ 64) >>> b) &&& 0xff = V / 2 ^ b % 256 := by
  have : (0xff : Nat) = 2 ^ 8 - 1 := by decide
  rw [this, Nat.and_two_pow_sub_one_eq_mod, Nat.shiftRight_eq_div_pow, mod_div_mod _ _ _ _ h]

/-! ### `beVal` -/

theorem beVal_append (a b : Bytes) : beVal (a ++ b) = beVal a * 256 ^ b.length + beVal b := by
  induction a with
  | nil => simp [beVal]
  | cons x xs ih =>
    simp only [List.cons_append, beVal, ih, List.length_append, Nat.pow_add]
    rw [Nat.add_mul, Nat.mul_assoc, Nat.add_assoc]

theorem beVal_snoc (a : Bytes) (x : UInt8) : beVal (a ++ [x]) = beVal a * 256 + x.toNat := by
  rw [beVal_append]; simp [beVal]

theorem beVal_lt (a : Bytes) : beVal a < 256 ^ a.length := by
  induction a with
  | nil => simp [beVal]
  | cons x xs ih =>
    simp only [beVal, List.length_cons, Nat.pow_succ]
    have hx : x.toNat < 256 := x.toNat_lt
    have : x.toNat * 256 ^ xs.length + 256 ^ xs.length ≤ 256 ^ xs.length * 256 := by
      rw [Nat.mul_comm (256 ^ xs.length) 256, ← Nat.succ_mul]
      exact Nat.mul_le_mul_right _ hx
    omega

theorem beVal_inj : ∀ (a b : Bytes), a.length = b.length → beVal a = beVal b → a = b
  | [], [], _, _ => rfl
  | [], _ :: _, h, _ => by simp at h
  | _ :: _, [], h, _ => by simp at h
  | x :: xs, y :: ys, hl, hv => by
    simp only [List.length_cons, Nat.add_right_cancel_iff] at hl
    simp only [beVal, hl] at hv
    have hM : 0 < 256 ^ ys.length := Nat.pow_pos (by decide)
    have h1 := beVal_lt xs
    have h2 := beVal_lt ys
    rw [hl] at h1
    have e1 : (x.toNat * 256 ^ ys.length + beVal xs) / 256 ^ ys.length = x.toNat := by
      rw [Nat.mul_comm, Nat.mul_add_div hM, Nat.div_eq_of_lt h1, Nat.add_zero]
    have e2 : (y.toNat * 256 ^ ys.length + beVal ys) / 256 ^ ys.length = y.toNat := by
      rw [Nat.mul_comm, Nat.mul_add_div hM, Nat.div_eq_of_lt h2, Nat.add_zero]
    have hxy : x.toNat = y.toNat := by rw [← e1, ← e2, hv]
    have hx : x = y := UInt8.toNat_inj.mp hxy
    have ht : beVal xs = beVal ys := by rw [hxy] at hv; omega
    rw [hx, beVal_inj xs ys hl ht]

/-! ### base-2048 digits -/

/-- value of a digit list (most significant first) continuing from `V` -/
def valFrom (V : Nat) (ds : List Nat) : Nat := ds.foldl (fun a d => a * 2048 + d) V

theorem valFrom_nil (V : Nat) : valFrom V [] = V := rfl
theorem valFrom_cons (V d : Nat) (ds : List Nat) :
    valFrom V (d :: ds) = valFrom (V * 2048 + d) ds := rfl
theorem valFrom_snoc (V d : Nat) (ds : List Nat) :
    valFrom V (ds ++ [d]) = valFrom V ds * 2048 + d := by
  simp [valFrom, List.foldl_append]

theorem digits2048_length (k v : Nat) : (digits2048 k v).length = k := by
  induction k generalizing v with
  | zero => rfl
  | succ k ih => simp [digits2048, ih]

theorem digits2048_lt (k v : Nat) : ∀ d ∈ digits2048 k v, d < 2048 := by
  induction k generalizing v with
  | zero => intro d hd; simp [digits2048] at hd
  | succ k ih =>
    intro d hd
    simp only [digits2048, List.mem_append, List.mem_singleton] at hd
    rcases hd with hd | hd
    · exact ih _ d hd
    · omega

theorem valFrom_digits2048 (k v : Nat) : valFrom 0 (digits2048 k v) = v % 2048 ^ k := by
  induction k generalizing v with
  | zero => simp [digits2048, valFrom, Nat.mod_one]
  | succ k ih =>
    rw [digits2048, valFrom_snoc, ih, Nat.pow_succ, Nat.mul_comm (2048 ^ k) 2048, Nat.mod_mul]
    omega

theorem digits2048_valFrom (ds : List Nat) (h : ∀ d ∈ ds, d < 2048) :
    digits2048 ds.length (valFrom 0 ds) = ds := by
  induction ds using list_rev_ind with
  | hnil => rfl
  | snoc ds d ih =>
    have hd : d < 2048 := h d (by simp)
    have ih' := ih (fun x hx => h x (by simp [hx]))
    rw [valFrom_snoc, List.length_append, List.length_singleton, digits2048]
    have e1 : (valFrom 0 ds * 2048 + d) / 2048 = valFrom 0 ds := by omega
    have e2 : (valFrom 0 ds * 2048 + d) % 2048 = d := by omega
    rw [e1, e2, ih']

/-! ### the parsing loop -/

/-- what the loop state means: `V` is the base-2048 value of the indices consumed so far -/
structure Inv (V : Nat) (st : St) : Prop where
  acc : st.acc = V % 2 ^ 64
  len : st.seed.length = st.byteOff
  val : beVal st.seed = V / 2 ^ st.bitOff

theorem drain_spec (len V T : Nat) : ∀ (fuel : Nat) (st : St), Inv V st →
    8 * st.byteOff + st.bitOff = T → st.bitOff ≤ 8 * fuel + 8 → st.bitOff ≤ 56 →
    (T - 1) / 8 ≤ len → 1 ≤ st.bitOff →
    ∃ st', drain len fuel st = .ok st' ∧ Inv V st' ∧ 8 * st'.byteOff + st'.bitOff = T ∧
      1 ≤ st'.bitOff ∧ st'.bitOff ≤ 8
  | 0, st, hI, hT, hf, _, _, h1 => by
    refine ⟨st, ?_, hI, hT, h1, by omega⟩
    simp only [drain]
    rw [if_neg (by omega)]
  | fuel + 1, st, hI, hT, hf, h56, hlen, h1 => by
    simp only [drain]
    by_cases hb : st.bitOff > 8
    · rw [if_pos hb, if_pos (by omega)]
      apply drain_spec len V T fuel
      · refine ⟨hI.acc, ?_, ?_⟩
        · simp [hI.len]
        · simp only
          rw [beVal_snoc, hI.val, hI.acc, shr_and_ff _ _ (by omega), UInt8.toNat_ofNat']
          have hb8 : st.bitOff = (st.bitOff - 8) + 8 := by omega
          have : V / 2 ^ st.bitOff = V / 2 ^ (st.bitOff - 8) / 256 := by
            conv => lhs; rw [hb8, Nat.pow_add, ← Nat.div_div_eq_div_mul]
          rw [this]
          omega
      · simp only; omega
      · simp only; omega
      · simp only; omega
      · exact hlen
      · simp only; omega
    · rw [if_neg hb]
      exact ⟨st, rfl, hI, hT, h1, by omega⟩

theorem step_spec (len V : Nat) (st : St) (i : Nat) (hI : Inv V st) (hle : st.bitOff ≤ 8)
    (hi : i < 2048) (hlen : (8 * st.byteOff + st.bitOff + 11 - 1) / 8 ≤ len) :
    ∃ st', step len st i = .ok st' ∧ Inv (V * 2048 + i) st' ∧
      8 * st'.byteOff + st'.bitOff = 8 * st.byteOff + st.bitOff + 11 ∧
      1 ≤ st'.bitOff ∧ st'.bitOff ≤ 8 := by
  unfold step wordBits
  apply drain_spec len (V * 2048 + i) (8 * st.byteOff + st.bitOff + 11) 3
  · refine ⟨?_, hI.len, ?_⟩
    · simp only
      rw [shl_or_eq _ _ hi, hI.acc]
      omega
    · simp only
      rw [hI.val, Nat.pow_add, Nat.mul_comm (2 ^ st.bitOff), ← Nat.div_div_eq_div_mul]
      congr 1
      omega
  · simp only; omega
  · simp only; omega
  · simp only; omega
  · exact hlen
  · simp only; omega

/-- loop invariant after `k` words -/
structure RInv (k V : Nat) (st : St) : Prop extends Inv V st where
  off : 8 * st.byteOff + st.bitOff = 11 * k
  le : st.bitOff ≤ 8
  pos : 1 ≤ k → 1 ≤ st.bitOff

theorem rinv_init : RInv 0 0 ⟨0, 0, 0, []⟩ :=
  { acc := by simp, len := rfl, val := by simp [beVal], off := rfl, le := by simp,
    pos := by intro h; omega }

theorem run_spec (len : Nat) : ∀ (ws : List Str) (k V : Nat) (st : St),
    RInv k V st → (11 * (k + ws.length) - 1) / 8 ≤ len →
    (∃ idxs st', ws.map Wordlist.search = idxs.map some ∧ run len ws st = .ok st' ∧
        RInv (k + ws.length) (valFrom V idxs) st') ∨
    ((∃ w ∈ ws, Wordlist.search w = none) ∧ ∃ e, run len ws st = .err e)
  | [], k, V, st, hI, _ => Or.inl ⟨[], st, rfl, rfl, by simpa [valFrom_nil] using hI⟩
  | w :: ws, k, V, st, hI, hlen => by
    simp only [run]
    cases hs : Wordlist.search w with
    | none => exact Or.inr ⟨⟨w, by simp, hs⟩, _, rfl⟩
    | some i =>
      simp only
      have hi := Wordlist.search_lt hs
      simp only [List.length_cons] at hlen
      obtain ⟨st', hst, hI', hoff, h1, h8⟩ :=
        step_spec len V st i hI.toInv hI.le hi (by have := hI.off; omega)
      rw [hst]
      simp only
      have hR : RInv (k + 1) (V * 2048 + i) st' :=
        { toInv := hI', off := by have := hI.off; omega, le := h8, pos := fun _ => h1 }
      rcases run_spec len ws (k + 1) (V * 2048 + i) st' hR (by
          have : k + 1 + ws.length = k + (ws.length + 1) := by omega
          rw [this]; exact hlen) with ⟨idxs, st'', hm, hr, hI''⟩ | ⟨⟨w', hw', hn⟩, e, hr⟩
      · refine Or.inl ⟨i :: idxs, st'', ?_, hr, ?_⟩
        · simp [hs, hm]
        · have : k + (w :: ws).length = k + 1 + ws.length := by simp; omega
          rw [this, valFrom_cons]; exact hI''
      · exact Or.inr ⟨⟨w', by simp [hw'], hn⟩, e, hr⟩

/-! ### `fromPhrase` -/

theorem len_facts {n : Nat} (h : validLength n) :
    ∃ len, mnemonicToByteLength n = .ok len ∧ len * 3 = n * 4 := by
  unfold validLength at h
  rcases h with rfl | rfl | rfl | rfl | rfl
  · exact ⟨16, by decide, by decide⟩
  · exact ⟨20, by decide, by decide⟩
  · exact ⟨24, by decide, by decide⟩
  · exact ⟨28, by decide, by decide⟩
  · exact ⟨32, by decide, by decide⟩

theorem len_bad {n : Nat} (h : ¬ validLength n) :
    mnemonicToByteLength n = .err "invalid mnemonic length" := by
  unfold mnemonicToByteLength
  unfold validLength at h
  rw [if_neg h]

theorem checksum_rhs (V c : Nat) (hc : c ≤ 8) :
    ((V % 2 ^ 64) &&& ((1 <<< c) - 1)) % 256 = V % 2 ^ c := by
  rw [Nat.one_shiftLeft, Nat.and_two_pow_sub_one_eq_mod,
    Nat.mod_mod_of_dvd _ (Nat.pow_dvd_pow 2 (by omega))]
  apply Nat.mod_eq_of_lt
  have h1 : V % 2 ^ c < 2 ^ c := Nat.mod_lt _ (Nat.pow_pos (by decide))
  have h2 : 2 ^ c ≤ 2 ^ 8 := Nat.pow_le_pow_right (by decide) hc
  omega

/-- `fromPhrase` in closed form: `V` is the base-2048 value of the looked-up indices -/
theorem fromPhrase_char (P : Prims) (s : Str) (n len : Nat) (hn : validLength n)
    (hws : (splitWhitespace s).length = n) (hlen : len * 3 = n * 4) :
    (∃ idxs seed, (splitWhitespace s).map Wordlist.search = idxs.map some ∧ seed.length = len ∧
        beVal seed = valFrom 0 idxs / 2 ^ (n / 3) ∧
        fromPhrase P s =
          if ((P.sha256 seed).headD 0).toNat / 2 ^ (8 - n / 3) = valFrom 0 idxs % 2 ^ (n / 3)
          then .ok ⟨mkBuf P seed, len⟩ else .err "mnemonic checksum verification failure") ∨
    ((∃ w ∈ splitWhitespace s, Wordlist.search w = none) ∧ ∃ e, fromPhrase P s = .err e) := by
  unfold fromPhrase
  simp only []
  generalize splitWhitespace s = ws at *
  obtain ⟨len', hm, hlen'⟩ := len_facts hn
  have : len' = len := by omega
  subst this
  subst hws
  rw [hm]
  simp only
  have hn' := hn
  unfold validLength at hn'
  rcases run_spec len' ws 0 0 ⟨0, 0, 0, []⟩ rinv_init (by omega) with
    ⟨idxs, st', hmap, hr, hI⟩ | ⟨hw, e, hr⟩
  · left
    refine ⟨idxs, st'.seed, hmap, ?_, ?_, ?_⟩
    · have := hI.len; have := hI.off; have := hI.le; have := hI.pos; omega
    · have hb : st'.bitOff = ws.length / 3 := by
        have := hI.off; have := hI.le; have := hI.pos; omega
      rw [hI.val, hb]
    · rw [hr]
      simp only
      have hb : st'.bitOff = ws.length / 3 := by
        have := hI.off; have := hI.le; have := hI.pos; omega
      have hB : st'.byteOff = len' := by
        have := hI.off; have := hI.le; have := hI.pos; omega
      have h1 : ¬ (len' * 8 + st'.bitOff ≠ ws.length * wordBits) := by
        unfold wordBits; omega
      have h2 : ¬ (st'.byteOff ≠ len') := by omega
      have h3 : ¬ (st'.bitOff > 8 ∨ st'.bitOff = 0) := by omega
      rw [if_neg h1, if_neg h2, if_neg h3, hI.acc, Nat.shiftRight_eq_div_pow, hb,
        checksum_rhs _ _ (by omega)]
  · right
    refine ⟨hw, e, ?_⟩
    rw [hr]

/-! ### equivalence with the BIP-39 specification -/

theorem map_some_inj {α} : ∀ (a b : List α), a.map some = b.map some → a = b
  | [], [], _ => rfl
  | [], _ :: _, h => by simp at h
  | _ :: _, [], h => by simp at h
  | x :: xs, y :: ys, h => by
    simp only [List.map_cons, List.cons.injEq, Option.some.injEq] at h
    rw [h.1, map_some_inj xs ys h.2]

theorem map_search_to_table : ∀ (ws : List Str) (idxs : List Nat),
    ws.map Wordlist.search = idxs.map some →
    idxs.map (fun i => Wordlist.table[i]?) = ws.map some
  | [], [], _ => rfl
  | [], _ :: _, h => by simp at h
  | _ :: _, [], h => by simp at h
  | w :: ws, i :: idxs, h => by
    simp only [List.map_cons, List.cons.injEq] at h ⊢
    exact ⟨(Wordlist.search_iff w i).mp h.1, map_search_to_table ws idxs h.2⟩

theorem map_table_to_search : ∀ (ws : List Str) (idxs : List Nat),
    idxs.map (fun i => Wordlist.table[i]?) = ws.map some →
    ws.map Wordlist.search = idxs.map some
  | [], [], _ => rfl
  | [], _ :: _, h => by simp at h
  | _ :: _, [], h => by simp at h
  | w :: ws, i :: idxs, h => by
    simp only [List.map_cons, List.cons.injEq] at h ⊢
    exact ⟨(Wordlist.search_iff w i).mpr h.1, map_table_to_search ws idxs h.2⟩

theorem map_search_lt (ws : List Str) (idxs : List Nat)
    (h : ws.map Wordlist.search = idxs.map some) : ∀ d ∈ idxs, d < 2048 := by
  intro d hd
  have : some d ∈ ws.map Wordlist.search := by rw [h]; exact List.mem_map_of_mem hd
  obtain ⟨w, _, hw⟩ := List.mem_map.mp this
  exact Wordlist.search_lt hw

theorem fromPhrase_bad (P : Prims) (s : Str) (h : ¬ validLength (splitWhitespace s).length) :
    fromPhrase P s = .err "invalid mnemonic length" := by
  unfold fromPhrase
  simp only []
  rw [len_bad h]

/-- the checksum part of `encodedInt` fits in `c` bits -/
theorem cs_part_lt (x : UInt8) (c : Nat) (hc : c ≤ 8) : x.toNat / 2 ^ (8 - c) < 2 ^ c := by
  rw [Nat.div_lt_iff_lt_mul (Nat.pow_pos (by decide)), ← Nat.pow_add]
  have : c + (8 - c) = 8 := by omega
  rw [this]
  exact x.toNat_lt

theorem csBits_eq {n len : Nat} (hn : validLength n) (hlen : len * 3 = n * 4) :
    csBits len = n / 3 ∧ (len * 8 + csBits len) / 11 = n ∧ n / 3 ≤ 8 ∧
      8 * len + n / 3 = 11 * n := by
  unfold csBits; unfold validLength at hn; omega

/-- soundness: an accepted phrase is a valid sentence and the result stores its entropy -/
theorem fromPhrase_sound (P : Prims) (s : Str) (m : Mnemonic) (h : fromPhrase P s = .ok m) :
    ∃ ent, ValidWith P.sha256 Wordlist.table (splitWhitespace s) ent ∧
      m = ⟨mkBuf P ent, ent.length⟩ := by
  by_cases hn : validLength (splitWhitespace s).length
  · obtain ⟨len, _, hlen⟩ := len_facts hn
    obtain ⟨hcs, hcnt, hc8, _⟩ := csBits_eq hn hlen
    rcases fromPhrase_char P s _ len hn rfl hlen with
      ⟨idxs, seed, hmap, hsl, hval, hf⟩ | ⟨_, e, hf⟩
    · rw [hf] at h
      split at h
      · rename_i hck
        simp only [Res.ok.injEq] at h
        refine ⟨seed, ⟨hn, by omega, ?_⟩, by rw [← h, hsl]⟩
        have hil : idxs.length = (splitWhitespace s).length := by
          have := congrArg List.length hmap
          simpa using this.symm
        have e2 : encodedInt P.sha256 seed = valFrom 0 idxs := by
          unfold encodedInt
          rw [hsl, hcs, hval, hck]
          exact Nat.div_add_mod' _ _
        unfold indices
        rw [hsl, hcnt, e2, ← hil, digits2048_valFrom idxs (map_search_lt _ _ hmap)]
        exact map_search_to_table _ _ hmap
      · cases h
    · rw [hf] at h; cases h
  · rw [fromPhrase_bad P s hn] at h; cases h

theorem encodedInt_lt (sha : Bytes → Bytes) (ent : Bytes) (n : Nat) (hn : validLength n)
    (hlen : ent.length * 3 = n * 4) : encodedInt sha ent < 2048 ^ n := by
  obtain ⟨hcs, _, hc8, hsum⟩ := csBits_eq hn hlen
  unfold encodedInt
  rw [hcs]
  have hr := cs_part_lt ((sha ent).headD 0) (n / 3) hc8
  have hb := beVal_lt ent
  have hp : 2048 ^ n = 256 ^ ent.length * 2 ^ (n / 3) := by
    rw [show (2048 : Nat) = 2 ^ 11 from rfl, show (256 : Nat) = 2 ^ 8 from rfl, ← Nat.pow_mul,
      ← Nat.pow_mul, ← Nat.pow_add]
    congr 1; omega
  rw [hp]
  have : (beVal ent + 1) * 2 ^ (n / 3) ≤ 256 ^ ent.length * 2 ^ (n / 3) :=
    Nat.mul_le_mul_right _ hb
  rw [Nat.add_mul] at this
  omega

/-- completeness: a valid sentence is accepted, and the result stores its entropy -/
theorem fromPhrase_complete (P : Prims) (s : Str) (ent : Bytes)
    (h : ValidWith P.sha256 Wordlist.table (splitWhitespace s) ent) :
    fromPhrase P s = .ok ⟨mkBuf P ent, ent.length⟩ := by
  obtain ⟨hn, hlen, hmapT⟩ := h
  obtain ⟨hcs, hcnt, hc8, _⟩ := csBits_eq hn hlen
  have hsearch := map_table_to_search _ _ hmapT
  have hpos : 0 < 2 ^ ((splitWhitespace s).length / 3) := Nat.pow_pos (by decide)
  have hr := cs_part_lt ((P.sha256 ent).headD 0) _ hc8
  rcases fromPhrase_char P s _ ent.length hn rfl hlen with
    ⟨idxs, seed, hmap, hsl, hval, hf⟩ | ⟨⟨w, hw, hnone⟩, _⟩
  · have hidx : idxs = indices P.sha256 ent := map_some_inj _ _ (by rw [← hmap, hsearch])
    have hV : valFrom 0 idxs = encodedInt P.sha256 ent := by
      rw [hidx]; unfold indices
      rw [hcnt, valFrom_digits2048]
      exact Nat.mod_eq_of_lt (encodedInt_lt _ _ _ hn hlen)
    have hE : encodedInt P.sha256 ent = beVal ent * 2 ^ ((splitWhitespace s).length / 3) +
        ((P.sha256 ent).headD 0).toNat / 2 ^ (8 - (splitWhitespace s).length / 3) := by
      unfold encodedInt; rw [hcs]
    have hseed : seed = ent := by
      apply beVal_inj _ _ hsl
      rw [hval, hV, hE, Nat.mul_comm, Nat.mul_add_div hpos, Nat.div_eq_of_lt hr, Nat.add_zero]
    subst hseed
    rw [hf, if_pos]
    rw [hV, hE, Nat.mul_comm (beVal seed), Nat.mul_add_mod, Nat.mod_eq_of_lt hr]
  · exfalso
    have : Wordlist.search w ∈ (splitWhitespace s).map Wordlist.search :=
      List.mem_map_of_mem hw
    rw [hsearch, hnone] at this
    simp at this

theorem fromPhrase_no_panic (P : Prims) (s : Str) :
    (∃ m, fromPhrase P s = .ok m) ∨ ∃ e, fromPhrase P s = .err e := by
  by_cases hn : validLength (splitWhitespace s).length
  · obtain ⟨len, _, hlen⟩ := len_facts hn
    rcases fromPhrase_char P s _ len hn rfl hlen with
      ⟨idxs, seed, _, _, _, hf⟩ | ⟨_, e, hf⟩
    · rw [hf]
      split
      · exact Or.inl ⟨_, rfl⟩
      · exact Or.inr ⟨_, rfl⟩
    · exact Or.inr ⟨e, hf⟩
  · exact Or.inr ⟨_, fromPhrase_bad P s hn⟩

/-! ### uniqueness of the entropy -/

theorem table_idx_inj : ∀ (a b : List Nat),
    a.map (fun i => Wordlist.table[i]?) = b.map (fun i => Wordlist.table[i]?) →
    (∀ i ∈ a, i < 2048) → a = b
  | [], [], _, _ => rfl
  | [], _ :: _, h, _ => by simp at h
  | _ :: _, [], h, _ => by simp at h
  | x :: xs, y :: ys, h, hlt => by
    simp only [List.map_cons, List.cons.injEq] at h
    have hx : x < Wordlist.table.length := by
      rw [Wordlist.table_length]; exact hlt x (by simp)
    have h1 : Wordlist.table[x]? = some Wordlist.table[x] := List.getElem?_eq_getElem hx
    have s1 := (Wordlist.search_iff _ _).mpr h1
    have s2 := (Wordlist.search_iff _ _).mpr (h.1 ▸ h1)
    rw [s1] at s2
    simp only [Option.some.injEq] at s2
    rw [s2, table_idx_inj xs ys h.2 (fun i hi => hlt i (by simp [hi]))]

theorem validWith_unique (sha : Bytes → Bytes) (ws : List Str) (e₁ e₂ : Bytes)
    (h₁ : ValidWith sha Wordlist.table ws e₁) (h₂ : ValidWith sha Wordlist.table ws e₂) :
    e₁ = e₂ := by
  obtain ⟨hn, hl₁, hm₁⟩ := h₁
  obtain ⟨_, hl₂, hm₂⟩ := h₂
  obtain ⟨hcs₁, hcnt₁, hc8, _⟩ := csBits_eq hn hl₁
  obtain ⟨hcs₂, hcnt₂, _, _⟩ := csBits_eq hn hl₂
  have hpos : 0 < 2 ^ (ws.length / 3) := Nat.pow_pos (by decide)
  have hidx : indices sha e₁ = indices sha e₂ := by
    apply table_idx_inj _ _ (by rw [hm₁, hm₂])
    unfold indices
    exact digits2048_lt _ _
  unfold indices at hidx
  rw [hcnt₁, hcnt₂] at hidx
  have hv := congrArg (valFrom 0) hidx
  rw [valFrom_digits2048, valFrom_digits2048, Nat.mod_eq_of_lt (encodedInt_lt _ _ _ hn hl₁),
    Nat.mod_eq_of_lt (encodedInt_lt _ _ _ hn hl₂)] at hv
  unfold encodedInt at hv
  rw [hcs₁, hcs₂] at hv
  have hv' := congrArg (fun x => x / 2 ^ (ws.length / 3)) hv
  rw [Nat.mul_comm (beVal e₁), Nat.mul_add_div hpos, Nat.div_eq_of_lt (cs_part_lt _ _ hc8),
    Nat.add_zero, Nat.mul_comm (beVal e₂), Nat.mul_add_div hpos,
    Nat.div_eq_of_lt (cs_part_lt _ _ hc8), Nat.add_zero] at hv'
  exact beVal_inj _ _ (by omega) hv'

theorem exists_ok_of_isOk {α} (r : Res α) (h : r.isOk = true) : ∃ a, r = .ok a := by
  cases r with
  | ok a => exact ⟨a, rfl⟩
  | err e => simp [Res.isOk] at h
  | panic e => simp [Res.isOk] at h

/-! ### printing: the 11-bit windows of the buffer -/

/-- bits `[o, o+11)` of `B`, read from its first `m` bytes -/
def bitsAt (B : Bytes) (o m : Nat) : Nat := beVal (B.take m) / 2 ^ (8 * m - o - 11) % 2048

theorem bitsAt_succ (B : Bytes) (o m : Nat) (hm : m + 1 ≤ B.length) (ho : o + 11 ≤ 8 * m) :
    bitsAt B o (m + 1) = bitsAt B o m := by
  unfold bitsAt
  rw [List.take_succ_eq_append_getElem (by omega), beVal_snoc]
  have he : 8 * (m + 1) - o - 11 = 8 + (8 * m - o - 11) := by omega
  rw [he, Nat.pow_add, ← Nat.div_div_eq_div_mul]
  have hb : (B[m]).toNat < 256 := (B[m]).toNat_lt
  have : (beVal (List.take m B) * 256 + (B[m]).toNat) / 2 ^ 8 = beVal (List.take m B) := by
    omega
  rw [this]

theorem bitsAt_add (B : Bytes) (o m : Nat) (ho : o + 11 ≤ 8 * m) : ∀ (d : Nat),
    m + d ≤ B.length → bitsAt B o (m + d) = bitsAt B o m
  | 0, _ => rfl
  | d + 1, h => by
    rw [← Nat.add_assoc, bitsAt_succ B o (m + d) (by omega) (by omega)]
    exact bitsAt_add B o m ho d (by omega)

theorem bitsAt_indep (B : Bytes) (o m₁ m₂ : Nat) (h₁ : o + 11 ≤ 8 * m₁) (h₂ : o + 11 ≤ 8 * m₂)
    (l₁ : m₁ ≤ B.length) (l₂ : m₂ ≤ B.length) : bitsAt B o m₁ = bitsAt B o m₂ := by
  rcases Nat.le_total m₁ m₂ with h | h
  · have := bitsAt_add B o m₁ h₁ (m₂ - m₁) (by omega)
    rw [show m₁ + (m₂ - m₁) = m₂ by omega] at this
    exact this.symm
  · have := bitsAt_add B o m₂ h₂ (m₁ - m₂) (by omega)
    rw [show m₂ + (m₁ - m₂) = m₁ by omega] at this
    exact this

theorem windowIndex_eq (buf : Bytes) (i : Nat) (h : i * 11 / 8 + 8 ≤ buf.length) :
    windowIndex buf i = .ok (bitsAt buf (i * 11) (i * 11 / 8 + 8)) := by
  unfold windowIndex wordBits Wordlist.wordCount
  simp only []
  rw [if_pos h]
  congr 1
  unfold bitsAt
  have hW : ((buf.drop (i * 11 / 8)).take 8).length = 8 := by
    rw [List.length_take, List.length_drop]; omega
  rw [List.take_add, beVal_append, hW]
  have hlt := beVal_lt ((buf.drop (i * 11 / 8)).take 8)
  rw [hW] at hlt
  have h2047 : (2048 - 1 : Nat) = 2 ^ 11 - 1 := by decide
  have h256 : (256 : Nat) ^ 8 = 2 ^ 64 := by decide
  have h2048 : (2048 : Nat) = 2 ^ 11 := by decide
  rw [h2047, Nat.and_two_pow_sub_one_eq_mod, Nat.shiftRight_eq_div_pow, h256] at *
  have hs : 8 * (i * 11 / 8 + 8) - i * 11 - 11 = 64 - 11 - i * 11 % 8 := by omega
  rw [hs, h2048]
  rw [← mod_div_mod (beVal (List.take (i * 11 / 8) buf) * 2 ^ 64 + _) _ 11 64 (by omega)]
  rw [Nat.mul_comm (beVal (List.take (i * 11 / 8) buf)), Nat.mul_add_mod, Nat.mod_eq_of_lt hlt]

theorem digits2048_getElem? (n : Nat) : ∀ (v i : Nat), i < n →
    (digits2048 n v)[i]? = some (v / 2048 ^ (n - 1 - i) % 2048) := by
  induction n with
  | zero => intro v i h; omega
  | succ n ih =>
    intro v i h
    rw [digits2048]
    by_cases hi : i < n
    · rw [List.getElem?_append_left (by rw [digits2048_length]; exact hi), ih _ _ hi,
        Nat.div_div_eq_div_mul, ← Nat.pow_succ']
      have : n + 1 - 1 - i = n - 1 - i + 1 := by omega
      rw [this]
    · have : i = n := by omega
      subst this
      rw [List.getElem?_append_right (by rw [digits2048_length]; exact Nat.le_refl _),
        digits2048_length]
      simp

theorem mkBuf_length (P : Prims) (ent : Bytes) (h : ent.length ≤ 32) :
    (mkBuf P ent).length = 64 := by
  unfold mkBuf
  simp only [List.length_append, List.length_replicate, List.length_take]
  omega

theorem mkBuf_take (P : Prims) (ent : Bytes) (h : ent.length ≤ 32) :
    (mkBuf P ent).take (ent.length + 1) = ent ++ [(P.sha256 ent).headD 0] := by
  unfold mkBuf
  simp only []
  rw [List.append_assoc, List.take_length_add_append]
  congr 1
  cases hs : P.sha256 ent with
  | nil =>
    simp only [List.take_nil, List.append_nil, List.headD_nil, List.nil_append,
      List.take_replicate]
    have : min 1 (64 - ent.length) = 1 := by omega
    rw [this]; rfl
  | cons x xs =>
    simp

theorem encodedInt_eq_snoc (sha : Bytes → Bytes) (ent : Bytes) (c : Nat)
    (hcs : csBits ent.length = c) (hc : c ≤ 8) :
    encodedInt sha ent = beVal (ent ++ [(sha ent).headD 0]) / 2 ^ (8 - c) := by
  unfold encodedInt
  rw [hcs, beVal_snoc]
  have h256 : (256 : Nat) = 2 ^ (8 - c) * 2 ^ c := by
    rw [← Nat.pow_add, show 8 - c + c = 8 by omega]
  rw [h256, ← Nat.mul_assoc, Nat.mul_comm _ (2 ^ (8 - c)), Nat.mul_assoc,
    Nat.mul_add_div (Nat.pow_pos (by decide))]

/-- the `i`-th window of the buffer is the `i`-th base-2048 digit of entropy‖checksum -/
theorem windowIndex_mkBuf (P : Prims) (ent : Bytes) (n : Nat) (hn : validLength n)
    (hlen : ent.length * 3 = n * 4) (i : Nat) (hi : i < n) :
    windowIndex (mkBuf P ent) i =
      .ok (encodedInt P.sha256 ent / 2048 ^ (n - 1 - i) % 2048) := by
  obtain ⟨hcs, _, hc8, hsum⟩ := csBits_eq hn hlen
  have hn' := hn
  unfold validLength at hn'
  have hl32 : ent.length ≤ 32 := by omega
  have hbl := mkBuf_length P ent hl32
  rw [windowIndex_eq _ _ (by rw [hbl]; omega)]
  congr 1
  rw [bitsAt_indep (mkBuf P ent) (i * 11) (i * 11 / 8 + 8) (ent.length + 1) (by omega) (by omega)
    (by omega) (by omega)]
  unfold bitsAt
  rw [mkBuf_take P ent hl32, encodedInt_eq_snoc _ _ _ hcs hc8, Nat.div_div_eq_div_mul,
    show (2048 : Nat) = 2 ^ 11 from rfl, ← Nat.pow_mul, ← Nat.pow_add]
  congr 3
  omega

theorem wordsOf_ok (m : Mnemonic) : ∀ (is J : List Nat) (ws : List Str),
    is.map (windowIndex m.buf) = J.map Res.ok →
    J.map (fun i => Wordlist.table[i]?) = ws.map some →
    wordsOf m is = .ok ws
  | [], [], [], _, _ => rfl
  | [], [], _ :: _, _, h => by simp at h
  | [], _ :: _, _, h, _ => by simp at h
  | _ :: _, [], _, h, _ => by simp at h
  | _ :: _, _ :: _, [], _, h => by simp at h
  | i :: is, j :: J, w :: ws, h₁, h₂ => by
    simp only [List.map_cons, List.cons.injEq] at h₁ h₂
    have hj : j < 2048 := by
      have := (List.getElem?_eq_some_iff.mp h₂.1).1
      rw [Wordlist.table_length] at this; exact this
    obtain ⟨w', hw', ht', _⟩ := Wordlist.word_ok j hj
    rw [h₂.1] at ht'
    simp only [Option.some.injEq] at ht'
    subst ht'
    simp only [wordsOf]
    rw [h₁.1]
    simp only
    rw [hw']
    simp only
    rw [wordsOf_ok m is J ws h₁.2 h₂.2]

theorem toPhrase_spec (P : Prims) (ent : Bytes) (ws : List Str)
    (h : ValidWith P.sha256 Wordlist.table ws ent) :
    toPhrase ⟨mkBuf P ent, ent.length⟩ = .ok (joinWith [' '] ws) ∧
      mnemonicLength ⟨mkBuf P ent, ent.length⟩ = ws.length := by
  obtain ⟨hn, hlen, hmap⟩ := h
  obtain ⟨hcs, hcnt, hc8, hsum⟩ := csBits_eq hn hlen
  have hn' := hn
  unfold validLength at hn'
  have hml : mnemonicLength ⟨mkBuf P ent, ent.length⟩ = ws.length := by
    unfold mnemonicLength wordBits; simp only; omega
  refine ⟨?_, hml⟩
  unfold toPhrase
  rw [hml, wordsOf_ok _ (List.range ws.length) (indices P.sha256 ent) ws ?_ hmap]
  simp only
  apply List.ext_getElem?
  intro i
  unfold indices
  rw [hcnt]
  by_cases hi : i < ws.length
  · rw [List.getElem?_map, List.getElem?_map, List.getElem?_range hi,
      digits2048_getElem? _ _ _ hi]
    simp only [Option.map_some]
    rw [windowIndex_mkBuf P ent ws.length hn hlen i hi]
  · rw [List.getElem?_eq_none (by simp; omega), List.getElem?_eq_none (by
      simp [digits2048_length]; omega)]

/-! ### `splitWhitespace ∘ joinWith` -/

theorem splitWsAux_append : ∀ (w : Str), (∀ c ∈ w, isWhitespace c = false) →
    ∀ (cur rest : Str), splitWsAux cur (w ++ rest) = splitWsAux (w.reverse ++ cur) rest
  | [], _, cur, rest => by simp
  | c :: w, hw, cur, rest => by
    have hc : isWhitespace c = false := hw c (by simp)
    simp only [List.cons_append, splitWsAux, hc, Bool.false_eq_true, ↓reduceIte]
    rw [splitWsAux_append w (fun x hx => hw x (by simp [hx]))]
    simp

theorem split_join : ∀ (ws : List Str),
    (∀ w ∈ ws, w ≠ [] ∧ ∀ c ∈ w, isWhitespace c = false) →
    splitWhitespace (joinWith [' '] ws) = ws
  | [], _ => by simp [splitWhitespace, joinWith, splitWsAux]
  | [w], h => by
    have hw := h w (by simp)
    unfold splitWhitespace
    simp only [joinWith]
    have := splitWsAux_append w hw.2 [] []
    rw [List.append_nil] at this
    rw [this]
    simp [splitWsAux, hw.1]
  | w :: w₂ :: ws, h => by
    have hw := h w (by simp)
    have ih := split_join (w₂ :: ws) (fun x hx => h x (by simp [hx]))
    unfold splitWhitespace at ih ⊢
    simp only [joinWith]
    rw [List.append_assoc, splitWsAux_append w hw.2]
    have hsp : isWhitespace ' ' = true := by decide
    simp only [List.singleton_append, splitWsAux, hsp, List.append_nil]
    simp [hw.1, ih]

theorem exists_words : ∀ (J : List Nat), (∀ j ∈ J, j < 2048) →
    ∃ ws : List Str, J.map (fun i => Wordlist.table[i]?) = ws.map some ∧
      ∀ w ∈ ws, w ∈ Wordlist.table
  | [], _ => ⟨[], rfl, by simp⟩
  | j :: J, h => by
    obtain ⟨ws, hm, hmem⟩ := exists_words J (fun x hx => h x (by simp [hx]))
    obtain ⟨w, _, ht, _⟩ := Wordlist.word_ok j (h j (by simp))
    refine ⟨w :: ws, by simp [ht, hm], ?_⟩
    intro x hx
    simp only [List.mem_cons] at hx
    rcases hx with rfl | hx
    · exact List.mem_of_getElem? ht
    · exact hmem x hx

theorem parse_print_lemma (P : Prims) (ent : Bytes)
    (hlen : ent.length = 16 ∨ ent.length = 20 ∨ ent.length = 24 ∨ ent.length = 28 ∨
      ent.length = 32) :
    ∃ phrase, toPhrase ⟨mkBuf P ent, ent.length⟩ = .ok phrase ∧
      fromPhrase P phrase = .ok ⟨mkBuf P ent, ent.length⟩ ∧
      ValidWith P.sha256 Wordlist.table (splitWhitespace phrase) ent := by
  obtain ⟨ws, hm, hmem⟩ := exists_words (indices P.sha256 ent) (by
    unfold indices; exact digits2048_lt _ _)
  have hwl : ws.length = (ent.length * 8 + csBits ent.length) / 11 := by
    have := congrArg List.length hm
    simp only [List.length_map] at this
    rw [← this]; unfold indices; rw [digits2048_length]
  have hV : ValidWith P.sha256 Wordlist.table ws ent := by
    refine ⟨?_, ?_, hm⟩
    · have := hlen; unfold validLength; unfold csBits at hwl; omega
    · have := hlen; unfold csBits at hwl; omega
  have hsj : splitWhitespace (joinWith [' '] ws) = ws :=
    split_join ws (fun w hw => Wordlist.table_no_ws w (hmem w hw))
  refine ⟨joinWith [' '] ws, (toPhrase_spec P ent ws hV).1, ?_, ?_⟩
  · exact fromPhrase_complete P _ ent (by rw [hsj]; exact hV)
  · rw [hsj]; exact hV

end Hdw.Mnemonic
