/-
Helper lemmas for C04 (account: secret key, public key, address, EIP-55 display).
-/
import HdwModel.Model.Account
import HdwModel.Lemmas.Rlp

namespace Hdw

/-! ### `beFixed` -/

theorem beFixed_length (w n : Nat) : (beFixed w n).length = w := by
  induction w generalizing n with
  | zero => simp [beFixed]
  | succ w ih => simp [beFixed, ih]

theorem beVal_beFixed (w n : Nat) : beVal (beFixed w n) = n % 256 ^ w := by
  induction w generalizing n with
  | zero => simp [beFixed, beVal, Nat.mod_one]
  | succ w ih =>
    rw [beFixed, beVal_snoc, ih, UInt8.toNat_ofNat']
    have h : n % 256 % 2 ^ 8 = n % 256 := by omega
    have h2 : (256 : Nat) ^ (w + 1) = 256 * 256 ^ w := by rw [Nat.pow_succ, Nat.mul_comm]
    rw [h, h2, Nat.mod_mul]
    omega

theorem beVal_beFixed_of_lt {w n : Nat} (h : n < 256 ^ w) : beVal (beFixed w n) = n := by
  rw [beVal_beFixed, Nat.mod_eq_of_lt h]

theorem beFixed_beVal : ∀ (w : Nat) (b : Bytes), b.length = w → beFixed w (beVal b) = b
  | 0, b, h => by
    cases b with
    | nil => rfl
    | cons _ _ => simp at h
  | w + 1, b, h => by
    have hne : b ≠ [] := by intro h'; subst h'; simp at h
    have hb := List.dropLast_concat_getLast hne
    generalize b.dropLast = a, b.getLast hne = x at hb
    subst hb
    have hx := x.toNat_lt
    have ha : a.length = w := by simpa using h
    rw [beVal_snoc, beFixed]
    have h1 : (beVal a * 256 + x.toNat) / 256 = beVal a := by omega
    have h2 : (beVal a * 256 + x.toNat) % 256 = x.toNat := by omega
    rw [h1, h2, beFixed_beVal w a ha, UInt8.ofNat_toNat]

theorem pow_256_32 : (256 : Nat) ^ 32 = 2 ^ 256 := by decide +kernel

theorem beVal_beFixed_32 {n : Nat} (h : n < 2 ^ 256) : beVal (beFixed 32 n) = n :=
  beVal_beFixed_of_lt (by rw [pow_256_32]; exact h)

/-! ### hex -/

theorem hexVal?_hexDigit : ∀ n, n < 16 → hexVal? (hexDigit n) = some n := by decide

theorem hexVal?_asciiUpper_hexDigit :
    ∀ n, n < 16 → hexVal? (Account.asciiUpper (hexDigit n)) = some n := by decide

theorem hexEncode_nil : hexEncode [] = [] := rfl

theorem hexEncode_cons (b : UInt8) (bs : Bytes) :
    hexEncode (b :: bs) = hexDigit (b.toNat / 16) :: hexDigit (b.toNat % 16) :: hexEncode bs := by
  simp [hexEncode, hexByte]

theorem hexEncode_length (b : Bytes) : (hexEncode b).length = 2 * b.length := by
  induction b with
  | nil => rfl
  | cons x xs ih => rw [hexEncode_cons]; simp [ih]; omega

theorem hexDecode_cons_cons (a b : Char) (rest : Str) :
    hexDecode (a :: b :: rest) =
      (hexVal? a).bind fun h => (hexVal? b).bind fun l => (hexDecode rest).map fun r =>
        UInt8.ofNat (h * 16 + l) :: r := by
  rw [hexDecode]
  cases hexVal? a <;> cases hexVal? b <;> cases hexDecode rest <;> rfl

theorem hexDecode_hexEncode (b : Bytes) : hexDecode (hexEncode b) = some b := by
  induction b with
  | nil => rfl
  | cons x xs ih =>
    have hx := x.toNat_lt
    rw [hexEncode_cons, hexDecode_cons_cons, ih,
      hexVal?_hexDigit _ (by omega), hexVal?_hexDigit _ (by omega)]
    simp only [Option.bind_some, Option.map_some]
    have : x.toNat / 16 * 16 + x.toNat % 16 = x.toNat := by omega
    rw [this, UInt8.ofNat_toNat]

theorem mem_hexEncode (b : Bytes) : ∀ c ∈ hexEncode b, ∃ n, n < 16 ∧ c = hexDigit n := by
  induction b with
  | nil => intro c h; cases h
  | cons x xs ih =>
    have hx := x.toNat_lt
    intro c h
    rw [hexEncode_cons] at h
    rcases List.mem_cons.1 h with rfl | h
    · exact ⟨_, by omega, rfl⟩
    rcases List.mem_cons.1 h with rfl | h
    · exact ⟨_, by omega, rfl⟩
    · exact ih c h

/-- `hexDecode` only looks at the `hexVal?` of each character -/
theorem hexDecode_congr : ∀ (s s' : Str), s'.length = s.length →
    (∀ i, i < s.length → hexVal? (s'.getD i '0') = hexVal? (s.getD i '0')) →
    hexDecode s' = hexDecode s
  | [], s', hl, _ => by
    cases s' with
    | nil => rfl
    | cons _ _ => simp at hl
  | [_], s', hl, _ => by
    match s', hl with
    | [_], _ => rfl
  | a :: b :: rest, s', hl, h => by
    match s', hl with
    | a' :: b' :: rest', hl =>
      have h0 := h 0 (by simp)
      have h1 := h 1 (by simp)
      simp only [List.getD_cons_zero, List.getD_cons_succ] at h0 h1
      have ih := hexDecode_congr rest rest' (by simpa using hl) (by
        intro i hi
        have := h (i + 2) (by simp; omega)
        simpa only [List.getD_cons_succ] using this)
      rw [hexDecode_cons_cons, hexDecode_cons_cons, h0, h1, ih]

namespace Account
variable {Pt : Type}

/-! ### EIP-55 display -/

/-- the displayed digits after the `0x` prefix -/
def displayBody (P : Prims) (addr : Bytes) : Str :=
  (List.range (hexEncode addr).length).map fun i =>
    if nibbleAt (P.keccak256 ((hexEncode addr).map fun c => UInt8.ofNat c.toNat)) i ≥ 8
    then asciiUpper ((hexEncode addr).getD i '0') else (hexEncode addr).getD i '0'

theorem addressDisplay_eq (P : Prims) (addr : Bytes) :
    addressDisplay P addr = ['0', 'x'] ++ displayBody P addr := rfl

theorem displayBody_length (P : Prims) (addr : Bytes) :
    (displayBody P addr).length = 2 * addr.length := by
  simp [displayBody, hexEncode_length]

theorem displayBody_getD (P : Prims) (addr : Bytes) (i : Nat) (hi : i < (displayBody P addr).length) :
    (displayBody P addr).getD i '0' =
      (if nibbleAt (P.keccak256 ((hexEncode addr).map fun c => UInt8.ofNat c.toNat)) i ≥ 8
       then asciiUpper ((hexEncode addr).getD i '0') else (hexEncode addr).getD i '0') := by
  have hi' : i < (hexEncode addr).length := by
    rw [displayBody_length] at hi; rw [hexEncode_length]; exact hi
  rw [List.getD_eq_getElem?_getD, List.getElem?_eq_getElem hi]
  simp [displayBody]

theorem displayBody_decodes (P : Prims) (addr : Bytes) :
    hexDecode (displayBody P addr) = some addr := by
  rw [← hexDecode_hexEncode addr]
  apply hexDecode_congr
  · rw [displayBody_length, hexEncode_length]
  · intro i hi
    rw [displayBody_getD P addr i (by rw [displayBody_length, ← hexEncode_length]; exact hi)]
    split
    · have hm : (hexEncode addr).getD i '0' ∈ hexEncode addr := by
        rw [List.getD_eq_getElem?_getD, List.getElem?_eq_getElem hi]
        exact List.getElem_mem hi
      obtain ⟨n, hn, hc⟩ := mem_hexEncode addr _ hm
      rw [hc, hexVal?_asciiUpper_hexDigit n hn, hexVal?_hexDigit n hn]
    · rfl

/-! ### `secretFromSlice` -/

theorem secretFromSlice_ok_iff (n : Nat) (b : Bytes) (d : Nat) :
    secretFromSlice n b = .ok d ↔
      (d = beVal b ∧ 0 < d ∧ d < n ∧ 24 ≤ b.length ∧ b.length ≤ 32) := by
  unfold secretFromSlice
  by_cases hl : b.length = 32 ∨ (24 ≤ b.length ∧ b.length < 32)
  · simp only [hl, if_true]
    by_cases h0 : beVal b = 0
    · simp only [h0, if_true]
      constructor
      · intro h; cases h
      · rintro ⟨rfl, h, _⟩; omega
    · simp only [h0, if_false]
      by_cases hn : beVal b < n
      · simp only [hn, if_true]
        constructor
        · intro h; cases h; omega
        · rintro ⟨rfl, _⟩; rfl
      · simp only [hn, if_false]
        constructor
        · intro h; cases h
        · rintro ⟨rfl, _, h, _⟩; omega
  · simp only [hl, if_false]
    constructor
    · intro h; cases h
    · rintro ⟨_, _, _, h1, h2⟩; omega

theorem secretFromSlice_ne_panic (n : Nat) (b : Bytes) (site : String) :
    secretFromSlice n b ≠ .panic site := by
  unfold secretFromSlice
  intro h
  split at h
  · dsimp only at h
    split at h
    · cases h
    · split at h <;> cases h
  · cases h

/-- the three-way case analysis on the result of `secretFromSlice` -/
theorem secretFromSlice_cases (n : Nat) (b : Bytes) :
    (∃ e, secretFromSlice n b = .err e) ∨
    (secretFromSlice n b = .ok (beVal b) ∧ 0 < beVal b ∧ beVal b < n ∧
      24 ≤ b.length ∧ b.length ≤ 32) := by
  cases h : secretFromSlice n b with
  | ok d =>
    right
    have := (secretFromSlice_ok_iff n b d).1 h
    obtain ⟨rfl, h1, h2, h3, h4⟩ := this
    exact ⟨rfl, h1, h2, h3, h4⟩
  | err e => left; exact ⟨e, rfl⟩
  | panic s => exact absurd h (secretFromSlice_ne_panic n b s)

theorem secretFromSlice_err_of_zero (n : Nat) (b : Bytes) (h : beVal b = 0) :
    ∃ e, secretFromSlice n b = .err e := by
  rcases secretFromSlice_cases n b with h' | ⟨_, h', _⟩
  · exact h'
  · omega

theorem secretFromSlice_err_of_ge (n : Nat) (b : Bytes) (h : n ≤ beVal b) :
    ∃ e, secretFromSlice n b = .err e := by
  rcases secretFromSlice_cases n b with h' | ⟨_, _, h', _⟩
  · exact h'
  · omega

/-- for exactly 32 bytes: accepted with the big-endian value, or rejected because the value is
zero or not below `n` -/
theorem secretFromSlice_32 (n : Nat) (b : Bytes) (hb : b.length = 32) :
    (secretFromSlice n b = .ok (beVal b) ∧ 0 < beVal b ∧ beVal b < n) ∨
    ((∃ e, secretFromSlice n b = .err e) ∧ (beVal b = 0 ∨ n ≤ beVal b)) := by
  by_cases h0 : beVal b = 0
  · exact .inr ⟨secretFromSlice_err_of_zero n b h0, .inl h0⟩
  · by_cases hn : beVal b < n
    · exact .inl ⟨(secretFromSlice_ok_iff n b _).2 ⟨rfl, by omega, hn, by omega, by omega⟩,
        by omega, hn⟩
    · exact .inr ⟨secretFromSlice_err_of_ge n b (by omega), .inr (by omega)⟩

theorem secretFromSlice_ok_of_32 (n : Nat) (b : Bytes) (hb : b.length = 32)
    (h0 : 0 < beVal b) (hn : beVal b < n) : secretFromSlice n b = .ok (beVal b) :=
  (secretFromSlice_ok_iff n b _).2 ⟨rfl, h0, hn, by omega, by omega⟩

end Account
end Hdw
