/-
Helper lemmas for C02 (`Mnemonic.seed`, NFKD over an abstract table, PBKDF2 output length).
-/
import HdwModel.Model.Mnemonic
import HdwModel.Model.Nfkd
import HdwModel.Lemmas.Mnemonic

namespace Hdw.NfkdTable
variable (T : NfkdTable)

/-- a starter never moves -/
theorem insertCO_starter (c : Char) (h : T.ccc c = 0) (l : List Char) :
    T.insertCO c l = c :: l := by
  cases l with
  | nil => rfl
  | cons d ds => simp [insertCO, h]

theorem canonicalOrder_cons (c : Char) (s : List Char) :
    T.canonicalOrder (c :: s) = T.insertCO c (T.canonicalOrder s) := rfl

theorem canonicalOrder_starters_append (a x : List Char) (ha : ∀ c ∈ a, T.ccc c = 0) :
    T.canonicalOrder (a ++ x) = a ++ T.canonicalOrder x := by
  induction a with
  | nil => rfl
  | cons c a ih =>
    rw [List.cons_append, canonicalOrder_cons, ih (fun d hd => ha d (by simp [hd])),
      insertCO_starter T c (ha c (by simp)), List.cons_append]

theorem flatMap_decomp_self (a : List Char) (ha : ∀ c ∈ a, T.decomp c = [c]) :
    a.flatMap T.decomp = a := by
  induction a with
  | nil => rfl
  | cons c a ih =>
    rw [List.flatMap_cons, ha c (by simp), ih (fun d hd => ha d (by simp [hd]))]
    rfl

theorem nfkd_ascii_append
    (hT : ∀ c : Char, c.toNat < 128 → T.decomp c = [c] ∧ T.ccc c = 0)
    (a b : Str) (ha : ∀ c ∈ a, c.toNat < 128) :
    T.nfkd (a ++ b) = a ++ T.nfkd b := by
  unfold nfkd
  rw [List.flatMap_append, flatMap_decomp_self T a (fun c hc => (hT c (ha c hc)).1),
    canonicalOrder_starters_append T a _ (fun c hc => (hT c (ha c hc)).2)]

theorem nfkd_ascii_self
    (hT : ∀ c : Char, c.toNat < 128 → T.decomp c = [c] ∧ T.ccc c = 0)
    (a : Str) (ha : ∀ c ∈ a, c.toNat < 128) : T.nfkd a = a := by
  have := nfkd_ascii_append T hT a [] ha
  rw [List.append_nil] at this
  rw [this]
  show a ++ [] = a
  rw [List.append_nil]

theorem nfkd_mnemonic_append
    (hT : ∀ c : Char, c.toNat < 128 → T.decomp c = [c] ∧ T.ccc c = 0) (pw : Str) :
    T.nfkd (chars! "mnemonic" ++ pw) = chars! "mnemonic" ++ T.nfkd pw :=
  nfkd_ascii_append T hT _ pw (by decide)

end Hdw.NfkdTable

namespace Hdw.Prim

theorem xorBytes_length (a b : Bytes) : (xorBytes a b).length = min a.length b.length := by
  unfold xorBytes
  rw [List.length_zipWith]

theorem pbkdf2Loop_length (prf : Bytes → Bytes) (L : Nat) (hprf : ∀ u, (prf u).length = L) :
    ∀ (n : Nat) (u acc : Bytes), acc.length = L → (pbkdf2Loop prf n u acc).length = L
  | 0, _, _, h => h
  | n + 1, u, acc, h => by
    rw [pbkdf2Loop]
    apply pbkdf2Loop_length prf L hprf n
    rw [xorBytes_length, h, hprf]
    exact Nat.min_self L

theorem pbkdf2Block_length (prf : Bytes → Bytes → Bytes) (L : Nat)
    (hprf : ∀ k m, (prf k m).length = L) (pw salt : Bytes) (rounds i : Nat) :
    (pbkdf2Block prf pw salt rounds i).length = L := by
  unfold pbkdf2Block
  exact pbkdf2Loop_length (prf pw) L (hprf pw) _ _ _ (hprf _ _)

/-- one block of a 64-byte PRF gives exactly 64 bytes -/
theorem pbkdf2_length_64 (prf : Bytes → Bytes → Bytes) (hprf : ∀ k m, (prf k m).length = 64)
    (pw salt : Bytes) (rounds : Nat) : (pbkdf2 prf 64 pw salt rounds 64).length = 64 := by
  unfold pbkdf2
  have hr : List.range ((64 + 64 - 1) / 64) = [0] := by decide
  simp only [hr, List.map_cons, List.map_nil, List.flatten_cons, List.flatten_nil,
    List.append_nil, List.length_take, pbkdf2Block_length prf 64 hprf]
  rfl

theorem hmac_length (hash : Bytes → Bytes) (L : Nat) (hh : ∀ b, (hash b).length = L)
    (bs : Nat) (k m : Bytes) : (hmac hash bs k m).length = L := hh _

end Hdw.Prim

namespace Hdw.Mnemonic
open Hdw Hdw.Spec.Bip39

theorem seed_of_phrase (P : Prims) (nfkd : Str → Str) (m : Mnemonic) (pw phrase : Str)
    (hph : toPhrase m = .ok phrase) :
    seed P nfkd m pw = .ok (Prim.pbkdf2 (Prim.hmac P.sha512 128) 64 (Utf8.encode phrase)
      (Utf8.encode (nfkd (chars! "mnemonic" ++ pw))) 2048 64) := by
  unfold seed
  rw [hph]
  rfl

theorem seed_eq (P : Prims) (T : NfkdTable)
    (hT : ∀ c : Char, c.toNat < 128 → T.decomp c = [c] ∧ T.ccc c = 0)
    (m : Mnemonic) (pw phrase : Str) (hph : toPhrase m = .ok phrase) :
    seed P T.nfkd m pw = .ok (Prim.pbkdf2 (Prim.hmac P.sha512 128) 64 (Utf8.encode phrase)
      (Utf8.encode (chars! "mnemonic" ++ T.nfkd pw)) 2048 64) := by
  rw [seed_of_phrase P T.nfkd m pw phrase hph, NfkdTable.nfkd_mnemonic_append T hT]

theorem toPhrase_of_parsed (P : Prims) (s : Str) (m : Mnemonic) (h : fromPhrase P s = .ok m) :
    toPhrase m = .ok (joinWith [' '] (splitWhitespace s)) := by
  obtain ⟨ent, hv, rfl⟩ := fromPhrase_sound P s m h
  exact (toPhrase_spec P ent _ hv).1

theorem fromPhrase_layout (P : Prims) (s₁ s₂ : Str) (h : splitWhitespace s₁ = splitWhitespace s₂) :
    fromPhrase P s₁ = fromPhrase P s₂ := by
  simp only [fromPhrase, h]

theorem seed_congr_nfkd (P : Prims) (nfkd : Str → Str) (m : Mnemonic) (p₁ p₂ : Str)
    (h : nfkd (chars! "mnemonic" ++ p₁) = nfkd (chars! "mnemonic" ++ p₂)) :
    seed P nfkd m p₁ = seed P nfkd m p₂ := by
  unfold seed
  rw [h]

theorem seed_length (P : Prims) (hP : ∀ b, (P.sha512 b).length = 64) (nfkd : Str → Str)
    (m : Mnemonic) (pw : Str) (s : Bytes) (h : seed P nfkd m pw = .ok s) : s.length = 64 := by
  cases hp : toPhrase m with
  | err e => unfold seed at h; rw [hp] at h; cases h
  | panic e => unfold seed at h; rw [hp] at h; cases h
  | ok ph =>
    rw [seed_of_phrase P nfkd m pw ph hp] at h
    rw [← Res.ok.inj h]
    exact Prim.pbkdf2_length_64 _ (fun k m => Prim.hmac_length P.sha512 64 hP 128 k m) _ _ _

end Hdw.Mnemonic
