/-
Facts about hexadecimal text (`hexDigit`, `hexVal?`, `hexEncode`, `hexDecode`), ASCII UTF-8
and `permissiveHex`.
-/
import HdwModel.Model.Hex
import HdwModel.Model.Text
import HdwModel.Model.Utf8
import HdwModel.Model.CliHex

namespace Hdw

/-! ### characters -/

theorem char_toNat_ofNat_of_lt {n : Nat} (h : n < 0xd800) : (Char.ofNat n).toNat = n := by
  have hv : n.isValidChar := Or.inl h
  rw [Char.ofNat, dif_pos hv]
  rfl

theorem toLower_toNat (c : Char) :
    c.toLower.toNat = if 65 ≤ c.toNat ∧ c.toNat ≤ 90 then c.toNat + 32 else c.toNat := by
  simp only [Char.toLower]
  split
  · next h =>
    simp only [UInt32.le_iff_toNat_le, ge_iff_le, seval, Char.toNat_val] at h
    rw [if_pos h]
    simp only [Char.toNat_mk, UInt32.toNat_add, seval, Char.toNat_val]
    omega
  · next h =>
    simp only [UInt32.le_iff_toNat_le, ge_iff_le, seval, Char.toNat_val] at h
    rw [if_neg h]

theorem char_le_iff (a b : Char) : a ≤ b ↔ a.toNat ≤ b.toNat := by
  rw [Char.le_def, UInt32.le_iff_toNat_le]; rfl

/-! ### hex digits -/

theorem hexDigit_toNat {n : Nat} (h : n < 16) :
    (hexDigit n).toNat = if n < 10 then 48 + n else 87 + n := by
  unfold hexDigit
  split
  · exact char_toNat_ofNat_of_lt (by omega)
  · exact char_toNat_ofNat_of_lt (by omega)

/-- the characters `hexDigit` produces: `0-9` and `a-f` -/
def isLowerHex (c : Char) : Prop :=
  (48 ≤ c.toNat ∧ c.toNat ≤ 57) ∨ (97 ≤ c.toNat ∧ c.toNat ≤ 102)

theorem hexDigit_isLowerHex {n : Nat} (h : n < 16) : isLowerHex (hexDigit n) := by
  unfold isLowerHex
  rw [hexDigit_toNat h]
  split <;> omega

theorem hexVal_hexDigit {n : Nat} (h : n < 16) : hexVal? (hexDigit n) = some n := by
  unfold hexVal?
  simp only [hexDigit_toNat h]
  split
  · rw [if_pos (by omega)]; congr 1; omega
  · rw [if_neg (by omega), if_pos (by omega)]; congr 1; omega

theorem hexVal_isSome_iff (c : Char) :
    (hexVal? c).isSome ↔ ((48 ≤ c.toNat ∧ c.toNat ≤ 57) ∨ (97 ≤ c.toNat ∧ c.toNat ≤ 102) ∨
      (65 ≤ c.toNat ∧ c.toNat ≤ 70)) := by
  unfold hexVal?
  simp only
  split
  · simp; omega
  · split
    · simp; omega
    · split
      · simp; omega
      · simp; omega

theorem hexVal_lt {c : Char} {n : Nat} (h : hexVal? c = some n) : n < 16 := by
  unfold hexVal? at h
  simp only at h
  split at h
  · injection h; omega
  · split at h
    · injection h; omega
    · split at h
      · injection h; omega
      · cases h

theorem hexVal_none_iff (c : Char) : hexVal? c = none ↔ ¬ (hexVal? c).isSome := by
  cases hexVal? c <;> simp

theorem isLowerHex_hexVal {c : Char} (h : isLowerHex c) : (hexVal? c).isSome := by
  rw [hexVal_isSome_iff]; unfold isLowerHex at h; omega

/-- the value of a hex digit does not depend on its case -/
theorem hexVal_toLower {c : Char} (h : (hexVal? c).isSome) : hexVal? c.toLower = hexVal? c := by
  rw [hexVal_isSome_iff] at h
  unfold hexVal?
  simp only [toLower_toNat]
  by_cases hu : 65 ≤ c.toNat ∧ c.toNat ≤ 90
  · rw [if_pos hu]
    rw [if_neg (by omega), if_pos (by omega), if_neg (by omega), if_neg (by omega), if_pos (by omega)]
    exact congrArg some (by omega)
  · rw [if_neg hu]

theorem hexVal_eq_of_toLower {c d : Char} (hc : (hexVal? c).isSome) (hd : (hexVal? d).isSome)
    (h : c.toLower = d.toLower) : hexVal? c = hexVal? d := by
  rw [← hexVal_toLower hc, ← hexVal_toLower hd, h]

/-- a digit and the lower-case digit of its value agree up to case -/
theorem hexDigit_toLower_of_val {c : Char} {n : Nat} (h : hexVal? c = some n) :
    (hexDigit n).toLower = c.toLower := by
  have hn := hexVal_lt h
  apply Char.toNat_inj.mp
  rw [toLower_toNat, toLower_toNat, hexDigit_toNat hn]
  unfold hexVal? at h
  simp only at h
  split at h
  · injection h; split <;> split <;> split <;> omega
  · split at h
    · injection h; split <;> split <;> split <;> omega
    · split at h
      · injection h; split <;> split <;> split <;> omega
      · cases h

theorem isLowerHex_not_ws {c : Char} (h : isLowerHex c) : isWhitespace c = false := by
  unfold isLowerHex at h
  unfold isWhitespace
  simp only [Bool.or_eq_false_iff, Bool.and_eq_false_iff, decide_eq_false_iff_not, beq_eq_false_iff_ne]
  omega

theorem isLowerHex_ascii {c : Char} (h : isLowerHex c) : c.toNat < 128 := by
  unfold isLowerHex at h; omega

theorem isLowerHex_range {c : Char} (h : isLowerHex c) : c.isDigit ∨ ('a' ≤ c ∧ c ≤ 'f') := by
  unfold isLowerHex at h
  rw [Char.isDigit_iff_toNat, char_le_iff, char_le_iff]
  simpa using h

theorem hexVal_not_ws {c : Char} (h : (hexVal? c).isSome) : isWhitespace c = false := by
  rw [hexVal_isSome_iff] at h
  unfold isWhitespace
  simp only [Bool.or_eq_false_iff, Bool.and_eq_false_iff, decide_eq_false_iff_not, beq_eq_false_iff_ne]
  omega

theorem hexVal_ne_x {c : Char} (h : (hexVal? c).isSome) : c ≠ 'x' := by
  intro hc; subst hc; revert h; decide

/-! ### `hexEncode` / `hexDecode` -/

theorem list_ind2 {α} {P : List α → Prop} (hnil : P []) (hone : ∀ a, P [a])
    (hcons : ∀ a b r, P r → P (a :: b :: r)) : ∀ l, P l := by
  have : ∀ l, P l ∧ ∀ a, P (a :: l) := by
    intro l
    induction l with
    | nil => exact ⟨hnil, hone⟩
    | cons b r ih => exact ⟨ih.2 b, fun a => hcons a b r ih.1⟩
  exact fun l => (this l).1

theorem hexEncode_nil : hexEncode [] = [] := rfl

theorem hexEncode_cons (x : UInt8) (b : Bytes) :
    hexEncode (x :: b) = hexDigit (x.toNat / 16) :: hexDigit (x.toNat % 16) :: hexEncode b := by
  simp [hexEncode, hexByte]

theorem hexEncode_append (a b : Bytes) : hexEncode (a ++ b) = hexEncode a ++ hexEncode b := by
  simp [hexEncode]

theorem hexEncode_length (b : Bytes) : (hexEncode b).length = 2 * b.length := by
  induction b with
  | nil => rfl
  | cons x b ih => rw [hexEncode_cons]; simp [ih]; omega

theorem hexEncode_isLowerHex (b : Bytes) : ∀ c ∈ hexEncode b, isLowerHex c := by
  induction b with
  | nil => intro c hc; cases hc
  | cons x b ih =>
    have hx := x.toNat_lt
    intro c hc
    rw [hexEncode_cons] at hc
    simp only [List.mem_cons] at hc
    rcases hc with rfl | rfl | hc
    · exact hexDigit_isLowerHex (by omega)
    · exact hexDigit_isLowerHex (by omega)
    · exact ih c hc

theorem hexDecode_cons2 (a b : Char) (rest : Str) :
    hexDecode (a :: b :: rest) =
      (hexVal? a).bind fun h => (hexVal? b).bind fun l => (hexDecode rest).map fun r =>
        UInt8.ofNat (h * 16 + l) :: r := by
  rw [hexDecode]
  cases hexVal? a <;> cases hexVal? b <;> cases hexDecode rest <;> rfl

theorem hexDecode_cons2_some {a b : Char} {rest : Str} {h l : Nat} {r : Bytes}
    (ha : hexVal? a = some h) (hb : hexVal? b = some l) (hr : hexDecode rest = some r) :
    hexDecode (a :: b :: rest) = some (UInt8.ofNat (h * 16 + l) :: r) := by
  rw [hexDecode_cons2, ha, hb, hr]; rfl

/-- inversion of a successful two-digit step -/
theorem hexDecode_cons2_inv {a b : Char} {rest : Str} {bs : Bytes}
    (h : hexDecode (a :: b :: rest) = some bs) :
    ∃ hi lo r, hexVal? a = some hi ∧ hexVal? b = some lo ∧ hexDecode rest = some r ∧
      bs = UInt8.ofNat (hi * 16 + lo) :: r := by
  rw [hexDecode_cons2] at h
  cases ha : hexVal? a with
  | none => rw [ha] at h; cases h
  | some hi =>
    cases hb : hexVal? b with
    | none => rw [ha, hb] at h; cases h
    | some lo =>
      cases hr : hexDecode rest with
      | none => rw [ha, hb, hr] at h; cases h
      | some r =>
        rw [ha, hb, hr] at h
        exact ⟨hi, lo, r, rfl, rfl, rfl, (Option.some.inj h).symm⟩

theorem hexDecode_hexEncode (b : Bytes) : hexDecode (hexEncode b) = some b := by
  induction b with
  | nil => rfl
  | cons x b ih =>
    have hx := x.toNat_lt
    rw [hexEncode_cons,
      hexDecode_cons2_some (hexVal_hexDigit (by omega)) (hexVal_hexDigit (by omega)) ih]
    have : x.toNat / 16 * 16 + x.toNat % 16 = x.toNat := by omega
    rw [this, UInt8.ofNat_toNat]

theorem hexDecode_length {s : Str} : ∀ {b : Bytes}, hexDecode s = some b → s.length = 2 * b.length := by
  induction s using list_ind2 with
  | hnil => intro b h; simp [hexDecode] at h; subst h; rfl
  | hone a => intro b h; simp [hexDecode] at h
  | hcons a c r ih =>
    intro b h
    obtain ⟨hi, lo, r', _, _, hr, rfl⟩ := hexDecode_cons2_inv h
    simp [ih hr]; omega

theorem hexDecode_isHex {s : Str} :
    ∀ {b : Bytes}, hexDecode s = some b → ∀ c ∈ s, (hexVal? c).isSome := by
  induction s using list_ind2 with
  | hnil => intro b h c hc; cases hc
  | hone a => intro b h; simp [hexDecode] at h
  | hcons a c r ih =>
    intro b h d hd
    obtain ⟨hi, lo, r', ha, hc, hr, rfl⟩ := hexDecode_cons2_inv h
    simp only [List.mem_cons] at hd
    rcases hd with rfl | rfl | hd
    · simp [ha]
    · simp [hc]
    · exact ih hr d hd

/-- the decoded bytes, re-encoded, are the digits up to case -/
theorem hexDecode_encode_toLower {s : Str} :
    ∀ {b : Bytes}, hexDecode s = some b →
      (hexEncode b).map Char.toLower = s.map Char.toLower := by
  induction s using list_ind2 with
  | hnil => intro b h; simp [hexDecode] at h; subst h; rfl
  | hone a => intro b h; simp [hexDecode] at h
  | hcons a c r ih =>
    intro b h
    obtain ⟨hi, lo, r', ha, hc, hr, rfl⟩ := hexDecode_cons2_inv h
    have h1 := hexVal_lt ha
    have h2 := hexVal_lt hc
    rw [hexEncode_cons]
    have e : (UInt8.ofNat (hi * 16 + lo)).toNat = hi * 16 + lo := by
      rw [UInt8.toNat_ofNat']; omega
    have e1 : (hi * 16 + lo) / 16 = hi := by omega
    have e2 : (hi * 16 + lo) % 16 = lo := by omega
    simp only [e, e1, e2, List.map_cons, ih hr, hexDigit_toLower_of_val ha,
      hexDigit_toLower_of_val hc]

/-- decoding depends on the digits only up to case -/
theorem hexDecode_congr_toLower {s : Str} : ∀ {t : Str},
    s.map Char.toLower = t.map Char.toLower → (∀ c ∈ s, (hexVal? c).isSome) →
    (∀ c ∈ t, (hexVal? c).isSome) → hexDecode s = hexDecode t := by
  induction s using list_ind2 with
  | hnil => intro t h _ _; simp at h; subst h; rfl
  | hone a =>
    intro t h _ _
    cases t with
    | nil => simp at h
    | cons a' t =>
      cases t with
      | nil => simp [hexDecode]
      | cons _ _ => simp at h
  | hcons a c r ih =>
    intro t h hs ht
    cases t with
    | nil => simp at h
    | cons a' t =>
      cases t with
      | nil => simp at h
      | cons c' r' =>
        simp only [List.map_cons, List.cons.injEq] at h
        have ea := hexVal_eq_of_toLower (hs a (by simp)) (ht a' (by simp)) h.1
        have ec := hexVal_eq_of_toLower (hs c (by simp)) (ht c' (by simp)) h.2.1
        have er := ih h.2.2 (fun x hx => hs x (by simp [hx])) (fun x hx => ht x (by simp [hx]))
        rw [hexDecode_cons2, hexDecode_cons2, ea, ec, er]

theorem hexDecode_odd {s : Str} (h : s.length % 2 = 1) : hexDecode s = none := by
  cases hd : hexDecode s with
  | none => rfl
  | some b => have := hexDecode_length hd; omega

theorem hexDecode_nonhex {s : Str} (h : ∃ c ∈ s, hexVal? c = none) : hexDecode s = none := by
  cases hd : hexDecode s with
  | none => rfl
  | some b =>
    obtain ⟨c, hc, hn⟩ := h
    have := hexDecode_isHex hd c hc
    simp [hn] at this

/-! ### `stripPrefix ['0','x']` -/

theorem stripPrefix_0x_cons (s : Str) : stripPrefix ['0', 'x'] ('0' :: 'x' :: s) = some s := by
  simp [stripPrefix]

theorem stripPrefix_0x_inv {s r : Str} (h : stripPrefix ['0', 'x'] s = some r) :
    s = ['0', 'x'] ++ r := by
  cases s with
  | nil => simp [stripPrefix] at h
  | cons a s =>
    cases s with
    | nil =>
      simp only [stripPrefix] at h
      split at h <;> cases h
    | cons b s =>
      simp only [stripPrefix] at h
      split at h
      · split at h
        · next h1 h2 => injection h with h; subst h1 h2 h; rfl
        · cases h
      · cases h

/-- a string of hex digits does not start with `0x` -/
theorem stripPrefix_0x_hex {s : Str} (h : ∀ c ∈ s, (hexVal? c).isSome) :
    stripPrefix ['0', 'x'] s = none := by
  cases hs : stripPrefix ['0', 'x'] s with
  | none => rfl
  | some r =>
    have := stripPrefix_0x_inv hs
    subst this
    exact absurd rfl (hexVal_ne_x (h 'x' (by simp)))

/-! ### UTF-8 of ASCII text -/

/-! One step of the decoder on an ASCII byte.  `decodeAux` is too large for Lean to generate its
equation lemmas within the default recursion depth, and unfolding it by `show`/`rfl` costs the
kernel ~15 s, so the step is derived from the compiled form (`Nat.brecOn` over the functional
`decodeAux._f`), keeping the `below` argument abstract. -/

theorem brecOn_succ_apply {α β : Type} (F : ∀ t, Nat.below (motive := fun _ => α → β) t → α → β)
    (n : Nat) (a : α) :
    Nat.brecOn (motive := fun _ => α → β) (n + 1) F a =
      F (n + 1) (Nat.brecOn.go (n + 1) F).2 a := rfl

theorem brecOn_go_succ {α β : Type} (F : ∀ t, Nat.below (motive := fun _ => α → β) t → α → β)
    (n : Nat) (a : α) :
    (Nat.brecOn.go (motive := fun _ => α → β) (n + 1) F).2.1 a =
      Nat.brecOn (motive := fun _ => α → β) n F a := rfl

theorem utf8_decodeAux_eq_brecOn (fuel : Nat) (bs : Bytes) :
    Utf8.decodeAux fuel bs =
      Nat.brecOn (motive := fun _ => Bytes → Option Str) fuel Utf8.decodeAux._f bs := by
  delta Utf8.decodeAux
  exact Eq.refl _

theorem match_eq_bind (m : Option Char) (t : Option Str) :
    (match m, t with
      | some c, some cs => some (c :: cs)
      | _, _ => none) = m.bind fun c => t.map (c :: ·) := by
  cases m <;> cases t <;> rfl

theorem utf8_decodeAux_f_ascii (fuel : Nat)
    (x : Nat.below (motive := fun _ => Bytes → Option Str) (fuel + 1))
    (b0 : UInt8) (rest : Bytes) (h : b0.toNat < 0x80) :
    Utf8.decodeAux._f (fuel + 1) x (b0 :: rest) =
      (Utf8.mkChar? b0.toNat).bind fun c => (x.1 rest).map (c :: ·) := by
  unfold Utf8.decodeAux._f
  simp only [if_pos h]
  exact match_eq_bind _ _

theorem utf8_decodeAux_ascii_step (fuel : Nat) (b0 : UInt8) (rest : Bytes) (h : b0.toNat < 0x80) :
    Utf8.decodeAux (fuel + 1) (b0 :: rest) =
      (Utf8.mkChar? b0.toNat).bind fun c => (Utf8.decodeAux fuel rest).map (c :: ·) := by
  rw [utf8_decodeAux_eq_brecOn, utf8_decodeAux_eq_brecOn, brecOn_succ_apply,
    utf8_decodeAux_f_ascii _ _ _ _ h, brecOn_go_succ]

theorem utf8_decodeAux_ascii (s : Str) (hs : ∀ c ∈ s, c.toNat < 128) :
    ∀ fuel, s.length ≤ fuel → Utf8.decodeAux fuel (Utf8.encode s) = some s := by
  induction s with
  | nil => intro fuel _; cases fuel <;> rfl
  | cons c s ih =>
    intro fuel hf
    cases fuel with
    | zero => rw [List.length_cons] at hf; omega
    | succ fuel =>
      have hc : c.toNat < 128 := hs c (by simp)
      have henc : Utf8.encode (c :: s) = UInt8.ofNat c.toNat :: Utf8.encode s := by
        simp [Utf8.encode, Utf8.encodeChar, hc]
      have hn : (UInt8.ofNat c.toNat).toNat = c.toNat := by
        rw [UInt8.toNat_ofNat']; omega
      have hmk : Utf8.mkChar? c.toNat = some c := by
        unfold Utf8.mkChar?
        rw [if_pos (Or.inl (by omega)), Char.ofNat_toNat]
      rw [henc, utf8_decodeAux_ascii_step fuel _ _ (by rw [hn]; exact hc), hn, hmk,
        ih (fun x hx => hs x (by simp [hx])) fuel (by rw [List.length_cons] at hf; omega)]
      rfl

theorem utf8_encode_length_ascii (s : Str) (hs : ∀ c ∈ s, c.toNat < 128) :
    (Utf8.encode s).length = s.length := by
  induction s with
  | nil => rfl
  | cons c s ih =>
    have hc : c.toNat < 128 := hs c (by simp)
    have henc : Utf8.encode (c :: s) = UInt8.ofNat c.toNat :: Utf8.encode s := by
      simp [Utf8.encode, Utf8.encodeChar, hc]
    rw [henc]; simp [ih (fun x hx => hs x (by simp [hx]))]

theorem utf8_decode_encode_ascii (s : Str) (hs : ∀ c ∈ s, c.toNat < 128) :
    Utf8.decode? (Utf8.encode s) = some s := by
  unfold Utf8.decode?
  exact utf8_decodeAux_ascii s hs _ (by rw [utf8_encode_length_ascii s hs]; exact Nat.le_refl _)

/-! ### `permissiveHex` -/

namespace Cli

/-- the digits `permissiveHex` hands to `hex::decode` -/
def hexDigitsOf (s : Str) : Str :=
  let t := s.filter (fun c => !isWhitespace c)
  match stripPrefix ['0', 'x'] t with | some r => r | none => t

theorem permissiveHex_eq (s : Str) :
    permissiveHex s = match hexDecode (hexDigitsOf s) with
      | some b => .ok b
      | none => .err "invalid hex" := rfl

theorem permissiveHex_ok {s : Str} {b : Bytes} (h : hexDecode (hexDigitsOf s) = some b) :
    permissiveHex s = .ok b := by
  rw [permissiveHex_eq, h]

theorem permissiveHex_err {s : Str} (h : hexDecode (hexDigitsOf s) = none) :
    ∃ e, permissiveHex s = .err e := by
  rw [permissiveHex_eq, h]; exact ⟨_, rfl⟩

theorem permissiveHex_ok_inv {s : Str} {b : Bytes} (h : permissiveHex s = .ok b) :
    hexDecode (hexDigitsOf s) = some b := by
  rw [permissiveHex_eq] at h
  cases hd : hexDecode (hexDigitsOf s) with
  | none => rw [hd] at h; cases h
  | some b' => rw [hd] at h; injection h with h; rw [h]

theorem permissiveHex_ne_panic (s : Str) (site : String) : permissiveHex s ≠ .panic site := by
  rw [permissiveHex_eq]
  cases hexDecode (hexDigitsOf s) <;> simp

theorem filter_not_ws_self {s : Str} (h : ∀ c ∈ s, isWhitespace c = false) :
    s.filter (fun c => !isWhitespace c) = s := by
  rw [List.filter_eq_self]
  intro c hc; simp [h c hc]

/-- the text `hex encode` prints -/
theorem hexDigitsOf_encodeOutput (b : Bytes) :
    hexDigitsOf ('0' :: 'x' :: hexEncode b ++ ['\n']) = hexEncode b := by
  have hws : ∀ c ∈ hexEncode b, isWhitespace c = false :=
    fun c hc => isLowerHex_not_ws (hexEncode_isLowerHex b c hc)
  have hf : ('0' :: 'x' :: hexEncode b ++ ['\n']).filter (fun c => !isWhitespace c) =
      '0' :: 'x' :: hexEncode b := by
    have e : '0' :: 'x' :: hexEncode b ++ ['\n'] = ['0', 'x'] ++ (hexEncode b ++ ['\n']) := rfl
    have e1 : ['0', 'x'].filter (fun c => !isWhitespace c) = ['0', 'x'] := by decide
    have e2 : ['\n'].filter (fun c => !isWhitespace c) = [] := by decide
    rw [e, List.filter_append, List.filter_append, filter_not_ws_self hws, e1, e2]
    simp
  unfold hexDigitsOf
  simp only [hf, stripPrefix_0x_cons]

theorem encodeOutput_ascii (b : Bytes) :
    ∀ c ∈ '0' :: 'x' :: hexEncode b ++ ['\n'], c.toNat < 128 := by
  intro c hc
  simp only [List.mem_cons, List.mem_append, List.not_mem_nil, or_false] at hc
  rcases hc with (rfl | rfl | hc) | rfl
  · decide
  · decide
  · exact isLowerHex_ascii (hexEncode_isLowerHex b c hc)
  · decide

theorem hexDecodeCmd_hexEncodeCmd (b : Bytes) : hexDecodeCmd (hexEncodeCmd b) = .ok b := by
  unfold hexDecodeCmd hexEncodeCmd
  rw [utf8_decode_encode_ascii _ (encodeOutput_ascii b)]
  exact permissiveHex_ok (by rw [hexDigitsOf_encodeOutput]; exact hexDecode_hexEncode b)

/-- digits handed to the decoder for a filtered text with or without the `0x` prefix -/
theorem hexDigitsOf_layout {s cased : Str} {pre : Bool} (hhex : ∀ c ∈ cased, (hexVal? c).isSome)
    (hs : s.filter (fun c => !isWhitespace c) = (if pre then ['0', 'x'] ++ cased else cased)) :
    hexDigitsOf s = cased := by
  unfold hexDigitsOf
  simp only [hs]
  cases pre with
  | true =>
    have : (['0', 'x'] ++ cased) = '0' :: 'x' :: cased := rfl
    simp only [if_true, this, stripPrefix_0x_cons]
  | false =>
    simp [stripPrefix_0x_hex hhex]

theorem hexDecodeCmd_ne_panic (data : Bytes) (site : String) : hexDecodeCmd data ≠ .panic site := by
  unfold hexDecodeCmd
  cases Utf8.decode? data with
  | none => simp
  | some s => exact permissiveHex_ne_panic s site

end Cli

end Hdw
