/-
Facts about fixed-width big-endian bytes and the signature text form (`Sig.print` / `Sig.parse`).
-/
import HdwModel.Model.Signature
import HdwModel.Lemmas.Hex

namespace Hdw

/-! ### `beVal` / `beFixed` -/

theorem beVal_append (a b : Bytes) : beVal (a ++ b) = beVal a * 256 ^ b.length + beVal b := by
  induction a with
  | nil => simp [beVal]
  | cons x a ih =>
    simp only [List.cons_append, beVal, ih, List.length_append, Nat.pow_add]
    rw [Nat.add_mul, Nat.mul_assoc, Nat.add_assoc]

theorem beVal_snoc (a : Bytes) (x : UInt8) : beVal (a ++ [x]) = beVal a * 256 + x.toNat := by
  rw [beVal_append]; simp [beVal]

theorem beVal_lt (b : Bytes) : beVal b < 256 ^ b.length := by
  induction b with
  | nil => simp [beVal]
  | cons x b ih =>
    have hx := x.toNat_lt
    simp only [beVal, List.length_cons, Nat.pow_succ]
    have : x.toNat * 256 ^ b.length ≤ 255 * 256 ^ b.length := Nat.mul_le_mul_right _ (by omega)
    omega

theorem beFixed_length (w n : Nat) : (beFixed w n).length = w := by
  induction w generalizing n with
  | zero => rfl
  | succ w ih => simp [beFixed, ih]

theorem beVal_beFixed (w n : Nat) : beVal (beFixed w n) = n % 256 ^ w := by
  induction w generalizing n with
  | zero => simp [beFixed, beVal, Nat.mod_one]
  | succ w ih =>
    rw [beFixed, beVal_snoc, ih, UInt8.toNat_ofNat']
    have h1 : n % 256 % 2 ^ 8 = n % 256 := by omega
    rw [h1, Nat.pow_succ, Nat.mul_comm (256 ^ w) 256, Nat.mod_mul]
    omega

theorem beVal_beFixed_of_lt {w n : Nat} (h : n < 256 ^ w) : beVal (beFixed w n) = n := by
  rw [beVal_beFixed, Nat.mod_eq_of_lt h]

theorem list_snoc_of_length_succ {α} {l : List α} {w : Nat} (h : l.length = w + 1) :
    ∃ l' a, l = l' ++ [a] ∧ l'.length = w := by
  refine ⟨l.dropLast, l.getLast (by intro h0; subst h0; simp at h), ?_, ?_⟩
  · exact (List.dropLast_concat_getLast _).symm
  · simp [h]

theorem beFixed_beVal {w : Nat} : ∀ {b : Bytes}, b.length = w → beFixed w (beVal b) = b := by
  induction w with
  | zero => intro b h; rw [List.length_eq_zero_iff.mp h]; rfl
  | succ w ih =>
    intro b h
    obtain ⟨b', x, rfl, hb'⟩ := list_snoc_of_length_succ h
    have hx := x.toNat_lt
    rw [beVal_snoc, beFixed]
    have h1 : (beVal b' * 256 + x.toNat) / 256 = beVal b' := by omega
    have h2 : (beVal b' * 256 + x.toNat) % 256 = x.toNat := by omega
    rw [h1, h2, ih hb', UInt8.ofNat_toNat]

theorem secpN_lt : secpN < 256 ^ 32 := by decide

/-! ### `hexDecodeExact` -/

theorem hexDecodeExact_eq_some {n : Nat} {s : Str} {b : Bytes} :
    hexDecodeExact n s = some b ↔ hexDecode s = some b ∧ b.length = n := by
  unfold hexDecodeExact
  cases hd : hexDecode s with
  | none => simp
  | some b' =>
    simp only [Option.some.injEq]
    constructor
    · intro h
      split at h
      · next hl => injection h with h; subst h; exact ⟨rfl, hl⟩
      · cases h
    · rintro ⟨rfl, hl⟩; rw [if_pos hl]

theorem hexDecodeExact_none_of_decode {n : Nat} {s : Str} (h : hexDecode s = none) :
    hexDecodeExact n s = none := by
  unfold hexDecodeExact; rw [h]

theorem hexDecodeExact_none_of_length {n : Nat} {s : Str} (h : s.length ≠ 2 * n) :
    hexDecodeExact n s = none := by
  cases hd : hexDecodeExact n s with
  | none => rfl
  | some b =>
    obtain ⟨h1, h2⟩ := hexDecodeExact_eq_some.mp hd
    have := hexDecode_length h1
    omega

/-! ### `Sig.parse` -/

namespace Sig

/-- the text after the optional `0x` -/
def bodyOf (s : Str) : Str :=
  match stripPrefix ['0', 'x'] s with
  | some rest => rest
  | none => s

/-- what `parse` does with the 65 decoded bytes -/
def ofBytes (b : Bytes) : Res Sig :=
  let r := beVal (b.take 32)
  let sv := beVal ((b.drop 32).take 32)
  let vb := (b.drop 64).headD 0
  if vb = 27 ∨ vb = 28 then
    if validScalars r sv then .ok ⟨r, sv, vb = 28⟩
    else .err "invalid signature scalars"
  else .err "invalid V-value"

theorem parse_eq (s : Str) :
    parse s = match hexDecodeExact 65 (bodyOf s) with
      | none => .err "invalid hex / length"
      | some b => ofBytes b := rfl

theorem bodyOf_cases (s : Str) : s = bodyOf s ∨ s = ['0', 'x'] ++ bodyOf s := by
  unfold bodyOf
  cases h : stripPrefix ['0', 'x'] s with
  | none => exact Or.inl rfl
  | some r => exact Or.inr (stripPrefix_0x_inv h)

theorem validScalars_iff (r s : Nat) :
    validScalars r s = true ↔ (0 < r ∧ r < secpN ∧ 0 < s ∧ s < secpN) := by
  simp [validScalars, and_assoc]

theorem ofBytes_ne_panic (b : Bytes) (site : String) : ofBytes b ≠ .panic site := by
  unfold ofBytes
  simp only
  split
  · split <;> simp
  · simp

theorem parse_ne_panic (s : Str) (site : String) : parse s ≠ .panic site := by
  rw [parse_eq]
  cases hexDecodeExact 65 (bodyOf s) with
  | none => simp
  | some b => exact ofBytes_ne_panic b site

theorem parse_err_of_exact_none {s : Str} (h : hexDecodeExact 65 (bodyOf s) = none) :
    ∃ e, parse s = .err e := by
  rw [parse_eq, h]; exact ⟨_, rfl⟩

/-- a 65-byte string is r ‖ s ‖ v -/
theorem bytes65_split {b : Bytes} (h : b.length = 65) :
    b = b.take 32 ++ (b.drop 32).take 32 ++ [(b.drop 64).headD 0] := by
  have h1 : b.drop 64 = [(b.drop 64).headD 0] := by
    have hl : (b.drop 64).length = 1 := by simp [h]
    obtain ⟨a, ha⟩ := List.length_eq_one_iff.mp hl
    rw [ha]; rfl
  have h2 : (b.drop 32).drop 32 = b.drop 64 := by rw [List.drop_drop]
  calc b = b.take 32 ++ b.drop 32 := (List.take_append_drop 32 b).symm
    _ = b.take 32 ++ ((b.drop 32).take 32 ++ (b.drop 32).drop 32) := by
        rw [List.take_append_drop 32 (b.drop 32)]
    _ = b.take 32 ++ (b.drop 32).take 32 ++ [(b.drop 64).headD 0] := by
        rw [h2, ← h1, List.append_assoc]

theorem ofBytes_append {A B : Bytes} (v : UInt8) (hA : A.length = 32) (hB : B.length = 32) :
    ofBytes (A ++ B ++ [v]) =
      if v = 27 ∨ v = 28 then
        if validScalars (beVal A) (beVal B) then .ok ⟨beVal A, beVal B, v = 28⟩
        else .err "invalid signature scalars"
      else .err "invalid V-value" := by
  have e1 : (A ++ B ++ [v]).take 32 = A := by
    rw [List.append_assoc, List.take_left' hA]
  have e2 : ((A ++ B ++ [v]).drop 32).take 32 = B := by
    rw [List.append_assoc, List.drop_left' hA, List.take_left' hB]
  have e3 : (A ++ B ++ [v]).drop 64 = [v] := by
    rw [List.drop_left' (by simp [hA, hB])]
  unfold ofBytes
  simp only [e1, e2, e3, List.headD_cons]

/-- inversion of a successful `ofBytes` -/
theorem ofBytes_ok_inv {b : Bytes} {σ : Sig} (h : ofBytes b = .ok σ) :
    ((b.drop 64).headD 0 = 27 ∨ (b.drop 64).headD 0 = 28) ∧
    validScalars (beVal (b.take 32)) (beVal ((b.drop 32).take 32)) = true ∧
    σ = ⟨beVal (b.take 32), beVal ((b.drop 32).take 32), decide ((b.drop 64).headD 0 = 28)⟩ := by
  unfold ofBytes at h
  simp only at h
  split at h
  · next hv =>
    split at h
    · next hs => injection h with h; exact ⟨hv, hs, h.symm⟩
    · cases h
  · cases h

theorem vByte_cases (σ : Sig) :
    (σ.odd = false ∧ UInt8.ofNat (27 + σ.yParity) = 27) ∨
    (σ.odd = true ∧ UInt8.ofNat (27 + σ.yParity) = 28) := by
  unfold yParity
  cases σ.odd
  · left; exact ⟨rfl, rfl⟩
  · right; exact ⟨rfl, rfl⟩

/-- the three fields as bytes -/
def toBytes (σ : Sig) : Bytes :=
  beFixed 32 σ.r ++ beFixed 32 σ.s ++ [UInt8.ofNat (27 + σ.yParity)]

theorem toBytes_length (σ : Sig) : σ.toBytes.length = 65 := by
  simp [toBytes, beFixed_length]

theorem print_eq (σ : Sig) : print σ = '0' :: 'x' :: hexEncode σ.toBytes := by
  simp [print, toBytes, hexEncode_append]

theorem ofBytes_toBytes (σ : Sig) (h : 0 < σ.r ∧ σ.r < secpN ∧ 0 < σ.s ∧ σ.s < secpN) :
    ofBytes σ.toBytes = .ok σ := by
  have hN := secpN_lt
  unfold toBytes
  rw [ofBytes_append _ (beFixed_length _ _) (beFixed_length _ _),
    beVal_beFixed_of_lt (by omega), beVal_beFixed_of_lt (by omega),
    if_pos ((validScalars_iff _ _).mpr h)]
  obtain ⟨r, s, odd⟩ := σ
  rcases vByte_cases ⟨r, s, odd⟩ with ⟨ho, hv⟩ | ⟨ho, hv⟩
  · rw [hv]; simp only at ho; subst ho; rfl
  · rw [hv]; simp only at ho; subst ho; rfl

/-- `parse` of any text whose body is the hex form of the signature -/
theorem parse_of_body {s : Str} {σ : Sig} (h : 0 < σ.r ∧ σ.r < secpN ∧ 0 < σ.s ∧ σ.s < secpN)
    (hb : bodyOf s = hexEncode σ.toBytes) : parse s = .ok σ := by
  have : hexDecodeExact 65 (bodyOf s) = some σ.toBytes := by
    rw [hb]; exact hexDecodeExact_eq_some.mpr ⟨hexDecode_hexEncode _, toBytes_length σ⟩
  rw [parse_eq, this]
  exact ofBytes_toBytes σ h

theorem bodyOf_print (σ : Sig) : bodyOf (print σ) = hexEncode σ.toBytes := by
  rw [print_eq]; unfold bodyOf; rw [stripPrefix_0x_cons]

theorem list_drop_two {α} (a b : α) (l : List α) : (a :: b :: l).drop 2 = l := rfl

theorem bodyOf_print_drop (σ : Sig) : bodyOf ((print σ).drop 2) = hexEncode σ.toBytes := by
  rw [print_eq]
  rw [list_drop_two]
  unfold bodyOf
  rw [stripPrefix_0x_hex (fun c hc => isLowerHex_hexVal (hexEncode_isLowerHex _ c hc))]

/-- an accepted text spells the bytes of the returned signature -/
theorem parse_ok_inv {s : Str} {σ : Sig} (h : parse s = .ok σ) :
    (0 < σ.r ∧ σ.r < secpN ∧ 0 < σ.s ∧ σ.s < secpN) ∧ hexDecode (bodyOf s) = some σ.toBytes := by
  rw [parse_eq] at h
  cases hd : hexDecodeExact 65 (bodyOf s) with
  | none => rw [hd] at h; cases h
  | some b =>
    rw [hd] at h
    simp only at h
    obtain ⟨hdec, hlen⟩ := hexDecodeExact_eq_some.mp hd
    obtain ⟨hv, hs, rfl⟩ := ofBytes_ok_inv h
    refine ⟨(validScalars_iff _ _).mp hs, ?_⟩
    rw [hdec]
    refine congrArg some ?_
    have hsplit := bytes65_split hlen
    have hA : (b.take 32).length = 32 := by simp [hlen]
    have hB : ((b.drop 32).take 32).length = 32 := by simp [hlen]
    unfold toBytes
    simp only
    rw [beFixed_beVal hA, beFixed_beVal hB]
    have hvb : UInt8.ofNat (27 + yParity ⟨beVal (b.take 32), beVal ((b.drop 32).take 32),
        decide ((b.drop 64).headD 0 = 28)⟩) = (b.drop 64).headD 0 := by
      unfold yParity
      rcases hv with hv | hv <;> rw [hv] <;> rfl
    rw [hvb]
    exact hsplit

theorem ofBytes_err_of_v {b : Bytes}
    (h : (b.drop 64).headD 0 ≠ 27 ∧ (b.drop 64).headD 0 ≠ 28) : ∃ e, ofBytes b = .err e := by
  unfold ofBytes
  simp only
  rw [if_neg (by intro h'; rcases h' with h' | h'; exact h.1 h'; exact h.2 h')]
  exact ⟨_, rfl⟩

theorem ofBytes_err_of_scalars {b : Bytes}
    (h : beVal (b.take 32) = 0 ∨ secpN ≤ beVal (b.take 32) ∨
      beVal ((b.drop 32).take 32) = 0 ∨ secpN ≤ beVal ((b.drop 32).take 32)) :
    ∃ e, ofBytes b = .err e := by
  have hs : ¬ validScalars (beVal (b.take 32)) (beVal ((b.drop 32).take 32)) = true := by
    rw [validScalars_iff]; omega
  unfold ofBytes
  simp only
  by_cases hv : (b.drop 64).headD 0 = 27 ∨ (b.drop 64).headD 0 = 28
  · rw [if_pos hv, if_neg hs]; exact ⟨_, rfl⟩
  · rw [if_neg hv]; exact ⟨_, rfl⟩

theorem parse_rejects_body (s : Str) :
    ((bodyOf s).length ≠ 130 → ∃ e, parse s = .err e) ∧
    (hexDecode (bodyOf s) = none → ∃ e, parse s = .err e) ∧
    (∀ b, hexDecode (bodyOf s) = some b → b.length = 65 →
      ((b.drop 64).headD 0 ≠ 27 ∧ (b.drop 64).headD 0 ≠ 28) → ∃ e, parse s = .err e) ∧
    (∀ b, hexDecode (bodyOf s) = some b → b.length = 65 →
      (beVal (b.take 32) = 0 ∨ secpN ≤ beVal (b.take 32) ∨
       beVal ((b.drop 32).take 32) = 0 ∨ secpN ≤ beVal ((b.drop 32).take 32)) →
      ∃ e, parse s = .err e) := by
  refine ⟨?_, ?_, ?_, ?_⟩
  · intro h
    exact parse_err_of_exact_none (hexDecodeExact_none_of_length (by omega))
  · intro h
    exact parse_err_of_exact_none (hexDecodeExact_none_of_decode h)
  · intro b hd hl hv
    rw [parse_eq, hexDecodeExact_eq_some.mpr ⟨hd, hl⟩]
    exact ofBytes_err_of_v hv
  · intro b hd hl hv
    rw [parse_eq, hexDecodeExact_eq_some.mpr ⟨hd, hl⟩]
    exact ofBytes_err_of_scalars hv

theorem parse_sound_body {s : Str} {σ : Sig} (h : parse s = .ok σ) :
    (0 < σ.r ∧ σ.r < secpN ∧ 0 < σ.s ∧ σ.s < secpN) ∧
    ∃ body : Str, (s = body ∨ s = ['0', 'x'] ++ body) ∧ body.length = 130 ∧
      hexDecode body = some (beFixed 32 σ.r ++ beFixed 32 σ.s ++ [UInt8.ofNat (27 + σ.yParity)]) := by
  obtain ⟨hwf, hd⟩ := parse_ok_inv h
  refine ⟨hwf, bodyOf s, bodyOf_cases s, ?_, hd⟩
  rw [hexDecode_length hd, toBytes_length]

theorem print_format_aux (σ : Sig) :
    ∃ rd sd vd : Str, print σ = ['0', 'x'] ++ rd ++ sd ++ vd ∧
      rd.length = 64 ∧ sd.length = 64 ∧ vd.length = 2 ∧
      hexDecode rd = some (beFixed 32 σ.r) ∧ hexDecode sd = some (beFixed 32 σ.s) ∧
      hexDecode vd = some [UInt8.ofNat (27 + σ.yParity)] ∧
      (∀ c ∈ rd ++ sd ++ vd, c.isDigit ∨ ('a' ≤ c ∧ c ≤ 'f')) := by
  refine ⟨hexEncode (beFixed 32 σ.r), hexEncode (beFixed 32 σ.s),
    hexEncode [UInt8.ofNat (27 + σ.yParity)], ?_, ?_, ?_, ?_,
    hexDecode_hexEncode _, hexDecode_hexEncode _, hexDecode_hexEncode _, ?_⟩
  · simp [print]
  · rw [hexEncode_length, beFixed_length]
  · rw [hexEncode_length, beFixed_length]
  · rw [hexEncode_length]; rfl
  · intro c hc
    rw [← hexEncode_append, ← hexEncode_append] at hc
    exact isLowerHex_range (hexEncode_isLowerHex _ c hc)

end Sig

end Hdw
