/-
Helper lemmas for C20 (EIP-712 domain type check): the ordered scan and sub-sequences.
-/
import HdwModel.Model.TypedData
import HdwModel.Spec.Eip712

namespace Hdw.TypedData
open Hdw Hdw.Spec.Eip712

/-- the `Member` built from an allowed pair -/
abbrev mkMember (p : Str × MemberKind) : Member := ⟨p.1, p.2⟩

theorem scanDomain_nil (allowed : List (Str × MemberKind)) : scanDomain [] allowed = .ok () := by
  simp [scanDomain]

theorem scanDomain_cons_nil (m : Member) (ms : List Member) :
    scanDomain (m :: ms) [] = .err "unexpected EIP-712 domain member" := by
  simp [scanDomain, findAllowed]

theorem scanDomain_cons_cons (m : Member) (ms : List Member) (n : Str) (k : MemberKind)
    (rest : List (Str × MemberKind)) :
    scanDomain (m :: ms) ((n, k) :: rest) =
      if m.name = n then
        (if m.kind = k then scanDomain ms rest else .err "EIP-712 domain member of wrong type")
      else scanDomain (m :: ms) rest := by
  by_cases h : m.name = n
  · simp [scanDomain, findAllowed, h]
  · simp [scanDomain, findAllowed, h]

/-- soundness of the scan: holds for every allowed list -/
theorem scanDomain_ok_sublist (ms : List Member) (allowed : List (Str × MemberKind))
    (h : scanDomain ms allowed = .ok ()) : ms.Sublist (allowed.map mkMember) := by
  induction allowed generalizing ms with
  | nil =>
    cases ms with
    | nil => simp
    | cons m ms => simp [scanDomain_cons_nil] at h
  | cons p rest ih =>
    obtain ⟨n, k⟩ := p
    cases ms with
    | nil => simp
    | cons m ms =>
      rw [scanDomain_cons_cons] at h
      split at h
      · rename_i hn
        split at h
        · rename_i hk
          have : m = mkMember (n, k) := by cases m; simp_all [mkMember]
          rw [List.map_cons, this]
          exact List.Sublist.cons_cons _ (ih ms h)
        · cases h
      · rw [List.map_cons]
        exact List.Sublist.cons _ (ih _ h)

/-- completeness of the scan needs the allowed names to be pairwise distinct -/
theorem scanDomain_iff_sublist (ms : List Member) (allowed : List (Str × MemberKind))
    (hnd : (allowed.map (·.1)).Nodup) :
    scanDomain ms allowed = .ok () ↔ ms.Sublist (allowed.map mkMember) := by
  refine ⟨scanDomain_ok_sublist ms allowed, ?_⟩
  induction allowed generalizing ms with
  | nil =>
    intro h
    simp at h
    subst h
    exact scanDomain_nil _
  | cons p rest ih =>
    obtain ⟨n, k⟩ := p
    simp only [List.map_cons, List.nodup_cons] at hnd
    intro h
    cases ms with
    | nil => exact scanDomain_nil _
    | cons m ms =>
      rw [scanDomain_cons_cons]
      rw [List.map_cons] at h
      by_cases hn : m.name = n
      · rw [if_pos hn]
        have hnot : ¬ (m :: ms).Sublist (rest.map mkMember) := by
          intro hs
          have hm : m ∈ rest.map mkMember := hs.subset (by simp)
          simp only [List.mem_map] at hm
          obtain ⟨q, hq, rfl⟩ := hm
          exact hnd.1 (by simp only [List.mem_map]; exact ⟨q, hq, hn⟩)
        cases h with
        | cons _ hs => exact absurd hs hnot
        | cons_cons _ hs =>
          simp only [if_true]
          exact ih ms hnd.2 hs
      · rw [if_neg hn]
        cases h with
        | cons _ hs => exact ih _ hnd.2 hs
        | cons_cons _ hs => exact absurd rfl hn

theorem domainMembers_nodup : (domainMembers.map (·.1)).Nodup := by decide

theorem domainMembers_map : domainMembers.map mkMember = standardDomain := by decide

theorem isSublist_iff_sublist (a b : List Member) : isSublist a b = true ↔ a.Sublist b := by
  induction b generalizing a with
  | nil =>
    cases a with
    | nil => simp [isSublist]
    | cons x xs => simp [isSublist]
  | cons y ys ih =>
    cases a with
    | nil => simp [isSublist]
    | cons x xs =>
      rw [isSublist]
      by_cases hxy : x = y
      · subst hxy
        rw [if_pos rfl, ih, List.cons_sublist_cons]
      · rw [if_neg hxy, ih]
        constructor
        · intro h; exact List.Sublist.cons _ h
        · intro h
          cases h with
          | cons _ hs => exact hs
          | cons_cons _ hs => exact absurd rfl hxy

theorem verifyDomainType_iff (types : Types) :
    verifyDomainType types = .ok () ↔
      ∃ members, types.get? (chars! "EIP712Domain") = some members ∧ WellFormedDomain members := by
  unfold verifyDomainType WellFormedDomain
  cases hg : types.get? (chars! "EIP712Domain") with
  | none => simp
  | some members =>
    simp only [Option.some.injEq, exists_eq_left']
    cases members with
    | nil => simp
    | cons m ms =>
      simp only [List.isEmpty_cons, Bool.false_eq_true, if_false, ne_eq, reduceCtorEq,
        not_false_eq_true, true_and]
      rw [scanDomain_iff_sublist _ _ domainMembers_nodup, domainMembers_map]

theorem scanDomain_ok_or_err (ms : List Member) (allowed : List (Str × MemberKind)) :
    scanDomain ms allowed = .ok () ∨ ∃ e, scanDomain ms allowed = .err e := by
  induction ms generalizing allowed with
  | nil => left; exact scanDomain_nil _
  | cons m ms ih =>
    rw [scanDomain]
    split
    · right; exact ⟨_, rfl⟩
    · split
      · exact ih _
      · right; exact ⟨_, rfl⟩

theorem verifyDomainType_ok_or_err (types : Types) :
    verifyDomainType types = .ok () ∨ ∃ e, verifyDomainType types = .err e := by
  unfold verifyDomainType
  split
  · right; exact ⟨_, rfl⟩
  · split
    · right; exact ⟨_, rfl⟩
    · exact scanDomain_ok_or_err _ _

end Hdw.TypedData
