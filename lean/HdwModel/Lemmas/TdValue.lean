/-
Lemmas for C09 / C08(b): the value side of EIP-712 typed data
(`encodeValue`/`structHash`/`compute` of the model against `encodeField`/`hashStruct`/`digests`
of the specification).
-/
import HdwModel.Model.TypedData
import HdwModel.Spec.Eip712

namespace Hdw.TdValue
open Hdw Hdw.Json Hdw.Ser Hdw.SerdeNum Hdw.TypedData Hdw.Spec.Eip712

/-! ### number literals -/

/-- copy of `Props.C09.plainLit` -/
def plainLit (n : NumLit) : Bool :=
  n.fracDigits.isNone && n.exp.isNone &&
    (if n.neg then digitsNat n.intDigits ≤ 2 ^ 63 else digitsNat n.intDigits < 2 ^ 64)

theorem foldl_dec_ge (ds : List Nat) (a : Nat) : a ≤ ds.foldl (fun a d => a * 10 + d) a := by
  induction ds generalizing a with
  | nil => exact Nat.le_refl _
  | cons d ds ih =>
    simp only [List.foldl_cons]
    exact Nat.le_trans (by omega) (ih (a * 10 + d))

theorem accumulate_fits (ds : List Nat) (acc : Nat)
    (h : ds.foldl (fun a d => a * 10 + d) acc ≤ u64Max) :
    accumulate acc ds = (ds.foldl (fun a d => a * 10 + d) acc, []) := by
  induction ds generalizing acc with
  | nil => rfl
  | cons d ds ih =>
    simp only [List.foldl_cons] at h ⊢
    have := foldl_dec_ge ds (acc * 10 + d)
    rw [accumulate, if_neg (by omega)]
    exact ih _ h

theorem accumulate_plain (ds : List Nat) (h : digitsNat ds < 2 ^ 64) :
    accumulate 0 ds = (digitsNat ds, []) := by
  apply accumulate_fits
  unfold digitsNat at h
  unfold u64Max
  omega

theorem plainLit_inv {neg : Bool} {ints : List Nat} {frac : Option (List Nat)} {exp : Option (Bool × List Nat)}
    (h : plainLit ⟨neg, ints, frac, exp⟩ = true) :
    frac = none ∧ exp = none ∧ (neg = true → digitsNat ints ≤ 2 ^ 63) ∧ digitsNat ints < 2 ^ 64 := by
  simp only [plainLit, Bool.and_eq_true, Option.isNone_iff_eq_none] at h
  obtain ⟨⟨hf, he⟩, hb⟩ := h
  refine ⟨hf, he, ?_, ?_⟩
  · intro hn
    subst hn
    simpa using hb
  · cases neg
    · simpa using hb
    · have : digitsNat ints ≤ 2 ^ 63 := by simpa using hb
      omega

theorem classify_plain (lit : NumLit) (h : plainLit lit = true) :
    classify lit =
      if lit.neg then
        (if digitsNat lit.intDigits = 0 then some (.f64 true F64.zero)
         else some (.i64 (digitsNat lit.intDigits)))
      else some (.u64 (digitsNat lit.intDigits)) := by
  obtain ⟨neg, ints, frac, exp⟩ := lit
  obtain ⟨hf, he, hneg, hlt⟩ := plainLit_inv h
  subst hf he
  simp only [classify, accumulate_plain ints hlt]
  cases neg
  · simp
  · have hb := hneg rfl
    by_cases h0 : digitsNat ints = 0
    · simp [h0, F64.ofNat, F64.roundRat]
    · have : ¬ (digitsNat ints = 0 ∨ digitsNat ints > 2 ^ 63) := by omega
      simp [h0]
      omega

theorem litInt_plain (lit : NumLit) (h : plainLit lit = true) :
    litInt? lit = some (if lit.neg then -(digitsNat lit.intDigits : Int) else (digitsNat lit.intDigits : Int)) := by
  obtain ⟨neg, ints, frac, exp⟩ := lit
  obtain ⟨hf, he, hneg, hlt⟩ := plainLit_inv h
  subst hf he
  simp only [litInt?, Option.getD_none, List.append_nil, List.length_nil]
  by_cases h0 : digitsNat ints = 0
  · simp [h0]
  · simp [h0]

theorem f64ToInt_neg_zero : f64ToInt? true F64.zero = some (false, 0) := by
  have : F64.toInt? F64.zero = some 0 := by
    simp only [F64.zero, F64.toInt?, Nat.zero_mul, Nat.zero_mod, Nat.zero_div, if_true]
  simp [f64ToInt?, this]

theorem uint_num_exact (lit : NumLit) (x : Nat) (hp : plainLit lit = true)
    (h : uintOfJson (.num lit) = .ok x) : litInt? lit = some (x : Int) ∧ x < 2 ^ 64 := by
  have hlt := (plainLit_inv (neg := lit.neg) (ints := lit.intDigits) (frac := lit.fracDigits)
    (exp := lit.exp) hp).2.2.2
  rw [litInt_plain lit hp]
  simp only [uintOfJson, classify_plain lit hp] at h
  cases hn : lit.neg
  · simp only [hn] at h
    simp only [Bool.false_eq_true, if_false] at h ⊢
    injection h with h
    subst h
    exact ⟨rfl, hlt⟩
  · simp only [hn, if_true] at h ⊢
    by_cases h0 : digitsNat lit.intDigits = 0
    · simp only [h0, if_true, f64ToInt_neg_zero] at h ⊢
      injection h with h
      subst h
      simp
    · simp only [h0, if_false] at h
      cases h

theorem int_num_exact (lit : NumLit) (x : Int) (hp : plainLit lit = true)
    (h : intOfJson (.num lit) = .ok x) :
    litInt? lit = some x ∧ -(2 ^ 63 : Int) ≤ x ∧ x < (2 ^ 64 : Int) := by
  obtain ⟨_, _, hneg, hlt⟩ := plainLit_inv (neg := lit.neg) (ints := lit.intDigits)
    (frac := lit.fracDigits) (exp := lit.exp) hp
  rw [litInt_plain lit hp]
  simp only [intOfJson, classify_plain lit hp] at h
  cases hn : lit.neg
  · simp only [hn] at h
    simp only [Bool.false_eq_true, if_false] at h ⊢
    injection h with h
    subst h
    refine ⟨rfl, ?_, ?_⟩ <;> omega
  · simp only [hn, if_true] at h ⊢
    have hb := hneg hn
    by_cases h0 : digitsNat lit.intDigits = 0
    · simp only [h0, if_true, f64ToInt_neg_zero] at h ⊢
      injection h with h
      subst h
      simp
    · simp only [h0, if_false] at h
      injection h with h
      subst h
      refine ⟨rfl, ?_, ?_⟩ <;> omega

/-! ### integers spelled as strings -/

/-- the fold step of `digitsIn?` -/
def digStep (radix : Nat) (acc : Option Nat) (c : Char) : Option Nat :=
  match acc, hexVal? c with
  | some a, some d => if d < radix then some (a * radix + d) else none
  | _, _ => none

theorem digitsIn_eq (radix : Nat) (s : Str) :
    digitsIn? radix s = if s.isEmpty then none else s.foldl (digStep radix) (some 0) := rfl

theorem foldl_digStep_none (radix : Nat) (s : Str) : s.foldl (digStep radix) none = none := by
  induction s with
  | nil => rfl
  | cons c cs ih => simpa [List.foldl_cons, digStep] using ih

theorem radixVal_eq_foldl (radix : Nat) (s : Str) (acc : Nat) :
    radixVal? radix acc s = s.foldl (digStep radix) (some acc) := by
  induction s generalizing acc with
  | nil => rfl
  | cons c cs ih =>
    simp only [radixVal?, toDigit?, List.foldl_cons, digStep]
    cases hexVal? c with
    | none => simp [foldl_digStep_none]
    | some d =>
      simp only
      by_cases hd : d < radix
      · simp only [hd, if_true]; exact ih _
      · simp only [hd, if_false, foldl_digStep_none]

theorem stripPrefix_inv : ∀ (p s r : Str), stripPrefix p s = some r → s = p ++ r
  | [], s, r, h => by simp [stripPrefix] at h; simp [h]
  | _ :: _, [], r, h => by simp [stripPrefix] at h
  | a :: p, b :: s, r, h => by
    simp only [stripPrefix] at h
    by_cases hab : a = b
    · simp only [hab, if_true] at h
      simp [hab, stripPrefix_inv p s r h]
    · simp [hab] at h

theorem magnitudeRadix_inv {radix : Nat} {pre body : Str} {v : Nat}
    (h : magnitudeRadix? radix pre body = some v) :
    ∃ ds, body = pre ++ ds ∧ digitsIn? radix ds = some v := by
  unfold magnitudeRadix? at h
  split at h
  · cases h
  · next ds hds =>
    refine ⟨ds, stripPrefix_inv _ _ _ hds, ?_⟩
    by_cases he : ds.isEmpty = true
    · simp [he] at h
    · simp only [he] at h
      rw [digitsIn_eq]
      simp only [he]
      rw [← radixVal_eq_foldl]
      simpa using h

/-- the magnitude the specification reads from a sign-less body -/
def magSpec (body : Str) : Option Nat :=
  match body with
  | '0' :: 'b' :: r => digitsIn? 2 r
  | '0' :: 'o' :: r => digitsIn? 8 r
  | '0' :: 'x' :: r => digitsIn? 16 r
  | _ => digitsIn? 10 body

theorem digitsIn10_prefixed (c : Char) (r : Str) (hc : c = 'b' ∨ c = 'o' ∨ c = 'x') :
    digitsIn? 10 ('0' :: c :: r) = none := by
  rw [digitsIn_eq]
  simp only [List.isEmpty_cons, Bool.false_eq_true, if_false, List.foldl_cons]
  have : digStep 10 (digStep 10 (some 0) '0') c = none := by
    rcases hc with h | h | h <;> subst h <;> decide
  rw [this, foldl_digStep_none]

theorem magSpec_of_radix {radix : Nat} {pre body : Str} {v : Nat}
    (hr : (radix = 2 ∧ pre = ['0', 'b']) ∨ (radix = 8 ∧ pre = ['0', 'o']) ∨
          (radix = 16 ∧ pre = ['0', 'x']) ∨ (radix = 10 ∧ pre = []))
    (h : magnitudeRadix? radix pre body = some v) : magSpec body = some v := by
  obtain ⟨ds, hb, hd⟩ := magnitudeRadix_inv h
  rcases hr with ⟨hr, hp⟩ | ⟨hr, hp⟩ | ⟨hr, hp⟩ | ⟨hr, hp⟩ <;> subst hr hp hb
  · exact hd
  · exact hd
  · exact hd
  · unfold magSpec
    split
    · rw [digitsIn10_prefixed _ _ (by simp)] at hd; cases hd
    · rw [digitsIn10_prefixed _ _ (by simp)] at hd; cases hd
    · rw [digitsIn10_prefixed _ _ (by simp)] at hd; cases hd
    · exact hd

theorem orElse4_some {α} {a b c d : Option α} {v : α}
    (h : (a.orElse fun _ => b.orElse fun _ => c.orElse fun _ => d) = some v) :
    a = some v ∨ b = some v ∨ c = some v ∨ d = some v := by
  cases a <;> cases b <;> cases c <;> cases d <;> simp_all [Option.orElse]

/-- sign applied to an optional magnitude -/
def sgn (neg : Bool) (o : Option Nat) : Option Int :=
  match o with
  | some m => some (if neg then -(m : Int) else (m : Int))
  | none => none

theorem strInt_aux (neg : Bool) (o : Option Nat) :
    (Option.map (fun m : Int => if neg = true then -m else m) do
      let a ← o
      pure (a : Int)) = sgn neg o := by
  cases o <;> rfl

theorem strInt_minus (r : Str) : strInt? ('-' :: r) = sgn true (magSpec r) := by
  rw [← strInt_aux]; rfl

theorem strInt_plus (r : Str) : strInt? ('+' :: r) = sgn false (magSpec r) := by
  rw [← strInt_aux]; rfl

theorem strInt_other (s : Str) (h1 : ∀ r, s ≠ '-' :: r) (h2 : ∀ r, s ≠ '+' :: r) :
    strInt? s = sgn false (magSpec s) := by
  rw [← strInt_aux]
  unfold strInt?
  split
  next x neg body heq =>
  split at heq
  · exact absurd rfl (h1 _)
  · exact absurd rfl (h2 _)
  · cases heq; rfl

theorem magSpec_minus (r : Str) : magSpec ('-' :: r) = none := by
  show digitsIn? 10 ('-' :: r) = none
  rw [digitsIn_eq]
  simp only [List.isEmpty_cons, Bool.false_eq_true, if_false, List.foldl_cons]
  have : digStep 10 (some 0) '-' = none := by decide
  rw [this, foldl_digStep_none]

def tryU (body : Str) (radix : Nat) (pre : Str) : Option Nat :=
  match magnitudeRadix? radix pre body with
  | some v => if v < 2 ^ 256 then some v else none
  | none => none

def uBody (body : Str) : Option Nat :=
  if body.isEmpty then none
  else
    (tryU body 2 ['0', 'b']).orElse fun _ =>
    (tryU body 8 ['0', 'o']).orElse fun _ =>
    (tryU body 16 ['0', 'x']).orElse fun _ =>
    tryU body 10 []

theorem u256_plus (r : Str) : u256FromStrPrefixed ('+' :: r) = uBody r := rfl

theorem u256_other (s : Str) (h : ∀ r, s ≠ '+' :: r) : u256FromStrPrefixed s = uBody s := by
  unfold u256FromStrPrefixed
  split
  · rfl
  · split
    · exact absurd rfl (h _)
    · rfl

theorem tryU_some {body pre : Str} {radix x : Nat} (h : tryU body radix pre = some x) :
    magnitudeRadix? radix pre body = some x ∧ x < 2 ^ 256 := by
  unfold tryU at h
  split at h
  · split at h
    · cases h; exact ⟨by assumption, by assumption⟩
    · cases h
  · cases h

theorem uBody_some {body : Str} {x : Nat} (h : uBody body = some x) :
    magSpec body = some x ∧ x < 2 ^ 256 := by
  unfold uBody at h
  split at h
  · cases h
  · rcases orElse4_some h with h | h | h | h <;> obtain ⟨hm, hx⟩ := tryU_some h <;>
      refine ⟨magSpec_of_radix ?_ hm, hx⟩ <;> simp

theorem u256_exact {s : Str} {x : Nat} (h : u256FromStrPrefixed s = some x) :
    strInt? s = some (x : Int) ∧ x < 2 ^ 256 := by
  by_cases hp : ∃ r, s = '+' :: r
  · obtain ⟨r, rfl⟩ := hp
    rw [u256_plus] at h
    obtain ⟨hm, hx⟩ := uBody_some h
    rw [strInt_plus, hm]
    exact ⟨rfl, hx⟩
  · have hp' : ∀ r, s ≠ '+' :: r := fun r hr => hp ⟨r, hr⟩
    rw [u256_other s hp'] at h
    obtain ⟨hm, hx⟩ := uBody_some h
    by_cases hn : ∃ r, s = '-' :: r
    · obtain ⟨r, rfl⟩ := hn
      rw [magSpec_minus] at hm
      cases hm
    · have hn' : ∀ r, s ≠ '-' :: r := fun r hr => hn ⟨r, hr⟩
      rw [strInt_other s hn' hp', hm]
      exact ⟨rfl, hx⟩

def tryI (neg : Bool) (body : Str) (radix : Nat) (pre : Str) : Option Int :=
  match magnitudeRadix? radix pre body with
  | some v =>
    if neg then (if v ≤ 2 ^ 255 then some (-(v : Int)) else none)
    else (if v < 2 ^ 255 then some (v : Int) else none)
  | none => none

def iBody (neg : Bool) (body : Str) : Option Int :=
  if body.isEmpty then none
  else
    (tryI neg body 2 ['0', 'b']).orElse fun _ =>
    (tryI neg body 8 ['0', 'o']).orElse fun _ =>
    (tryI neg body 16 ['0', 'x']).orElse fun _ =>
    tryI neg body 10 []

theorem i256_plus (r : Str) : i256FromStrPrefixed ('+' :: r) = iBody false r := rfl
theorem i256_minus (r : Str) : i256FromStrPrefixed ('-' :: r) = iBody true r := rfl

theorem i256_other (s : Str) (h1 : ∀ r, s ≠ '-' :: r) (h2 : ∀ r, s ≠ '+' :: r) :
    i256FromStrPrefixed s = iBody false s := by
  unfold i256FromStrPrefixed
  split
  · rfl
  · split
    next x neg body heq =>
    split at heq
    · exact absurd rfl (h2 _)
    · exact absurd rfl (h1 _)
    · cases heq; rfl

theorem tryI_some {neg : Bool} {body pre : Str} {radix : Nat} {x : Int}
    (h : tryI neg body radix pre = some x) :
    ∃ v, magnitudeRadix? radix pre body = some v ∧ x = (if neg then -(v : Int) else (v : Int)) ∧
      -(2 ^ 255 : Int) ≤ x ∧ x < (2 ^ 255 : Int) := by
  unfold tryI at h
  split at h
  · next v hv =>
    refine ⟨v, hv, ?_⟩
    cases neg
    · simp only [Bool.false_eq_true, if_false] at h ⊢
      split at h
      · cases h; refine ⟨rfl, ?_, ?_⟩ <;> omega
      · cases h
    · simp only [if_true] at h ⊢
      split at h
      · cases h; refine ⟨rfl, ?_, ?_⟩ <;> omega
      · cases h
  · cases h

theorem iBody_some {neg : Bool} {body : Str} {x : Int} (h : iBody neg body = some x) :
    sgn neg (magSpec body) = some x ∧ -(2 ^ 255 : Int) ≤ x ∧ x < (2 ^ 255 : Int) := by
  unfold iBody at h
  split at h
  · cases h
  · rcases orElse4_some h with h | h | h | h <;> obtain ⟨v, hm, hx, hb⟩ := tryI_some h <;>
      refine ⟨?_, hb⟩ <;> rw [magSpec_of_radix (by simp) hm, hx] <;> rfl

theorem i256_exact {s : Str} {x : Int} (h : i256FromStrPrefixed s = some x) :
    strInt? s = some x ∧ -(2 ^ 255 : Int) ≤ x ∧ x < (2 ^ 255 : Int) := by
  by_cases hp : ∃ r, s = '+' :: r
  · obtain ⟨r, rfl⟩ := hp
    rw [i256_plus] at h
    rw [strInt_plus]
    exact iBody_some h
  · have hp' : ∀ r, s ≠ '+' :: r := fun r hr => hp ⟨r, hr⟩
    by_cases hn : ∃ r, s = '-' :: r
    · obtain ⟨r, rfl⟩ := hn
      rw [i256_minus] at h
      rw [strInt_minus]
      exact iBody_some h
    · have hn' : ∀ r, s ≠ '-' :: r := fun r hr => hn ⟨r, hr⟩
      rw [i256_other s hn' hp'] at h
      rw [strInt_other s hn' hp']
      exact iBody_some h

/-! ### the number readers on JSON values -/

theorem uint_exact (v : JVal) (x : Nat) (hp : ∀ lit, v = .num lit → plainLit lit = true)
    (h : uintOfJson v = .ok x) : denotesInt? v = some (x : Int) ∧ x < 2 ^ 256 := by
  cases v with
  | num lit =>
    obtain ⟨h1, h2⟩ := uint_num_exact lit x (hp lit rfl) h
    exact ⟨h1, by omega⟩
  | str s =>
    simp only [uintOfJson] at h
    split at h
    · next v hv => cases h; exact u256_exact hv
    · cases h
  | null => simp [uintOfJson] at h
  | bool b => simp [uintOfJson] at h
  | arr l => simp [uintOfJson] at h
  | obj kv => simp [uintOfJson] at h

theorem int_exact (v : JVal) (x : Int) (hp : ∀ lit, v = .num lit → plainLit lit = true)
    (h : intOfJson v = .ok x) :
    denotesInt? v = some x ∧ -(2 ^ 255 : Int) ≤ x ∧ x < (2 ^ 255 : Int) := by
  cases v with
  | num lit =>
    obtain ⟨h1, h2, h3⟩ := int_num_exact lit x (hp lit rfl) h
    refine ⟨h1, ?_, ?_⟩ <;> omega
  | str s =>
    simp only [intOfJson] at h
    split at h
    · next v hv => cases h; exact i256_exact hv
    · cases h
  | null => simp [intOfJson] at h
  | bool b => simp [intOfJson] at h
  | arr l => simp [intOfJson] at h
  | obj kv => simp [intOfJson] at h

/-! ### hex strings -/

theorem bytesOfJson_ok {v : JVal} {b : Bytes} (h : bytesOfJson v = .ok b) : hexBytes? v = some b := by
  cases v with
  | str s =>
    simp only [bytesOfJson] at h
    split at h
    · cases h
    · next hh hs =>
      have := stripPrefix_inv _ _ _ hs
      subst this
      split at h
      · next b' hb => cases h; exact hb
      · cases h
  | null => simp [bytesOfJson] at h
  | bool b => simp [bytesOfJson] at h
  | num n => simp [bytesOfJson] at h
  | arr l => simp [bytesOfJson] at h
  | obj kv => simp [bytesOfJson] at h

theorem hexDecode_len : ∀ (s : Str) (b : Bytes), hexDecode s = some b → s.length = 2 * b.length
  | [], b, h => by simp [hexDecode] at h; subst h; rfl
  | [_], b, h => by simp [hexDecode] at h
  | x :: y :: rest, b, h => by
    simp only [hexDecode] at h
    split at h
    · next hh l r _ _ hr =>
      cases h
      have := hexDecode_len rest r hr
      simp only [List.length_cons]; omega
    · cases h

theorem bytesOfJson_len {s : Str} {b : Bytes} (h : bytesOfJson (.str s) = .ok b) :
    s.length = 2 * b.length + 2 := by
  simp only [bytesOfJson] at h
  split at h
  · cases h
  · next hh hs =>
    have := stripPrefix_inv _ _ _ hs
    subst this
    split at h
    · next b' hb => cases h; have := hexDecode_len _ _ hb; simp only [List.length_append, List.length_cons, List.length_nil]; omega
    · cases h

/-- the string does not start with a doubled `0x` prefix -/
def noDoublePrefixStr : Str → Bool
  | '0' :: 'x' :: '0' :: 'x' :: _ => false
  | _ => true

theorem addressOfJson_ok {v : JVal} {a : Bytes} (hnd : ∀ s, v = .str s → noDoublePrefixStr s = true)
    (h : addressOfJson v = .ok a) : hexBytes? v = some a ∧ a.length = 20 := by
  cases v with
  | str s =>
    have hnd := hnd s rfl
    simp only [addressOfJson] at h
    split at h
    · cases h
    · next hh hs =>
      have := stripPrefix_inv _ _ _ hs
      subst this
      have h2 : stripPrefix ['0', 'x'] hh = none := by
        cases h2 : stripPrefix ['0', 'x'] hh with
        | none => rfl
        | some r =>
          have := stripPrefix_inv _ _ _ h2
          subst this
          simp [noDoublePrefixStr] at hnd
      simp only [h2, hexDecodeExact] at h
      split at h
      · next b hb =>
        cases h
        split at hb
        · next b' hb' =>
          split at hb
          · next hl => cases hb; exact ⟨hb', hl⟩
          · cases hb
        · cases hb
      · cases h
  | null => simp [addressOfJson] at h
  | bool b => simp [addressOfJson] at h
  | num n => simp [addressOfJson] at h
  | arr l => simp [addressOfJson] at h
  | obj kv => simp [addressOfJson] at h

/-! ### objects: lookup and removal -/

def keys (kv : List (Str × JVal)) : List Str := kv.map (·.1)

theorem get_none_of_not_mem : ∀ (k : Str) (kv : List (Str × JVal)), k ∉ keys kv → JVal.get? k kv = none
  | _, [], _ => rfl
  | k, (k', v) :: rest, h => by
    simp only [keys, List.map_cons, List.mem_cons, not_or] at h
    simp only [JVal.get?]
    rw [if_neg (fun e => h.1 e.symm)]
    exact get_none_of_not_mem k rest h.2

theorem removeKey_sublist (k : Str) : ∀ kv : List (Str × JVal), (removeKey k kv).Sublist kv
  | [] => List.Sublist.slnil
  | (k', v) :: rest => by
    simp only [removeKey]
    split
    · exact List.sublist_cons_self _ _
    · exact (removeKey_sublist k rest).cons_cons _

theorem keys_removeKey_nodup {k : Str} {kv : List (Str × JVal)} (h : (keys kv).Nodup) :
    (keys (removeKey k kv)).Nodup :=
  List.Nodup.sublist ((removeKey_sublist k kv).map _) h

theorem get_removeKey_ne {k k' : Str} (hne : k' ≠ k) :
    ∀ kv : List (Str × JVal), JVal.get? k' (removeKey k kv) = JVal.get? k' kv
  | [] => rfl
  | (k0, v) :: rest => by
    simp only [removeKey]
    by_cases h0 : k0 = k
    · subst h0
      simp only [if_true, JVal.get?]
      rw [if_neg (fun e => hne e.symm)]
    · simp only [h0, if_false, JVal.get?]
      rw [get_removeKey_ne hne rest]

theorem get_removeKey_self {k : Str} :
    ∀ kv : List (Str × JVal), (keys kv).Nodup → JVal.get? k (removeKey k kv) = none
  | [], _ => rfl
  | (k0, v) :: rest, h => by
    simp only [keys, List.map_cons, List.nodup_cons] at h
    simp only [removeKey]
    by_cases h0 : k0 = k
    · subst h0
      simp only [if_true]
      exact get_none_of_not_mem _ _ h.1
    · simp only [h0, if_false, JVal.get?]
      exact get_removeKey_self rest h.2

theorem length_removeKey {k : Str} {v : JVal} :
    ∀ kv : List (Str × JVal), JVal.get? k kv = some v → (removeKey k kv).length + 1 = kv.length
  | [], h => by simp [JVal.get?] at h
  | (k0, v0) :: rest, h => by
    simp only [JVal.get?] at h
    simp only [removeKey]
    by_cases h0 : k0 = k
    · simp [h0]
    · simp only [h0, if_false] at h ⊢
      simp only [List.length_cons]
      rw [length_removeKey rest h]

theorem jsize_pos (v : JVal) : 1 ≤ jsize v := by
  cases v <;> simp [jsize]

theorem jsize_removeKey {k : Str} {v : JVal} :
    ∀ kv : List (Str × JVal), JVal.get? k kv = some v →
      jsizeMembers kv = jsize v + jsizeMembers (removeKey k kv)
  | [], h => by simp [JVal.get?] at h
  | (k0, v0) :: rest, h => by
    simp only [JVal.get?] at h
    simp only [removeKey]
    by_cases h0 : k0 = k
    · simp only [h0, if_true] at h ⊢
      cases h
      simp [jsizeMembers]
    · simp only [h0, if_false] at h ⊢
      simp only [jsizeMembers]
      rw [jsize_removeKey rest h]
      omega

/-! ### a predicate holding at every node of a JSON value -/

mutual
def JAll (pn : NumLit → Bool) (ps : Str → Bool) (po : List (Str × JVal) → Bool) : JVal → Bool
  | .num n => pn n
  | .str s => ps s
  | .arr l => JAllList pn ps po l
  | .obj kv => po kv && JAllMembers pn ps po kv
  | _ => true
def JAllList (pn : NumLit → Bool) (ps : Str → Bool) (po : List (Str × JVal) → Bool) : List JVal → Bool
  | [] => true
  | v :: vs => JAll pn ps po v && JAllList pn ps po vs
def JAllMembers (pn : NumLit → Bool) (ps : Str → Bool) (po : List (Str × JVal) → Bool) :
    List (Str × JVal) → Bool
  | [] => true
  | (_, v) :: rest => JAll pn ps po v && JAllMembers pn ps po rest
end

section
variable {pn : NumLit → Bool} {ps : Str → Bool} {po : List (Str × JVal) → Bool}

theorem JAll_get {k : Str} {v : JVal} :
    ∀ kv : List (Str × JVal), JAllMembers pn ps po kv = true → JVal.get? k kv = some v →
      JAll pn ps po v = true
  | [], _, h => by simp [JVal.get?] at h
  | (k0, v0) :: rest, ha, h => by
    simp only [JAllMembers, Bool.and_eq_true] at ha
    simp only [JVal.get?] at h
    by_cases h0 : k0 = k
    · simp only [h0, if_true] at h; cases h; exact ha.1
    · simp only [h0, if_false] at h; exact JAll_get rest ha.2 h

theorem JAll_removeKey {k : Str} :
    ∀ kv : List (Str × JVal), JAllMembers pn ps po kv = true →
      JAllMembers pn ps po (removeKey k kv) = true
  | [], _ => rfl
  | (k0, v0) :: rest, ha => by
    simp only [JAllMembers, Bool.and_eq_true] at ha
    simp only [removeKey]
    by_cases h0 : k0 = k
    · simp only [h0, if_true]; exact ha.2
    · simp only [h0, if_false, JAllMembers, Bool.and_eq_true]
      exact ⟨ha.1, JAll_removeKey rest ha.2⟩
end

/-! ### the member loop: exactly the declared members -/

theorem encodeMembers_step {P : Prims} {types : Types} {fuel : Nat} {m : Member} {ms : List Member}
    {data : List (Str × JVal)} {enc : Bytes} {left : List (Str × JVal)}
    (h : encodeMembers P types (fuel + 1) (m :: ms) data = .ok (enc, left)) :
    ∃ v b bs, JVal.get? m.name data = some v ∧ encodeValue P types fuel m.kind v = .ok b ∧
      encodeMembers P types fuel ms (removeKey m.name data) = .ok (bs, left) ∧ enc = b ++ bs := by
  rw [encodeMembers] at h
  split at h
  · cases h
  · next v hv =>
    split at h
    · next b hb =>
      split at h
      · next bs lo hbs => cases h; exact ⟨v, b, bs, hv, hb, hbs, rfl⟩
      · cases h
      · cases h
    · cases h
    · cases h

theorem encodeMembers_shape (P : Prims) (types : Types) :
    ∀ (ms : List Member) (fuel : Nat) (data : List (Str × JVal)) (enc : Bytes) (left : List (Str × JVal)),
      (keys data).Nodup → encodeMembers P types fuel ms data = .ok (enc, left) →
      data.length = ms.length + left.length ∧ (ms.map (·.name)).Nodup ∧
        (∀ m ∈ ms, (JVal.get? m.name data).isSome)
  | [], fuel, data, enc, left, _, h => by
    rw [encodeMembers] at h
    cases h
    simp
  | m :: ms, 0, data, enc, left, _, h => by
    rw [encodeMembers] at h
    cases h
  | m :: ms, fuel + 1, data, enc, left, hnd, h => by
    obtain ⟨v, b, bs, hv, _, hbs, _⟩ := encodeMembers_step h
    obtain ⟨hl, hn, hg⟩ := encodeMembers_shape P types ms fuel _ bs left (keys_removeKey_nodup hnd) hbs
    have hlen := length_removeKey data hv
    have hnot : ∀ m' ∈ ms, m'.name ≠ m.name := by
      intro m' hm' he
      have := hg m' hm'
      rw [he, get_removeKey_self data hnd] at this
      cases this
    refine ⟨?_, ?_, ?_⟩
    · simp only [List.length_cons]; omega
    · simp only [List.map_cons, List.nodup_cons]
      refine ⟨?_, hn⟩
      intro hmem
      obtain ⟨m', hm', he⟩ := List.mem_map.1 hmem
      exact hnot m' hm' he
    · intro m' hm'
      rcases List.mem_cons.1 hm' with rfl | hm'
      · simp [hv]
      · have := hg m' hm'
        rwa [get_removeKey_ne (hnot m' hm')] at this

theorem encodeMemberData_removeKey (keccak : Bytes → Bytes) (types : Types) (k : Str)
    (data : List (Str × JVal)) :
    ∀ (ms : List Member) (fuel : Nat), (∀ m ∈ ms, m.name ≠ k) →
      encodeMemberData keccak types fuel ms (removeKey k data) =
        encodeMemberData keccak types fuel ms data
  | [], fuel, _ => by rw [encodeMemberData, encodeMemberData]
  | m :: ms, 0, _ => by rw [encodeMemberData, encodeMemberData]
  | m :: ms, fuel + 1, h => by
    rw [encodeMemberData, encodeMemberData,
      get_removeKey_ne (h m (List.mem_cons_self ..)),
      encodeMemberData_removeKey keccak types k data ms fuel
        (fun m' hm' => h m' (List.mem_cons_of_mem _ hm'))]

/-! ### soundness of the value encoding -/

/-- the model's and the specification's `encodeType` agree (proved separately) -/
def EncodeTypeAgrees (types : Types) : Prop :=
  ∀ name, (TypedData.encodeType types name).toOption = Spec.Eip712.encodeType types name

/-- plain number literals, no `0x0x…` strings, distinct keys in every object -/
def Good : JVal → Bool := JAll plainLit noDoublePrefixStr (fun kv => decide (keys kv).Nodup)
def GoodList : List JVal → Bool := JAllList plainLit noDoublePrefixStr (fun kv => decide (keys kv).Nodup)
def GoodMembers : List (Str × JVal) → Bool :=
  JAllMembers plainLit noDoublePrefixStr (fun kv => decide (keys kv).Nodup)

theorem i256Bytes_eq (v : Int) : i256Bytes v = twosComplement v := rfl

theorem typeHash_ok {P : Prims} {types : Types} (hT : EncodeTypeAgrees types) {name : Str} {th : Bytes}
    (h : typeHash P types name = .ok th) :
    ∃ ty, Spec.Eip712.encodeType types name = some ty ∧ th = P.keccak256 (Utf8.encode ty) := by
  unfold typeHash at h
  have := hT name
  cases he : TypedData.encodeType types name with
  | ok s =>
    rw [he] at h this
    simp only [Res.bind] at h
    cases h
    exact ⟨s, this.symm, rfl⟩
  | err e => rw [he] at h; cases h
  | panic e => rw [he] at h; cases h

theorem encodeValue_sound_leaf (P : Prims) (types : Types) (fuel : Nat) (k : MemberKind) (v : JVal)
    (w : Bytes) (hg : Good v = true)
    (hk : (∀ name, k ≠ .struct name) ∧ (∀ inner size, k ≠ .array inner size))
    (h : encodeValue P types (fuel + 1) k v = .ok w) :
    encodeField P.keccak256 types (fuel + 1) k v = some w := by
  have hpl : ∀ lit, v = .num lit → plainLit lit = true := by
    intro lit e; subst e; simpa [Good, JAll] using hg
  have hnd : ∀ s, v = .str s → noDoublePrefixStr s = true := by
    intro s e; subst e; simpa [Good, JAll] using hg
  cases k with
  | bytes n =>
    rw [encodeValue] at h
    split at h
    · next b hb =>
      have hb' := bytesOfJson_ok hb
      cases n with
      | none =>
        simp only at h
        cases h
        rw [encodeField]
        · simp [hb']
      | some n =>
        simp only at h
        split at h
        · split at h
          · next hl =>
            cases h
            rw [encodeField]
            · simp [hb', hl]
          · cases h
        · cases h
    · cases h
    · cases h
  | uint n =>
    rw [encodeValue] at h
    split at h
    · next x hx =>
      obtain ⟨hd, _⟩ := uint_exact v x hpl hx
      split at h
      · next hlt =>
        have h := Res.ok.inj h
        subst h
        rw [encodeField]
        simp only [hd]
        have : (0 : Int) ≤ (x : Int) ∧ (x : Int) < (2 ^ n : Int) := by
          refine ⟨Int.natCast_nonneg _, ?_⟩
          exact_mod_cast hlt
        simp [this]
      · cases h
    · cases h
    · cases h
  | int n =>
    rw [encodeValue] at h
    split at h
    · next x hx =>
      obtain ⟨hd, _⟩ := int_exact v x hpl hx
      split at h
      · next hb =>
        have h := Res.ok.inj h
        subst h
        rw [encodeField]
        simp only [hd, hb]
        simp [i256Bytes_eq]
      · cases h
    · cases h
    · cases h
  | bool =>
    cases v with
    | bool b =>
      cases b
      · rw [encodeValue] at h; cases h; rw [encodeField]; rfl
      · rw [encodeValue] at h; cases h; rw [encodeField]; rfl
    | null => simp [encodeValue] at h
    | num n => simp [encodeValue] at h
    | str s => simp [encodeValue] at h
    | arr l => simp [encodeValue] at h
    | obj kv => simp [encodeValue] at h
  | address =>
    rw [encodeValue] at h
    split at h
    · next a ha =>
      cases h
      obtain ⟨h1, h2⟩ := addressOfJson_ok hnd ha
      rw [encodeField]
      simp [h1, h2]
    · cases h
    · cases h
  | string =>
    cases v with
    | str s => rw [encodeValue] at h; cases h; rw [encodeField]
    | null => simp [encodeValue] at h
    | num n => simp [encodeValue] at h
    | bool b => simp [encodeValue] at h
    | arr l => simp [encodeValue] at h
    | obj kv => simp [encodeValue] at h
  | struct name => exact absurd rfl (hk.1 name)
  | array inner size => exact absurd rfl (hk.2 inner size)

theorem Good_obj {kv : List (Str × JVal)} (h : Good (.obj kv) = true) :
    (keys kv).Nodup ∧ GoodMembers kv = true := by
  simpa [Good, GoodMembers, JAll] using h

theorem Good_arr {l : List JVal} (h : Good (.arr l) = true) : GoodList l = true := by
  simpa [Good, GoodList, JAll] using h

theorem GoodList_cons {v : JVal} {vs : List JVal} (h : GoodList (v :: vs) = true) :
    Good v = true ∧ GoodList vs = true := by
  simpa [Good, GoodList, JAllList] using h

theorem sound_all (P : Prims) (types : Types) (hT : EncodeTypeAgrees types) : ∀ fuel : Nat,
    (∀ k v w, Good v = true → encodeValue P types fuel k v = .ok w →
        encodeField P.keccak256 types fuel k v = some w) ∧
    (∀ k l w, GoodList l = true → encodeElems P types fuel k l = .ok w →
        encodeFields P.keccak256 types fuel k l = some w) ∧
    (∀ name kv w, GoodMembers kv = true → (keys kv).Nodup →
        structHash P types fuel name kv = .ok w →
        hashStruct P.keccak256 types fuel name kv = some w) ∧
    (∀ ms data enc left, GoodMembers data = true → (keys data).Nodup →
        encodeMembers P types fuel ms data = .ok (enc, left) →
        encodeMemberData P.keccak256 types fuel ms data = some enc) := by
  intro fuel
  induction fuel with
  | zero =>
    refine ⟨?_, ?_, ?_, ?_⟩
    · intro k v w _ h
      rw [encodeValue] at h; cases h
    · intro k l w _ h
      cases l with
      | nil => rw [encodeElems] at h; cases h; rw [encodeFields]
      | cons v vs => rw [encodeElems] at h; cases h
    · intro name kv w _ _ h
      rw [structHash] at h; cases h
    · intro ms data enc left _ _ h
      cases ms with
      | nil => rw [encodeMembers] at h; cases h; rw [encodeMemberData]
      | cons m ms => rw [encodeMembers] at h; cases h
  | succ fuel ih =>
    obtain ⟨ihV, ihE, ihS, ihM⟩ := ih
    refine ⟨?_, ?_, ?_, ?_⟩
    · intro k v w hg h
      by_cases hs : ∃ name, k = .struct name
      · obtain ⟨name, rfl⟩ := hs
        cases v with
        | obj kv =>
          rw [encodeValue] at h
          obtain ⟨hn, hm⟩ := Good_obj hg
          rw [encodeField]
          exact ihS name kv w hm hn h
        | null => simp [encodeValue] at h
        | num n => simp [encodeValue] at h
        | bool b => simp [encodeValue] at h
        | arr l => simp [encodeValue] at h
        | str s => simp [encodeValue] at h
      · by_cases ha : ∃ inner size, k = .array inner size
        · obtain ⟨inner, size, rfl⟩ := ha
          cases v with
          | arr elems =>
            cases size <;>
            · rw [encodeValue] at h
              rw [encodeField]
              split at h
              · next hsz =>
                rw [if_pos hsz]
                split at h
                · next bs hbs =>
                  have h := Res.ok.inj h
                  subst h
                  rw [ihE inner elems bs (Good_arr hg) hbs]
                  rfl
                · cases h
                · cases h
              · cases h
          | null => simp [encodeValue] at h
          | num n => simp [encodeValue] at h
          | bool b => simp [encodeValue] at h
          | obj kv => simp [encodeValue] at h
          | str s => simp [encodeValue] at h
        · exact encodeValue_sound_leaf P types fuel k v w hg
            ⟨fun name e => hs ⟨name, e⟩, fun inner size e => ha ⟨inner, size, e⟩⟩ h
    · intro k l w hg h
      cases l with
      | nil => rw [encodeElems] at h; cases h; rw [encodeFields]
      | cons v vs =>
        obtain ⟨hg1, hg2⟩ := GoodList_cons hg
        rw [encodeElems] at h
        split at h
        · next b hb =>
          split at h
          · next bs hbs =>
            have h := Res.ok.inj h
            subst h
            rw [encodeFields, ihV k v b hg1 hb, ihE k vs bs hg2 hbs]
          · cases h
          · cases h
        · cases h
        · cases h
    · intro name kv w hg hn h
      rw [structHash] at h
      split at h
      · cases h
      · next members hmem =>
        split at h
        · next th hth =>
          obtain ⟨ty, hty, rfl⟩ := typeHash_ok hT hth
          split at h
          · next enc left henc =>
            split at h
            · next hempty =>
              have h := Res.ok.inj h
              subst h
              obtain ⟨hl, hnn, _⟩ := encodeMembers_shape P types members fuel kv enc left hn henc
              have hleft : left = [] := by simpa using hempty
              subst hleft
              rw [hashStruct]
              simp only [hmem, hty]
              rw [if_pos ⟨by simpa using hl, hnn⟩, ihM members kv enc [] hg hn henc]
            · cases h
          · cases h
          · cases h
        · cases h
        · cases h
    · intro ms data enc left hg hn h
      cases ms with
      | nil => rw [encodeMembers] at h; cases h; rw [encodeMemberData]
      | cons m ms =>
        obtain ⟨_, hnn, _⟩ := encodeMembers_shape P types (m :: ms) (fuel + 1) data enc left hn h
        obtain ⟨v, b, bs, hv, hb, hbs, rfl⟩ := encodeMembers_step h
        have hnot : ∀ m' ∈ ms, m'.name ≠ m.name := by
          intro m' hm' he
          simp only [List.map_cons, List.nodup_cons] at hnn
          exact hnn.1 (he ▸ List.mem_map_of_mem hm')
        have h1 := ihV m.kind v b (JAll_get data hg hv) hb
        have h2 := ihM ms _ bs left (JAll_removeKey data hg) (keys_removeKey_nodup hn) hbs
        rw [encodeMemberData_removeKey _ _ _ _ _ _ hnot] at h2
        rw [encodeMemberData, hv]
        simp only [h1, h2]

/-! ### whole documents -/

def toMember (p : Str × MemberKind) : Member := ⟨p.1, p.2⟩

theorem standardDomain_eq : standardDomain = domainMembers.map toMember := rfl

theorem isSublist_of_findAllowed (m : Member) (ms : List Member) :
    ∀ (allowed rest : List (Str × MemberKind)),
      findAllowed m.name allowed = some (m.kind, rest) →
      isSublist ms (rest.map toMember) = true →
      isSublist (m :: ms) (allowed.map toMember) = true
  | [], rest, h, _ => by simp [findAllowed] at h
  | (n, k) :: tl, rest, h, hs => by
    simp only [findAllowed] at h
    simp only [List.map_cons, isSublist, toMember]
    by_cases hn : m.name = n
    · simp only [hn, if_true] at h
      cases h
      have : m = ⟨n, m.kind⟩ := by cases m; simp_all
      rw [if_pos this]
      exact hs
    · simp only [hn, if_false] at h
      have : m ≠ ⟨n, k⟩ := by intro e; apply hn; rw [e]
      rw [if_neg this]
      exact isSublist_of_findAllowed m ms tl rest h hs

theorem isSublist_nil (l : List Member) : isSublist [] l = true := by
  cases l <;> rfl

theorem isSublist_of_scan :
    ∀ (ms : List Member) (allowed : List (Str × MemberKind)),
      scanDomain ms allowed = .ok () → isSublist ms (allowed.map toMember) = true
  | [], allowed, _ => isSublist_nil _
  | m :: ms, allowed, h => by
    simp only [scanDomain] at h
    split at h
    · cases h
    · next kind rest hf =>
      split at h
      · next hk =>
        subst hk
        exact isSublist_of_findAllowed m ms allowed rest hf (isSublist_of_scan ms rest h)
      · cases h

theorem verifyDomainType_ok {types : Types} (h : verifyDomainType types = .ok ()) :
    ∃ dm, types.get? (chars! "EIP712Domain") = some dm ∧ dm ≠ [] ∧
      isSublist dm standardDomain = true := by
  unfold verifyDomainType at h
  split at h
  · cases h
  · next members hm =>
    refine ⟨members, hm, ?_⟩
    split at h
    · cases h
    · next hne =>
      refine ⟨?_, ?_⟩
      · intro e; subst e; simp at hne
      · rw [standardDomain_eq]; exact isSublist_of_scan _ _ h

theorem compute_ok {P : Prims} {b : Blob} {d : Digests} (h : compute P b = .ok d) :
    verifyDomainType b.types = .ok () ∧
    structHash P b.types (3 * (jsizeMembers b.domain + jsizeMembers b.message) + 4)
      (chars! "EIP712Domain") b.domain = .ok d.domainSeparator ∧
    structHash P b.types (3 * (jsizeMembers b.domain + jsizeMembers b.message) + 4)
      b.primaryType b.message = .ok d.messageHash ∧
    d.digest = P.keccak256 ([0x19, 0x01] ++ d.domainSeparator ++ d.messageHash) := by
  unfold compute at h
  split at h
  · cases h
  · cases h
  · next hv =>
    simp only at h
    split at h
    · cases h
    · cases h
    · next ds hds =>
      split at h
      · cases h
      · cases h
      · next mh hmh =>
        cases h
        exact ⟨hv, hds, hmh, rfl⟩

theorem compute_sound (P : Prims) (b : Blob) (d : Digests) (hT : EncodeTypeAgrees b.types)
    (hgd : GoodMembers b.domain = true) (hnd : (keys b.domain).Nodup)
    (hgm : GoodMembers b.message = true) (hnm : (keys b.message).Nodup)
    (h : compute P b = .ok d) :
    digests P.keccak256 b.types b.primaryType b.domain b.message
      (3 * (jsizeMembers b.domain + jsizeMembers b.message) + 4) =
      some (d.domainSeparator, d.messageHash, d.digest) := by
  obtain ⟨hv, hds, hmh, hdig⟩ := compute_ok h
  obtain ⟨dm, hdm, hne, hsub⟩ := verifyDomainType_ok hv
  have hS := (sound_all P b.types hT (3 * (jsizeMembers b.domain + jsizeMembers b.message) + 4)).2.2.1
  unfold digests
  simp only [hdm]
  rw [hS _ _ _ hgd hnd hds, hS _ _ _ hgm hnm hmh]
  simp [hne, hsub, hdig]

/-! ### no panic -/

theorem uintOfJson_ne_panic (v : JVal) (site : String) : uintOfJson v ≠ .panic site := by
  unfold uintOfJson
  repeat' split
  all_goals simp

theorem intOfJson_ne_panic (v : JVal) (site : String) : intOfJson v ≠ .panic site := by
  unfold intOfJson
  repeat' split
  all_goals simp

theorem bytesOfJson_ne_panic (v : JVal) (site : String) : bytesOfJson v ≠ .panic site := by
  unfold bytesOfJson
  repeat' split
  all_goals simp

theorem addressOfJson_ne_panic (v : JVal) (site : String) : addressOfJson v ≠ .panic site := by
  unfold addressOfJson
  repeat' split
  all_goals first | (simp; done) | (simp only []; split <;> simp)

theorem bytesOfJson_str {v : JVal} {b : Bytes} (h : bytesOfJson v = .ok b) : ∃ s, v = .str s := by
  cases v with
  | str s => exact ⟨s, rfl⟩
  | null => simp [bytesOfJson] at h
  | bool b => simp [bytesOfJson] at h
  | num n => simp [bytesOfJson] at h
  | arr l => simp [bytesOfJson] at h
  | obj kv => simp [bytesOfJson] at h

/-- every string is shorter than 2^33 characters -/
def Short : JVal → Bool := JAll (fun _ => true) (fun s => decide (s.length < 2 ^ 33)) (fun _ => true)
def ShortList : List JVal → Bool :=
  JAllList (fun _ => true) (fun s => decide (s.length < 2 ^ 33)) (fun _ => true)
def ShortMembers : List (Str × JVal) → Bool :=
  JAllMembers (fun _ => true) (fun s => decide (s.length < 2 ^ 33)) (fun _ => true)

theorem encodeValue_leaf_ne_panic (P : Prims) (types : Types) (fuel : Nat) (k : MemberKind) (v : JVal)
    (site : String) (hs : Short v = true)
    (hk : (∀ name, k ≠ .struct name) ∧ (∀ inner size, k ≠ .array inner size)) :
    encodeValue P types (fuel + 1) k v ≠ .panic site := by
  intro h
  cases k with
  | bytes n =>
    rw [encodeValue] at h
    split at h
    · next b hb =>
      cases n with
      | none => cases h
      | some n =>
        simp only at h
        split at h
        · next hmod =>
          split at h
          · cases h
          · next hne =>
            obtain ⟨s, rfl⟩ := bytesOfJson_str hb
            have hlen := bytesOfJson_len hb
            have hsl : s.length < 2 ^ 33 := by simpa [Short, JAll] using hs
            have : b.length % 2 ^ 32 = b.length := Nat.mod_eq_of_lt (by omega)
            omega
        · cases h
    · cases h
    · next e he => exact bytesOfJson_ne_panic v e he
  | uint n =>
    rw [encodeValue] at h
    split at h
    · split at h <;> cases h
    · cases h
    · next e he => exact uintOfJson_ne_panic v e he
  | int n =>
    rw [encodeValue] at h
    split at h
    · split at h <;> cases h
    · cases h
    · next e he => exact intOfJson_ne_panic v e he
  | bool =>
    cases v with
    | bool b => cases b <;> simp [encodeValue] at h
    | null => simp [encodeValue] at h
    | num n => simp [encodeValue] at h
    | str s => simp [encodeValue] at h
    | arr l => simp [encodeValue] at h
    | obj kv => simp [encodeValue] at h
  | address =>
    rw [encodeValue] at h
    split at h
    · cases h
    · cases h
    · next e he => exact addressOfJson_ne_panic v e he
  | string =>
    cases v with
    | str s => simp [encodeValue] at h
    | null => simp [encodeValue] at h
    | num n => simp [encodeValue] at h
    | bool b => simp [encodeValue] at h
    | arr l => simp [encodeValue] at h
    | obj kv => simp [encodeValue] at h
  | struct name => exact absurd rfl (hk.1 name)
  | array inner size => exact absurd rfl (hk.2 inner size)

theorem typeHash_ne_panic {P : Prims} {types : Types}
    (hET : ∀ name site, TypedData.encodeType types name ≠ .panic site) (name : Str) (site : String) :
    typeHash P types name ≠ .panic site := by
  unfold typeHash
  cases he : TypedData.encodeType types name with
  | ok s => simp [Res.bind]
  | err e => simp [Res.bind]
  | panic e => exact absurd he (hET name e)

theorem noPanic_all (P : Prims) (types : Types)
    (hET : ∀ name site, TypedData.encodeType types name ≠ .panic site) : ∀ fuel : Nat,
    (∀ k v site, Short v = true → 3 * jsize v ≤ fuel → encodeValue P types fuel k v ≠ .panic site) ∧
    (∀ k l site, ShortList l = true → 3 * jsizeList l + 1 ≤ fuel →
        encodeElems P types fuel k l ≠ .panic site) ∧
    (∀ name kv site, ShortMembers kv = true → 3 * jsizeMembers kv + 2 ≤ fuel →
        structHash P types fuel name kv ≠ .panic site) ∧
    (∀ ms data site, ShortMembers data = true → 3 * jsizeMembers data + 1 ≤ fuel →
        encodeMembers P types fuel ms data ≠ .panic site) := by
  intro fuel
  induction fuel with
  | zero =>
    refine ⟨?_, ?_, ?_, ?_⟩
    · intro k v site _ hf
      have := jsize_pos v
      omega
    · intro k l site _ hf; omega
    · intro name kv site _ hf; omega
    · intro ms data site _ hf; omega
  | succ fuel ih =>
    obtain ⟨ihV, ihE, ihS, ihM⟩ := ih
    refine ⟨?_, ?_, ?_, ?_⟩
    · intro k v site hs hf h
      by_cases hst : ∃ name, k = .struct name
      · obtain ⟨name, rfl⟩ := hst
        cases v with
        | obj kv =>
          rw [encodeValue] at h
          have hs' : ShortMembers kv = true := by simpa [Short, ShortMembers, JAll] using hs
          simp only [jsize] at hf
          exact ihS name kv site hs' (by omega) h
        | null => simp [encodeValue] at h
        | num n => simp [encodeValue] at h
        | bool b => simp [encodeValue] at h
        | arr l => simp [encodeValue] at h
        | str s => simp [encodeValue] at h
      · by_cases ha : ∃ inner size, k = .array inner size
        · obtain ⟨inner, size, rfl⟩ := ha
          cases v with
          | arr elems =>
            have hs' : ShortList elems = true := by simpa [Short, ShortList, JAll] using hs
            simp only [jsize] at hf
            cases size <;>
            · rw [encodeValue] at h
              split at h
              · split at h
                · cases h
                · cases h
                · next e he =>
                  exact ihE inner elems e hs' (by omega) he
              · cases h
          | null => simp [encodeValue] at h
          | num n => simp [encodeValue] at h
          | bool b => simp [encodeValue] at h
          | obj kv => simp [encodeValue] at h
          | str s => simp [encodeValue] at h
        · exact encodeValue_leaf_ne_panic P types fuel k v site hs
            ⟨fun name e => hst ⟨name, e⟩, fun inner size e => ha ⟨inner, size, e⟩⟩ h
    · intro k l site hs hf h
      cases l with
      | nil => rw [encodeElems] at h; cases h
      | cons v vs =>
        have hs' : Short v = true ∧ ShortList vs = true := by
          simpa [Short, ShortList, JAllList] using hs
        simp only [jsizeList] at hf
        have := jsize_pos v
        rw [encodeElems] at h
        split at h
        · split at h
          · cases h
          · cases h
          · next e he => exact ihE k vs e hs'.2 (by omega) he
        · cases h
        · next e he => exact ihV k v e hs'.1 (by omega) he
    · intro name kv site hs hf h
      rw [structHash] at h
      split at h
      · cases h
      · split at h
        · split at h
          · split at h <;> cases h
          · cases h
          · next e he => exact ihM _ kv e hs (by omega) he
        · cases h
        · next e he => exact typeHash_ne_panic hET name e he
    · intro ms data site hs hf h
      cases ms with
      | nil => rw [encodeMembers] at h; cases h
      | cons m ms =>
        rw [encodeMembers] at h
        split at h
        · cases h
        · next v hv =>
          have hsz := jsize_removeKey data hv
          have := jsize_pos v
          split at h
          · split at h
            · cases h
            · cases h
            · next e he =>
              exact ihM ms _ e (JAll_removeKey data hs) (by omega) he
          · cases h
          · next e he => exact ihV m.kind v e (JAll_get data hs hv) (by omega) he

theorem compute_ne_panic (P : Prims) (b : Blob)
    (hsd : ShortMembers b.domain = true) (hsm : ShortMembers b.message = true)
    (hET : ∀ name site, TypedData.encodeType b.types name ≠ .panic site) (site : String) :
    compute P b ≠ .panic site := by
  have hS := (noPanic_all P b.types hET
    (3 * (jsizeMembers b.domain + jsizeMembers b.message) + 4)).2.2.1
  intro h
  unfold compute at h
  split at h
  · cases h
  · next e he =>
    unfold verifyDomainType at he
    split at he
    · cases he
    · split at he
      · cases he
      · next ms _ _ =>
        have : ∀ (ms : List Member) (al : List (Str × MemberKind)), scanDomain ms al ≠ .panic e := by
          intro ms
          induction ms with
          | nil => intro al; simp [scanDomain]
          | cons m ms ih =>
            intro al
            simp only [scanDomain]
            split
            · simp
            · split
              · exact ih _
              · simp
        exact this _ _ he
  · simp only at h
    split at h
    · cases h
    · next e he => exact hS _ _ e hsd (by omega) he
    · split at h
      · cases h
      · next e he => exact hS _ _ e hsm (by omega) he
      · cases h

/-! ### bridging: functions defined by the same equations are `JAll` -/

/-- the defining equations of `JAll`, as a property of a triple of functions -/
structure IsJAll (pn : NumLit → Bool) (ps : Str → Bool) (po : List (Str × JVal) → Bool)
    (f : JVal → Bool) (fl : List JVal → Bool) (fm : List (Str × JVal) → Bool) : Prop where
  num : ∀ n, f (.num n) = pn n
  str : ∀ s, f (.str s) = ps s
  arr : ∀ l, f (.arr l) = fl l
  obj : ∀ kv, f (.obj kv) = (po kv && fm kv)
  null : f .null = true
  bool : ∀ b, f (.bool b) = true
  lnil : fl [] = true
  lcons : ∀ v vs, fl (v :: vs) = (f v && fl vs)
  mnil : fm [] = true
  mcons : ∀ k v r, fm ((k, v) :: r) = (f v && fm r)

mutual
theorem JAll_unique {pn : NumLit → Bool} {ps : Str → Bool} {po : List (Str × JVal) → Bool}
    {f : JVal → Bool} {fl : List JVal → Bool} {fm : List (Str × JVal) → Bool}
    (H : IsJAll pn ps po f fl fm) : ∀ v, f v = JAll pn ps po v
  | .null => by rw [H.null]; rfl
  | .bool b => by rw [H.bool]; rfl
  | .num n => by rw [H.num]; rfl
  | .str s => by rw [H.str]; rfl
  | .arr l => by rw [H.arr, JAllList_unique H l]; rfl
  | .obj kv => by rw [H.obj, JAllMembers_unique H kv]; rfl
theorem JAllList_unique {pn : NumLit → Bool} {ps : Str → Bool} {po : List (Str × JVal) → Bool}
    {f : JVal → Bool} {fl : List JVal → Bool} {fm : List (Str × JVal) → Bool}
    (H : IsJAll pn ps po f fl fm) : ∀ l, fl l = JAllList pn ps po l
  | [] => by rw [H.lnil]; rfl
  | v :: vs => by rw [H.lcons, JAll_unique H v, JAllList_unique H vs]; rfl
theorem JAllMembers_unique {pn : NumLit → Bool} {ps : Str → Bool} {po : List (Str × JVal) → Bool}
    {f : JVal → Bool} {fl : List JVal → Bool} {fm : List (Str × JVal) → Bool}
    (H : IsJAll pn ps po f fl fm) : ∀ kv, fm kv = JAllMembers pn ps po kv
  | [] => by rw [H.mnil]; rfl
  | (k, v) :: r => by rw [H.mcons, JAll_unique H v, JAllMembers_unique H r]; rfl
end

mutual
theorem Good_of (v : JVal) :
    JAll plainLit (fun _ => true) (fun _ => true) v = true →
    JAll (fun _ => true) noDoublePrefixStr (fun _ => true) v = true →
    JAll (fun _ => true) (fun _ => true) (fun kv => decide (keys kv).Nodup) v = true →
    Good v = true := by
  cases v with
  | null => intros; rfl
  | bool b => intros; rfl
  | num n => intro h _ _; simpa [Good, JAll] using h
  | str s => intro _ h _; simpa [Good, JAll] using h
  | arr l =>
    intro a b c
    simp only [JAll] at a b c
    simp only [Good, JAll]
    exact GoodList_of l a b c
  | obj kv =>
    intro a b c
    simp only [JAll, Bool.true_and, Bool.and_eq_true] at a b c
    simp only [Good, JAll, Bool.and_eq_true]
    exact ⟨c.1, GoodMembers_of kv a b c.2⟩
theorem GoodList_of (l : List JVal) :
    JAllList plainLit (fun _ => true) (fun _ => true) l = true →
    JAllList (fun _ => true) noDoublePrefixStr (fun _ => true) l = true →
    JAllList (fun _ => true) (fun _ => true) (fun kv => decide (keys kv).Nodup) l = true →
    GoodList l = true := by
  cases l with
  | nil => intros; rfl
  | cons v vs =>
    intro a b c
    simp only [JAllList, Bool.and_eq_true] at a b c
    simp only [GoodList, JAllList, Bool.and_eq_true]
    exact ⟨Good_of v a.1 b.1 c.1, GoodList_of vs a.2 b.2 c.2⟩
theorem GoodMembers_of (kv : List (Str × JVal)) :
    JAllMembers plainLit (fun _ => true) (fun _ => true) kv = true →
    JAllMembers (fun _ => true) noDoublePrefixStr (fun _ => true) kv = true →
    JAllMembers (fun _ => true) (fun _ => true) (fun kv => decide (keys kv).Nodup) kv = true →
    GoodMembers kv = true := by
  cases kv with
  | nil => intros; rfl
  | cons p r =>
    obtain ⟨k, v⟩ := p
    intro a b c
    simp only [JAllMembers, Bool.and_eq_true] at a b c
    simp only [GoodMembers, JAllMembers, Bool.and_eq_true]
    exact ⟨Good_of v a.1 b.1 c.1, GoodMembers_of r a.2 b.2 c.2⟩
end

/-! ### `dedup` delivers distinct keys -/

theorem keys_objInsertFront {k : Str} {v : JVal} {later : List (Str × JVal)}
    (h : (keys later).Nodup) : (keys (objInsertFront k v later)).Nodup := by
  unfold objInsertFront
  split
  · exact h
  · next hany =>
    simp only [keys, List.map_cons, List.nodup_cons]
    refine ⟨?_, h⟩
    intro hmem
    apply hany
    obtain ⟨p, hp, he⟩ := List.mem_map.1 hmem
    exact List.any_eq_true.2 ⟨p, hp, by simpa using he⟩

mutual
theorem dedup_unique (v : JVal) :
    JAll (fun _ => true) (fun _ => true) (fun kv => decide (keys kv).Nodup) (dedup v) = true := by
  cases v with
  | null => rfl
  | bool b => rfl
  | num n => rfl
  | str s => rfl
  | arr l => simp only [dedup, JAll]; exact dedupList_unique l
  | obj kv =>
    simp only [dedup, JAll, Bool.and_eq_true, decide_eq_true_eq]
    exact dedupMembers_unique kv
theorem dedupList_unique (l : List JVal) :
    JAllList (fun _ => true) (fun _ => true) (fun kv => decide (keys kv).Nodup) (dedupList l) = true := by
  cases l with
  | nil => rfl
  | cons v vs =>
    simp only [dedupList, JAllList, Bool.and_eq_true]
    exact ⟨dedup_unique v, dedupList_unique vs⟩
theorem dedupMembers_unique (kv : List (Str × JVal)) :
    (keys (dedupMembers kv)).Nodup ∧
    JAllMembers (fun _ => true) (fun _ => true) (fun kv => decide (keys kv).Nodup)
      (dedupMembers kv) = true := by
  cases kv with
  | nil => exact ⟨List.nodup_nil, rfl⟩
  | cons p r =>
    obtain ⟨k, v⟩ := p
    obtain ⟨h1, h2⟩ := dedupMembers_unique r
    simp only [dedupMembers]
    refine ⟨keys_objInsertFront h1, ?_⟩
    unfold objInsertFront
    split
    · exact h2
    · simp only [JAllMembers, Bool.and_eq_true]
      exact ⟨dedup_unique v, h2⟩
end

/-! ### the individual refusals -/

theorem uint_range (P : Prims) (types : Types) (fuel n : Nat) (v : JVal) (w : Bytes)
    (hp : ∀ lit, v = .num lit → plainLit lit = true)
    (h : encodeValue P types (fuel + 1) (.uint n) v = .ok w) :
    ∃ x : Int, denotesInt? v = some x ∧ 0 ≤ x ∧ x < (2 ^ n : Int) ∧ w = beFixed 32 x.toNat := by
  rw [encodeValue] at h
  split at h
  · next x hx =>
    obtain ⟨hd, _⟩ := uint_exact v x hp hx
    split at h
    · next hlt =>
      have h := Res.ok.inj h
      subst h
      refine ⟨(x : Int), hd, Int.natCast_nonneg _, ?_, ?_⟩
      · exact_mod_cast hlt
      · simp
    · cases h
  · cases h
  · cases h

theorem int_range (P : Prims) (types : Types) (fuel n : Nat) (v : JVal) (w : Bytes)
    (hp : ∀ lit, v = .num lit → plainLit lit = true)
    (h : encodeValue P types (fuel + 1) (.int n) v = .ok w) :
    ∃ x : Int, denotesInt? v = some x ∧ -(2 ^ (n - 1) : Int) ≤ x ∧ x < (2 ^ (n - 1) : Int) ∧
      w = twosComplement x := by
  rw [encodeValue] at h
  split at h
  · next x hx =>
    obtain ⟨hd, _⟩ := int_exact v x hp hx
    split at h
    · next hb =>
      have h := Res.ok.inj h
      subst h
      exact ⟨x, hd, hb.1, hb.2, rfl⟩
    · cases h
  · cases h
  · cases h

theorem bytesN_exact (P : Prims) (types : Types) (fuel n : Nat) (v : JVal) (w : Bytes)
    (h : encodeValue P types (fuel + 1) (.bytes (some n)) v = .ok w) :
    ∃ b, hexBytes? v = some b ∧ b.length = n ∧ w = b ++ List.replicate (32 - n) 0 := by
  rw [encodeValue] at h
  split at h
  · next b hb =>
    simp only at h
    split at h
    · split at h
      · next hl =>
        have h := Res.ok.inj h
        exact ⟨b, bytesOfJson_ok hb, hl, h.symm⟩
      · cases h
    · cases h
  · cases h
  · cases h

theorem fixed_array_size (P : Prims) (types : Types) (fuel n : Nat) (inner : MemberKind) (v : JVal)
    (w : Bytes) (h : encodeValue P types (fuel + 1) (.array inner (some n)) v = .ok w) :
    ∃ elems, v = .arr elems ∧ elems.length = n := by
  cases v with
  | arr elems =>
    rw [encodeValue] at h
    split at h
    · next hsz => exact ⟨elems, rfl, by simpa using hsz⟩
    · cases h
  | null => simp [encodeValue] at h
  | num n => simp [encodeValue] at h
  | bool b => simp [encodeValue] at h
  | obj kv => simp [encodeValue] at h
  | str s => simp [encodeValue] at h

theorem struct_members_exact (P : Prims) (types : Types) (fuel : Nat) (name : Str)
    (kv : List (Str × JVal)) (w : Bytes) (hu : (keys kv).Nodup)
    (h : structHash P types fuel name kv = .ok w) :
    ∃ members, types.get? name = some members ∧ kv.length = members.length ∧
      (∀ m ∈ members, (JVal.get? m.name kv).isSome) ∧ (members.map (·.name)).Nodup := by
  cases fuel with
  | zero => rw [structHash] at h; cases h
  | succ fuel =>
    rw [structHash] at h
    split at h
    · cases h
    · next members hmem =>
      split at h
      · split at h
        · next enc left henc =>
          split at h
          · next hempty =>
            obtain ⟨hl, hnn, hg⟩ := encodeMembers_shape P types members fuel kv enc left hu henc
            have hleft : left = [] := by simpa using hempty
            subst hleft
            exact ⟨members, hmem, by simpa using hl, hg, hnn⟩
          · cases h
        · cases h
        · cases h
      · cases h
      · cases h

theorem undefined_type_refused (P : Prims) (types : Types) (fuel : Nat) (name : Str)
    (kv : List (Str × JVal)) (h : types.get? name = none) :
    ∃ e, structHash P types (fuel + 1) name kv = .err e := by
  rw [structHash, h]
  exact ⟨_, rfl⟩

theorem bytesN_truncation_panics (P : Prims) (types : Types) (n : Nat) (v : JVal) (b : Bytes)
    (hb : bytesOfJson v = .ok b) (hmod : b.length % 2 ^ 32 = n) (hne : b.length ≠ n) :
    ∃ site, encodeValue P types 1 (.bytes (some n)) v = .panic site := by
  rw [encodeValue, hb]
  simp only
  rw [if_pos hmod.symm, if_neg hne]
  exact ⟨_, rfl⟩

theorem exists_err_of_isErr {α} {r : Res α} (h : r.isErr = true) : ∃ e, r = .err e := by
  cases r with
  | err e => exact ⟨e, rfl⟩
  | ok a => cases h
  | panic e => cases h

end Hdw.TdValue
