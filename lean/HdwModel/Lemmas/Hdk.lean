/-
Helper lemmas for C03 (BIP-32 derivation): the derivation loop of `Hdw.Hdk` against
`Hdw.Spec.Bip32`.
-/
import HdwModel.Model.Hdk
import HdwModel.Spec.Bip32
import HdwModel.Lemmas.Account

namespace Hdw.Hdk
variable {Pt : Type}
open Hdw.Account Hdw.Spec.Bip32

/-! ### the hardened bit -/

theorem or_hardenedBit (v : Nat) (h : v < 2 ^ 31) : (v ||| hardenedBit) % 2 ^ 32 = v + 2 ^ 31 := by
  have h1 : v ||| hardenedBit = 2 ^ 31 * 1 + v := by
    rw [Nat.two_pow_add_eq_or_of_lt h 1, Nat.or_comm]; rfl
  rw [h1]; omega

/-! ### local copies of the strict spec (the Props file proves they coincide with its own) -/

/-- BIP-32 child number of a path component -/
def childNum : Path.Component → Nat
  | .hardened v => v + 2 ^ 31
  | .normal v => v

/-- the HMAC output `I` of CKDpriv -/
def specI (hmac512 : Bytes → Bytes → Bytes) (serP : Nat → Bytes) (par : XPrv) (i : Nat) : Bytes :=
  if i ≥ 2 ^ 31 then hmac512 par.c ([0x00] ++ Spec.Bip32.ser256 par.k ++ Spec.Bip32.ser32 i)
  else hmac512 par.c (serP par.k ++ Spec.Bip32.ser32 i)

def ckdStrict (hmac512 : Bytes → Bytes → Bytes) (serP : Nat → Bytes) (n : Nat) (par : XPrv) (i : Nat) :
    Option XPrv :=
  if parse256 ((specI hmac512 serP par i).take 32) = 0 then none else ckdPriv hmac512 serP n par i

def deriveFromS (hmac512 : Bytes → Bytes → Bytes) (serP : Nat → Bytes) (n : Nat) :
    XPrv → List Nat → Option XPrv
  | x, [] => some x
  | x, i :: is =>
    match ckdStrict hmac512 serP n x i with
    | some x' => deriveFromS hmac512 serP n x' is
    | none => none

theorem ckdPriv_eq (hmac512 : Bytes → Bytes → Bytes) (serP : Nat → Bytes) (n : Nat) (par : XPrv)
    (i : Nat) :
    ckdPriv hmac512 serP n par i =
      if parse256 ((specI hmac512 serP par i).take 32) ≥ n ∨
          (parse256 ((specI hmac512 serP par i).take 32) + par.k) % n = 0 then none
      else some ⟨(parse256 ((specI hmac512 serP par i).take 32) + par.k) % n,
        (specI hmac512 serP par i).drop 32⟩ := rfl

theorem ckdStrict_sound {hmac512 : Bytes → Bytes → Bytes} {serP : Nat → Bytes} {n : Nat} {par : XPrv}
    {i : Nat} {x : XPrv} (h : ckdStrict hmac512 serP n par i = some x) :
    ckdPriv hmac512 serP n par i = some x := by
  unfold ckdStrict at h
  split at h
  · cases h
  · exact h

theorem deriveFromS_sound (hmac512 : Bytes → Bytes → Bytes) (serP : Nat → Bytes) (n : Nat) :
    ∀ (cns : List Nat) (x y : XPrv), deriveFromS hmac512 serP n x cns = some y →
      deriveFrom hmac512 serP n x cns = some y
  | [], x, y, h => by simpa [deriveFromS, deriveFrom] using h
  | i :: is, x, y, h => by
    rw [deriveFromS] at h
    rw [deriveFrom]
    cases hc : ckdStrict hmac512 serP n x i with
    | none => rw [hc] at h; cases h
    | some x' =>
      rw [hc] at h
      rw [ckdStrict_sound hc]
      exact deriveFromS_sound hmac512 serP n is x' y h

/-! ### one loop iteration -/

theorem hmacSha512_length (P : Prims) (h : ∀ b, (P.sha512 b).length = 64) (k m : Bytes) :
    (Mnemonic.hmacSha512 P k m).length = 64 := by
  unfold Mnemonic.hmacSha512 Prim.hmac
  exact h _

/-- the part of `stepKey` after the parent secret has been read -/
def stepCore (n k : Nat) (I : Bytes) : Res Bytes :=
  match secretFromSlice n (I.take 32) with
  | .err _ => .err "path component yields invalid child key"
  | .panic e => .panic e
  | .ok childSecret => .ok (beFixed 32 ((childSecret + k) % n) ++ I.drop 32)

theorem take_ext (k : Nat) (c : Bytes) : (beFixed 32 k ++ c).take 32 = beFixed 32 k :=
  List.take_left' (beFixed_length 32 k)

theorem drop_ext (k : Nat) (c : Bytes) : (beFixed 32 k ++ c).drop 32 = c :=
  List.drop_left' (beFixed_length 32 k)

theorem secretFromSlice_beFixed (n k : Nat) (hn : n ≤ 2 ^ 256) (hk0 : 0 < k) (hkn : k < n) :
    secretFromSlice n (beFixed 32 k) = .ok k := by
  have hv : beVal (beFixed 32 k) = k := beVal_beFixed_32 (by omega)
  have := secretFromSlice_ok_of_32 n (beFixed 32 k) (beFixed_length 32 k) (by omega) (by omega)
  rw [this, hv]

theorem secretFromSlice_beFixed_zero (n : Nat) :
    ∃ e, secretFromSlice n (beFixed 32 0) = .err e :=
  secretFromSlice_err_of_zero n _ (by rw [beVal_beFixed, Nat.zero_mod])

theorem ser32_eq (v : Nat) : Hdk.ser32 v = Spec.Bip32.ser32 v := rfl
theorem ser256_eq (v : Nat) : Spec.Bip32.ser256 v = beFixed 32 v := rfl

theorem stepKey_err (P : Prims) (C : Curve Pt) (ext : Bytes) (comp : Path.Component) (e : String)
    (h : secretFromSlice C.n (ext.take 32) = .err e) : stepKey P C ext comp = .err e := by
  rw [stepKey.eq_1]
  simp only [h]

theorem stepKey_ok (P : Prims) (C : Curve Pt) (ext : Bytes) (comp : Path.Component) (s : Nat)
    (h : secretFromSlice C.n (ext.take 32) = .ok s) (hv : comp.value < 2 ^ 31) :
    stepKey P C ext comp =
      stepCore C.n s (specI (Mnemonic.hmacSha512 P) (fun k => C.compressed (C.mulG k))
        ⟨s, ext.drop 32⟩ (childNum comp)) := by
  rw [stepKey.eq_1]
  simp only [h]
  cases comp with
  | hardened v =>
    have hv' : v < 2 ^ 31 := hv
    have hi : v + 2 ^ 31 ≥ 2 ^ 31 := by omega
    -- staged: the `|||` term must be gone before anything else is unfolded
    simp only [or_hardenedBit v hv']
    simp only [specI, childNum, hi, if_true]
    simp only [stepCore, ser32_eq, ser256_eq]
    generalize secretFromSlice C.n _ = r
    cases r <;> rfl
  | normal v =>
    have hv' : v < 2 ^ 31 := hv
    have hi : ¬ v ≥ 2 ^ 31 := by omega
    simp only [specI, childNum, hi, if_false]
    simp only [stepCore, ser32_eq]
    generalize secretFromSlice C.n _ = r
    cases r <;> rfl

theorem stepKey_zero (P : Prims) (C : Curve Pt) (c : Bytes) (comp : Path.Component) :
    ∃ e, stepKey P C (beFixed 32 0 ++ c) comp = .err e := by
  obtain ⟨e, he⟩ := secretFromSlice_beFixed_zero C.n
  exact ⟨e, stepKey_err P C _ comp e (by rw [take_ext]; exact he)⟩

theorem stepKey_eq (P : Prims) (C : Curve Pt) (hn : C.n ≤ 2 ^ 256) (k : Nat) (c : Bytes)
    (hk0 : 0 < k) (hkn : k < C.n) (comp : Path.Component) (hv : comp.value < 2 ^ 31) :
    stepKey P C (beFixed 32 k ++ c) comp =
      stepCore C.n k (specI (Mnemonic.hmacSha512 P) (fun k => C.compressed (C.mulG k)) ⟨k, c⟩
        (childNum comp)) := by
  have h := stepKey_ok P C (beFixed 32 k ++ c) comp k
    (by rw [take_ext]; exact secretFromSlice_beFixed C.n k hn hk0 hkn) hv
  rw [drop_ext] at h
  exact h

/-- what one iteration does, against the strict CKDpriv -/
theorem stepCore_spec (hmac512 : Bytes → Bytes → Bytes) (serP : Nat → Bytes) (n : Nat) (hn : 1 < n)
    (par : XPrv) (i : Nat) (hI : (specI hmac512 serP par i).length = 64) :
    (∃ e, stepCore n par.k (specI hmac512 serP par i) = .err e ∧
      ckdStrict hmac512 serP n par i = none) ∨
    (∃ ki IR, stepCore n par.k (specI hmac512 serP par i) = .ok (beFixed 32 ki ++ IR) ∧
      ki < n ∧ IR.length = 32 ∧
      ckdStrict hmac512 serP n par i = if ki = 0 then none else some ⟨ki, IR⟩) := by
  have hlen : ((specI hmac512 serP par i).take 32).length = 32 := by simp [hI]
  unfold ckdStrict
  rw [ckdPriv_eq]
  unfold stepCore parse256
  generalize hIdef : specI hmac512 serP par i = I at *
  rcases secretFromSlice_cases n (I.take 32) with ⟨e, he⟩ | ⟨hok, h0, hlt, _⟩
  · left
    refine ⟨_, by rw [he], ?_⟩
    by_cases hz : beVal (I.take 32) = 0
    · simp [hz]
    · by_cases hlt : beVal (I.take 32) < n
      · rw [secretFromSlice_ok_of_32 n _ hlen (by omega) hlt] at he; cases he
      · simp [hz]; intro h; omega
  · right
    refine ⟨(beVal (I.take 32) + par.k) % n, I.drop 32, by rw [hok], Nat.mod_lt _ (by omega),
      by simp [hI], ?_⟩
    have hz : ¬ beVal (I.take 32) = 0 := by omega
    have hge : ¬ beVal (I.take 32) ≥ n := by omega
    simp only [hz, if_false, hge, false_or]

/-! ### the whole loop -/

/-- the tail of `derive` after the loop -/
def finish (C : Curve Pt) : Res Bytes → Res Nat
  | .ok ext => Account.new C (ext.take 32)
  | .err e => .err e
  | .panic e => .panic e

theorem derive_eq_finish (P : Prims) (C : Curve Pt) (seed : Bytes) (path : Path.Path) :
    derive P C seed path = finish C (loop P C (Mnemonic.hmacSha512 P bitcoinSeed seed) path) := by
  rw [derive.eq_1]
  generalize loop P C (Mnemonic.hmacSha512 P bitcoinSeed seed) path = r
  cases r <;> rfl

/-- an extended key whose secret half is not a valid scalar makes everything downstream fail -/
theorem loop_bad (P : Prims) (C : Curve Pt) (ext : Bytes) (path : Path.Path)
    (h : ∃ e, secretFromSlice C.n (ext.take 32) = .err e) :
    ∃ e, finish C (loop P C ext path) = .err e := by
  obtain ⟨e, he⟩ := h
  cases path with
  | nil => exact ⟨e, by simp only [loop, finish, Account.new, he]⟩
  | cons comp cs => exact ⟨e, by simp only [loop, stepKey_err P C ext comp e he, finish]⟩

theorem loop_zero (P : Prims) (C : Curve Pt) (c : Bytes) (path : Path.Path) :
    ∃ e, finish C (loop P C (beFixed 32 0 ++ c) path) = .err e :=
  loop_bad P C _ path (by rw [take_ext]; exact secretFromSlice_beFixed_zero C.n)

/-- loop invariant: an extended key `ser256(k) ‖ c` with `k < n` (possibly the unnoticed zero) -/
theorem loop_spec (P : Prims) (C : Curve Pt) (hsha : ∀ b, (P.sha512 b).length = 64)
    (hn1 : 1 < C.n) (hn : C.n ≤ 2 ^ 256) :
    ∀ (path : Path.Path) (k : Nat) (c : Bytes), k < C.n → c.length = 32 →
      (∀ comp ∈ path, comp.value < 2 ^ 31) →
      (finish C (loop P C (beFixed 32 k ++ c) path)).toOption =
        (if k = 0 then none else
          (deriveFromS (Mnemonic.hmacSha512 P) (fun k => C.compressed (C.mulG k)) C.n ⟨k, c⟩
            (path.map childNum)).map (·.k)) ∧
      (∀ site, finish C (loop P C (beFixed 32 k ++ c) path) ≠ .panic site)
  | path, 0, c, _, _, _ => by
    obtain ⟨e, he⟩ := loop_zero P C c path
    rw [he]
    exact ⟨rfl, fun _ h => by cases h⟩
  | [], k + 1, c, hkn, _, _ => by
    simp only [loop, finish, take_ext, Account.new,
      secretFromSlice_beFixed C.n (k + 1) hn (by omega) hkn]
    exact ⟨by simp [Res.toOption, deriveFromS], fun _ h => by cases h⟩
  | comp :: cs, k + 1, c, hkn, hc, hv => by
    have hcomp : comp.value < 2 ^ 31 := hv comp (by simp)
    have hcs : ∀ comp ∈ cs, comp.value < 2 ^ 31 := fun x hx => hv x (by simp [hx])
    have hstep := stepKey_eq P C hn (k + 1) c (by omega) hkn comp hcomp
    have hI : (specI (Mnemonic.hmacSha512 P) (fun k => C.compressed (C.mulG k)) ⟨k + 1, c⟩
        (childNum comp)).length = 64 := by
      unfold specI; split <;> exact hmacSha512_length P hsha _ _
    rw [loop, hstep, List.map_cons, deriveFromS]
    rcases stepCore_spec (Mnemonic.hmacSha512 P) (fun k => C.compressed (C.mulG k)) C.n hn1
      ⟨k + 1, c⟩ (childNum comp) hI with ⟨e, he, hs⟩ | ⟨ki, IR, hok, hki, hIR, hs⟩
    · rw [he, hs]
      exact ⟨by simp [finish, Res.toOption], fun _ h => by cases h⟩
    · rw [hok, hs]
      have ih := loop_spec P C hsha hn1 hn cs ki IR hki hIR hcs
      refine ⟨?_, ih.2⟩
      rw [ih.1]
      by_cases hz : ki = 0
      · simp [hz]
      · simp [hz]

/-! ### the whole derivation -/

def deriveS (hmac512 : Bytes → Bytes → Bytes) (serP : Nat → Bytes) (n : Nat) (seed : Bytes)
    (cns : List Nat) : Option Nat :=
  match master hmac512 n seed with
  | some m => (deriveFromS hmac512 serP n m cns).map (·.k)
  | none => none

theorem deriveS_sound (hmac512 : Bytes → Bytes → Bytes) (serP : Nat → Bytes) (n : Nat) (seed : Bytes)
    (cns : List Nat) (k : Nat) (h : deriveS hmac512 serP n seed cns = some k) :
    Spec.Bip32.derive hmac512 serP n seed cns = some k := by
  unfold deriveS at h
  unfold Spec.Bip32.derive
  cases hm : master hmac512 n seed with
  | none => rw [hm] at h; cases h
  | some m =>
    rw [hm] at h
    simp only at h ⊢
    cases hd : deriveFromS hmac512 serP n m cns with
    | none => rw [hd] at h; cases h
    | some x =>
      rw [hd] at h
      rw [deriveFromS_sound hmac512 serP n cns m x hd]
      exact h

theorem master_eq (hmac512 : Bytes → Bytes → Bytes) (n : Nat) (seed : Bytes) :
    master hmac512 n seed =
      if beVal ((hmac512 bitcoinSeed seed).take 32) = 0 ∨ beVal ((hmac512 bitcoinSeed seed).take 32) ≥ n
      then none
      else some ⟨beVal ((hmac512 bitcoinSeed seed).take 32), (hmac512 bitcoinSeed seed).drop 32⟩ := rfl

theorem derive_spec_S (P : Prims) (C : Curve Pt) (hsha : ∀ b, (P.sha512 b).length = 64)
    (hn1 : 1 < C.n) (hn : C.n ≤ 2 ^ 256) (seed : Bytes) (path : Path.Path)
    (hlt : ∀ comp ∈ path, comp.value < 2 ^ 31) :
    (derive P C seed path).toOption =
      deriveS (Mnemonic.hmacSha512 P) (fun k => C.compressed (C.mulG k)) C.n seed
        (path.map childNum) ∧
    (∀ site, derive P C seed path ≠ .panic site) := by
  rw [derive_eq_finish, deriveS, master_eq]
  have hI := hmacSha512_length P hsha bitcoinSeed seed
  generalize Mnemonic.hmacSha512 P bitcoinSeed seed = I at hI
  have hlen : (I.take 32).length = 32 := by simp [hI]
  rcases secretFromSlice_32 C.n (I.take 32) hlen with ⟨_, h0, hlt'⟩ | ⟨he, hbad⟩
  · have hI' : I = beFixed 32 (beVal (I.take 32)) ++ I.drop 32 := by
      rw [beFixed_beVal 32 _ hlen, List.take_append_drop]
    have hcond : ¬ (beVal (I.take 32) = 0 ∨ beVal (I.take 32) ≥ C.n) := by omega
    have hk0 : ¬ beVal (I.take 32) = 0 := by omega
    rw [if_neg hcond]
    have := loop_spec P C hsha hn1 hn path (beVal (I.take 32)) (I.drop 32) hlt' (by simp [hI]) hlt
    rw [← hI', if_neg hk0] at this
    exact this
  · obtain ⟨e, he'⟩ := loop_bad P C I path he
    have hcond : beVal (I.take 32) = 0 ∨ beVal (I.take 32) ≥ C.n := by omega
    rw [he', if_pos hcond]
    exact ⟨rfl, fun _ h => by cases h⟩

end Hdw.Hdk
