/-
Helper lemmas for C05 (ECDSA signing / RFC 6979 nonce).
-/
import HdwModel.Model.Account
import HdwModel.Spec.Ecdsa
import HdwModel.Spec.Rfc6979
import HdwModel.Lemmas.Rlp
import HdwModel.Lemmas.Decimal
import Mathlib.Algebra.Module.ZMod
import Mathlib.Algebra.Field.ZMod
import Mathlib.FieldTheory.Finite.Basic
import Mathlib.Tactic.FieldSimp
import Mathlib.Tactic.Ring

namespace Hdw.Account

/-! ### `powMod` / `invMod` -/

theorem powMod_eq : ∀ (e b m : Nat), powMod b e m = b ^ e % m := by
  intro e
  induction e using Nat.strong_induction_on with
  | _ e ih =>
    intro b m
    rw [powMod]
    by_cases he : e = 0
    · simp [he]
    · simp only [he, if_false]
      rw [ih (e / 2) (by omega)]
      have hsq : (b * b % m) ^ (e / 2) % m = b ^ (2 * (e / 2)) % m := by
        rw [← Nat.pow_mod, ← Nat.pow_two, ← Nat.pow_mul]
      rw [hsq]
      by_cases hodd : e % 2 = 1
      · simp only [hodd, if_true]
        have : e = 2 * (e / 2) + 1 := by omega
        conv_rhs => rw [this, Nat.pow_succ, Nat.mul_comm, Nat.mul_mod]
      · simp only [hodd, if_false]
        have : e = 2 * (e / 2) := by omega
        conv_rhs => rw [this]

theorem invMod_cast (a n : Nat) : ((invMod a n : ℕ) : ZMod n) = (a : ZMod n) ^ (n - 2) := by
  rw [invMod, powMod_eq, ZMod.natCast_mod, Nat.cast_pow]

theorem invMod_eq_inv (n : Nat) [Fact n.Prime] (a : Nat) (ha : (a : ZMod n) ≠ 0) :
    ((invMod a n : ℕ) : ZMod n) = (a : ZMod n)⁻¹ := by
  rw [invMod_cast]
  have hp : 2 ≤ n := (Fact.out : n.Prime).two_le
  have h1 : (a : ZMod n) ^ (n - 1) = 1 := ZMod.pow_card_sub_one_eq_one ha
  have h2 : (a : ZMod n) ^ (n - 2) * (a : ZMod n) = 1 := by
    rw [← pow_succ]
    have : n - 2 + 1 = n - 1 := by omega
    rw [this, h1]
  exact eq_inv_of_mul_eq_one_left h2

theorem invMod_eq_inv_of_two_lt (n : Nat) [Fact n.Prime] (hn : 2 < n) (a : Nat) :
    ((invMod a n : ℕ) : ZMod n) = (a : ZMod n)⁻¹ := by
  by_cases ha : (a : ZMod n) = 0
  · rw [invMod_cast, ha, inv_zero, zero_pow (by omega)]
  · exact invMod_eq_inv n a ha


/-! ### shape of a successful `signWithNonce` -/

variable {Pt : Type}

theorem signWithNonce_ok {C : Curve Pt} {d z k : Nat} {σ : Sig}
    (h : signWithNonce C d z k = .ok σ) :
    ∃ r s, r = C.x (C.mulG k) % C.n ∧
      s = invMod k C.n * ((z % C.n + r * d) % C.n) % C.n ∧ r ≠ 0 ∧ s ≠ 0 ∧
      σ = ⟨r, if s > C.n / 2 then C.n - s else s,
            decide (C.y (C.mulG k) % 2 = 1) != decide (s > C.n / 2)⟩ := by
  simp only [signWithNonce] at h
  split at h
  · cases h
  · rename_i hg
    refine ⟨_, _, rfl, rfl, ?_, ?_, ?_⟩
    · exact fun h0 => hg (Or.inl h0)
    · exact fun h0 => hg (Or.inr h0)
    · cases h; rfl

theorem sign_range_aux (C : Curve Pt) (hn : 2 < C.n) (d z k : Nat) (σ : Sig)
    (h : signWithNonce C d z k = .ok σ) :
    1 ≤ σ.r ∧ σ.r < C.n ∧ 1 ≤ σ.s ∧ σ.s ≤ C.n / 2 := by
  obtain ⟨r, s, hr, hs, hr0, hs0, rfl⟩ := signWithNonce_ok h
  have hrn : r < C.n := by rw [hr]; exact Nat.mod_lt _ (by omega)
  have hsn : s < C.n := by rw [hs]; exact Nat.mod_lt _ (by omega)
  refine ⟨by simp only; omega, hrn, ?_, ?_⟩
  · simp only; split <;> omega
  · simp only; split <;> omega

/-! ### field identities -/

section Field
variable {F M : Type} [Field F] [AddCommGroup M] [Module F M]

theorem verify_point (G : M) (z r d k s : F) (hk : k ≠ 0) (hs : s ≠ 0)
    (hs' : s = k⁻¹ * (z + r * d)) :
    (z * s⁻¹) • G + (r * s⁻¹) • (d • G) = k • G := by
  have hzr : z + r * d ≠ 0 := by
    intro h0; apply hs; rw [hs', h0, mul_zero]
  rw [smul_smul, ← add_smul]
  congr 1
  rw [hs']
  field_simp

theorem verify_point_neg (G : M) (z r d k s : F) (hk : k ≠ 0) (hs : s ≠ 0)
    (hs' : s = k⁻¹ * (z + r * d)) :
    (z * (-s)⁻¹) • G + (r * (-s)⁻¹) • (d • G) = -(k • G) := by
  rw [← verify_point G z r d k s hk hs hs']
  simp only [inv_neg, mul_neg, neg_smul, neg_add]

theorem recover_point (G : M) (z r d k s : F) (hk : k ≠ 0) (hr : r ≠ 0)
    (hs' : s = k⁻¹ * (z + r * d)) :
    (-z * r⁻¹) • G + (s * r⁻¹) • (k • G) = d • G := by
  rw [smul_smul, ← add_smul]
  congr 1
  rw [hs']
  field_simp
  ring

theorem recover_point_neg (G : M) (z r d k s : F) (hk : k ≠ 0) (hr : r ≠ 0)
    (hs' : s = k⁻¹ * (z + r * d)) :
    (-z * r⁻¹) • G + ((-s) * r⁻¹) • (-(k • G)) = d • G := by
  rw [← recover_point G z r d k s hk hr hs']
  simp only [neg_mul, neg_smul, smul_neg, neg_neg]

end Field

/-! ### casts into `ZMod n` -/

theorem cast_ne_zero_of_lt {n a : Nat} (h0 : a ≠ 0) (hlt : a < n) : (a : ZMod n) ≠ 0 := by
  rw [Ne, ZMod.natCast_eq_zero_iff]
  intro hd
  exact absurd (Nat.le_of_dvd (by omega) hd) (by omega)

theorem cast_sub_self {n a : Nat} (hlt : a ≤ n) : ((n - a : ℕ) : ZMod n) = -(a : ZMod n) := by
  rw [Nat.cast_sub hlt, ZMod.natCast_self, zero_sub]


/-! ### verification and recovery over a lawful curve -/

section Curve
variable [AddCommGroup Pt] (n : ℕ) [Fact n.Prime] [Module (ZMod n) Pt]

/-- copy of `Hdw.Props.C05.LawfulCurve` (which is stated in the Props file) -/
structure CurveLaws (C : Curve Pt) (G : Pt) : Prop where
  n_eq : C.n = n
  mulG_eq : ∀ k : ℕ, C.mulG k = (k : ZMod n) • G
  mul_eq : ∀ (k : ℕ) (P : Pt), C.mul k P = (k : ZMod n) • P
  add_eq : ∀ P Q : Pt, C.add P Q = P + Q
  isInf_iff : ∀ P : Pt, C.isInf P = true ↔ P = 0
  gen : ∀ k : ZMod n, k • G = 0 → k = 0
  x_neg : ∀ P : Pt, C.x (-P) = C.x P
  y_neg : ∀ P : Pt, P ≠ 0 → (C.y (-P) % 2 = 1 ↔ ¬ C.y P % 2 = 1)
  lift_xy : ∀ P : Pt, P ≠ 0 → C.lift (C.x P) (decide (C.y P % 2 = 1)) = some P

/-- the facts about a successful signature, transported to `ZMod n` -/
theorem sign_facts (C : Curve Pt) (G : Pt) (hC : CurveLaws n C G) (d z k : Nat) (σ : Sig)
    (hk : 0 < k ∧ k < n) (h : signWithNonce C d z k = .ok σ) :
    ∃ s : Nat, σ.r = C.x ((k : ZMod n) • G) % n ∧ σ.r ≠ 0 ∧ σ.r < n ∧ s ≠ 0 ∧ s < n ∧
      (k : ZMod n) ≠ 0 ∧ (k : ZMod n) • G ≠ 0 ∧
      (s : ZMod n) = (k : ZMod n)⁻¹ * ((z : ZMod n) + (σ.r : ZMod n) * (d : ZMod n)) ∧
      σ.s = (if s > n / 2 then n - s else s) ∧
      σ.odd = (decide (C.y ((k : ZMod n) • G) % 2 = 1) != decide (s > n / 2)) := by
  obtain ⟨r, s, hr, hs, hr0, hs0, rfl⟩ := signWithNonce_ok h
  have hn0 : 0 < n := (Fact.out : n.Prime).pos
  rw [hC.n_eq, hC.mulG_eq] at hr
  rw [hC.n_eq] at hs
  have hkz : (k : ZMod n) ≠ 0 := cast_ne_zero_of_lt (by omega) hk.2
  refine ⟨s, hr, hr0, ?_, hs0, ?_, hkz, ?_, ?_, ?_, ?_⟩
  · simp only; rw [hr]; exact Nat.mod_lt _ hn0
  · rw [hs]; exact Nat.mod_lt _ hn0
  · exact fun h0 => hkz (hC.gen _ h0)
  · rw [hs]
    simp only [ZMod.natCast_mod, Nat.cast_mul, Nat.cast_add]
    rw [invMod_eq_inv n k hkz]
  · simp only [hC.n_eq]
  · simp only [hC.n_eq, hC.mulG_eq]

theorem sign_verifies_aux (C : Curve Pt) (G : Pt) (hC : CurveLaws n C G) (d z k : Nat) (σ : Sig)
    (hk : 0 < k ∧ k < n) (h : signWithNonce C d z k = .ok σ) :
    Spec.Ecdsa.verify C (C.mulG d) z σ.r σ.s = true := by
  obtain ⟨s, hr, hr0, hrn, hs0, hsn, hkz, hK, hsz, hσs, -⟩ := sign_facts n C G hC d z k σ hk h
  have hsF : (s : ZMod n) ≠ 0 := cast_ne_zero_of_lt hs0 hsn
  have hσs0 : σ.s ≠ 0 := by rw [hσs]; split <;> omega
  have hσsn : σ.s < n := by rw [hσs]; split <;> omega
  have hσsF : (σ.s : ZMod n) ≠ 0 := cast_ne_zero_of_lt hσs0 hσsn
  have hpt : ((z : ZMod n) * (σ.s : ZMod n)⁻¹) • G +
      ((σ.r : ZMod n) * (σ.s : ZMod n)⁻¹) • ((d : ZMod n) • G) = (k : ZMod n) • G ∨
      ((z : ZMod n) * (σ.s : ZMod n)⁻¹) • G +
      ((σ.r : ZMod n) * (σ.s : ZMod n)⁻¹) • ((d : ZMod n) • G) = -((k : ZMod n) • G) := by
    rw [hσs]
    split
    · right
      rw [cast_sub_self (by omega)]
      exact verify_point_neg G _ _ _ _ _ hkz hsF hsz
    · left
      exact verify_point G _ _ _ _ _ hkz hsF hsz
  have hguard : ¬ (σ.r = 0 ∨ σ.r ≥ n ∨ σ.s = 0 ∨ σ.s ≥ n) := by omega
  simp only [Spec.Ecdsa.verify, hC.n_eq, hguard, if_false, hC.mulG_eq, hC.mul_eq, hC.add_eq,
    ZMod.natCast_mod, Nat.cast_mul, invMod_eq_inv n σ.s hσsF]
  rcases hpt with hpt | hpt
  · rw [hpt]
    have : C.isInf ((k : ZMod n) • G) = false := by
      rw [Bool.eq_false_iff, Ne, hC.isInf_iff]; exact hK
    simp [this, hr]
  · rw [hpt]
    have : C.isInf (-((k : ZMod n) • G)) = false := by
      rw [Bool.eq_false_iff, Ne, hC.isInf_iff, neg_eq_zero]; exact hK
    simp [this, hr, hC.x_neg]

theorem sign_recovers_aux (C : Curve Pt) (G : Pt) (hC : CurveLaws n C G) (d z k : Nat) (σ : Sig)
    (hk : 0 < k ∧ k < n) (hx : C.x (C.mulG k) < n)
    (h : signWithNonce C d z k = .ok σ) :
    Spec.Ecdsa.recover C z σ.r σ.s σ.odd = some (C.mulG d) := by
  obtain ⟨s, hr, hr0, hrn, hs0, hsn, hkz, hK, hsz, hσs, hodd⟩ :=
    sign_facts n C G hC d z k σ hk h
  rw [hC.mulG_eq] at hx
  rw [Nat.mod_eq_of_lt hx] at hr
  have hrF : (σ.r : ZMod n) ≠ 0 := cast_ne_zero_of_lt hr0 hrn
  have hσs0 : σ.s ≠ 0 := by rw [hσs]; split <;> omega
  have hσsn : σ.s < n := by rw [hσs]; split <;> omega
  have hguard : ¬ (σ.r = 0 ∨ σ.r ≥ n ∨ σ.s = 0 ∨ σ.s ≥ n) := by omega
  have hn0 : 0 < n := (Fact.out : n.Prime).pos
  have hzc : (((n - z % n) % n : ℕ) : ZMod n) = -(z : ZMod n) := by
    rw [ZMod.natCast_mod, cast_sub_self (Nat.le_of_lt (Nat.mod_lt _ hn0)), ZMod.natCast_mod]
  by_cases hhigh : s > n / 2
  · -- flipped: R = -(k•G)
    have hlift : C.lift σ.r σ.odd = some (-((k : ZMod n) • G)) := by
      have := hC.lift_xy (-((k : ZMod n) • G)) (by rwa [Ne, neg_eq_zero])
      rw [hC.x_neg] at this
      rw [hr, hodd, ← this]
      congr 1
      have hy := hC.y_neg _ hK
      simp only [hhigh, decide_true]
      by_cases hyk : C.y ((k : ZMod n) • G) % 2 = 1
      · simp [hyk, hy.not.mpr (not_not.mpr hyk)]
      · simp [hyk, hy.mpr hyk]
    simp only [Spec.Ecdsa.recover, hC.n_eq, hguard, if_false, hlift, hC.mulG_eq, hC.mul_eq,
      hC.add_eq, Nat.cast_mul, hzc, ZMod.natCast_mod, invMod_eq_inv n σ.r hrF]
    congr 1
    rw [hσs, if_pos hhigh, cast_sub_self (by omega)]
    exact recover_point_neg G _ _ _ _ _ hkz hrF hsz
  · have hlift : C.lift σ.r σ.odd = some ((k : ZMod n) • G) := by
      have := hC.lift_xy _ hK
      rw [hr, hodd, ← this]
      simp [hhigh]
    simp only [Spec.Ecdsa.recover, hC.n_eq, hguard, if_false, hlift, hC.mulG_eq, hC.mul_eq,
      hC.add_eq, Nat.cast_mul, hzc, ZMod.natCast_mod, invMod_eq_inv n σ.r hrF]
    congr 1
    rw [hσs, if_neg hhigh]
    exact recover_point G _ _ _ _ _ hkz hrF hsz

end Curve


/-! ### nonce generation -/

theorem nonceLoop_ok (P : Prims) (n : Nat) : ∀ (fuel : Nat) (K V : Bytes) (k : Nat),
    nonceLoop P n fuel K V = .ok k → 0 < k ∧ k < n := by
  intro fuel
  induction fuel with
  | zero => intro K V k h; simp [nonceLoop] at h
  | succ fuel ih =>
    intro K V k h
    simp only [nonceLoop] at h
    split at h
    · rename_i hc; cases h; exact hc
    · exact ih _ _ _ h

theorem trySign_nonce_aux (P : Prims) (C : Curve Pt) (d : Nat) (digest : Bytes) (σ : Sig)
    (h : trySign P C d digest = .ok σ) :
    ∃ k, 0 < k ∧ k < C.n ∧ generateK P C.n (beFixed 32 d) digest = .ok k ∧
      signWithNonce C d (beVal digest) k = .ok σ := by
  unfold trySign at h
  split at h
  · rename_i k hk
    have := nonceLoop_ok P C.n _ _ _ k (by simpa only [generateK] using hk)
    exact ⟨k, this.1, this.2, hk, h⟩
  · cases h
  · cases h

theorem beFixed_length : ∀ (w n : Nat), (beFixed w n).length = w := by
  intro w
  induction w with
  | zero => intro n; rfl
  | succ w ih => intro n; simp [beFixed, ih]

theorem beFixed_beVal (b : Bytes) : beFixed b.length (beVal b) = b := by
  induction b using list_rev_ind with
  | hnil => rfl
  | snoc l a ih =>
    rw [beVal_snoc, List.length_append, List.length_singleton, beFixed]
    have ha : a.toNat < 256 := a.toNat_lt
    have h1 : (beVal l * 256 + a.toNat) / 256 = beVal l := by omega
    have h2 : (beVal l * 256 + a.toNat) % 256 = a.toNat := by omega
    rw [h1, h2, ih, UInt8.ofNat_toNat]

theorem bits2octets_of_lt (q : Nat) (digest : Bytes) (hlen : digest.length = 32)
    (hz : beVal digest < q) : Spec.Rfc6979.bits2octets q digest = digest := by
  rw [Spec.Rfc6979.bits2octets, Spec.Rfc6979.int2octets, Nat.mod_eq_of_lt hz, ← hlen,
    beFixed_beVal]

theorem nonceLoop_candidates (P : Prims) (q : Nat) : ∀ (fuel : Nat) (K V : Bytes),
    (nonceLoop P q fuel K V).toOption = Spec.Rfc6979.candidates (hmacSha256 P) q fuel K V := by
  intro fuel
  induction fuel with
  | zero => intro K V; rfl
  | succ fuel ih =>
    intro K V
    simp only [nonceLoop, Spec.Rfc6979.candidates]
    split
    · rfl
    · exact ih _ _

theorem nonce_rfc6979_aux (P : Prims) (q d : Nat) (digest : Bytes) (hlen : digest.length = 32)
    (hz : beVal digest < q) :
    (generateK P q (beFixed 32 d) digest).toOption =
      Spec.Rfc6979.nonce (hmacSha256 P) q d digest 64 := by
  simp only [generateK, Spec.Rfc6979.nonce, bits2octets_of_lt q digest hlen hz,
    Spec.Rfc6979.int2octets, nonceLoop_candidates]

end Hdw.Account
