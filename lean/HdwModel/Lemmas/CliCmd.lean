/-
Helper lemmas for C16 (CLI commands): inversion of `Res.bind`, and the shape of each command.
-/
import HdwModel.Model.Cli
import HdwModel.Lemmas.Path
import HdwModel.Lemmas.Signature

namespace Hdw

namespace Res

theorem bind_eq_ok {α β} {r : Res α} {f : α → Res β} {b : β} :
    r.bind f = .ok b ↔ ∃ a, r = .ok a ∧ f a = .ok b := by
  cases r <;> simp [Res.bind]

theorem bind_eq_err {α β} {r : Res α} {f : α → Res β} {e : String} :
    r.bind f = .err e ↔ r = .err e ∨ ∃ a, r = .ok a ∧ f a = .err e := by
  cases r <;> simp [Res.bind]

/-- a guard that returns an error was not taken when the result is a value -/
theorem ite_err_eq_ok {α} {g : Bool} {m : String} {r : Res α} {o : α}
    (h : (if g = true then Res.err m else r) = .ok o) : r = .ok o := by
  cases g
  · simpa using h
  · simp at h

theorem bind_of_err {α β} {r : Res α} {e : String} (h : r = .err e) (f : α → Res β) :
    r.bind f = .err e := by
  subst h; rfl

theorem bind_of_ok {α β} {r : Res α} {a : α} (h : r = .ok a) (f : α → Res β) :
    r.bind f = f a := by
  subst h; rfl

end Res

namespace Cli
variable {Pt : Type}

/-! ### selectedPath -/

theorem selectedPath_index_decimal (i : Nat) (h : i < 2 ^ 64) :
    selectedPath (.index (decimal i)) = Path.forIndex i := by
  simp only [selectedPath, parseUInt_decimal, h, if_true]

theorem selectedPath_index_none (t : Str) (h : parseUInt 64 t = none) :
    ∃ e, selectedPath (.index t) = .err e := by
  simp only [selectedPath, h]
  exact ⟨_, rfl⟩

theorem selectedPath_index_some (t : Str) (n : Nat) (h : parseUInt 64 t = some n) :
    selectedPath (.index t) = Path.forIndex n := by
  simp only [selectedPath, h]

/-! ### privateKey -/

theorem privateKey_ok (X : Ctx Pt) (a : Account) (d : Nat) (h : privateKey X a = .ok d) :
    ∃ m path seed, Mnemonic.fromPhrase X.P a.mnemonic = .ok m ∧ selectedPath a.sel = .ok path ∧
      Mnemonic.seed X.P X.nfkd m a.password = .ok seed ∧ Hdk.derive X.P X.C seed path = .ok d := by
  unfold privateKey at h
  split at h
  · cases h
  · cases h
  · rename_i m hm
    split at h
    · cases h
    · cases h
    · rename_i path hp
      split at h
      · cases h
      · cases h
      · rename_i seed hs
        exact ⟨m, path, seed, hm, hp, hs, h⟩

/-! ### parseDigest -/

theorem hexDecodeExact_length {n : Nat} {s : Str} {b : Bytes} (h : hexDecodeExact n s = some b) :
    b.length = n := by
  unfold hexDecodeExact at h
  cases hd : hexDecode s with
  | none => rw [hd] at h; cases h
  | some b' =>
    rw [hd] at h
    by_cases hl : b'.length = n
    · simp only [hl, if_true] at h
      cases h
      exact hl
    · simp only [hl, if_false] at h
      cases h

theorem parseDigest_length {text : Str} {dg : Bytes} (h : parseDigest text = .ok dg) :
    dg.length = 32 := by
  unfold parseDigest at h
  simp only at h
  split at h
  · rename_i b hb
    cases h
    exact hexDecodeExact_length hb
  · cases h

/-! ### hashTx -/

theorem hashTx_none (X : Ctx Pt) (json : Bytes) (tx : Tx.Tx) (h : Tx.parse json = .ok tx) :
    hashTx X json none = (Tx.signingMessage X.P tx).bind fun d => .ok (hexLine d) := by
  simp only [hashTx, h]

theorem hashTx_some (X : Ctx Pt) (json : Bytes) (t : Str) (σ : Sig) (tx : Tx.Tx)
    (hs : Sig.parse t = .ok σ) (h : Tx.parse json = .ok tx) :
    hashTx X json (some t) = (Tx.encode tx σ).bind fun b => .ok (hexLine (X.P.keccak256 b)) := by
  simp only [hashTx, hs, Res.bind, h]

/-! ### signTx -/

theorem signTx_ok (X : Ctx Pt) (a : Account) (json out : Bytes) (so allow : Bool)
    (h : signTx X a json so allow = .ok out) :
    ∃ d tx digest σ, privateKey X a = .ok d ∧ Tx.parse json = .ok tx ∧
      Tx.signingMessage X.P tx = .ok digest ∧
      Account.trySign X.P X.C d digest = .ok σ ∧
      (so = true → out = sigLine σ) ∧
      (so = false → ∃ enc, Tx.encode tx σ = .ok enc ∧ out = hexLine enc) := by
  unfold signTx at h
  obtain ⟨d, hd, h⟩ := Res.bind_eq_ok.mp h
  obtain ⟨tx, htx, h⟩ := Res.bind_eq_ok.mp h
  have h := Res.ite_err_eq_ok h
  obtain ⟨digest, hdg, h⟩ := Res.bind_eq_ok.mp h
  obtain ⟨σ, hσ, h⟩ := Res.bind_eq_ok.mp h
  refine ⟨d, tx, digest, σ, hd, htx, hdg, hσ, ?_, ?_⟩
  · intro hso
    subst hso
    simp only [if_true] at h
    cases h; rfl
  · intro hso
    subst hso
    simp only [Bool.false_eq_true, if_false] at h
    obtain ⟨enc, henc, h⟩ := Res.bind_eq_ok.mp h
    cases h
    exact ⟨enc, henc, rfl⟩

end Cli
end Hdw
