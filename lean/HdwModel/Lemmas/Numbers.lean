/-
Helper lemmas for C13 (transaction JSON numbers).
-/
import HdwModel.Model.Tx
import HdwModel.Spec.Eip712
import HdwModel.Lemmas.Decimal
import HdwModel.Lemmas.Hex

namespace Hdw.Numbers
open Hdw Hdw.Json Hdw.Ser Hdw.SerdeNum Hdw.Spec.Eip712

/-! ### `Res` helpers -/

theorem exists_err_of_isErr {α} (r : Res α) (h : r.isErr = true) : ∃ e, r = .err e := by
  cases r <;> simp [Res.isErr] at h ⊢

/-! ### `accumulate` -/

theorem foldl_digits_ge (ds : List Nat) (acc : Nat) :
    acc ≤ ds.foldl (fun a d => a * 10 + d) acc := by
  induction ds generalizing acc with
  | nil => simp
  | cons d ds ih =>
    simp only [List.foldl_cons]
    have := ih (acc * 10 + d)
    omega

/-- if the final value fits a u64, no digit is left over -/
theorem accumulate_fits (ds : List Nat) (acc : Nat)
    (h : ds.foldl (fun a d => a * 10 + d) acc ≤ u64Max) :
    accumulate acc ds = (ds.foldl (fun a d => a * 10 + d) acc, []) := by
  induction ds generalizing acc with
  | nil => simp [accumulate]
  | cons d ds ih =>
    simp only [List.foldl_cons] at h ⊢
    have hge := foldl_digits_ge ds (acc * 10 + d)
    rw [accumulate, if_neg (by omega)]
    exact ih _ h

theorem accumulate_le (ds : List Nat) (acc : Nat) (h : acc ≤ u64Max) :
    (accumulate acc ds).1 ≤ u64Max := by
  induction ds generalizing acc with
  | nil => simpa [accumulate] using h
  | cons d ds ih =>
    rw [accumulate]
    split
    · exact h
    · exact ih _ (by omega)

/-! ### `classify` on integer-syntax literals -/

theorem classify_int_pos (n : NumLit) (hf : n.fracDigits = none) (he : n.exp = none)
    (hpos : n.neg = false) (hv : digitsNat n.intDigits < 2 ^ 64) :
    classify n = some (.u64 (digitsNat n.intDigits)) := by
  obtain ⟨neg, ints, frac, exp⟩ := n
  simp only at hf he hpos hv
  subst hf he hpos
  have hacc := accumulate_fits ints 0 (by unfold digitsNat at hv; unfold u64Max; omega)
  unfold classify
  simp only [hacc]
  simp [digitsNat]

theorem classify_int_neg (n : NumLit) (hf : n.fracDigits = none) (he : n.exp = none)
    (hneg : n.neg = true) (h0 : 0 < digitsNat n.intDigits) (hv : digitsNat n.intDigits ≤ 2 ^ 63) :
    classify n = some (.i64 (digitsNat n.intDigits)) := by
  obtain ⟨neg, ints, frac, exp⟩ := n
  simp only at hf he hneg hv h0
  subst hf he hneg
  have hacc := accumulate_fits ints 0 (by unfold digitsNat at hv; unfold u64Max; omega)
  unfold classify
  simp only [hacc]
  unfold digitsNat at h0 hv
  have h1 : ¬ (List.foldl (fun a d => a * 10 + d) 0 ints = 0 ∨
      List.foldl (fun a d => a * 10 + d) 0 ints > 2 ^ 63) := by omega
  simp [digitsNat, h1]

theorem withExponent_ne_u64 (neg : Bool) (sig : Nat) (e0 : Int) (e : Option (Bool × List Nat))
    (v : Nat) : withExponent neg sig e0 e ≠ some (.u64 v) := by
  unfold withExponent
  intro h
  split at h
  · cases hh : f64FromParts sig e0 <;> simp [hh] at h
  · split at h
    · cases h
    · split at h
      · split at h <;> simp at h
      · simp only [Option.map_eq_some_iff] at h
        obtain ⟨_, _, h⟩ := h
        cases h

theorem classify_u64_le (n : NumLit) (v : Nat) (h : classify n = some (.u64 v)) : v ≤ u64Max := by
  unfold classify at h
  have hle := accumulate_le n.intDigits 0 (by simp)
  generalize accumulate 0 n.intDigits = p at h hle
  obtain ⟨sig, rest⟩ := p
  simp only at h hle
  split at h
  · split at h
    · split at h
      · simp at h; omega
      · split at h <;> simp at h
    · exact absurd h (withExponent_ne_u64 _ _ _ _ _)
    · exact absurd h (withExponent_ne_u64 _ _ _ _ _)
  · split at h
    · exact absurd h (withExponent_ne_u64 _ _ _ _ _)
    · exact absurd h (withExponent_ne_u64 _ _ _ _ _)

/-! ### digits in a radix: model (`radixVal?`) vs specification (`digitsIn?`) -/

theorem foldl_digitsIn_none (f : Option Nat → Char → Option Nat) (hnone : ∀ c, f none c = none)
    (s : Str) : s.foldl f none = none := by
  induction s with
  | nil => rfl
  | cons c cs ih => simpa [List.foldl_cons, hnone] using ih

theorem foldl_digitsIn_eq (radix : Nat) (f : Option Nat → Char → Option Nat)
    (hnone : ∀ c, f none c = none)
    (hsome : ∀ a c, f (some a) c = (toDigit? radix c).map fun d => a * radix + d)
    (s : Str) (a : Nat) : s.foldl f (some a) = radixVal? radix a s := by
  induction s generalizing a with
  | nil => rfl
  | cons c cs ih =>
    simp only [List.foldl_cons, radixVal?, hsome]
    cases toDigit? radix c with
    | none => simpa using foldl_digitsIn_none f hnone cs
    | some d => simpa using ih _

theorem digitsIn_eq (radix : Nat) (s : Str) :
    digitsIn? radix s = if s.isEmpty then none else radixVal? radix 0 s := by
  unfold digitsIn?
  rw [foldl_digitsIn_eq radix]
  · intro c; rfl
  · intro a c
    unfold toDigit?
    cases hexVal? c with
    | none => rfl
    | some d => by_cases hd : d < radix <;> simp [hd]

theorem magnitudeRadix_nil (radix : Nat) (body : Str) :
    magnitudeRadix? radix [] body = digitsIn? radix body := by
  simp [magnitudeRadix?, stripPrefix, digitsIn_eq]

theorem magnitudeRadix_pre2 (radix : Nat) (p q : Char) (r : Str) :
    magnitudeRadix? radix [p, q] (p :: q :: r) = digitsIn? radix r := by
  simp [magnitudeRadix?, stripPrefix, digitsIn_eq]

theorem magnitudeRadix_pre2_ne_fst (radix : Nat) (p q c : Char) (r : Str) (h : p ≠ c) :
    magnitudeRadix? radix [p, q] (c :: r) = none := by
  simp [magnitudeRadix?, stripPrefix, h]

theorem magnitudeRadix_pre2_ne_snd (radix : Nat) (p q c d : Char) (r : Str) (h : q ≠ d) :
    magnitudeRadix? radix [p, q] (c :: d :: r) = none := by
  by_cases hc : p = c <;> simp [magnitudeRadix?, stripPrefix, h, hc]

theorem magnitudeRadix_pre2_single (radix : Nat) (p q c : Char) :
    magnitudeRadix? radix [p, q] [c] = none := by
  by_cases hc : p = c <;> simp [magnitudeRadix?, stripPrefix, hc]

/-- the body after the optional `+` -/
def stripPlus (s : Str) : Str :=
  match s with
  | '+' :: rest => rest
  | _ => s

/-- one attempt of `from_str_prefixed` -/
def tryRadix (body : Str) (radix : Nat) (pre : Str) : Option Nat :=
  match magnitudeRadix? radix pre body with
  | some v => if v < 2 ^ 256 then some v else none
  | none => none

/-- the four attempts in turn -/
def u256Body (body : Str) : Option Nat :=
  if body.isEmpty then none
  else
    (tryRadix body 2 ['0', 'b']).orElse fun _ =>
    (tryRadix body 8 ['0', 'o']).orElse fun _ =>
    (tryRadix body 16 ['0', 'x']).orElse fun _ =>
    tryRadix body 10 []

theorem u256FromStrPrefixed_eq (s : Str) : u256FromStrPrefixed s = u256Body (stripPlus s) := by
  unfold u256FromStrPrefixed
  split
  · rfl
  · rfl

/-- the magnitude the specification reads off a sign-less body -/
def specMag (body : Str) : Option Nat :=
  match body with
  | '0' :: 'b' :: r => digitsIn? 2 r
  | '0' :: 'o' :: r => digitsIn? 8 r
  | '0' :: 'x' :: r => digitsIn? 16 r
  | _ => digitsIn? 10 body

/-- keep a value only if it is below 2^256 -/
def lt256 (o : Option Nat) : Option Nat :=
  match o with
  | some v => if v < 2 ^ 256 then some v else none
  | none => none

theorem lt256_eq_some (o : Option Nat) (v : Nat) : lt256 o = some v ↔ o = some v ∧ v < 2 ^ 256 := by
  unfold lt256
  cases o with
  | none => simp
  | some w =>
    by_cases hw : w < 2 ^ 256
    · simp only [hw, if_true, Option.some.injEq]
      constructor
      · rintro rfl; exact ⟨rfl, hw⟩
      · exact fun h => h.1
    · simp only [hw, if_false]
      constructor
      · intro h; cases h
      · rintro ⟨h1, h2⟩; cases h1; exact absurd h2 hw

theorem toDigit_10_b : toDigit? 10 'b' = none := by decide
theorem toDigit_10_o : toDigit? 10 'o' = none := by decide
theorem toDigit_10_x : toDigit? 10 'x' = none := by decide
theorem toDigit_10_0 : toDigit? 10 '0' = some 0 := by decide

theorem digitsIn_10_0b (r : Str) : digitsIn? 10 ('0' :: 'b' :: r) = none := by
  simp [digitsIn_eq, radixVal?, toDigit_10_b, toDigit_10_0]
theorem digitsIn_10_0o (r : Str) : digitsIn? 10 ('0' :: 'o' :: r) = none := by
  simp [digitsIn_eq, radixVal?, toDigit_10_o, toDigit_10_0]
theorem digitsIn_10_0x (r : Str) : digitsIn? 10 ('0' :: 'x' :: r) = none := by
  simp [digitsIn_eq, radixVal?, toDigit_10_x, toDigit_10_0]

/-- the model's cascade of attempts computes the specified magnitude, filtered by the range -/
theorem u256Body_eq (body : Str) : u256Body body = lt256 (specMag body) := by
  unfold u256Body tryRadix
  match body with
  | [] => simp [specMag, digitsIn_eq, lt256]
  | [c] =>
    simp only [magnitudeRadix_pre2_single, magnitudeRadix_nil, Option.orElse_none, List.isEmpty_cons]
    have : specMag [c] = digitsIn? 10 [c] := by
      unfold specMag
      split <;> simp_all
    rw [this]; unfold lt256; rfl
  | c :: d :: r =>
    by_cases hc : c = '0'
    · subst hc
      by_cases hb : d = 'b'
      · subst hb
        simp only [magnitudeRadix_pre2, magnitudeRadix_nil, List.isEmpty_cons,
          magnitudeRadix_pre2_ne_snd _ '0' 'o' '0' 'b' r (by decide),
          magnitudeRadix_pre2_ne_snd _ '0' 'x' '0' 'b' r (by decide), digitsIn_10_0b,
          Option.orElse_none]
        show _ = lt256 (digitsIn? 2 r)
        unfold lt256
        cases digitsIn? 2 r with
        | none => rfl
        | some v => by_cases hv : v < 2 ^ 256 <;> simp [hv]
      · by_cases ho : d = 'o'
        · subst ho
          simp only [magnitudeRadix_pre2, magnitudeRadix_nil, List.isEmpty_cons,
            magnitudeRadix_pre2_ne_snd _ '0' 'b' '0' 'o' r (by decide),
            magnitudeRadix_pre2_ne_snd _ '0' 'x' '0' 'o' r (by decide), digitsIn_10_0o,
            Option.orElse_none]
          show _ = lt256 (digitsIn? 8 r)
          unfold lt256
          cases digitsIn? 8 r with
          | none => rfl
          | some v => by_cases hv : v < 2 ^ 256 <;> simp [hv]
        · by_cases hx : d = 'x'
          · subst hx
            simp only [magnitudeRadix_pre2, magnitudeRadix_nil, List.isEmpty_cons,
              magnitudeRadix_pre2_ne_snd _ '0' 'b' '0' 'x' r (by decide),
              magnitudeRadix_pre2_ne_snd _ '0' 'o' '0' 'x' r (by decide), digitsIn_10_0x,
              Option.orElse_none]
            show _ = lt256 (digitsIn? 16 r)
            unfold lt256
            cases digitsIn? 16 r with
            | none => rfl
            | some v => by_cases hv : v < 2 ^ 256 <;> simp [hv]
          · simp only [magnitudeRadix_nil, List.isEmpty_cons,
              magnitudeRadix_pre2_ne_snd _ '0' 'b' '0' d r (Ne.symm hb),
              magnitudeRadix_pre2_ne_snd _ '0' 'o' '0' d r (Ne.symm ho),
              magnitudeRadix_pre2_ne_snd _ '0' 'x' '0' d r (Ne.symm hx),
              Option.orElse_none]
            have : specMag ('0' :: d :: r) = digitsIn? 10 ('0' :: d :: r) := by
              unfold specMag
              split <;> simp_all
            rw [this]; unfold lt256; rfl
    · simp only [magnitudeRadix_nil, List.isEmpty_cons,
        magnitudeRadix_pre2_ne_fst _ '0' _ c _ (Ne.symm hc), Option.orElse_none]
      have : specMag (c :: d :: r) = digitsIn? 10 (c :: d :: r) := by
        unfold specMag
        split <;> simp_all
      rw [this]; unfold lt256; rfl

theorem stripPlus_plus (r : Str) : stripPlus ('+' :: r) = r := rfl

theorem stripPlus_of_ne (s : Str) (h : s.head? ≠ some '+') : stripPlus s = s := by
  unfold stripPlus
  split
  · simp at h
  · rfl

theorem toDigit_10_minus : toDigit? 10 '-' = none := by decide

theorem specMag_minus (r : Str) : specMag ('-' :: r) = none := by
  have : specMag ('-' :: r) = digitsIn? 10 ('-' :: r) := by
    unfold specMag
    split <;> simp_all
  rw [this]
  simp [digitsIn_eq, radixVal?, toDigit_10_minus]

/-- the magnitude part of `strInt?`, as a function of the body -/
theorem strInt_mag_eq (body : Str) :
    (match body with
      | '0' :: 'b' :: r => digitsIn? 2 r
      | '0' :: 'o' :: r => digitsIn? 8 r
      | '0' :: 'x' :: r => digitsIn? 16 r
      | _ => digitsIn? 10 body) = specMag body := rfl

theorem strInt_of_not_minus (s : Str) (h : s.head? ≠ some '-') :
    strInt? s = (specMag (stripPlus s)).map fun (m : Nat) => (m : Int) := by
  unfold strInt?
  split
  next neg body hm =>
    split at hm
    · simp at h
    · simp only [Prod.mk.injEq] at hm
      obtain ⟨rfl, rfl⟩ := hm
      rw [stripPlus_plus]
      unfold specMag
      split <;> split <;> simp_all
      all_goals (generalize digitsIn? _ _ = o; cases o <;> rfl)
    · next hminus hplus =>
      simp only [Prod.mk.injEq] at hm
      obtain ⟨rfl, rfl⟩ := hm
      rw [stripPlus_of_ne]
      · unfold specMag
        split <;> split <;> simp_all
        all_goals (generalize digitsIn? _ _ = o; cases o <;> rfl)
      · intro hp
        cases s with
        | nil => simp at hp
        | cons c r => simp at hp; subst hp; exact hplus r rfl

/-- the string case of `uintOfJson` -/
theorem uintOfJson_str (s : Str) (v : Nat) :
    uintOfJson (.str s) = .ok v ↔ u256FromStrPrefixed s = some v := by
  simp only [uintOfJson]
  cases h : u256FromStrPrefixed s <;> simp

theorem string_exact (s : Str) (v : Nat) :
    uintOfJson (.str s) = .ok v ↔
      (strInt? s = some (v : Int) ∧ v < 2 ^ 256 ∧ s.head? ≠ some '-') := by
  rw [uintOfJson_str, u256FromStrPrefixed_eq, u256Body_eq, lt256_eq_some]
  by_cases hm : s.head? = some '-'
  · have : ∃ r, s = '-' :: r := by
      cases s with
      | nil => simp at hm
      | cons c r => simp at hm; exact ⟨r, by rw [hm]⟩
    obtain ⟨r, rfl⟩ := this
    have : stripPlus ('-' :: r) = '-' :: r := stripPlus_of_ne _ (by simp)
    rw [this, specMag_minus]
    simp
  · rw [strInt_of_not_minus s hm]
    cases specMag (stripPlus s) with
    | none => simp
    | some w =>
      simp only [Option.map_some, Option.some.injEq, Int.natCast_inj]
      constructor
      · rintro ⟨rfl, h2⟩; exact ⟨rfl, h2, hm⟩
      · rintro ⟨rfl, h2, _⟩; exact ⟨rfl, h2⟩

/-! ### printed decimal forms -/

theorem toDigit_10_eq (c : Char) :
    toDigit? 10 c = if isAsciiDigit c then some (c.toNat - 48) else none := by
  unfold toDigit? hexVal? isAsciiDigit
  simp only [Bool.and_eq_true, decide_eq_true_eq]
  split
  · next d hd =>
    split at hd
    · next h1 => cases hd; rw [if_pos h1, if_pos (by omega)]
    · next h1 =>
      rw [if_neg h1]
      split at hd
      · cases hd; rw [if_neg (by omega)]
      · split at hd
        · cases hd; rw [if_neg (by omega)]
        · cases hd
  · next hd =>
    split at hd
    · cases hd
    · next h1 => rw [if_neg h1]

theorem radixVal_10_eq (s : Str) (acc : Nat) : radixVal? 10 acc s = digitsVal? acc s := by
  induction s generalizing acc with
  | nil => rfl
  | cons c cs ih =>
    rw [radixVal?, digitsVal?, toDigit_10_eq]
    by_cases hc : isAsciiDigit c = true
    · simp only [hc, if_true]; exact ih _
    · simp only [hc]; rfl

theorem specMag_of_snd_digit (c d : Char) (r : Str) (hd : isAsciiDigit d = true) :
    specMag (c :: d :: r) = digitsIn? 10 (c :: d :: r) := by
  have hb : d ≠ 'b' := by rintro rfl; exact absurd hd (by decide)
  have ho : d ≠ 'o' := by rintro rfl; exact absurd hd (by decide)
  have hx : d ≠ 'x' := by rintro rfl; exact absurd hd (by decide)
  unfold specMag
  split <;> simp_all

theorem specMag_single (c : Char) : specMag [c] = digitsIn? 10 [c] := by
  unfold specMag
  split <;> simp_all

theorem specMag_of_all_digits (s : Str) (h : ∀ c ∈ s, isAsciiDigit c = true) :
    specMag s = digitsIn? 10 s := by
  match s, h with
  | [], _ => rfl
  | [c], _ => exact specMag_single c
  | c :: d :: r, h => exact specMag_of_snd_digit c d r (h d (by simp))

theorem stripPlus_of_all_digits (s : Str) (h : ∀ c ∈ s, isAsciiDigit c = true) :
    stripPlus s = s := by
  apply stripPlus_of_ne
  cases s with
  | nil => simp
  | cons c r =>
    have hc := h c (by simp)
    simp only [List.head?_cons, ne_eq, Option.some.injEq]
    rintro rfl
    exact absurd hc (by decide)

theorem u256FromStrPrefixed_decimal (v : Nat) (h : v < 2 ^ 256) :
    u256FromStrPrefixed (decimal v) = some v := by
  rw [u256FromStrPrefixed_eq, stripPlus_of_all_digits _ (decimal_all_digits v), u256Body_eq,
    specMag_of_all_digits _ (decimal_all_digits v), digitsIn_eq, radixVal_10_eq,
    digitsVal?_decimal]
  have hne : (decimal v).isEmpty = false := by
    have := decDigits_ne_nil v
    cases hd : decimal v with
    | nil => simp [decimal] at hd; exact absurd hd this
    | cons _ _ => rfl
  rw [hne]
  simp [lt256, h]

theorem decimal_string_accepted (v : Nat) (h : v < 2 ^ 256) :
    uintOfJson (.str (decimal v)) = .ok v :=
  (uintOfJson_str _ _).mpr (u256FromStrPrefixed_decimal v h)

/-! ### `0x` + `hexEncode` -/

theorem beValAcc_eq (b : Bytes) (acc : Nat) : beValAcc acc b = acc * 256 ^ b.length + beVal b := by
  induction b generalizing acc with
  | nil => simp [beValAcc, beVal]
  | cons x b ih =>
    rw [beValAcc, ih, beVal, List.length_cons, Nat.pow_succ]
    rw [Nat.add_mul, Nat.mul_assoc, Nat.mul_comm 256, Nat.add_assoc]

theorem beVal_lt (b : Bytes) : beVal b < 256 ^ b.length := by
  induction b with
  | nil => simp [beVal]
  | cons x b ih =>
    have hx := x.toNat_lt
    rw [beVal, List.length_cons, Nat.pow_succ]
    have : x.toNat * 256 ^ b.length ≤ 255 * 256 ^ b.length := Nat.mul_le_mul_right _ (by omega)
    omega

theorem toDigit_16_hexDigit {n : Nat} (h : n < 16) : toDigit? 16 (hexDigit n) = some n := by
  simp [toDigit?, hexVal_hexDigit h, h]

theorem radixVal_cons_some {radix : Nat} {c : Char} {d : Nat} (h : toDigit? radix c = some d)
    (acc : Nat) (cs : Str) :
    radixVal? radix acc (c :: cs) = radixVal? radix (acc * radix + d) cs := by
  rw [radixVal?, h]

theorem radixVal_16_hexEncode (b : Bytes) (acc : Nat) :
    radixVal? 16 acc (hexEncode b) = some (beValAcc acc b) := by
  induction b generalizing acc with
  | nil => rfl
  | cons x b ih =>
    have hx := x.toNat_lt
    rw [hexEncode_cons, radixVal_cons_some (toDigit_16_hexDigit (by omega)),
      radixVal_cons_some (toDigit_16_hexDigit (by omega)), ih, beValAcc]
    congr 2
    omega

theorem u256FromStrPrefixed_hex (b : Bytes) (h : b ≠ []) (hl : b.length ≤ 32) :
    u256FromStrPrefixed ('0' :: 'x' :: hexEncode b) = some (beVal b) := by
  rw [u256FromStrPrefixed_eq, stripPlus_of_ne _ (by simp), u256Body_eq]
  have : specMag ('0' :: 'x' :: hexEncode b) = digitsIn? 16 (hexEncode b) := rfl
  rw [this, digitsIn_eq, radixVal_16_hexEncode, beValAcc_eq]
  have hne : (hexEncode b).isEmpty = false := by
    cases b with
    | nil => exact absurd rfl h
    | cons x b => rw [hexEncode_cons]; rfl
  rw [hne]
  have h1 := beVal_lt b
  have h2 : 256 ^ b.length ≤ 256 ^ 32 := Nat.pow_le_pow_right (by omega) hl
  have h3 : (256 : Nat) ^ 32 = 2 ^ 256 := by decide +kernel
  have : beVal b < 2 ^ 256 := by omega
  simp [lt256, this]

theorem hex_string_accepted (b : Bytes) (h : b ≠ []) (hl : b.length ≤ 32) :
    uintOfJson (.str ('0' :: 'x' :: hexEncode b)) = .ok (beVal b) :=
  (uintOfJson_str _ _).mpr (u256FromStrPrefixed_hex b h hl)

/-! ### range and totality of `uintOfJson` -/

theorem f64ToInt_false_lt (neg : Bool) (f : F64) (m : Nat)
    (h : f64ToInt? neg f = some (false, m)) : m < 2 ^ 53 := by
  unfold f64ToInt? at h
  split at h
  · cases h
  · next m' _ =>
    split at h
    · split at h
      · simp only [Option.some.injEq, Prod.mk.injEq, decide_eq_false_iff_not, ne_eq,
          Decidable.not_not] at h
        obtain ⟨h0, rfl⟩ := h
        subst h0
        decide
      · cases h
    · split at h
      · simp only [Option.some.injEq, Prod.mk.injEq, true_and] at h
        subst h
        assumption
      · cases h

theorem u256FromStrPrefixed_lt (s : Str) (v : Nat) (h : u256FromStrPrefixed s = some v) :
    v < 2 ^ 256 := by
  rw [u256FromStrPrefixed_eq, u256Body_eq, lt256_eq_some] at h
  exact h.2

theorem uintOfJson_ok_lt (v : JVal) (x : Nat) (h : uintOfJson v = .ok x) : x < 2 ^ 256 := by
  unfold uintOfJson at h
  split at h
  · split at h
    · next w hc =>
      cases h
      have := classify_u64_le _ _ hc
      unfold u64Max at this
      omega
    · cases h
    · split at h
      · next m hf =>
        cases h
        have := f64ToInt_false_lt _ _ _ hf
        omega
      · cases h
      · cases h
    · cases h
  · split at h
    · next w hs => cases h; exact u256FromStrPrefixed_lt _ _ hs
    · cases h
  · cases h

theorem uintOfJson_ne_panic (v : JVal) (site : String) : uintOfJson v ≠ .panic site := by
  unfold uintOfJson
  intro h
  split at h
  · split at h
    · cases h
    · cases h
    · split at h <;> cases h
    · cases h
  · split at h <;> cases h
  · cases h

/-! ### byte fields -/

theorem hexDecodeExact_eq_some (n : Nat) (h : Str) (b : Bytes) :
    hexDecodeExact n h = some b ↔ hexDecode h = some b ∧ b.length = n := by
  unfold hexDecodeExact
  cases hexDecode h with
  | none => simp
  | some b' =>
    by_cases hl : b'.length = n
    · simp only [hl, if_true, Option.some.injEq]
      constructor
      · rintro rfl; exact ⟨rfl, hl⟩
      · exact fun h => h.1
    · simp only [hl, if_false]
      constructor
      · intro h; cases h
      · rintro ⟨h1, h2⟩; cases h1; exact absurd h2 hl

theorem bytes_field (v : JVal) (b : Bytes) :
    bytesOfJson v = .ok b ↔ ∃ h, v = .str ('0' :: 'x' :: h) ∧ hexDecode h = some b := by
  constructor
  · intro h
    unfold bytesOfJson at h
    split at h
    · next s =>
      split at h
      · cases h
      · next hx hp =>
        split at h
        · next b' hd =>
          cases h
          have := stripPrefix_0x_inv hp
          subst this
          exact ⟨hx, rfl, hd⟩
        · cases h
    · cases h
  · rintro ⟨h, rfl, hd⟩
    simp [bytesOfJson, stripPrefix_0x_cons, hd]

theorem storage_key_field (v : JVal) (s : Bytes) (h : byteArrayOfJson 32 v = .ok s) :
    s.length = 32 ∧ ∃ hx, hx.length = 64 ∧ hexDecode hx = some s ∧ v = .str ('0' :: 'x' :: hx) := by
  unfold byteArrayOfJson at h
  split at h
  · next str =>
    split at h
    · cases h
    · next hx hp =>
      split at h
      · next b' hd =>
        cases h
        have := stripPrefix_0x_inv hp
        subst this
        obtain ⟨hd, hl⟩ := (hexDecodeExact_eq_some _ _ _).mp hd
        have := hexDecode_length hd
        exact ⟨hl, hx, by omega, hd, rfl⟩
      · cases h
  · cases h

theorem address_field (v : JVal) (a : Bytes) (h : addressOfJson v = .ok a) :
    a.length = 20 ∧ ∃ hx, hx.length = 40 ∧ hexDecode hx = some a ∧
      (v = .str ('0' :: 'x' :: hx) ∨ v = .str ('0' :: 'x' :: '0' :: 'x' :: hx)) := by
  unfold addressOfJson at h
  split at h
  · next str =>
    split at h
    · cases h
    · next hx hp =>
      have := stripPrefix_0x_inv hp
      subst this
      cases hp2 : stripPrefix ['0', 'x'] hx with
      | none =>
        simp only [hp2] at h
        split at h
        · next b' hde =>
          cases h
          obtain ⟨hd, hl⟩ := (hexDecodeExact_eq_some _ _ _).mp hde
          have hlen := hexDecode_length hd
          exact ⟨hl, hx, by omega, hd, Or.inl rfl⟩
        · cases h
      | some r =>
        simp only [hp2] at h
        have := stripPrefix_0x_inv hp2
        subst this
        split at h
        · next b' hde =>
          cases h
          obtain ⟨hd, hl⟩ := (hexDecodeExact_eq_some _ _ _).mp hde
          have hlen := hexDecode_length hd
          exact ⟨hl, r, by omega, hd, Or.inr rfl⟩
        · cases h
  · cases h

/-! ### the transaction deserialiser never panics -/

/-- the outcome is a value or an ordinary error -/
def NoPanic {α} (r : Res α) : Prop := ∀ s, r ≠ .panic s

theorem NoPanic.ok {α} (a : α) : NoPanic (Res.ok a) := fun _ h => by cases h
theorem NoPanic.err {α} (m : String) : NoPanic (Res.err m : Res α) := fun _ h => by cases h
theorem NoPanic.pure {α} (a : α) : NoPanic (Pure.pure a : Res α) := NoPanic.ok a

theorem NoPanic.bind {α β} {r : Res α} {f : α → Res β} (hr : NoPanic r)
    (hf : ∀ a, NoPanic (f a)) : NoPanic (r.bind f) := by
  cases r with
  | ok a => exact hf a
  | err m => exact NoPanic.err m
  | panic s => exact absurd rfl (hr s)

theorem NoPanic.bind' {α β} {r : Res α} {f : α → Res β} (hr : NoPanic r)
    (hf : ∀ a, NoPanic (f a)) : NoPanic (r >>= f) := NoPanic.bind hr hf

theorem noPanic_uint (v : JVal) : NoPanic (uintOfJson v) := uintOfJson_ne_panic v

theorem noPanic_optUint (v : JVal) : NoPanic (optUintOfJson v) := by
  unfold optUintOfJson
  split
  · exact NoPanic.ok _
  · split
    · exact NoPanic.ok _
    · exact NoPanic.err _
    · next e he => exact absurd he (uintOfJson_ne_panic _ _)

theorem noPanic_bytes (v : JVal) : NoPanic (bytesOfJson v) := by
  unfold bytesOfJson
  intro s h
  split at h
  · split at h
    · cases h
    · split at h <;> cases h
  · cases h

theorem noPanic_byteArray (n : Nat) (v : JVal) : NoPanic (byteArrayOfJson n v) := by
  unfold byteArrayOfJson
  intro s h
  split at h
  · split at h
    · cases h
    · split at h <;> cases h
  · cases h

theorem noPanic_address (v : JVal) : NoPanic (addressOfJson v) := by
  unfold addressOfJson
  intro s h
  split at h
  · split at h
    · cases h
    · simp only at h
      split at h <;> cases h
  · cases h

open Hdw.Tx in
theorem noPanic_reqField (kv : List (Str × JVal)) (k : Str) : NoPanic (reqField kv k) := by
  unfold reqField
  split
  · exact NoPanic.ok _
  · exact NoPanic.err _

open Hdw.Tx in
theorem noPanic_reqUint (kv : List (Str × JVal)) (k : Str) : NoPanic (reqUint kv k) :=
  NoPanic.bind (noPanic_reqField kv k) noPanic_uint

open Hdw.Tx in
theorem noPanic_optTo (kv : List (Str × JVal)) : NoPanic (optTo kv) := by
  unfold optTo
  split
  · exact NoPanic.ok _
  · exact NoPanic.ok _
  · exact NoPanic.bind (noPanic_address _) fun _ => NoPanic.ok _

open Hdw.Tx in
theorem noPanic_slots (l : List JVal) : NoPanic (slotsOfJson l) := by
  induction l with
  | nil => exact NoPanic.ok _
  | cons v vs ih =>
    unfold slotsOfJson
    split
    · split
      · exact NoPanic.ok _
      · exact NoPanic.err _
      · next e he => exact absurd he (ih e)
    · exact NoPanic.err _
    · next e he => exact absurd he (noPanic_byteArray _ _ e)

open Hdw.Tx in
theorem noPanic_entry (v : JVal) : NoPanic (entryOfJson v) := by
  unfold entryOfJson
  split
  · split
    · split
      · exact NoPanic.ok _
      · exact NoPanic.err _
      · next e he => exact absurd he (noPanic_slots _ e)
    · exact NoPanic.err _
    · next e he => exact absurd he (noPanic_address _ e)
  · exact NoPanic.err _

open Hdw.Tx in
theorem noPanic_entries (l : List JVal) : NoPanic (entriesOfJson l) := by
  induction l with
  | nil => exact NoPanic.ok _
  | cons v vs ih =>
    unfold entriesOfJson
    split
    · split
      · exact NoPanic.ok _
      · exact NoPanic.err _
      · next e he => exact absurd he (ih e)
    · exact NoPanic.err _
    · next e he => exact absurd he (noPanic_entry _ e)

open Hdw.Tx in
theorem noPanic_accessList (v : JVal) : NoPanic (accessListOfJson v) := by
  unfold accessListOfJson
  split
  · exact noPanic_entries _
  · exact NoPanic.err _

open Hdw.Tx in
theorem noPanic_ofJson (v : JVal) : NoPanic (ofJson v) := by
  unfold ofJson
  split
  · simp only
    split
    · refine NoPanic.bind' (noPanic_reqUint _ _) fun _ => ?_
      refine NoPanic.bind' (noPanic_reqUint _ _) fun _ => ?_
      refine NoPanic.bind' (noPanic_reqUint _ _) fun _ => ?_
      refine NoPanic.bind' (noPanic_reqUint _ _) fun _ => ?_
      refine NoPanic.bind' (noPanic_reqUint _ _) fun _ => ?_
      refine NoPanic.bind' (noPanic_optTo _) fun _ => ?_
      refine NoPanic.bind' (noPanic_reqUint _ _) fun _ => ?_
      refine NoPanic.bind' (NoPanic.bind (noPanic_reqField _ _) noPanic_bytes) fun _ => ?_
      split
      · exact NoPanic.bind' (NoPanic.ok _) fun _ => NoPanic.pure _
      · exact NoPanic.bind' (noPanic_accessList _) fun _ => NoPanic.pure _
    · split
      · refine NoPanic.bind' (noPanic_reqUint _ _) fun _ => ?_
        refine NoPanic.bind' (noPanic_reqUint _ _) fun _ => ?_
        refine NoPanic.bind' (noPanic_reqUint _ _) fun _ => ?_
        refine NoPanic.bind' (noPanic_reqUint _ _) fun _ => ?_
        refine NoPanic.bind' (noPanic_optTo _) fun _ => ?_
        refine NoPanic.bind' (noPanic_reqUint _ _) fun _ => ?_
        refine NoPanic.bind' (NoPanic.bind (noPanic_reqField _ _) noPanic_bytes) fun _ => ?_
        exact NoPanic.bind' (NoPanic.bind (noPanic_reqField _ _) noPanic_accessList)
          fun _ => NoPanic.pure _
      · refine NoPanic.bind' (noPanic_reqUint _ _) fun _ => ?_
        refine NoPanic.bind' (noPanic_reqUint _ _) fun _ => ?_
        refine NoPanic.bind' (noPanic_reqUint _ _) fun _ => ?_
        refine NoPanic.bind' (noPanic_optTo _) fun _ => ?_
        refine NoPanic.bind' (noPanic_reqUint _ _) fun _ => ?_
        refine NoPanic.bind' (NoPanic.bind (noPanic_reqField _ _) noPanic_bytes) fun _ => ?_
        have key : ∀ (r : Res (Option Nat)) (f : Option Nat → Tx) (g : Nat → Tx), NoPanic r →
            NoPanic (r >>= fun chainId =>
              match chainId with
              | some c => if c ≤ maxLegacyChainId then pure (g c)
                  else Res.err "chain ID too large for EIP-155"
              | none => pure (f none)) := by
          intro r f g hr
          refine NoPanic.bind' hr fun c => ?_
          split
          · split
            · exact NoPanic.pure _
            · exact NoPanic.err _
          · exact NoPanic.pure _
        split
        · exact key _ (fun c => Tx.legacy c _ _ _ _ _ _) (fun c => Tx.legacy (some c) _ _ _ _ _ _)
            (NoPanic.ok _)
        · exact key _ (fun c => Tx.legacy c _ _ _ _ _ _) (fun c => Tx.legacy (some c) _ _ _ _ _ _)
            (noPanic_optUint _)
  · exact NoPanic.err _

open Hdw.Tx in
theorem parse_no_panic (input : Bytes) (site : String) : Hdw.Tx.parse input ≠ .panic site := by
  unfold Hdw.Tx.parse
  split
  · exact noPanic_ofJson _ site
  · intro h; cases h

end Hdw.Numbers
