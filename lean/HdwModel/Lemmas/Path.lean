/-
Helper lemmas for C14 (BIP-32 path text): `splitOn`/`joinWith`, `stripPrefix`/`stripSuffix`,
`parseUInt` on printed decimals, `Component.parse`, `parseAll`.
-/
import HdwModel.Model.Path
import HdwModel.Lemmas.Decimal

namespace Hdw

/-! ### splitOn / joinWith -/

theorem splitOn_ne_nil (sep : Char) (s : Str) : splitOn sep s ≠ [] := by
  induction s with
  | nil => simp [splitOn]
  | cons c cs ih =>
    simp only [splitOn]
    split
    · simp
    · split <;> simp

theorem splitOn_of_not_mem (sep : Char) (w : Str) (h : sep ∉ w) : splitOn sep w = [w] := by
  induction w with
  | nil => rfl
  | cons c cs ih =>
    simp only [List.mem_cons, not_or] at h
    have hc : ¬ c = sep := fun e => h.1 e.symm
    simp [splitOn, ih h.2, hc]

theorem splitOn_append_sep (sep : Char) (w rest : Str) (h : sep ∉ w) :
    splitOn sep (w ++ sep :: rest) = w :: splitOn sep rest := by
  induction w with
  | nil => simp [splitOn]
  | cons c cs ih =>
    simp only [List.mem_cons, not_or] at h
    have hc : ¬ c = sep := fun e => h.1 e.symm
    simp [splitOn, ih h.2, hc]

theorem splitOn_joinWith (sep : Char) (ws : List Str) (hne : ws ≠ [])
    (h : ∀ w ∈ ws, sep ∉ w) : splitOn sep (joinWith [sep] ws) = ws := by
  induction ws with
  | nil => exact absurd rfl hne
  | cons w ws ih =>
    cases ws with
    | nil => simpa [joinWith] using splitOn_of_not_mem sep w (h w (by simp))
    | cons w' ws' =>
      rw [joinWith]
      · rw [List.append_assoc, List.singleton_append,
          splitOn_append_sep sep w _ (h w (by simp)),
          ih (by simp) (fun x hx => h x (List.mem_cons_of_mem _ hx))]
      · simp

/-! ### stripPrefix / stripSuffix -/

theorem stripPrefix_append (p s : Str) : stripPrefix p (p ++ s) = some s := by
  induction p with
  | nil => simp [stripPrefix]
  | cons a p ih => simp [stripPrefix, ih]

theorem stripPrefix_singleton_eq_some (c : Char) (l t : Str) :
    stripPrefix [c] l = some t ↔ l = c :: t := by
  cases l with
  | nil => simp [stripPrefix]
  | cons b l' =>
    simp only [stripPrefix]
    split
    · rename_i hcb
      subst hcb
      simp
    · rename_i hcb
      simp only [List.cons.injEq, reduceCtorEq, false_iff, not_and]
      intro e; exact absurd e.symm hcb

theorem stripSuffix_singleton_eq_some (c : Char) (s t : Str) :
    stripSuffix [c] s = some t ↔ s = t ++ [c] := by
  unfold stripSuffix
  simp only [List.reverse_cons, List.reverse_nil, List.nil_append, Option.map_eq_some_iff,
    stripPrefix_singleton_eq_some]
  constructor
  · rintro ⟨a, ha, rfl⟩
    have := congrArg List.reverse ha
    simpa using this
  · rintro rfl
    exact ⟨t.reverse, by simp, by simp⟩

theorem stripSuffix_singleton_append (c : Char) (t : Str) :
    stripSuffix [c] (t ++ [c]) = some t :=
  (stripSuffix_singleton_eq_some c _ t).mpr rfl

theorem stripSuffix_singleton_eq_none (c : Char) (s : Str) (h : ∀ t, s ≠ t ++ [c]) :
    stripSuffix [c] s = none := by
  cases hs : stripSuffix [c] s with
  | none => rfl
  | some t => exact absurd ((stripSuffix_singleton_eq_some c s t).mp hs) (h t)

/-! ### digits -/

theorem digitsVal?_some_all_digits (s : Str) (acc v : Nat) (h : digitsVal? acc s = some v) :
    ∀ c ∈ s, isAsciiDigit c = true := by
  induction s generalizing acc with
  | nil => simp
  | cons c cs ih =>
    simp only [digitsVal?] at h
    split at h
    · rename_i hc
      intro x hx
      simp only [List.mem_cons] at hx
      rcases hx with rfl | hx
      · exact hc
      · exact ih _ h x hx
    · cases h

theorem decimal_ne_nil (n : Nat) : decimal n ≠ [] := by
  simp [decimal, decDigits_ne_nil]

theorem not_mem_decimal_of_not_digit (n : Nat) (c : Char) (hc : isAsciiDigit c = false) :
    c ∉ decimal n := by
  intro h
  have := decimal_all_digits n c h
  rw [hc] at this
  cases this

theorem slash_not_mem_decimal (n : Nat) : '/' ∉ decimal n :=
  not_mem_decimal_of_not_digit n '/' (by decide)

theorem quote_not_mem_decimal (n : Nat) : '\'' ∉ decimal n :=
  not_mem_decimal_of_not_digit n '\'' (by decide)

theorem plus_not_mem_decimal (n : Nat) : '+' ∉ decimal n :=
  not_mem_decimal_of_not_digit n '+' (by decide)

theorem stripSuffix_quote_decimal (n : Nat) : stripSuffix ['\''] (decimal n) = none := by
  apply stripSuffix_singleton_eq_none
  intro t e
  exact quote_not_mem_decimal n (by rw [e]; simp)

/-- `u32::from_str` (any width) on the printed form -/
theorem parseUInt_decimal (bits n : Nat) :
    parseUInt bits (decimal n) = if n < 2 ^ bits then some n else none := by
  have hne := decimal_ne_nil n
  have hplus := plus_not_mem_decimal n
  have hval := digitsVal?_decimal n
  cases hd : decimal n with
  | nil => exact absurd hd hne
  | cons c cs =>
    rw [hd] at hplus hval
    have hc : c ≠ '+' := fun e => hplus (by simp [e])
    unfold parseUInt
    split
    · rename_i rest heq
      simp only [List.cons.injEq] at heq
      exact absurd heq.1 hc
    · simp only [hval]

theorem parseUInt_some_chars (bits : Nat) (s : Str) (v : Nat) (h : parseUInt bits s = some v) :
    ∀ c ∈ s, c = '+' ∨ isAsciiDigit c = true := by
  unfold parseUInt at h
  split at h
  · rename_i rest
    intro c hc
    simp only [List.mem_cons] at hc
    rcases hc with rfl | hc
    · exact Or.inl rfl
    · right
      dsimp only at h
      split at h
      · cases h
      · cases hv : digitsVal? 0 rest with
        | none => simp [hv] at h
        | some v' => exact digitsVal?_some_all_digits rest 0 v' hv c hc
  · intro c hc
    right
    dsimp only at h
    split at h
    · cases h
    · cases hv : digitsVal? 0 s with
      | none => simp [hv] at h
      | some v' => exact digitsVal?_some_all_digits s 0 v' hv c hc

theorem parseUInt_nil (bits : Nat) : parseUInt bits [] = none := by
  simp [parseUInt]

namespace Path

/-! ### Component.parse -/

theorem Component.parse_no_panic (s : Str) (site : String) : Component.parse s ≠ .panic site := by
  unfold Component.parse
  intro h
  split at h
  split at h
  · cases h
  · split at h <;> cases h

theorem Component.parse_ok_lt (s : Str) (c : Component) (h : Component.parse s = .ok c) :
    c.value < 2 ^ 31 := by
  unfold Component.parse at h
  split at h
  split at h
  · cases h
  · split at h
    · rename_i hv
      cases h
      split <;> simpa [Component.value] using hv
    · cases h

theorem Component.parse_nil : ∃ e, Component.parse [] = .err e :=
  ⟨"invalid BIP-0032 path component", by simp [Component.parse, stripSuffix, stripPrefix, parseUInt]⟩

/-- characters of an accepted component -/
theorem Component.parse_ok_chars (s : Str) (c : Component) (h : Component.parse s = .ok c) :
    ∀ x ∈ s, x = '+' ∨ x = '\'' ∨ isAsciiDigit x = true := by
  unfold Component.parse at h
  intro x hx
  cases hs : stripSuffix ['\''] s with
  | some t =>
    have hst := (stripSuffix_singleton_eq_some _ _ _).mp hs
    simp only [hs] at h
    cases hp : parseUInt 32 t with
    | none => simp [hp] at h
    | some v =>
      rw [hst] at hx
      simp only [List.mem_append, List.mem_singleton] at hx
      rcases hx with hx | hx
      · rcases parseUInt_some_chars 32 t v hp x hx with h1 | h1
        · exact Or.inl h1
        · exact Or.inr (Or.inr h1)
      · exact Or.inr (Or.inl hx)
  | none =>
    simp only [hs] at h
    cases hp : parseUInt 32 s with
    | none => simp [hp] at h
    | some v =>
      rcases parseUInt_some_chars 32 s v hp x hx with h1 | h1
      · exact Or.inl h1
      · exact Or.inr (Or.inr h1)

theorem Component.parse_ok_or_err (s : Str) :
    (∃ c, Component.parse s = .ok c) ∨ (∃ e, Component.parse s = .err e) := by
  cases h : Component.parse s with
  | ok c => exact Or.inl ⟨c, rfl⟩
  | err e => exact Or.inr ⟨e, rfl⟩
  | panic site => exact absurd h (Component.parse_no_panic s site)

theorem Component.parse_hardened (v : Nat) :
    Component.parse (decimal v ++ ['\'']) =
      if v < 2 ^ 31 then .ok (.hardened v) else
        (if v < 2 ^ 32 then .err "BIP-0032 path component out of range"
         else .err "invalid BIP-0032 path component") := by
  unfold Component.parse
  simp only [stripSuffix_singleton_append, parseUInt_decimal]
  by_cases h32 : v < 2 ^ 32
  · simp [h32]
  · have : ¬ v < 2 ^ 31 := by omega
    simp [h32, this]

theorem Component.parse_normal (v : Nat) :
    Component.parse (decimal v) =
      if v < 2 ^ 31 then .ok (.normal v) else
        (if v < 2 ^ 32 then .err "BIP-0032 path component out of range"
         else .err "invalid BIP-0032 path component") := by
  unfold Component.parse
  simp only [stripSuffix_quote_decimal, parseUInt_decimal]
  by_cases h32 : v < 2 ^ 32
  · simp [h32]
  · have : ¬ v < 2 ^ 31 := by omega
    simp [h32, this]

theorem Component.parse_print (c : Component) (h : c.value < 2 ^ 31) :
    Component.parse c.print = .ok c := by
  cases c with
  | hardened v =>
    simp only [Component.value] at h
    simp [Component.print, Component.parse_hardened, h]
  | normal v =>
    simp only [Component.value] at h
    simp [Component.print, Component.parse_normal, h]

theorem Component.parse_decimal_big (v : Nat) (h : 2 ^ 31 ≤ v) :
    ∃ e, Component.parse (decimal v) = .err e := by
  rw [Component.parse_normal]
  have : ¬ v < 2 ^ 31 := by omega
  simp only [this, if_false]
  split <;> exact ⟨_, rfl⟩

theorem Component.slash_not_mem_print (c : Component) : '/' ∉ c.print := by
  cases c with
  | hardened v => simp [Component.print, slash_not_mem_decimal]
  | normal v => simp [Component.print, slash_not_mem_decimal]

/-! ### parseAll -/

theorem parseAll_no_panic (ws : List Str) (site : String) : parseAll ws ≠ .panic site := by
  induction ws with
  | nil => simp [parseAll]
  | cons w ws ih =>
    intro h
    simp only [parseAll] at h
    split at h
    · split at h
      · cases h
      · cases h
      · rename_i e he
        cases h
        exact ih he
    · cases h
    · rename_i e he
      exact Component.parse_no_panic w e he

theorem parseAll_map_print (p : Path) (hlt : ∀ c ∈ p, c.value < 2 ^ 31) :
    parseAll (p.map Component.print) = .ok p := by
  induction p with
  | nil => rfl
  | cons c cs ih =>
    simp only [List.map_cons, parseAll]
    rw [Component.parse_print c (hlt c (by simp)), ih (fun x hx => hlt x (by simp [hx]))]

theorem parseAll_ok (ws : List Str) (p : Path) (h : parseAll ws = .ok p) :
    p.length = ws.length ∧ ∀ c ∈ p, c.value < 2 ^ 31 := by
  induction ws generalizing p with
  | nil =>
    simp only [parseAll] at h
    cases h
    simp
  | cons w ws ih =>
    simp only [parseAll] at h
    split at h
    · rename_i c hc
      split at h
      · rename_i cs hcs
        cases h
        have := ih cs hcs
        refine ⟨by simp [this.1], ?_⟩
        intro x hx
        simp only [List.mem_cons] at hx
        rcases hx with rfl | hx
        · exact Component.parse_ok_lt w _ hc
        · exact this.2 x hx
      · cases h
      · cases h
    · cases h
    · cases h

theorem parseAll_ok_or_err (ws : List Str) :
    (∃ p, parseAll ws = .ok p) ∨ (∃ e, parseAll ws = .err e) := by
  cases h : parseAll ws with
  | ok c => exact Or.inl ⟨c, rfl⟩
  | err e => exact Or.inr ⟨e, rfl⟩
  | panic site => exact absurd h (parseAll_no_panic ws site)

/-- one bad component rejects the whole list -/
theorem parseAll_bad (pre post : List Str) (bad : Str)
    (hbad : ∃ e, Component.parse bad = .err e) :
    ∃ e, parseAll (pre ++ [bad] ++ post) = .err e := by
  induction pre with
  | nil =>
    obtain ⟨e, he⟩ := hbad
    exact ⟨e, by simp [parseAll, he]⟩
  | cons w ws ih =>
    obtain ⟨e, he⟩ := ih
    simp only [List.cons_append, parseAll]
    rcases Component.parse_ok_or_err w with ⟨c, hc⟩ | ⟨e', he'⟩
    · rw [hc, he]
      exact ⟨e, rfl⟩
    · rw [he']
      exact ⟨e', rfl⟩

/-! ### print / parse -/

theorem print_eq_joinWith (p : Path) (hne : p ≠ []) :
    print p = 'm' :: '/' :: joinWith ['/'] (p.map Component.print) := by
  cases p with
  | nil => exact absurd rfl hne
  | cons c cs =>
    simp only [print, List.flatMap_cons, List.map_cons, List.cons_append, List.cons.injEq,
      true_and]
    clear hne
    induction cs generalizing c with
    | nil => simp [joinWith]
    | cons d ds ih =>
      rw [joinWith]
      · simp only [List.flatMap_cons, List.map_cons, List.cons_append]
        rw [ih d]
        simp
      · simp

theorem parse_root_joinWith (ws : List Str) (hne : ws ≠ []) (h : ∀ w ∈ ws, '/' ∉ w) :
    parse ('m' :: '/' :: joinWith ['/'] ws) = parseAll ws := by
  have : stripPrefix ['m', '/'] ('m' :: '/' :: joinWith ['/'] ws) = some (joinWith ['/'] ws) :=
    stripPrefix_append ['m', '/'] _
  simp only [parse, this, splitOn_joinWith '/' ws hne h]

theorem parse_print (p : Path) (hne : p ≠ []) (hlt : ∀ c ∈ p, c.value < 2 ^ 31) :
    parse (print p) = .ok p := by
  rw [print_eq_joinWith p hne, parse_root_joinWith _ (by simpa using hne), parseAll_map_print p hlt]
  intro w hw
  simp only [List.mem_map] at hw
  obtain ⟨c, _, rfl⟩ := hw
  exact Component.slash_not_mem_print c

theorem parse_no_panic (s : Str) (site : String) : parse s ≠ .panic site := by
  unfold parse
  split
  · intro h; cases h
  · exact parseAll_no_panic _ site

theorem parse_ok (s : Str) (p : Path) (h : parse s = .ok p) :
    p ≠ [] ∧ ∀ c ∈ p, c.value < 2 ^ 31 := by
  unfold parse at h
  split at h
  · cases h
  · rename_i rest _
    have := parseAll_ok _ p h
    refine ⟨?_, this.2⟩
    intro e
    have hl := this.1
    rw [e] at hl
    exact splitOn_ne_nil '/' rest (List.length_eq_zero_iff.mp hl.symm)

theorem decimal_44 : decimal 44 = ['4', '4'] := by decide +kernel
theorem decimal_60 : decimal 60 = ['6', '0'] := by decide +kernel
theorem decimal_0 : decimal 0 = ['0'] := by decide +kernel

theorem forIndex_eq (i : Nat) :
    forIndex i = parse (print [.hardened 44, .hardened 60, .hardened 0, .normal 0, .normal i]) := by
  simp [forIndex, print, Component.print, decimal_44, decimal_60, decimal_0]

theorem forIndex_big (i : Nat) (h : 2 ^ 31 ≤ i) : ∃ e, forIndex i = .err e := by
  rw [forIndex_eq, print_eq_joinWith _ (by simp)]
  have := parseAll_bad [Component.print (.hardened 44), Component.print (.hardened 60),
    Component.print (.hardened 0), Component.print (.normal 0)] [] (decimal i)
    (Component.parse_decimal_big i h)
  rw [parse_root_joinWith]
  · simpa [Component.print] using this
  · simp
  · intro w hw
    simp only [List.mem_map] at hw
    obtain ⟨c, _, rfl⟩ := hw
    exact Component.slash_not_mem_print c

/-- a `Res` that evaluates to an error (for closed examples) -/
theorem exists_err_of_isErr {α} (r : Res α) (h : r.isErr = true) : ∃ e, r = .err e := by
  cases r with
  | err e => exact ⟨e, rfl⟩
  | ok a => cases h
  | panic s => cases h

end Path
end Hdw
