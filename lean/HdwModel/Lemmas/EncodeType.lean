/-
Helper lemmas for C08a (`encode_type`): the string order, the sorted insert and the
work-list invariant.
-/
import HdwModel.Model.TypedData
import HdwModel.Spec.Eip712

namespace Hdw.TypedData
open Hdw Hdw.Spec.Eip712

/-! ### `strLt` is a strict total order -/

theorem strLt_irrefl (a : Str) : strLt a a = false := by
  induction a with
  | nil => simp [strLt]
  | cons c cs ih => simp [strLt, ih]

theorem strLt_trans (a b c : Str) (hab : strLt a b = true) (hbc : strLt b c = true) :
    strLt a c = true := by
  induction a generalizing b c with
  | nil =>
    cases b with
    | nil => simp [strLt] at hab
    | cons y ys =>
      cases c with
      | nil => simp [strLt] at hbc
      | cons z zs => simp [strLt]
  | cons x xs ih =>
    cases b with
    | nil => simp [strLt] at hab
    | cons y ys =>
      cases c with
      | nil => simp [strLt] at hbc
      | cons z zs =>
        simp only [strLt] at hab hbc ⊢
        by_cases h1 : x.toNat < y.toNat
        · by_cases h2 : y.toNat < z.toNat
          · have : x.toNat < z.toNat := by omega
            simp [this]
          · by_cases h3 : y.toNat > z.toNat
            · simp [h2, h3] at hbc
            · have : x.toNat < z.toNat := by omega
              simp [this]
        · by_cases h1' : x.toNat > y.toNat
          · simp [h1, h1'] at hab
          · simp only [h1, h1', if_false] at hab
            by_cases h2 : y.toNat < z.toNat
            · have : x.toNat < z.toNat := by omega
              simp [this]
            · by_cases h3 : y.toNat > z.toNat
              · simp [h2, h3] at hbc
              · simp only [h2, h3, if_false] at hbc
                have e1 : ¬ x.toNat < z.toNat := by omega
                have e2 : ¬ x.toNat > z.toNat := by omega
                simp only [e1, e2, if_false]
                exact ih ys zs hab hbc

theorem strLt_total (a b : Str) : strLt a b = true ∨ a = b ∨ strLt b a = true := by
  induction a generalizing b with
  | nil =>
    cases b with
    | nil => simp
    | cons y ys => simp [strLt]
  | cons x xs ih =>
    cases b with
    | nil => simp [strLt]
    | cons y ys =>
      simp only [strLt]
      by_cases h1 : x.toNat < y.toNat
      · simp [h1]
      · by_cases h2 : x.toNat > y.toNat
        · have : y.toNat < x.toNat := h2
          simp [this]
        · have hxy : x = y := Char.toNat_inj.mp (by omega)
          subst hxy
          simp only [Nat.lt_irrefl, if_false, gt_iff_lt, List.cons.injEq, true_and]
          exact ih ys

theorem strLt_ne {a b : Str} (h : strLt a b = true) : a ≠ b := by
  intro e; subst e; rw [strLt_irrefl] at h; cases h

theorem strLt_asymm {a b : Str} (h : strLt a b = true) : strLt b a = false := by
  cases hb : strLt b a with
  | false => rfl
  | true => have := strLt_trans a b a h hb; rw [strLt_irrefl] at this; cases this

/-- strictly increasing lists with the same members are equal -/
theorem sorted_ext (l₁ l₂ : List Str)
    (h₁ : l₁.Pairwise (fun a b => strLt a b = true)) (h₂ : l₂.Pairwise (fun a b => strLt a b = true))
    (hmem : ∀ x, x ∈ l₁ ↔ x ∈ l₂) : l₁ = l₂ := by
  induction l₁ generalizing l₂ with
  | nil =>
    cases l₂ with
    | nil => rfl
    | cons b bs => exact absurd ((hmem b).mpr (by simp)) (by simp)
  | cons a as ih =>
    cases l₂ with
    | nil => exact absurd ((hmem a).mp (by simp)) (by simp)
    | cons b bs =>
      rw [List.pairwise_cons] at h₁ h₂
      have hab : a = b := by
        by_cases hab : a = b
        · exact hab
        · have ha : a ∈ bs := by
            have := (hmem a).mp (by simp)
            simpa [hab] using this
          have hb : b ∈ as := by
            have := (hmem b).mpr (by simp)
            simpa [Ne.symm hab] using this
          have := strLt_asymm (h₁.1 b hb)
          rw [h₂.1 a ha] at this
          cases this
      subst hab
      congr 1
      apply ih _ h₁.2 h₂.2
      intro x
      constructor
      · intro hx
        have := (hmem x).mp (by simp [hx])
        have hne : x ≠ a := (strLt_ne (h₁.1 x hx)).symm
        simpa [hne] using this
      · intro hx
        have := (hmem x).mpr (by simp [hx])
        have hne : x ≠ a := (strLt_ne (h₂.1 x hx)).symm
        simpa [hne] using this

/-! ### `Types.get?` -/

theorem Types.get?_mem {types : Types} {k : Str} {v : List Member} (h : types.get? k = some v) :
    (k, v) ∈ types := by
  induction types with
  | nil => simp [Types.get?] at h
  | cons p rest ih =>
    obtain ⟨k', v'⟩ := p
    simp only [Types.get?] at h
    split at h
    · rename_i hk
      simp only [Option.some.injEq] at h
      subst hk; subst h
      simp
    · exact List.mem_cons_of_mem _ (ih h)

theorem refers_iff (types : Types) (frm name : Str) :
    Refers types frm name ↔ ∃ members, types.get? frm = some members ∧ name ∈ structReferences members := by
  unfold Refers structReferences
  simp only [List.mem_filterMap]

/-! ### `sortedInsert` -/

abbrev keys (l : List (Str × List Member)) : List Str := l.map (·.1)

theorem mem_sortedInsert (k : Str) (v : List Member) (l : List (Str × List Member))
    (hk : k ∉ keys l) (p : Str × List Member) :
    p ∈ sortedInsert k v l ↔ p = (k, v) ∨ p ∈ l := by
  induction l with
  | nil => simp [sortedInsert]
  | cons q rest ih =>
    obtain ⟨k', v'⟩ := q
    simp only [keys, List.map_cons, List.mem_cons, not_or] at hk
    simp only [sortedInsert]
    split
    · simp
    · rw [if_neg hk.1]
      simp only [List.mem_cons, ih hk.2]
      constructor
      · rintro (h | h | h) <;> simp [h]
      · rintro (h | h | h) <;> simp [h]

theorem mem_keys_sortedInsert (k : Str) (v : List Member) (l : List (Str × List Member))
    (hk : k ∉ keys l) (x : Str) :
    x ∈ keys (sortedInsert k v l) ↔ x = k ∨ x ∈ keys l := by
  simp only [keys, List.mem_map, mem_sortedInsert k v l hk]
  constructor
  · rintro ⟨p, (rfl | hp), rfl⟩
    · exact Or.inl rfl
    · exact Or.inr ⟨p, hp, rfl⟩
  · rintro (rfl | ⟨p, hp, rfl⟩)
    · exact ⟨(x, v), Or.inl rfl, rfl⟩
    · exact ⟨p, Or.inr hp, rfl⟩

abbrev SortedKeys (l : List (Str × List Member)) : Prop :=
  l.Pairwise (fun p q => strLt p.1 q.1 = true)

theorem sorted_sortedInsert (k : Str) (v : List Member) (l : List (Str × List Member))
    (hk : k ∉ keys l) (hs : SortedKeys l) : SortedKeys (sortedInsert k v l) := by
  induction l with
  | nil => simp [sortedInsert, SortedKeys]
  | cons q rest ih =>
    obtain ⟨k', v'⟩ := q
    simp only [keys, List.map_cons, List.mem_cons, not_or] at hk
    have hs' := hs
    simp only [SortedKeys, List.pairwise_cons] at hs'
    simp only [sortedInsert]
    split
    · rename_i hlt
      simp only [SortedKeys, List.pairwise_cons]
      refine ⟨?_, hs'⟩
      intro p hp
      simp only [List.mem_cons] at hp
      rcases hp with rfl | hp
      · exact hlt
      · exact strLt_trans _ _ _ hlt (hs'.1 p hp)
    · rename_i hlt
      rw [if_neg hk.1]
      simp only [SortedKeys, List.pairwise_cons]
      refine ⟨?_, ih hk.2 hs'.2⟩
      intro p hp
      rw [mem_sortedInsert k v rest hk.2] at hp
      rcases hp with rfl | hp
      · rcases strLt_total k k' with h | h | h
        · exact absurd h hlt
        · exact absurd h hk.1
        · exact h
      · exact hs'.1 p hp

theorem sortedKeys_map {l : List (Str × List Member)} (h : SortedKeys l) :
    (keys l).Pairwise (fun a b => strLt a b = true) := by
  simp only [keys, List.pairwise_map]
  exact h

/-! ### the fuel measure -/

/-- total cost of the entries of `types` whose key is not yet collected -/
def remCost : Types → List Str → Nat
  | [], _ => 0
  | (k, v) :: rest, ks => (if k ∈ ks then 0 else (structReferences v).length + 1) + remCost rest ks

theorem remCost_nil (types : Types) :
    remCost types [] = (types.map fun p => (structReferences p.2).length + 1).sum := by
  induction types with
  | nil => simp [remCost]
  | cons p rest ih => obtain ⟨k, v⟩ := p; simp [remCost, ih]

theorem remCost_mono (types : Types) (ks ks' : List Str) (hsub : ∀ x, x ∈ ks → x ∈ ks') :
    remCost types ks' ≤ remCost types ks := by
  induction types with
  | nil => simp [remCost]
  | cons p rest ih =>
    obtain ⟨k, v⟩ := p
    simp only [remCost]
    by_cases h : k ∈ ks
    · simp only [h, hsub k h, if_true]; omega
    · by_cases h' : k ∈ ks'
      · simp only [h, h', if_true, if_false]; omega
      · simp only [h, h', if_false]; omega

theorem remCost_insert (types : Types) (ks ks' : List Str) (name : Str) (members : List Member)
    (hsub : ∀ x, x ∈ ks → x ∈ ks') (hin : name ∈ ks') (hnot : name ∉ ks)
    (hget : types.get? name = some members) :
    remCost types ks' + (structReferences members).length + 1 ≤ remCost types ks := by
  induction types with
  | nil => simp [Types.get?] at hget
  | cons p rest ih =>
    obtain ⟨k, v⟩ := p
    simp only [Types.get?] at hget
    simp only [remCost]
    split at hget
    · rename_i hk
      simp only [Option.some.injEq] at hget
      subst hk; subst hget
      have := remCost_mono rest ks ks' hsub
      simp only [hin, hnot, if_true, if_false]
      omega
    · have := ih hget
      by_cases h : k ∈ ks
      · simp only [h, hsub k h, if_true]; omega
      · by_cases h' : k ∈ ks'
        · simp only [h, h', if_true, if_false]; omega
        · simp only [h, h', if_false]; omega

/-! ### the work-list -/

theorem collect_nil (types : Types) (primary : Str) (fuel : Nat) (subs : List (Str × List Member)) :
    collect types primary (fuel + 1) [] subs = .ok subs := by
  simp [collect]

theorem any_key_iff (subs : List (Str × List Member)) (name : Str) :
    (subs.any fun p => p.1 = name) = true ↔ name ∈ keys subs := by
  simp only [List.any_eq_true, decide_eq_true_eq, keys, List.mem_map]

theorem collect_snoc (types : Types) (primary : Str) (fuel : Nat) (rest : List Str) (name : Str)
    (subs : List (Str × List Member)) :
    collect types primary (fuel + 1) (rest ++ [name]) subs =
      if name = primary ∨ name ∈ keys subs then collect types primary fuel rest subs
      else
        match types.get? name with
        | none => .err "missing EIP-712 type definition"
        | some members =>
          collect types primary fuel (rest ++ structReferences members) (sortedInsert name members subs) := by
  simp only [collect, List.reverse_append, List.reverse_cons, List.reverse_nil, List.nil_append,
    List.singleton_append, List.reverse_reverse, any_key_iff]
  congr

/-- the work-list invariant -/
structure Inv (types : Types) (primary : Str) (unresolved : List Str)
    (subs : List (Str × List Member)) : Prop where
  sorted : SortedKeys subs
  defined : ∀ p ∈ subs, p.1 ≠ primary ∧ types.get? p.1 = some p.2
  reachSubs : ∀ k ∈ keys subs, Reachable types primary k
  reachUnres : ∀ n ∈ unresolved, Reachable types primary n
  closed : ∀ frm, (frm = primary ∨ frm ∈ keys subs) → ∀ name, Refers types frm name →
    name = primary ∨ name ∈ keys subs ∨ name ∈ unresolved

theorem Inv.init (types : Types) (primary : Str) (members : List Member)
    (hget : types.get? primary = some members) :
    Inv types primary (structReferences members) [] where
  sorted := by simp [SortedKeys]
  defined := by simp
  reachSubs := by simp
  reachUnres := by
    intro n hn
    exact Reachable.direct ((refers_iff _ _ _).mpr ⟨members, hget, hn⟩)
  closed := by
    intro frm hfrm name href
    simp only [keys, List.map_nil, List.not_mem_nil, or_false] at hfrm
    subst hfrm
    obtain ⟨ms, hms, hn⟩ := (refers_iff _ _ _).mp href
    rw [hget] at hms
    simp only [Option.some.injEq] at hms
    subst hms
    exact Or.inr (Or.inr hn)

theorem Inv.skip {types : Types} {primary : Str} {rest : List Str} {name : Str}
    {subs : List (Str × List Member)} (h : Inv types primary (rest ++ [name]) subs)
    (hname : name = primary ∨ name ∈ keys subs) : Inv types primary rest subs where
  sorted := h.sorted
  defined := h.defined
  reachSubs := h.reachSubs
  reachUnres := fun n hn => h.reachUnres n (by simp [hn])
  closed := by
    intro frm hfrm x href
    rcases h.closed frm hfrm x href with hx | hx | hx
    · exact Or.inl hx
    · exact Or.inr (Or.inl hx)
    · simp only [List.mem_append, List.mem_singleton] at hx
      rcases hx with hx | rfl
      · exact Or.inr (Or.inr hx)
      · rcases hname with hn | hn
        · exact Or.inl hn
        · exact Or.inr (Or.inl hn)

theorem Inv.push {types : Types} {primary : Str} {rest : List Str} {name : Str}
    {subs : List (Str × List Member)} {members : List Member}
    (h : Inv types primary (rest ++ [name]) subs)
    (hne : name ≠ primary) (hnk : name ∉ keys subs) (hget : types.get? name = some members) :
    Inv types primary (rest ++ structReferences members) (sortedInsert name members subs) where
  sorted := sorted_sortedInsert name members subs hnk h.sorted
  defined := by
    intro p hp
    rw [mem_sortedInsert name members subs hnk] at hp
    rcases hp with rfl | hp
    · exact ⟨hne, hget⟩
    · exact h.defined p hp
  reachSubs := by
    intro k hk
    rw [mem_keys_sortedInsert name members subs hnk] at hk
    rcases hk with rfl | hk
    · exact h.reachUnres _ (by simp)
    · exact h.reachSubs k hk
  reachUnres := by
    intro n hn
    simp only [List.mem_append] at hn
    rcases hn with hn | hn
    · exact h.reachUnres n (by simp [hn])
    · exact Reachable.step (h.reachUnres name (by simp)) ((refers_iff _ _ _).mpr ⟨members, hget, hn⟩)
  closed := by
    intro frm hfrm x href
    rw [mem_keys_sortedInsert name members subs hnk] at hfrm
    rw [mem_keys_sortedInsert name members subs hnk]
    simp only [List.mem_append]
    have old : (frm = primary ∨ frm ∈ keys subs) →
        x = primary ∨ (x = name ∨ x ∈ keys subs) ∨ x ∈ rest ∨ x ∈ structReferences members := by
      intro hf
      rcases h.closed frm hf x href with hx | hx | hx
      · exact Or.inl hx
      · exact Or.inr (Or.inl (Or.inr hx))
      · simp only [List.mem_append, List.mem_singleton] at hx
        rcases hx with hx | hx
        · exact Or.inr (Or.inr (Or.inl hx))
        · exact Or.inr (Or.inl (Or.inl hx))
    rcases hfrm with hf | hf | hf
    · exact old (Or.inl hf)
    · subst hf
      obtain ⟨ms, hms, hn⟩ := (refers_iff _ _ _).mp href
      rw [hget] at hms
      simp only [Option.some.injEq] at hms
      subst hms
      exact Or.inr (Or.inr (Or.inr hn))
    · exact old (Or.inr hf)

/-- the final key set is exactly the set of reachable names other than the primary type -/
theorem Inv.final_mem {types : Types} {primary : Str} {subs : List (Str × List Member)}
    (h : Inv types primary [] subs) (name : Str) :
    name ∈ keys subs ↔ (Reachable types primary name ∧ name ≠ primary) := by
  constructor
  · intro hk
    refine ⟨h.reachSubs name hk, ?_⟩
    simp only [keys, List.mem_map] at hk
    obtain ⟨p, hp, rfl⟩ := hk
    exact (h.defined p hp).1
  · rintro ⟨hr, hne⟩
    have : name = primary ∨ name ∈ keys subs := by
      clear hne
      induction hr with
      | direct href =>
        rcases h.closed primary (Or.inl rfl) _ href with hx | hx | hx
        · exact Or.inl hx
        · exact Or.inr hx
        · simp at hx
      | step _ href ih =>
        rcases h.closed _ ih _ href with hx | hx | hx
        · exact Or.inl hx
        · exact Or.inr hx
        · simp at hx
    rcases this with h1 | h1
    · exact absurd h1 hne
    · exact h1

/-- outcome of the work-list: either it finishes with the invariant, or it meets a reachable
undefined name; with enough fuel it never panics -/
theorem collect_correct (types : Types) (primary : Str) (fuel : Nat) (unresolved : List Str)
    (subs : List (Str × List Member)) (hinv : Inv types primary unresolved subs)
    (hfuel : unresolved.length + remCost types (keys subs) + 1 ≤ fuel) :
    (∃ subs', collect types primary fuel unresolved subs = .ok subs' ∧ Inv types primary [] subs') ∨
    (∃ e name, collect types primary fuel unresolved subs = .err e ∧
      Reachable types primary name ∧ types.get? name = none) := by
  induction fuel generalizing unresolved subs with
  | zero => omega
  | succ fuel ih =>
    rcases List.eq_nil_or_concat unresolved with rfl | ⟨rest, name, rfl⟩
    · left
      exact ⟨subs, collect_nil _ _ _ _, hinv⟩
    · rw [List.concat_eq_append] at hinv hfuel ⊢
      rw [collect_snoc]
      simp only [List.length_append, List.length_singleton] at hfuel
      by_cases hname : name = primary ∨ name ∈ keys subs
      · rw [if_pos hname]
        exact ih rest subs (hinv.skip hname) (by omega)
      · rw [if_neg hname]
        simp only [not_or] at hname
        cases hget : types.get? name with
        | none =>
          right
          exact ⟨_, name, rfl, hinv.reachUnres name (by simp), hget⟩
        | some members =>
          simp only
          apply ih _ _ (hinv.push hname.1 hname.2 hget)
          have := remCost_insert types (keys subs) (keys (sortedInsert name members subs)) name members
            (fun x hx => (mem_keys_sortedInsert name members subs hname.2 x).mpr (Or.inr hx))
            ((mem_keys_sortedInsert name members subs hname.2 name).mpr (Or.inl rfl)) hname.2 hget
          simp only [List.length_append]
          omega

/-! ### `encodeType` -/

theorem encodeType_outcome (types : Types) (primary : Str) (members : List Member)
    (hget : types.get? primary = some members) :
    (∃ subs, Inv types primary [] subs ∧
      encodeType types primary =
        .ok (typeDefString primary members ++ (subs.map fun p => typeDefString p.1 p.2).flatten)) ∨
    (∃ e name, encodeType types primary = .err e ∧
      Reachable types primary name ∧ types.get? name = none) := by
  unfold encodeType
  rw [hget]
  simp only
  have hfuel : (structReferences members).length + remCost types (keys []) + 1 ≤
      collectFuel types members := by
    simp only [keys, List.map_nil, remCost_nil, collectFuel]
    omega
  rcases collect_correct types primary _ _ _ (Inv.init types primary members hget) hfuel with
    ⟨subs, hc, hinv⟩ | ⟨e, name, hc, hr, hn⟩
  · left; exact ⟨subs, hinv, by rw [hc]⟩
  · right; exact ⟨e, name, by rw [hc], hr, hn⟩

/-- the statement's relation (`Hdw.Props.C08.IsEncodeType` unfolds to this) -/
def IsEncType (types : Types) (primary : Str) (s : Str) : Prop :=
  ∃ members deps,
    types.get? primary = some members ∧
    List.Pairwise (fun a b => strLt a b = true) deps ∧
    (∀ name, name ∈ deps ↔ (Reachable types primary name ∧ name ≠ primary)) ∧
    (∀ d ∈ deps, (types.get? d).isSome) ∧
    s = typeDefString primary members ++
      (deps.map fun d => typeDefString d ((types.get? d).getD [])).flatten

theorem isEncType_unique (types : Types) (primary : Str) (s₁ s₂ : Str)
    (h₁ : IsEncType types primary s₁) (h₂ : IsEncType types primary s₂) : s₁ = s₂ := by
  obtain ⟨m₁, d₁, hg₁, hs₁, hm₁, _, rfl⟩ := h₁
  obtain ⟨m₂, d₂, hg₂, hs₂, hm₂, _, rfl⟩ := h₂
  rw [hg₁] at hg₂
  simp only [Option.some.injEq] at hg₂
  subst hg₂
  have : d₁ = d₂ := sorted_ext d₁ d₂ hs₁ hs₂ (fun x => by rw [hm₁, hm₂])
  subst this
  rfl

theorem Inv.isEncType {types : Types} {primary : Str} {subs : List (Str × List Member)}
    {members : List Member} (hget : types.get? primary = some members)
    (h : Inv types primary [] subs) :
    IsEncType types primary
      (typeDefString primary members ++ (subs.map fun p => typeDefString p.1 p.2).flatten) := by
  refine ⟨members, keys subs, hget, sortedKeys_map h.sorted, h.final_mem, ?_, ?_⟩
  · intro d hd
    simp only [keys, List.mem_map] at hd
    obtain ⟨p, hp, rfl⟩ := hd
    rw [(h.defined p hp).2]; rfl
  · congr 2
    simp only [keys, List.map_map]
    apply List.map_congr_left
    intro p hp
    simp only [Function.comp, (h.defined p hp).2, Option.getD_some]

theorem encodeType_ok_iff (types : Types) (primary : Str) (s : Str) :
    encodeType types primary = .ok s ↔ IsEncType types primary s := by
  constructor
  · intro h
    cases hget : types.get? primary with
    | none => simp [encodeType, hget] at h
    | some members =>
      rcases encodeType_outcome types primary members hget with ⟨subs, hinv, he⟩ | ⟨e, name, he, _, _⟩
      · rw [he] at h
        simp only [Res.ok.injEq] at h
        subst h
        exact hinv.isEncType hget
      · rw [he] at h; cases h
  · intro h
    have h' := h
    obtain ⟨members, deps, hget, _, hmem, hdef, _⟩ := h'
    rcases encodeType_outcome types primary members hget with ⟨subs, hinv, he⟩ | ⟨e, name, he, hr, hn⟩
    · rw [he]
      congr 1
      exact isEncType_unique types primary _ _ (hinv.isEncType hget) h
    · exfalso
      have hne : name ≠ primary := by
        intro e; subst e; rw [hget] at hn; cases hn
      have := hdef name ((hmem name).mpr ⟨hr, hne⟩)
      rw [hn] at this
      cases this

theorem encodeType_no_panic (types : Types) (primary : Str) (site : String) :
    encodeType types primary ≠ .panic site := by
  cases hget : types.get? primary with
  | none => simp [encodeType, hget]
  | some members =>
    rcases encodeType_outcome types primary members hget with ⟨subs, _, he⟩ | ⟨e, name, he, _, _⟩
    · rw [he]; simp
    · rw [he]; simp

theorem encodeType_err_iff (types : Types) (primary : Str) :
    (∃ e, encodeType types primary = .err e) ↔
      (types.get? primary = none ∨ ∃ name, Reachable types primary name ∧ types.get? name = none) := by
  cases hget : types.get? primary with
  | none => simp [encodeType, hget]
  | some members =>
    simp only [reduceCtorEq, false_or]
    rcases encodeType_outcome types primary members hget with ⟨subs, hinv, he⟩ | ⟨e, name, he, hr, hn⟩
    · rw [he]
      simp only [reduceCtorEq, exists_false, false_iff, not_exists, not_and]
      intro name hr hn
      have hne : name ≠ primary := by
        intro e; subst e; rw [hget] at hn; cases hn
      have hk := (hinv.final_mem name).mpr ⟨hr, hne⟩
      simp only [keys, List.mem_map] at hk
      obtain ⟨p, hp, rfl⟩ := hk
      rw [(hinv.defined p hp).2] at hn
      cases hn
    · exact ⟨fun _ => ⟨name, hr, hn⟩, fun _ => ⟨e, he⟩⟩

/-! ### the executable closure-based spec -/

theorem mem_insertSorted (k : Str) (l : List Str) (x : Str) :
    x ∈ insertSorted k l ↔ x = k ∨ x ∈ l := by
  induction l with
  | nil => simp [insertSorted]
  | cons y ys ih =>
    simp only [insertSorted]
    split
    · simp
    · split
      · rename_i hky
        subst hky
        simp
      · simp only [List.mem_cons, ih]
        constructor
        · rintro (h | h | h) <;> simp [h]
        · rintro (h | h | h) <;> simp [h]

theorem sorted_insertSorted (k : Str) (l : List Str)
    (hs : l.Pairwise (fun a b => strLt a b = true)) :
    (insertSorted k l).Pairwise (fun a b => strLt a b = true) := by
  induction l with
  | nil => simp [insertSorted]
  | cons y ys ih =>
    have hs' := hs
    rw [List.pairwise_cons] at hs'
    simp only [insertSorted]
    split
    · rename_i hlt
      rw [List.pairwise_cons]
      refine ⟨?_, hs⟩
      intro p hp
      simp only [List.mem_cons] at hp
      rcases hp with rfl | hp
      · exact hlt
      · exact strLt_trans _ _ _ hlt (hs'.1 p hp)
    · rename_i hlt
      split
      · exact hs
      · rename_i hne
        rw [List.pairwise_cons]
        refine ⟨?_, ih hs'.2⟩
        intro p hp
        rw [mem_insertSorted] at hp
        rcases hp with rfl | hp
        · rcases strLt_total p y with h | h | h
          · exact absurd h hlt
          · exact absurd h hne
          · exact h
        · exact hs'.1 p hp

theorem mem_sortDedup (l : List Str) (x : Str) : x ∈ sortDedup l ↔ x ∈ l := by
  induction l with
  | nil => simp [sortDedup]
  | cons y ys ih =>
    have : sortDedup (y :: ys) = insertSorted y (sortDedup ys) := rfl
    rw [this, mem_insertSorted, ih]
    simp

theorem sorted_sortDedup (l : List Str) :
    (sortDedup l).Pairwise (fun a b => strLt a b = true) := by
  induction l with
  | nil => simp [sortDedup]
  | cons y ys ih =>
    have : sortDedup (y :: ys) = insertSorted y (sortDedup ys) := rfl
    rw [this]
    exact sorted_insertSorted _ _ ih

theorem mem_addNew (known new : List Str) (x : Str) :
    x ∈ addNew known new ↔ x ∈ known ∨ x ∈ new := by
  induction new generalizing known with
  | nil => simp [addNew]
  | cons y ys ih =>
    simp only [addNew]
    split
    · rename_i hc
      have hy : y ∈ known := by simpa using hc
      rw [ih, List.mem_cons]
      constructor
      · rintro (h | h)
        · exact Or.inl h
        · exact Or.inr (Or.inr h)
      · rintro (h | rfl | h)
        · exact Or.inl h
        · exact Or.inl hy
        · exact Or.inr h
    · rw [ih, List.mem_append, List.mem_singleton, List.mem_cons]
      constructor
      · rintro ((h | h) | h)
        · exact Or.inl h
        · exact Or.inr (Or.inl h)
        · exact Or.inr (Or.inr h)
      · rintro (h | h | h)
        · exact Or.inl (Or.inl h)
        · exact Or.inl (Or.inr h)
        · exact Or.inr h

theorem mem_expand (types : Types) (K : List Str) (x : Str) :
    x ∈ expand types K ↔ x ∈ K ∨ ∃ k ∈ K, Refers types k x := by
  unfold expand
  simp only [mem_addNew, List.mem_flatMap]
  constructor
  · rintro (h | ⟨k, hk, hx⟩)
    · exact Or.inl h
    · right
      cases hg : types.get? k with
      | none => simp [hg] at hx
      | some ms =>
        rw [hg] at hx
        exact ⟨k, hk, (refers_iff _ _ _).mpr ⟨ms, hg, hx⟩⟩
  · rintro (h | ⟨k, hk, href⟩)
    · exact Or.inl h
    · right
      obtain ⟨ms, hg, hx⟩ := (refers_iff _ _ _).mp href
      exact ⟨k, hk, by rw [hg]; exact hx⟩

theorem subset_closure (types : Types) (n : Nat) (K : List Str) (x : Str) (hx : x ∈ K) :
    x ∈ closure types n K := by
  induction n generalizing K with
  | zero => exact hx
  | succ n ih => exact ih _ ((mem_expand _ _ _).mpr (Or.inl hx))

/-- every name in the closure is reachable if the start names are -/
theorem closure_reachable (types : Types) (primary : Str) (n : Nat) (K : List Str)
    (hK : ∀ x ∈ K, Reachable types primary x) :
    ∀ x ∈ closure types n K, Reachable types primary x := by
  induction n generalizing K with
  | zero => exact hK
  | succ n ih =>
    apply ih
    intro x hx
    rcases (mem_expand _ _ _).mp hx with h | ⟨k, hk, href⟩
    · exact hK x h
    · exact Reachable.step (hK k hk) href

/-- closed under direct references -/
def Closed (types : Types) (S : List Str) : Prop := ∀ x ∈ S, ∀ r, Refers types x r → r ∈ S

theorem closed_expand (types : Types) (K : List Str) (h : Closed types K) :
    Closed types (expand types K) := by
  have hsame : ∀ x, x ∈ expand types K → x ∈ K := by
    intro x hx
    rcases (mem_expand _ _ _).mp hx with h' | ⟨k, hk, href⟩
    · exact h'
    · exact h k hk x href
  intro x hx r href
  exact (mem_expand _ _ _).mpr (Or.inl (h x (hsame x hx) r href))

theorem closed_closure (types : Types) (n : Nat) (K : List Str) (h : Closed types K) :
    Closed types (closure types n K) := by
  induction n generalizing K with
  | zero => exact h
  | succ n ih => exact ih _ (closed_expand types K h)

/-- number of entries of `types` whose key is not in `V` -/
def remCount : Types → List Str → Nat
  | [], _ => 0
  | (k, _) :: rest, V => (if k ∈ V then 0 else 1) + remCount rest V

theorem remCount_le_length (types : Types) (V : List Str) : remCount types V ≤ types.length := by
  induction types with
  | nil => simp [remCount]
  | cons p rest ih =>
    obtain ⟨k, v⟩ := p
    simp only [remCount, List.length_cons]
    split <;> omega

theorem remCount_mono (types : Types) (V V' : List Str) (hsub : ∀ x, x ∈ V → x ∈ V') :
    remCount types V' ≤ remCount types V := by
  induction types with
  | nil => simp [remCount]
  | cons p rest ih =>
    obtain ⟨k, v⟩ := p
    simp only [remCount]
    by_cases h : k ∈ V
    · simp only [h, hsub k h, if_true]; omega
    · by_cases h' : k ∈ V'
      · simp only [h, h', if_true, if_false]; omega
      · simp only [h, h', if_false]; omega

theorem remCount_insert (types : Types) (V V' : List Str) (name : Str) (members : List Member)
    (hsub : ∀ x, x ∈ V → x ∈ V') (hin : name ∈ V') (hnot : name ∉ V)
    (hget : types.get? name = some members) :
    remCount types V' + 1 ≤ remCount types V := by
  induction types with
  | nil => simp [Types.get?] at hget
  | cons p rest ih =>
    obtain ⟨k, v⟩ := p
    simp only [Types.get?] at hget
    simp only [remCount]
    split at hget
    · rename_i hk
      subst hk
      have := remCount_mono rest V V' hsub
      simp only [hin, hnot, if_true, if_false]
      omega
    · have := ih hget
      by_cases h : k ∈ V
      · simp only [h, hsub k h, if_true]; omega
      · by_cases h' : k ∈ V'
        · simp only [h, h', if_true, if_false]; omega
        · simp only [h, h', if_false]; omega

/-- `n` rounds suffice when at most `n` entries are still unexpanded: `V` is a set of names
whose references are all known already -/
theorem closure_closed (types : Types) (n : Nat) (K V : List Str)
    (hinv : ∀ v ∈ V, ∀ r, Refers types v r → r ∈ K) (hcnt : remCount types V ≤ n) :
    Closed types (closure types n K) := by
  induction n generalizing K V with
  | zero =>
    intro x hx r href
    obtain ⟨ms, hg, _⟩ := (refers_iff _ _ _).mp href
    by_cases hxV : x ∈ V
    · exact hinv x hxV r href
    · have := remCount_insert types V (x :: V) x ms (fun y hy => by simp [hy]) (by simp) hxV hg
      omega
  | succ n ih =>
    by_cases hall : ∀ x ∈ K, (types.get? x).isSome → x ∈ V
    · apply closed_closure
      intro x hx r href
      obtain ⟨ms, hg, _⟩ := (refers_iff _ _ _).mp href
      exact hinv x (hall x hx (by rw [hg]; rfl)) r href
    · simp only [Classical.not_forall] at hall
      obtain ⟨x, hxK, hdef, hxV⟩ := hall
      obtain ⟨ms, hg⟩ := Option.isSome_iff_exists.mp hdef
      have := remCount_insert types V (x :: V) x ms (fun y hy => by simp [hy]) (by simp) hxV hg
      apply ih (expand types K) (x :: V)
      · intro v hv r href
        simp only [List.mem_cons] at hv
        rcases hv with rfl | hv
        · exact (mem_expand _ _ _).mpr (Or.inr ⟨v, hxK, href⟩)
        · exact (mem_expand _ _ _).mpr (Or.inl (hinv v hv r href))
      · omega

theorem mem_deps (types : Types) (primary : Str) (members : List Member)
    (hget : types.get? primary = some members) (x : Str) :
    x ∈ deps types primary ↔ (Reachable types primary x ∧ x ≠ primary) := by
  unfold deps
  rw [hget]
  simp only [mem_sortDedup, List.mem_filter, ne_eq, decide_eq_true_eq]
  have hstart : ∀ r, Refers types primary r → r ∈ structReferences members := by
    intro r href
    obtain ⟨ms, hg, hr⟩ := (refers_iff _ _ _).mp href
    rw [hget] at hg
    simp only [Option.some.injEq] at hg
    subst hg
    exact hr
  have hmemStart : ∀ y, y ∈ addNew [] (structReferences members) ↔ y ∈ structReferences members := by
    intro y; simp [mem_addNew]
  have hclosed : Closed types (closure types types.length (addNew [] (structReferences members))) := by
    apply closure_closed types _ _ [primary]
    · intro v hv r href
      simp only [List.mem_singleton] at hv
      subst hv
      exact (hmemStart r).mpr (hstart r href)
    · have := remCount_insert types [] [primary] primary members (by simp) (by simp) (by simp) hget
      have := remCount_le_length types []
      omega
  constructor
  · rintro ⟨hx, hne⟩
    refine ⟨closure_reachable types primary _ _ ?_ x hx, hne⟩
    intro y hy
    exact Reachable.direct ((refers_iff _ _ _).mpr ⟨members, hget, (hmemStart y).mp hy⟩)
  · rintro ⟨hr, hne⟩
    refine ⟨?_, hne⟩
    clear hne
    induction hr with
    | direct href => exact subset_closure _ _ _ _ ((hmemStart _).mpr (hstart _ href))
    | step _ href ih => exact hclosed _ ih _ href

theorem spec_encodeType_agrees (types : Types) (primary : Str) :
    (TypedData.encodeType types primary).toOption = Spec.Eip712.encodeType types primary := by
  unfold Spec.Eip712.encodeType
  cases hget : types.get? primary with
  | none => simp [TypedData.encodeType, hget, Res.toOption]
  | some members =>
    simp only
    split
    · rename_i hall
      simp only [List.all_eq_true] at hall
      have : IsEncType types primary
          (typeDefString primary members ++
            ((deps types primary).map fun d => typeDefString d ((types.get? d).getD [])).flatten) :=
        ⟨members, deps types primary, hget, sorted_sortDedup _, mem_deps types primary members hget,
          hall, rfl⟩
      rw [(encodeType_ok_iff _ _ _).mpr this]
      rfl
    · rename_i hall
      simp only [List.all_eq_true, Classical.not_forall] at hall
      obtain ⟨d, hd, hnone⟩ := hall
      have hr := ((mem_deps types primary members hget d).mp hd).1
      have hn : types.get? d = none := by
        cases h : types.get? d with
        | none => rfl
        | some v => rw [h] at hnone; simp at hnone
      obtain ⟨e, he⟩ := (encodeType_err_iff types primary).mpr (Or.inr ⟨d, hr, hn⟩)
      rw [he]
      rfl

end Hdw.TypedData
