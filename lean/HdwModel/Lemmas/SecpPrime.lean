import Mathlib.NumberTheory.LucasPrimality
import Mathlib.Tactic.NormNum.Prime
import HdwModel.Prim.SecpAffine

/-!
Pratt certificates for the secp256k1 group order and field prime, checked by the kernel
(`decide +kernel` on a binary modular exponentiation), on top of Mathlib's `lucas_primality`.
-/

namespace Hdw.Lemmas.SecpPrime

-- `powModAux` / `powMod` are defined in `HdwModel/Prim/SecpAffine.lean` (Mathlib-free, so that the driver can link them)

theorem powModAux_eq (fuel : Nat) : ∀ (b e m acc : Nat), e < 2 ^ fuel →
    powModAux fuel b e m acc = acc * b ^ e % m := by
  induction fuel with
  | zero =>
    intro b e m acc he
    have : e = 0 := by omega
    subst this
    simp [powModAux]
  | succ k ih =>
    intro b e m acc he
    unfold powModAux
    split
    · next h0 => subst h0; simp
    · next h0 =>
      have he2 : e / 2 < 2 ^ k := by
        rw [Nat.pow_succ] at he
        omega
      rw [ih _ _ _ _ he2]
      have hsq : (b * b % m) ^ (e / 2) % m = b ^ (2 * (e / 2)) % m := by
        rw [← Nat.pow_mod, ← Nat.pow_two, ← Nat.pow_mul]
      split
      · next h1 =>
        have hE : e = 2 * (e / 2) + 1 := by omega
        calc acc * b % m * (b * b % m) ^ (e / 2) % m
            = (acc * b % m) * ((b * b % m) ^ (e / 2) % m) % m := by
              rw [Nat.mul_mod, Nat.mod_mod]
          _ = (acc * b % m) * (b ^ (2 * (e / 2)) % m) % m := by rw [hsq]
          _ = acc * b * b ^ (2 * (e / 2)) % m := by rw [← Nat.mul_mod]
          _ = acc * b ^ (2 * (e / 2) + 1) % m := by
              rw [Nat.pow_succ, Nat.mul_assoc, Nat.mul_comm b]
          _ = acc * b ^ e % m := by rw [← hE]
      · next h1 =>
        have hE : e = 2 * (e / 2) := by omega
        calc acc * (b * b % m) ^ (e / 2) % m
            = (acc % m) * ((b * b % m) ^ (e / 2) % m) % m := by
              rw [← Nat.mul_mod]
          _ = (acc % m) * (b ^ (2 * (e / 2)) % m) % m := by rw [hsq]
          _ = acc * b ^ (2 * (e / 2)) % m := by rw [← Nat.mul_mod]
          _ = acc * b ^ e % m := by rw [← hE]


theorem powMod_eq (b e m : Nat) : powMod b e m = b ^ e % m := by
  unfold powMod
  rw [powModAux_eq _ _ _ _ _ (Nat.lt_log2_self), Nat.one_mul]

/-- the Boolean check of one level of a Pratt certificate: `fs` lists the prime factors of `p - 1`
with multiplicity, `a` is a primitive root -/
def prattCheck (p a : Nat) (fs : List Nat) : Bool :=
  decide (1 < p) && decide (fs.prod = p - 1) && decide (powMod a (p - 1) p = 1) &&
    fs.all (fun q => decide (powMod a ((p - 1) / q) p ≠ 1))

theorem prime_dvd_list_prod {r : Nat} (hr : r.Prime) :
    ∀ (fs : List Nat), (∀ q ∈ fs, Nat.Prime q) → r ∣ fs.prod → r ∈ fs := by
  intro fs
  induction fs with
  | nil =>
    intro _ h
    simp at h
    exact absurd h hr.ne_one
  | cons q t ih =>
    intro hfs h
    rw [List.prod_cons] at h
    rcases (Nat.Prime.dvd_mul hr).1 h with h | h
    · have := (Nat.prime_dvd_prime_iff_eq hr (hfs q (by simp))).1 h
      simp [this]
    · exact List.mem_cons_of_mem _ (ih (fun x hx => hfs x (List.mem_cons_of_mem _ hx)) h)

/-- one level of a Pratt certificate -/
theorem pratt (p a : Nat) (fs : List Nat) (hc : prattCheck p a fs = true)
    (hfs : ∀ q ∈ fs, Nat.Prime q) : Nat.Prime p := by
  simp only [prattCheck, Bool.and_eq_true, decide_eq_true_eq, List.all_eq_true] at hc
  obtain ⟨⟨⟨hp, hprod⟩, h1⟩, h2⟩ := hc
  rw [powMod_eq] at h1
  have one_mod : 1 % p = 1 := Nat.mod_eq_of_lt hp
  refine lucas_primality p (a : ZMod p) ?_ ?_
  · have : ((a ^ (p - 1) : ℕ) : ZMod p) = ((1 : ℕ) : ZMod p) := by
      rw [ZMod.natCast_eq_natCast_iff', h1, one_mod]
    simpa using this
  · intro q hq hdvd hcontra
    have hmem : q ∈ fs := prime_dvd_list_prod hq fs hfs (hprod ▸ hdvd)
    have := h2 q hmem
    rw [powMod_eq] at this
    apply this
    have h' : ((a ^ ((p - 1) / q) : ℕ) : ZMod p) = ((1 : ℕ) : ZMod p) := by
      simpa using hcontra
    rw [ZMod.natCast_eq_natCast_iff', one_mod] at h'
    exact h'

/-! ### certificates (generated with sympy: `factorint`, `primitive_root`) -/

theorem prime_2 : Nat.Prime 2 := by norm_num

theorem prime_3 : Nat.Prime 3 := by norm_num

theorem prime_149 : Nat.Prime 149 := by norm_num

theorem prime_631 : Nat.Prime 631 := by norm_num

theorem prime_16699 : Nat.Prime 16699 := by norm_num

theorem prime_85831 : Nat.Prime 85831 := by norm_num

theorem prime_97 : Nat.Prime 97 := by norm_num

theorem prime_2011 : Nat.Prime 2011 := by norm_num

theorem prime_4681609 : Nat.Prime 4681609 :=
  pratt 4681609 23 [2, 2, 2, 3, 97, 2011] (by decide +kernel)
    (by simp only [List.forall_mem_cons, List.not_mem_nil, false_imp_iff, implies_true, and_true, prime_2, prime_3, prime_97, prime_2011] )

theorem prime_107361793816595537 : Nat.Prime 107361793816595537 :=
  pratt 107361793816595537 3 [2, 2, 2, 2, 16699, 85831, 4681609] (by decide +kernel)
    (by simp only [List.forall_mem_cons, List.not_mem_nil, false_imp_iff, implies_true, and_true, prime_2, prime_16699, prime_85831, prime_4681609] )

theorem prime_17 : Nat.Prime 17 := by norm_num

theorem prime_59 : Nat.Prime 59 := by norm_num

theorem prime_4051 : Nat.Prime 4051 := by norm_num

theorem prime_7 : Nat.Prime 7 := by norm_num

theorem prime_19 : Nat.Prime 19 := by norm_num

theorem prime_113 : Nat.Prime 113 := by norm_num

theorem prime_120233 : Nat.Prime 120233 :=
  pratt 120233 3 [2, 2, 2, 7, 19, 113] (by decide +kernel)
    (by simp only [List.forall_mem_cons, List.not_mem_nil, false_imp_iff, implies_true, and_true, prime_2, prime_7, prime_19, prime_113] )

theorem prime_797 : Nat.Prime 797 := by norm_num

theorem prime_9349 : Nat.Prime 9349 := by norm_num

theorem prime_44706919 : Nat.Prime 44706919 :=
  pratt 44706919 6 [2, 3, 797, 9349] (by decide +kernel)
    (by simp only [List.forall_mem_cons, List.not_mem_nil, false_imp_iff, implies_true, and_true, prime_2, prime_3, prime_797, prime_9349] )

theorem prime_174723607534414371449 : Nat.Prime 174723607534414371449 :=
  pratt 174723607534414371449 3 [2, 2, 2, 17, 59, 4051, 120233, 44706919] (by decide +kernel)
    (by simp only [List.forall_mem_cons, List.not_mem_nil, false_imp_iff, implies_true, and_true, prime_2, prime_17, prime_59, prime_4051, prime_120233, prime_44706919] )

theorem prime_109 : Nat.Prime 109 := by norm_num

theorem prime_293 : Nat.Prime 293 := by norm_num

theorem prime_2731 : Nat.Prime 2731 := by norm_num

theorem prime_305873 : Nat.Prime 305873 :=
  pratt 305873 3 [2, 2, 2, 2, 7, 2731] (by decide +kernel)
    (by simp only [List.forall_mem_cons, List.not_mem_nil, false_imp_iff, implies_true, and_true, prime_2, prime_7, prime_2731] )

theorem prime_41 : Nat.Prime 41 := by norm_num

theorem prime_28181 : Nat.Prime 28181 := by norm_num

theorem prime_545358713 : Nat.Prime 545358713 :=
  pratt 545358713 5 [2, 2, 2, 41, 59, 28181] (by decide +kernel)
    (by simp only [List.forall_mem_cons, List.not_mem_nil, false_imp_iff, implies_true, and_true, prime_2, prime_41, prime_59, prime_28181] )

theorem prime_11 : Nat.Prime 11 := by norm_num

theorem prime_461 : Nat.Prime 461 := by norm_num

theorem prime_5 : Nat.Prime 5 := by norm_num

theorem prime_29 : Nat.Prime 29 := by norm_num

theorem prime_1871 : Nat.Prime 1871 := by norm_num

theorem prime_1627771 : Nat.Prime 1627771 :=
  pratt 1627771 3 [2, 3, 5, 29, 1871] (by decide +kernel)
    (by simp only [List.forall_mem_cons, List.not_mem_nil, false_imp_iff, implies_true, and_true, prime_2, prime_3, prime_5, prime_29, prime_1871] )

theorem prime_297159362677 : Nat.Prime 297159362677 :=
  pratt 297159362677 2 [2, 2, 3, 3, 11, 461, 1627771] (by decide +kernel)
    (by simp only [List.forall_mem_cons, List.not_mem_nil, false_imp_iff, implies_true, and_true, prime_2, prime_3, prime_11, prime_461, prime_1627771] )

theorem prime_29047611873442575647497758179 : Nat.Prime 29047611873442575647497758179 :=
  pratt 29047611873442575647497758179 2 [2, 293, 305873, 545358713, 297159362677] (by decide +kernel)
    (by simp only [List.forall_mem_cons, List.not_mem_nil, false_imp_iff, implies_true, and_true, prime_2, prime_293, prime_305873, prime_545358713, prime_297159362677] )

theorem prime_341948486974166000522343609283189 : Nat.Prime 341948486974166000522343609283189 :=
  pratt 341948486974166000522343609283189 2 [2, 2, 3, 3, 3, 109, 29047611873442575647497758179] (by decide +kernel)
    (by simp only [List.forall_mem_cons, List.not_mem_nil, false_imp_iff, implies_true, and_true, prime_2, prime_3, prime_109, prime_29047611873442575647497758179] )

theorem prime_115792089237316195423570985008687907852837564279074904382605163141518161494337 : Nat.Prime 115792089237316195423570985008687907852837564279074904382605163141518161494337 :=
  pratt 115792089237316195423570985008687907852837564279074904382605163141518161494337 7 [2, 2, 2, 2, 2, 2, 3, 149, 631, 107361793816595537, 174723607534414371449, 341948486974166000522343609283189] (by decide +kernel)
    (by simp only [List.forall_mem_cons, List.not_mem_nil, false_imp_iff, implies_true, and_true, prime_2, prime_3, prime_149, prime_631, prime_107361793816595537, prime_174723607534414371449, prime_341948486974166000522343609283189] )

theorem prime_13441 : Nat.Prime 13441 := by norm_num

theorem prime_31 : Nat.Prime 31 := by norm_num

theorem prime_7723 : Nat.Prime 7723 := by norm_num

theorem prime_5323 : Nat.Prime 5323 := by norm_num

theorem prime_2621 : Nat.Prime 2621 := by norm_num

theorem prime_24809 : Nat.Prime 24809 := by norm_num

theorem prime_971 : Nat.Prime 971 := by norm_num

theorem prime_1373 : Nat.Prime 1373 := by norm_num

theorem prime_13331831 : Nat.Prime 13331831 :=
  pratt 13331831 13 [2, 5, 971, 1373] (by decide +kernel)
    (by simp only [List.forall_mem_cons, List.not_mem_nil, false_imp_iff, implies_true, and_true, prime_2, prime_5, prime_971, prime_1373] )

theorem prime_173378833005251801 : Nat.Prime 173378833005251801 :=
  pratt 173378833005251801 6 [2, 2, 2, 5, 5, 2621, 24809, 13331831] (by decide +kernel)
    (by simp only [List.forall_mem_cons, List.not_mem_nil, false_imp_iff, implies_true, and_true, prime_2, prime_5, prime_2621, prime_24809, prime_13331831] )

theorem prime_22149492674086928081353 : Nat.Prime 22149492674086928081353 :=
  pratt 22149492674086928081353 5 [2, 2, 2, 3, 5323, 173378833005251801] (by decide +kernel)
    (by simp only [List.forall_mem_cons, List.not_mem_nil, false_imp_iff, implies_true, and_true, prime_2, prime_3, prime_5323, prime_173378833005251801] )

theorem prime_132896956044521568488119 : Nat.Prime 132896956044521568488119 :=
  pratt 132896956044521568488119 6 [2, 3, 22149492674086928081353] (by decide +kernel)
    (by simp only [List.forall_mem_cons, List.not_mem_nil, false_imp_iff, implies_true, and_true, prime_2, prime_3, prime_22149492674086928081353] )

theorem prime_1627 : Nat.Prime 1627 := by norm_num

theorem prime_2657 : Nat.Prime 2657 := by norm_num

theorem prime_4423 : Nat.Prime 4423 := by norm_num

theorem prime_41201 : Nat.Prime 41201 := by norm_num

theorem prime_96557 : Nat.Prime 96557 := by norm_num

theorem prime_20113 : Nat.Prime 20113 := by norm_num

theorem prime_1206781 : Nat.Prime 1206781 :=
  pratt 1206781 10 [2, 2, 3, 5, 20113] (by decide +kernel)
    (by simp only [List.forall_mem_cons, List.not_mem_nil, false_imp_iff, implies_true, and_true, prime_2, prime_3, prime_5, prime_20113] )

theorem prime_7240687 : Nat.Prime 7240687 :=
  pratt 7240687 3 [2, 3, 1206781] (by decide +kernel)
    (by simp only [List.forall_mem_cons, List.not_mem_nil, false_imp_iff, implies_true, and_true, prime_2, prime_3, prime_1206781] )

theorem prime_53 : Nat.Prime 53 := by norm_num

theorem prime_107590001 : Nat.Prime 107590001 :=
  pratt 107590001 3 [2, 2, 2, 2, 5, 5, 5, 5, 7, 29, 53] (by decide +kernel)
    (by simp only [List.forall_mem_cons, List.not_mem_nil, false_imp_iff, implies_true, and_true, prime_2, prime_5, prime_7, prime_29, prime_53] )

theorem prime_255515944373312847190720520512484175977 : Nat.Prime 255515944373312847190720520512484175977 :=
  pratt 255515944373312847190720520512484175977 3 [2, 2, 2, 7, 7, 11, 1627, 2657, 4423, 41201, 96557, 7240687, 107590001] (by decide +kernel)
    (by simp only [List.forall_mem_cons, List.not_mem_nil, false_imp_iff, implies_true, and_true, prime_2, prime_7, prime_11, prime_1627, prime_2657, prime_4423, prime_41201, prime_96557, prime_7240687, prime_107590001] )

theorem prime_205115282021455665897114700593932402728804164701536103180137503955397371 : Nat.Prime 205115282021455665897114700593932402728804164701536103180137503955397371 :=
  pratt 205115282021455665897114700593932402728804164701536103180137503955397371 10 [2, 3, 5, 29, 29, 31, 7723, 132896956044521568488119, 255515944373312847190720520512484175977] (by decide +kernel)
    (by simp only [List.forall_mem_cons, List.not_mem_nil, false_imp_iff, implies_true, and_true, prime_2, prime_3, prime_5, prime_29, prime_31, prime_7723, prime_132896956044521568488119, prime_255515944373312847190720520512484175977] )

theorem prime_115792089237316195423570985008687907853269984665640564039457584007908834671663 : Nat.Prime 115792089237316195423570985008687907853269984665640564039457584007908834671663 :=
  pratt 115792089237316195423570985008687907853269984665640564039457584007908834671663 3 [2, 3, 7, 13441, 205115282021455665897114700593932402728804164701536103180137503955397371] (by decide +kernel)
    (by simp only [List.forall_mem_cons, List.not_mem_nil, false_imp_iff, implies_true, and_true, prime_2, prime_3, prime_7, prime_13441, prime_205115282021455665897114700593932402728804164701536103180137503955397371] )

end Hdw.Lemmas.SecpPrime
