/-
Facts about `decDigits` / `decimal` / `digitsVal?` (Display and FromStr of
unsigned integers).
-/
import HdwModel.Model.Text

namespace Hdw

/-- value of a digit list, most significant first -/
def digitsValue (ds : List Nat) : Nat := ds.foldl (fun a d => a * 10 + d) 0

theorem digitsValue_append (a : List Nat) (d : Nat) :
    digitsValue (a ++ [d]) = digitsValue a * 10 + d := by
  simp [digitsValue, List.foldl_append]

theorem decDigits_lt (n : Nat) : ∀ d ∈ decDigits n, d < 10 := by
  induction n using Nat.strongRecOn with
  | _ n ih =>
    rw [decDigits]
    split
    · intro d hd; simp at hd; omega
    · intro d hd
      simp at hd
      rcases hd with hd | hd
      · exact ih (n / 10) (by omega) d hd
      · omega

theorem decDigits_value (n : Nat) : digitsValue (decDigits n) = n := by
  induction n using Nat.strongRecOn with
  | _ n ih =>
    rw [decDigits]
    split
    · simp [digitsValue]
    · rw [digitsValue_append, ih (n / 10) (by omega)]; omega

theorem decDigits_ne_nil (n : Nat) : decDigits n ≠ [] := by
  rw [decDigits]; split <;> simp

theorem decDigits_length_pos (n : Nat) : 0 < (decDigits n).length :=
  List.length_pos_iff.mpr (decDigits_ne_nil n)

/-- no leading zero, except for the single digit of 0 -/
theorem decDigits_head (n : Nat) (h : n ≠ 0) : (decDigits n).head? ≠ some 0 := by
  induction n using Nat.strongRecOn with
  | _ n ih =>
    rw [decDigits]
    split
    · simp; omega
    · have h10 : n / 10 ≠ 0 := by omega
      have := ih (n / 10) (by omega) h10
      have hne := decDigits_ne_nil (n / 10)
      cases hd : decDigits (n / 10) with
      | nil => exact absurd hd hne
      | cons a as => simp [hd] at this ⊢; exact this

theorem decDigits_zero : decDigits 0 = [0] := by rw [decDigits]; simp

/-- number of digits is monotone -/
theorem decDigits_length_mono {a b : Nat} (h : a ≤ b) :
    (decDigits a).length ≤ (decDigits b).length := by
  induction b using Nat.strongRecOn generalizing a with
  | _ b ih =>
    rw [decDigits.eq_1 a, decDigits.eq_1 b]
    split
    · split
      · simp
      · simp
    · split
      · omega
      · simp
        exact ih (b / 10) (by omega) (Nat.div_le_div_right h)

theorem list_rev_ind {α} {P : List α → Prop} (hnil : P [])
    (snoc : ∀ l a, P l → P (l ++ [a])) (l : List α) : P l := by
  have : ∀ r : List α, P r.reverse := by
    intro r
    induction r with
    | nil => simpa using hnil
    | cons a r ih => simpa using snoc _ a ih
  simpa using this l.reverse

/-- a digit list with the canonical shape is the one `decDigits` produces -/
theorem decDigits_unique (ds : List Nat) (hlt : ∀ d ∈ ds, d < 10) (hne : ds ≠ [])
    (hlead : ds.head? ≠ some 0 ∨ ds = [0]) : ds = decDigits (digitsValue ds) := by
  induction ds using list_rev_ind with
  | hnil => exact absurd rfl hne
  | snoc as d ih =>
    rw [digitsValue_append]
    have hd : d < 10 := hlt d (by simp)
    cases as with
    | nil =>
      simp [digitsValue]
      rw [decDigits]; simp [hd]
    | cons a as' =>
      have hlead' : (a :: as').head? ≠ some 0 := by
        rcases hlead with h | h
        · simpa using h
        · simp at h
      have ha0 : a ≠ 0 := by simpa using hlead'
      have ih' := ih (fun x hx => hlt x (by simp at hx ⊢; rcases hx with h | h; exact Or.inl h; exact Or.inr (Or.inl h)))
        (by simp) (Or.inl hlead')
      -- value of a :: as' is ≥ 1 because the leading digit is nonzero
      have hpos : 0 < digitsValue (a :: as') := by
        rcases Nat.eq_zero_or_pos (digitsValue (a :: as')) with h0 | h0
        · rw [h0, decDigits_zero] at ih'
          simp at ih'
          exact absurd ih'.1 ha0
        · exact h0
      rw [decDigits.eq_1 (digitsValue (a :: as') * 10 + d)]
      have : ¬ (digitsValue (a :: as') * 10 + d < 10) := by omega
      simp only [this, if_false]
      have e1 : (digitsValue (a :: as') * 10 + d) / 10 = digitsValue (a :: as') := by omega
      have e2 : (digitsValue (a :: as') * 10 + d) % 10 = d := by omega
      rw [e1, e2, ← ih']

/-! ### characters -/

theorem isAsciiDigit_digitChar {d : Nat} (h : d < 10) : isAsciiDigit (digitChar d) = true := by
  have : d = 0 ∨ d = 1 ∨ d = 2 ∨ d = 3 ∨ d = 4 ∨ d = 5 ∨ d = 6 ∨ d = 7 ∨ d = 8 ∨ d = 9 := by omega
  rcases this with h | h | h | h | h | h | h | h | h | h <;> subst h <;> decide

theorem digitChar_toNat {d : Nat} (h : d < 10) : (digitChar d).toNat - 48 = d := by
  have : d = 0 ∨ d = 1 ∨ d = 2 ∨ d = 3 ∨ d = 4 ∨ d = 5 ∨ d = 6 ∨ d = 7 ∨ d = 8 ∨ d = 9 := by omega
  rcases this with h | h | h | h | h | h | h | h | h | h <;> subst h <;> decide

theorem digitsVal?_map_digitChar (ds : List Nat) (hlt : ∀ d ∈ ds, d < 10) (acc : Nat) :
    digitsVal? acc (ds.map digitChar) = some (ds.foldl (fun a d => a * 10 + d) acc) := by
  induction ds generalizing acc with
  | nil => simp [digitsVal?]
  | cons d ds ih =>
    have hd : d < 10 := hlt d (by simp)
    simp only [List.map_cons, digitsVal?, isAsciiDigit_digitChar hd, if_true, digitChar_toNat hd,
      List.foldl_cons]
    exact ih (fun x hx => hlt x (by simp [hx])) _

/-- parsing the printed form gives the number back -/
theorem digitsVal?_decimal (n : Nat) : digitsVal? 0 (decimal n) = some n := by
  unfold decimal
  rw [digitsVal?_map_digitChar _ (decDigits_lt n)]
  have := decDigits_value n
  unfold digitsValue at this
  rw [this]

theorem decimal_length (n : Nat) : (decimal n).length = (decDigits n).length := by
  simp [decimal]

theorem decimal_all_digits (n : Nat) : ∀ c ∈ decimal n, isAsciiDigit c = true := by
  intro c hc
  simp [decimal] at hc
  obtain ⟨d, hd, rfl⟩ := hc
  exact isAsciiDigit_digitChar (decDigits_lt n d hd)

end Hdw
