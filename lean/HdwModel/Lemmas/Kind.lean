/-
Helper lemmas for C08a (member type grammar): `MemberKind.print` followed by
`MemberKind.parse` is the identity on canonical kinds.
-/
import HdwModel.Model.TypedData
import HdwModel.Spec.Eip712
import HdwModel.Lemmas.Decimal
import HdwModel.Lemmas.Path

namespace Hdw.TypedData
open Hdw

/-! ### stripPrefix / stripSuffix -/

theorem stripPrefix_eq_some (p s t : Str) : stripPrefix p s = some t ↔ s = p ++ t := by
  induction p generalizing s with
  | nil => simp [stripPrefix, eq_comm]
  | cons a p ih =>
    cases s with
    | nil => simp [stripPrefix]
    | cons b s =>
      simp only [stripPrefix, List.cons_append, List.cons.injEq]
      by_cases hab : a = b
      · subst hab; simp [ih]
      · simp [hab, Ne.symm hab]

theorem stripSuffix_eq_some (p s t : Str) : stripSuffix p s = some t ↔ s = t ++ p := by
  unfold stripSuffix
  simp only [Option.map_eq_some_iff, stripPrefix_eq_some]
  constructor
  · rintro ⟨a, ha, rfl⟩
    have := congrArg List.reverse ha
    simpa using this
  · rintro rfl
    exact ⟨t.reverse, by simp, by simp⟩

theorem stripSuffix_eq_none (p s : Str) (h : ∀ t, s ≠ t ++ p) : stripSuffix p s = none := by
  cases hs : stripSuffix p s with
  | none => rfl
  | some t => exact absurd ((stripSuffix_eq_some p s t).mp hs) (h t)

/-! ### span / rsplitBracket -/

theorem span_loop_append {α} (p : α → Bool) (l : List α) (a : α) (r acc : List α)
    (hl : ∀ x ∈ l, p x = true) (ha : p a = false) :
    List.span.loop p (l ++ a :: r) acc = (acc.reverse ++ l, a :: r) := by
  induction l generalizing acc with
  | nil => simp [List.span.loop, ha]
  | cons x xs ih =>
    have hx : p x = true := hl x (by simp)
    simp only [List.cons_append, List.span.loop, hx]
    rw [ih _ (fun y hy => hl y (by simp [hy]))]
    simp

theorem rsplitBracket_append (pre d : Str) (hd : '[' ∉ d) :
    rsplitBracket (pre ++ ['['] ++ d) = some (pre, d) := by
  unfold rsplitBracket
  have : (pre ++ ['['] ++ d).reverse = d.reverse ++ '[' :: pre.reverse := by simp
  simp only [this, List.span]
  rw [span_loop_append]
  · simp
  · intro x hx
    simp only [List.mem_reverse] at hx
    simp only [ne_eq, decide_eq_true_eq]
    intro e; subst e; exact hd hx
  · simp

/-! ### findDigit -/

theorem findDigit_lt (s : Str) (i : Nat) (h : findDigit s = some i) : i < s.length := by
  induction s generalizing i with
  | nil => simp [findDigit] at h
  | cons c cs ih =>
    simp only [findDigit] at h
    split at h
    · simp only [Option.some.injEq] at h; subst h; simp
    · simp only [Option.map_eq_some_iff] at h
      obtain ⟨j, hj, rfl⟩ := h
      have := ih j hj
      simp; omega

theorem findDigit_append (pre d : Str) (c : Char) (hpre : ∀ x ∈ pre, isAsciiDigit x = false)
    (hc : isAsciiDigit c = true) : findDigit (pre ++ c :: d) = some pre.length := by
  induction pre with
  | nil => simp [findDigit, hc]
  | cons x xs ih =>
    have hx : isAsciiDigit x = false := hpre x (by simp)
    simp only [List.cons_append, findDigit, hx, Bool.false_eq_true, if_false,
      ih (fun y hy => hpre y (by simp [hy]))]
    simp

theorem findDigit_append_decimal (pre : Str) (n : Nat) (hpre : ∀ x ∈ pre, isAsciiDigit x = false) :
    findDigit (pre ++ decimal n) = some pre.length := by
  cases hd : decimal n with
  | nil => exact absurd hd (decimal_ne_nil n)
  | cons c cs =>
    apply findDigit_append _ _ _ hpre
    exact decimal_all_digits n c (by rw [hd]; simp)

/-! ### parseAtom -/

theorem parseUInt_none_of_mem (bits : Nat) (s : Str) (c : Char) (hc : c ∈ s) (h1 : c ≠ '+')
    (h2 : isAsciiDigit c = false) : parseUInt bits s = none := by
  cases hp : parseUInt bits s with
  | none => rfl
  | some v =>
    rcases parseUInt_some_chars bits s v hp c hc with h | h
    · exact absurd h h1
    · rw [h2] at h; cases h

/-- a string ending in `]` is not an atom -/
theorem parseAtom_bracket (t : Str) : parseAtom (t ++ [']']) = none := by
  have hlast : (t ++ [']']).getLast? = some ']' := List.getLast?_concat
  unfold parseAtom
  split
  · rename_i h; rw [h] at hlast; simp at hlast
  split
  · rename_i h; rw [h] at hlast; simp at hlast
  split
  · rename_i h; rw [h] at hlast; simp at hlast
  split
  · rename_i h; rw [h] at hlast; simp at hlast
  split
  · rfl
  · rename_i i hi
    have hlt := findDigit_lt _ _ hi
    simp only [List.length_append, List.length_singleton] at hlt
    have hdrop : (t ++ [']']).drop i = t.drop i ++ [']'] :=
      List.drop_append_of_le_length (by omega)
    have : parseUInt 32 ((t ++ [']']).drop i) = none :=
      parseUInt_none_of_mem 32 _ ']' (by rw [hdrop]; simp) (by decide) (by decide)
    simp only [this]

theorem parseAtom_widths (pre : Str) (n : Nat) (hn : n < 2 ^ 32)
    (hpre : ∀ x ∈ pre, isAsciiDigit x = false)
    (h1 : pre ++ decimal n ≠ chars! "bool") (h2 : pre ++ decimal n ≠ chars! "address")
    (h3 : pre ++ decimal n ≠ chars! "bytes") (h4 : pre ++ decimal n ≠ chars! "string") :
    parseAtom (pre ++ decimal n) =
      if pre = chars! "bytes" ∧ 1 ≤ n ∧ n ≤ 32 then some (.bytes (some n))
      else if pre = chars! "uint" ∧ n % 8 = 0 ∧ 8 ≤ n ∧ n ≤ 256 then some (.uint n)
      else if pre = chars! "int" ∧ n % 8 = 0 ∧ 8 ≤ n ∧ n ≤ 256 then some (.int n)
      else none := by
  unfold parseAtom
  rw [if_neg h1, if_neg h2, if_neg h3, if_neg h4, findDigit_append_decimal pre n hpre]
  simp only [List.take_left', List.drop_left', parseUInt_decimal, hn, if_true]

theorem decimal_cons (n : Nat) : ∃ c cs, decimal n = c :: cs := by
  cases hd : decimal n with
  | nil => exact absurd hd (decimal_ne_nil n)
  | cons c cs => exact ⟨c, cs, rfl⟩

theorem parseAtom_bytesN (n : Nat) (h1 : 1 ≤ n) (h2 : n ≤ 32) :
    parseAtom (chars! "bytes" ++ decimal n) = some (.bytes (some n)) := by
  obtain ⟨c, cs, hd⟩ := decimal_cons n
  rw [parseAtom_widths _ n (by omega) (by decide)]
  · simp [h1, h2]
  all_goals simp [hd]

theorem parseAtom_uintN (n : Nat) (h1 : n % 8 = 0) (h2 : 8 ≤ n) (h3 : n ≤ 256) :
    parseAtom (chars! "uint" ++ decimal n) = some (.uint n) := by
  obtain ⟨c, cs, hd⟩ := decimal_cons n
  rw [parseAtom_widths _ n (by omega) (by decide)]
  · simp [h1, h2, h3]
  all_goals simp [hd]

theorem parseAtom_intN (n : Nat) (h1 : n % 8 = 0) (h2 : 8 ≤ n) (h3 : n ≤ 256) :
    parseAtom (chars! "int" ++ decimal n) = some (.int n) := by
  obtain ⟨c, cs, hd⟩ := decimal_cons n
  rw [parseAtom_widths _ n (by omega) (by decide)]
  · simp [h1, h2, h3]
  all_goals simp [hd]

/-! ### parseKind -/

theorem parseKind_atom (fuel : Nat) (s : Str) (k : MemberKind) (h : parseAtom s = some k) :
    parseKind (fuel + 1) s = k := by
  simp [parseKind, h]

theorem parseKind_struct (fuel : Nat) (name : Str) (h1 : parseAtom name = none)
    (h2 : name.getLast? ≠ some ']') : parseKind fuel name = .struct name := by
  cases fuel with
  | zero => simp [parseKind]
  | succ fuel =>
    have e1 : stripSuffix ['[', ']'] name = none := by
      apply stripSuffix_eq_none
      intro t e; apply h2; rw [e]; simp
    have e2 : stripSuffix [']'] name = none := by
      apply stripSuffix_eq_none
      intro t e; apply h2; rw [e]; simp
    simp [parseKind, h1, e1, e2]

theorem parseKind_array_none (fuel : Nat) (s : Str) :
    parseKind (fuel + 1) (s ++ ['[', ']']) = .array (parseKind fuel s) none := by
  have e0 : parseAtom (s ++ ['[', ']']) = none := by
    have : s ++ ['[', ']'] = (s ++ ['[']) ++ [']'] := by simp
    rw [this]; exact parseAtom_bracket _
  have e1 : stripSuffix ['[', ']'] (s ++ ['[', ']']) = some s :=
    (stripSuffix_eq_some _ _ _).mpr rfl
  simp [parseKind, e0, e1]

theorem parseKind_array_some (fuel : Nat) (s : Str) (n : Nat) (hn : n < 2 ^ 64) :
    parseKind (fuel + 1) (s ++ ['['] ++ decimal n ++ [']']) = .array (parseKind fuel s) (some n) := by
  have hbr : '[' ∉ decimal n := not_mem_decimal_of_not_digit n '[' (by decide)
  have e0 : parseAtom (s ++ ['['] ++ decimal n ++ [']']) = none := parseAtom_bracket _
  have e1 : stripSuffix ['[', ']'] (s ++ ['['] ++ decimal n ++ [']']) = none := by
    apply stripSuffix_eq_none
    intro t e
    have e' : (s ++ ['['] ++ decimal n) ++ [']'] = (t ++ ['[']) ++ [']'] := by
      rw [e]; simp
    have e'' := List.append_cancel_right e'
    have hl := congrArg List.getLast? e''
    obtain ⟨ds, d, hd⟩ : ∃ ds d, decimal n = ds ++ [d] := by
      rcases List.eq_nil_or_concat (decimal n) with h | ⟨ds, d, h⟩
      · exact absurd h (decimal_ne_nil n)
      · exact ⟨ds, d, by rw [h, List.concat_eq_append]⟩
    rw [hd, ← List.append_assoc, List.getLast?_concat, List.getLast?_concat] at hl
    simp only [Option.some.injEq] at hl
    apply hbr
    rw [hd, hl]; simp
  have e2 : stripSuffix [']'] (s ++ ['['] ++ decimal n ++ [']']) = some (s ++ ['['] ++ decimal n) :=
    stripSuffix_singleton_append _ _
  have e3 := rsplitBracket_append s (decimal n) hbr
  have e4 : parseUInt 64 (decimal n) = some n := by rw [parseUInt_decimal]; simp [hn]
  simp only [parseKind, e0, e1, e2, e3, e4]

/-! ### print then parse -/

/-- kinds that the grammar can express canonically (same as `Hdw.Props.C08.WellFormedKind`) -/
def WFKind : MemberKind → Prop
  | .bytes none => True
  | .bytes (some n) => 1 ≤ n ∧ n ≤ 32
  | .uint n => n % 8 = 0 ∧ 8 ≤ n ∧ n ≤ 256
  | .int n => n % 8 = 0 ∧ 8 ≤ n ∧ n ≤ 256
  | .bool => True
  | .address => True
  | .string => True
  | .struct name => parseAtom name = none ∧ name.getLast? ≠ some ']'
  | .array inner size => WFKind inner ∧ ∀ n ∈ size, n < 2 ^ 64

/-- array nesting depth -/
def depth : MemberKind → Nat
  | .array inner _ => depth inner + 1
  | _ => 0

theorem depth_le_print (k : MemberKind) : depth k ≤ k.print.length := by
  induction k with
  | array inner size ih =>
    cases size with
    | none => simp [depth, MemberKind.print]; omega
    | some n => simp [depth, MemberKind.print]; omega
  | _ => simp [depth]

theorem parseKind_print (k : MemberKind) (h : WFKind k) (fuel : Nat) (hf : depth k < fuel) :
    parseKind fuel k.print = k := by
  induction k generalizing fuel with
  | bytes n =>
    obtain ⟨fuel, rfl⟩ : ∃ f, fuel = f + 1 := ⟨fuel - 1, by omega⟩
    cases n with
    | none => exact parseKind_atom _ _ _ (by decide)
    | some n => exact parseKind_atom _ _ _ (parseAtom_bytesN n h.1 h.2)
  | uint n =>
    obtain ⟨fuel, rfl⟩ : ∃ f, fuel = f + 1 := ⟨fuel - 1, by omega⟩
    exact parseKind_atom _ _ _ (parseAtom_uintN n h.1 h.2.1 h.2.2)
  | int n =>
    obtain ⟨fuel, rfl⟩ : ∃ f, fuel = f + 1 := ⟨fuel - 1, by omega⟩
    exact parseKind_atom _ _ _ (parseAtom_intN n h.1 h.2.1 h.2.2)
  | bool =>
    obtain ⟨fuel, rfl⟩ : ∃ f, fuel = f + 1 := ⟨fuel - 1, by omega⟩
    exact parseKind_atom _ _ _ (by decide)
  | address =>
    obtain ⟨fuel, rfl⟩ : ∃ f, fuel = f + 1 := ⟨fuel - 1, by omega⟩
    exact parseKind_atom _ _ _ (by decide)
  | string =>
    obtain ⟨fuel, rfl⟩ : ∃ f, fuel = f + 1 := ⟨fuel - 1, by omega⟩
    exact parseKind_atom _ _ _ (by decide)
  | struct name => exact parseKind_struct fuel name h.1 h.2
  | array inner size ih =>
    obtain ⟨fuel, rfl⟩ : ∃ f, fuel = f + 1 := ⟨fuel - 1, by omega⟩
    simp only [depth] at hf
    cases size with
    | none =>
      simp only [MemberKind.print]
      rw [parseKind_array_none, ih h.1 fuel (by omega)]
    | some n =>
      simp only [MemberKind.print]
      rw [parseKind_array_some _ _ _ (h.2 n rfl), ih h.1 fuel (by omega)]

theorem parse_print (k : MemberKind) (h : WFKind k) : MemberKind.parse k.print = k := by
  unfold MemberKind.parse
  exact parseKind_print k h _ (by have := depth_le_print k; omega)

end Hdw.TypedData
