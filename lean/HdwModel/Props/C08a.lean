/-
C08 (part a) — EIP-712 type strings: the dependency closure and the member type grammar.

Statements only (helper lemmas live in `HdwModel.Lemmas.EncodeType` / `HdwModel.Lemmas.Kind`).
`Hdw.TypedData.encodeType` models `Types::encode_type` (explicit work-list into a name-sorted
map); `Hdw.Spec.Eip712.Reachable` is the EIP's "set of referenced struct types".
-/
import HdwModel.Model.TypedData
import HdwModel.Spec.Eip712
import HdwModel.Lemmas.EncodeType
import HdwModel.Lemmas.Kind

namespace Hdw.Props.C08
open Hdw Hdw.TypedData Hdw.Spec.Eip712

/-- `s` is the EIP-712 `encodeType` of `primary`: the primary type's definition followed by the
definitions of all transitively referenced struct types — the primary type excluded, each
exactly once, in increasing name order — all of which are defined -/
def IsEncodeType (types : Types) (primary : Str) (s : Str) : Prop :=
  ∃ members deps,
    types.get? primary = some members ∧
    List.Pairwise (fun a b => strLt a b = true) deps ∧
    (∀ name, name ∈ deps ↔ (Reachable types primary name ∧ name ≠ primary)) ∧
    (∀ d ∈ deps, (types.get? d).isSome) ∧
    s = typeDefString primary members ++
      (deps.map fun d => typeDefString d ((types.get? d).getD [])).flatten

/-- `strLt` is a strict total order on strings (so "increasing name order" determines the list) -/
theorem strLt_strict_total :
    (∀ a, strLt a a = false) ∧ (∀ a b c, strLt a b = true → strLt b c = true → strLt a c = true) ∧
    (∀ a b, strLt a b = true ∨ a = b ∨ strLt b a = true) :=
  ⟨strLt_irrefl, strLt_trans, strLt_total⟩

/-- the code's type string is the EIP-712 `encodeType`, for every type graph (any number of
types, members in any order, shared / repeated / recursive references) -/
theorem encodeType_spec (types : Types) (primary : Str) (s : Str) :
    TypedData.encodeType types primary = .ok s ↔ IsEncodeType types primary s :=
  encodeType_ok_iff types primary s

/-- it never panics (the work-list fuel is sufficient), and fails exactly when the primary type
or some transitively referenced type is undefined -/
theorem encodeType_total (types : Types) (primary : Str) :
    (∀ site, TypedData.encodeType types primary ≠ .panic site) ∧
    ((∃ e, TypedData.encodeType types primary = .err e) ↔
      (types.get? primary = none ∨ ∃ name, Reachable types primary name ∧ types.get? name = none)) :=
  ⟨encodeType_no_panic types primary, encodeType_err_iff types primary⟩

/-- `encodeType` is unique: the relation determines the string -/
theorem isEncodeType_unique (types : Types) (primary : Str) (s₁ s₂ : Str)
    (h₁ : IsEncodeType types primary s₁) (h₂ : IsEncodeType types primary s₂) : s₁ = s₂ :=
  isEncType_unique types primary s₁ s₂ h₁ h₂

/-- the executable spec used by the correspondence judge computes the same thing -/
theorem spec_encodeType_eq (types : Types) (primary : Str) :
    (TypedData.encodeType types primary).toOption = Spec.Eip712.encodeType types primary :=
  spec_encodeType_agrees types primary

/-! ### member type grammar -/

/-- kinds that the grammar can express canonically -/
def WellFormedKind : MemberKind → Prop
  | .bytes none => True
  | .bytes (some n) => 1 ≤ n ∧ n ≤ 32
  | .uint n => n % 8 = 0 ∧ 8 ≤ n ∧ n ≤ 256
  | .int n => n % 8 = 0 ∧ 8 ≤ n ∧ n ≤ 256
  | .bool => True
  | .address => True
  | .string => True
  | .struct name => parseAtom name = none ∧ name.getLast? ≠ some ']'
  | .array inner size => WellFormedKind inner ∧ ∀ n ∈ size, n < 2 ^ 64

/-- printing a well-formed kind and parsing it back is the identity (so the type string that is
hashed spells exactly the kinds that are encoded) -/
theorem kind_print_parse (k : MemberKind) (h : WellFormedKind k) : MemberKind.parse k.print = k := by
  apply parse_print
  induction k with
  | bytes n => cases n <;> exact h
  | array inner size ih => exact ⟨ih h.1, h.2⟩
  | _ => exact h

/-- all 100 atomic type names of EIP-712 parse to the atoms they name -/
theorem atoms_parse :
    MemberKind.parse (chars! "bool") = .bool ∧ MemberKind.parse (chars! "address") = .address ∧
    MemberKind.parse (chars! "string") = .string ∧ MemberKind.parse (chars! "bytes") = .bytes none ∧
    (∀ n, 1 ≤ n → n ≤ 32 → MemberKind.parse (chars! "bytes" ++ decimal n) = .bytes (some n)) ∧
    (∀ n, n % 8 = 0 → 8 ≤ n → n ≤ 256 → MemberKind.parse (chars! "uint" ++ decimal n) = .uint n) ∧
    (∀ n, n % 8 = 0 → 8 ≤ n → n ≤ 256 → MemberKind.parse (chars! "int" ++ decimal n) = .int n) :=
  ⟨by decide, by decide, by decide, by decide,
   fun n h1 h2 => parseKind_atom _ _ _ (parseAtom_bytesN n h1 h2),
   fun n h1 h2 h3 => parseKind_atom _ _ _ (parseAtom_uintN n h1 h2 h3),
   fun n h1 h2 h3 => parseKind_atom _ _ _ (parseAtom_intN n h1 h2 h3)⟩

/-! Non-vacuity: the dependency witness that the unfixed work-list got wrong. -/
example : TypedData.encodeType
    [(chars! "P", [⟨chars! "b", .array (.struct (chars! "B")) none⟩, ⟨chars! "a", .struct (chars! "A")⟩,
                   ⟨chars! "a2", .struct (chars! "A")⟩]),
     (chars! "A", [⟨chars! "x", .uint 8⟩]), (chars! "B", [⟨chars! "y", .bool⟩])] (chars! "P")
    = .ok (chars! "P(B[] b,A a,A a2)A(uint8 x)B(bool y)") := by
  decide +kernel
example : TypedData.encodeType [(chars! "P", [⟨chars! "p", .array (.struct (chars! "P")) none⟩])] (chars! "P")
    = .ok (chars! "P(P[] p)") := by
  decide +kernel

end Hdw.Props.C08
