/-
C17 — No input makes the tool panic, abort or hang.

Statements only.  The model represents every place where the Rust code can panic (unwrap,
index, slice copy, checked arithmetic, debug assertion) as an explicit `.panic` outcome and is a
total function (Lean's termination checker = no unbounded computation on the modelled paths).
These theorems show the `.panic` outcomes unreachable from every user-reachable entry point —
they mostly collect the `no_panic` clauses proved with the individual properties.

PARTIAL where stated: (1) typed data: strings shorter than 2^33 characters (the `as u32`
truncation needs an 8 GiB document, see C09); (2) signing: the RFC 6979 retry loop is modelled with
64 retries and assumed to find a nonce within them (each retry has probability ≈ 2^-128; the real
loop is unbounded and terminates with probability 1); (3) panics inside dependencies on paths
the contract-level models do not describe are reached only by the mutation stream of the check.
-/
import HdwModel.Props.C01
import HdwModel.Props.C03
import HdwModel.Props.C06
import HdwModel.Props.C08a
import HdwModel.Props.C09
import HdwModel.Props.C11
import HdwModel.Props.C12
import HdwModel.Props.C13
import HdwModel.Props.C14
import HdwModel.Props.C15
import HdwModel.Props.C16
import HdwModel.Props.C18
import HdwModel.Props.C19

namespace Hdw.Props.C17
open Hdw Hdw.Cli
variable {Pt : Type}

/-- `r` is a value or an ordinary error -/
def NoPanic {α : Type} (r : Res α) : Prop := ∀ site, r ≠ .panic site

/-! closure lemmas -/
theorem NoPanic.ok {α : Type} (a : α) : NoPanic (Res.ok a) := fun _ h => by cases h
theorem NoPanic.err {α : Type} (m : String) : NoPanic (Res.err m : Res α) := fun _ h => by cases h
theorem NoPanic.of_ok {α : Type} {r : Res α} {a : α} (h : r = .ok a) : NoPanic r := h ▸ .ok a
theorem NoPanic.of_err {α : Type} {r : Res α} {e : String} (h : r = .err e) : NoPanic r := h ▸ .err e
theorem NoPanic.bind {α β : Type} {r : Res α} {f : α → Res β} (hr : NoPanic r)
    (hf : ∀ a, r = .ok a → NoPanic (f a)) : NoPanic (r.bind f) := by
  cases r with
  | ok a => exact hf a rfl
  | err m => exact .err m
  | panic s => exact absurd rfl (hr s)

/-- mnemonic phrases (any string, any word count) -/
theorem mnemonic_no_panic (P : Prims) (s : Str) : NoPanic (Mnemonic.fromPhrase P s) := by
  by_cases h : Spec.Bip39.Valid P.sha256 Wordlist.table (splitWhitespace s)
  · obtain ⟨m, hm⟩ := (C01.accept_iff P s).mpr h
    exact .of_ok hm
  · obtain ⟨e, he⟩ := C01.reject_is_err P s h
    exact .of_err he

/-- an accepted mnemonic always prints (word indices are in range, the 64-byte buffer is long enough) -/
theorem print_no_panic (P : Prims) (s : Str) (m : Mnemonic.Mnemonic) (h : Mnemonic.fromPhrase P s = .ok m) :
    ∃ ph, Mnemonic.toPhrase m = .ok ph := by
  exact ⟨_, (C01.print_spec P s m h).1⟩

/-- HD paths and account indices (any text; indices around 2^31, 2^32, 2^64) -/
theorem path_no_panic (s : Str) : NoPanic (Path.parse s) := by
  exact C14.parse_no_panic s

theorem for_index_no_panic (i : Nat) : NoPanic (Path.forIndex i) := by
  unfold Path.forIndex
  exact path_no_panic _

theorem for_index_standard (i : Nat) (path : Path.Path) (h : Path.forIndex i = .ok path) :
    ∀ c ∈ path, c.value < 2 ^ 31 := by
  unfold Path.forIndex at h
  exact (C14.accepted_standard _ path h).2

theorem selector_no_panic (sel : Selector) : NoPanic (selectedPath sel) := by
  cases sel with
  | default => exact for_index_no_panic 0
  | index t =>
    cases ht : parseUInt 64 t with
    | none =>
      obtain ⟨e, he⟩ := selectedPath_index_none t ht
      exact .of_err he
    | some i =>
      rw [selectedPath_index_some t i ht]
      exact for_index_no_panic i
  | path p => exact path_no_panic p
  | both i p => exact .err _

/-- whatever path is selected has standard indices only -/
theorem selected_standard (sel : Selector) (path : Path.Path) (h : selectedPath sel = .ok path) :
    ∀ c ∈ path, c.value < 2 ^ 31 := by
  cases sel with
  | default => exact for_index_standard 0 path h
  | index t =>
    cases ht : parseUInt 64 t with
    | none =>
      obtain ⟨e, he⟩ := selectedPath_index_none t ht
      rw [he] at h; cases h
    | some i =>
      rw [selectedPath_index_some t i ht] at h
      exact for_index_standard i path h
  | path p => exact (C14.accepted_standard p path h).2
  | both i p => cases h

/-- signatures and digests given on the command line -/
theorem signature_no_panic (s : Str) : NoPanic (Sig.parse s) := by
  exact C15.parse_no_panic s

theorem digest_no_panic (s : Str) : NoPanic (parseDigest s) := by
  unfold parseDigest
  simp only
  split
  · exact .ok _
  · exact .err _

/-- transaction JSON: parsing never panics, and neither does encoding/signing-digest computation
of anything that was accepted (chain ids up to 2^256−1 included: the legacy bound keeps `v` from
overflowing), for calldata and access lists below 4 GiB -/
theorem tx_parse_no_panic (input : Bytes) : NoPanic (Tx.parse input) := by
  exact C13.parse_no_panic input

theorem tx_encode_no_panic (P : Prims) (input : Bytes) (tx : Tx.Tx) (σ : Sig)
    (h : Tx.parse input = .ok tx) (hwf : Spec.Tx.WellFormed tx)
    (hσ : σ.r < 2 ^ 256 ∧ σ.s < 2 ^ 256) :
    NoPanic (Tx.encode tx σ) ∧ NoPanic (Tx.signingMessage P tx) := by
  have hc : C06.ChainOk tx := by
    unfold Tx.parse at h
    split at h
    · exact (C06.ofJson_ranges _ tx h).1
    · cases h
  exact ⟨.of_ok (C06.encode_spec tx σ hwf hσ hc), .of_ok (C06.signing_spec P tx hwf)⟩

/-- typed-data JSON (PARTIAL: strings below 2^33 characters) -/
theorem typeddata_no_panic_partial (P : Prims) (b : TypedData.Blob)
    (hs : C09.shortStringsMembers b.domain = true ∧ C09.shortStringsMembers b.message = true) :
    NoPanic (TypedData.compute P b) := by
  exact C09.compute_no_panic_partial P b hs fun name => (C08.encodeType_total b.types name).1

theorem encode_type_no_panic (types : TypedData.Types) (name : Str) : NoPanic (TypedData.encodeType types name) := by
  exact (C08.encodeType_total types name).1

/-- hex input -/
theorem hex_no_panic (data : Bytes) : NoPanic (hexDecodeCmd data) := by
  exact C19.decode_no_panic data

/-- vanity prefixes -/
theorem prefix_no_panic (s : Str) : NoPanic (parsePrefix s) := by
  exact (C18.prefix_refused s).2.2

/-- generation lengths (any number), for an entropy source that returns what was asked for -/
theorem random_no_panic (P : Prims) (oracle : Nat → Option Bytes) (L : Nat)
    (ho : ∀ k b, oracle k = some b → b.length = k) : NoPanic (Mnemonic.random P oracle L) := by
  by_cases hL : Spec.Bip39.validLength L
  · unfold Mnemonic.random
    rw [Mnemonic.byteLength_valid hL]
    simp only
    cases hb : oracle (L * 4 / 3) with
    | none => exact .err _
    | some b => simp only [ho _ b hb, if_true]; exact .ok _
  · obtain ⟨e, he⟩ := C12.random_unsupported P oracle L hL
    exact .of_err he

/-- a generated mnemonic is the buffer of the bytes the source returned, for a supported length -/
theorem random_ok_inv (P : Prims) (oracle : Nat → Option Bytes) (L : Nat) (m : Mnemonic.Mnemonic)
    (h : Mnemonic.random P oracle L = .ok m) :
    Spec.Bip39.validLength L ∧ ∃ b, oracle (L * 4 / 3) = some b ∧ b.length = L * 4 / 3 ∧
      m = ⟨Mnemonic.mkBuf P b, b.length⟩ := by
  by_cases hL : Spec.Bip39.validLength L
  · refine ⟨hL, ?_⟩
    unfold Mnemonic.random at h
    rw [Mnemonic.byteLength_valid hL] at h
    simp only at h
    cases hb : oracle (L * 4 / 3) with
    | none => rw [hb] at h; cases h
    | some b =>
      rw [hb] at h
      simp only at h
      split at h
      · rename_i hlen
        cases h
        exact ⟨b, rfl, hlen, by rw [hlen]⟩
      · cases h
  · obtain ⟨e, he⟩ := C12.random_unsupported P oracle L hL
    rw [he] at h; cases h

/-- key selection: mnemonic + password + selector never panic (for hash functions with the
standard output sizes and a curve of order ≤ 2^256) -/
theorem private_key_no_panic (X : Ctx Pt) (a : Account) (hL : C03.Lawful X.P X.C) :
    NoPanic (privateKey X a) := by
  intro site hp
  unfold privateKey at hp
  split at hp
  · cases hp
  · rename_i e he
    exact mnemonic_no_panic X.P a.mnemonic e he
  · rename_i m hm
    split at hp
    · cases hp
    · rename_i e he
      exact selector_no_panic a.sel e he
    · rename_i path hpath
      obtain ⟨ph, hph⟩ := print_no_panic X.P a.mnemonic m hm
      simp only [Mnemonic.seed, hph] at hp
      exact (C03.derive_eq_strict X.P X.C hL _ path (selected_standard _ _ hpath)).2 site hp

/-- the account commands never panic -/
theorem account_cmds_no_panic (X : Ctx Pt) (a : Account) (hL : C03.Lawful X.P X.C) :
    NoPanic (address X a) ∧ NoPanic (exportKey X a) ∧ NoPanic (publicKey X a) := by
  have hp := private_key_no_panic X a hL
  exact ⟨hp.bind fun _ _ => .ok _, hp.bind fun _ _ => .ok _, hp.bind fun _ _ => .ok _⟩

/-- signing never panics once a nonce is found within the modelled retries (PARTIAL, see header) -/
theorem sign_no_panic_partial (P : Prims) (C : Curve Pt) (d : Nat) (digest : Bytes)
    (hk : NoPanic (Account.generateK P C.n (beFixed 32 d) digest)) :
    NoPanic (Account.trySign P C d digest) := by
  unfold Account.trySign
  split
  · unfold Account.signWithNonce
    simp only
    split
    · exact .err _
    · exact .ok _
  · exact .err _
  · rename_i e he
    exact absurd he (hk e)

/-- the hash commands never panic (typed data: PARTIAL as above, stated on the parsed blob) -/
theorem hash_tx_no_panic (X : Ctx Pt) (json : Bytes) (sig : Option Str)
    (hsize : ∀ tx, Tx.parse json = .ok tx → Spec.Tx.WellFormed tx) :
    NoPanic (hashTx X json sig) := by
  cases sig with
  | none =>
    cases htx : Tx.parse json with
    | ok tx =>
      rw [hashTx_none X json tx htx]
      exact NoPanic.bind (.of_ok (C06.signing_spec X.P tx (hsize tx htx))) fun _ _ => .ok _
    | err e => simp only [hashTx, htx]; exact .err _
    | panic e => exact absurd htx (tx_parse_no_panic json e)
  | some t =>
    cases hs : Sig.parse t with
    | ok σ =>
      cases htx : Tx.parse json with
      | ok tx =>
        rw [hashTx_some X json t σ tx hs htx]
        have hw := (C15.parse_sound t σ hs).1
        have hN : secpN < 2 ^ 256 := by unfold secpN; omega
        exact NoPanic.bind (tx_encode_no_panic X.P json tx σ htx (hsize tx htx)
          ⟨Nat.lt_trans hw.2.1 hN, Nat.lt_trans hw.2.2.2 hN⟩).1 fun _ _ => .ok _
      | err e => simp only [hashTx, hs, Res.bind, htx]; exact .err _
      | panic e => exact absurd htx (tx_parse_no_panic json e)
    | err e => simp only [hashTx, hs, Res.bind]; exact .err _
    | panic e => exact absurd hs (signature_no_panic t e)

/-- `new -n L`: any length text -/
theorem new_no_panic (X : Ctx Pt) (lengthText : Str) (oracle : Nat → Option Bytes)
    (ho : ∀ k b, oracle k = some b → b.length = k) : NoPanic (newMnemonic X lengthText oracle) := by
  unfold newMnemonic
  cases parseUInt 64 lengthText with
  | none => exact .err _
  | some n =>
    refine NoPanic.bind (random_no_panic X.P oracle n ho) fun m hm => ?_
    obtain ⟨hL, b, hob, hlen, rfl⟩ := random_ok_inv X.P oracle n m hm
    obtain ⟨_, _, ph, hph, _⟩ := C12.random_entropy_exact X.P oracle n b hL hob hlen
    exact NoPanic.bind (.of_ok hph) fun _ _ => .ok _

end Hdw.Props.C17
