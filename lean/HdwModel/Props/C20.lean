/-
C20 — Only well-formed EIP-712 domain types are accepted.

Statements only (helper lemmas live in `HdwModel.Lemmas.Domain`).
`Hdw.TypedData.verifyDomainType` / `scanDomain` model `verify_domain_type` in src/typeddata.rs;
`Hdw.Spec.Eip712.WellFormedDomain` is the statement's definition.
-/
import HdwModel.Model.TypedData
import HdwModel.Spec.Eip712
import HdwModel.Lemmas.Domain

namespace Hdw.Props.C20
open Hdw Hdw.TypedData Hdw.Spec.Eip712

/-- counterexample to the unrestricted `scan_iff`: `allowed = [("a", string), ("a", bool)]`,
`ms = [a : bool]` is a sub-sequence of the allowed list but the scan refuses it -/
theorem scan_iff_counterexample :
    ¬ ∀ (ms : List Member) (allowed : List (Str × MemberKind)),
      scanDomain ms allowed = .ok () ↔ ms.Sublist (allowed.map fun p => (⟨p.1, p.2⟩ : Member)) := by
  intro h
  have := (h [⟨chars! "a", .bool⟩] [(chars! "a", .string), (chars! "a", .bool)]).mpr (by decide)
  revert this
  decide

/-- the scan is sound for any allowed list -/
theorem scan_sound (ms : List Member) (allowed : List (Str × MemberKind))
    (h : scanDomain ms allowed = .ok ()) :
    ms.Sublist (allowed.map fun p => (⟨p.1, p.2⟩ : Member)) :=
  scanDomain_ok_sublist ms allowed h

/-- The ordered scan accepts exactly the sub-sequences of the allowed list — for arbitrary member
names and kinds (also foreign ones) and any allowed list whose names are pairwise distinct, as in
`DOMAIN_MEMBERS` (without distinctness the claim is false: `scan_iff_counterexample`). -/
theorem scan_iff (ms : List Member) (allowed : List (Str × MemberKind))
    (hnd : (allowed.map (·.1)).Nodup) :
    scanDomain ms allowed = .ok () ↔ ms.Sublist (allowed.map fun p => (⟨p.1, p.2⟩ : Member)) :=
  scanDomain_iff_sublist ms allowed hnd

/-- the domain type is accepted iff it is declared and is a non-empty selection of the standard
fields, each at most once, in the standard relative order, with exactly the standard types -/
theorem domain_accept_iff (types : Types) :
    verifyDomainType types = .ok () ↔
      ∃ members, types.get? (chars! "EIP712Domain") = some members ∧ WellFormedDomain members :=
  verifyDomainType_iff types

/-- every other domain type is refused with an error (never a panic) -/
theorem domain_refused (types : Types)
    (h : ¬ ∃ members, types.get? (chars! "EIP712Domain") = some members ∧ WellFormedDomain members) :
    ∃ e, verifyDomainType types = .err e := by
  rcases verifyDomainType_ok_or_err types with hok | herr
  · exact absurd ((verifyDomainType_iff types).mp hok) h
  · exact herr

/-- all sub-sequences of a list -/
def allSublists {α : Type} : List α → List (List α)
  | [] => [[]]
  | a :: l => allSublists l ++ (allSublists l).map (a :: ·)

theorem mem_allSublists {α : Type} (l' l : List α) : l' ∈ allSublists l ↔ l'.Sublist l := by
  induction l generalizing l' with
  | nil => simp [allSublists]
  | cons a l ih =>
    simp only [allSublists, List.mem_append, List.mem_map, ih]
    constructor
    · rintro (h | ⟨t, ht, rfl⟩)
      · exact List.Sublist.cons _ h
      · exact List.Sublist.cons_cons _ ht
    · intro h
      cases h with
      | cons _ hs => exact Or.inl hs
      | cons_cons _ hs => exact Or.inr ⟨_, hs, rfl⟩

/-- exactly 31 domain types are well formed -/
theorem domain_count :
    ((allSublists standardDomain).filter (· ≠ [])).length = 31 ∧
    ∀ ms, WellFormedDomain ms ↔ ms ∈ (allSublists standardDomain).filter (· ≠ []) := by
  refine ⟨by decide +kernel, fun ms => ?_⟩
  simp only [WellFormedDomain, List.mem_filter, mem_allSublists, decide_eq_true_eq]
  exact And.comm

/-- refusal happens before anything is hashed: the error does not depend on the hash function,
the domain value or the message -/
theorem refused_before_hash (P : Prims) (b : Blob) (e : String) (h : verifyDomainType b.types = .err e) :
    compute P b = .err e := by
  unfold compute
  rw [h]

/-- a document without a domain type is refused -/
theorem missing_domain_refused (P : Prims) (b : Blob)
    (h : b.types.get? (chars! "EIP712Domain") = none) : ∃ e, compute P b = .err e := by
  refine ⟨_, refused_before_hash P b "missing EIP-712 type definition for EIP712Domain" ?_⟩
  unfold verifyDomainType
  rw [h]

/-- the executable sub-sequence test used by the spec agrees with `List.Sublist` -/
theorem isSublist_iff (a b : List Member) : isSublist a b = true ↔ a.Sublist b :=
  isSublist_iff_sublist a b

/-! Non-vacuity -/
example : verifyDomainType [(chars! "EIP712Domain", [⟨chars! "name", .string⟩, ⟨chars! "salt", .bytes (some 32)⟩])] = .ok () := by
  decide
example : ∃ e, verifyDomainType [(chars! "EIP712Domain", [⟨chars! "salt", .bytes (some 32)⟩, ⟨chars! "name", .string⟩])] = .err e :=
  ⟨"unexpected EIP-712 domain member", by decide⟩

end Hdw.Props.C20
