/-
C07 — Every emitted RLP item is canonical and decodes to the original values.

Statements only (helper lemmas live in `HdwModel.Lemmas.Rlp`).
`Hdw.Rlp.*` is the model of src/transaction/rlp.rs; `Hdw.Spec.Rlp.*` is the Yellow-Paper
encoder and a strict decoder.
-/
import HdwModel.Model.Rlp
import HdwModel.Spec.Rlp
import HdwModel.Lemmas.Rlp

namespace Hdw.Props.C07
open Hdw Hdw.Spec.Rlp

/-- The strict decoder inverts the encoder on every encodable item, with any trailing bytes
left untouched: canonical acceptance, complete consumption and exact values in one.
(One list level costs one byte but two units of fuel, hence the factor two; a first version of
this statement with `(encode it).length < fuel` was refuted by `[[[]]]` = c2 c1 c0.) -/
theorem decode_encode (it : Item) (rest : Bytes) (h : it.Encodable) (fuel : Nat)
    (hf : 2 * (encode it).length ≤ fuel + 1) :
    decode fuel (encode it ++ rest) = some (it, rest) :=
  decode_encode_aux it rest fuel h hf

/-- exact fuel form: `fuelNeed` (defined in `Lemmas.Rlp`: 1 for a string, `1 + fuelNeedList l`
for a list, `fuelNeedList (i :: is) = 1 + max (fuelNeed i) (fuelNeedList is)`) is enough -/
theorem decode_encode_fuelNeed' (it : Item) (rest : Bytes) (h : it.Encodable) (fuel : Nat)
    (hf : fuelNeed it ≤ fuel) :
    decode fuel (encode it ++ rest) = some (it, rest) :=
  decode_encode_fuelNeed it rest fuel h hf

/-- top-level form: the whole output is consumed and the original item returned -/
theorem decodeAll_encode (it : Item) (h : it.Encodable) : decodeAll (encode it) = some it := by
  have := decode_encode_aux it [] (2 * (encode it).length) h (by omega)
  rw [List.append_nil] at this
  simp [decodeAll, this]

/-- distinct items never share an encoding -/
theorem encode_injective (a b : Item) (ha : a.Encodable) (hb : b.Encodable)
    (h : encode a = encode b) : a = b := by
  have h1 := decodeAll_encode a ha
  have h2 := decodeAll_encode b hb
  rw [h, h2] at h1
  simp only [Option.some.injEq] at h1
  exact h1.symm

/-- strictness: whatever the decoder accepts is the canonical encoding of what it returns
(so a non-minimal length prefix, a wrapped single byte below 0x80, a length with a leading
zero byte or a short payload in long form are all rejected) -/
theorem decode_canonical (fuel : Nat) (b : Bytes) (it : Item) (rest : Bytes)
    (h : decode fuel b = some (it, rest)) : b = encode it ++ rest :=
  (decode_canonical_aux fuel).1 b it rest h

/-- the code's length header never overflows its `u8` arithmetic and equals the spec header -/
theorem model_len_spec (l off : Nat) (hl : l < 2 ^ 64) (hoff : off = 0x80 ∨ off = 0xc0) :
    Hdw.Rlp.len l off = .ok (header l off) :=
  Hdw.Rlp.len_spec l off hl hoff

/-- the code's `bytes` is the spec encoding of a string item -/
theorem model_bytes_spec (b : Bytes) (h : b.length < 2 ^ 64) :
    Hdw.Rlp.bytes b = .ok (encode (.str b)) := by
  rw [encode_str]; exact Hdw.Rlp.bytes_spec b h

/-- the code's `uint` is the spec encoding of the integer: no leading zero byte,
zero is the empty string -/
theorem model_uint_spec (v : Nat) (h : v < 2 ^ 256) :
    Hdw.Rlp.uint v = .ok (encode (ofNat v)) ∧ (beBytes v).head? ≠ some 0 ∧ beVal (beBytes v) = v := by
  refine ⟨?_, beBytes_head v, beVal_beBytes v⟩
  have hlen : (beBytes v).length ≤ 32 := beBytes_length_le v 32 (by simpa using h)
  rw [Hdw.Rlp.uint, beStripped_32 v h, ofNat, encode_str]
  exact Hdw.Rlp.bytes_spec _ (by omega)

theorem model_uint_zero : Hdw.Rlp.uint 0 = .ok [0x80] := by
  rw [Hdw.Rlp.uint, beStripped_32 0 (by decide), beBytes_zero]; rfl

/-- the code's `list` over already-encoded items is the spec encoding of the list item -/
theorem model_list_spec (items : List Item) (h : (encodeList items).length < 2 ^ 64) :
    Hdw.Rlp.list (items.map encode) = .ok (encode (.list items)) :=
  Hdw.Rlp.list_spec items h

/-! Non-vacuity: both sides of every boundary (0x7f/0x80, 55/56, 255/256, 65535/65536). -/
example : encode (.str [0x7f]) = [0x7f] ∧ encode (.str [0x80]) = [0x81, 0x80] := by
  decide +kernel
example : (encode (.str (List.replicate 55 1))).take 1 = [0xb7] ∧
    (encode (.str (List.replicate 56 1))).take 2 = [0xb8, 56] ∧
    (encode (.str (List.replicate 255 1))).take 2 = [0xb8, 255] ∧
    (encode (.str (List.replicate 256 1))).take 3 = [0xb9, 1, 0] ∧
    (encode (.str (List.replicate 65535 1))).take 3 = [0xb9, 255, 255] ∧
    (encode (.str (List.replicate 65536 1))).take 4 = [0xba, 1, 0, 0] := by
  have b1 : beBytes 65535 = [255, 255] := by decide +kernel
  have b2 : beBytes 65536 = [1, 0, 0] := by decide +kernel
  refine ⟨by decide +kernel, by decide +kernel, by decide +kernel, by decide +kernel, ?_, ?_⟩
  · rw [encode_str_long _ (by rw [List.length_replicate]; omega), List.length_replicate,
      header_long (by omega), b1]
    rfl
  · rw [encode_str_long _ (by rw [List.length_replicate]; omega), List.length_replicate,
      header_long (by omega), b2]
    rfl

end Hdw.Props.C07
