/-
C12 — New mnemonics carry exactly the OS entropy; entropy failure is an error.

Statements only (helper lemmas live in `HdwModel.Lemmas.Random`).
`Hdw.Mnemonic.random` models `Mnemonic::random` over an entropy *oracle* (`oracle k` = what
the OS source returns for a request of k bytes, `none` = failure); `Hdw.Cli.newMnemonic` is the
`new -n L` command.  PARTIAL by nature: that the OS source is secure randomness is outside any model.
-/
import HdwModel.Model.Cli
import HdwModel.Spec.Bip39
import HdwModel.Lemmas.Mnemonic
import HdwModel.Lemmas.Random

namespace Hdw.Props.C12
open Hdw Hdw.Mnemonic Hdw.Spec.Bip39
variable {Pt : Type}

/-- A supported length L yields a mnemonic whose entropy is exactly the 4L/3 bytes the source
returned, of exactly L words, valid, and parsed back by the tool to the same mnemonic. -/
theorem random_entropy_exact (P : Prims) (oracle : Nat → Option Bytes) (L : Nat) (b : Bytes)
    (hL : validLength L) (ho : oracle (L * 4 / 3) = some b) (hb : b.length = L * 4 / 3) :
    random P oracle L = .ok ⟨mkBuf P b, b.length⟩ ∧
    mnemonicLength ⟨mkBuf P b, b.length⟩ = L ∧
    ∃ phrase, toPhrase ⟨mkBuf P b, b.length⟩ = .ok phrase ∧
      fromPhrase P phrase = .ok ⟨mkBuf P b, b.length⟩ ∧
      (splitWhitespace phrase).length = L ∧
      ValidWith P.sha256 Wordlist.table (splitWhitespace phrase) b := by
  obtain ⟨h1, h2⟩ := random_exact P L b hL hb
  exact ⟨random_ok P oracle L b hL ho hb, h1, h2⟩

/-- every entropy bit comes from the source and from nowhere else: generation depends on the
oracle only through its answer to the single request of 4L/3 bytes -/
theorem random_single_request (P : Prims) (o₁ o₂ : Nat → Option Bytes) (L : Nat)
    (h : o₁ (L * 4 / 3) = o₂ (L * 4 / 3)) : random P o₁ L = random P o₂ L := by
  exact random_congr P o₁ o₂ L h

/-- distinct entropies give distinct phrases (nothing is constant or dropped) -/
theorem random_injective (P : Prims) (L : Nat) (b₁ b₂ : Bytes) (hL : validLength L)
    (h₁ : b₁.length = L * 4 / 3) (h₂ : b₂.length = L * 4 / 3)
    (h : toPhrase ⟨mkBuf P b₁, b₁.length⟩ = toPhrase ⟨mkBuf P b₂, b₂.length⟩) : b₁ = b₂ := by
  exact toPhrase_inj P L b₁ b₂ hL h₁ h₂ h

/-- if the source reports failure, generation fails with an error -/
theorem random_fail (P : Prims) (oracle : Nat → Option Bytes) (L : Nat)
    (ho : oracle (L * 4 / 3) = none) : ∃ e, random P oracle L = .err e := by
  exact random_none P oracle L ho

/-- unsupported lengths are refused whatever the source does -/
theorem random_unsupported (P : Prims) (oracle : Nat → Option Bytes) (L : Nat) (hL : ¬ validLength L) :
    ∃ e, random P oracle L = .err e := by
  exact random_bad P oracle L hL

/-- `new -n L`: prints the phrase and a newline, or nothing on failure -/
theorem new_cmd (X : Cli.Ctx Pt) (L : Nat) (oracle : Nat → Option Bytes) (b : Bytes)
    (hL : validLength L) (ho : oracle (L * 4 / 3) = some b) (hb : b.length = L * 4 / 3) :
    ∃ phrase, toPhrase ⟨mkBuf X.P b, b.length⟩ = .ok phrase ∧
      Cli.newMnemonic X (decimal L) oracle = .ok (Cli.line phrase) := by
  obtain ⟨_, phrase, hp, _⟩ := random_exact X.P L b hL hb
  exact ⟨phrase, hp, Cli.newMnemonic_ok X L oracle b phrase hL ho hb hp⟩

theorem new_cmd_fail (X : Cli.Ctx Pt) (lengthText : Str) (oracle : Nat → Option Bytes)
    (h : ∀ k, oracle k = none) : ∃ e, Cli.newMnemonic X lengthText oracle = .err e := by
  exact Cli.newMnemonic_fail X lengthText oracle h

end Hdw.Props.C12
