/-
End-to-end statements: what a user-visible command prints, expressed ONLY in terms of the
standards (BIP-39 seed, BIP-32 derivation, secp256k1/Keccak address with EIP-55, EIP-191,
EIP-155/2718 payloads, RFC 6979/ECDSA), by chaining the per-property theorems
C01/C02/C03/C04/C05/C06/C10/C14/C16.  No new modelling: these are compositions, but they are
the statements a reader actually wants ("`address --account-index i` prints the EIP-55 address of
the BIP-32 key at m/44'/60'/0'/0/i of the BIP-39 seed of the phrase").
-/
import HdwModel.Props.C01
import HdwModel.Props.C02
import HdwModel.Props.C03
import HdwModel.Props.C04
import HdwModel.Props.C05
import HdwModel.Props.C06
import HdwModel.Props.C10
import HdwModel.Props.C14
import HdwModel.Props.C16

namespace Hdw.Props.EndToEnd
open Hdw Hdw.Cli
variable {Pt : Type}

/-- the BIP-39 seed of a (valid) phrase `s` with passphrase `pw`, from the standard:
PBKDF2-HMAC-SHA512(password = words joined by single spaces, salt = "mnemonic" ‖ NFKD(pw), 2048, 64) -/
def bip39Seed (P : Prims) (T : NfkdTable) (s pw : Str) : Bytes :=
  Prim.pbkdf2 (Prim.hmac P.sha512 128) 64 (Utf8.encode (joinWith [' '] (splitWhitespace s)))
    (Utf8.encode (chars! "mnemonic" ++ T.nfkd pw)) 2048 64

/-- the BIP-32 private key at a list of child numbers, from the standard (CKDpriv) -/
def bip32Key (P : Prims) (C : Curve Pt) (seed : Bytes) (childNumbers : List Nat) : Option Nat :=
  Spec.Bip32.derive (Prim.hmac P.sha512 128) (fun k => C.compressed (C.mulG k)) C.n seed childNumbers

/-- BIP-44 Ethereum path for account index `i`: 44', 60', 0', 0, i as BIP-32 child numbers -/
def bip44 (i : Nat) : List Nat := [44 + 2 ^ 31, 60 + 2 ^ 31, 0 + 2 ^ 31, 0, i]


/-- key selection, shared by the three statements: whenever `privateKey` yields `d` along a
selected path with standard indices, the phrase is valid and `d` is the BIP-32 key of the
BIP-39 seed along that path -/
theorem key_selected (X : Ctx Pt) (T : NfkdTable) (hT : C02.AsciiStable T) (hX : X.nfkd = T.nfkd)
    (hL : C03.Lawful X.P X.C) (mn pw : Str) (sel : Selector) (path : Path.Path) (d : Nat)
    (hp : selectedPath sel = .ok path) (hlt : ∀ c ∈ path, c.value < 2 ^ 31)
    (hd : privateKey X ⟨mn, pw, sel⟩ = .ok d) :
    Spec.Bip39.Valid X.P.sha256 Wordlist.table (splitWhitespace mn) ∧
    bip32Key X.P X.C (bip39Seed X.P T mn pw) (path.map C03.childNumber) = some d := by
  obtain ⟨m, path', seed, hm, hp', hs, hder⟩ := C16.private_key_spec X _ d hd
  simp only at hm hp' hs
  rw [hp] at hp'
  cases hp'
  refine ⟨(C01.accept_iff X.P mn).mp ⟨m, hm⟩, ?_⟩
  rw [hX, C02.seed_of_parsed X.P T hT mn pw m hm] at hs
  have hs := Res.ok.inj hs
  subst hs
  exact C03.derive_spec X.P X.C hL _ path hlt d hder

theorem bip44_eq (i : Nat) :
    ([.hardened 44, .hardened 60, .hardened 0, .normal 0, .normal i] : Path.Path).map C03.childNumber
      = bip44 i := rfl

theorem bip44_lt (i : Nat) (hi : i < 2 ^ 31) :
    ∀ c ∈ ([.hardened 44, .hardened 60, .hardened 0, .normal 0, .normal i] : Path.Path),
      c.value < 2 ^ 31 := by
  intro c hc
  simp only [List.mem_cons, List.not_mem_nil, or_false] at hc
  rcases hc with rfl | rfl | rfl | rfl | rfl <;> simp [Path.Component.value]
  omega

theorem address_shape (P : Prims) (C : Curve Pt) (d : Nat) :
    Account.address P C d =
      (P.keccak256 (beFixed 32 (C.x (C.mulG d)) ++ beFixed 32 (C.y (C.mulG d)))).drop 12 := by
  have h : (Account.publicUncompressed C d).drop 1 =
      beFixed 32 (C.x (C.mulG d)) ++ beFixed 32 (C.y (C.mulG d)) := by
    rw [(C04.pubkey_spec C d).1]
    simp only [List.cons_append, List.nil_append, List.drop_one, List.tail_cons]
  rw [Account.address, h]

/-- `address --account-index i`: whenever the command prints something, the phrase is a valid
BIP-39 sentence and the output is the EIP-55 text (C04 `eip55_spec`) of the last 20 bytes of
Keccak-256 of the public key of the BIP-32 key at m/44'/60'/0'/0/i of the BIP-39 seed. -/
theorem address_index (X : Ctx Pt) (T : NfkdTable) (hT : C02.AsciiStable T) (hX : X.nfkd = T.nfkd)
    (hL : C03.Lawful X.P X.C) (mn pw : Str) (i : Nat) (hi : i < 2 ^ 31) (out : Bytes)
    (h : address X ⟨mn, pw, .index (decimal i)⟩ = .ok out) :
    Spec.Bip39.Valid X.P.sha256 Wordlist.table (splitWhitespace mn) ∧
    ∃ d, bip32Key X.P X.C (bip39Seed X.P T mn pw) (bip44 i) = some d ∧
      out = line (Account.addressDisplay X.P
        ((X.P.keccak256 (beFixed 32 (X.C.x (X.C.mulG d)) ++ beFixed 32 (X.C.y (X.C.mulG d)))).drop 12)) := by
  unfold address at h
  obtain ⟨d, hd, h⟩ := Res.bind_eq_ok.mp h
  cases h
  obtain ⟨hv, hk⟩ := key_selected X T hT hX hL mn pw _ _ d (C16.selected_path_index i hi).1
    (bip44_lt i hi) hd
  rw [bip44_eq] at hk
  exact ⟨hv, d, hk, by rw [address_shape]⟩

/-- `export --hd-path p`: the 0x-hex of the BIP-32 key along the parsed path -/
theorem export_path (X : Ctx Pt) (T : NfkdTable) (hT : C02.AsciiStable T) (hX : X.nfkd = T.nfkd)
    (hL : C03.Lawful X.P X.C) (mn pw p : Str) (out : Bytes)
    (h : exportKey X ⟨mn, pw, .path p⟩ = .ok out) :
    ∃ path d, Path.parse p = .ok path ∧ (∀ c ∈ path, c.value < 2 ^ 31) ∧
      bip32Key X.P X.C (bip39Seed X.P T mn pw) (path.map C03.childNumber) = some d ∧
      out = hexLine (beFixed 32 d) := by
  unfold exportKey at h
  obtain ⟨d, hd, h⟩ := Res.bind_eq_ok.mp h
  cases h
  obtain ⟨m, path, seed, _, hp, _, _⟩ := C16.private_key_spec X _ d hd
  have hp' : Path.parse p = .ok path := by rw [← C16.selected_path_path p]; exact hp
  have hlt := (C14.accepted_standard p path hp').2
  obtain ⟨_, hk⟩ := key_selected X T hT hX hL mn pw _ path d hp hlt hd
  exact ⟨path, d, hp', hlt, hk, rfl⟩

/-- `sign message`: the printed signature is `0x‖r‖s‖v` of an ECDSA signature by that key over
the EIP-191 digest, with 1 ≤ r < n and 1 ≤ s ≤ n/2 -/
theorem sign_message_default (X : Ctx Pt) (T : NfkdTable) (hT : C02.AsciiStable T) (hX : X.nfkd = T.nfkd)
    (hL : C03.Lawful X.P X.C) (hn : 2 < X.C.n) (mn pw : Str) (msg out : Bytes)
    (h : signMessage X ⟨mn, pw, .default⟩ msg = .ok out) :
    ∃ d σ k, bip32Key X.P X.C (bip39Seed X.P T mn pw) (bip44 0) = some d ∧
      0 < k ∧ k < X.C.n ∧
      Account.signWithNonce X.C d
        (beVal (X.P.keccak256 ([0x19] ++ C10.ascii (chars! "Ethereum Signed Message:\n") ++
          C10.ascii (decimal msg.length) ++ msg))) k = .ok σ ∧
      1 ≤ σ.r ∧ σ.r < X.C.n ∧ 1 ≤ σ.s ∧ σ.s ≤ X.C.n / 2 ∧ out = sigLine σ := by
  obtain ⟨d, σ, hd, _, hσ, hout⟩ := C16.sign_message_is_sign_of_hash X _ msg out h
  obtain ⟨k, hk0, hkn, _, hs⟩ := Account.trySign_nonce_aux X.P X.C d _ σ hσ
  rw [C10.digest_spec] at hs
  obtain ⟨_, hk⟩ := key_selected X T hT hX hL mn pw _ _ d
    (C16.selected_path_index 0 (by omega)).2 (bip44_lt 0 (by omega)) hd
  rw [bip44_eq] at hk
  obtain ⟨h1, h2, h3, h4⟩ := Account.sign_range_aux X.C hn d _ k σ hs
  exact ⟨d, σ, k, hk, hk0, hkn, hs, h1, h2, h3, h4, hout⟩

end Hdw.Props.EndToEnd
