/-
C09 — Typed data that does not conform to its declared types is refused;
C08 (part b) — what is accepted is encoded exactly as EIP-712 `encodeData`/`hashStruct`.

Statements only (helper lemmas live in `HdwModel.Lemmas.TdValue`).
`Hdw.TypedData.encodeValue/structHash/compute` model src/typeddata.rs;
`Hdw.Spec.Eip712.encodeField/hashStruct/digests` are the EIP together with the conformance
relation of the statement (`encodeField … = some _` ⇔ the JSON value is a value of the type,
judged on the exact mathematical value of every literal).

STATUS: `encode_sound`, `structHash_sound`, `compute_sound` are FALSE as first stated (address
spelled `0x0x<40 hex>`, note n3; see `encode_sound_counterexample`); they are proved as `_alt` with
the extra hypothesis `noDoublePrefix`, and with the agreement of the model's and the
specification's `encodeType` as the explicit hypothesis `hT : TdValue.EncodeTypeAgrees types`
(to be discharged by `spec_encodeType_eq`).  Everything else is proved as stated.

PARTIAL: the theorems assume `plainInts` — every JSON *number literal* in the value is an
integer-syntax literal within [-2^63, 2^64), i.e. one that serde_json represents exactly.
Float-syntax and longer literals go through serde_json's binary64 rounding; there the full
statement is FALSE of model and code alike (known finding float-literal-rounding, with the
kernel-checked witnesses in `Props.C13`).  Integers given as strings are unrestricted.
-/
import HdwModel.Model.TypedData
import HdwModel.Spec.Eip712
import HdwModel.Lemmas.TdValue
import HdwModel.Lemmas.EncodeType

namespace Hdw.Props.C09
open Hdw Hdw.Json Hdw.TypedData Hdw.Spec.Eip712

/-- an integer-syntax literal that serde_json classifies as u64 / i64 without rounding -/
def plainLit (n : NumLit) : Bool :=
  n.fracDigits.isNone && n.exp.isNone &&
    (if n.neg then digitsNat n.intDigits ≤ 2 ^ 63 else digitsNat n.intDigits < 2 ^ 64)

mutual
def plainInts : JVal → Bool
  | .num n => plainLit n
  | .arr l => plainIntsList l
  | .obj kv => plainIntsMembers kv
  | _ => true
def plainIntsList : List JVal → Bool
  | [] => true
  | v :: vs => plainInts v && plainIntsList vs
def plainIntsMembers : List (Str × JVal) → Bool
  | [] => true
  | (_, v) :: rest => plainInts v && plainIntsMembers rest
end

mutual
/-- every object has pairwise distinct keys (what `serde_json::Map` guarantees) -/
def uniqueKeys : JVal → Bool
  | .arr l => uniqueKeysList l
  | .obj kv => (kv.map (·.1)).Nodup && uniqueKeysMembers kv
  | _ => true
def uniqueKeysList : List JVal → Bool
  | [] => true
  | v :: vs => uniqueKeys v && uniqueKeysList vs
def uniqueKeysMembers : List (Str × JVal) → Bool
  | [] => true
  | (_, v) :: rest => uniqueKeys v && uniqueKeysMembers rest
end

/-! bridging to the generic node predicate `TdValue.JAll` used by the lemmas -/

theorem plainLit_eq : plainLit = TdValue.plainLit := rfl

theorem plainInts_isJAll : TdValue.IsJAll plainLit (fun _ => true) (fun _ => true)
    plainInts plainIntsList plainIntsMembers := by
  constructor <;> intros <;> simp [plainInts, plainIntsList, plainIntsMembers]

theorem uniqueKeys_isJAll : TdValue.IsJAll (fun _ => true) (fun _ => true)
    (fun kv => decide (TdValue.keys kv).Nodup) uniqueKeys uniqueKeysList uniqueKeysMembers := by
  constructor <;> intros <;> first | rfl | simp [uniqueKeys, uniqueKeysList, uniqueKeysMembers]

/-- the JSON layer really delivers objects with distinct keys -/
theorem dedup_uniqueKeys (v : JVal) : uniqueKeys (Json.dedup v) = true := by
  rw [TdValue.JAll_unique uniqueKeys_isJAll]
  exact TdValue.dedup_unique v

/-- number fields: the code's reading of a plain literal or of any string is the exact integer
the spelling denotes -/
theorem uint_exact (v : JVal) (x : Nat) (hp : plainInts v = true) (h : Ser.uintOfJson v = .ok x) :
    denotesInt? v = some (x : Int) ∧ x < 2 ^ 256 :=
  TdValue.uint_exact v x (fun lit e => by subst e; exact hp) h

theorem int_exact (v : JVal) (x : Int) (hp : plainInts v = true) (h : Ser.intOfJson v = .ok x) :
    denotesInt? v = some x ∧ -(2 ^ 255 : Int) ≤ x ∧ x < (2 ^ 255 : Int) :=
  TdValue.int_exact v x (fun lit e => by subst e; exact hp) h

/-- the string does not start with `0x0x` -/
def noDoublePrefixStr : Str → Bool
  | '0' :: 'x' :: '0' :: 'x' :: _ => false
  | _ => true

theorem noDoublePrefixStr_eq : noDoublePrefixStr = TdValue.noDoublePrefixStr := rfl

mutual
/-- no JSON string in the value starts with a doubled prefix `0x0x` (note n3: `ethaddr` strips a
second `0x`, so the code reads the address `"0x0x<40 hex>"`, which is not a hex string) -/
def noDoublePrefix : JVal → Bool
  | .str s => noDoublePrefixStr s
  | .arr l => noDoublePrefixList l
  | .obj kv => noDoublePrefixMembers kv
  | _ => true
def noDoublePrefixList : List JVal → Bool
  | [] => true
  | v :: vs => noDoublePrefix v && noDoublePrefixList vs
def noDoublePrefixMembers : List (Str × JVal) → Bool
  | [] => true
  | (_, v) :: rest => noDoublePrefix v && noDoublePrefixMembers rest
end

theorem noDoublePrefix_isJAll : TdValue.IsJAll (fun _ => true) TdValue.noDoublePrefixStr
    (fun _ => true) noDoublePrefix noDoublePrefixList noDoublePrefixMembers := by
  constructor <;> intros <;>
    simp [noDoublePrefix, noDoublePrefixList, noDoublePrefixMembers, noDoublePrefixStr_eq]

theorem good_of {v : JVal} (hp : plainInts v = true) (hu : uniqueKeys v = true)
    (hd : noDoublePrefix v = true) : TdValue.Good v = true := by
  rw [TdValue.JAll_unique plainInts_isJAll] at hp
  rw [TdValue.JAll_unique uniqueKeys_isJAll] at hu
  rw [TdValue.JAll_unique noDoublePrefix_isJAll] at hd
  exact TdValue.Good_of v hp hd hu

theorem goodMembers_of {kv : List (Str × JVal)} (hp : plainIntsMembers kv = true)
    (hu : uniqueKeys (.obj kv) = true) (hd : noDoublePrefixMembers kv = true) :
    (TdValue.keys kv).Nodup ∧ TdValue.GoodMembers kv = true := by
  have hu' : (TdValue.keys kv).Nodup ∧ uniqueKeysMembers kv = true := by
    simpa [uniqueKeys, TdValue.keys] using hu
  rw [TdValue.JAllMembers_unique plainInts_isJAll] at hp
  rw [TdValue.JAllMembers_unique uniqueKeys_isJAll] at hu'
  rw [TdValue.JAllMembers_unique noDoublePrefix_isJAll] at hd
  exact ⟨hu'.1, TdValue.GoodMembers_of kv hp hd hu'.2⟩

/-- the code's work-list `encodeType` and the spec's closure-based one agree (proved for C08 in
`Lemmas.EncodeType`) -/
theorem encodeType_agrees (types : Types) : TdValue.EncodeTypeAgrees types :=
  fun name => TypedData.spec_encodeType_agrees types name

/- The three soundness theorems carry the hypothesis `noDoublePrefix`: a first version without it
was refuted by the address spelling `"0x0x<40 hex>"` (note n3: `ethaddr` strips a second `0x`),
which the code accepts and which is not a hex string; see `encode_sound_counterexample`. -/


/-- Soundness of value encoding: whatever the code accepts for a member of kind `k` is a value of
that type in the sense of the statement, and the 32-byte word is the EIP-712 encoding. -/
theorem encode_sound (P : Prims) (types : Types) (fuel : Nat) (k : MemberKind) (v : JVal) (w : Bytes)
    (hp : plainInts v = true) (hu : uniqueKeys v = true) (hd : noDoublePrefix v = true)
    (h : encodeValue P types fuel k v = .ok w) :
    encodeField P.keccak256 types fuel k v = some w :=
  (TdValue.sound_all P types (encodeType_agrees types) fuel).1 k v w (good_of hp hu hd) h

theorem structHash_sound (P : Prims) (types : Types) (fuel : Nat) (name : Str)
    (kv : List (Str × JVal)) (w : Bytes)
    (hp : plainIntsMembers kv = true) (hu : uniqueKeys (.obj kv) = true)
    (hd : noDoublePrefixMembers kv = true)
    (h : structHash P types fuel name kv = .ok w) :
    hashStruct P.keccak256 types fuel name kv = some w :=
  have hg := goodMembers_of hp hu hd
  (TdValue.sound_all P types (encodeType_agrees types) fuel).2.2.1 name kv w hg.2 hg.1 h

/-- Whole documents: an accepted document has a well-formed domain type, conforms to its types
everywhere, and the three digests are the EIP-712 ones. -/
theorem compute_sound (P : Prims) (b : Blob) (d : Digests)
    (hp : plainIntsMembers b.domain = true ∧ plainIntsMembers b.message = true)
    (hu : uniqueKeys (.obj b.domain) = true ∧ uniqueKeys (.obj b.message) = true)
    (hd : noDoublePrefixMembers b.domain = true ∧ noDoublePrefixMembers b.message = true)
    (h : compute P b = .ok d) :
    ∃ fuel, digests P.keccak256 b.types b.primaryType b.domain b.message fuel =
      some (d.domainSeparator, d.messageHash, d.digest) :=
  have hgd := goodMembers_of hp.1 hu.1 hd.1
  have hgm := goodMembers_of hp.2 hu.2 hd.2
  ⟨_, TdValue.compute_sound P b d (encodeType_agrees b.types) hgd.2 hgd.1 hgm.2 hgm.1 h⟩

def doublePrefixWitness : JVal := .str (chars! "0x0x0000000000000000000000000000000000000000")

/-- the excluded case is real: the doubled prefix is accepted by the code but is not a hex string
(this refutes `encode_sound` as originally stated) -/
theorem encode_sound_counterexample :
    plainInts doublePrefixWitness = true ∧ uniqueKeys doublePrefixWitness = true ∧
    (encodeValue ⟨fun _ => [], fun _ => [], fun _ => []⟩ [] 1 .address doublePrefixWitness).isOk = true ∧
    encodeField (fun _ => []) [] 1 .address doublePrefixWitness = none := by
  refine ⟨rfl, rfl, by decide +kernel, by decide +kernel⟩

/-! ### the individual refusals named in the statement (corollaries) -/

/-- uintN: accepted ⇒ the value denotes an integer in [0, 2^N), encoded as a 32-byte word -/
theorem uint_range (P : Prims) (types : Types) (fuel n : Nat) (v : JVal) (w : Bytes)
    (hp : plainInts v = true) (h : encodeValue P types (fuel + 1) (.uint n) v = .ok w) :
    ∃ x : Int, denotesInt? v = some x ∧ 0 ≤ x ∧ x < (2 ^ n : Int) ∧ w = beFixed 32 x.toNat :=
  TdValue.uint_range P types fuel n v w (fun lit e => by subst e; exact hp) h

/-- intN: accepted ⇒ the value denotes an integer in [-2^(N-1), 2^(N-1)), sign-extended -/
theorem int_range (P : Prims) (types : Types) (fuel n : Nat) (v : JVal) (w : Bytes)
    (hp : plainInts v = true) (h : encodeValue P types (fuel + 1) (.int n) v = .ok w) :
    ∃ x : Int, denotesInt? v = some x ∧ -(2 ^ (n - 1) : Int) ≤ x ∧ x < (2 ^ (n - 1) : Int) ∧
      w = twosComplement x :=
  TdValue.int_range P types fuel n v w (fun lit e => by subst e; exact hp) h

/-- bytesN: accepted ⇒ a 0x-hex string of exactly N bytes, left-aligned in the word -/
theorem bytesN_exact (P : Prims) (types : Types) (fuel n : Nat) (v : JVal) (w : Bytes)
    (h : encodeValue P types (fuel + 1) (.bytes (some n)) v = .ok w) :
    ∃ b, hexBytes? v = some b ∧ b.length = n ∧ w = b ++ List.replicate (32 - n) 0 :=
  TdValue.bytesN_exact P types fuel n v w h

/-- fixed-size arrays: accepted ⇒ exactly that many elements -/
theorem fixed_array_size (P : Prims) (types : Types) (fuel n : Nat) (inner : MemberKind) (v : JVal) (w : Bytes)
    (h : encodeValue P types (fuel + 1) (.array inner (some n)) v = .ok w) :
    ∃ elems, v = .arr elems ∧ elems.length = n :=
  TdValue.fixed_array_size P types fuel n inner v w h

/-- structs: accepted ⇒ the type is defined and the object's keys are exactly the declared
member names (none missing, none additional) -/
theorem struct_members_exact (P : Prims) (types : Types) (fuel : Nat) (name : Str) (kv : List (Str × JVal))
    (w : Bytes) (hu : (kv.map (·.1)).Nodup) (h : structHash P types fuel name kv = .ok w) :
    ∃ members, types.get? name = some members ∧ kv.length = members.length ∧
      (∀ m ∈ members, (JVal.get? m.name kv).isSome) ∧ (members.map (·.name)).Nodup :=
  TdValue.struct_members_exact P types fuel name kv w hu h

/-- a reference to an undefined struct type is refused -/
theorem undefined_type_refused (P : Prims) (types : Types) (fuel : Nat) (name : Str) (kv : List (Str × JVal))
    (h : types.get? name = none) : ∃ e, structHash P types (fuel + 1) name kv = .err e :=
  TdValue.undefined_type_refused P types fuel name kv h

mutual
/-- every JSON string in the value is shorter than 2^33 characters (so a `0x` hex string spells
fewer than 2^32 bytes) -/
def shortStrings : JVal → Bool
  | .str s => s.length < 2 ^ 33
  | .arr l => shortStringsList l
  | .obj kv => shortStringsMembers kv
  | _ => true
def shortStringsList : List JVal → Bool
  | [] => true
  | v :: vs => shortStrings v && shortStringsList vs
def shortStringsMembers : List (Str × JVal) → Bool
  | [] => true
  | (_, v) :: rest => shortStrings v && shortStringsMembers rest
end

theorem shortStrings_isJAll : TdValue.IsJAll (fun _ => true) (fun s => decide (s.length < 2 ^ 33))
    (fun _ => true) shortStrings shortStringsList shortStringsMembers := by
  constructor <;> intros <;> first | rfl | simp [shortStrings, shortStringsList, shortStringsMembers]

/-- No panic.  PARTIAL in the hypothesis `shortStrings`: the `bytes.len() as u32` truncation in the
bytesN branch would let a value of 4 GiB + N bytes through to `copy_from_slice`, which panics;
this needs an 8 GiB JSON document.  `hET` (the type-string work-list never runs out of fuel) is
`Props.C08.encodeType_total`. -/
theorem compute_no_panic_partial (P : Prims) (b : Blob)
    (hs : shortStringsMembers b.domain = true ∧ shortStringsMembers b.message = true)
    (hET : ∀ name site, TypedData.encodeType b.types name ≠ .panic site) :
    ∀ site, compute P b ≠ .panic site := by
  intro site
  have hd := hs.1
  have hm := hs.2
  rw [TdValue.JAllMembers_unique shortStrings_isJAll] at hd hm
  exact TdValue.compute_ne_panic P b hd hm hET site

/-! Non-vacuity of the fuel bound: seven nested one-member structs (`T6{T5 a} … T0{string a}`).
Each struct level costs three units of fuel (`encodeValue → structHash → encodeMembers`) but adds
one JSON node, so a fuel of `2 * size + 4` ran out here (the document was reported as a panic);
with `3 * size + 4` it is accepted. -/
def deepTypes : Types :=
  [(chars! "EIP712Domain", [⟨chars! "name", .string⟩]),
   (chars! "T0", [⟨['a'], .string⟩]),
   (chars! "T1", [⟨['a'], .struct (chars! "T0")⟩]),
   (chars! "T2", [⟨['a'], .struct (chars! "T1")⟩]),
   (chars! "T3", [⟨['a'], .struct (chars! "T2")⟩]),
   (chars! "T4", [⟨['a'], .struct (chars! "T3")⟩]),
   (chars! "T5", [⟨['a'], .struct (chars! "T4")⟩]),
   (chars! "T6", [⟨['a'], .struct (chars! "T5")⟩])]

def deepChain : Nat → JVal
  | 0 => .str ['x']
  | n + 1 => .obj [(['a'], deepChain n)]

def deepBlob : Blob :=
  ⟨deepTypes, chars! "T6", [(chars! "name", .str ['x'])], [(['a'], deepChain 6)]⟩

example : (compute ⟨fun _ => [], fun _ => [], fun _ => []⟩ deepBlob).isOk = true := by
  decide +kernel

/-- … and the excluded case is real: a bytesN value whose length is N modulo 2^32 but not N
reaches the panicking `copy_from_slice` (shown on the model with the length abstracted) -/
theorem bytesN_truncation_panics (P : Prims) (types : Types) (n : Nat) (v : JVal) (b : Bytes)
    (hb : Ser.bytesOfJson v = .ok b) (hmod : b.length % 2 ^ 32 = n) (hne : b.length ≠ n) :
    ∃ site, encodeValue P types 1 (.bytes (some n)) v = .panic site :=
  TdValue.bytesN_truncation_panics P types n v b hb hmod hne

/-! Non-vacuity: the witnesses of the two range defects that were repaired. -/
example : ∃ e, encodeValue ⟨fun _ => [], fun _ => [], fun _ => []⟩ [] 1 (.int 8)
    (.num ⟨false, [2, 5, 5], none, none⟩) = .err e :=
  TdValue.exists_err_of_isErr (by decide +kernel)
example : ∃ e, encodeValue ⟨fun _ => [], fun _ => [], fun _ => []⟩ [] 1 (.uint 256)
    (.num ⟨true, [1], none, none⟩) = .err e :=
  TdValue.exists_err_of_isErr (by decide +kernel)
example : encodeValue ⟨fun _ => [], fun _ => [], fun _ => []⟩ [] 1 (.int 8)
    (.num ⟨true, [1, 2, 8], none, none⟩) = .ok (twosComplement (-128)) := by decide +kernel

end Hdw.Props.C09
