/-
C16 — Every command acts on the selected account and prints the standard result.

Statements only (helper lemmas live in `HdwModel.Lemmas.CliCmd`).
`Hdw.Cli.*` models src/cmd.rs and src/cmd/*.rs as functions from (tokenised) options and
input bytes to the bytes printed.  These theorems pin the *composition*: which key is
selected (for every index, not just 0), which digest is signed, what is printed.  What the
components compute is C02 (seed), C03 (derivation), C04 (key/address), C05 (signature),
C06/C08/C10 (digests), C14 (paths), C15 (signature text).
-/
import HdwModel.Model.Cli
import HdwModel.Lemmas.Path
import HdwModel.Lemmas.Signature
import HdwModel.Lemmas.CliCmd
import HdwModel.Props.C14
import HdwModel.Props.C15

namespace Hdw.Props.C16
open Hdw Hdw.Cli
variable {Pt : Type}

/-- `--account-index i` selects `m/44'/60'/0'/0/i` for every `i < 2^31`; no selector means index 0 -/
theorem selected_path_index (i : Nat) (h : i < 2 ^ 31) :
    selectedPath (.index (decimal i)) =
      .ok [.hardened 44, .hardened 60, .hardened 0, .normal 0, .normal i] ∧
    selectedPath .default = .ok [.hardened 44, .hardened 60, .hardened 0, .normal 0, .normal 0] := by
  refine ⟨?_, (C14.for_index 0).1 (by omega)⟩
  rw [selectedPath_index_decimal i (by omega)]
  exact (C14.for_index i).1 h

/-- `--hd-path p` selects exactly the parsed path -/
theorem selected_path_path (p : Str) : selectedPath (.path p) = Path.parse p := by
  rfl

/-- the two selectors cannot be combined; an index that is not a number or not below 2^31 is an error -/
theorem selectors_conflict (i p : Str) :
    (∃ e, selectedPath (.both i p) = .err e) ∧
    (∀ t, parseUInt 64 t = none → ∃ e, selectedPath (.index t) = .err e) ∧
    (∀ t n, parseUInt 64 t = some n → 2 ^ 31 ≤ n → ∃ e, selectedPath (.index t) = .err e) := by
  refine ⟨⟨_, rfl⟩, selectedPath_index_none, fun t n ht hn => ?_⟩
  rw [selectedPath_index_some t n ht]
  exact (C14.for_index n).2 hn

/-- the key every command uses: derive(seed(mnemonic, password), selected path) -/
theorem private_key_spec (X : Ctx Pt) (a : Account) (d : Nat) (h : privateKey X a = .ok d) :
    ∃ m path seed, Mnemonic.fromPhrase X.P a.mnemonic = .ok m ∧ selectedPath a.sel = .ok path ∧
      Mnemonic.seed X.P X.nfkd m a.password = .ok seed ∧ Hdk.derive X.P X.C seed path = .ok d := by
  exact privateKey_ok X a d h

/-- `address`, `export`, `public-key` print the EIP-55 address, the 0x-hex secret and the
0x-hex uncompressed public key of that key, each followed by a newline -/
theorem address_cmd (X : Ctx Pt) (a : Account) (d : Nat) (h : privateKey X a = .ok d) :
    address X a = .ok (line (Account.addressDisplay X.P (Account.address X.P X.C d))) ∧
    exportKey X a = .ok (hexLine (Account.secret d)) ∧
    publicKey X a = .ok (hexLine (Account.publicUncompressed X.C d)) := by
  simp only [address, exportKey, publicKey, h, Res.bind, and_self]

/-- if no key can be selected, nothing is printed by any of the account commands -/
theorem no_key_no_output (X : Ctx Pt) (a : Account) (e : String) (h : privateKey X a = .err e) :
    address X a = .err e ∧ exportKey X a = .err e ∧ publicKey X a = .err e ∧
    (∀ msg, signMessage X a msg = .err e) ∧ (∀ j, signTypedData X a j = .err e) ∧
    (∀ j so al, signTx X a j so al = .err e) := by
  simp only [address, exportKey, publicKey, signMessage, signTypedData, signTx, h, Res.bind,
    implies_true, and_self]

/-- `hash data` prints Keccak-256 of its input; `hash message` the EIP-191 digest -/
theorem hash_cmds (X : Ctx Pt) (data : Bytes) :
    hashData X data = hexLine (X.P.keccak256 data) ∧
    hashMessage X data = hexLine (Message.digest X.P data) := by
  exact ⟨rfl, rfl⟩

/-- `hash typeddata` prints the signing digest, `--message-hash` the message struct hash alone -/
theorem hash_typeddata_cmd (X : Ctx Pt) (json : Bytes) (d : TypedData.Digests)
    (h : TypedData.parseAndCompute X.P json = .ok d) :
    hashTypedData X json false = .ok (hexLine d.digest) ∧
    hashTypedData X json true = .ok (hexLine d.messageHash) := by
  simp only [hashTypedData, h, Res.bind, if_true, Bool.false_eq_true, if_false, and_self]

/-- `sign message` prints the signature, by the selected key, of exactly the digest that
`hash message` prints -/
theorem sign_message_is_sign_of_hash (X : Ctx Pt) (a : Account) (msg out : Bytes)
    (h : signMessage X a msg = .ok out) :
    ∃ d σ, privateKey X a = .ok d ∧ hashMessage X msg = hexLine (Message.digest X.P msg) ∧
      Account.trySign X.P X.C d (Message.digest X.P msg) = .ok σ ∧ out = sigLine σ := by
  unfold signMessage at h
  obtain ⟨d, hd, h⟩ := Res.bind_eq_ok.mp h
  obtain ⟨σ, hσ, h⟩ := Res.bind_eq_ok.mp h
  cases h
  exact ⟨d, σ, hd, rfl, hσ, rfl⟩

/-- `sign typeddata`: same for the EIP-712 digest that `hash typeddata` prints -/
theorem sign_typeddata_is_sign_of_hash (X : Ctx Pt) (a : Account) (json out : Bytes)
    (h : signTypedData X a json = .ok out) :
    ∃ d td σ, privateKey X a = .ok d ∧ TypedData.parseAndCompute X.P json = .ok td ∧
      hashTypedData X json false = .ok (hexLine td.digest) ∧
      Account.trySign X.P X.C d td.digest = .ok σ ∧ out = sigLine σ := by
  unfold signTypedData at h
  obtain ⟨d, hd, h⟩ := Res.bind_eq_ok.mp h
  obtain ⟨td, htd, h⟩ := Res.bind_eq_ok.mp h
  obtain ⟨σ, hσ, h⟩ := Res.bind_eq_ok.mp h
  cases h
  exact ⟨d, td, σ, hd, htd, (hash_typeddata_cmd X json td htd).1, hσ, rfl⟩

/-- `sign transaction`: same for the digest that `hash transaction` prints; full mode prints the
signed transaction bytes, `--signature-only` the signature -/
theorem sign_tx_is_sign_of_hash (X : Ctx Pt) (a : Account) (json out : Bytes) (so allow : Bool)
    (h : signTx X a json so allow = .ok out) :
    ∃ d tx digest σ, privateKey X a = .ok d ∧ Tx.parse json = .ok tx ∧
      Tx.signingMessage X.P tx = .ok digest ∧ hashTx X json none = .ok (hexLine digest) ∧
      Account.trySign X.P X.C d digest = .ok σ ∧
      (so = true → out = sigLine σ) ∧
      (so = false → ∃ enc, Tx.encode tx σ = .ok enc ∧ out = hexLine enc) := by
  obtain ⟨d, tx, digest, σ, hd, htx, hdg, hσ, h1, h2⟩ := signTx_ok X a json out so allow h
  refine ⟨d, tx, digest, σ, hd, htx, hdg, ?_, hσ, h1, h2⟩
  rw [hashTx_none X json tx htx, Res.bind_of_ok hdg]

/-- `sign raw` signs the given 32-byte digest as is -/
theorem sign_raw_cmd (X : Ctx Pt) (a : Account) (text : Str) (out : Bytes) (h : signRaw X a text = .ok out) :
    ∃ dg d σ, parseDigest text = .ok dg ∧ dg.length = 32 ∧ privateKey X a = .ok d ∧
      Account.trySign X.P X.C d dg = .ok σ ∧ out = sigLine σ := by
  unfold signRaw at h
  obtain ⟨dg, hdg, h⟩ := Res.bind_eq_ok.mp h
  obtain ⟨d, hd, h⟩ := Res.bind_eq_ok.mp h
  obtain ⟨σ, hσ, h⟩ := Res.bind_eq_ok.mp h
  cases h
  exact ⟨dg, d, σ, hdg, parseDigest_length hdg, hd, hσ, rfl⟩

/-- C15 pipeline: feeding the text printed by `sign transaction --signature-only` to
`hash transaction --signature` yields Keccak-256 of the bytes `sign transaction` prints in full
mode (for signatures with scalars in [1, n-1], which is what the signer returns: C05 `sign_range`) -/
theorem pipeline (X : Ctx Pt) (json : Bytes) (tx : Tx.Tx) (σ : Sig) (enc : Bytes)
    (hσ : 0 < σ.r ∧ σ.r < secpN ∧ 0 < σ.s ∧ σ.s < secpN)
    (htx : Tx.parse json = .ok tx) (henc : Tx.encode tx σ = .ok enc) :
    hashTx X json (some (Sig.print σ)) = .ok (hexLine (X.P.keccak256 enc)) := by
  rw [hashTx_some X json (Sig.print σ) σ tx (C15.parse_print σ hσ) htx, Res.bind_of_ok henc]

end Hdw.Props.C16
