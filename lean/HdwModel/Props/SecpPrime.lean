/-
The order `n` of the secp256k1 group (and the field prime `p`) are prime: kernel-checked Lucas/Pratt certificates.
This discharges the `[Fact n.Prime]` hypothesis of the C05 theorems for the concrete order the code uses
(`Prim.Secp.n`).  Helper lemmas go to `HdwModel/Lemmas/SecpPrime.lean`.
-/
import HdwModel.Prim.Secp256k1
import HdwModel.Lemmas.SecpPrime
import HdwModel.Props.C05

namespace Hdw.Props.SecpPrime

/-- the group order is prime -/
theorem n_prime : Nat.Prime Hdw.Prim.Secp.n := by
  have h : Hdw.Prim.Secp.n =
      115792089237316195423570985008687907852837564279074904382605163141518161494337 := by
    decide +kernel
  rw [h]
  exact Hdw.Lemmas.SecpPrime.prime_115792089237316195423570985008687907852837564279074904382605163141518161494337

/-- the field characteristic is prime -/
theorem p_prime : Nat.Prime Hdw.Prim.Secp.p := by
  have h : Hdw.Prim.Secp.p =
      115792089237316195423570985008687907853269984665640564039457584007908834671663 := by
    decide +kernel
  rw [h]
  exact Hdw.Lemmas.SecpPrime.prime_115792089237316195423570985008687907853269984665640564039457584007908834671663

/-- the instance the C05 theorems ask for -/
instance : Fact (Nat.Prime Hdw.Prim.Secp.n) := ⟨n_prime⟩

/-- C05's `invMod_spec` at the order the code uses: the model's `k⁻¹ = k^(n-2) mod n` is the inverse in the field
`ZMod n` for the real secp256k1 `n` — no primality hypothesis left. -/
theorem invMod_secp (a : Nat) :
    ((Hdw.Account.invMod a Hdw.Prim.Secp.n : ℕ) : ZMod Hdw.Prim.Secp.n) = ((a : ℕ) : ZMod Hdw.Prim.Secp.n)⁻¹ :=
  Hdw.Props.C05.invMod_spec (n := Hdw.Prim.Secp.n) (by decide +kernel) a

end Hdw.Props.SecpPrime
