/-
C10 — Personal-message digest is the EIP-191 prefixed Keccak-256.

Statements only (helper lemmas live in `HdwModel.Lemmas.*`).
-/
import HdwModel.Model.Message
import HdwModel.Lemmas.Decimal

namespace Hdw.Props.C10
open Hdw Hdw.Message

/-- ASCII bytes of a string -/
def ascii (s : Str) : Bytes := s.map fun c => UInt8.ofNat c.toNat

/-- The digest is Keccak-256 of `0x19 ‖ "Ethereum Signed Message:\n" ‖ decimal(len m) ‖ m`,
for every byte string `m` and every hash function. -/
theorem digest_spec (P : Prims) (m : Bytes) :
    digest P m =
      P.keccak256 ([0x19] ++ ascii (chars! "Ethereum Signed Message:\n") ++ ascii (decimal m.length) ++ m) := by
  simp [digest, preimage, prefixBytes, ascii]

/-- The length field is *the* decimal numeral of the length: digits only, value equal to the
length, no leading zero (or the single digit `0`), and it is the only digit string of that
shape with that value. -/
theorem length_field_canonical (n : Nat) :
    ∃ ds : List Nat, decimal n = ds.map digitChar ∧ (∀ d ∈ ds, d < 10) ∧ digitsValue ds = n ∧
      ds ≠ [] ∧ (ds.head? ≠ some 0 ∨ ds = [0]) ∧
      (∀ ds' : List Nat, (∀ d ∈ ds', d < 10) → ds' ≠ [] → (ds'.head? ≠ some 0 ∨ ds' = [0]) →
        digitsValue ds' = n → ds' = ds) := by
  refine ⟨decDigits n, rfl, decDigits_lt n, decDigits_value n, decDigits_ne_nil n, ?_, ?_⟩
  · by_cases h : n = 0
    · right; subst h; exact decDigits_zero
    · left; exact decDigits_head n h
  · intro ds' h1 h2 h3 h4
    have := decDigits_unique ds' h1 h2 h3
    rw [h4] at this
    exact this

/-- The length field makes the pre-image unambiguous: different messages never share a
pre-image (so the digest identifies the message up to Keccak collisions). -/
theorem preimage_injective (m₁ m₂ : Bytes) (h : preimage m₁ = preimage m₂) : m₁ = m₂ := by
  unfold preimage at h
  have hlen := congrArg List.length h
  simp only [List.length_append, List.length_map, decimal_length] at hlen
  have hl : m₁.length = m₂.length := by
    rcases Nat.lt_trichotomy m₁.length m₂.length with hlt | heq | hgt
    · have := decDigits_length_mono (Nat.le_of_lt hlt); omega
    · exact heq
    · have := decDigits_length_mono (Nat.le_of_lt hgt); omega
  rw [hl] at h
  exact List.append_cancel_left h

/-- non-vacuity / sanity: a concrete pre-image and three length classes -/
example : preimage [104, 105] =
    [0x19] ++ ascii (chars! "Ethereum Signed Message:\n2hi") := by decide +kernel
example : decimal 0 = ['0'] ∧ decimal 12 = ['1', '2'] ∧ decimal 1000000 = chars! "1000000" := by
  decide +kernel

end Hdw.Props.C10
