/-
C04 — Public key and address are the secp256k1 / Keccak-256 images of the secret.

Statements only (helper lemmas live in `HdwModel.Lemmas.Account`).
`Hdw.Account.*` models src/account.rs and src/account/public.rs.
-/
import HdwModel.Model.Account
import HdwModel.Lemmas.Account

namespace Hdw.Props.C04
open Hdw Hdw.Account
variable {Pt : Type}

/-- a 32-byte secret is accepted iff it is in `[1, n-1]`, and then it is that integer -/
theorem new_accepts_iff (C : Curve Pt) (b : Bytes) (hb : b.length = 32) (d : Nat) :
    Account.new C b = .ok d ↔ (d = beVal b ∧ 0 < d ∧ d < C.n) := by
  unfold Account.new
  rw [secretFromSlice_ok_iff]
  constructor
  · rintro ⟨h1, h2, h3, _⟩; exact ⟨h1, h2, h3⟩
  · rintro ⟨h1, h2, h3⟩; exact ⟨h1, h2, h3, by omega, by omega⟩

/-- zero and values not below the order are rejected with an error -/
theorem new_rejects_out_of_range (C : Curve Pt) (b : Bytes) (hb : b.length = 32)
    (h : beVal b = 0 ∨ C.n ≤ beVal b) : ∃ e, Account.new C b = .err e := by
  have _ := hb
  unfold Account.new
  rcases h with h | h
  · exact secretFromSlice_err_of_zero _ _ h
  · exact secretFromSlice_err_of_ge _ _ h

/-- any other length is rejected, or taken as the same big-endian integer — never a different key;
and never a panic -/
theorem new_other_lengths (C : Curve Pt) (b : Bytes) :
    (∀ d, Account.new C b = .ok d → d = beVal b ∧ 0 < d ∧ d < C.n ∧ 24 ≤ b.length ∧ b.length ≤ 32) ∧
    (∀ site, Account.new C b ≠ .panic site) := by
  unfold Account.new
  exact ⟨fun d h => (secretFromSlice_ok_iff _ _ _).1 h, fun site => secretFromSlice_ne_panic _ _ site⟩

/-- the exported secret is the 32-byte big-endian scalar and re-imports to the same key -/
theorem secret_roundtrip (C : Curve Pt) (hn : C.n ≤ 2 ^ 256) (d : Nat) (h0 : 0 < d) (hd : d < C.n) :
    (secret d).length = 32 ∧ Account.new C (secret d) = .ok d := by
  have hv : beVal (secret d) = d := beVal_beFixed_32 (by omega)
  have hl : (secret d).length = 32 := beFixed_length 32 d
  refine ⟨hl, ?_⟩
  unfold Account.new
  have := secretFromSlice_ok_of_32 C.n (secret d) hl (by omega) (by omega)
  rw [this, hv]

/-- the public key is `0x04 ‖ X ‖ Y` of `d·G`, 65 bytes -/
theorem pubkey_spec (C : Curve Pt) (d : Nat) :
    publicUncompressed C d = [0x04] ++ beFixed 32 (C.x (C.mulG d)) ++ beFixed 32 (C.y (C.mulG d)) ∧
    (publicUncompressed C d).length = 65 := by
  constructor
  · simp [publicUncompressed, Curve.uncompressed]
  · simp [publicUncompressed, Curve.uncompressed, beFixed_length]

/-- the address is the last 20 bytes of Keccak-256 of the 64 coordinate bytes -/
theorem address_spec (P : Prims) (C : Curve Pt) (hk : ∀ b, (P.keccak256 b).length = 32) (d : Nat) :
    address P C d =
      (P.keccak256 (beFixed 32 (C.x (C.mulG d)) ++ beFixed 32 (C.y (C.mulG d)))).drop 12 ∧
    (address P C d).length = 20 := by
  have h : (publicUncompressed C d).drop 1 =
      beFixed 32 (C.x (C.mulG d)) ++ beFixed 32 (C.y (C.mulG d)) := by
    simp [publicUncompressed, Curve.uncompressed]
  constructor
  · simp only [address, h]
  · simp [address, hk]

/-- EIP-55: `0x`, then for each of the 2·len hex digits of the address the lower-case digit,
upper-cased exactly when the corresponding nibble of keccak256(lower-case hex ASCII) is ≥ 8 -/
theorem eip55_spec (P : Prims) (addr : Bytes) :
    ∃ body : Str, addressDisplay P addr = ['0', 'x'] ++ body ∧ body.length = 2 * addr.length ∧
      ∀ i, i < body.length →
        body.getD i '0' =
          (if nibbleAt (P.keccak256 ((hexEncode addr).map fun c => UInt8.ofNat c.toNat)) i ≥ 8
           then asciiUpper ((hexEncode addr).getD i '0') else (hexEncode addr).getD i '0') := by
  exact ⟨displayBody P addr, addressDisplay_eq P addr, displayBody_length P addr,
    fun i hi => displayBody_getD P addr i hi⟩

/-- the checksum only changes letter case: the displayed text still spells the address -/
theorem eip55_decodes (P : Prims) (addr : Bytes) :
    hexDecode ((addressDisplay P addr).drop 2) = some addr := by
  rw [addressDisplay_eq]
  exact displayBody_decodes P addr

end Hdw.Props.C04
