/-
C19 — Hex encode and decode are inverse; decoding is lenient only about layout.

Statements only (helper lemmas live in `HdwModel.Lemmas.Hex`).
`Hdw.Cli.hexEncodeCmd` / `hexDecodeCmd` model src/cmd/hex.rs + `permissive_hex` in src/cmd.rs
as functions from stdin bytes to stdout bytes.
-/
import HdwModel.Model.CliHex
import HdwModel.Lemmas.Hex

namespace Hdw.Props.C19
open Hdw Hdw.Cli

/-- `hex decode` applied to the output of `hex encode` returns the original bytes -/
theorem decode_encode (b : Bytes) : hexDecodeCmd (hexEncodeCmd b) = .ok b := by
  exact hexDecodeCmd_hexEncodeCmd b

/-- `hex encode` prints `0x`, two lower-case digits per byte, and a newline -/
theorem encode_format (b : Bytes) :
    ∃ ds : Str, hexEncodeCmd b = Utf8.encode (['0', 'x'] ++ ds ++ ['\n']) ∧ ds.length = 2 * b.length ∧
      (∀ c ∈ ds, c.isDigit ∨ ('a' ≤ c ∧ c ≤ 'f')) ∧ hexDecode ds = some b := by
  refine ⟨hexEncode b, rfl, hexEncode_length b, ?_, hexDecode_hexEncode b⟩
  exact fun c hc => isLowerHex_range (hexEncode_isLowerHex b c hc)

/-- a "layout" of digits `ds`: same digits in either case, optional `0x`, whitespace anywhere -/
inductive Layout (ds : Str) : Str → Prop where
  | mk (cased : Str) (pre : Bool) (spaced : Str)
      (hcase : cased.map Char.toLower = ds.map Char.toLower)
      (hhex : ∀ c ∈ cased, (hexVal? c).isSome)
      (hspaced : spaced.filter (fun c => !isWhitespace c) = (if pre then ['0', 'x'] ++ cased else cased)) :
      Layout ds spaced

/-- every layout of the hex form of `b` decodes to `b` -/
theorem decode_layout_indep (b : Bytes) (s : Str) (h : Layout (hexEncode b) s) :
    permissiveHex s = .ok b := by
  obtain ⟨cased, pre, _, hcase, hhex, hspaced⟩ := h
  apply permissiveHex_ok
  rw [hexDigitsOf_layout hhex hspaced,
    hexDecode_congr_toLower hcase hhex
      (fun c hc => isLowerHex_hexVal (hexEncode_isLowerHex b c hc))]
  exact hexDecode_hexEncode b

/-- an odd number of digits or a character that is neither hex nor whitespace is rejected
(and then nothing is written: the result carries no bytes) -/
theorem decode_rejects (s : Str) (digits : Str)
    (hd : digits = (let t := s.filter (fun c => !isWhitespace c)
                    match stripPrefix ['0', 'x'] t with | some r => r | none => t)) :
    (digits.length % 2 = 1 → ∃ e, permissiveHex s = .err e) ∧
    ((∃ c ∈ digits, hexVal? c = none) → ∃ e, permissiveHex s = .err e) := by
  subst hd
  exact ⟨fun h => permissiveHex_err (hexDecode_odd h), fun h => permissiveHex_err (hexDecode_nonhex h)⟩

/-- whatever decodes, decodes to exactly the bytes the digits spell -/
theorem decode_sound (s : Str) (b : Bytes) (h : permissiveHex s = .ok b) :
    ∃ digits : Str, (let t := s.filter (fun c => !isWhitespace c)
                     digits = match stripPrefix ['0', 'x'] t with | some r => r | none => t) ∧
      digits.length = 2 * b.length ∧ (∀ c ∈ digits, (hexVal? c).isSome) ∧
      (hexEncode b).map Char.toLower = digits.map Char.toLower := by
  have hd := permissiveHex_ok_inv h
  exact ⟨hexDigitsOf s, rfl, hexDecode_length hd, hexDecode_isHex hd, hexDecode_encode_toLower hd⟩

theorem decode_no_panic (data : Bytes) : ∀ site, hexDecodeCmd data ≠ .panic site := by
  exact fun site => hexDecodeCmd_ne_panic data site

/-! Non-vacuity -/
example : hexEncodeCmd [0x00, 0xab, 0xff] = Utf8.encode (chars! "0x00abff\n") := by
  decide +kernel
example : permissiveHex (chars! " 0x00 AB\tfF\n") = .ok [0x00, 0xab, 0xff] := by
  decide +kernel
example : Layout (hexEncode [0x00, 0xab, 0xff]) (chars! " 0x00 AB\tfF\n") := by
  exact Layout.mk (chars! "00ABfF") true _ (by decide +kernel) (by decide +kernel) (by decide +kernel)

end Hdw.Props.C19
