/-
C14 — HD path text is unambiguous: standard indices only, canonical round trip.

Statements only (helper lemmas live in `HdwModel.Lemmas.Path`).
`Hdw.Path.*` is the model of src/hdk/path.rs.
-/
import HdwModel.Model.Path
import HdwModel.Lemmas.Decimal
import HdwModel.Lemmas.Path

namespace Hdw.Props.C14
open Hdw Hdw.Path

/-- every non-empty path with indices below 2^31 prints to text that parses back to it -/
theorem print_parse (p : Path) (hne : p ≠ []) (hlt : ∀ c ∈ p, c.value < 2 ^ 31) :
    parse (print p) = .ok p :=
  Path.parse_print p hne hlt

/-- whatever is accepted has standard indices only and is non-empty -/
theorem accepted_standard (s : Str) (p : Path) (h : parse s = .ok p) :
    p ≠ [] ∧ ∀ c ∈ p, c.value < 2 ^ 31 :=
  Path.parse_ok s p h

/-- the printed form of an accepted path parses to the same path (so it derives the same key) -/
theorem parse_print_parse (s : Str) (p : Path) (h : parse s = .ok p) :
    parse (print p) = .ok p :=
  Path.parse_print p (Path.parse_ok s p h).1 (Path.parse_ok s p h).2

/-- the parser never panics -/
theorem parse_no_panic (s : Str) : ∀ site, parse s ≠ .panic site :=
  fun site => Path.parse_no_panic s site

/-- missing root is rejected -/
theorem rejects_missing_root (s : Str) (h : stripPrefix ['m', '/'] s = none) :
    ∃ e, parse s = .err e := by
  simp only [parse, h]
  exact ⟨_, rfl⟩

/-- a component that is empty, or contains any character other than ASCII digits after an
optional leading `+` and before an optional trailing `'` (so: negative, fractional,
non-numeric), or whose value is 2^31 or more, is rejected — and one bad component rejects
the whole path. -/
theorem rejects_bad_component (pre post : List Str) (bad : Str)
    (hbad : (∃ e, Component.parse bad = .err e))
    (hpre : ∀ w ∈ pre, '/' ∉ w) (hb : '/' ∉ bad) (hpost : ∀ w ∈ post, '/' ∉ w) :
    ∃ e, parse (['m', '/'] ++ joinWith ['/'] (pre ++ [bad] ++ post)) = .err e := by
  have hparse := Path.parse_root_joinWith (pre ++ [bad] ++ post) (by simp) (by
    intro w hw
    simp only [List.mem_append, List.mem_singleton] at hw
    rcases hw with (hw | rfl) | hw
    · exact hpre w hw
    · exact hb
    · exact hpost w hw)
  simp only [List.cons_append, List.nil_append, hparse]
  exact Path.parseAll_bad pre post bad hbad

theorem component_rejects (s : Str) :
    (s = [] → ∃ e, Component.parse s = .err e) ∧
    (∀ c ∈ s, c ≠ '+' → c ≠ '\'' → isAsciiDigit c = false → ∃ e, Component.parse s = .err e) ∧
    (∀ v (hard : Bool), Component.parse s = .ok (if hard then .hardened v else .normal v) → v < 2 ^ 31) := by
  refine ⟨?_, ?_, ?_⟩
  · rintro rfl
    exact Component.parse_nil
  · intro c hc h1 h2 h3
    rcases Component.parse_ok_or_err s with ⟨k, hk⟩ | he
    · rcases Component.parse_ok_chars s k hk c hc with h | h | h
      · exact absurd h h1
      · exact absurd h h2
      · rw [h3] at h; cases h
    · exact he
  · intro v hard h
    have := Component.parse_ok_lt s _ h
    cases hard <;> simpa [Component.value] using this

/-- the default path for account index `i` is `m/44'/60'/0'/0/i` for every `i < 2^31`,
and an error (never a panic) for larger indices -/
theorem for_index (i : Nat) :
    (i < 2 ^ 31 → forIndex i = .ok [.hardened 44, .hardened 60, .hardened 0, .normal 0, .normal i]) ∧
    (2 ^ 31 ≤ i → ∃ e, forIndex i = .err e) := by
  refine ⟨fun h => ?_, Path.forIndex_big i⟩
  rw [Path.forIndex_eq]
  apply Path.parse_print _ (by simp)
  intro c hc
  simp only [List.mem_cons, List.not_mem_nil, or_false] at hc
  rcases hc with rfl | rfl | rfl | rfl | rfl <;> simp [Component.value] <;> omega

/-- canonical text prints back identically -/
theorem canonical_form (p : Path) (hne : p ≠ []) (hlt : ∀ c ∈ p, c.value < 2 ^ 31) :
    ∀ q, parse (print p) = .ok q → print q = print p := by
  intro q hq
  rw [Path.parse_print p hne hlt] at hq
  cases hq
  rfl

/-! Non-vacuity -/
example : parse (chars! "m/44'/60'/0'/0/7") =
    .ok [.hardened 44, .hardened 60, .hardened 0, .normal 0, .normal 7] := by
  decide +kernel
example : ∃ e, parse (chars! "m/2147483648'") = .err e :=
  Path.exists_err_of_isErr _ (by decide +kernel)
example : ∃ e, parse (chars! "m/1//2") = .err e :=
  Path.exists_err_of_isErr _ (by decide +kernel)

end Hdw.Props.C14
