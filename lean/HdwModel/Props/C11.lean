/-
C11 — Chain replay protection is never dropped silently.

Statements only (helper lemmas live in `HdwModel.Lemmas.Tx` / `HdwModel.Lemmas.Cli`).
`Hdw.Sig.v` models `Signature::v` (checked 256-bit arithmetic), `Hdw.Cli.signTx` the
`sign transaction` command of src/cmd/sign.rs.
-/
import HdwModel.Model.Cli
import HdwModel.Spec.Tx
import HdwModel.Lemmas.Tx
import HdwModel.Lemmas.Cli

namespace Hdw.Props.C11
open Hdw Hdw.Tx Hdw.Spec.Tx
variable {Pt : Type}

/-- `v = 35 + 2c + yParity` exactly as an integer whenever it fits 256 bits, `27 + yParity`
without a chain id; it never wraps: the only other outcome is a (checked-build) panic, exactly
when the integer does not fit -/
theorem v_exact (σ : Sig) :
    σ.v none = .ok (27 + σ.yParity) ∧
    (∀ c, 35 + 2 * c + σ.yParity < 2 ^ 256 → σ.v (some c) = .ok (35 + 2 * c + σ.yParity)) ∧
    (∀ c, 2 ^ 256 ≤ 35 + 2 * c + σ.yParity → ∃ site, σ.v (some c) = .panic site) := by
  exact ⟨sig_v_none σ, sig_v_some_ok σ, sig_v_some_panic σ⟩

/-- every chain id that deserialisation lets through is one for which `v` fits, for both
parities: so no accepted legacy transaction can make `v` overflow -/
theorem accepted_chain_fits (c : Nat) (h : c ≤ maxLegacyChainId) (σ : Sig) :
    35 + 2 * c + σ.yParity < 2 ^ 256 := by
  exact maxLegacyChainId_fits c h σ.yParity (yParity_le σ)

/-- and the bound is tight: the next chain id overflows with parity 1 -/
theorem bound_tight : 2 ^ 256 ≤ 35 + 2 * (maxLegacyChainId + 1) + 1 := by
  exact maxLegacyChainId_tight

/-- the guard: a legacy transaction without chain id is refused unless the override flag is
given — whatever the key, the output mode and the rest of the transaction -/
theorem guard (X : Cli.Ctx Pt) (a : Cli.Account) (json : Bytes) (so : Bool)
    (n gp g : Nat) (to : Option Bytes) (v : Nat) (d : Bytes)
    (h : Hdw.Tx.parse json = .ok (.legacy none n gp g to v d)) :
    (∃ e, Cli.signTx X a json so false = .err e) ∨ (∃ e, Cli.privateKey X a = .err e) ∨
      (∃ s, Cli.privateKey X a = .panic s) := by
  exact Cli.signTx_guard X a json so n gp g to v d h

/-- with the flag, `v` is 27 or 28 -/
theorem flag_v (σ : Sig) : σ.v none = .ok 27 ∨ σ.v none = .ok 28 := by
  rw [sig_v_none σ]; unfold Sig.yParity; cases σ.odd <;> simp

/-- the chain id is bound into what is signed: the legacy signing payload decodes to a tail
`(c, 0, 0)`, the typed ones have `c` as first field (see also `C06.decode_signing`) -/
theorem chain_in_preimage (c n gp g : Nat) (to : Option Bytes) (v : Nat) (d : Bytes)
    (hwf : WellFormed (.legacy (some c) n gp g to v d)) (hc : c ≤ maxLegacyChainId) :
    decode (signingPayload (.legacy (some c) n gp g to v d)) = some (.legacy n gp g to v d (some ⟨c, 0, 0⟩)) := by
  exact decode_signingPayload _ hwf

/-- changing only the chain id changes the signing payload (so a signature for one chain never
covers the same transaction on another, up to Keccak collisions) -/
theorem preimage_injective_in_chain (c₁ c₂ n gp g : Nat) (to : Option Bytes) (v : Nat) (d : Bytes)
    (h₁ : WellFormed (.legacy (some c₁) n gp g to v d)) (h₂ : WellFormed (.legacy (some c₂) n gp g to v d))
    (b₁ : c₁ ≤ maxLegacyChainId) (b₂ : c₂ ≤ maxLegacyChainId) (hne : c₁ ≠ c₂) :
    signingPayload (.legacy (some c₁) n gp g to v d) ≠ signingPayload (.legacy (some c₂) n gp g to v d) := by
  intro h
  have := signingPayload_injective _ _ h₁ h₂ h
  injection this with h' ; exact hne (Option.some.inj h')

/-- the emitted legacy `v` determines the chain id: `35 + 2c + y` with `y ≤ 1` is injective in `c` -/
theorem v_determines_chain (c₁ c₂ y₁ y₂ : Nat) (h₁ : y₁ ≤ 1) (h₂ : y₂ ≤ 1)
    (h : 35 + 2 * c₁ + y₁ = 35 + 2 * c₂ + y₂) : c₁ = c₂ ∧ y₁ = y₂ := by
  omega

end Hdw.Props.C11
