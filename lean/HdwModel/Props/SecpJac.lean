/-
The FAST secp256k1 arithmetic of `HdwModel/Prim/Secp256k1.lean` (Jacobian coordinates; what the
compiled driver runs) computes the group law of the curve `y² = x³ + 7` over `ZMod p`, i.e. the
same thing as the verified affine arithmetic `addA` / `mulA` of `HdwModel/Prim/SecpAffine.lean`
(`Hdw.Props.SecpInstance.addA_sound`, `mulA_sound`, `mulG_exec`).  So the fast code no longer has
to be trusted.

* `JacOk J`: the invariant of the Jacobian code, `z < p` (the code tests `z == 0` on `Nat`, and all
  triples it produces have a reduced `z`) and the affine image `J.toAffine` is on the curve.
  No hypothesis is needed on `x` and `y` (they need not be reduced modulo `p`).
* `jac_double_sound`, `jac_add_sound`, `jac_mul_sound`: the invariant is preserved and the result
  denotes (`toPoint ∘ toAffine`) the double / sum / multiple, in Mathlib's group
  `WeierstrassCurve.Affine.Point`, of what the arguments denote.  All the special cases of the
  code (infinity, `y = 0`, equal or opposite points in `add`) are covered.
* `secp_mul_sound`, `secp_add_sound`, `secp_mulG_sound`, `secp_mulG_eq_mulA`, `secp_mulG_exec`:
  the affine interface used by the driver.

The proofs are in `HdwModel/Lemmas/SecpJac.lean`.
-/
import HdwModel.Lemmas.SecpJac

namespace Hdw.Props.SecpJac
open Hdw.Prim.Secp (p n gx gy Jac Pt)
open WeierstrassCurve.Affine
open Hdw.Lemmas.SecpInstance (addA mulA toPoint onCurveA W secpCurve Grp)
open Hdw.Lemmas.SecpJac (JRep)

/-- invariant of the Jacobian code: `z` is reduced modulo `p` and the affine image is on the
curve (the point at infinity, `z = 0`, counts as on the curve) -/
abbrev JacOk (J : Jac) : Prop := Hdw.Lemmas.SecpJac.JacOk J

theorem JacOk_def (J : Jac) : JacOk J ↔ (J.z < p ∧ onCurveA J.toAffine = true) := Iff.rfl

/-- the point at infinity satisfies the invariant -/
theorem jacOk_inf : JacOk Jac.inf := Hdw.Lemmas.SecpJac.jrep_inf.ok.1

/-- `ofAffine` of an on-curve point (coordinates need not be reduced) satisfies the invariant and
denotes the same point -/
theorem jac_ofAffine_sound (A : Pt) (h : onCurveA A = true) :
    JacOk (Jac.ofAffine A) ∧ toPoint (Jac.ofAffine A).toAffine = toPoint A :=
  Hdw.Lemmas.SecpJac.jacOk_ofAffine h

/-- `Jac.double` is doubling in the group of the curve -/
theorem jac_double_sound {J : Jac} (h : JacOk J) :
    JacOk J.double ∧ toPoint J.double.toAffine = toPoint J.toAffine + toPoint J.toAffine :=
  (Hdw.Lemmas.SecpJac.jrep_double h.jrep).ok

/-- `Jac.add` is the group law of the curve (all special cases included) -/
theorem jac_add_sound {P Q : Jac} (hP : JacOk P) (hQ : JacOk Q) :
    JacOk (P.add Q) ∧ toPoint (P.add Q).toAffine = toPoint P.toAffine + toPoint Q.toAffine :=
  (Hdw.Lemmas.SecpJac.jrep_add hP.jrep hQ.jrep).ok

/-- `Jac.mul` is scalar multiplication in the group of the curve, for every `k` -/
theorem jac_mul_sound (k : ℕ) {P : Jac} (hP : JacOk P) :
    JacOk (Jac.mul k P) ∧ toPoint (Jac.mul k P).toAffine = k • toPoint P.toAffine :=
  (Hdw.Lemmas.SecpJac.jrep_mul hP.jrep k).ok

/-- `Secp.mul` (affine in, affine out) is scalar multiplication -/
theorem secp_mul_sound (k : ℕ) (P : Pt) (h : onCurveA P = true) :
    toPoint (Hdw.Prim.Secp.mul k P) = k • toPoint P :=
  (Hdw.Lemmas.SecpJac.rep_secp_mul (Hdw.Lemmas.SecpInstance.rep_toPoint h) k).toPoint_eq

theorem secp_mul_onCurve (k : ℕ) (P : Pt) (h : onCurveA P = true) :
    onCurveA (Hdw.Prim.Secp.mul k P) = true :=
  (Hdw.Lemmas.SecpJac.rep_secp_mul (Hdw.Lemmas.SecpInstance.rep_toPoint h) k).onCurve

/-- `Secp.add` (affine in, affine out) is the group law -/
theorem secp_add_sound (P Q : Pt) (hP : onCurveA P = true) (hQ : onCurveA Q = true) :
    toPoint (Hdw.Prim.Secp.add P Q) = toPoint P + toPoint Q :=
  (Hdw.Lemmas.SecpJac.rep_secp_add (Hdw.Lemmas.SecpInstance.rep_toPoint hP)
    (Hdw.Lemmas.SecpInstance.rep_toPoint hQ)).toPoint_eq

theorem secp_add_onCurve (P Q : Pt) (hP : onCurveA P = true) (hQ : onCurveA Q = true) :
    onCurveA (Hdw.Prim.Secp.add P Q) = true :=
  (Hdw.Lemmas.SecpJac.rep_secp_add (Hdw.Lemmas.SecpInstance.rep_toPoint hP)
    (Hdw.Lemmas.SecpInstance.rep_toPoint hQ)).onCurve

/-- `Secp.mulG k` is `k • G`, for every `k` -/
theorem secp_mulG_sound (k : ℕ) :
    toPoint (Hdw.Prim.Secp.mulG k) = k • Hdw.Lemmas.SecpInstance.Gpt := by
  rw [Hdw.Prim.Secp.mulG, Hdw.Prim.Secp.G,
    secp_mul_sound k _ Hdw.Lemmas.SecpInstance.onCurveA_G,
    Hdw.Lemmas.SecpInstance.rep_G.toPoint_eq]

/-- the fast generator multiplication agrees with the verified affine one -/
theorem secp_mulG_eq_mulA (k : ℕ) (hk : k < 2 ^ 256) :
    toPoint (Hdw.Prim.Secp.mulG k) = toPoint (mulA 256 k (some (gx, gy))) := by
  rw [Hdw.Prim.Secp.mulG, Hdw.Prim.Secp.G,
    secp_mul_sound k _ Hdw.Lemmas.SecpInstance.onCurveA_G,
    Hdw.Lemmas.SecpInstance.mulA_sound Hdw.Lemmas.SecpInstance.onCurveA_G 256 k hk]

/-- … hence with `secpCurve.mulG` of the model (`Hdw.Props.SecpInstance.mulG_exec`) -/
theorem secp_mulG_exec (k : ℕ) :
    ((secpCurve.mulG k : Grp) : W.Point) = toPoint (Hdw.Prim.Secp.mulG k) := by
  rw [Hdw.Lemmas.SecpInstance.coe_mulG, secp_mulG_sound]

end Hdw.Props.SecpJac
