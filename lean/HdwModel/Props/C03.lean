/-
C03 — Derived keys equal BIP-32 CKDpriv along the whole path.

Statements only (helper lemmas live in `HdwModel.Lemmas.Hdk`).
`Hdw.Hdk.derive` models src/hdk.rs; `Hdw.Spec.Bip32.*` is the standard.
Hash functions and the curve are parameters.
-/
import HdwModel.Model.Hdk
import HdwModel.Spec.Bip32
import HdwModel.Lemmas.Hdk

namespace Hdw.Props.C03
open Hdw Hdw.Hdk Hdw.Spec.Bip32
variable {Pt : Type}

/-- BIP-32 child number of a path component: hardened children are numbered from 2^31 -/
def childNumber : Path.Component → Nat
  | .hardened v => v + 2 ^ 31
  | .normal v => v

/-- the only facts about the primitives the proofs need: SHA-512 outputs 64 bytes, and the
group order fits 256 bits -/
structure Lawful (P : Prims) (C : Curve Pt) : Prop where
  sha512_len : ∀ b, (P.sha512 b).length = 64
  n_pos : 1 < C.n
  n_le : C.n ≤ 2 ^ 256

/-- BIP-32 derivation that additionally treats `parse256(I_L) = 0` as invalid — the single
point where the code (through `SecretKey::from_slice`) is stricter than the standard -/
def ckdPrivStrict (hmac512 : Bytes → Bytes → Bytes) (serP : Nat → Bytes) (n : Nat) (par : XPrv) (i : Nat) :
    Option XPrv :=
  let I := if i ≥ 2 ^ 31 then hmac512 par.c ([0x00] ++ Spec.Bip32.ser256 par.k ++ Spec.Bip32.ser32 i)
           else hmac512 par.c (serP par.k ++ Spec.Bip32.ser32 i)
  if parse256 (I.take 32) = 0 then none else ckdPriv hmac512 serP n par i

def deriveFromStrict (hmac512 : Bytes → Bytes → Bytes) (serP : Nat → Bytes) (n : Nat) :
    XPrv → List Nat → Option XPrv
  | x, [] => some x
  | x, i :: is =>
    match ckdPrivStrict hmac512 serP n x i with
    | some x' => deriveFromStrict hmac512 serP n x' is
    | none => none

def deriveStrict (hmac512 : Bytes → Bytes → Bytes) (serP : Nat → Bytes) (n : Nat) (seed : Bytes)
    (cns : List Nat) : Option Nat :=
  match master hmac512 n seed with
  | some m => (deriveFromStrict hmac512 serP n m cns).map (·.k)
  | none => none

/-! the local definitions coincide with the copies used in `HdwModel.Lemmas.Hdk` -/

theorem childNumber_eq : childNumber = childNum := by
  funext c; cases c <;> rfl

theorem ckdPrivStrict_eq (hmac512 : Bytes → Bytes → Bytes) (serP : Nat → Bytes) (n : Nat) (x : XPrv)
    (i : Nat) : ckdPrivStrict hmac512 serP n x i = ckdStrict hmac512 serP n x i := rfl

theorem deriveFromStrict_eq (hmac512 : Bytes → Bytes → Bytes) (serP : Nat → Bytes) (n : Nat) :
    ∀ (cns : List Nat) (x : XPrv),
      deriveFromStrict hmac512 serP n x cns = deriveFromS hmac512 serP n x cns
  | [], _ => rfl
  | i :: is, x => by
    rw [deriveFromStrict, deriveFromS, ckdPrivStrict_eq]
    cases ckdStrict hmac512 serP n x i with
    | none => rfl
    | some x' => exact deriveFromStrict_eq hmac512 serP n is x'

theorem deriveStrict_eq (hmac512 : Bytes → Bytes → Bytes) (serP : Nat → Bytes) (n : Nat) (seed : Bytes)
    (cns : List Nat) : deriveStrict hmac512 serP n seed cns = deriveS hmac512 serP n seed cns := by
  unfold deriveStrict deriveS
  cases master hmac512 n seed with
  | none => rfl
  | some m => simp only [deriveFromStrict_eq]

/-- the strict variant only ever removes results: whatever it yields, BIP-32 yields -/
theorem strict_sound (hmac512 : Bytes → Bytes → Bytes) (serP : Nat → Bytes) (n : Nat) (seed : Bytes)
    (cns : List Nat) (k : Nat) (h : deriveStrict hmac512 serP n seed cns = some k) :
    derive hmac512 serP n seed cns = some k := by
  rw [deriveStrict_eq] at h
  exact deriveS_sound hmac512 serP n seed cns k h

/-- The code computes exactly the (strict) BIP-32 derivation, for every seed and every path with
indices below 2^31: same key when there is one, an ordinary error otherwise. -/
theorem derive_eq_strict (P : Prims) (C : Curve Pt) (hL : Lawful P C) (seed : Bytes) (path : Path.Path)
    (hlt : ∀ c ∈ path, c.value < 2 ^ 31) :
    (Hdk.derive P C seed path).toOption =
      deriveStrict (Mnemonic.hmacSha512 P) (fun k => C.compressed (C.mulG k)) C.n seed (path.map childNumber) ∧
    (∀ site, Hdk.derive P C seed path ≠ .panic site) := by
  rw [deriveStrict_eq, childNumber_eq]
  exact derive_spec_S P C hL.sha512_len hL.n_pos hL.n_le seed path hlt

/-- Hence: derivation yields exactly the BIP-32 key or an error — never a different key. -/
theorem derive_spec (P : Prims) (C : Curve Pt) (hL : Lawful P C) (seed : Bytes) (path : Path.Path)
    (hlt : ∀ c ∈ path, c.value < 2 ^ 31) (k : Nat) (h : Hdk.derive P C seed path = .ok k) :
    derive (Mnemonic.hmacSha512 P) (fun k => C.compressed (C.mulG k)) C.n seed (path.map childNumber) = some k := by
  have h1 := (derive_eq_strict P C hL seed path hlt).1
  rw [h] at h1
  exact strict_sound _ _ _ _ _ k h1.symm

/-- the hardened bit OR-ed into an index below 2^31 is the BIP-32 child number -/
theorem hardened_bit (v : Nat) (h : v < 2 ^ 31) : (v ||| hardenedBit) % 2 ^ 32 = v + 2 ^ 31 := by
  exact or_hardenedBit v h

end Hdw.Props.C03
