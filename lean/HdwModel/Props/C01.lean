/-
C01 — Mnemonic phrases and entropy are in exact BIP-39 correspondence.

Statements only (helper lemmas live in `HdwModel.Lemmas.Wordlist` / `HdwModel.Lemmas.Mnemonic`).
`Hdw.Mnemonic.*` / `Hdw.Wordlist.*` model src/mnemonic.rs and src/mnemonic/wordlist.rs;
`Hdw.Spec.Bip39.*` is the standard.  `Hdw.Gen.wordBytes` is regenerated from the
repository's english.txt on every run, so `table_facts` is re-checked by the kernel against
what the file says now.
-/
import HdwModel.Model.Mnemonic
import HdwModel.Spec.Bip39
import HdwModel.Spec.Bip39English
import HdwModel.Lemmas.Wordlist
import HdwModel.Lemmas.Mnemonic

namespace Hdw.Props.C01
open Hdw Hdw.Mnemonic Hdw.Spec.Bip39

/-- The embedded table: 2048 words, strictly increasing in byte order (the precondition of the
code's `binary_search`, and hence no duplicates), all bytes lower-case ASCII letters. -/
theorem table_facts :
    Hdw.Gen.wordBytes.length = 2048 ∧
    List.Pairwise (fun a b : List UInt8 => a < b) Hdw.Gen.wordBytes ∧
    (∀ w ∈ Hdw.Gen.wordBytes, w ≠ [] ∧ ∀ b ∈ w, 97 ≤ b.toNat ∧ b.toNat ≤ 122) := by
  exact ⟨Wordlist.wordBytes_length, Wordlist.wordBytes_sorted, Wordlist.wordBytes_alpha⟩

set_option maxRecDepth 1000000 in
/-- The embedded table is the BIP-39 English list (the committed reference copy, SHA-256
2f5eed53…dbda), word for word.  Re-checked by the kernel against the regenerated table on every
run: replacing, adding or removing a word in the repository's english.txt breaks this. -/
theorem table_is_bip39 : Hdw.Gen.wordBytes = Hdw.Spec.Bip39.englishBytes := by decide +kernel

/-- lookup and indexing are mutually inverse on the table -/
theorem search_spec (w : Str) (i : Nat) :
    Wordlist.search w = some i ↔ Wordlist.table[i]? = some w := by
  exact Wordlist.search_iff w i

theorem word_spec (i : Nat) (h : i < 2048) :
    ∃ w, Wordlist.word i = .ok w ∧ Wordlist.table[i]? = some w ∧ Wordlist.search w = some i := by
  exact Wordlist.word_ok i h

/-- A phrase is accepted iff its whitespace-separated words form a valid BIP-39 sentence. -/
theorem accept_iff (P : Prims) (s : Str) :
    (∃ m, fromPhrase P s = .ok m) ↔ Valid P.sha256 Wordlist.table (splitWhitespace s) := by
  constructor
  · rintro ⟨m, hm⟩
    obtain ⟨ent, hv, _⟩ := fromPhrase_sound P s m hm
    exact ⟨ent, hv⟩
  · rintro ⟨ent, hv⟩
    exact ⟨_, fromPhrase_complete P s ent hv⟩

/-- Everything else is an ordinary error: the parser never panics. -/
theorem reject_is_err (P : Prims) (s : Str)
    (h : ¬ Valid P.sha256 Wordlist.table (splitWhitespace s)) : ∃ e, fromPhrase P s = .err e := by
  rcases fromPhrase_no_panic P s with ⟨m, hm⟩ | he
  · obtain ⟨ent, hv, _⟩ := fromPhrase_sound P s m hm
    exact absurd ⟨ent, hv⟩ h
  · exact he

/-- For an accepted phrase the stored entropy is the one BIP-39 assigns to the words. -/
theorem entropy_spec (P : Prims) (s : Str) (m : Mnemonic) (h : fromPhrase P s = .ok m) :
    ∃ ent, ValidWith P.sha256 Wordlist.table (splitWhitespace s) ent ∧
      m.len = ent.length ∧ m.buf = mkBuf P ent := by
  obtain ⟨ent, hv, rfl⟩ := fromPhrase_sound P s m h
  exact ⟨ent, hv, rfl, rfl⟩

/-- The entropy of a valid sentence is unique (so "the" entropy above is well defined). -/
theorem entropy_unique (sha : Bytes → Bytes) (ws : List Str) (e₁ e₂ : Bytes)
    (h₁ : ValidWith sha Wordlist.table ws e₁) (h₂ : ValidWith sha Wordlist.table ws e₂) : e₁ = e₂ := by
  exact validWith_unique sha ws e₁ e₂ h₁ h₂

/-- The printed form is the same words joined by single spaces; the reported length is the
word count. -/
theorem print_spec (P : Prims) (s : Str) (m : Mnemonic) (h : fromPhrase P s = .ok m) :
    toPhrase m = .ok (joinWith [' '] (splitWhitespace s)) ∧
    mnemonicLength m = (splitWhitespace s).length := by
  obtain ⟨ent, hv, rfl⟩ := fromPhrase_sound P s m h
  exact toPhrase_spec P ent _ hv

/-- Parsing and printing are mutually inverse for every entropy of the five sizes. -/
theorem parse_print (P : Prims) (ent : Bytes)
    (hlen : ent.length = 16 ∨ ent.length = 20 ∨ ent.length = 24 ∨ ent.length = 28 ∨ ent.length = 32) :
    ∃ phrase, toPhrase ⟨mkBuf P ent, ent.length⟩ = .ok phrase ∧
      fromPhrase P phrase = .ok ⟨mkBuf P ent, ent.length⟩ ∧
      ValidWith P.sha256 Wordlist.table (splitWhitespace phrase) ent := by
  exact parse_print_lemma P ent hlen

/-- Only the words matter, not the whitespace layout. -/
theorem layout_indep (P : Prims) (s₁ s₂ : Str) (h : splitWhitespace s₁ = splitWhitespace s₂) :
    fromPhrase P s₁ = fromPhrase P s₂ := by
  simp only [fromPhrase, h]

/-- word counts other than 12/15/18/21/24 are errors -/
theorem bad_count_rejected (P : Prims) (s : Str) (h : ¬ validLength (splitWhitespace s).length) :
    ∃ e, fromPhrase P s = .err e := by
  exact ⟨_, fromPhrase_bad P s h⟩

/-! Non-vacuity: the 12-word all-zero-entropy vector ("abandon" ×11 + "about") for a hash whose
first byte has top nibble 0x3 (SHA-256 of sixteen zero bytes starts 0x37). -/
example : ∃ m, fromPhrase ⟨fun _ => [0x37], fun _ => [], fun _ => []⟩
    (chars! "abandon abandon abandon abandon abandon abandon abandon abandon abandon abandon abandon about")
    = .ok m := by
  apply exists_ok_of_isOk
  decide +kernel

end Hdw.Props.C01
