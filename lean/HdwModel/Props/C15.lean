/-
C15 — Printed signatures parse back (text form).  The sign | hash pipeline part of C15
is decided by the correspondence check against the real binary.

Statements only (helper lemmas live in `HdwModel.Lemmas.Hex` / `HdwModel.Lemmas.Signature`).
`Hdw.Sig.*` is the model of src/account/signature.rs.
-/
import HdwModel.Model.Signature
import HdwModel.Lemmas.Hex
import HdwModel.Lemmas.Signature

namespace Hdw.Props.C15
open Hdw Hdw.Sig

/-- a signature as the signer produces it: both scalars in `[1, n-1]` -/
def WellFormed (σ : Sig) : Prop := 0 < σ.r ∧ σ.r < secpN ∧ 0 < σ.s ∧ σ.s < secpN

/-- the text is `0x`, 64 hex digits of r, 64 of s, two of v = 27 + yParity -/
theorem print_format (σ : Sig) (h : WellFormed σ) :
    ∃ rd sd vd : Str, print σ = ['0', 'x'] ++ rd ++ sd ++ vd ∧
      rd.length = 64 ∧ sd.length = 64 ∧ vd.length = 2 ∧
      hexDecode rd = some (beFixed 32 σ.r) ∧ hexDecode sd = some (beFixed 32 σ.s) ∧
      hexDecode vd = some [UInt8.ofNat (27 + σ.yParity)] ∧
      (∀ c ∈ rd ++ sd ++ vd, c.isDigit ∨ ('a' ≤ c ∧ c ≤ 'f')) := by
  have _ := h  -- the format does not depend on well-formedness
  exact print_format_aux σ

/-- parsing the printed form returns an equal signature -/
theorem parse_print (σ : Sig) (h : WellFormed σ) : parse (print σ) = .ok σ := by
  exact parse_of_body h (bodyOf_print σ)

/-- …also without the `0x` prefix -/
theorem parse_print_no_prefix (σ : Sig) (h : WellFormed σ) :
    parse ((print σ).drop 2) = .ok σ := by
  exact parse_of_body h (bodyOf_print_drop σ)

/-- the parser never panics -/
theorem parse_no_panic (s : Str) : ∀ site, parse s ≠ .panic site := by
  exact fun site => parse_ne_panic s site

/-- whatever is accepted is a well-formed signature whose v byte was 27 or 28, and the text
was (after an optional `0x`) exactly 130 hex digits spelling r, s, v -/
theorem parse_sound (s : Str) (σ : Sig) (h : parse s = .ok σ) :
    WellFormed σ ∧
    ∃ body : Str, (s = body ∨ s = ['0', 'x'] ++ body) ∧ body.length = 130 ∧
      hexDecode body = some (beFixed 32 σ.r ++ beFixed 32 σ.s ++ [UInt8.ofNat (27 + σ.yParity)]) := by
  exact parse_sound_body h

/-- hence: wrong length, non-hex, v other than 27/28, r or s zero or not below the group
order are all errors -/
theorem parse_rejects (s : Str) (body : Str)
    (hbody : body = (match stripPrefix ['0', 'x'] s with | some r => r | none => s)) :
    (body.length ≠ 130 → ∃ e, parse s = .err e) ∧
    (hexDecode body = none → ∃ e, parse s = .err e) ∧
    (∀ b, hexDecode body = some b → b.length = 65 →
      ((b.drop 64).headD 0 ≠ 27 ∧ (b.drop 64).headD 0 ≠ 28) → ∃ e, parse s = .err e) ∧
    (∀ b, hexDecode body = some b → b.length = 65 →
      (beVal (b.take 32) = 0 ∨ secpN ≤ beVal (b.take 32) ∨
       beVal ((b.drop 32).take 32) = 0 ∨ secpN ≤ beVal ((b.drop 32).take 32)) →
      ∃ e, parse s = .err e) := by
  subst hbody
  exact parse_rejects_body s

/-! Non-vacuity: the repo's own formatting vector (r = 0x0101…, s = 0x0202…, parity 0). -/
example : WellFormed ⟨0x0101010101010101010101010101010101010101010101010101010101010101,
    0x0202020202020202020202020202020202020202020202020202020202020202, false⟩ := by
  unfold WellFormed secpN
  simp only
  omega
example : print ⟨0x0101010101010101010101010101010101010101010101010101010101010101,
    0x0202020202020202020202020202020202020202020202020202020202020202, false⟩ =
    chars! "0x010101010101010101010101010101010101010101010101010101010101010102020202020202020202020202020202020202020202020202020202020202021b" := by
  decide +kernel

end Hdw.Props.C15
