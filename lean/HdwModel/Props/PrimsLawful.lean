/-
PrimsLawful — the length hypotheses that the C02 / C03 / C04 / C17 / EndToEnd theorems make about
the abstract hash parameters (`Hdw.Prims`) hold for the EXECUTABLE primitives the driver runs
(`Hdw.Prim.real`, built from `Hdw.Prim.sha256`, `Hdw.Prim.sha512`, `Hdw.Prim.keccak256`), and the
order hypotheses of `C03.Lawful` hold for the executable curve (`Hdw.Prim.realCurve`).
Hence those theorems are not vacuous for the instance that is cross-tested against the binary.

Statements only (helper lemmas live in `HdwModel.Lemmas.PrimsLawful`).
The `_real` theorems at the end are instantiations: the same statements as the originals with
`P := Hdw.Prim.real` (and `C := Hdw.Prim.realCurve`) and with the length hypothesis discharged.
-/
import HdwModel.Lemmas.PrimsLawful
import HdwModel.Props.C02
import HdwModel.Props.C03
import HdwModel.Props.C04
import HdwModel.Props.C17

namespace Hdw.Props.PrimsLawful
open Hdw

/-- executable SHA-256 always returns 32 bytes -/
theorem sha256_length (b : Bytes) : (Hdw.Prim.sha256 b).length = 32 :=
  Hdw.Lemmas.PrimsLawful.sha256_length b

/-- executable SHA-512 always returns 64 bytes -/
theorem sha512_length (b : Bytes) : (Hdw.Prim.sha512 b).length = 64 :=
  Hdw.Lemmas.PrimsLawful.sha512_length b

/-- executable Keccak-256 always returns 32 bytes -/
theorem keccak256_length (b : Bytes) : (Hdw.Prim.keccak256 b).length = 32 :=
  Hdw.Lemmas.PrimsLawful.keccak256_length b

/-- the hypotheses of C02.seed_len / C03.Lawful / C04.address_spec hold for the primitives the
driver runs -/
theorem real_sha512_len : ∀ b, (Hdw.Prim.real.sha512 b).length = 64 := sha512_length

theorem real_keccak_len : ∀ b, (Hdw.Prim.real.keccak256 b).length = 32 := keccak256_length

theorem real_sha256_len : ∀ b, (Hdw.Prim.real.sha256 b).length = 32 := sha256_length

/-- C03's `Lawful` for the real primitives and the real curve order -/
theorem c03_lawful_real : Hdw.Props.C03.Lawful Hdw.Prim.real Hdw.Prim.realCurve :=
  ⟨real_sha512_len, Hdw.Lemmas.PrimsLawful.secp_n_pos, Hdw.Lemmas.PrimsLawful.secp_n_le⟩

/-! ### instantiations: theorems that carried a length hypothesis, now without it -/

/-- `C02.seed_len` for the real primitives: the BIP-39 seed has 64 bytes -/
theorem seed_len_real (nfkd : Str → Str) (m : Mnemonic.Mnemonic) (pw : Str) (s : Bytes)
    (h : Mnemonic.seed Hdw.Prim.real nfkd m pw = .ok s) : s.length = 64 :=
  C02.seed_len Hdw.Prim.real real_sha512_len nfkd m pw s h

/-- `C04.address_spec` for the real Keccak-256 (any curve): last 20 bytes of the hash of the
64 coordinate bytes, and the address has 20 bytes -/
theorem address_spec_real {Pt : Type} (C : Curve Pt) (d : Nat) :
    Account.address Hdw.Prim.real C d =
      (Hdw.Prim.real.keccak256
        (beFixed 32 (C.x (C.mulG d)) ++ beFixed 32 (C.y (C.mulG d)))).drop 12 ∧
    (Account.address Hdw.Prim.real C d).length = 20 :=
  C04.address_spec Hdw.Prim.real C real_keccak_len d

/-- `C03.derive_eq_strict` for the real primitives and the real curve -/
theorem derive_eq_strict_real (seed : Bytes) (path : Path.Path)
    (hlt : ∀ c ∈ path, c.value < 2 ^ 31) :
    (Hdk.derive Hdw.Prim.real Hdw.Prim.realCurve seed path).toOption =
      C03.deriveStrict (Mnemonic.hmacSha512 Hdw.Prim.real)
        (fun k => Hdw.Prim.realCurve.compressed (Hdw.Prim.realCurve.mulG k)) Hdw.Prim.realCurve.n
        seed (path.map C03.childNumber) ∧
    (∀ site, Hdk.derive Hdw.Prim.real Hdw.Prim.realCurve seed path ≠ .panic site) :=
  C03.derive_eq_strict Hdw.Prim.real Hdw.Prim.realCurve c03_lawful_real seed path hlt

/-- `C03.derive_spec` for the real primitives and the real curve: derivation yields exactly the
BIP-32 key or an error -/
theorem derive_spec_real (seed : Bytes) (path : Path.Path)
    (hlt : ∀ c ∈ path, c.value < 2 ^ 31) (k : Nat)
    (h : Hdk.derive Hdw.Prim.real Hdw.Prim.realCurve seed path = .ok k) :
    Spec.Bip32.derive (Mnemonic.hmacSha512 Hdw.Prim.real)
      (fun k => Hdw.Prim.realCurve.compressed (Hdw.Prim.realCurve.mulG k)) Hdw.Prim.realCurve.n
      seed (path.map C03.childNumber) = some k :=
  C03.derive_spec Hdw.Prim.real Hdw.Prim.realCurve c03_lawful_real seed path hlt k h

/-- `C17.private_key_no_panic` / `C17.account_cmds_no_panic` for the context the driver runs
(real primitives, real curve, any normaliser) -/
theorem private_key_no_panic_real (nfkd : Str → Str) (a : Cli.Account) :
    C17.NoPanic (Cli.privateKey ⟨Hdw.Prim.real, Hdw.Prim.realCurve, nfkd⟩ a) :=
  C17.private_key_no_panic ⟨Hdw.Prim.real, Hdw.Prim.realCurve, nfkd⟩ a c03_lawful_real

theorem account_cmds_no_panic_real (nfkd : Str → Str) (a : Cli.Account) :
    C17.NoPanic (Cli.address ⟨Hdw.Prim.real, Hdw.Prim.realCurve, nfkd⟩ a) ∧
    C17.NoPanic (Cli.exportKey ⟨Hdw.Prim.real, Hdw.Prim.realCurve, nfkd⟩ a) ∧
    C17.NoPanic (Cli.publicKey ⟨Hdw.Prim.real, Hdw.Prim.realCurve, nfkd⟩ a) :=
  C17.account_cmds_no_panic ⟨Hdw.Prim.real, Hdw.Prim.realCurve, nfkd⟩ a c03_lawful_real

end Hdw.Props.PrimsLawful
