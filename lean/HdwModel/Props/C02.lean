/-
C02 — Wallet seed is the BIP-39 PBKDF2 stretch of phrase and passphrase.

Statements only (helper lemmas live in `HdwModel.Lemmas.Seed`).
`Hdw.Mnemonic.seed` models `Mnemonic::seed` (which normalises the *concatenation*
"mnemonic" + password); `Hdw.NfkdTable.nfkd` is UAX #15 NFKD over an abstract character table.
-/
import HdwModel.Model.Mnemonic
import HdwModel.Model.Nfkd
import HdwModel.Lemmas.Mnemonic
import HdwModel.Lemmas.Seed

namespace Hdw.Props.C02
open Hdw Hdw.Mnemonic

/-- what is assumed of the Unicode table: ASCII characters decompose to themselves and are
starters (true of every Unicode version) -/
def AsciiStable (T : NfkdTable) : Prop := ∀ c : Char, c.toNat < 128 → T.decomp c = [c] ∧ T.ccc c = 0

/-- NFKD leaves an ASCII prefix alone and normalises the rest independently -/
theorem nfkd_ascii_prefix (T : NfkdTable) (hT : AsciiStable T) (a b : Str) (ha : ∀ c ∈ a, c.toNat < 128) :
    T.nfkd (a ++ b) = a ++ T.nfkd b := by
  exact NfkdTable.nfkd_ascii_append T hT a b ha

/-- ASCII text is its own NFKD (so the password, the canonical ASCII sentence, needs no normalising) -/
theorem nfkd_ascii (T : NfkdTable) (hT : AsciiStable T) (a : Str) (ha : ∀ c ∈ a, c.toNat < 128) :
    T.nfkd a = a := by
  exact NfkdTable.nfkd_ascii_self T hT a ha

/-- The seed is PBKDF2-HMAC-SHA512 with 2048 iterations, 64 bytes, password = the printed phrase,
salt = "mnemonic" ‖ NFKD(passphrase) — although the code normalises the concatenation. -/
theorem seed_spec (P : Prims) (T : NfkdTable) (hT : AsciiStable T) (m : Mnemonic) (pw phrase : Str)
    (hph : toPhrase m = .ok phrase) :
    seed P T.nfkd m pw = .ok (Prim.pbkdf2 (Prim.hmac P.sha512 128) 64 (Utf8.encode phrase)
      (Utf8.encode (chars! "mnemonic" ++ T.nfkd pw)) 2048 64) := by
  exact seed_eq P T hT m pw phrase hph

/-- for a parsed phrase the password is the canonical single-space sentence, whatever the
input's whitespace layout -/
theorem seed_of_parsed (P : Prims) (T : NfkdTable) (hT : AsciiStable T) (s pw : Str) (m : Mnemonic)
    (h : fromPhrase P s = .ok m) :
    seed P T.nfkd m pw = .ok (Prim.pbkdf2 (Prim.hmac P.sha512 128) 64
      (Utf8.encode (joinWith [' '] (splitWhitespace s)))
      (Utf8.encode (chars! "mnemonic" ++ T.nfkd pw)) 2048 64) := by
  exact seed_eq P T hT m pw _ (toPhrase_of_parsed P s m h)

/-- the seed depends only on the words … -/
theorem seed_layout_indep (P : Prims) (nfkd : Str → Str) (s₁ s₂ pw : Str) (m₁ m₂ : Mnemonic)
    (h₁ : fromPhrase P s₁ = .ok m₁) (h₂ : fromPhrase P s₂ = .ok m₂)
    (hw : splitWhitespace s₁ = splitWhitespace s₂) : seed P nfkd m₁ pw = seed P nfkd m₂ pw := by
  have e := fromPhrase_layout P s₁ s₂ hw
  rw [h₁, h₂] at e
  rw [Res.ok.inj e]

/-- … and on the normalised passphrase: NFKD-equivalent passphrases give the same seed -/
theorem seed_nfkd_equiv (P : Prims) (T : NfkdTable) (hT : AsciiStable T) (m : Mnemonic) (p₁ p₂ : Str)
    (h : T.nfkd p₁ = T.nfkd p₂) : seed P T.nfkd m p₁ = seed P T.nfkd m p₂ := by
  apply seed_congr_nfkd
  rw [NfkdTable.nfkd_mnemonic_append T hT, NfkdTable.nfkd_mnemonic_append T hT, h]

/-- 64 bytes -/
theorem seed_len (P : Prims) (hP : ∀ b, (P.sha512 b).length = 64) (nfkd : Str → Str) (m : Mnemonic) (pw : Str)
    (s : Bytes) (h : seed P nfkd m pw = .ok s) : s.length = 64 := by
  exact seed_length P hP nfkd m pw s h

/-- canonical ordering really reorders: a non-vacuity example with two combining marks
(classes 230 then 220 after a starter) and a compatibility decomposition -/
example :
    let T : NfkdTable := ⟨fun c => if c = 'é' then ['e', Char.ofNat 0x301] else [c],
                          fun c => if c.toNat = 0x301 then 230 else if c.toNat = 0x316 then 220 else 0⟩
    T.nfkd ['a', 'é', Char.ofNat 0x316, 'b'] = ['a', 'e', Char.ofNat 0x316, Char.ofNat 0x301, 'b'] := by
  decide +kernel

end Hdw.Props.C02
