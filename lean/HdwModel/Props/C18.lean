/-
C18 — Vanity search returns a phrase whose account really has the prefix.

Statements only (helper lemmas live in `HdwModel.Lemmas.Vanity`).
`Hdw.Cli.parsePrefix`, `Prefix.matches`, `vanitySearch` model src/cmd/new.rs.  The schedule
quantifier: every worker thread runs the same search on its own entropy draws and the main
thread prints whichever result arrives first, so it suffices that *every* worker's result has
the property (`vanity_any_worker`); real interleavings are sampled by the check.
-/
import HdwModel.Model.Cli
import HdwModel.Lemmas.Hex
import HdwModel.Lemmas.Vanity

namespace Hdw.Props.C18
open Hdw Hdw.Cli
variable {Pt : Type}

/-- value of the last character as a hex digit, if the digit count is odd -/
def oddNibble (ds : Str) : Option Nat :=
  if ds.length % 2 = 1 then (ds.getLast?).bind hexVal? else none

/-- the prefix parser accepts exactly `0x` followed by hex digits of either case, and reads
them case-insensitively: whole bytes from the digit pairs, plus a trailing nibble if the count
is odd -/
theorem prefix_parse_spec (ds : Str) (p : Prefix) :
    parsePrefix ('0' :: 'x' :: ds) = .ok p ↔
      ((∀ c ∈ ds, (hexVal? c).isSome) ∧
       hexDecode (ds.take (ds.length / 2 * 2)) = some p.bytes ∧ p.nibble = oddNibble ds) := by
  rw [parsePrefix_0x]
  exact parsePrefixDigits_iff ds p

/-- a non-hex character, or a missing `0x`, is refused with an error; the parser never panics -/
theorem prefix_refused (s : Str) :
    (stripPrefix ['0', 'x'] s = none → ∃ e, parsePrefix s = .err e) ∧
    (∀ ds, s = '0' :: 'x' :: ds → (∃ c ∈ ds, hexVal? c = none) → ∃ e, parsePrefix s = .err e) ∧
    (∀ site, parsePrefix s ≠ .panic site) := by
  refine ⟨?_, ?_, ?_⟩
  · intro h
    unfold parsePrefix
    rw [h]
    exact ⟨_, rfl⟩
  · rintro ds rfl h
    exact parsePrefix_nonhex ds h
  · exact parsePrefix_ne_panic s

/-- matching is "the lower-case hex of the address starts with the lower-cased digits" -/
theorem matches_iff (ds : Str) (p : Prefix) (addr : Bytes) (hp : parsePrefix ('0' :: 'x' :: ds) = .ok p) :
    p.matches addr = true ↔ (hexEncode addr).take ds.length = ds.map Char.toLower := by
  rw [parsePrefix_0x] at hp
  exact matches_of_spec ds p addr (parsePrefixDigits_sound ds p hp)

/-- the sequential search: whatever it prints is one of the drawn mnemonics, of the requested
length, and the selected account's address matches the prefix -/
theorem vanity_result (X : Cli.Ctx Pt) (n : Nat) (p : Prefix) (pw : Str) (sel : Selector)
    (stream : List (Option Bytes)) (out : Bytes) (h : vanitySearch X n p pw sel stream = .ok out) :
    ∃ ent ∈ stream, ∃ b m ph d, ent = some b ∧
      Mnemonic.random X.P (fun k => if b.length ≥ k then some (b.take k) else none) n = .ok m ∧
      Mnemonic.toPhrase m = .ok ph ∧ out = line ph ∧
      privateKey X ⟨ph, pw, sel⟩ = .ok d ∧ p.matches (Account.address X.P X.C d) = true := by
  exact vanitySearch_sound X n p pw sel stream out h

/-- whichever worker finishes first: every worker's result has the property -/
theorem vanity_any_worker (X : Cli.Ctx Pt) (n : Nat) (p : Prefix) (pw : Str) (sel : Selector)
    (streams : List (List (Option Bytes))) (winner : Nat) (hw : winner < streams.length) (out : Bytes)
    (h : vanitySearch X n p pw sel (streams.getD winner []) = .ok out) :
    ∃ ph d, out = line ph ∧ privateKey X ⟨ph, pw, sel⟩ = .ok d ∧
      p.matches (Account.address X.P X.C d) = true := by
  have _ := hw
  obtain ⟨_, _, _, _, ph, d, _, _, _, h1, h2, h3⟩ :=
    vanitySearch_sound X n p pw sel _ out h
  exact ⟨ph, d, h1, h2, h3⟩

/-- an entropy failure at any draw ends the search with an error (no phrase is printed) -/
theorem vanity_entropy_failure (X : Cli.Ctx Pt) (n : Nat) (p : Prefix) (pw : Str) (sel : Selector)
    (stream : List (Option Bytes)) (hall : ∀ e ∈ stream, e = none) :
    ∃ e, vanitySearch X n p pw sel stream = .err e := by
  exact vanitySearch_all_none X n p pw sel stream hall

/-! Non-vacuity: the upper-case witness of the repaired defect. -/
example : parsePrefix (chars! "0xAB") = .ok ⟨[0xab], none⟩ ∧ parsePrefix (chars! "0xaB1") = .ok ⟨[0xab], some 1⟩ := by
  decide
example : (⟨[0xab], some 1⟩ : Prefix).matches [0xab, 0x1f, 0x00] = true ∧
    (⟨[0xab], some 1⟩ : Prefix).matches [0xab, 0x2f, 0x00] = false := by
  decide

end Hdw.Props.C18
