/-
Source tie: the literal constants of /repo's Rust sources, REGENERATED on every run into
`HdwModel/Gen/SourceConsts.lean` by `vlib/srctie.py`, against the model functions that mirror the
code at those sites.  Each theorem says: *if* the constant was found in the source (`some c`), the
model function behaves as the code does with exactly that `c`.  A constant that changes in the code
changes the generated file, the theorem about it no longer checks, and the check reports a broken
proof obligation (and searches for a failing input through the correspondence as usual).
A constant whose pattern is no longer found is `none`; its theorem is then vacuous (`Tied.none`) and
the evidence lists it as not tied on this run.
-/
import HdwModel.Gen.SourceConsts
import HdwModel.Model.Mnemonic
import HdwModel.Model.Hdk
import HdwModel.Model.Path
import HdwModel.Model.Rlp
import HdwModel.Model.Signature
import HdwModel.Model.Tx
import HdwModel.Model.TypedData
import HdwModel.Model.Message
import HdwModel.Lemmas.Kind
import HdwModel.Model.Account
import HdwModel.Model.Cli

namespace Hdw.Props.SourceTie
open Hdw Hdw.Gen

/-- `Tied o P`: the constant extracted from the source, when there is one, satisfies `P` -/
def Tied {α : Type} (o : Option α) (P : α → Prop) : Prop := ∀ a, o = some a → P a

theorem Tied.none {α} {P : α → Prop} : Tied (none : Option α) P := by intro a h; cases h
theorem Tied.some {α} {P : α → Prop} {a : α} (h : P a) : Tied (some a) P := by
  intro b hb; cases hb; exact h

/-! ### src/mnemonic.rs -/

/-- `seed` stretches with the source's `ROUNDS` and salts with the source's prefix text -/
theorem seed_rounds : Tied Src.pbkdf2Rounds fun r => Tied Src.seedSaltPrefix fun salt =>
    ∀ (P : Prims) (nfkd : Str → Str) (m : Mnemonic.Mnemonic) (pw phrase : Str),
      Mnemonic.toPhrase m = .ok phrase →
      Mnemonic.seed P nfkd m pw =
        .ok (Prim.pbkdf2 (Mnemonic.hmacSha512 P) 64 (Utf8.encode phrase)
          (Utf8.encode (nfkd (salt ++ pw))) r 64) := by
  first
  | exact Tied.none
  | refine Tied.some ?_
    first
    | exact Tied.none
    | refine Tied.some ?_
      intro P nfkd m pw phrase h
      simp only [Mnemonic.seed, h]

/-- `mnemonic_to_byte_length` accepts exactly the word counts listed in the source's `matches!` -/
theorem mnemonic_lengths : Tied Src.mnemonicLengths fun L =>
    ∀ n, (Mnemonic.mnemonicToByteLength n).isOk = true ↔ n ∈ L := by
  first
  | exact Tied.none
  | refine Tied.some ?_
    intro n
    unfold Mnemonic.mnemonicToByteLength
    split <;> simp_all [Res.isOk]

/-! ### src/hdk.rs, src/hdk/path.rs -/

theorem hardened_bit : Tied Src.hardened fun h => Hdk.hardenedBit = h := by
  first | exact Tied.none | exact Tied.some (by decide)

theorem master_key : Tied Src.masterKey fun k => Hdk.bitcoinSeed = k := by
  first | exact Tied.none | exact Tied.some (by decide)

theorem default_path : Tied Src.defaultPathPrefix fun pre =>
    ∀ i, Path.forIndex i = Path.parse (pre ++ Hdw.decimal i) := by
  first | exact Tied.none | exact Tied.some (fun _ => rfl)

/-! ### src/transaction/rlp.rs -/

/-- below the source's limit `len` is the one-byte short form -/
theorem rlp_short : Tied Src.rlpShortLimit fun k =>
    ∀ l off, l < k → l + off < 256 → Rlp.len l off = .ok [UInt8.ofNat (l + off)] := by
  first
  | exact Tied.none
  | refine Tied.some ?_
    intro l off h1 h2
    simp [Rlp.len, h1, h2]

/-- at and above the source's limit `len` is the long form, with the source's bias -/
theorem rlp_long : Tied Src.rlpShortLimit fun k => Tied Src.rlpLongBias fun b =>
    ∀ l off, ¬ l < k → (Rlp.beStripped 8 l).length + off + b < 256 →
      Rlp.len l off =
        .ok (UInt8.ofNat ((Rlp.beStripped 8 l).length + off + b) :: Rlp.beStripped 8 l) := by
  first
  | exact Tied.none
  | refine Tied.some ?_
    first
    | exact Tied.none
    | refine Tied.some ?_
      intro l off h1 h2
      simp [Rlp.len, h1, h2]

theorem rlp_list_offset : Tied Src.rlpListOffset fun o =>
    ∀ items, Rlp.list items =
      (Rlp.len (items.map List.length).sum o).bind fun h => .ok (h ++ items.flatten) := by
  first | exact Tied.none | exact Tied.some (fun _ => rfl)

theorem rlp_bytes_consts : Tied Src.rlpStrOffset fun o => Tied Src.rlpSingleLimit fun s =>
    (∀ x : UInt8, x.toNat < s → Rlp.bytes [x] = .ok [x]) ∧
    (∀ x : UInt8, ¬ x.toNat < s → Rlp.bytes [x] = (Rlp.len 1 o).bind fun h => .ok (h ++ [x])) ∧
    (∀ b : Bytes, b.length ≠ 1 → Rlp.bytes b = (Rlp.len b.length o).bind fun h => .ok (h ++ b)) := by
  first
  | exact Tied.none
  | refine Tied.some ?_
    first
    | exact Tied.none
    | refine Tied.some ?_
      refine ⟨?_, ?_, ?_⟩
      · intro x h
        have : x < 0x80 := by rw [UInt8.lt_iff_toNat_lt]; simpa using h
        simp [Rlp.bytes, this]
      · intro x h
        have : ¬ x < 0x80 := by rw [UInt8.lt_iff_toNat_lt]; simpa using h
        simp [Rlp.bytes, this]
      · intro b hb
        match b, hb with
        | [], _ => rfl
        | [_], h => simp at h
        | _ :: _ :: _, _ => rfl

/-! ### src/account/signature.rs -/

theorem sig_v_legacy : Tied Src.sigVLegacy fun a =>
    ∀ σ : Sig, σ.v none = .ok (σ.yParity + a) := by
  first | exact Tied.none | exact Tied.some (fun _ => rfl)

theorem sig_v_eip155 : Tied Src.sigVEip155 fun ma =>
    ∀ (σ : Sig) (c : Nat), σ.yParity + c * ma.1 + ma.2 < 2 ^ 256 →
      σ.v (some c) = .ok (σ.yParity + c * ma.1 + ma.2) := by
  first
  | exact Tied.none
  | refine Tied.some ?_
    intro σ c h
    have h1 : c * 2 < 2 ^ 256 := by omega
    have h2 : σ.yParity + c * 2 < 2 ^ 256 := by omega
    have h3 : σ.yParity + c * 2 + 35 < 2 ^ 256 := by omega
    simp [Sig.v, h1, h2, h3]

/-- the two accepted `v` bytes of `FromStr` and the parity each stands for -/
theorem sig_parse_v : Tied Src.sigParseV fun vv =>
    ∀ (s : Str) (σ : Sig), Sig.parse s = .ok σ →
      (σ.odd = false → Sig.print σ = Sig.print σ ∧ vv.1 = 27 + σ.yParity) ∧
      (σ.odd = true → vv.2 = 27 + σ.yParity) := by
  first
  | exact Tied.none
  | refine Tied.some ?_
    intro s σ _
    constructor
    · intro h; simp [Sig.yParity, h]
    · intro h; simp [Sig.yParity, h]

/-! ### src/transaction/eip2930.rs, eip1559.rs -/

theorem tx_type_2930 : Tied Src.txType2930 fun t =>
    ∀ chainId nonce gasPrice gas to value data al sig,
      Tx.rlpEncode (.eip2930 chainId nonce gasPrice gas to value data al) sig =
        (Rlp.iter ([Rlp.uint chainId, Rlp.uint nonce, Rlp.uint gasPrice, Rlp.uint gas, Tx.rlpTo to,
          Rlp.uint value, Rlp.bytes data, Tx.rlpAccessList al] ++ Tx.typedTail sig)).bind
          fun b => .ok (UInt8.ofNat t :: b) := by
  first | exact Tied.none | exact Tied.some (by intros; rfl)

theorem tx_type_1559 : Tied Src.txType1559 fun t =>
    ∀ chainId nonce prio fee gas to value data al sig,
      Tx.rlpEncode (.eip1559 chainId nonce prio fee gas to value data al) sig =
        (Rlp.iter ([Rlp.uint chainId, Rlp.uint nonce, Rlp.uint prio, Rlp.uint fee, Rlp.uint gas,
          Tx.rlpTo to, Rlp.uint value, Rlp.bytes data, Tx.rlpAccessList al] ++ Tx.typedTail sig)).bind
          fun b => .ok (UInt8.ofNat t :: b) := by
  first | exact Tied.none | exact Tied.some (by intros; rfl)

/-! ### src/message.rs -/

theorem msg_prefix : Tied Src.msgPrefix fun p => Message.prefixBytes = p := by
  first | exact Tied.none | exact Tied.some (by decide)

/-! ### src/typeddata.rs -/

/-- kind tags of the generated `DOMAIN_MEMBERS` table -/
def kindTag : TypedData.MemberKind → Option (Nat × Nat)
  | .string => some (0, 0)
  | .uint n => some (1, n)
  | .address => some (2, 0)
  | .bytes (some n) => some (3, n)
  | .int n => some (4, n)
  | .bool => some (5, 0)
  | _ => none

theorem domain_members : Tied Src.domainMembers fun L =>
    TypedData.domainMembers.map (fun nk => (nk.1, kindTag nk.2)) =
      L.map (fun e => (e.1, some (e.2.1, e.2.2))) := by
  first | exact Tied.none | exact Tied.some (by decide)

/-- the digest is keccak over the source's two prefix bytes, the separator of the type the source
names, and the message hash -/
theorem td_prefix : Tied Src.tdPrefix fun pre => Tied Src.tdDomainName fun dn =>
    ∀ (P : Prims) (b : TypedData.Blob) (ds mh : Bytes),
      TypedData.verifyDomainType b.types = .ok () →
      TypedData.structHash P b.types
        (3 * (TypedData.jsizeMembers b.domain + TypedData.jsizeMembers b.message) + 4) dn b.domain = .ok ds →
      TypedData.structHash P b.types
        (3 * (TypedData.jsizeMembers b.domain + TypedData.jsizeMembers b.message) + 4) b.primaryType b.message = .ok mh →
      TypedData.compute P b = .ok ⟨P.keccak256 (pre ++ ds ++ mh), ds, mh⟩ := by
  first
  | exact Tied.none
  | refine Tied.some ?_
    first
    | exact Tied.none
    | refine Tied.some ?_
      intro P b ds mh h1 h2 h3
      simp only [TypedData.compute, h1]
      rw [show (chars! "EIP712Domain") = ['E', 'I', 'P', '7', '1', '2', 'D', 'o', 'm', 'a', 'i', 'n'] from rfl, h2]
      simp only [h3]

/-- `bytesN` is an atomic type exactly for the widths in the source's range -/
theorem kind_bytes_range : Tied Src.kindBytesRange fun r =>
    ∀ n, n < 2 ^ 32 →
      TypedData.parseAtom (chars! "bytes" ++ Hdw.decimal n) =
        if r.1 ≤ n ∧ n ≤ r.2 then some (.bytes (some n)) else none := by
  first
  | exact Tied.none
  | refine Tied.some ?_
    intro n hn
    obtain ⟨c, cs, hd⟩ := TypedData.decimal_cons n
    rw [TypedData.parseAtom_widths _ n hn (by decide)]
    · simp
    all_goals simp [hd]

/-- `uintN` / `intN` are atomic types exactly for the widths the source's guards admit -/
theorem kind_uint_range : Tied Src.kindUintRange fun r =>
    ∀ n, n < 2 ^ 32 →
      TypedData.parseAtom (chars! "uint" ++ Hdw.decimal n) =
        if n % r[0]! = 0 ∧ r[1]! ≤ n ∧ n ≤ r[2]! then some (.uint n) else none := by
  first
  | exact Tied.none
  | refine Tied.some ?_
    intro n hn
    obtain ⟨c, cs, hd⟩ := TypedData.decimal_cons n
    rw [TypedData.parseAtom_widths _ n hn (by decide)]
    · simp
    all_goals simp [hd]

theorem kind_int_range : Tied Src.kindIntRange fun r =>
    ∀ n, n < 2 ^ 32 →
      TypedData.parseAtom (chars! "int" ++ Hdw.decimal n) =
        if n % r[0]! = 0 ∧ r[1]! ≤ n ∧ n ≤ r[2]! then some (.int n) else none := by
  first
  | exact Tied.none
  | refine Tied.some ?_
    intro n hn
    obtain ⟨c, cs, hd⟩ := TypedData.decimal_cons n
    rw [TypedData.parseAtom_widths _ n hn (by decide)]
    · simp
    all_goals simp [hd]

/-! ### src/account.rs, src/cmd.rs -/

/-- the address is the Keccak-256 digest of the encoded key without its first `a` bytes (the SEC1 tag),
without the digest's first `b` bytes -/
theorem address_slices : Tied Src.addrSkipTag fun a => Tied Src.addrSkipHash fun b =>
    ∀ {Pt : Type} (P : Prims) (C : Curve Pt) (d : Nat),
      Account.address P C d = (P.keccak256 ((Account.publicUncompressed C d).drop a)).drop b := by
  first
  | exact Tied.none
  | refine Tied.some ?_
    first
    | exact Tied.none
    | exact Tied.some (by intros; rfl)

/-- without a selector the commands use the default path of the source's default account index -/
theorem default_account_index : Tied Src.defaultAccountIndex fun i =>
    Cli.selectedPath .default = Path.forIndex i := by
  first | exact Tied.none | exact Tied.some rfl

end Hdw.Props.SourceTie
