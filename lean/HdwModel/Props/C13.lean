/-
C13 — Transaction JSON numbers mean exactly the integer written or are rejected.

Statements only (helper lemmas live in `HdwModel.Lemmas.Numbers`).
`Hdw.Ser.uintOfJson` models `serialization::uint` over `serde_json::Value` (number literals
classified by `Hdw.SerdeNum.classify` exactly as serde_json 1.0.140 without `float_roundtrip`
does, on the software binary64 of `Hdw.F64`), `Hdw.Spec.Eip712.strInt?` / `litInt?` give the
exact mathematical value of a spelling.

PARTIAL: the exactness theorems cover integer-syntax literals up to u64::MAX (`int_literal_exact`),
negative literals (`negative_literal_rejected`), all strings (`string_exact`) and byte/address
fields.  For float-syntax literals the full statement is FALSE of model and code alike: serde_json
rounds them to binary64 first.  The three kernel-checked witnesses `float_rounding_cex₁..₃`
are the known finding `float-literal-rounding`.
-/
import HdwModel.Model.Tx
import HdwModel.Spec.Eip712
import HdwModel.Lemmas.Numbers

namespace Hdw.Props.C13
open Hdw Hdw.Json Hdw.Ser Hdw.SerdeNum Hdw.Spec.Eip712

/-- an integer-syntax literal (no fraction, no exponent) -/
def intSyntax (n : NumLit) : Prop := n.fracDigits = none ∧ n.exp = none

/-- A non-negative integer literal up to u64::MAX is accepted with exactly its value. -/
theorem int_literal_exact (n : NumLit) (hs : intSyntax n) (hpos : n.neg = false)
    (hv : digitsNat n.intDigits < 2 ^ 64) :
    uintOfJson (.num n) = .ok (digitsNat n.intDigits) := by
  simp [uintOfJson, Numbers.classify_int_pos n hs.1 hs.2 hpos hv]

/-- A negative integer literal (down to i64::MIN, the range serde_json keeps exact) is rejected —
it is never wrapped to 2^256 − |v|.  (`-0` denotes 0 and is accepted as 0.) -/
theorem negative_literal_rejected (n : NumLit) (hs : intSyntax n) (hneg : n.neg = true)
    (hv : 0 < digitsNat n.intDigits ∧ digitsNat n.intDigits ≤ 2 ^ 63) :
    ∃ e, uintOfJson (.num n) = .err e := by
  exact ⟨"negative number for unsigned integer",
    by simp [uintOfJson, Numbers.classify_int_neg n hs.1 hs.2 hneg hv.1 hv.2]⟩

theorem negative_zero_is_zero :
    uintOfJson (.num ⟨true, [0], none, none⟩) = .ok 0 := by
  decide +kernel

/-- Strings: accepted iff the string spells (optional `+`; `0b`/`0o`/`0x` digits or decimal
digits) an integer below 2^256, and then with exactly that value.  A leading `-` is never
accepted. -/
theorem string_exact (s : Str) (v : Nat) :
    uintOfJson (.str s) = .ok v ↔ (strInt? s = some (v : Int) ∧ v < 2 ^ 256 ∧ s.head? ≠ some '-') := by
  exact Numbers.string_exact s v

/-- decimal strings and `0x` strings in particular: the printed decimal / hex forms of every
`v < 2^256` are accepted as `v` -/
theorem decimal_string_accepted (v : Nat) (h : v < 2 ^ 256) : uintOfJson (.str (decimal v)) = .ok v := by
  exact Numbers.decimal_string_accepted v h

theorem hex_string_accepted (b : Bytes) (h : b ≠ []) (hl : b.length ≤ 32) :
    uintOfJson (.str ('0' :: 'x' :: hexEncode b)) = .ok (beVal b) := by
  exact Numbers.hex_string_accepted b h hl

/-- empty, `0x` without digits, whitespace, signs alone: rejected -/
theorem malformed_strings_rejected :
    (∃ e, uintOfJson (.str []) = .err e) ∧ (∃ e, uintOfJson (.str (chars! "0x")) = .err e) ∧
    (∃ e, uintOfJson (.str (chars! " 1")) = .err e) ∧ (∃ e, uintOfJson (.str (chars! "+")) = .err e) ∧
    (∃ e, uintOfJson (.str (chars! "-1")) = .err e) ∧ (∃ e, uintOfJson (.str (chars! "1.0")) = .err e) ∧
    (∃ e, uintOfJson (.str (chars! "0x10000000000000000000000000000000000000000000000000000000000000000")) = .err e) ∧
    (∃ e, uintOfJson (.str (chars! "115792089237316195423570985008687907853269984665640564039457584007913129639936")) = .err e) := by
  refine ⟨?_, ?_, ?_, ?_, ?_, ?_, ?_, ?_⟩ <;> apply Numbers.exists_err_of_isErr <;> decide +kernel

/-- other JSON kinds are rejected -/
theorem wrong_kind_rejected (v : JVal)
    (h : v = .null ∨ (∃ b, v = .bool b) ∨ (∃ l, v = .arr l) ∨ (∃ kv, v = .obj kv)) :
    ∃ e, uintOfJson v = .err e := by
  rcases h with rfl | ⟨b, rfl⟩ | ⟨l, rfl⟩ | ⟨kv, rfl⟩ <;> exact ⟨_, rfl⟩

/-- whatever is accepted is below 2^256 and the deserialiser never panics -/
theorem uint_range_no_panic (v : JVal) :
    (∀ x, uintOfJson v = .ok x → x < 2 ^ 256) ∧ (∀ site, uintOfJson v ≠ .panic site) := by
  exact ⟨Numbers.uintOfJson_ok_lt v, Numbers.uintOfJson_ne_panic v⟩

/-- byte fields require `0x`-prefixed even-length hex -/
theorem bytes_field (v : JVal) (b : Bytes) :
    bytesOfJson v = .ok b ↔ ∃ h, v = .str ('0' :: 'x' :: h) ∧ hexDecode h = some b := by
  exact Numbers.bytes_field v b

/-- addresses are exactly 20 bytes: `0x` + 40 hex digits (the dependency also tolerates a doubled
`0x0x` prefix — note n3 — which still spells exactly 20 bytes) -/
theorem address_field (v : JVal) (a : Bytes) (h : addressOfJson v = .ok a) :
    a.length = 20 ∧ ∃ hx, hx.length = 40 ∧ hexDecode hx = some a ∧
      (v = .str ('0' :: 'x' :: hx) ∨ v = .str ('0' :: 'x' :: '0' :: 'x' :: hx)) := by
  exact Numbers.address_field v a h

/-- storage keys are exactly 32 bytes -/
theorem storage_key_field (v : JVal) (s : Bytes) (h : byteArrayOfJson 32 v = .ok s) :
    s.length = 32 ∧ ∃ hx, hx.length = 64 ∧ hexDecode hx = some s ∧ v = .str ('0' :: 'x' :: hx) := by
  exact Numbers.storage_key_field v s h

/-- the whole transaction deserialiser never panics -/
theorem parse_no_panic (input : Bytes) : ∀ site, Hdw.Tx.parse input ≠ .panic site := by
  exact Numbers.parse_no_panic input

/-! ### the float path: exact where binary64 is exact, and the counter-examples -/

/-- an integral float literal within binary64's exact range is taken at its value -/
example : uintOfJson (.num ⟨false, [1, 3], some [3, 7], some (false, [9])⟩) = .ok 13370000000 := by
  decide +kernel
example : uintOfJson (.num ⟨false, [2, 5], none, some (true, [1])⟩) = .err "floating point number is not an integer in (-2^53, 2^53)" := by
  decide +kernel

/-- KNOWN FINDING (float-literal-rounding), kernel-checked on the model:
`1.0000000000000001` is accepted as 1 -/
theorem float_rounding_cex₁ :
    uintOfJson (.num ⟨false, [1], some [0, 0, 0, 0, 0, 0, 0, 0, 0, 0, 0, 0, 0, 0, 0, 1], none⟩) = .ok 1 ∧
    litInt? ⟨false, [1], some [0, 0, 0, 0, 0, 0, 0, 0, 0, 0, 0, 0, 0, 0, 0, 1], none⟩ = none := by
  decide +kernel

/-- `1e-400` is accepted as 0 -/
theorem float_rounding_cex₂ :
    uintOfJson (.num ⟨false, [1], none, some (true, [4, 0, 0])⟩) = .ok 0 ∧
    litInt? ⟨false, [1], none, some (true, [4, 0, 0])⟩ = none := by
  decide +kernel

/-- the integral literal `9007199254740991.0` (2^53 − 1) is accepted as 9007199254740990 -/
theorem float_rounding_cex₃ :
    uintOfJson (.num ⟨false, [9, 0, 0, 7, 1, 9, 9, 2, 5, 4, 7, 4, 0, 9, 9, 1], some [0], none⟩) = .ok 9007199254740990 ∧
    litInt? ⟨false, [9, 0, 0, 7, 1, 9, 9, 2, 5, 4, 7, 4, 0, 9, 9, 1], some [0], none⟩ = some 9007199254740991 := by
  decide +kernel

end Hdw.Props.C13
