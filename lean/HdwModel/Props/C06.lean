/-
C06 — Signed transactions are the exact typed encodings and recover to the signer.

Statements only (helper lemmas live in `HdwModel.Lemmas.Tx`).
`Hdw.Tx.*` models src/transaction*.rs; `Hdw.Spec.Tx.*` is EIP-155/2718/2930/1559 as RLP items
plus an independent strict decoder on top of `Spec.Rlp.decodeAll`.
(Recovery of the signer from the decoded signature is C05 `sign_recovers_partial`.)
-/
import HdwModel.Model.Tx
import HdwModel.Spec.Tx
import HdwModel.Lemmas.Rlp
import HdwModel.Lemmas.Tx

namespace Hdw.Props.C06
open Hdw Hdw.Tx Hdw.Spec.Tx

/-- a signature as the signer produces it -/
def SigOk (σ : Sig) : Prop := σ.r < 2 ^ 256 ∧ σ.s < 2 ^ 256

/-- legacy chain ids are bounded at deserialisation (see C11) -/
def ChainOk : Hdw.Tx.Tx → Prop
  | .legacy (some c) .. => c ≤ maxLegacyChainId
  | _ => True

theorem ChainOk.bound {tx : Hdw.Tx.Tx} (h : ChainOk tx) : ChainBound tx := by
  intro c n gp g to v d e; subst e; exact h

/-- the emitted bytes are exactly `[type byte ‖] rlp([fields…, v | yParity, r, s])` -/
theorem encode_spec (tx : Hdw.Tx.Tx) (σ : Sig) (hwf : WellFormed tx) (hσ : SigOk σ) (hc : ChainOk tx) :
    Hdw.Tx.encode tx σ = .ok (signedPayload tx σ.yParity σ.r σ.s) := by
  exact rlpEncode_signed tx σ hwf hσ.1 hσ.2 hc.bound

/-- the digest that is signed is Keccak-256 of the same payload without the signature, with
`(chainId, 0, 0)` appended for legacy transactions that carry a chain id -/
theorem signing_spec (P : Prims) (tx : Hdw.Tx.Tx) (hwf : WellFormed tx) :
    signingMessage P tx = .ok (P.keccak256 (signingPayload tx)) := by
  rw [signingMessage, rlpEncode_unsigned tx hwf]; rfl

/-- an independent strict decoder recovers every field of the signed payload unchanged,
together with `(v | yParity, r, s)` -/
theorem decode_signed (tx : Hdw.Tx.Tx) (y r s : Nat) (hwf : WellFormed tx) (hc : ChainOk tx)
    (hy : y ≤ 1) (hr : r < 2 ^ 256) (hs : s < 2 ^ 256) :
    decode (signedPayload tx y r s) = some (expected tx (some ⟨sigV tx y, r, s⟩)) := by
  exact decode_signedPayload tx y r s hwf hc.bound hy hr hs

/-- … and of the signing payload (whose tail is `(chainId, 0, 0)` or absent) -/
theorem decode_signing (tx : Hdw.Tx.Tx) (hwf : WellFormed tx) (hc : ChainOk tx) :
    decode (signingPayload tx) = some (expected tx (unsignedTail tx)) := by
  exact decode_signingPayload tx hwf

/-- distinct transactions of the same kind never share a signing payload (up to the legacy
chain id, which `unsignedTail` carries) -/
theorem signing_payload_injective (t₁ t₂ : Hdw.Tx.Tx) (h₁ : WellFormed t₁) (h₂ : WellFormed t₂)
    (c₁ : ChainOk t₁) (c₂ : ChainOk t₂) (h : signingPayload t₁ = signingPayload t₂) : t₁ = t₂ := by
  exact signingPayload_injective t₁ t₂ h₁ h₂ h

/-- The kind is EIP-1559 when a fee-market field is present, else EIP-2930 when an access list
is present, else legacy. -/
theorem kind_dispatch (kv : List (Str × Json.JVal)) (tx : Hdw.Tx.Tx) (h : ofJson (.obj kv) = .ok tx) :
    let has (k : Str) := (Json.JVal.get? k kv).isSome
    (has (chars! "maxPriorityFeePerGas") ∨ has (chars! "maxFeePerGas") → ∃ c n p f g to v d al, tx = .eip1559 c n p f g to v d al) ∧
    (¬ (has (chars! "maxPriorityFeePerGas") ∨ has (chars! "maxFeePerGas")) → has (chars! "accessList") →
      ∃ c n gp g to v d al, tx = .eip2930 c n gp g to v d al) ∧
    (¬ (has (chars! "maxPriorityFeePerGas") ∨ has (chars! "maxFeePerGas")) → ¬ has (chars! "accessList") →
      ∃ c n gp g to v d, tx = .legacy c n gp g to v d) := by
  exact ofJson_kind kv tx h

/-- every accepted document yields field values in range: 256-bit numbers, 20-byte addresses,
32-byte storage keys, and a bounded legacy chain id -/
theorem ofJson_ranges (v : Json.JVal) (tx : Hdw.Tx.Tx) (h : ofJson v = .ok tx) :
    ChainOk tx ∧
    (match tx with
     | .legacy c n gp g to v d =>
       (∀ x ∈ c, x < 2 ^ 256) ∧ n < 2 ^ 256 ∧ gp < 2 ^ 256 ∧ g < 2 ^ 256 ∧ (∀ a ∈ to, a.length = 20) ∧ v < 2 ^ 256 ∧ d = d
     | .eip2930 c n gp g to v _ l =>
       c < 2 ^ 256 ∧ n < 2 ^ 256 ∧ gp < 2 ^ 256 ∧ g < 2 ^ 256 ∧ (∀ a ∈ to, a.length = 20) ∧ v < 2 ^ 256 ∧
         ∀ e ∈ l, e.addr.length = 20 ∧ ∀ s ∈ e.slots, s.length = 32
     | .eip1559 c n p f g to v _ l =>
       c < 2 ^ 256 ∧ n < 2 ^ 256 ∧ p < 2 ^ 256 ∧ f < 2 ^ 256 ∧ g < 2 ^ 256 ∧ (∀ a ∈ to, a.length = 20) ∧ v < 2 ^ 256 ∧
         ∀ e ∈ l, e.addr.length = 20 ∧ ∀ s ∈ e.slots, s.length = 32) := by
  obtain ⟨h1, h2⟩ := ofJson_ranges' v tx h
  refine ⟨?_, ?_⟩
  · cases tx with
    | legacy c n gp g to v d =>
      cases c with
      | none => trivial
      | some c => exact h1 c n gp g to v d rfl
    | eip2930 => trivial
    | eip1559 => trivial
  · cases tx <;> exact h2

/-- absent or `null` recipient is the empty string (contract creation) -/
theorem recipient_absent (kv : List (Str × Json.JVal)) (tx : Hdw.Tx.Tx) (h : ofJson (.obj kv) = .ok tx)
    (hto : Json.JVal.get? (chars! "to") kv = none ∨ Json.JVal.get? (chars! "to") kv = some .null) :
    (match tx with
     | .legacy _ _ _ _ to _ _ => to
     | .eip2930 _ _ _ _ to _ _ _ => to
     | .eip1559 _ _ _ _ _ to _ _ _ => to) = none ∧ toItem none = .str [] := by
  have := ofJson_to_absent kv tx h hto
  refine ⟨?_, rfl⟩
  cases tx <;> exact this

end Hdw.Props.C06
