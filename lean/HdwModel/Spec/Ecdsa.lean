/-
ECDSA verification and public-key recovery (SEC 1 v2 §4.1.4, §4.1.6) over an abstract
curve; used as the judge of signatures and as the spec side of the C05 theorems.
-/
import HdwModel.Model.Curve
import HdwModel.Model.Account

namespace Hdw.Spec.Ecdsa
variable {Pt : Type}

/-- verify `(r, s)` on message integer `z` against public key `Q` -/
def verify (C : Curve Pt) (Q : Pt) (z r s : Nat) : Bool :=
  let n := C.n
  if r = 0 ∨ r ≥ n ∨ s = 0 ∨ s ≥ n then false
  else
    let w := Account.invMod s n
    let u1 := (z % n) * w % n
    let u2 := r * w % n
    let R := C.add (C.mulG u1) (C.mul u2 Q)
    !C.isInf R && C.x R % n == r

/-- recover the public key from `(r, s)` and the y-parity bit, assuming `x(R) = r` (i.e. the
x coordinate was not reduced — what Ethereum's ecrecover assumes) -/
def recover (C : Curve Pt) (z r s : Nat) (odd : Bool) : Option Pt :=
  let n := C.n
  if r = 0 ∨ r ≥ n ∨ s = 0 ∨ s ≥ n then none
  else
    match C.lift r odd with
    | none => none
    | some R =>
      let rinv := Account.invMod r n
      let u1 := (n - (z % n)) % n * rinv % n
      let u2 := s * rinv % n
      some (C.add (C.mulG u1) (C.mul u2 R))

end Hdw.Spec.Ecdsa
