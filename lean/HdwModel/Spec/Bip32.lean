/-
BIP-32 "Private parent key → private child key" and "Master key generation",
written from the standard.  `hmac512 key data` is HMAC-SHA512; `point k` is `k·G`
serialised with `serP` (compressed SEC1).
-/
import HdwModel.Model.Basic

namespace Hdw.Spec.Bip32

/-- an extended private key `(k, c)` -/
structure XPrv where
  k : Nat
  c : Bytes
  deriving Repr, DecidableEq

def ser32 (i : Nat) : Bytes := beFixed 4 i
def ser256 (p : Nat) : Bytes := beFixed 32 p
def parse256 (b : Bytes) : Nat := beVal b

/-- CKDpriv((k_par, c_par), i): `i ≥ 2^31` is a hardened child.
Returns `none` where BIP-32 says "the resulting key is invalid". -/
def ckdPriv (hmac512 : Bytes → Bytes → Bytes) (serP : Nat → Bytes) (n : Nat) (par : XPrv) (i : Nat) :
    Option XPrv :=
  let I := if i ≥ 2 ^ 31 then hmac512 par.c ([0x00] ++ ser256 par.k ++ ser32 i)
           else hmac512 par.c (serP par.k ++ ser32 i)
  let IL := I.take 32
  let IR := I.drop 32
  let ki := (parse256 IL + par.k) % n
  if parse256 IL ≥ n ∨ ki = 0 then none else some ⟨ki, IR⟩

/-- master key from seed `S`: `I = HMAC-SHA512(Key = "Bitcoin seed", Data = S)` -/
def master (hmac512 : Bytes → Bytes → Bytes) (n : Nat) (seed : Bytes) : Option XPrv :=
  let I := hmac512 (bytes! "Bitcoin seed") seed
  let IL := I.take 32
  if parse256 IL = 0 ∨ parse256 IL ≥ n then none else some ⟨parse256 IL, I.drop 32⟩

/-- derive along a list of child numbers (already including the 2^31 offset for hardened) -/
def deriveFrom (hmac512 : Bytes → Bytes → Bytes) (serP : Nat → Bytes) (n : Nat) :
    XPrv → List Nat → Option XPrv
  | x, [] => some x
  | x, i :: is =>
    match ckdPriv hmac512 serP n x i with
    | some x' => deriveFrom hmac512 serP n x' is
    | none => none

def derive (hmac512 : Bytes → Bytes → Bytes) (serP : Nat → Bytes) (n : Nat) (seed : Bytes)
    (childNumbers : List Nat) : Option Nat :=
  match master hmac512 n seed with
  | some m => (deriveFrom hmac512 serP n m childNumbers).map (·.k)
  | none => none

end Hdw.Spec.Bip32
