/-
RFC 6979 §3.2 (deterministic nonce) for a 256-bit group order and a 256-bit hash
(qlen = hlen = 256), written from the RFC.  `hmac K V` is HMAC with the chosen hash.
-/
import HdwModel.Model.Basic

namespace Hdw.Spec.Rfc6979

/-- int2octets(x): 32-byte big-endian -/
def int2octets (x : Nat) : Bytes := beFixed 32 x

/-- bits2octets(h) = int2octets(bits2int(h) mod q) (qlen = hlen, so bits2int is the plain value) -/
def bits2octets (q : Nat) (h : Bytes) : Bytes := int2octets (beVal h % q)

/-- step h: generate candidates until one lies in [1, q-1] -/
def candidates (hmac : Bytes → Bytes → Bytes) (q : Nat) : Nat → Bytes → Bytes → Option Nat
  | 0, _, _ => none
  | fuel + 1, K, V =>
    let V := hmac K V                       -- h.2 (one block suffices: tlen = qlen = hlen)
    let k := beVal V                        -- h.3 bits2int
    if 0 < k ∧ k < q then some k
    else
      let K := hmac K (V ++ [0x00])
      candidates hmac q fuel K (hmac K V)

/-- steps a–h for private key `x` and message hash `h1` -/
def nonce (hmac : Bytes → Bytes → Bytes) (q x : Nat) (h1 : Bytes) (fuel : Nat) : Option Nat :=
  let V := List.replicate 32 (0x01 : UInt8)                                   -- b
  let K := List.replicate 32 (0x00 : UInt8)                                   -- c
  let K := hmac K (V ++ [0x00] ++ int2octets x ++ bits2octets q h1)           -- d
  let V := hmac K V                                                           -- e
  let K := hmac K (V ++ [0x01] ++ int2octets x ++ bits2octets q h1)           -- f
  let V := hmac K V                                                           -- g
  candidates hmac q fuel K V                                                  -- h

end Hdw.Spec.Rfc6979
