/-
The three Ethereum transaction encodings as RLP *items* (EIP-155, EIP-2718, EIP-2930,
EIP-1559), and an independent strict decoder built on `Spec.Rlp.decodeAll`.
Written from the EIPs; shares only the `Tx` data type with the model.
-/
import HdwModel.Spec.Rlp
import HdwModel.Model.Tx

namespace Hdw.Spec.Tx
open Hdw Hdw.Spec.Rlp Hdw.Tx

/-- signature part of a signed payload: `(v | yParity, r, s)` -/
structure SigTriple where
  v : Nat
  r : Nat
  s : Nat
  deriving Repr, DecidableEq

def toItem (to : Option Bytes) : Item := .str (to.getD [])

def accessListItem (al : List AccessEntry) : Item :=
  .list (al.map fun e => .list [.str e.addr, .list (e.slots.map Item.str)])

/-- the RLP item of a transaction; `tail` is the signature triple, or for an unsigned legacy
transaction with a chain id the EIP-155 triple `(chainId, 0, 0)` -/
def item (tx : Hdw.Tx.Tx) (tail : Option SigTriple) : Item :=
  let t := match tail with
    | some σ => [ofNat σ.v, ofNat σ.r, ofNat σ.s]
    | none => []
  match tx with
  | .legacy _ nonce gasPrice gas to value data =>
    .list ([ofNat nonce, ofNat gasPrice, ofNat gas, toItem to, ofNat value, .str data] ++ t)
  | .eip2930 chainId nonce gasPrice gas to value data al =>
    .list ([ofNat chainId, ofNat nonce, ofNat gasPrice, ofNat gas, toItem to, ofNat value, .str data,
            accessListItem al] ++ t)
  | .eip1559 chainId nonce prio fee gas to value data al =>
    .list ([ofNat chainId, ofNat nonce, ofNat prio, ofNat fee, ofNat gas, toItem to, ofNat value,
            .str data, accessListItem al] ++ t)

/-- EIP-2718 type byte (none for legacy) -/
def typeByte : Hdw.Tx.Tx → Bytes
  | .legacy .. => []
  | .eip2930 .. => [0x01]
  | .eip1559 .. => [0x02]

/-- what is signed: for legacy with chain id the EIP-155 payload ends in `(chainId, 0, 0)` -/
def unsignedTail : Hdw.Tx.Tx → Option SigTriple
  | .legacy (some c) .. => some ⟨c, 0, 0⟩
  | _ => none

def signingPayload (tx : Hdw.Tx.Tx) : Bytes := typeByte tx ++ encode (item tx (unsignedTail tx))

/-- the `v` of a signed legacy transaction (EIP-155), or `yParity` for typed transactions -/
def sigV (tx : Hdw.Tx.Tx) (yParity : Nat) : Nat :=
  match tx with
  | .legacy (some c) .. => 35 + 2 * c + yParity
  | .legacy none .. => 27 + yParity
  | _ => yParity

def signedPayload (tx : Hdw.Tx.Tx) (yParity r s : Nat) : Bytes :=
  typeByte tx ++ encode (item tx (some ⟨sigV tx yParity, r, s⟩))

/-! ### decoder -/

/-- canonical integer: a string without leading zero byte -/
def natOf? : Item → Option Nat
  | .str b => if b.head? = some 0 then none else some (beVal b)
  | .list _ => none

def strOf? : Item → Option Bytes
  | .str b => some b
  | .list _ => none

def toOf? : Item → Option (Option Bytes)
  | .str [] => some none
  | .str b => if b.length = 20 then some (some b) else none
  | .list _ => none

def slotsOf? : List Item → Option (List Bytes)
  | [] => some []
  | .str b :: rest => if b.length = 32 then (slotsOf? rest).map (b :: ·) else none
  | .list _ :: _ => none

def entriesOf? : List Item → Option (List AccessEntry)
  | [] => some []
  | .list [.str a, .list slots] :: rest =>
    if a.length = 20 then
      match slotsOf? slots, entriesOf? rest with
      | some ss, some es => some (⟨a, ss⟩ :: es)
      | _, _ => none
    else none
  | _ :: _ => none

def accessListOf? : Item → Option (List AccessEntry)
  | .list l => entriesOf? l
  | .str _ => none

def tailOf? : List Item → Option (Option SigTriple)
  | [] => some none
  | [v, r, s] =>
    match natOf? v, natOf? r, natOf? s with
    | some v, some r, some s => some (some ⟨v, r, s⟩)
    | _, _, _ => none
  | _ => none

/-- decoded form: kind, the fields (legacy chain id is not part of the item itself), the tail -/
inductive Decoded where
  | legacy (nonce gasPrice gas : Nat) (to : Option Bytes) (value : Nat) (data : Bytes)
      (tail : Option SigTriple)
  | eip2930 (chainId nonce gasPrice gas : Nat) (to : Option Bytes) (value : Nat) (data : Bytes)
      (al : List AccessEntry) (tail : Option SigTriple)
  | eip1559 (chainId nonce prio fee gas : Nat) (to : Option Bytes) (value : Nat) (data : Bytes)
      (al : List AccessEntry) (tail : Option SigTriple)
  deriving Repr, DecidableEq

/-- strict decoding of a (typed or legacy) transaction payload -/
def decode (b : Bytes) : Option Decoded :=
  match b with
  | 0x01 :: rest =>
    match decodeAll rest with
    | some (.list (c :: n :: gp :: g :: to :: v :: d :: al :: tail)) =>
      match natOf? c, natOf? n, natOf? gp, natOf? g, toOf? to, natOf? v, strOf? d, accessListOf? al, tailOf? tail with
      | some c, some n, some gp, some g, some to, some v, some d, some al, some tail =>
        some (.eip2930 c n gp g to v d al tail)
      | _, _, _, _, _, _, _, _, _ => none
    | _ => none
  | 0x02 :: rest =>
    match decodeAll rest with
    | some (.list (c :: n :: p :: f :: g :: to :: v :: d :: al :: tail)) =>
      match natOf? c, natOf? n, natOf? p, natOf? f, natOf? g, toOf? to, natOf? v, strOf? d, accessListOf? al, tailOf? tail with
      | some c, some n, some p, some f, some g, some to, some v, some d, some al, some tail =>
        some (.eip1559 c n p f g to v d al tail)
      | _, _, _, _, _, _, _, _, _, _ => none
    | _ => none
  | _ =>
    match decodeAll b with
    | some (.list (n :: gp :: g :: to :: v :: d :: tail)) =>
      match natOf? n, natOf? gp, natOf? g, toOf? to, natOf? v, strOf? d, tailOf? tail with
      | some n, some gp, some g, some to, some v, some d, some tail => some (.legacy n gp g to v d tail)
      | _, _, _, _, _, _, _ => none
    | _ => none

/-- what a transaction with a given tail must decode to -/
def expected (tx : Hdw.Tx.Tx) (tail : Option SigTriple) : Decoded :=
  match tx with
  | .legacy _ n gp g to v d => .legacy n gp g to v d tail
  | .eip2930 c n gp g to v d al => .eip2930 c n gp g to v d al tail
  | .eip1559 c n p f g to v d al => .eip1559 c n p f g to v d al tail

/-- field values as the JSON deserialiser can produce them: 256-bit numbers, 20-byte
addresses, 32-byte storage keys, calldata within a `usize` length -/
def WellFormed (tx : Hdw.Tx.Tx) : Prop :=
  let al (l : List AccessEntry) := ∀ e ∈ l, e.addr.length = 20 ∧ ∀ s ∈ e.slots, s.length = 32
  match tx with
  | .legacy c n gp g to v d =>
    (∀ x ∈ c, x < 2 ^ 256) ∧ n < 2 ^ 256 ∧ gp < 2 ^ 256 ∧ g < 2 ^ 256 ∧ (∀ a ∈ to, a.length = 20) ∧
      v < 2 ^ 256 ∧ d.length < 2 ^ 32
  | .eip2930 c n gp g to v d l =>
    c < 2 ^ 256 ∧ n < 2 ^ 256 ∧ gp < 2 ^ 256 ∧ g < 2 ^ 256 ∧ (∀ a ∈ to, a.length = 20) ∧
      v < 2 ^ 256 ∧ d.length < 2 ^ 32 ∧ al l ∧ (encode (accessListItem l)).length < 2 ^ 32
  | .eip1559 c n p f g to v d l =>
    c < 2 ^ 256 ∧ n < 2 ^ 256 ∧ p < 2 ^ 256 ∧ f < 2 ^ 256 ∧ g < 2 ^ 256 ∧ (∀ a ∈ to, a.length = 20) ∧
      v < 2 ^ 256 ∧ d.length < 2 ^ 32 ∧ al l ∧ (encode (accessListItem l)).length < 2 ^ 32

end Hdw.Spec.Tx
