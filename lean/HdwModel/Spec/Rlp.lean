/-
RLP as the Yellow Paper (Appendix B) defines it, with a *strict* decoder that
rejects every non-canonical form.  Written from the standard, not from the code.
-/
import HdwModel.Model.Basic

namespace Hdw.Spec.Rlp

/-- an RLP item: a byte string or a list of items -/
inductive Item where
  | str (b : Bytes)
  | list (l : List Item)
  deriving Repr

/-- length prefix: `off + l` below 56, else `off + 55 + ‖BE(l)‖` followed by `BE(l)` -/
def header (l off : Nat) : Bytes :=
  if l < 56 then [UInt8.ofNat (off + l)]
  else UInt8.ofNat (off + 55 + (beBytes l).length) :: beBytes l

def encStr (b : Bytes) : Bytes :=
  match b with
  | [x] => if x < 0x80 then [x] else header 1 0x80 ++ [x]
  | _ => header b.length 0x80 ++ b

mutual
def encode : Item → Bytes
  | .str b => encStr b
  | .list l => header (encodeList l).length 0xc0 ++ encodeList l
def encodeList : List Item → Bytes
  | [] => []
  | i :: is => encode i ++ encodeList is
end

/-- integers are byte strings without leading zeros (zero is the empty string) -/
def ofNat (n : Nat) : Item := .str (beBytes n)

/-- read a `ll`-byte big-endian length: minimal (no leading zero) and at least 56 -/
def decodeLongLen (ll : Nat) (rest : Bytes) : Option (Nat × Bytes) :=
  if rest.length < ll then none
  else
    let lb := rest.take ll
    if lb.head? = some 0 then none
    else
      let l := beVal lb
      if l < 56 then none else some (l, rest.drop ll)

mutual
/-- strict decoder for one item; returns the item and the unconsumed rest -/
def decode : Nat → Bytes → Option (Item × Bytes)
  | 0, _ => none
  | _ + 1, [] => none
  | fuel + 1, b :: rest =>
    let t := b.toNat
    if t < 0x80 then some (.str [b], rest)
    else if t ≤ 0xb7 then
      let l := t - 0x80
      if rest.length < l then none
      else
        let payload := rest.take l
        -- a single byte below 0x80 must be encoded as itself
        if l = 1 ∧ (payload.headD 0).toNat < 0x80 then none
        else some (.str payload, rest.drop l)
    else if t ≤ 0xbf then
      match decodeLongLen (t - 0xb7) rest with
      | none => none
      | some (l, rest') =>
        if rest'.length < l then none else some (.str (rest'.take l), rest'.drop l)
    else if t ≤ 0xf7 then
      let l := t - 0xc0
      if rest.length < l then none
      else
        match decodeItems fuel (rest.take l) with
        | none => none
        | some items => some (.list items, rest.drop l)
    else
      match decodeLongLen (t - 0xf7) rest with
      | none => none
      | some (l, rest') =>
        if rest'.length < l then none
        else
          match decodeItems fuel (rest'.take l) with
          | none => none
          | some items => some (.list items, rest'.drop l)
/-- decode a payload completely into a sequence of items -/
def decodeItems : Nat → Bytes → Option (List Item)
  | _, [] => some []
  | 0, _ :: _ => none
  | fuel + 1, b :: rest =>
    match decode fuel (b :: rest) with
    | none => none
    | some (it, rest') =>
      match decodeItems fuel rest' with
      | none => none
      | some its => some (it :: its)
end

/-- strict top-level decoding: exactly one item, nothing left over.
One nesting level costs at least one byte and at most two units of fuel, so twice the input
length is always enough fuel (proved: `Props.C07.decodeAll_encode`). -/
def decodeAll (b : Bytes) : Option Item :=
  match decode (2 * b.length) b with
  | some (it, []) => some it
  | _ => none

mutual
/-- every string and list payload is shorter than 2^64 bytes (what a `usize` length can say) -/
def Item.Encodable : Item → Prop
  | .str b => b.length < 2 ^ 64
  | .list l => Item.EncodableList l ∧ (encodeList l).length < 2 ^ 64
def Item.EncodableList : List Item → Prop
  | [] => True
  | i :: is => Item.Encodable i ∧ Item.EncodableList is
end

end Hdw.Spec.Rlp
