/-
BIP-39 ("Generating the mnemonic"), written from the standard:
  ENT ∈ {128,160,192,224,256} bits, CS = ENT/32 bits, MS = (ENT+CS)/11 words;
  the checksum is the first CS bits of SHA-256(entropy); entropy‖checksum is split
  into groups of 11 bits, each the big-endian index of a word.
The bit string entropy‖checksum is represented by the integer it spells.
-/
import HdwModel.Model.Basic

namespace Hdw.Spec.Bip39

/-- the five mnemonic lengths MS -/
def validLength (ms : Nat) : Prop := ms = 12 ∨ ms = 15 ∨ ms = 18 ∨ ms = 21 ∨ ms = 24

/-- CS in bits for an entropy of `entLen` bytes: ENT / 32 -/
def csBits (entLen : Nat) : Nat := entLen * 8 / 32

/-- entropy‖checksum read as one big-endian integer of ENT+CS bits: the entropy bytes
followed by the first CS bits of the first byte of SHA-256(entropy) -/
def encodedInt (sha256 : Bytes → Bytes) (ent : Bytes) : Nat :=
  beVal ent * 2 ^ csBits ent.length + ((sha256 ent).headD 0).toNat / 2 ^ (8 - csBits ent.length)

/-- the `k` least-significant base-2048 digits of `v`, most significant first -/
def digits2048 : Nat → Nat → List Nat
  | 0, _ => []
  | k + 1, v => digits2048 k (v / 2048) ++ [v % 2048]

/-- the word indices of an entropy: (ENT+CS)/11 groups of 11 bits -/
def indices (sha256 : Bytes → Bytes) (ent : Bytes) : List Nat :=
  digits2048 ((ent.length * 8 + csBits ent.length) / 11) (encodedInt sha256 ent)

/-- `ws` is a valid mnemonic sentence for the word table `table`, with entropy `ent` -/
def ValidWith (sha256 : Bytes → Bytes) (table : List Str) (ws : List Str) (ent : Bytes) : Prop :=
  validLength ws.length ∧ ent.length * 3 = ws.length * 4 ∧
    (indices sha256 ent).map (fun i => table[i]?) = ws.map some

def Valid (sha256 : Bytes → Bytes) (table : List Str) (ws : List Str) : Prop :=
  ∃ ent, ValidWith sha256 table ws ent

end Hdw.Spec.Bip39
