/-
EIP-712 (`encodeType`, `encodeData`, `hashStruct`, the `\x19\x01` digest) and what it
means for a JSON value to be a value of a declared type, written from the EIP.
Shares only the *data types* (`MemberKind`, `Member`, `Types`, `JVal`) with the model.
-/
import HdwModel.Model.TypedData

namespace Hdw.Spec.Eip712
open Hdw Hdw.Json Hdw.TypedData

/-! ### encodeType -/

/-- `name` is referenced (directly) by a member of the struct type `from` -/
def Refers (types : Types) (frm name : Str) : Prop :=
  ∃ members, types.get? frm = some members ∧ ∃ m ∈ members, m.kind.structReference = some name

/-- transitively referenced struct types ("the set of referenced struct types is collected") -/
inductive Reachable (types : Types) (primary : Str) : Str → Prop where
  | direct {name} : Refers types primary name → Reachable types primary name
  | step {mid name} : Reachable types primary mid → Refers types mid name → Reachable types primary name

/-- append the names of `new` that are not yet in `known` (each once) -/
def addNew (known : List Str) : List Str → List Str
  | [] => known
  | x :: xs => if known.contains x then addNew known xs else addNew (known ++ [x]) xs

/-- one round of the closure: add everything referenced by a known, defined type.
(Names are added at most once: without this the list doubles every round — the first version
of this definition made the judge run out of memory on a 40-type chain.) -/
def expand (types : Types) (known : List Str) : List Str :=
  addNew known (known.flatMap fun k => match types.get? k with
    | some ms => structReferences ms
    | none => [])

def closure (types : Types) : Nat → List Str → List Str
  | 0, known => known
  | n + 1, known => closure types n (expand types known)

/-- insertion sort by code points, dropping duplicates -/
def insertSorted (k : Str) : List Str → List Str
  | [] => [k]
  | x :: xs => if strLt k x then k :: x :: xs else if k = x then x :: xs else x :: insertSorted k xs

def sortDedup (l : List Str) : List Str := l.foldr insertSorted []

/-- referenced struct types of `primary`: transitive, without `primary`, sorted by name, once each -/
def deps (types : Types) (primary : Str) : List Str :=
  let start := match types.get? primary with
    | some ms => structReferences ms
    | none => []
  sortDedup ((closure types types.length (addNew [] start)).filter (· ≠ primary))

/-- `encodeType`: `None` if the primary type or a referenced type is undefined -/
def encodeType (types : Types) (primary : Str) : Option Str :=
  match types.get? primary with
  | none => none
  | some ms =>
    let ds := deps types primary
    if ds.all (fun d => (types.get? d).isSome) then
      some (typeDefString primary ms ++
        (ds.map fun d => typeDefString d ((types.get? d).getD [])).flatten)
    else none

/-! ### values -/

/-- digits of a radix; `none` on an invalid digit -/
def digitsIn? (radix : Nat) (s : Str) : Option Nat :=
  if s.isEmpty then none else
  s.foldl (fun acc c => match acc, hexVal? c with
    | some a, some d => if d < radix then some (a * radix + d) else none
    | _, _ => none) (some 0)

/-- the integer a string spells: optional sign, then `0b`/`0o`/`0x` digits or decimal digits -/
def strInt? (s : Str) : Option Int :=
  let (neg, body) := match s with
    | '-' :: r => (true, r)
    | '+' :: r => (false, r)
    | _ => (false, s)
  let mag : Option Nat := match body with
    | '0' :: 'b' :: r => digitsIn? 2 r
    | '0' :: 'o' :: r => digitsIn? 8 r
    | '0' :: 'x' :: r => digitsIn? 16 r
    | _ => digitsIn? 10 body
  mag.map fun m => if neg then -(m : Int) else (m : Int)

def digitsNat (ds : List Nat) : Nat := ds.foldl (fun a d => a * 10 + d) 0

/-- the exact mathematical value of a number literal, if it is an integer -/
def litInt? (n : NumLit) : Option Int :=
  let m := digitsNat (n.intDigits ++ n.fracDigits.getD [])
  let fracLen := (n.fracDigits.getD []).length
  let e : Int := (match n.exp with
    | some (eneg, ds) => if eneg then -(digitsNat ds : Int) else (digitsNat ds : Int)
    | none => 0) - fracLen
  let mag : Option Nat :=
    if m = 0 then some 0
    else if e ≥ 0 then some (m * 10 ^ e.toNat)
    else if m % 10 ^ (-e).toNat = 0 then some (m / 10 ^ (-e).toNat) else none
  mag.map fun x => if n.neg then -(x : Int) else (x : Int)

/-- the integer a JSON value denotes -/
def denotesInt? : JVal → Option Int
  | .num n => litInt? n
  | .str s => strInt? s
  | _ => none

/-- `0x`-prefixed hex string → bytes -/
def hexBytes? : JVal → Option Bytes
  | .str ('0' :: 'x' :: h) => hexDecode h
  | _ => none

def twosComplement (v : Int) : Bytes :=
  beFixed 32 (if v ≥ 0 then v.toNat else (2 ^ 256 - (-v).toNat))

mutual
/-- `encodeData` of one member value as a 32-byte word; `none` if the value is not a value of
the type (this is the conformance relation of C09, in executable form) -/
def encodeField (keccak : Bytes → Bytes) (types : Types) : Nat → MemberKind → JVal → Option Bytes
  | 0, _, _ => none
  | fuel + 1, kind, v =>
    match kind with
    | .bool => match v with
      | .bool b => some (beFixed 32 (if b then 1 else 0))
      | _ => none
    | .address =>
      match hexBytes? v with
      | some a => if a.length = 20 then some (List.replicate 12 0 ++ a) else none
      | none => none
    | .uint n =>
      match denotesInt? v with
      | some x => if 0 ≤ x ∧ x < (2 ^ n : Int) then some (beFixed 32 x.toNat) else none
      | none => none
    | .int n =>
      match denotesInt? v with
      | some x => if -(2 ^ (n - 1) : Int) ≤ x ∧ x < (2 ^ (n - 1) : Int) then some (twosComplement x) else none
      | none => none
    | .bytes (some n) =>
      match hexBytes? v with
      | some b => if b.length = n then some (b ++ List.replicate (32 - n) 0) else none
      | none => none
    | .bytes none => (hexBytes? v).map keccak
    | .string => match v with
      | .str s => some (keccak (Utf8.encode s))
      | _ => none
    | .array inner size =>
      match v with
      | .arr elems =>
        if (match size with | some n => elems.length == n | none => true) then
          (encodeFields keccak types fuel inner elems).map keccak
        else none
      | _ => none
    | .struct name =>
      match v with
      | .obj kv => hashStruct keccak types fuel name kv
      | _ => none
def encodeFields (keccak : Bytes → Bytes) (types : Types) : Nat → MemberKind → List JVal → Option Bytes
  | _, _, [] => some []
  | 0, _, _ :: _ => none
  | fuel + 1, inner, v :: vs =>
    match encodeField keccak types fuel inner v, encodeFields keccak types fuel inner vs with
    | some b, some bs => some (b ++ bs)
    | _, _ => none
/-- `hashStruct(s) = keccak256(typeHash ‖ encodeData(s))`; the object must have exactly the
declared members -/
def hashStruct (keccak : Bytes → Bytes) (types : Types) : Nat → Str → List (Str × JVal) → Option Bytes
  | 0, _, _ => none
  | fuel + 1, name, kv =>
    match types.get? name, encodeType types name with
    | some members, some ty =>
      -- exactly the declared member names: none missing, none additional, none repeated
      if kv.length = members.length ∧ (members.map (·.name)).Nodup then
        match encodeMemberData keccak types fuel members kv with
        | some enc => some (keccak (keccak (Utf8.encode ty) ++ enc))
        | none => none
      else none
    | _, _ => none
def encodeMemberData (keccak : Bytes → Bytes) (types : Types) :
    Nat → List Member → List (Str × JVal) → Option Bytes
  | _, [], _ => some []
  | 0, _ :: _, _ => none
  | fuel + 1, m :: ms, kv =>
    match JVal.get? m.name kv with
    | none => none
    | some v =>
      match encodeField keccak types fuel m.kind v, encodeMemberData keccak types fuel ms kv with
      | some b, some bs => some (b ++ bs)
      | _, _ => none
end

/-! ### domain -/

/-- the standard domain fields, in order -/
def standardDomain : List Member :=
  [⟨chars! "name", .string⟩, ⟨chars! "version", .string⟩, ⟨chars! "chainId", .uint 256⟩,
   ⟨chars! "verifyingContract", .address⟩, ⟨chars! "salt", .bytes (some 32)⟩]

/-- a well-formed domain type: a non-empty sub-sequence of the standard fields -/
def WellFormedDomain (members : List Member) : Prop :=
  members ≠ [] ∧ members.Sublist standardDomain

/-- executable form -/
def isSublist : List Member → List Member → Bool
  | [], _ => true
  | _ :: _, [] => false
  | a :: as, b :: bs => if a = b then isSublist as bs else isSublist (a :: as) bs

/-- the signing digest: `keccak256(0x19 0x01 ‖ domainSeparator ‖ hashStruct(message))` -/
def digests (keccak : Bytes → Bytes) (types : Types) (primary : Str) (domain message : List (Str × JVal))
    (fuel : Nat) : Option (Bytes × Bytes × Bytes) :=
  match types.get? (chars! "EIP712Domain") with
  | none => none
  | some dm =>
    if !(dm ≠ [] && isSublist dm standardDomain) then none
    else
      match hashStruct keccak types fuel (chars! "EIP712Domain") domain,
            hashStruct keccak types fuel primary message with
      | some ds, some mh => some (ds, mh, keccak ([0x19, 0x01] ++ ds ++ mh))
      | _, _ => none

end Hdw.Spec.Eip712
