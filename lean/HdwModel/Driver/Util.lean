/- Argument/response plumbing of the line protocol. -/
import HdwModel.Model.Hex
import HdwModel.Model.Text
import HdwModel.Prim.Real

namespace Hdw.Driver

/-- response of an operation -/
inductive Resp where
  | ok (fields : List String)
  | err
  | panic
  | harness (msg : String)

def Resp.render : Resp → String
  | .ok [] => "ok"
  | .ok fs => "ok " ++ " ".intercalate fs
  | .err => "err"
  | .panic => "panic"
  | .harness m => "harness-error " ++ m

def unhex (s : String) : Option Bytes :=
  if s == "-" then some [] else hexDecode s.toList

def hx (b : Bytes) : String :=
  if b.isEmpty then "-" else String.ofList (hexEncode b)

def utf8Arg (s : String) : Option Str := do
  let b ← unhex s
  let str ← String.fromUTF8? ⟨b.toArray⟩
  pure str.toList

def hxStr (s : Str) : String := hx (String.ofList s).toUTF8.toList

def ofRes {α} (r : Res α) (f : α → List String) : Resp :=
  match r with
  | .ok a => .ok (f a)
  | .err _ => .err
  | .panic _ => .panic

def nat256hex (n : Nat) : String := String.ofList (hexEncode (beFixed 32 n))

end Hdw.Driver
