/- Judge for typed data (C08, C09, C20): the executable EIP-712 spec on the document. -/
import HdwModel.Driver.Judge
import HdwModel.Spec.Eip712

namespace Hdw.Driver.Judge
open Hdw Hdw.Driver Hdw.Json Hdw.TypedData

mutual
/-- does the value contain a number literal on which the implementation is allowed to refuse
(float syntax, or an integer literal outside i64/u64)? -/
def hasOpenLiteral : JVal → Bool
  | .num n => n.fracDigits.isSome || n.exp.isSome || (n.intDigits.length > 18)
  | .arr l => hasOpenLiteralList l
  | .obj kv => hasOpenLiteralMembers kv
  | _ => false
def hasOpenLiteralList : List JVal → Bool
  | [] => false
  | v :: vs => hasOpenLiteral v || hasOpenLiteralList vs
def hasOpenLiteralMembers : List (Str × JVal) → Bool
  | [] => false
  | (_, v) :: rest => hasOpenLiteral v || hasOpenLiteralMembers rest
end

mutual
/-- does the value contain a string spelt with a doubled `0x0x` prefix?  `ethaddr` reads `0x0x<40 hex>` as an address
(DESIGN 13.4 n3: the statements are silent on that spelling), so a document that is refused by the spec only because of
such a string is left to the model correspondence. -/
def hasDoubledPrefix : JVal → Bool
  | .str ('0' :: 'x' :: '0' :: 'x' :: _) => true
  | .arr l => hasDoubledPrefixList l
  | .obj kv => hasDoubledPrefixMembers kv
  | _ => false
def hasDoubledPrefixList : List JVal → Bool
  | [] => false
  | v :: vs => hasDoubledPrefix v || hasDoubledPrefixList vs
def hasDoubledPrefixMembers : List (Str × JVal) → Bool
  | [] => false
  | (_, v) :: rest => hasDoubledPrefix v || hasDoubledPrefixMembers rest
end

def judgeTdHash (input : Bytes) (resp : String) : Verdict :=
  match Json.parseRaw input with
  | none => .skip
  | some raw =>
    match blobOfJson raw with
    | .ok b =>
      let fuel := 3 * (jsizeMembers b.domain + jsizeMembers b.message) + 4
      match Spec.Eip712.digests Prim.keccak256 b.types b.primaryType b.domain b.message fuel with
      | some (ds, mh, dg) =>
        if resp == s!"ok {hx ds} {hx mh} {hx dg}" then .holds
        else if resp == "err" && (hasOpenLiteralMembers b.domain || hasOpenLiteralMembers b.message) then .holds
        else .fails "digests differ from EIP-712 hashStruct/encodeType of the document"
      | none =>
        if resp != "err" && (hasDoubledPrefixMembers b.domain || hasDoubledPrefixMembers b.message) then .skip
        else expect (resp == "err") "document does not conform to its declared types (or domain type malformed / type undefined): must be refused"
    | _ => .skip

/-- the same judgement for the command-line routes, which print one digest (`--message-hash`:
the message struct hash, otherwise the signing digest) -/
def judgeCliHashTd (input : Bytes) (messageHash : Bool) (resp : String) : Verdict :=
  match Json.parseRaw input with
  | none => .skip
  | some raw =>
    match blobOfJson raw with
    | .ok b =>
      let fuel := 3 * (jsizeMembers b.domain + jsizeMembers b.message) + 4
      match Spec.Eip712.digests Prim.keccak256 b.types b.primaryType b.domain b.message fuel with
      | some (_, mh, dg) =>
        let want := "0x" ++ String.join ((if messageHash then mh else dg).map fun x => lowerHexFixed x.toNat 2) ++ "\n"
        if resp == "ok " ++ hx want.toUTF8.toList then .holds
        else if resp == "err" && (hasOpenLiteralMembers b.domain || hasOpenLiteralMembers b.message) then .holds
        else .fails "printed digest differs from the EIP-712 value for this document"
      | none =>
        if resp != "err" && (hasDoubledPrefixMembers b.domain || hasDoubledPrefixMembers b.message) then .skip
        else expect (resp == "err") "ill-formed domain type / non-conforming document: every command must refuse it before hashing anything"
    | _ => .skip

def judgeEncodeType (typesJson : Bytes) (name : Str) (resp : String) : Verdict :=
  match Json.parseRaw typesJson with
  | some (.obj kv) =>
    match typesOfJson kv with
    | .ok ts =>
      match Spec.Eip712.encodeType ts name with
      | some s => expect (resp == "ok " ++ hxStr s) "type string differs from EIP-712 encodeType (primary first, then referenced types once each in name order)"
      | none => expect (resp == "err") "undefined type must be an error"
    | _ => .skip
  | _ => .skip

end Hdw.Driver.Judge
